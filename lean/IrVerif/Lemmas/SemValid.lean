/-
Lemmas/SemValid.lean — the modelled passes preserve the validity predicate `validModel` (SSA, closed,
topologically ordered, scoped), so that a chain of them needs no assumption about the intermediate models
(`C05_compose_valid_partial`).  Orderedness (`noFwdG`) of the deleting / substituting passes is C14's
(Lemmas/PassFlags7.lean, PassFlags8.lean).
-/
import IrVerif.Lemmas.SemLift
import IrVerif.Lemmas.PassFlags7
import IrVerif.Lemmas.PassFlags8
import IrVerif.Lemmas.SemDedup
namespace IrVerif.Passes
open IrVerif.Sem IrVerif.PassFlags

/-! ## scoping depends on the scope as a set -/

mutual
theorem scopedG_mono : ∀ (g : Graph) (D D' : List VId), (∀ v ∈ D, v ∈ D') → scopedG D g = true → scopedG D' g = true
  | .mk inputs outputs inits nodes, D, D', h, hs => by
    simp only [scopedG] at hs ⊢
    refine scopedNodes_mono nodes _ _ (fun v hv => ?_) hs
    simp only [List.mem_append] at hv ⊢
    rcases hv with (hv | hv) | hv
    · exact Or.inl (Or.inl (h v hv))
    · exact Or.inl (Or.inr hv)
    · exact Or.inr hv
theorem scopedNodes_mono : ∀ (ns : List Node) (D D' : List VId), (∀ v ∈ D, v ∈ D') → scopedNodes D ns = true →
    scopedNodes D' ns = true
  | [], _, _, _, _ => by simp [scopedNodes]
  | n :: ns, D, D', h, hs => by
    simp only [scopedNodes, Bool.and_eq_true, List.all_eq_true, List.contains_eq_mem, decide_eq_true_eq] at hs ⊢
    refine ⟨⟨fun v hv => h v (hs.1.1 v hv), scopedN_mono n D D' h hs.1.2⟩, scopedNodes_mono ns _ _ (fun v hv => ?_) hs.2⟩
    simp only [List.mem_append] at hv ⊢
    exact hv.imp (h v) id
theorem scopedN_mono : ∀ (n : Node) (D D' : List VId), (∀ v ∈ D, v ∈ D') → scopedN D n = true → scopedN D' n = true
  | .mk _ _ _ _ bodies, D, D', h, hs => by
    simp only [scopedN] at hs ⊢
    exact scopedBodies_mono bodies D D' h hs
theorem scopedBodies_mono : ∀ (bs : List Graph) (D D' : List VId), (∀ v ∈ D, v ∈ D') → scopedBodies D bs = true →
    scopedBodies D' bs = true
  | [], _, _, _, _ => by simp [scopedBodies]
  | b :: bs, D, D', h, hs => by
    simp only [scopedBodies, Bool.and_eq_true] at hs ⊢
    exact ⟨scopedG_mono b D D' h hs.1, scopedBodies_mono bs D D' h hs.2⟩
end

theorem validG_iff' (g : Graph) :
    validG g = true ↔ ssaG g = true ∧ closedG g = true ∧ noFwdG g = true ∧ scopedG [] g = true := by
  simp [validG, and_assoc]

/-! ## RemoveInitializersFromInputs / AddInitializersToInputs -/

/-- what the two passes do to the input list: no repetition, the same values together with the initializers -/
def InputsOK (f : List VId → List VId → List VId) : Prop :=
  ∀ inputs ids : List VId, inputs.Nodup → ids.Nodup →
    (f inputs ids).Nodup ∧ ∀ v, (v ∈ f inputs ids ∨ v ∈ ids) ↔ (v ∈ inputs ∨ v ∈ ids)

theorem inputsOK_remove : InputsOK removeInitsFromInputs := by
  intro inputs ids hi _
  refine ⟨hi.filter _, fun v => ?_⟩
  simp only [removeInitsFromInputs, List.mem_filter, Bool.not_eq_true', List.contains_eq_mem, decide_eq_false_iff_not]
  constructor
  · rintro (⟨h, _⟩ | h)
    · exact Or.inl h
    · exact Or.inr h
  · rintro (h | h)
    · by_cases hv : v ∈ ids
      · exact Or.inr hv
      · exact Or.inl ⟨h, hv⟩
    · exact Or.inr h

theorem inputsOK_add : InputsOK addInitsToInputs := by
  intro inputs ids hi hd
  refine ⟨?_, fun v => ?_⟩
  · simp only [addInitsToInputs]
    refine List.nodup_append.2 ⟨hi, hd.filter _, ?_⟩
    intro a ha b hb hab
    subst hab
    simp only [List.mem_filter, Bool.not_eq_true', List.contains_eq_mem, decide_eq_false_iff_not] at hb
    exact hb.2 ha
  · simp only [addInitsToInputs, List.mem_append, List.mem_filter]
    constructor
    · rintro ((h | ⟨h, _⟩) | h)
      · exact Or.inl h
      · exact Or.inr h
      · exact Or.inr h
    · rintro (h | h)
      · exact Or.inl (Or.inl h)
      · exact Or.inr h

theorem mapInputsTop_valid (f : List VId → List VId → List VId) (hf : InputsOK f) :
    ∀ g : Graph, validG g = true → validG (mapInputsTop f g) = true
  | .mk inputs outputs inits nodes, hv => by
    rw [validG_iff'] at hv ⊢
    obtain ⟨hs, hc, hn, hsc⟩ := hv
    simp only [ssaG, Bool.and_eq_true, nodupB_iff, disj_iff] at hs
    simp only [closedG, Bool.and_eq_true, List.all_eq_true, List.contains_eq_mem, decide_eq_true_eq] at hc
    obtain ⟨h1, h2⟩ := hf inputs (inits.map Prod.fst) hs.1.1.1 hs.1.1.2
    have hmem : ∀ v, v ∈ f inputs (inits.map Prod.fst) ++ inits.map Prod.fst ↔ v ∈ inputs ++ inits.map Prod.fst := by
      intro v; simp only [List.mem_append]; exact h2 v
    simp only [mapInputsTop]
    refine ⟨?_, ?_, hn, ?_⟩
    · simp only [ssaG, Bool.and_eq_true, nodupB_iff, disj_iff]
      exact ⟨⟨⟨h1, hs.1.1.2⟩, fun x hx => hs.1.2 x ((hmem x).1 hx)⟩, hs.2⟩
    · simp only [closedG, Bool.and_eq_true, List.all_eq_true, List.contains_eq_mem, decide_eq_true_eq]
      refine ⟨fun v hv => ?_, hc.2⟩
      have := hc.1 v hv
      rw [List.mem_append] at this ⊢
      exact this.imp (hmem v).2 id
    · simp only [scopedG] at hsc ⊢
      refine scopedNodes_mono nodes _ _ (fun v hv => ?_) hsc
      simp only [List.nil_append] at hv ⊢
      exact (hmem v).2 hv

/-! ## LiftConstantsToInitializers -/

theorem liftCandidate_outs {la : Bool} {lim : Nat} {gouts : List VId} {op : OpId} {attrs : List (String × AttrData)}
    {outs : List VId} {p : VId × Tensor} (h : liftCandidate la lim gouts op attrs outs = some p) : outs = [p.1] := by
  unfold liftCandidate at h
  split at h
  · split at h
    · cases h
    · simp only [Option.some.injEq] at h; rw [← h]
  · cases h

mutual
theorem liftG_valid (la : Bool) (lim : Nat) : ∀ (g : Graph) (D D' : List VId), ssaG g = true → closedG g = true →
    scopedG D g = true → (∀ v ∈ D, v ∈ D') →
    ssaG (liftG la lim g) = true ∧ closedG (liftG la lim g) = true ∧ scopedG D' (liftG la lim g) = true
  | .mk inputs outputs inits nodes, D, D', hs, hc, hsc, hD => by
    simp only [ssaG, Bool.and_eq_true, nodupB_iff, disj_iff] at hs
    simp only [closedG, Bool.and_eq_true, List.all_eq_true, List.contains_eq_mem, decide_eq_true_eq] at hc
    simp only [scopedG] at hsc
    obtain ⟨k1, k2, k3, k4, k5⟩ := liftNodes_valid la lim outputs nodes (D ++ inputs ++ inits.map Prod.fst)
      (D' ++ inputs ++ (inits ++ (liftNodes la lim outputs nodes).2).map Prod.fst) hs.2 hc.2 hsc
      (fun v hv => by
        simp only [List.mem_append, List.map_append] at hv ⊢
        rcases hv with (hv | hv) | hv
        · exact Or.inl (Or.inl (hD v hv))
        · exact Or.inl (Or.inr hv)
        · exact Or.inr (Or.inl hv))
      (fun y hy => by simp only [List.mem_append, List.map_append]; exact Or.inr (Or.inr hy))
    have hsub := (liftNodes_shrink la lim outputs nodes).1.defs
    have hL := liftNodes_ids_sublist la lim outputs nodes
    simp only [liftG]
    refine ⟨?_, ?_, ?_⟩
    · simp only [ssaG, Bool.and_eq_true, nodupB_iff, disj_iff, List.map_append]
      refine ⟨⟨⟨hs.1.1.1, ?_⟩, ?_⟩, k1⟩
      · refine List.nodup_append.2 ⟨hs.1.1.2, hL.nodup (outsTop_nodup nodes hs.2), ?_⟩
        intro a ha b hb hab
        subst hab
        exact hs.1.2 a (List.mem_append_right _ ha) (outsTop_sub_defsNodes nodes (hL.subset hb))
      · intro x hx hx'
        simp only [List.mem_append] at hx
        rcases hx with hx | hx | hx
        · exact hs.1.2 x (List.mem_append_left _ hx) (hsub x hx')
        · exact hs.1.2 x (List.mem_append_right _ hx) (hsub x hx')
        · exact k4 x hx hx'
    · simp only [closedG, Bool.and_eq_true, List.all_eq_true, List.contains_eq_mem, decide_eq_true_eq, List.map_append]
      refine ⟨fun v hv => ?_, k2⟩
      have := hc.1 v hv
      simp only [List.mem_append] at this ⊢
      rcases this with (h | h) | h
      · exact Or.inl (Or.inl h)
      · exact Or.inl (Or.inr (Or.inl h))
      · rcases k5 v h with h' | h'
        · exact Or.inr h'
        · exact Or.inl (Or.inr (Or.inr h'))
    · simp only [scopedG]; exact k3
theorem liftNodes_valid (la : Bool) (lim : Nat) (gouts : List VId) : ∀ (ns : List Node) (D D' : List VId),
    ssaNodes ns = true → closedNodes ns = true → scopedNodes D ns = true → (∀ v ∈ D, v ∈ D') →
    (∀ y ∈ (liftNodes la lim gouts ns).2.map Prod.fst, y ∈ D') →
    ssaNodes (liftNodes la lim gouts ns).1 = true ∧ closedNodes (liftNodes la lim gouts ns).1 = true ∧
    scopedNodes D' (liftNodes la lim gouts ns).1 = true ∧
    (∀ y ∈ (liftNodes la lim gouts ns).2.map Prod.fst, y ∉ defsNodes (liftNodes la lim gouts ns).1) ∧
    (∀ v ∈ outsTop ns, v ∈ outsTop (liftNodes la lim gouts ns).1 ∨ v ∈ (liftNodes la lim gouts ns).2.map Prod.fst)
  | [], _, _, _, _, _, _, _ => by simp [liftNodes, ssaNodes, closedNodes, scopedNodes, outsTop]
  | .mk op attrs ins outs bodies :: ns, D, D', hs, hc, hsc, hD, hL => by
    simp only [ssaNodes, ssaN, Bool.and_eq_true, disj_iff, nodupB_iff] at hs
    simp only [closedNodes, closedN, Bool.and_eq_true] at hc
    simp only [scopedNodes, scopedN, Bool.and_eq_true, List.all_eq_true, List.contains_eq_mem, decide_eq_true_eq,
      Node.ins, Node.outs] at hsc
    have hsubn := (liftNodes_shrink la lim gouts ns).1.defs
    have hLn := (liftNodes_shrink la lim gouts ns).2
    cases hcand : liftCandidate la lim gouts op attrs outs with
    | some p =>
      have ho := liftCandidate_outs hcand
      simp only [liftNodes, hcand, List.map_cons, List.mem_cons] at hL ⊢
      obtain ⟨k1, k2, k3, k4, k5⟩ := liftNodes_valid la lim gouts ns (D ++ outs) D' hs.2 hc.2 hsc.2
        (fun v hv => by
          rcases List.mem_append.1 hv with hv | hv
          · exact hD v hv
          · rw [ho, List.mem_singleton] at hv
            exact hL v (Or.inl hv))
        (fun y hy => hL y (Or.inr hy))
      refine ⟨k1, k2, k3, ?_, ?_⟩
      · rintro y (hy | hy) hy'
        · subst hy
          exact hs.1.2 p.1 (by simp [defsN, ho]) (hsubn _ hy')
        · exact k4 y hy hy'
      · intro v hv
        simp only [outsTop, Node.outs, List.mem_append] at hv
        rcases hv with hv | hv
        · rw [ho, List.mem_singleton] at hv
          exact Or.inr (Or.inl hv)
        · exact (k5 v hv).imp id Or.inr
    | none =>
      simp only [liftNodes, hcand] at hL ⊢
      obtain ⟨b1, b2, b3⟩ := liftBodies_valid la lim bodies D D' hs.1.1.2 hc.1 hsc.1.2 hD
      obtain ⟨bd, _, _⟩ := liftBodies_shrink la lim bodies
      obtain ⟨k1, k2, k3, k4, k5⟩ := liftNodes_valid la lim gouts ns (D ++ outs) (D' ++ outs) hs.2 hc.2 hsc.2
        (fun v hv => by
          simp only [List.mem_append] at hv ⊢
          exact hv.imp (hD v) id)
        (fun y hy => List.mem_append_left _ (hL y hy))
      have hdn : ∀ v ∈ defsN (.mk op attrs ins outs (liftBodies la lim bodies)), v ∈ defsN (.mk op attrs ins outs bodies) := by
        intro v hv
        simp only [defsN, List.mem_append] at hv ⊢
        exact hv.imp id (bd v)
      refine ⟨?_, ?_, ?_, ?_, ?_⟩
      · simp only [ssaNodes, ssaN, Bool.and_eq_true, disj_iff, nodupB_iff]
        exact ⟨⟨⟨⟨hs.1.1.1.1, fun x hx hx' => hs.1.1.1.2 x hx (bd x hx')⟩, b1⟩,
          fun x hx hx' => hs.1.2 x (hdn x hx) (hsubn x hx')⟩, k1⟩
      · simp only [closedNodes, closedN, Bool.and_eq_true]; exact ⟨b2, k2⟩
      · simp only [scopedNodes, scopedN, Bool.and_eq_true, List.all_eq_true, List.contains_eq_mem, decide_eq_true_eq,
          Node.ins, Node.outs]
        exact ⟨⟨fun v hv => hD v (hsc.1.1 v hv), b3⟩, k3⟩
      · intro y hy hy'
        simp only [defsNodes, List.mem_append] at hy'
        rcases hy' with hy' | hy'
        · exact hs.1.2 y (hdn y hy') (hLn y hy)
        · exact k4 y hy hy'
      · intro v hv
        simp only [outsTop, Node.outs, List.mem_append] at hv ⊢
        rcases hv with hv | hv
        · exact Or.inl (Or.inl hv)
        · exact (k5 v hv).imp Or.inr id
theorem liftBodies_valid (la : Bool) (lim : Nat) : ∀ (bs : List Graph) (D D' : List VId), ssaBodies bs = true →
    closedBodies bs = true → scopedBodies D bs = true → (∀ v ∈ D, v ∈ D') →
    ssaBodies (liftBodies la lim bs) = true ∧ closedBodies (liftBodies la lim bs) = true ∧
    scopedBodies D' (liftBodies la lim bs) = true
  | [], _, _, _, _, _, _ => by simp [liftBodies, ssaBodies, closedBodies, scopedBodies]
  | b :: bs, D, D', hs, hc, hsc, hD => by
    simp only [ssaBodies, Bool.and_eq_true, disj_iff] at hs
    simp only [closedBodies, Bool.and_eq_true] at hc
    simp only [scopedBodies, Bool.and_eq_true] at hsc
    obtain ⟨g1, g2, g3⟩ := liftG_valid la lim b D D' hs.1.1 hc.1 hsc.1 hD
    obtain ⟨k1, k2, k3⟩ := liftBodies_valid la lim bs D D' hs.2 hc.2 hsc.2 hD
    simp only [liftBodies, ssaBodies, closedBodies, scopedBodies, Bool.and_eq_true, disj_iff]
    exact ⟨⟨⟨g1, fun x hx hx' => hs.1.2 x ((liftG_shrink la lim b).1 x hx) ((liftBodies_shrink la lim bs).1 x hx')⟩, k1⟩,
      ⟨g2, k2⟩, ⟨g3, k3⟩⟩
end

/-! ## LiftSubgraphInitializersToMainGraph -/

theorem lsiNodes_outsTop : ∀ ns : List Node, outsTop (lsiNodes ns).1 = outsTop ns
  | [] => by simp [lsiNodes]
  | .mk op attrs ins outs bodies :: ns => by simp only [lsiNodes, outsTop, Node.outs, lsiNodes_outsTop ns]

mutual
theorem lsiG_valid : ∀ (g : Graph) (D D' : List VId), ssaG g = true → closedG g = true → scopedG D g = true →
    (∀ v ∈ D, v ∈ D') → (∀ y ∈ (lsiG g).2.map Prod.fst, y ∈ D') →
    ssaG (lsiG g).1 = true ∧ closedG (lsiG g).1 = true ∧ scopedG D' (lsiG g).1 = true ∧
    ((lsiG g).2.map Prod.fst).Nodup ∧ (∀ y ∈ (lsiG g).2.map Prod.fst, y ∈ defsG g ∧ y ∉ defsG (lsiG g).1)
  | .mk inputs outputs inits nodes, D, D', hs, hc, hsc, hD, hM => by
    simp only [ssaG, Bool.and_eq_true, nodupB_iff, disj_iff] at hs
    simp only [closedG, Bool.and_eq_true, List.all_eq_true, List.contains_eq_mem, decide_eq_true_eq] at hc
    simp only [scopedG] at hsc
    simp only [lsiG, List.map_append, List.mem_append] at hM
    have hsub := (lsiNodes_shrink nodes).defs
    -- kept / moved initializers
    have hkept : ∀ v ∈ (inits.filter (fun p => inputs.contains p.1 || outputs.contains p.1)).map Prod.fst,
        v ∈ inits.map Prod.fst := by
      intro v hv
      obtain ⟨p, hp, e⟩ := List.mem_map.1 hv
      exact List.mem_map.2 ⟨p, (List.mem_filter.1 hp).1, e⟩
    have hmoved : ∀ v ∈ (inits.filter (fun p => !(inputs.contains p.1 || outputs.contains p.1))).map Prod.fst,
        v ∈ inits.map Prod.fst ∧ v ∉ inputs ∧ v ∉ outputs := by
      intro v hv
      obtain ⟨p, hp, e⟩ := List.mem_map.1 hv
      have h2 := (List.mem_filter.1 hp).2
      simp only [Bool.not_eq_true', Bool.or_eq_false_iff, List.contains_eq_mem, decide_eq_false_iff_not] at h2
      exact ⟨List.mem_map.2 ⟨p, (List.mem_filter.1 hp).1, e⟩, e ▸ h2.1, e ▸ h2.2⟩
    have hmk : ∀ v ∈ (inits.filter (fun p => !(inputs.contains p.1 || outputs.contains p.1))).map Prod.fst,
        v ∉ (inits.filter (fun p => inputs.contains p.1 || outputs.contains p.1)).map Prod.fst := by
      intro v hv hv'
      obtain ⟨p, hp, e⟩ := List.mem_map.1 hv
      obtain ⟨q, hq, e'⟩ := List.mem_map.1 hv'
      have hpq : p = q := eq_of_nodup_map_fst' hs.1.1.2 (List.mem_filter.1 hp).1 (List.mem_filter.1 hq).1 (e.trans e'.symm)
      have h2 := (List.mem_filter.1 hp).2
      have h3 := (List.mem_filter.1 hq).2
      rw [hpq, h3] at h2
      exact absurd h2 (by simp)
    obtain ⟨k1, k2, k3, k4, k5, k6⟩ := lsiNodes_valid nodes (D ++ inputs ++ inits.map Prod.fst)
      (D' ++ inputs ++ (inits.filter (fun p => inputs.contains p.1 || outputs.contains p.1)).map Prod.fst)
      hs.2 hc.2 hsc
      (fun v hv => by
        simp only [List.mem_append] at hv ⊢
        rcases hv with (hv | hv) | hv
        · exact Or.inl (Or.inl (hD v hv))
        · exact Or.inl (Or.inr hv)
        · obtain ⟨p, hp, e⟩ := List.mem_map.1 hv
          by_cases hk : (inputs.contains p.1 || outputs.contains p.1) = true
          · exact Or.inr (List.mem_map.2 ⟨p, List.mem_filter.2 ⟨hp, hk⟩, e⟩)
          · refine Or.inl (Or.inl (hM v (Or.inl (List.mem_map.2 ⟨p, List.mem_filter.2 ⟨hp, ?_⟩, e⟩))))
            simpa using hk)
      (fun y hy => by
        simp only [List.mem_append]
        exact Or.inl (Or.inl (hM y (Or.inr hy))))
    simp only [lsiG]
    refine ⟨?_, ?_, ?_, ?_, ?_⟩
    · simp only [ssaG, Bool.and_eq_true, nodupB_iff, disj_iff]
      refine ⟨⟨⟨hs.1.1.1, (List.Sublist.map Prod.fst List.filter_sublist).nodup hs.1.1.2⟩, ?_⟩, k1⟩
      intro x hx hx'
      refine hs.1.2 x ?_ (hsub x hx')
      rw [List.mem_append] at hx ⊢
      exact hx.imp id (hkept x)
    · simp only [closedG, Bool.and_eq_true, List.all_eq_true, List.contains_eq_mem, decide_eq_true_eq]
      refine ⟨fun v hv => ?_, k2⟩
      have := hc.1 v hv
      simp only [List.mem_append] at this ⊢
      rcases this with (h | h) | h
      · exact Or.inl (Or.inl h)
      · obtain ⟨p, hp, e⟩ := List.mem_map.1 h
        refine Or.inl (Or.inr (List.mem_map.2 ⟨p, List.mem_filter.2 ⟨hp, ?_⟩, e⟩))
        simp only [Bool.or_eq_true, List.contains_eq_mem, decide_eq_true_eq]
        exact Or.inr (e ▸ hv)
      · exact Or.inr (k6 ▸ h)
    · simp only [scopedG]; exact k3
    · simp only [List.map_append]
      refine List.nodup_append.2 ⟨(List.Sublist.map Prod.fst List.filter_sublist).nodup hs.1.1.2, k4, ?_⟩
      intro a ha b hb hab
      subst hab
      exact hs.1.2 a (List.mem_append_right _ (hmoved a ha).1) (k5 a hb).1
    · intro y hy
      simp only [List.map_append, List.mem_append] at hy
      simp only [defsG, List.mem_append, not_or]
      rcases hy with hy | hy
      · refine ⟨Or.inl (Or.inr (hmoved y hy).1), ⟨(hmoved y hy).2.1, hmk y hy⟩, fun h => ?_⟩
        exact hs.1.2 y (List.mem_append_right _ (hmoved y hy).1) (hsub y h)
      · refine ⟨Or.inr (k5 y hy).1, ⟨fun h => ?_, fun h => ?_⟩, (k5 y hy).2⟩
        · exact hs.1.2 y (List.mem_append_left _ h) (k5 y hy).1
        · exact hs.1.2 y (List.mem_append_right _ (hkept y h)) (k5 y hy).1
theorem lsiNodes_valid : ∀ (ns : List Node) (D D' : List VId), ssaNodes ns = true → closedNodes ns = true →
    scopedNodes D ns = true → (∀ v ∈ D, v ∈ D') → (∀ y ∈ (lsiNodes ns).2.map Prod.fst, y ∈ D') →
    ssaNodes (lsiNodes ns).1 = true ∧ closedNodes (lsiNodes ns).1 = true ∧ scopedNodes D' (lsiNodes ns).1 = true ∧
    ((lsiNodes ns).2.map Prod.fst).Nodup ∧
    (∀ y ∈ (lsiNodes ns).2.map Prod.fst, y ∈ defsNodes ns ∧ y ∉ defsNodes (lsiNodes ns).1) ∧
    outsTop (lsiNodes ns).1 = outsTop ns
  | [], _, _, _, _, _, _, _ => by simp [lsiNodes, ssaNodes, closedNodes, scopedNodes, outsTop]
  | .mk op attrs ins outs bodies :: ns, D, D', hs, hc, hsc, hD, hM => by
    simp only [ssaNodes, ssaN, Bool.and_eq_true, disj_iff, nodupB_iff] at hs
    simp only [closedNodes, closedN, Bool.and_eq_true] at hc
    simp only [scopedNodes, scopedN, Bool.and_eq_true, List.all_eq_true, List.contains_eq_mem, decide_eq_true_eq,
      Node.ins, Node.outs] at hsc
    simp only [lsiNodes, List.map_append, List.mem_append] at hM
    have hsubn := (lsiNodes_shrink ns).defs
    obtain ⟨bd, _, _⟩ := lsiBodies_shrink bodies
    obtain ⟨b1, b2, b3, b4, b5⟩ := lsiBodies_valid bodies D D' hs.1.1.2 hc.1 hsc.1.2 hD (fun y hy => hM y (Or.inl hy))
    obtain ⟨k1, k2, k3, k4, k5, k6⟩ := lsiNodes_valid ns (D ++ outs) (D' ++ outs) hs.2 hc.2 hsc.2
      (fun v hv => by simp only [List.mem_append] at hv ⊢; exact hv.imp (hD v) id)
      (fun y hy => List.mem_append_left _ (hM y (Or.inr hy)))
    have hdn : ∀ v ∈ defsN (.mk op attrs ins outs (lsiBodies bodies).1), v ∈ defsN (.mk op attrs ins outs bodies) := by
      intro v hv
      simp only [defsN, List.mem_append] at hv ⊢
      exact hv.imp id (bd v)
    simp only [lsiNodes]
    refine ⟨?_, ?_, ?_, ?_, ?_, ?_⟩
    · simp only [ssaNodes, ssaN, Bool.and_eq_true, disj_iff, nodupB_iff]
      exact ⟨⟨⟨⟨hs.1.1.1.1, fun x hx hx' => hs.1.1.1.2 x hx (bd x hx')⟩, b1⟩,
        fun x hx hx' => hs.1.2 x (hdn x hx) (hsubn x hx')⟩, k1⟩
    · simp only [closedNodes, closedN, Bool.and_eq_true]; exact ⟨b2, k2⟩
    · simp only [scopedNodes, scopedN, Bool.and_eq_true, List.all_eq_true, List.contains_eq_mem, decide_eq_true_eq,
        Node.ins, Node.outs]
      exact ⟨⟨fun v hv => hD v (hsc.1.1 v hv), b3⟩, k3⟩
    · simp only [List.map_append]
      refine List.nodup_append.2 ⟨b4, k4, ?_⟩
      intro a ha b hb hab
      subst hab
      exact hs.1.2 a (by simp only [defsN, List.mem_append]; exact Or.inr (b5 a ha).1) (k5 a hb).1
    · intro y hy
      simp only [List.map_append, List.mem_append] at hy
      simp only [defsNodes, defsN, List.mem_append, not_or]
      rcases hy with hy | hy
      · refine ⟨Or.inl (Or.inr (b5 y hy).1), ⟨fun h => hs.1.1.1.2 y h (b5 y hy).1, (b5 y hy).2⟩, fun h => ?_⟩
        exact hs.1.2 y (by simp only [defsN, List.mem_append]; exact Or.inr (b5 y hy).1) (hsubn y h)
      · refine ⟨Or.inr (k5 y hy).1, ⟨fun h => ?_, fun h => ?_⟩, (k5 y hy).2⟩
        · exact hs.1.2 y (by simp only [defsN, List.mem_append]; exact Or.inl h) (k5 y hy).1
        · exact hs.1.2 y (by simp only [defsN, List.mem_append]; exact Or.inr (bd y h)) (k5 y hy).1
    · simp only [outsTop, Node.outs, k6]
theorem lsiBodies_valid : ∀ (bs : List Graph) (D D' : List VId), ssaBodies bs = true → closedBodies bs = true →
    scopedBodies D bs = true → (∀ v ∈ D, v ∈ D') → (∀ y ∈ (lsiBodies bs).2.map Prod.fst, y ∈ D') →
    ssaBodies (lsiBodies bs).1 = true ∧ closedBodies (lsiBodies bs).1 = true ∧ scopedBodies D' (lsiBodies bs).1 = true ∧
    ((lsiBodies bs).2.map Prod.fst).Nodup ∧
    (∀ y ∈ (lsiBodies bs).2.map Prod.fst, y ∈ defsBodies bs ∧ y ∉ defsBodies (lsiBodies bs).1)
  | [], _, _, _, _, _, _, _ => by simp [lsiBodies, ssaBodies, closedBodies, scopedBodies]
  | b :: bs, D, D', hs, hc, hsc, hD, hM => by
    simp only [ssaBodies, Bool.and_eq_true, disj_iff] at hs
    simp only [closedBodies, Bool.and_eq_true] at hc
    simp only [scopedBodies, Bool.and_eq_true] at hsc
    simp only [lsiBodies, List.map_append, List.mem_append] at hM
    obtain ⟨g1, g2, g3, g4, g5⟩ := lsiG_valid b D D' hs.1.1 hc.1 hsc.1 hD (fun y hy => hM y (Or.inl hy))
    obtain ⟨k1, k2, k3, k4, k5⟩ := lsiBodies_valid bs D D' hs.2 hc.2 hsc.2 hD (fun y hy => hM y (Or.inr hy))
    have gd := (lsiG_shrink b).1
    have bd := (lsiBodies_shrink bs).1
    simp only [lsiBodies, ssaBodies, closedBodies, scopedBodies, Bool.and_eq_true, disj_iff]
    refine ⟨⟨⟨g1, fun x hx hx' => hs.1.2 x (gd x hx) (bd x hx')⟩, k1⟩, ⟨g2, k2⟩, ⟨g3, k3⟩, ?_, ?_⟩
    · simp only [List.map_append]
      refine List.nodup_append.2 ⟨g4, k4, ?_⟩
      intro a ha c hc' hac
      subst hac
      exact hs.1.2 a (g5 a ha).1 (k5 a hc').1
    · intro y hy
      simp only [List.map_append, List.mem_append] at hy
      simp only [defsBodies, List.mem_append, not_or]
      rcases hy with hy | hy
      · exact ⟨Or.inl (g5 y hy).1, (g5 y hy).2, fun h => hs.1.2 y (g5 y hy).1 (bd y h)⟩
      · exact ⟨Or.inr (k5 y hy).1, fun h => hs.1.2 y (gd y h) (k5 y hy).1, (k5 y hy).2⟩
end

theorem lsiModel_validG : ∀ g : Graph, validG g = true →
    validG (match g with | .mk inputs outputs inits nodes => .mk inputs outputs (inits ++ (lsiNodes nodes).2) (lsiNodes nodes).1) = true
  | .mk inputs outputs inits nodes, hv => by
    rw [validG_iff'] at hv ⊢
    obtain ⟨hs, hc, hn, hsc⟩ := hv
    simp only [ssaG, Bool.and_eq_true, nodupB_iff, disj_iff] at hs
    simp only [closedG, Bool.and_eq_true, List.all_eq_true, List.contains_eq_mem, decide_eq_true_eq] at hc
    simp only [scopedG] at hsc
    simp only [noFwdG] at hn
    have hsub := (lsiNodes_shrink nodes).defs
    obtain ⟨k1, k2, k3, k4, k5, k6⟩ := lsiNodes_valid nodes ([] ++ inputs ++ inits.map Prod.fst)
      ([] ++ inputs ++ (inits ++ (lsiNodes nodes).2).map Prod.fst) hs.2 hc.2 hsc
      (fun v hv => by
        simp only [List.nil_append, List.map_append, List.mem_append] at hv ⊢
        exact hv.imp id Or.inl)
      (fun y hy => by simp only [List.nil_append, List.map_append, List.mem_append]; exact Or.inr (Or.inr hy))
    refine ⟨?_, ?_, ?_, ?_⟩
    · simp only [ssaG, Bool.and_eq_true, nodupB_iff, disj_iff, List.map_append]
      refine ⟨⟨⟨hs.1.1.1, ?_⟩, ?_⟩, k1⟩
      · refine List.nodup_append.2 ⟨hs.1.1.2, k4, ?_⟩
        intro a ha b hb hab
        subst hab
        exact hs.1.2 a (List.mem_append_right _ ha) (k5 a hb).1
      · intro x hx hx'
        simp only [List.mem_append] at hx
        rcases hx with hx | hx | hx
        · exact hs.1.2 x (List.mem_append_left _ hx) (hsub x hx')
        · exact hs.1.2 x (List.mem_append_right _ hx) (hsub x hx')
        · exact (k5 x hx).2 hx'
    · simp only [closedG, Bool.and_eq_true, List.all_eq_true, List.contains_eq_mem, decide_eq_true_eq, List.map_append]
      refine ⟨fun v hv => ?_, k2⟩
      have := hc.1 v hv
      simp only [List.mem_append] at this ⊢
      rcases this with (h | h) | h
      · exact Or.inl (Or.inl h)
      · exact Or.inl (Or.inr (Or.inl h))
      · exact Or.inr (k6 ▸ h)
    · simp only [noFwdG]; exact (lsiNodes_shrink nodes).noFwd hn
    · simp only [scopedG]; exact k3

/-! ## RemoveUnusedNodes -/

/-! a scope may lose values that nothing inside reads -/
mutual
theorem scopedG_strengthen : ∀ (g : Graph) (D' D X : List VId), scopedG D' g = true → (∀ v ∈ D', v ∈ D ∨ v ∈ X) →
    (∀ v ∈ usesG g, v ∉ X) → scopedG D g = true
  | .mk inputs outputs inits nodes, D', D, X, hs, hD, hu => by
    simp only [scopedG] at hs ⊢
    simp only [usesG] at hu
    refine scopedNodes_strengthen nodes _ _ X hs (fun v hv => ?_) hu
    simp only [List.mem_append] at hv ⊢
    rcases hv with (hv | hv) | hv
    · exact (hD v hv).imp (fun h => Or.inl (Or.inl h)) id
    · exact Or.inl (Or.inl (Or.inr hv))
    · exact Or.inl (Or.inr hv)
theorem scopedNodes_strengthen : ∀ (ns : List Node) (D' D X : List VId), scopedNodes D' ns = true →
    (∀ v ∈ D', v ∈ D ∨ v ∈ X) → (∀ v ∈ usesNodes ns, v ∉ X) → scopedNodes D ns = true
  | [], _, _, _, _, _, _ => by simp [scopedNodes]
  | .mk op attrs ins outs bodies :: ns, D', D, X, hs, hD, hu => by
    simp only [scopedNodes, scopedN, Bool.and_eq_true, List.all_eq_true, List.contains_eq_mem, decide_eq_true_eq,
      Node.ins, Node.outs] at hs ⊢
    simp only [usesNodes, usesN, List.mem_append] at hu
    refine ⟨⟨fun v hv => ?_, scopedBodies_strengthen bodies D' D X hs.1.2 hD (fun v hv => hu v (Or.inl (Or.inr hv)))⟩,
      scopedNodes_strengthen ns _ _ X hs.2 (fun v hv => ?_) (fun v hv => hu v (Or.inr hv))⟩
    · rcases hD v (hs.1.1 v hv) with h | h
      · exact h
      · exact absurd h (hu v (Or.inl (Or.inl hv)))
    · simp only [List.mem_append] at hv ⊢
      rcases hv with hv | hv
      · exact (hD v hv).imp Or.inl id
      · exact Or.inl (Or.inr hv)
theorem scopedBodies_strengthen : ∀ (bs : List Graph) (D' D X : List VId), scopedBodies D' bs = true →
    (∀ v ∈ D', v ∈ D ∨ v ∈ X) → (∀ v ∈ usesBodies bs, v ∉ X) → scopedBodies D bs = true
  | [], _, _, _, _, _, _ => by simp [scopedBodies]
  | b :: bs, D', D, X, hs, hD, hu => by
    simp only [scopedBodies, Bool.and_eq_true] at hs ⊢
    simp only [usesBodies, List.mem_append] at hu
    exact ⟨scopedG_strengthen b D' D X hs.1 hD (fun v hv => hu v (Or.inl hv)),
      scopedBodies_strengthen bs D' D X hs.2 hD (fun v hv => hu v (Or.inr hv))⟩
end

theorem mem_ins_trim {v : VId} {ins : List (Option VId)} (h : v ∈ (trimTrailingNone ins).filterMap id) :
    v ∈ ins.filterMap id := filterMap_trim h

mutual
theorem dceG_valid : ∀ (g : Graph) (D : List VId), ssaG g = true → closedG g = true → scopedG D g = true →
    ssaG (dceG g).1 = true ∧ closedG (dceG g).1 = true ∧ scopedG D (dceG g).1 = true
  | .mk inputs outputs inits nodes, D, hs, hc, hsc => by
    simp only [ssaG, Bool.and_eq_true, nodupB_iff, disj_iff] at hs
    simp only [closedG, Bool.and_eq_true, List.all_eq_true, List.contains_eq_mem, decide_eq_true_eq] at hc
    simp only [scopedG] at hsc
    obtain ⟨k1, k2, k3, k4⟩ := dceNodes_valid outputs nodes [] _ hs.2 hc.2 hsc
    have hsub := (dceNodes_shrink outputs [] nodes).defs
    simp only [dceG]
    refine ⟨?_, ?_, ?_⟩
    · simp only [ssaG, Bool.and_eq_true, nodupB_iff, disj_iff]
      exact ⟨⟨hs.1.1, fun x hx hx' => hs.1.2 x hx (hsub x hx')⟩, k1⟩
    · simp only [closedG, Bool.and_eq_true, List.all_eq_true, List.contains_eq_mem, decide_eq_true_eq]
      refine ⟨fun v hv => ?_, k2⟩
      have := hc.1 v hv
      simp only [List.mem_append] at this ⊢
      exact this.imp id (k4 v hv)
    · simp only [scopedG]; exact k3
theorem dceNodes_valid (gouts : List VId) : ∀ (ns : List Node) (pre D : List VId), ssaNodes ns = true →
    closedNodes ns = true → scopedNodes D ns = true →
    ssaNodes (dceNodes gouts pre ns).1 = true ∧ closedNodes (dceNodes gouts pre ns).1 = true ∧
    scopedNodes D (dceNodes gouts pre ns).1 = true ∧
    (∀ v ∈ gouts, v ∈ outsTop ns → v ∈ outsTop (dceNodes gouts pre ns).1)
  | [], _, _, _, _, _ => by simp [dceNodes, ssaNodes, closedNodes, scopedNodes, outsTop]
  | .mk op attrs ins outs bodies :: ns, pre, D, hs, hc, hsc => by
    simp only [ssaNodes, ssaN, Bool.and_eq_true, disj_iff, nodupB_iff] at hs
    simp only [closedNodes, closedN, Bool.and_eq_true] at hc
    simp only [scopedNodes, scopedN, Bool.and_eq_true, List.all_eq_true, List.contains_eq_mem, decide_eq_true_eq,
      Node.ins, Node.outs] at hsc
    obtain ⟨k1, k2, k3, k4⟩ := dceNodes_valid gouts ns (pre ++ usesN (.mk op attrs ins outs bodies)) (D ++ outs) hs.2 hc.2 hsc.2
    have hsubn := (dceNodes_shrink gouts (pre ++ usesN (.mk op attrs ins outs bodies)) ns).defs
    simp only [dceNodes]
    split
    · rename_i hrem
      simp only [dceRemovable, List.all_eq_true, Bool.not_eq_true', List.contains_eq_mem, decide_eq_false_iff_not,
        List.mem_append, not_or] at hrem
      refine ⟨k1, k2, ?_, ?_⟩
      · exact scopedNodes_strengthen _ (D ++ outs) D outs k3 (fun v hv => List.mem_append.1 hv)
          (fun v hv hv' => (hrem v hv').1.2 hv)
      · intro v hv hvo
        simp only [outsTop, Node.outs, List.mem_append] at hvo
        rcases hvo with hvo | hvo
        · exact absurd hv (hrem v hvo).1.1.1
        · exact k4 v hv hvo
    · obtain ⟨b1, b2, b3⟩ := dceBodies_valid bodies D hs.1.1.2 hc.1 hsc.1.2
      obtain ⟨bd, _, _⟩ := dceBodies_shrink bodies
      have hdn : ∀ v ∈ defsN (.mk op attrs (trimTrailingNone ins) outs (dceBodies bodies).1), v ∈ defsN (.mk op attrs ins outs bodies) := by
        intro v hv
        simp only [defsN, List.mem_append] at hv ⊢
        exact hv.imp id (bd v)
      refine ⟨?_, ?_, ?_, ?_⟩
      · simp only [ssaNodes, ssaN, Bool.and_eq_true, disj_iff, nodupB_iff]
        exact ⟨⟨⟨⟨hs.1.1.1.1, fun x hx hx' => hs.1.1.1.2 x hx (bd x hx')⟩, b1⟩,
          fun x hx hx' => hs.1.2 x (hdn x hx) (hsubn x hx')⟩, k1⟩
      · simp only [closedNodes, closedN, Bool.and_eq_true]; exact ⟨b2, k2⟩
      · simp only [scopedNodes, scopedN, Bool.and_eq_true, List.all_eq_true, List.contains_eq_mem, decide_eq_true_eq,
          Node.ins, Node.outs]
        exact ⟨⟨fun v hv => hsc.1.1 v (mem_ins_trim hv), b3⟩, k3⟩
      · intro v hv hvo
        simp only [outsTop, Node.outs, List.mem_append] at hvo ⊢
        exact hvo.imp id (k4 v hv)
theorem dceBodies_valid : ∀ (bs : List Graph) (D : List VId), ssaBodies bs = true → closedBodies bs = true →
    scopedBodies D bs = true →
    ssaBodies (dceBodies bs).1 = true ∧ closedBodies (dceBodies bs).1 = true ∧ scopedBodies D (dceBodies bs).1 = true
  | [], _, _, _, _ => by simp [dceBodies, ssaBodies, closedBodies, scopedBodies]
  | b :: bs, D, hs, hc, hsc => by
    simp only [ssaBodies, Bool.and_eq_true, disj_iff] at hs
    simp only [closedBodies, Bool.and_eq_true] at hc
    simp only [scopedBodies, Bool.and_eq_true] at hsc
    obtain ⟨g1, g2, g3⟩ := dceG_valid b D hs.1.1 hc.1 hsc.1
    obtain ⟨k1, k2, k3⟩ := dceBodies_valid bs D hs.2 hc.2 hsc.2
    simp only [dceBodies, ssaBodies, closedBodies, scopedBodies, Bool.and_eq_true, disj_iff]
    exact ⟨⟨⟨g1, fun x hx hx' => hs.1.2 x ((dceG_shrink b).1 x hx) ((dceBodies_shrink bs).1 x hx')⟩, k1⟩,
      ⟨g2, k2⟩, ⟨g3, k3⟩⟩
end

theorem dceG_validG (g : Graph) (hv : validG g = true) : validG (dceG g).1 = true := by
  rw [validG_iff'] at hv ⊢
  obtain ⟨k1, k2, k3⟩ := dceG_valid g [] hv.1 hv.2.1 hv.2.2.2
  exact ⟨k1, k2, (dceG_shrink g).2.2 hv.2.2.1, k3⟩

/-- the main graph: unused initializers are removed as well -/
theorem dceModel_graph_valid (g : Graph) (hv : validG g = true) :
    validG (.mk (dceG g).1.inputs (dceG g).1.outputs
      ((dceG g).1.inits.filter (fun p => (usesG (dceG g).1 ++ (dceG g).2).contains p.1 || (dceG g).1.outputs.contains p.1 ||
        (dceG g).1.inputs.contains p.1)) (dceG g).1.nodes) = true := by
  have h1 := dceG_validG g hv
  cases hg : (dceG g).1 with
  | mk inputs outputs inits nodes =>
    rw [hg] at h1
    rw [validG_iff'] at h1 ⊢
    obtain ⟨hs, hc, hn, hsc⟩ := h1
    simp only [ssaG, Bool.and_eq_true, nodupB_iff, disj_iff] at hs
    simp only [closedG, Bool.and_eq_true, List.all_eq_true, List.contains_eq_mem, decide_eq_true_eq] at hc
    simp only [scopedG] at hsc
    simp only [Graph.inputs, Graph.outputs, Graph.inits, Graph.nodes]
    have hkept : ∀ v ∈ (inits.filter (fun p => (usesG (Graph.mk inputs outputs inits nodes) ++ (dceG g).2).contains p.1 ||
        outputs.contains p.1 || inputs.contains p.1)).map Prod.fst, v ∈ inits.map Prod.fst := by
      intro v hv
      obtain ⟨p, hp, e⟩ := List.mem_map.1 hv
      exact List.mem_map.2 ⟨p, (List.mem_filter.1 hp).1, e⟩
    refine ⟨?_, ?_, hn, ?_⟩
    · simp only [ssaG, Bool.and_eq_true, nodupB_iff, disj_iff]
      refine ⟨⟨⟨hs.1.1.1, (List.Sublist.map Prod.fst List.filter_sublist).nodup hs.1.1.2⟩, ?_⟩, hs.2⟩
      intro x hx
      refine hs.1.2 x ?_
      rw [List.mem_append] at hx ⊢
      exact hx.imp id (hkept x)
    · simp only [closedG, Bool.and_eq_true, List.all_eq_true, List.contains_eq_mem, decide_eq_true_eq]
      refine ⟨fun v hv => ?_, hc.2⟩
      have := hc.1 v hv
      simp only [List.mem_append] at this ⊢
      rcases this with (h | h) | h
      · exact Or.inl (Or.inl h)
      · obtain ⟨p, hp, e⟩ := List.mem_map.1 h
        refine Or.inl (Or.inr (List.mem_map.2 ⟨p, List.mem_filter.2 ⟨hp, ?_⟩, e⟩))
        simp only [Bool.or_eq_true, List.contains_eq_mem, decide_eq_true_eq]
        exact Or.inl (Or.inr (e ▸ hv))
      · exact Or.inr h
    · simp only [scopedG]
      -- the removed initializers are read by no node
      refine scopedNodes_strengthen nodes _ _
        ((inits.filter (fun p => !((usesG (Graph.mk inputs outputs inits nodes) ++ (dceG g).2).contains p.1 ||
          outputs.contains p.1 || inputs.contains p.1))).map Prod.fst) hsc (fun v hv => ?_) (fun v hv hv' => ?_)
      · simp only [List.nil_append, List.mem_append] at hv ⊢
        rcases hv with hv | hv
        · exact Or.inl (Or.inl hv)
        · obtain ⟨p, hp, e⟩ := List.mem_map.1 hv
          by_cases hk : ((usesG (Graph.mk inputs outputs inits nodes) ++ (dceG g).2).contains p.1 ||
              outputs.contains p.1 || inputs.contains p.1) = true
          · exact Or.inl (Or.inr (List.mem_map.2 ⟨p, List.mem_filter.2 ⟨hp, hk⟩, e⟩))
          · exact Or.inr (List.mem_map.2 ⟨p, List.mem_filter.2 ⟨hp, by simpa using hk⟩, e⟩)
      · obtain ⟨p, hp, e⟩ := List.mem_map.1 hv'
        have h2 := (List.mem_filter.1 hp).2
        simp only [Bool.not_eq_true', Bool.or_eq_false_iff, List.contains_eq_mem, decide_eq_false_iff_not,
          List.mem_append, not_or, usesG] at h2
        exact h2.1.1.1 (e ▸ hv)

/-! ## DeduplicateInitializers -/

theorem app_of_not_key {σ : Subst} {v : VId} (h : ∀ p ∈ σ, p.1 ≠ v) : σ.app v = v := by
  rcases Subst.app_cases σ v with h' | ⟨p, hp, h1, _⟩
  · exact h'
  · exact absurd h1 (h p hp)

theorem mem_substIns' {σ : Subst} {ins : List (Option VId)} {w : VId} (h : w ∈ (substIns σ ins).filterMap id) :
    ∃ v ∈ ins.filterMap id, w = σ.app v := by
  simp only [substIns, List.mem_filterMap, List.mem_map, id] at h
  obtain ⟨o, ⟨o0, ho0, rfl⟩, ho⟩ := h
  cases o0 with
  | none => simp at ho
  | some v0 =>
    simp only [Option.map_some, Option.some.injEq] at ho
    exact ⟨v0, by simp [List.mem_filterMap]; exact ho0, ho.symm⟩

theorem dedupNodes_outsTop (lim : Nat) (σ : Subst) : ∀ ns : List Node, outsTop (dedupNodes lim σ ns) = outsTop ns
  | [] => by simp [dedupNodes]
  | .mk op attrs ins outs bodies :: ns => by simp only [dedupNodes, outsTop, Node.outs, dedupNodes_outsTop lim σ ns]

mutual
theorem dedupG_valid (lim : Nat) : ∀ (g : Graph) (σ : Subst) (D D' : List VId), ssaG g = true → closedG g = true →
    scopedG D g = true → (∀ v ∈ D, σ.app v ∈ D') → (∀ p ∈ σ, p.1 ∉ defsG g) →
    ssaG (dedupG lim σ g) = true ∧ closedG (dedupG lim σ g) = true ∧ scopedG D' (dedupG lim σ g) = true ∧
    (∀ v ∈ defsG (dedupG lim σ g), v ∈ defsG g)
  | .mk inputs outputs inits nodes, σ, D, D', hs, hc, hsc, hD, hσ => by
    simp only [ssaG, Bool.and_eq_true, nodupB_iff, disj_iff] at hs
    simp only [closedG, Bool.and_eq_true, List.all_eq_true, List.contains_eq_mem, decide_eq_true_eq] at hc
    simp only [scopedG] at hsc
    simp only [defsG, List.mem_append, not_or] at hσ
    obtain ⟨hsub, hb, hcc⟩ := dedupInits_spec lim (inputs ++ outputs) inits [] [] (fun key k h => by simp at h)
    have hkept : ∀ v ∈ (dedupInits lim (inputs ++ outputs) [] inits).1.map Prod.fst, v ∈ inits.map Prod.fst :=
      fun v hv => (hsub.map Prod.fst).subset hv
    have hpairs : ∀ p ∈ (dedupInits lim (inputs ++ outputs) [] inits).2, p.1 ∈ inits.map Prod.fst :=
      fun p hp => (dedupInits_mem lim (inputs ++ outputs) inits [] [] (fun key k h => by simp at h) p hp).1
    -- the substitution seen by the nodes maps the old scope into the new one
    have happ : ∀ v ∈ D ++ inputs ++ inits.map Prod.fst,
        Subst.app ((dedupInits lim (inputs ++ outputs) [] inits).2 ++ σ) v ∈
          D' ++ inputs ++ (dedupInits lim (inputs ++ outputs) [] inits).1.map Prod.fst := by
      intro v hv
      rw [Subst.app_append']
      cases hl : (dedupInits lim (inputs ++ outputs) [] inits).2.lookup v with
      | some k =>
        obtain ⟨_, t, tk, _, hk, _⟩ := hb v k hl
        simp only [List.nil_append] at hk
        simp only [List.mem_append]
        exact Or.inr (List.mem_map.2 ⟨(k, tk), hk, rfl⟩)
      | none =>
        simp only [List.mem_append] at hv ⊢
        rcases hv with (hv | hv) | hv
        · exact Or.inl (Or.inl (hD v hv))
        · rw [app_of_not_key (fun p hp h => (hσ p hp).1.1 (h ▸ hv))]
          exact Or.inl (Or.inr hv)
        · rw [app_of_not_key (fun p hp h => (hσ p hp).1.2 (h ▸ hv))]
          obtain ⟨q, hq, e⟩ := List.mem_map.1 hv
          refine Or.inr (List.mem_map.2 ⟨q, ?_, e⟩)
          have := hcc q.1 q.2 hq (e ▸ hl)
          exact this
    obtain ⟨k1, k2, k3, k4⟩ := dedupNodes_valid lim nodes _ _ _ hs.2 hc.2 hsc happ (fun p hp => by
      rcases List.mem_append.1 hp with hp | hp
      · exact fun h => hs.1.2 p.1 (List.mem_append_right _ (hpairs p hp)) h
      · exact (hσ p hp).2)
    simp only [dedupG]
    refine ⟨?_, ?_, ?_, ?_⟩
    · simp only [ssaG, Bool.and_eq_true, nodupB_iff, disj_iff]
      refine ⟨⟨⟨hs.1.1.1, (hsub.map Prod.fst).nodup hs.1.1.2⟩, fun x hx hx' => ?_⟩, k1⟩
      refine hs.1.2 x ?_ (k4 x hx')
      rw [List.mem_append] at hx ⊢
      exact hx.imp id (hkept x)
    · simp only [closedG, Bool.and_eq_true, List.all_eq_true, List.contains_eq_mem, decide_eq_true_eq]
      refine ⟨fun v hv => ?_, k2⟩
      have := hc.1 v hv
      simp only [List.mem_append] at this ⊢
      rcases this with (h | h) | h
      · exact Or.inl (Or.inl h)
      · obtain ⟨q, hq, e⟩ := List.mem_map.1 h
        refine Or.inl (Or.inr (List.mem_map.2 ⟨q, hcc q.1 q.2 hq ?_, e⟩))
        cases hl : (dedupInits lim (inputs ++ outputs) [] inits).2.lookup q.1 with
        | none => rfl
        | some k => exact absurd (List.mem_append_right _ (e ▸ hv)) (hb q.1 k hl).1
      · exact Or.inr (dedupNodes_outsTop lim _ nodes ▸ h)
    · simp only [scopedG]; exact k3
    · intro v hv
      simp only [defsG, List.mem_append] at hv ⊢
      rcases hv with (hv | hv) | hv
      · exact Or.inl (Or.inl hv)
      · exact Or.inl (Or.inr (hkept v hv))
      · exact Or.inr (k4 v hv)
theorem dedupNodes_valid (lim : Nat) : ∀ (ns : List Node) (σ : Subst) (D D' : List VId), ssaNodes ns = true →
    closedNodes ns = true → scopedNodes D ns = true → (∀ v ∈ D, σ.app v ∈ D') → (∀ p ∈ σ, p.1 ∉ defsNodes ns) →
    ssaNodes (dedupNodes lim σ ns) = true ∧ closedNodes (dedupNodes lim σ ns) = true ∧
    scopedNodes D' (dedupNodes lim σ ns) = true ∧ (∀ v ∈ defsNodes (dedupNodes lim σ ns), v ∈ defsNodes ns)
  | [], _, _, _, _, _, _, _, _ => by simp [dedupNodes, ssaNodes, closedNodes, scopedNodes]
  | .mk op attrs ins outs bodies :: ns, σ, D, D', hs, hc, hsc, hD, hσ => by
    simp only [ssaNodes, ssaN, Bool.and_eq_true, disj_iff, nodupB_iff] at hs
    simp only [closedNodes, closedN, Bool.and_eq_true] at hc
    simp only [scopedNodes, scopedN, Bool.and_eq_true, List.all_eq_true, List.contains_eq_mem, decide_eq_true_eq,
      Node.ins, Node.outs] at hsc
    simp only [defsNodes, defsN, List.mem_append, not_or] at hσ
    obtain ⟨b1, b2, b3, b4⟩ := dedupBodies_valid lim bodies σ D D' hs.1.1.2 hc.1 hsc.1.2 hD (fun p hp => (hσ p hp).1.2)
    obtain ⟨k1, k2, k3, k4⟩ := dedupNodes_valid lim ns σ (D ++ outs) (D' ++ outs) hs.2 hc.2 hsc.2
      (fun v hv => by
        simp only [List.mem_append] at hv ⊢
        rcases hv with hv | hv
        · exact Or.inl (hD v hv)
        · rw [app_of_not_key (fun p hp h => (hσ p hp).1.1 (h ▸ hv))]; exact Or.inr hv)
      (fun p hp => (hσ p hp).2)
    have hdn : ∀ v ∈ defsN (.mk op attrs (substIns σ ins) outs (dedupBodies lim σ bodies)), v ∈ defsN (.mk op attrs ins outs bodies) := by
      intro v hv
      simp only [defsN, List.mem_append] at hv ⊢
      exact hv.imp id (b4 v)
    simp only [dedupNodes]
    refine ⟨?_, ?_, ?_, ?_⟩
    · simp only [ssaNodes, ssaN, Bool.and_eq_true, disj_iff, nodupB_iff]
      exact ⟨⟨⟨⟨hs.1.1.1.1, fun x hx hx' => hs.1.1.1.2 x hx (b4 x hx')⟩, b1⟩,
        fun x hx hx' => hs.1.2 x (hdn x hx) (k4 x hx')⟩, k1⟩
    · simp only [closedNodes, closedN, Bool.and_eq_true]; exact ⟨b2, k2⟩
    · simp only [scopedNodes, scopedN, Bool.and_eq_true, List.all_eq_true, List.contains_eq_mem, decide_eq_true_eq,
        Node.ins, Node.outs]
      refine ⟨⟨fun v hv => ?_, b3⟩, k3⟩
      obtain ⟨v0, hv0, rfl⟩ := mem_substIns' hv
      exact hD v0 (hsc.1.1 v0 hv0)
    · intro v hv
      simp only [defsNodes, List.mem_append] at hv ⊢
      exact hv.elim (fun h => Or.inl (hdn v h)) (fun h => Or.inr (k4 v h))
theorem dedupBodies_valid (lim : Nat) : ∀ (bs : List Graph) (σ : Subst) (D D' : List VId), ssaBodies bs = true →
    closedBodies bs = true → scopedBodies D bs = true → (∀ v ∈ D, σ.app v ∈ D') → (∀ p ∈ σ, p.1 ∉ defsBodies bs) →
    ssaBodies (dedupBodies lim σ bs) = true ∧ closedBodies (dedupBodies lim σ bs) = true ∧
    scopedBodies D' (dedupBodies lim σ bs) = true ∧ (∀ v ∈ defsBodies (dedupBodies lim σ bs), v ∈ defsBodies bs)
  | [], _, _, _, _, _, _, _, _ => by simp [dedupBodies, ssaBodies, closedBodies, scopedBodies]
  | b :: bs, σ, D, D', hs, hc, hsc, hD, hσ => by
    simp only [ssaBodies, Bool.and_eq_true, disj_iff] at hs
    simp only [closedBodies, Bool.and_eq_true] at hc
    simp only [scopedBodies, Bool.and_eq_true] at hsc
    simp only [defsBodies, List.mem_append, not_or] at hσ
    obtain ⟨g1, g2, g3, g4⟩ := dedupG_valid lim b σ D D' hs.1.1 hc.1 hsc.1 hD (fun p hp => (hσ p hp).1)
    obtain ⟨k1, k2, k3, k4⟩ := dedupBodies_valid lim bs σ D D' hs.2 hc.2 hsc.2 hD (fun p hp => (hσ p hp).2)
    simp only [dedupBodies, ssaBodies, closedBodies, scopedBodies, Bool.and_eq_true, disj_iff]
    refine ⟨⟨⟨g1, fun x hx hx' => hs.1.2 x (g4 x hx) (k4 x hx')⟩, k1⟩, ⟨g2, k2⟩, ⟨g3, k3⟩, ?_⟩
    intro v hv
    simp only [defsBodies, List.mem_append] at hv ⊢
    exact hv.elim (fun h => Or.inl (g4 v h)) (fun h => Or.inr (k4 v h))
end

theorem dedupG_validG (lim : Nat) (g : Graph) (hv : validG g = true) : validG (dedupG lim [] g) = true := by
  rw [validG_iff'] at hv ⊢
  obtain ⟨k1, k2, k3, _⟩ := dedupG_valid lim g [] [] [] hv.1 hv.2.1 hv.2.2.2 (fun v hv => by simp at hv)
    (fun p hp => by simp at hp)
  exact ⟨k1, k2, IrVerif.PassFlags.dedupG_noFwd lim g [] hv.1 hv.2.2.1 (fun p hp => by simp at hp), k3⟩

/-! ## IdentityElimination -/

/-- no replacement value is itself replaced -/
def Res (σ : Subst) : Prop := ∀ p ∈ σ, ∀ q ∈ σ, p.2 ≠ q.1

theorem lookup_isSome_of_mem : ∀ {σ : Subst} {q : VId × VId}, q ∈ σ → ∃ a, σ.lookup q.1 = some a
  | [], _, h => by simp at h
  | (k, a) :: σ, q, h => by
    by_cases hk : q.1 = k
    · exact ⟨a, by simp [List.lookup_cons, hk]⟩
    · have h1 : (q.1 == k) = false := by simpa using hk
      rcases List.mem_cons.1 h with h | h
      · exact absurd (by rw [h]) hk
      · obtain ⟨b, hb⟩ := lookup_isSome_of_mem h
        exact ⟨b, by simp [List.lookup_cons, h1, hb]⟩

theorem app_not_key {σ : Subst} (hr : Res σ) (v : VId) : ∀ q ∈ σ, σ.app v ≠ q.1 := by
  intro q hq
  unfold Subst.app
  cases hl : σ.lookup v with
  | some a =>
    simp only [Option.getD_some]
    exact hr (v, a) (IrVerif.PassFlags.mem_of_lookup hl) q hq
  | none =>
    simp only [Option.getD_none]
    intro h
    obtain ⟨a, ha⟩ := lookup_isSome_of_mem hq
    rw [← h, hl] at ha
    cases ha

mutual
theorem ieG_valid (ii : List VId) : ∀ (g : Graph) (σ : Subst) (D D' : List VId), ssaG g = true → closedG g = true →
    noFwdG g = true → scopedG D g = true → (∀ v ∈ D, σ.app v ∈ D') →
    (∀ p ∈ σ, p.1 ∉ defsG g ∧ p.2 ∉ defsG g) → Res σ →
    ssaG (ieG ii σ g) = true ∧ closedG (ieG ii σ g) = true ∧ scopedG D' (ieG ii σ g) = true ∧
    (∀ v ∈ defsG (ieG ii σ g), v ∈ defsG g)
  | .mk inputs outputs inits nodes, σ, D, D', hs, hc, hf, hsc, hD, hσ, hr => by
    simp only [ssaG, Bool.and_eq_true, nodupB_iff, disj_iff] at hs
    simp only [closedG, Bool.and_eq_true, List.all_eq_true, List.contains_eq_mem, decide_eq_true_eq] at hc
    simp only [noFwdG] at hf
    simp only [scopedG] at hsc
    simp only [defsG, List.mem_append, not_or] at hσ
    obtain ⟨k1, k2, k3, k4, k5⟩ := ieNodes_valid ii (inputs ++ inits.map Prod.fst ++ outsTop nodes) nodes σ outputs
      (D ++ inputs ++ inits.map Prod.fst) (D' ++ inputs ++ inits.map Prod.fst) (inputs ++ inits.map Prod.fst)
      hs.2 hc.2 hf hsc
      (fun v hv => by
        simp only [List.mem_append] at hv ⊢
        rcases hv with (hv | hv) | hv
        · exact Or.inl (Or.inl (hD v hv))
        · rw [app_of_not_key (fun p hp h => (hσ p hp).1.1.1 (h ▸ hv))]; exact Or.inl (Or.inr hv)
        · rw [app_of_not_key (fun p hp h => (hσ p hp).1.1.2 (h ▸ hv))]; exact Or.inr hv)
      (fun p hp => ⟨(hσ p hp).1.2, (hσ p hp).2.2⟩) hr
      (fun o ho => by
        have := hc.1 o ho
        simp only [List.mem_append] at this ⊢
        rcases this with (h | h) | h
        · exact Or.inl (Or.inl h)
        · exact Or.inl (Or.inr h)
        · exact Or.inr h)
      (fun v hv => by
        simp only [List.mem_append] at hv ⊢
        rcases hv with (h | h) | h
        · exact Or.inl (Or.inl h)
        · exact Or.inl (Or.inr h)
        · exact Or.inr (Or.inl h))
    simp only [ieG]
    refine ⟨?_, ?_, ?_, ?_⟩
    · simp only [ssaG, Bool.and_eq_true, nodupB_iff, disj_iff]
      exact ⟨⟨hs.1.1, fun x hx hx' => hs.1.2 x hx (k5 x hx')⟩, k1⟩
    · simp only [closedG, Bool.and_eq_true, List.all_eq_true, List.contains_eq_mem, decide_eq_true_eq]
      refine ⟨fun v hv => ?_, k2⟩
      rw [List.mem_append]
      exact k4 v hv
    · simp only [scopedG]; exact k3
    · intro v hv
      simp only [defsG, List.mem_append] at hv ⊢
      exact hv.imp id (k5 v)
theorem ieNodes_valid (ii loc : List VId) : ∀ (ns : List Node) (σ : Subst) (outs D D' L' : List VId),
    ssaNodes ns = true → closedNodes ns = true → noFwdNodes ns = true → scopedNodes D ns = true →
    (∀ v ∈ D, σ.app v ∈ D') → (∀ p ∈ σ, p.1 ∉ defsNodes ns ∧ p.2 ∉ defsNodes ns) → Res σ →
    (∀ o ∈ outs, o ∈ L' ∨ o ∈ outsTop ns) → (∀ v ∈ loc, v ∈ L' ∨ v ∈ outsTop ns ∨ ∃ p ∈ σ, p.1 = v) →
    ssaNodes (ieNodes ii loc σ outs ns).nodes = true ∧ closedNodes (ieNodes ii loc σ outs ns).nodes = true ∧
    scopedNodes D' (ieNodes ii loc σ outs ns).nodes = true ∧
    (∀ o ∈ (ieNodes ii loc σ outs ns).outs, o ∈ L' ∨ o ∈ outsTop (ieNodes ii loc σ outs ns).nodes) ∧
    (∀ v ∈ defsNodes (ieNodes ii loc σ outs ns).nodes, v ∈ defsNodes ns)
  | [], _, outs, _, _, _, _, _, _, _, _, _, _, ho, _ => by
    simp only [ieNodes, ssaNodes, closedNodes, scopedNodes, outsTop, List.not_mem_nil, or_false] at ho ⊢
    exact ⟨trivial, trivial, trivial, fun o h => ho o h, fun _ h => h⟩
  | .mk op attrs ins nouts bodies :: ns, σ, outs, D, D', L', hs, hc, hf, hsc, hD, hσ, hr, ho, hloc => by
    simp only [ssaNodes, ssaN, Bool.and_eq_true, disj_iff, nodupB_iff] at hs
    simp only [closedNodes, closedN, Bool.and_eq_true] at hc
    simp only [noFwdNodes, noFwdN, Bool.and_eq_true, disj_iff, Node.ins, Node.outs, Node.bodies] at hf
    simp only [scopedNodes, scopedN, Bool.and_eq_true, List.all_eq_true, List.contains_eq_mem, decide_eq_true_eq,
      Node.ins, Node.outs] at hsc
    simp only [defsNodes, defsN, List.mem_append, not_or] at hσ
    -- the node is kept
    have keep : ssaNodes (Node.mk op attrs (substIns σ ins) nouts (ieBodies ii σ bodies) :: (ieNodes ii loc σ outs ns).nodes) = true ∧
        closedNodes (Node.mk op attrs (substIns σ ins) nouts (ieBodies ii σ bodies) :: (ieNodes ii loc σ outs ns).nodes) = true ∧
        scopedNodes D' (Node.mk op attrs (substIns σ ins) nouts (ieBodies ii σ bodies) :: (ieNodes ii loc σ outs ns).nodes) = true ∧
        (∀ o ∈ (ieNodes ii loc σ outs ns).outs, o ∈ L' ∨
          o ∈ outsTop (Node.mk op attrs (substIns σ ins) nouts (ieBodies ii σ bodies) :: (ieNodes ii loc σ outs ns).nodes)) ∧
        (∀ v ∈ defsNodes (Node.mk op attrs (substIns σ ins) nouts (ieBodies ii σ bodies) :: (ieNodes ii loc σ outs ns).nodes),
          v ∈ defsNodes (Node.mk op attrs ins nouts bodies :: ns)) := by
      obtain ⟨b1, b2, b3, b4⟩ := ieBodies_valid ii bodies σ D D' hs.1.1.2 hc.1 hf.1.2 hsc.1.2 hD
        (fun p hp => ⟨(hσ p hp).1.1.2, (hσ p hp).2.1.2⟩) hr
      obtain ⟨k1, k2, k3, k4, k5⟩ := ieNodes_valid ii loc ns σ outs (D ++ nouts) (D' ++ nouts) (L' ++ nouts)
        hs.2 hc.2 hf.2 hsc.2
        (fun v hv => by
          simp only [List.mem_append] at hv ⊢
          rcases hv with hv | hv
          · exact Or.inl (hD v hv)
          · rw [app_of_not_key (fun p hp h => (hσ p hp).1.1.1 (h ▸ hv))]; exact Or.inr hv)
        (fun p hp => ⟨(hσ p hp).1.2, (hσ p hp).2.2⟩) hr
        (fun o h => by
          have := ho o h
          simp only [outsTop, Node.outs, List.mem_append] at this ⊢
          rcases this with h | h | h
          · exact Or.inl (Or.inl h)
          · exact Or.inl (Or.inr h)
          · exact Or.inr h)
        (fun v h => by
          have := hloc v h
          simp only [outsTop, Node.outs, List.mem_append] at this ⊢
          rcases this with h | (h | h) | h
          · exact Or.inl (Or.inl h)
          · exact Or.inl (Or.inr h)
          · exact Or.inr (Or.inl h)
          · exact Or.inr (Or.inr h))
      have hdn : ∀ v ∈ defsN (.mk op attrs (substIns σ ins) nouts (ieBodies ii σ bodies)), v ∈ defsN (.mk op attrs ins nouts bodies) := by
        intro v hv
        simp only [defsN, List.mem_append] at hv ⊢
        exact hv.imp id (b4 v)
      refine ⟨?_, ?_, ?_, ?_, ?_⟩
      · simp only [ssaNodes, ssaN, Bool.and_eq_true, disj_iff, nodupB_iff]
        exact ⟨⟨⟨⟨hs.1.1.1.1, fun x hx hx' => hs.1.1.1.2 x hx (b4 x hx')⟩, b1⟩,
          fun x hx hx' => hs.1.2 x (hdn x hx) (k5 x hx')⟩, k1⟩
      · simp only [closedNodes, closedN, Bool.and_eq_true]; exact ⟨b2, k2⟩
      · simp only [scopedNodes, scopedN, Bool.and_eq_true, List.all_eq_true, List.contains_eq_mem, decide_eq_true_eq,
          Node.ins, Node.outs]
        refine ⟨⟨fun v hv => ?_, b3⟩, k3⟩
        obtain ⟨v0, hv0, rfl⟩ := mem_substIns' hv
        exact hD v0 (hsc.1.1 v0 hv0)
      · intro o h
        have := k4 o h
        simp only [outsTop, Node.outs, List.mem_append] at this ⊢
        rcases this with (h | h) | h
        · exact Or.inl h
        · exact Or.inr (Or.inl h)
        · exact Or.inr (Or.inr h)
      · intro v hv
        simp only [defsNodes, List.mem_append] at hv ⊢
        exact hv.elim (fun h => Or.inl (hdn v h)) (fun h => Or.inr (k5 v h))
    cases hcand : ieCandidate op (substIns σ ins) nouts with
    | none => simp only [ieNodes, hcand]; exact keep
    | some pr =>
      obtain ⟨x, y⟩ := pr
      by_cases hk : (outs.contains y && (ii.contains x || !loc.contains x || outs.contains x)) = true
      · simp only [ieNodes, hcand, hk, if_true]; exact keep
      · simp only [ieNodes, hcand, hk, Bool.false_eq_true, if_false]
        obtain ⟨_, hins, hno⟩ := Passes.ieCandidate_some hcand
        obtain ⟨x0, hx0, hxx⟩ := substIns_eq_singleton hins
        subst hno
        have hx0D : x0 ∈ D := hsc.1.1 x0 (by rw [hx0]; simp)
        have hxD' : x ∈ D' := hxx ▸ hD x0 hx0D
        have hx0def : x0 ∉ defsNodes (Node.mk op attrs ins [y] bodies :: ns) := hf.1.1.1 x0 (by rw [hx0]; simp)
        have hxdef : x ∉ defsNodes (Node.mk op attrs ins [y] bodies :: ns) := by
          rw [← hxx]
          rcases Subst.app_cases σ x0 with h | ⟨p, hp, _, h2⟩
          · rw [h]; exact hx0def
          · rw [← h2]
            simp only [defsNodes, defsN, List.mem_append, not_or]
            exact ⟨⟨(hσ p hp).2.1.1, (hσ p hp).2.1.2⟩, (hσ p hp).2.2⟩
        simp only [defsNodes, defsN, List.mem_append, not_or, List.mem_singleton] at hxdef
        have hxkey : ∀ q ∈ σ, x ≠ q.1 := hxx ▸ app_not_key hr x0
        have hyns : y ∉ defsNodes ns := fun h => hs.1.2 y (by simp [defsN]) h
        obtain ⟨k1, k2, k3, k4, k5⟩ := ieNodes_valid ii loc ns ((y, x) :: σ) (outs.map (fun o => if o = y then x else o))
          (D ++ [y]) D' L' hs.2 hc.2 hf.2 hsc.2
          (fun v hv => by
            rw [Subst.app_cons]
            split
            · exact hxD'
            · rcases List.mem_append.1 hv with hv | hv
              · exact hD v hv
              · rename_i hne; exact absurd (List.mem_singleton.1 hv) hne)
          (fun p hp => by
            rcases List.mem_cons.1 hp with hp | hp
            · rw [hp]; exact ⟨hyns, hxdef.2⟩
            · exact ⟨(hσ p hp).1.2, (hσ p hp).2.2⟩)
          (fun p hp q hq => by
            rcases List.mem_cons.1 hp with hp | hp <;> rcases List.mem_cons.1 hq with hq | hq
            · rw [hp, hq]; exact hxdef.1.1
            · rw [hp]; exact hxkey q hq
            · rw [hq]; exact fun h => (hσ p hp).2.1.1 (h ▸ List.mem_singleton_self y)
            · exact hr p hp q hq)
          (fun o ho' => by
            obtain ⟨o0, ho0, rfl⟩ := List.mem_map.1 ho'
            by_cases hoy : o0 = y
            · simp only [hoy, if_true]
              -- `y` is a graph output and the node is removed: `x` is a value of this graph
              have hy : outs.contains y = true := by simpa using hoy ▸ ho0
              have hlx : loc.contains x = true := by
                cases h : loc.contains x with
                | true => rfl
                | false => exact absurd (by rw [hy, h]; simp) hk
              have := hloc x (by simpa using hlx)
              rcases this with h | h | ⟨p, hp, h⟩
              · exact Or.inl h
              · simp only [outsTop, Node.outs, List.mem_append, List.mem_singleton] at h
                rcases h with h | h
                · exact absurd h hxdef.1.1
                · exact absurd (outsTop_sub_defsNodes ns h) hxdef.2
              · exact absurd h.symm (hxkey p hp)
            · simp only [hoy, if_false]
              have := ho o0 ho0
              simp only [outsTop, Node.outs, List.mem_append, List.mem_singleton] at this
              rcases this with h | h | h
              · exact Or.inl h
              · exact absurd h hoy
              · exact Or.inr h)
          (fun v hv => by
            have := hloc v hv
            simp only [outsTop, Node.outs, List.mem_append, List.mem_singleton] at this
            rcases this with h | (h | h) | ⟨p, hp, h⟩
            · exact Or.inl h
            · exact Or.inr (Or.inr ⟨(y, x), List.mem_cons_self, h.symm⟩)
            · exact Or.inr (Or.inl h)
            · exact Or.inr (Or.inr ⟨p, List.mem_cons_of_mem _ hp, h⟩))
        refine ⟨k1, k2, k3, k4, fun v hv => ?_⟩
        simp only [defsNodes, List.mem_append]
        exact Or.inr (k5 v hv)
theorem ieBodies_valid (ii : List VId) : ∀ (bs : List Graph) (σ : Subst) (D D' : List VId), ssaBodies bs = true →
    closedBodies bs = true → noFwdBodies bs = true → scopedBodies D bs = true → (∀ v ∈ D, σ.app v ∈ D') →
    (∀ p ∈ σ, p.1 ∉ defsBodies bs ∧ p.2 ∉ defsBodies bs) → Res σ →
    ssaBodies (ieBodies ii σ bs) = true ∧ closedBodies (ieBodies ii σ bs) = true ∧
    scopedBodies D' (ieBodies ii σ bs) = true ∧ (∀ v ∈ defsBodies (ieBodies ii σ bs), v ∈ defsBodies bs)
  | [], _, _, _, _, _, _, _, _, _, _ => by simp [ieBodies, ssaBodies, closedBodies, scopedBodies]
  | b :: bs, σ, D, D', hs, hc, hf, hsc, hD, hσ, hr => by
    simp only [ssaBodies, Bool.and_eq_true, disj_iff] at hs
    simp only [closedBodies, Bool.and_eq_true] at hc
    simp only [noFwdBodies, Bool.and_eq_true] at hf
    simp only [scopedBodies, Bool.and_eq_true] at hsc
    simp only [defsBodies, List.mem_append, not_or] at hσ
    obtain ⟨g1, g2, g3, g4⟩ := ieG_valid ii b σ D D' hs.1.1 hc.1 hf.1 hsc.1 hD (fun p hp => ⟨(hσ p hp).1.1, (hσ p hp).2.1⟩) hr
    obtain ⟨k1, k2, k3, k4⟩ := ieBodies_valid ii bs σ D D' hs.2 hc.2 hf.2 hsc.2 hD (fun p hp => ⟨(hσ p hp).1.2, (hσ p hp).2.2⟩) hr
    simp only [ieBodies, ssaBodies, closedBodies, scopedBodies, Bool.and_eq_true, disj_iff]
    refine ⟨⟨⟨g1, fun x hx hx' => hs.1.2 x (g4 x hx) (k4 x hx')⟩, k1⟩, ⟨g2, k2⟩, ⟨g3, k3⟩, ?_⟩
    intro v hv
    simp only [defsBodies, List.mem_append] at hv ⊢
    exact hv.elim (fun h => Or.inl (g4 v h)) (fun h => Or.inr (k4 v h))
end

theorem ieG_validG (ii : List VId) (g : Graph) (hv : validG g = true) : validG (ieG ii [] g) = true := by
  rw [validG_iff'] at hv ⊢
  obtain ⟨k1, k2, k3, _⟩ := ieG_valid ii g [] [] [] hv.1 hv.2.1 hv.2.2.1 hv.2.2.2 (fun v hv => by simp at hv)
    (fun p hp => by simp at hp) (fun p hp => by simp at hp)
  exact ⟨k1, k2, IrVerif.PassFlags.ieG_noFwd ii g [] hv.2.2.1 (fun p hp => by simp at hp), k3⟩

/-! ## the passes on models -/

theorem liftG_validG (la : Bool) (lim : Nat) (g : Graph) (hv : validG g = true) : validG (liftG la lim g) = true := by
  rw [validG_iff'] at hv ⊢
  obtain ⟨k1, k2, k3⟩ := liftG_valid la lim g [] [] hv.1 hv.2.1 hv.2.2.2 (fun v hv => hv)
  exact ⟨k1, k2, (liftG_shrink la lim g).2.2 hv.2.2.1, k3⟩

theorem all_validG_map (f : Graph → Graph) (hf : ∀ g, validG g = true → validG (f g) = true) :
    ∀ fs : List Graph, fs.all validG = true → (fs.map f).all validG = true
  | [], _ => rfl
  | g :: fs, h => by
    simp only [List.all_cons, Bool.and_eq_true] at h
    simp only [List.map_cons, List.all_cons, Bool.and_eq_true]
    exact ⟨hf g h.1, all_validG_map f hf fs h.2⟩

theorem dceModel_valid (m : Model) (hv : validModel m = true) : validModel (dceModel m) = true := by
  simp only [validModel, Bool.and_eq_true] at hv ⊢
  exact ⟨dceModel_graph_valid m.graph hv.1, all_validG_map _ (fun g hg => dceG_validG g hg) m.funcs hv.2⟩

theorem ieModel_valid (m : Model) (hv : validModel m = true) : validModel (ieModel m) = true := by
  simp only [validModel, Bool.and_eq_true] at hv ⊢
  exact ⟨ieG_validG _ m.graph hv.1, all_validG_map _ (fun g hg => ieG_validG _ g hg) m.funcs hv.2⟩

theorem dedupModel_valid (lim : Nat) (m : Model) (hv : validModel m = true) : validModel (dedupModel lim m) = true := by
  simp only [validModel, Bool.and_eq_true] at hv ⊢
  exact ⟨dedupG_validG lim m.graph hv.1, hv.2⟩

theorem liftConstModel_valid (la : Bool) (lim : Nat) (m : Model) (hv : validModel m = true) :
    validModel (liftConstModel la lim m) = true := by
  simp only [validModel, Bool.and_eq_true] at hv ⊢
  exact ⟨liftG_validG la lim m.graph hv.1, hv.2⟩

theorem lsiModel_valid (m : Model) (hv : validModel m = true) : validModel (lsiModel m) = true := by
  obtain ⟨g, fs⟩ := m
  simp only [validModel, Bool.and_eq_true] at hv ⊢
  cases g with
  | mk inputs outputs inits nodes =>
    exact ⟨lsiModel_validG (.mk inputs outputs inits nodes) hv.1, hv.2⟩

theorem rmInitInputsModel_valid (m : Model) (hv : validModel m = true) : validModel (rmInitInputsModel m) = true := by
  simp only [validModel, Bool.and_eq_true] at hv ⊢
  exact ⟨mapInputsTop_valid _ inputsOK_remove m.graph hv.1, hv.2⟩

theorem addInitInputsModel_valid (m : Model) (hv : validModel m = true) : validModel (addInitInputsModel m) = true := by
  simp only [validModel, Bool.and_eq_true] at hv ⊢
  exact ⟨mapInputsTop_valid _ inputsOK_add m.graph hv.1, hv.2⟩

end IrVerif.Passes

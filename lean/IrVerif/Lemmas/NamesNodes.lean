/-
C15 part B: node names (one used-name set per graph, no seen set) and "an exception stays".
-/
import IrVerif.Lemmas.NamesTotal
namespace IrVerif.Names

/-! ### once raised, nothing happens any more -/

theorem processValue_raised {st : FixSt} (h : st.raised = true) (v : Nat) : processValue st v = st := by
  unfold processValue; simp [h]

theorem processValues_raised {st : FixSt} (h : st.raised = true) : ∀ vs, processValues st vs = st
  | [] => rfl
  | v :: vs => by
    have : processValues st (v :: vs) = processValues (processValue st v) vs := by simp [processValues]
    rw [this, processValue_raised h, processValues_raised h vs]

theorem fixNodeName_raised {st : FixSt} (h : st.raised = true) (n : Nat) : fixNodeName st n = st := by
  unfold fixNodeName; simp [h]

theorem enterGraph_raised {st : FixSt} (h : st.raised = true) (g : Nat) (isG : Bool) (ins outs bouts : List Nat) :
    enterGraph st g isG ins outs bouts = st := by
  unfold enterGraph; simp [h]

theorem exitGraph_raised {st : FixSt} (h : st.raised = true) : exitGraph st = st := by
  unfold exitGraph; simp [h]

theorem runTr_raised : ∀ (t : Tr) {st : FixSt}, st.raised = true → runTr t st = st := by
  intro t
  induction t with
  | nil => intro st _; rfl
  | node n ins outs subs rest ihs ihr =>
    intro st h
    simp only [runTr, visitNode]
    rw [fixNodeName_raised h, processValues_raised h, ihs h, ihr h]
  | graph g isG ins outs body rest ihb ihr =>
    intro st h
    simp only [runTr]
    rw [enterGraph_raised h, enterGraph_raised h, ihb h, exitGraph_raised h, exitGraph_raised h, ihr h]

theorem raised_of {f : FixSt → FixSt} (hf : ∀ st, st.raised = true → f st = st) {st : FixSt}
    (h : (f st).raised = false) : st.raised = false := by
  cases hr : st.raised with
  | false => rfl
  | true => rw [hf st hr, hr] at h; cases h

/-! ### value steps do not touch node names -/

/-- the node-side fields -/
structure NEq (st st' : FixSt) : Prop where
  nname : st'.nname = st.nname
  nstack : st'.nstack = st.nstack
  ncnt : st'.ncnt = st.ncnt
  resN : st'.resN = st.resN

theorem NEq.refl (st : FixSt) : NEq st st := ⟨rfl, rfl, rfl, rfl⟩
theorem NEq.trans {a b c : FixSt} (h1 : NEq a b) (h2 : NEq b c) : NEq a c :=
  ⟨h2.nname.trans h1.nname, h2.nstack.trans h1.nstack, h2.ncnt.trans h1.ncnt, h2.resN.trans h1.resN⟩

theorem setName_nname (w : World) (v : Nat) (new : String) : (w.setName v new).1.nname = w.nname := by
  unfold World.setName
  repeat' split
  all_goals rfl

theorem renameTo_NEq (st : FixSt) (v : Nat) (p : String) : NEq st (renameTo st v p) := by
  unfold renameTo
  dsimp only
  split <;> exact ⟨setName_nname _ _ _, rfl, rfl, rfl⟩

theorem processValue_NEq (st : FixSt) (v : Nat) : NEq st (processValue st v) := by
  unfold processValue
  split
  · exact NEq.refl _
  · split
    · exact NEq.refl _
    · split
      · exact renameTo_NEq _ _ _
      · dsimp only
        split
        · exact ⟨rfl, rfl, rfl, rfl⟩
        · exact renameTo_NEq _ _ _

theorem processValues_NEq : ∀ (vs : List Nat) (st : FixSt), NEq st (processValues st vs)
  | [], st => NEq.refl st
  | v :: vs, st => by
    have : processValues st (v :: vs) = processValues (processValue st v) vs := by simp [processValues]
    rw [this]
    exact (processValue_NEq st v).trans (processValues_NEq vs _)

theorem enterGraph_nodes {st : FixSt} (h : st.raised = false) (g : Nat) (isG : Bool) (ins outs bouts : List Nat) :
    (enterGraph st g isG ins outs bouts).nname = st.nname ∧ (enterGraph st g isG ins outs bouts).nstack = [] :: st.nstack
    ∧ (enterGraph st g isG ins outs bouts).ncnt = st.ncnt ∧ (enterGraph st g isG ins outs bouts).resN = st.resN := by
  rw [enterGraph_eq h]
  have e1 := processValues_NEq ins (pushScope st)
  have e2 := processValues_NEq outs (processValues (pushScope st) ins)
  cases isG with
  | false =>
    simp only [Bool.false_eq_true, if_false]
    have e := (e1.trans e2).trans (processValues_NEq bouts _)
    exact ⟨e.nname, e.nstack, e.ncnt, e.resN⟩
  | true =>
    simp only [if_true]
    have e := ((e1.trans e2).trans (processValues_NEq (((processValues (processValues (pushScope st) ins) outs).dicts g).map (·.2))
      (processValues (processValues (pushScope st) ins) outs))).trans (processValues_NEq bouts _)
    exact ⟨e.nname, e.nstack, e.ncnt, e.resN⟩

/-! ### the node-name invariant -/

structure NCfg where
  orign : Nat → Option String
  resN : List String

/-- postcondition for the nodes of one graph -/
structure NScopeOK (c : NCfg) (st : FixSt) (N : List Nat) : Prop where
  inj : ∀ a ∈ N, ∀ b ∈ N, a ≠ b → st.nname a ≠ st.nname b
  named : ∀ n ∈ N, truthy (st.nname n) = true
  kept : ∀ n ∈ N, truthy (c.orign n) = true → (∀ m ∈ N, m ≠ n → c.orign m ≠ c.orign n) → st.nname n = c.orign n
  /-- `N` is in visiting order: the first holder of a name keeps it -/
  first : FirstB c.orign st.nname N

structure NGood (c : NCfg) (st : FixSt) (N : List Nat) : Prop extends NScopeOK c st N where
  top_iff : ∀ s, s ∈ topOf st.nstack ↔ ∃ n ∈ N, st.nname n = some s
  gen : ∀ n ∈ N, st.nname n = c.orign n ∨ ∃ s, st.nname n = some s ∧ s ∉ c.resN

theorem NScopeOK.of_eq {c : NCfg} {st st' : FixSt} {N : List Nat} (h : NScopeOK c st N)
    (e : ∀ n ∈ N, st'.nname n = st.nname n) : NScopeOK c st' N :=
  ⟨fun a ha b hb hab => by rw [e a ha, e b hb]; exact h.inj a ha b hb hab,
   fun n hn => by rw [e n hn]; exact h.named n hn,
   fun n hn h1 h2 => by rw [e n hn]; exact h.kept n hn h1 h2,
   h.first.fin_eq e⟩

theorem NGood.of_eq {c : NCfg} {st st' : FixSt} {N : List Nat} (h : NGood c st N)
    (e : ∀ n ∈ N, st'.nname n = st.nname n) (et : topOf st'.nstack = topOf st.nstack) : NGood c st' N :=
  { toNScopeOK := h.toNScopeOK.of_eq e
    top_iff := fun s => by
      rw [et, h.top_iff s]
      constructor
      · rintro ⟨n, hn, hs⟩; exact ⟨n, hn, by rw [e n hn]; exact hs⟩
      · rintro ⟨n, hn, hs⟩; exact ⟨n, hn, by rw [← e n hn]; exact hs⟩
    gen := fun n hn => by rw [e n hn]; exact h.gen n hn }

/-- what `_assign_node_name` / `_fix_duplicate_node_name` do -/
theorem fixNodeName_spec {st : FixSt} (h : st.raised = false) (n : Nat) :
    ∃ f, (fixNodeName st n).nname = upd st.nname n (some f) ∧ f ≠ "" ∧ f ∉ topOf st.nstack
      ∧ (fixNodeName st n).nstack = (f :: topOf st.nstack) :: st.nstack.tail
      ∧ (st.nname n = some f ∨ f ∉ st.resN)
      ∧ (∀ s, st.nname n = some s → s ≠ "" → s ∉ topOf st.nstack → f = s)
      ∧ (fixNodeName st n).resN = st.resN := by
  unfold fixNodeName
  rw [if_neg (by simp [h])]
  dsimp only
  by_cases ht : truthy (st.nname n) = true
  · obtain ⟨s, hs, hsne⟩ := truthy_iff.mp ht
    have ht2 : truthy (some s) = true := hs ▸ ht
    simp only [hs, ht2, Bool.not_true, Bool.false_eq_true, if_false, Option.getD_some]
    by_cases htop : s ∈ topOf st.nstack
    · have : (topOf st.nstack).contains s = true := by simpa using htop
      simp only [this, Bool.not_true, Bool.false_eq_true, if_false]
      obtain ⟨hf1, hf2, hf3⟩ := findUnique_spec s (topOf st.nstack) st.resN (st.ncnt s)
      refine ⟨_, rfl, ?_, hf1, by rw [pushTop_eq], Or.inr hf2, ?_, trivial⟩
      · rcases hf3 with ⟨e, h1, _⟩ | ⟨k, _, e, _⟩
        · exact absurd htop h1
        · simp [e, sufName_ne_empty]
      · intro s' hs' _ hnot; cases hs'; exact absurd htop hnot
    · have : (topOf st.nstack).contains s = false := by simpa using htop
      simp only [this, Bool.not_false, if_true]
      refine ⟨s, ?_, hsne, htop, by rw [pushTop_eq], Or.inl rfl, fun s' hs' _ _ => (Option.some.inj hs').symm ▸ rfl, trivial⟩
      show st.nname = upd st.nname n (some s)
      rw [← hs, upd_same]
  · have ht' : truthy (st.nname n) = false := by simpa using ht
    simp only [ht', Bool.not_false, if_true]
    obtain ⟨hf1, hf2, hf3⟩ := findUnique_spec "node" (topOf st.nstack) st.resN (st.ncnt "node")
    refine ⟨_, rfl, ?_, hf1, by rw [pushTop_eq], Or.inr hf2, ?_, trivial⟩
    · rcases hf3 with ⟨e, _⟩ | ⟨k, _, e, _⟩
      · simp [e]
      · simp [e, sufName_ne_empty]
    · intro s hs hsne _
      exact absurd (truthy_iff.mpr ⟨s, hs, hsne⟩) ht

/-- visiting one more node of the current graph -/
theorem fixNodeName_NGood {c : NCfg} {st : FixSt} (h : st.raised = false) {N : List Nat} (good : NGood c st N)
    (hres : st.resN = c.resN) {n : Nat} (hn : n ∉ N) (horig : st.nname n = c.orign n)
    (hcol : ∀ s, c.orign n = some s → s ≠ "" → s ∈ c.resN) :
    NGood c (fixNodeName st n) (N ++ [n]) ∧ (∀ m, m ≠ n → (fixNodeName st n).nname m = st.nname m) := by
  obtain ⟨f, hname, hfne, hftop, hstk, hfres, hfkeep, _⟩ := fixNodeName_spec h n
  have hoth : ∀ m, m ≠ n → (fixNodeName st n).nname m = st.nname m := fun m hm => by rw [hname, upd_ne _ _ hm]
  have hself : (fixNodeName st n).nname n = some f := by rw [hname]; simp
  have hothN : ∀ m ∈ N, (fixNodeName st n).nname m = st.nname m := fun m hm => hoth m (fun e => hn (e ▸ hm))
  have htop : topOf (fixNodeName st n).nstack = f :: topOf st.nstack := by rw [hstk]; rfl
  have hnew : truthy (c.orign n) = true → (∀ m ∈ N, c.orign m ≠ c.orign n) → (fixNodeName st n).nname n = c.orign n := by
    intro h1 h2
    obtain ⟨s, hs, hsne⟩ := truthy_iff.mp h1
    have hs' : st.nname n = some s := horig.trans hs
    have hnot : s ∉ topOf st.nstack := by
      intro hin
      obtain ⟨m, hm, hms⟩ := (good.top_iff s).mp hin
      rcases good.gen m hm with g | ⟨s', e1, e2⟩
      · exact h2 m hm (by rw [← g, hms, hs])
      · rw [hms] at e1; cases e1; exact e2 (hcol s hs hsne)
    rw [hself, hfkeep s hs' hsne hnot, hs]
  refine ⟨{ inj := ?_, named := ?_, kept := ?_, first := (good.first.fin_eq hothN).snoc hn hnew, top_iff := ?_, gen := ?_ }, hoth⟩
  · have key : ∀ a ∈ N, (fixNodeName st n).nname a ≠ (fixNodeName st n).nname n := by
      intro a ha e
      rw [hothN a ha, hself] at e
      exact hftop ((good.top_iff f).mpr ⟨a, ha, e⟩)
    intro a ha b hb hab
    simp only [List.mem_append, List.mem_singleton] at ha hb
    rcases ha with ha | rfl <;> rcases hb with hb | rfl
    · rw [hothN a ha, hothN b hb]; exact good.inj a ha b hb hab
    · exact key a ha
    · exact fun e => key b hb e.symm
    · exact absurd rfl hab
  · intro m hm
    simp only [List.mem_append, List.mem_singleton] at hm
    rcases hm with hm | rfl
    · rw [hothN m hm]; exact good.named m hm
    · rw [hself]; exact truthy_iff.mpr ⟨f, rfl, hfne⟩
  · intro x hx h1 h2
    simp only [List.mem_append, List.mem_singleton] at hx
    rcases hx with hx | rfl
    · rw [hothN x hx]; exact good.kept x hx h1 (fun m hm => h2 m (List.mem_append_left _ hm))
    · obtain ⟨s, hs, hsne⟩ := truthy_iff.mp h1
      have hs' : st.nname x = some s := horig.trans hs
      have hnot : s ∉ topOf st.nstack := by
        intro hin
        obtain ⟨m, hm, hms⟩ := (good.top_iff s).mp hin
        have hmx : m ≠ x := fun e => hn (e ▸ hm)
        rcases good.gen m hm with g | ⟨s', e1, e2⟩
        · exact h2 m (List.mem_append_left _ hm) hmx (by rw [← g, hms, hs])
        · rw [hms] at e1; cases e1; exact e2 (hcol s hs hsne)
      rw [hself, hfkeep s hs' hsne hnot, hs]
  · intro s
    rw [htop, List.mem_cons]
    simp only [List.mem_append, List.mem_singleton]
    constructor
    · rintro (rfl | hs)
      · exact ⟨n, Or.inr rfl, hself⟩
      · obtain ⟨m, hm, hms⟩ := (good.top_iff s).mp hs
        exact ⟨m, Or.inl hm, by rw [hothN m hm]; exact hms⟩
    · rintro ⟨m, hm | rfl, hms⟩
      · exact Or.inr ((good.top_iff s).mpr ⟨m, hm, by rw [← hothN m hm]; exact hms⟩)
      · rw [hself] at hms; exact Or.inl (Option.some.inj hms).symm
  · intro m hm
    simp only [List.mem_append, List.mem_singleton] at hm
    rcases hm with hm | rfl
    · rw [hothN m hm]; exact good.gen m hm
    · rw [hself]
      rcases hfres with e | e
      · exact Or.inl (by rw [← horig, e])
      · exact Or.inr ⟨f, rfl, hres ▸ e⟩


theorem exitGraph_nodes {st : FixSt} (h : st.raised = false) :
    (exitGraph st).nname = st.nname ∧ (exitGraph st).nstack = st.nstack.tail ∧ (exitGraph st).resN = st.resN := by
  rw [exitGraph_eq h]; exact ⟨rfl, rfl, rfl⟩

theorem bodyNodes_sub_allNodes : ∀ (t : Tr) (n : Nat), n ∈ bodyNodes t → n ∈ allNodes t := by
  intro t
  induction t with
  | nil => intro n h; simp [bodyNodes] at h
  | node m ins outs subs rest ihs ihr =>
    intro n h
    simp only [bodyNodes, allNodes, List.mem_cons, List.mem_append] at h ⊢
    rcases h with h | h | h
    · exact Or.inl h
    · exact Or.inr (Or.inl (ihs n h))
    · exact Or.inr (Or.inr (ihr n h))
  | graph g isG ins outs body rest _ ihr =>
    intro n h
    simp only [bodyNodes, allNodes, List.mem_append] at h ⊢
    exact Or.inr (ihr n h)

theorem allNodeScopes_sub : ∀ (t : Tr) (L : List Nat), L ∈ allNodeScopes t → ∀ n ∈ L, n ∈ allNodes t := by
  intro t
  induction t with
  | nil => intro L h; simp [allNodeScopes] at h
  | node m ins outs subs rest ihs ihr =>
    intro L h n hn
    simp only [allNodeScopes, List.mem_append] at h
    simp only [allNodes, List.mem_cons, List.mem_append]
    rcases h with h | h
    · exact Or.inr (Or.inl (ihs L h n hn))
    · exact Or.inr (Or.inr (ihr L h n hn))
  | graph g isG ins outs body rest ihb ihr =>
    intro L h n hn
    simp only [allNodeScopes, List.mem_cons, List.mem_append] at h
    simp only [allNodes, List.mem_append]
    rcases h with rfl | h | h
    · exact Or.inl (bodyNodes_sub_allNodes body n hn)
    · exact Or.inl (ihb L h n hn)
    · exact Or.inr (ihr L h n hn)

/-- **node names**: the induction over the traversal (node ids pairwise different) -/
theorem runTr_nodes {c : NCfg} : ∀ (t : Tr) {st : FixSt} {N : List Nat},
    (runTr t st).raised = false → st.resN = c.resN → NGood c st N →
    (allNodes t).Nodup → (∀ n ∈ allNodes t, n ∉ N ∧ st.nname n = c.orign n) →
    (∀ n ∈ allNodes t, ∀ s, c.orign n = some s → s ≠ "" → s ∈ c.resN) →
      NGood c (runTr t st) (N ++ bodyNodes t)
      ∧ (runTr t st).nstack.tail = st.nstack.tail
      ∧ (∀ m, m ∉ allNodes t → (runTr t st).nname m = st.nname m)
      ∧ (runTr t st).resN = st.resN
      ∧ ∀ L ∈ allNodeScopes t, NScopeOK c (runTr t st) L := by
  intro t
  induction t with
  | nil =>
    intro st N _ _ good _ _ _
    simp only [runTr, bodyNodes, List.append_nil]
    exact ⟨good, trivial, fun _ _ => trivial, trivial, fun L hL => by simp [allNodeScopes] at hL⟩
  | node n ins outs subs rest ihs ihr =>
    intro st N hfin hres good hnd hfresh hcol
    simp only [runTr, visitNode] at hfin ⊢
    simp only [allNodes, List.nodup_cons, List.mem_append, not_or, List.nodup_append] at hnd
    obtain ⟨⟨hn_s, hn_r⟩, hnd_s, hnd_r, hdisj⟩ := hnd
    -- nothing raised on the way
    have h3 : (runTr subs (processValues (fixNodeName st n) (nodeVals ins outs))).raised = false :=
      raised_of (fun s h => runTr_raised rest h) hfin
    have h2 : (processValues (fixNodeName st n) (nodeVals ins outs)).raised = false :=
      raised_of (fun s h => runTr_raised subs h) h3
    have h1 : (fixNodeName st n).raised = false := raised_of (fun s h => processValues_raised h _) h2
    have h0 : st.raised = false := raised_of (fun s h => fixNodeName_raised h n) h1
    have hn := hfresh n (by simp [allNodes])
    -- this node
    obtain ⟨g1, o1⟩ := fixNodeName_NGood h0 good hres hn.1 hn.2 (hcol n (by simp [allNodes]))
    have r1 : (fixNodeName st n).resN = st.resN := (fixNodeName_spec h0 n).choose_spec.2.2.2.2.2.2
    have e2 := processValues_NEq (nodeVals ins outs) (fixNodeName st n)
    have g2 : NGood c (processValues (fixNodeName st n) (nodeVals ins outs)) (N ++ [n]) :=
      g1.of_eq (fun m _ => by rw [e2.nname]) (by rw [e2.nstack])
    -- the graphs it holds
    obtain ⟨g3, t3, f3, r3, s3⟩ := ihs h3 (by rw [e2.resN, r1, hres]) g2 hnd_s
      (fun m hm => by
        have hmn : m ≠ n := fun e => hn_s (e ▸ hm)
        refine ⟨?_, ?_⟩
        · simp only [List.mem_append, List.mem_singleton, not_or]
          exact ⟨(hfresh m (by simp [allNodes, hm])).1, hmn⟩
        · rw [e2.nname, o1 m hmn]; exact (hfresh m (by simp [allNodes, hm])).2)
      (fun m hm => hcol m (by simp [allNodes, hm]))
    -- the following nodes
    obtain ⟨g4, t4, f4, r4, s4⟩ := ihr hfin (by rw [r3, e2.resN, r1, hres]) g3 hnd_r
      (fun m hm => by
        have hmn : m ≠ n := fun e => hn_r (e ▸ hm)
        have hms : m ∉ allNodes subs := fun h => hdisj m h m hm rfl
        refine ⟨?_, ?_⟩
        · simp only [List.mem_append, List.mem_singleton, not_or]
          exact ⟨⟨(hfresh m (by simp [allNodes, hm])).1, hmn⟩, fun h => hms (bodyNodes_sub_allNodes subs m h)⟩
        · rw [f3 m hms, e2.nname, o1 m hmn]; exact (hfresh m (by simp [allNodes, hm])).2)
      (fun m hm => hcol m (by simp [allNodes, hm]))
    refine ⟨?_, ?_, ?_, ?_, ?_⟩
    · simpa [bodyNodes, List.append_assoc] using g4
    · rw [t4, t3, e2.nstack, (fixNodeName_spec h0 n).choose_spec.2.2.2.1]; rfl
    · intro m hm
      simp only [allNodes, List.mem_cons, List.mem_append, not_or] at hm
      rw [f4 m hm.2.2, f3 m hm.2.1, e2.nname, o1 m hm.1]
    · rw [r4, r3, e2.resN, r1]
    · intro L hL
      simp only [allNodeScopes, List.mem_append] at hL
      rcases hL with hL | hL
      · refine (s3 L hL).of_eq (fun m hm => f4 m ?_)
        exact fun h => hdisj m (allNodeScopes_sub subs L hL m hm) m h rfl
      · exact s4 L hL
  | graph g isG ins outs body rest ihb ihr =>
    intro st N hfin hres good hnd hfresh hcol
    simp only [runTr] at hfin ⊢
    simp only [allNodes, List.nodup_append] at hnd
    obtain ⟨hnd_b, hnd_r, hdisj⟩ := hnd
    have h5 : (exitGraph (exitGraph (runTr body (enterGraph (enterGraph st g isG ins outs (bodyOuts body)) g isG ins outs (bodyOuts body))))).raised = false :=
      raised_of (fun s h => runTr_raised rest h) hfin
    have h4 := raised_of (fun s h => exitGraph_raised h) h5
    have h3 := raised_of (fun s h => exitGraph_raised h) h4
    have h2 := raised_of (fun s h => runTr_raised body h) h3
    have h1 := raised_of (fun s h => enterGraph_raised h g isG ins outs (bodyOuts body)) h2
    have h0 := raised_of (fun s h => enterGraph_raised h g isG ins outs (bodyOuts body)) h1
    obtain ⟨n1, k1, _, r1⟩ := enterGraph_nodes h0 g isG ins outs (bodyOuts body)
    obtain ⟨n2, k2, _, r2⟩ := enterGraph_nodes h1 g isG ins outs (bodyOuts body)
    have g2 : NGood c (enterGraph (enterGraph st g isG ins outs (bodyOuts body)) g isG ins outs (bodyOuts body)) [] :=
      { inj := fun a ha => by simp at ha, named := fun a ha => by simp at ha, kept := fun a ha => by simp at ha
        first := FirstB.nil _ _
        top_iff := fun s => by rw [k2]; simp [topOf]
        gen := fun a ha => by simp at ha }
    obtain ⟨g3, t3, f3, r3, s3⟩ := ihb h3 (by rw [r2, r1, hres]) g2 hnd_b
      (fun m hm => ⟨by simp, by rw [n2, n1]; exact (hfresh m (by simp [allNodes, hm])).2⟩)
      (fun m hm => hcol m (by simp [allNodes, hm]))
    obtain ⟨n4, k4, r4⟩ := exitGraph_nodes h3
    obtain ⟨n5, k5, r5⟩ := exitGraph_nodes h4
    have hname5 : ∀ m, (exitGraph (exitGraph (runTr body (enterGraph (enterGraph st g isG ins outs (bodyOuts body)) g isG ins outs (bodyOuts body))))).nname m
        = (runTr body (enterGraph (enterGraph st g isG ins outs (bodyOuts body)) g isG ins outs (bodyOuts body))).nname m := by
      intro m; rw [n5, n4]
    have hstk5 : (exitGraph (exitGraph (runTr body (enterGraph (enterGraph st g isG ins outs (bodyOuts body)) g isG ins outs (bodyOuts body))))).nstack = st.nstack := by
      rw [k5, k4, t3, k2, k1]; rfl
    have g5 : NGood c (exitGraph (exitGraph (runTr body (enterGraph (enterGraph st g isG ins outs (bodyOuts body)) g isG ins outs (bodyOuts body))))) N :=
      good.of_eq (fun m hm => by
        have : m ∉ allNodes body := fun h => (hfresh m (by simp [allNodes, h])).1 hm
        rw [hname5, f3 m this, n2, n1]) (by rw [hstk5])
    obtain ⟨g6, t6, f6, r6, s6⟩ := ihr hfin (by rw [r5, r4, r3, r2, r1, hres]) g5 hnd_r
      (fun m hm => by
        have hmb : m ∉ allNodes body := fun h => hdisj m h m hm rfl
        exact ⟨(hfresh m (by simp [allNodes, hm])).1, by
          rw [hname5, f3 m hmb, n2, n1]; exact (hfresh m (by simp [allNodes, hm])).2⟩)
      (fun m hm => hcol m (by simp [allNodes, hm]))
    refine ⟨by simpa [bodyNodes] using g6, by rw [t6, hstk5], ?_, by rw [r6, r5, r4, r3, r2, r1], ?_⟩
    · intro m hm
      simp only [allNodes, List.mem_append, not_or] at hm
      rw [f6 m hm.2, hname5, f3 m hm.1, n2, n1]
    · intro L hL
      simp only [allNodeScopes, List.mem_cons, List.mem_append] at hL
      have key : ∀ L', (∀ m ∈ L', m ∈ allNodes body) →
          NScopeOK c (runTr body (enterGraph (enterGraph st g isG ins outs (bodyOuts body)) g isG ins outs (bodyOuts body))) L' →
          NScopeOK c (runTr rest (exitGraph (exitGraph (runTr body (enterGraph (enterGraph st g isG ins outs (bodyOuts body)) g isG ins outs (bodyOuts body)))))) L' := by
        intro L' hsub hok
        refine hok.of_eq (fun m hm => ?_)
        rw [f6 m (fun h => hdisj m (hsub m hm) m h rfl), hname5]
      rcases hL with rfl | hL | hL
      · refine key _ (fun m hm => bodyNodes_sub_allNodes body m hm) ?_
        simpa using g3.toNScopeOK
      · exact key L (allNodeScopes_sub body L hL) (s3 L hL)
      · exact s6 L hL


def topNCfg (w : World) (t : Top) : NCfg :=
  { orign := w.nname, resN := (collectTr w t.tr ([], [])).2 }

theorem fixTop_nodes {w : World} {t : Top} (hnr : (fixTop w t).raised = false) (hnd : (allNodes t.body).Nodup) :
    (∀ L ∈ allNodeScopes t.tr, NScopeOK (topNCfg w t) (fixTop w t) L)
    ∧ ∀ m, m ∉ allNodes t.body → (fixTop w t).nname m = w.nname m := by
  rw [fixTop_eq] at hnr ⊢
  have h2 := raised_of (fun s h => exitGraph_raised h) hnr
  have h1 := raised_of (fun s h => runTr_raised t.body h) h2
  have h0 : (topInit w t).raised = false := rfl
  obtain ⟨n1, k1, _, r1⟩ := enterGraph_nodes h0 t.gid t.isGraph t.ins t.outs (bodyOuts t.body)
  have g1 : NGood (topNCfg w t) (enterGraph (topInit w t) t.gid t.isGraph t.ins t.outs (bodyOuts t.body)) [] :=
    { inj := fun a ha => by simp at ha, named := fun a ha => by simp at ha, kept := fun a ha => by simp at ha
      first := FirstB.nil _ _
      top_iff := fun s => by rw [k1]; simp [topOf]
      gen := fun a ha => by simp at ha }
  obtain ⟨g3, _, f3, _, s3⟩ := runTr_nodes (c := topNCfg w t) t.body h2 (by rw [r1]; rfl) g1 hnd
    (fun m _ => ⟨by simp, by rw [n1]; rfl⟩)
    (fun m hm s hs hne => (collectTr_complete w t.tr ([], [])).2.2 m (by simp [Top.tr, allNodes, hm]) s hs hne)
  obtain ⟨n4, _, _⟩ := exitGraph_nodes h2
  refine ⟨?_, fun m hm => by rw [n4, f3 m hm, n1]; rfl⟩
  intro L hL
  simp only [Top.tr, allNodeScopes, List.append_nil, List.mem_cons] at hL
  rcases hL with rfl | hL
  · exact (by simpa using g3.toNScopeOK : NScopeOK _ _ (bodyNodes t.body)).of_eq (fun m _ => by rw [n4])
  · exact (s3 L hL).of_eq (fun m _ => by rw [n4])

end IrVerif.Names

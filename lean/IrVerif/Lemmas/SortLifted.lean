/-
C12 — in a well-scoped tree every cycle of the flat dependency relation `Dep` (the one
`Graph.sort` uses) yields a cycle of the property's own per-graph relation `LiftedDep`
("used by it or by any node nested inside it", restricted to the nodes of one graph).
-/
import IrVerif.Lemmas.SortStable

namespace IrVerif.Sort
open List

/-- the property's own dependency relation inside one graph `h`: `c` (or a node nested at any
    depth in `c`) uses a value produced by `p`, both nodes of `h` -/
def LiftedDep (h : MGraph) (a b : Nat) : Prop :=
  ∃ p ∈ h.2, ∃ c ∈ h.2, p.id = a ∧ c.id = b ∧ ∃ u ∈ entsN h.1 c, some a ∈ u.inputs

/-- a nested graph has an owner entry that holds all its nodes as `subNodes` and precedes its
    whole span -/
theorem graph_owner_before : ∀ m : MNode, ∀ k, ∀ h ∈ subgraphsN m,
    ∃ o ∈ entsN k m, (∀ x ∈ h.2, x.id ∈ o.subNodes) ∧
      ∀ e ∈ entsNs h.1 h.2, Before (entsN k m) o e := by
  intro m
  induction m using MNode.ind with
  | h n ih =>
    intro k h hh
    obtain ⟨g, hg, hcase⟩ := mem_subgraphsN.1 hh
    rcases hcase with rfl | ⟨m', hm', hin⟩
    · refine ⟨entOf k n, entOf_mem_entsN k n, ?_, ?_⟩
      · intro x hx
        show x.id ∈ subNodeIds n.subs
        simp only [subNodeIds, List.mem_flatMap, List.mem_map]
        exact ⟨h, hg, x, hx, rfl⟩
      · intro e he
        refine ⟨[], entsGs n.subs, by rw [entsN_cons]; rfl, ?_⟩
        rw [entsGs_eq]
        exact List.mem_flatMap.2 ⟨h, hg, he⟩
    · obtain ⟨o, ho, hall, hbef⟩ := ih g hg m' hm' g.1 h hin
      have hinf : entsN g.1 m' <:+: entsN k n :=
        (entsN_infix_entsNs hm').trans (entsNs_infix_entsN hg)
      exact ⟨o, hinf.subset ho, hall, fun e he => (hbef e he).of_infix hinf⟩

/-- a node of graph `h` lies in the span of a node `m` of `h` only if it is `m` -/
theorem direct_in_span_eq {g h : MGraph} (hids : (idsOf (nodesOf g)).Nodup) (hh : h ∈ allGraphs g)
    {na m : MNode} (hna : na ∈ h.2) (hm : m ∈ h.2) (hmem : entOf h.1 na ∈ entsN h.1 m) :
    na = m := by
  have hcur := graph_ids_nodup hids hh
  rcases ent_is_node m h.1 _ hmem with heq | ⟨h', hh', x, hx, heq⟩
  · exact List.inj_on_of_nodup_map hcur hna hm (congrArg Ent.id heq)
  · exfalso
    have hid : na.id = x.id := congrArg Ent.id heq
    obtain ⟨o, ho, hall⟩ := graph_owner m h.1 h' hh'
    have hoin : o ∈ entsNs h.1 h.2 := (entsN_infix_entsNs hm).subset ho
    have hperm := ids_perm_Ns (ns := h.2) (fun m _ => ids_perm_N m) h.1
    have hsub : (idsOf (entsNs h.1 h.2)).Nodup :=
      List.Nodup.sublist ((graph_infix hh).sublist.map _) hids
    have hnd := hperm.nodup_iff.1 hsub
    have := (List.nodup_append.1 hnd).2.2 na.id (List.mem_map.2 ⟨na, hna, rfl⟩) na.id
      (List.mem_flatMap.2 ⟨o, hoin, by rw [hid]; exact hall x hx⟩)
    exact this rfl

/-- **one step of a dependency cycle, seen from graph `h`.**  `ey` lies in the span of node `m`
    of `h`, `ez` depends on `ey`, and `ez` is not placed before `ea` (an entry of the span of `h`).
    Then `ez` lies in the span of a node `m'` of `h`, and either `m' = m` and `ey` is strictly
    inside `m`, or `m'` (lifted-)depends on `m`. -/
theorem lifted_step {g : MGraph} (hids : (idsOf (nodesOf g)).Nodup) (hws : WellScoped g)
    {h : MGraph} (hh : h ∈ allGraphs g) {ea : Ent} (hea : ea ∈ entsNs h.1 h.2)
    {m : MNode} (hm : m ∈ h.2) {ey ez : Ent} (hey : ey ∈ entsN h.1 m) (hez : ez ∈ nodesOf g)
    (hdep : some ey.id ∈ ez.inputs ∨ ey.id ∈ ez.subNodes)
    (hnot : ¬ Before (nodesOf g) ez ea) :
    ∃ m' ∈ h.2, ez ∈ entsN h.1 m' ∧
      ((m' = m ∧ ey ≠ entOf h.1 m) ∨ LiftedDep h m.id m'.id) := by
  have hspan_m : entsN h.1 m ⊆ nodesOf g := (node_infix hh hm).subset
  by_cases hroot : ey = entOf h.1 m
  · -- `ey` is the node `m` of `h` itself
    subst hroot
    rcases hdep with hin | hsub
    · have hez_in := hws h hh m hm ez hez hin
      obtain ⟨m', hm', hezm'⟩ := mem_entsNs.1 hez_in
      exact ⟨m', hm', hezm', Or.inr ⟨m, hm, m', hm', rfl, rfl, ez, hezm', hin⟩⟩
    · -- `ez` owns `h`: it precedes the whole span of `h`
      exfalso
      rcases mem_allGraphs.1 hh with rfl | ⟨m0, hm0, hin0⟩
      · exact root_not_owned hids hm hez hsub
      · obtain ⟨o, ho, hall, hbef⟩ := graph_owner_before m0 g.1 h hin0
        have hinf : entsN g.1 m0 <:+: nodesOf g := entsN_infix_entsNs hm0
        have : o = ez := owner_unique hids (hinf.subset ho) hez (hall m hm) hsub
        rw [this] at hbef
        exact hnot ((hbef ea hea).of_infix hinf)
  · -- `ey` is strictly inside the span of `m`
    rcases hdep with hin | hsub
    · rcases ent_is_node m h.1 ey hey with heq | ⟨h', hh', x', hx', rfl⟩
      · exact absurd heq hroot
      · have hh'g : h' ∈ allGraphs g := allGraphs_trans hh hm hh'
        have hez_in := hws h' hh'g x' hx' ez hez hin
        exact ⟨m, hm, (subgraph_infix m h.1 h' hh').subset hez_in, Or.inl ⟨rfl, hroot⟩⟩
    · rcases owner_in_span m h.1 ey hey with heq | ⟨o, ho, hoe⟩
      · exact absurd heq hroot
      · have : o = ez := owner_unique hids (hspan_m ho) hez hoe hsub
        rw [this] at ho
        exact ⟨m, hm, ho, Or.inl ⟨rfl, hroot⟩⟩

/-- a cyclic node of minimal position gives a lifted cycle in its own graph -/
theorem lifted_cycle_of_min {g : MGraph} (hids : (idsOf (nodesOf g)).Nodup) (hws : WellScoped g)
    {a : Nat} (hcyc : Relation.TransGen (Dep (nodesOf g)) a a)
    (hmin : ∀ c, Relation.TransGen (Dep (nodesOf g)) c c →
      posOf (nodesOf g) a ≤ posOf (nodesOf g) c) :
    ∃ h ∈ allGraphs g, ∃ x, Relation.TransGen (LiftedDep h) x x := by
  -- the entry and the graph of `a`
  obtain ⟨b0, hab0, _⟩ := Relation.TransGen.head'_iff.1 hcyc
  obtain ⟨ea, hea, _, _, hea_id, _, _⟩ := hab0
  obtain ⟨h, hh, na, hna, rfl⟩ := ent_is_node_root hea
  have ha : na.id = a := hea_id
  have hea_span : entOf h.1 na ∈ entsNs h.1 h.2 :=
    (entsN_infix_entsNs hna).subset (entOf_mem_entsN _ _)
  -- no cyclic node is placed before `a`
  have hnot : ∀ ez ∈ nodesOf g, Relation.TransGen (Dep (nodesOf g)) ez.id ez.id →
      ¬ Before (nodesOf g) ez (entOf h.1 na) := by
    intro ez hez hc hb
    have := at_lt_of_before hids hb (at_posOf hids hez) (at_posOf hids hea)
    have h2 := hmin ez.id hc
    have : posOf (nodesOf g) (entOf h.1 na).id = posOf (nodesOf g) a := by rw [← ha]; rfl
    omega
  -- walk along the cycle
  have key : ∀ y, Relation.TransGen (Dep (nodesOf g)) a y →
      Relation.ReflTransGen (Dep (nodesOf g)) y a →
      ∃ ey ∈ nodesOf g, ey.id = y ∧ ∃ m ∈ h.2, ey ∈ entsN h.1 m ∧
        Relation.TransGen (LiftedDep h) a m.id := by
    intro y hay
    induction hay with
    | single hd =>
      intro hback
      obtain ⟨e1, he1, ez, hez, hid1, hidz, hc⟩ := hd
      have hcz : Relation.TransGen (Dep (nodesOf g)) ez.id ez.id := by
        rw [hidz]
        exact Relation.TransGen.trans_right hback
          (Relation.TransGen.single ⟨e1, he1, ez, hez, hid1, hidz, hc⟩)
      have hc' : some (entOf h.1 na).id ∈ ez.inputs ∨ (entOf h.1 na).id ∈ ez.subNodes := by
        have : (entOf h.1 na).id = a := ha
        rw [this]; exact hc
      obtain ⟨m', hm', hezm', hcase⟩ := lifted_step hids hws hh hea_span hna
        (entOf_mem_entsN h.1 na) hez hc' (hnot ez hez hcz)
      refine ⟨ez, hez, hidz, m', hm', hezm', ?_⟩
      rcases hcase with ⟨_, hne⟩ | hl
      · exact absurd rfl hne
      · rw [ha] at hl; exact Relation.TransGen.single hl
    | tail hay' hd ih =>
      intro hback
      obtain ⟨e1, he1, ez, hez, hid1, hidz, hc⟩ := hd
      have hdep : Dep (nodesOf g) _ _ := ⟨e1, he1, ez, hez, hid1, hidz, hc⟩
      obtain ⟨ey, hey, heyid, m, hm, heym, hchain⟩ := ih (Relation.ReflTransGen.head hdep hback)
      have hcz : Relation.TransGen (Dep (nodesOf g)) ez.id ez.id := by
        rw [hidz]
        exact Relation.TransGen.trans_right hback (Relation.TransGen.tail hay' hdep)
      have hc' : some ey.id ∈ ez.inputs ∨ ey.id ∈ ez.subNodes := by rw [heyid]; exact hc
      obtain ⟨m', hm', hezm', hcase⟩ := lifted_step hids hws hh hea_span hm heym hez hc'
        (hnot ez hez hcz)
      refine ⟨ez, hez, hidz, m', hm', hezm', ?_⟩
      rcases hcase with ⟨rfl, _⟩ | hl
      · exact hchain
      · exact Relation.TransGen.tail hchain hl
  obtain ⟨ey, hey, heyid, m, hm, heym, hchain⟩ := key a hcyc Relation.ReflTransGen.refl
  have : ey = entOf h.1 na := ent_eq_of_id hids hey hea (by rw [heyid]; exact ha.symm)
  rw [this] at heym
  have hnm : na = m := direct_in_span_eq hids hh hna hm heym
  subst hnm
  exact ⟨h, hh, a, by rw [ha] at hchain; exact hchain⟩

/-- **in a well-scoped tree, a cycle of the flat dependency relation gives a cycle of some graph's
    own (lifted) dependency relation** -/
theorem lifted_cycle_of_dep_cycle {g : MGraph} (hids : (idsOf (nodesOf g)).Nodup)
    (hws : WellScoped g) (hc : ∃ a, Relation.TransGen (Dep (nodesOf g)) a a) :
    ∃ h ∈ allGraphs g, ∃ x, Relation.TransGen (LiftedDep h) x x := by
  obtain ⟨a, ha⟩ := hc
  have : ∀ n, ∀ a, posOf (nodesOf g) a = n → Relation.TransGen (Dep (nodesOf g)) a a →
      ∃ h ∈ allGraphs g, ∃ x, Relation.TransGen (LiftedDep h) x x := by
    intro n
    induction n using Nat.strongRecOn with
    | ind n ih =>
      intro a hpos hcyc
      by_cases hex : ∃ c, Relation.TransGen (Dep (nodesOf g)) c c ∧ posOf (nodesOf g) c < n
      · obtain ⟨c, hcc, hlt⟩ := hex
        exact ih _ hlt c rfl hcc
      · refine lifted_cycle_of_min hids hws hcyc ?_
        intro c hcc
        by_contra hlt
        exact hex ⟨c, hcc, by omega⟩
  exact this _ a rfl ha

end IrVerif.Sort

/-
Helper lemmas for C07 (layout): alignment arithmetic, running offsets, file image.
Core Lean only.
-/
import IrVerif.Model.Layout
namespace IrVerif.Layout

/-! ### alignment arithmetic -/

theorem roundUp_ge (cur f : Nat) (hf : 0 < f) : cur ≤ (cur + f - 1) / f * f := by
  have h := Nat.div_add_mod (cur + f - 1) f
  have hr := Nat.mod_lt (cur + f - 1) hf
  rw [Nat.mul_comm] at h
  generalize (cur + f - 1) / f * f = m at *
  omega

theorem roundUp_lt (cur f : Nat) (hf : 0 < f) : (cur + f - 1) / f * f < cur + f := by
  have h := Nat.div_add_mod (cur + f - 1) f
  rw [Nat.mul_comm] at h
  generalize (cur + f - 1) / f * f = m at *
  omega

theorem roundUp_mod (cur f : Nat) : (cur + f - 1) / f * f % f = 0 := Nat.mul_mod_left _ _

theorem factor_pos (a : Nat) : 0 < max 4096 a := by omega

theorem alignOffset_ge (cur s : Nat) (al : Option Nat) (thr : Nat) :
    cur ≤ alignOffset cur s al thr := by
  unfold alignOffset
  split
  · exact Nat.le_refl _
  · split
    · exact Nat.le_refl _
    · exact roundUp_ge _ _ (factor_pos _)

theorem alignOffset_zero (s : Nat) (al : Option Nat) (thr : Nat) : alignOffset 0 s al thr = 0 := by
  unfold alignOffset
  split
  · rfl
  · split
    · rfl
    · rename_i a _
      have : (0 + max 4096 a - 1) / max 4096 a = 0 := by
        apply Nat.div_eq_of_lt; have := factor_pos a; omega
      rw [this]; simp

theorem alignOffset_small (cur s : Nat) (al : Option Nat) (thr : Nat) (h : s ≤ thr) :
    alignOffset cur s al thr = cur := by
  unfold alignOffset; split <;> simp [h]

theorem alignOffset_none (cur s thr : Nat) : alignOffset cur s none thr = cur := rfl

theorem alignOffset_aligned (cur s a thr : Nat) (h : thr < s) :
    alignOffset cur s (some a) thr % max 4096 a = 0 := by
  unfold alignOffset
  have : ¬ s ≤ thr := by omega
  simp only [this, if_false]
  exact roundUp_mod _ _

theorem alignOffset_lt (cur s a thr : Nat) :
    alignOffset cur s (some a) thr < cur + max 4096 a := by
  unfold alignOffset
  simp only
  split
  · have := factor_pos a; omega
  · exact roundUp_lt _ _ (factor_pos _)

/-! ### running offsets -/

theorem computeInfosFrom_length (al : Option Nat) (thr : Nat) (cur : Nat) (sizes : List Nat) :
    (computeInfosFrom al thr cur sizes).length = sizes.length := by
  induction sizes generalizing cur with
  | nil => rfl
  | cons s rest ih => simp [computeInfosFrom, ih]

theorem computeInfosFrom_lengths (al : Option Nat) (thr : Nat) (cur : Nat) (sizes : List Nat) :
    (computeInfosFrom al thr cur sizes).map (·.length) = sizes := by
  induction sizes generalizing cur with
  | nil => rfl
  | cons s rest ih => simp [computeInfosFrom, ih]

theorem computeInfosFrom_ge (al : Option Nat) (thr : Nat) (cur : Nat) (sizes : List Nat) :
    ∀ i ∈ computeInfosFrom al thr cur sizes, cur ≤ i.offset := by
  induction sizes generalizing cur with
  | nil => intro i hi; simp [computeInfosFrom] at hi
  | cons s rest ih =>
    intro i hi
    simp only [computeInfosFrom, List.mem_cons] at hi
    rcases hi with rfl | hi
    · exact alignOffset_ge _ _ _ _
    · have := ih _ i hi
      have := alignOffset_ge cur s al thr
      omega

theorem computeInfosFrom_le_end (al : Option Nat) (thr : Nat) (cur : Nat) (sizes : List Nat) :
    ∀ i ∈ computeInfosFrom al thr cur sizes, i.stop ≤ layoutEndFrom al thr cur sizes := by
  induction sizes generalizing cur with
  | nil => intro i hi; simp [computeInfosFrom] at hi
  | cons s rest ih =>
    intro i hi
    simp only [computeInfosFrom, List.mem_cons] at hi
    simp only [layoutEndFrom]
    rcases hi with rfl | hi
    · simp only [Info.stop]
      clear ih
      generalize alignOffset cur s al thr + s = c
      induction rest generalizing c with
      | nil => simp [layoutEndFrom]
      | cons t rest ih2 =>
        simp only [layoutEndFrom]
        have := alignOffset_ge c t al thr
        have := ih2 (alignOffset c t al thr + t)
        omega
    · exact ih _ i hi

theorem layoutEndFrom_ge (al : Option Nat) (thr : Nat) (cur : Nat) (sizes : List Nat) :
    cur ≤ layoutEndFrom al thr cur sizes := by
  induction sizes generalizing cur with
  | nil => simp [layoutEndFrom]
  | cons t rest ih =>
    simp only [layoutEndFrom]
    have := alignOffset_ge cur t al thr
    have := ih (alignOffset cur t al thr + t)
    omega

theorem layoutEndFrom_append (al : Option Nat) (thr : Nat) (cur : Nat) (xs ys : List Nat) :
    layoutEndFrom al thr cur (xs ++ ys) = layoutEndFrom al thr (layoutEndFrom al thr cur xs) ys := by
  induction xs generalizing cur with
  | nil => rfl
  | cons x xs ih => simp [layoutEndFrom, ih]

theorem layoutEnd_snoc (al : Option Nat) (thr : Nat) (xs : List Nat) (t : Nat) :
    layoutEnd al thr (xs ++ [t]) = alignOffset (layoutEnd al thr xs) t al thr + t := by
  simp [layoutEnd, layoutEndFrom_append, layoutEndFrom]

theorem layoutEnd_single (al : Option Nat) (thr : Nat) (t : Nat) : layoutEnd al thr [t] = t := by
  simp [layoutEnd, layoutEndFrom, alignOffset_zero]

/-! ### file image -/

theorem writeAt_length (img : List Nat) (off : Nat) (bs : List Nat) :
    (writeAt img off bs).length = if bs = [] then img.length else max img.length (off + bs.length) := by
  unfold writeAt
  split
  · rfl
  · simp only [List.length_append, List.length_take, List.length_drop, List.length_replicate]
    omega

theorem writeAt_getD (img : List Nat) (off : Nat) (bs : List Nat) (i : Nat) :
    (writeAt img off bs).getD i 0 =
      if off ≤ i ∧ i < off + bs.length then bs.getD (i - off) 0 else img.getD i 0 := by
  unfold writeAt
  by_cases hb : bs = []
  · subst hb; simp; omega
  · simp only [hb, if_false]
    have hpad : ∀ k, (img ++ List.replicate (off - img.length) 0).getD k 0 = img.getD k 0 := by
      intro k
      simp only [List.getD_eq_getElem?_getD, List.getElem?_append, List.getElem?_replicate]
      split
      · rfl
      · rename_i h
        have : img[k]? = none := by simp; omega
        rw [this]; split <;> rfl
    have hlen : off ≤ (img ++ List.replicate (off - img.length) 0).length := by
      simp; omega
    generalize img ++ List.replicate (off - img.length) 0 = img' at *
    simp only [List.getD_eq_getElem?_getD] at *
    by_cases h1 : i < off
    · have : ¬ (off ≤ i ∧ i < off + bs.length) := by omega
      simp only [this, if_false]
      rw [List.append_assoc, List.getElem?_append_left (by simp; omega)]
      rw [List.getElem?_take]; simp [h1]; exact hpad i
    · by_cases h2 : i < off + bs.length
      · have : off ≤ i ∧ i < off + bs.length := by omega
        simp only [this, and_self, if_true]
        rw [List.append_assoc, List.getElem?_append_right (by simp; omega)]
        simp only [List.length_take, Nat.min_eq_left hlen]
        rw [List.getElem?_append_left (by omega)]
      · have : ¬ (off ≤ i ∧ i < off + bs.length) := by omega
        simp only [this, if_false]
        rw [List.getElem?_append_right (by simp; omega)]
        simp only [List.length_append, List.length_take, Nat.min_eq_left hlen, List.getElem?_drop]
        rw [← hpad i]
        congr 2; omega

/-- two writes touch disjoint byte ranges (an empty write touches nothing) -/
def Write.disjoint (a b : Write) : Prop :=
  a.1 + a.2.length ≤ b.1 ∨ b.1 + b.2.length ≤ a.1 ∨ a.2 = [] ∨ b.2 = []

theorem Write.disjoint_symm {a b : Write} (h : a.disjoint b) : b.disjoint a := by
  unfold Write.disjoint at *
  rcases h with h | h | h | h
  · exact Or.inr (Or.inl h)
  · exact Or.inl h
  · exact Or.inr (Or.inr (Or.inr h))
  · exact Or.inr (Or.inr (Or.inl h))

theorem applyWrites_cons (img : List Nat) (w : Write) (ws : List Write) :
    applyWrites img (w :: ws) = applyWrites (writeAt img w.1 w.2) ws := rfl

/-- a position no write covers keeps its byte -/
theorem applyWrites_getD_untouched (img : List Nat) (ws : List Write) (i : Nat)
    (h : ∀ w ∈ ws, ¬ (w.1 ≤ i ∧ i < w.1 + w.2.length)) :
    (applyWrites img ws).getD i 0 = img.getD i 0 := by
  induction ws generalizing img with
  | nil => rfl
  | cons w ws ih =>
    rw [applyWrites_cons, ih _ (fun w' hw' => h w' (List.mem_cons_of_mem _ hw'))]
    rw [writeAt_getD]
    have := h w (List.mem_cons_self ..)
    simp [this]

/-- after pairwise disjoint writes, every written byte is where its write put it -/
theorem applyWrites_getD_written (img : List Nat) (ws : List Write)
    (hd : ws.Pairwise Write.disjoint) (w : Write) (hw : w ∈ ws) (j : Nat) (hj : j < w.2.length) :
    (applyWrites img ws).getD (w.1 + j) 0 = w.2.getD j 0 := by
  induction ws generalizing img with
  | nil => simp at hw
  | cons v ws ih =>
    rw [applyWrites_cons]
    rw [List.pairwise_cons] at hd
    rcases List.mem_cons.mp hw with rfl | hw'
    · rw [applyWrites_getD_untouched]
      · rw [writeAt_getD]
        have : w.1 ≤ w.1 + j ∧ w.1 + j < w.1 + w.2.length := by omega
        simp [this]
      · intro v hv
        have hdis := hd.1 v hv
        unfold Write.disjoint at hdis
        have hne : w.2 ≠ [] := by intro h; simp [h] at hj
        rcases hdis with h | h | h | h
        · omega
        · omega
        · exact absurd h hne
        · simp [h]
    · exact ih _ hd.2 hw'

theorem applyWrites_length_ge (img : List Nat) (ws : List Write) :
    img.length ≤ (applyWrites img ws).length := by
  induction ws generalizing img with
  | nil => exact Nat.le_refl _
  | cons v ws ih =>
    rw [applyWrites_cons]
    have := ih (writeAt img v.1 v.2)
    rw [writeAt_length] at this
    split at this <;> omega

theorem applyWrites_length_written (img : List Nat) (ws : List Write) (w : Write) (hw : w ∈ ws)
    (hne : w.2 ≠ []) : w.1 + w.2.length ≤ (applyWrites img ws).length := by
  induction ws generalizing img with
  | nil => simp at hw
  | cons v ws ih =>
    rw [applyWrites_cons]
    rcases List.mem_cons.mp hw with rfl | hw'
    · have := applyWrites_length_ge (writeAt img w.1 w.2) ws
      rw [writeAt_length] at this
      simp only [hne, if_false] at this
      omega
    · exact ih _ hw'

theorem readAt_eq_of_getD (img : List Nat) (off : Nat) (bs : List Nat)
    (hlen : off + bs.length ≤ img.length)
    (h : ∀ j, j < bs.length → img.getD (off + j) 0 = bs.getD j 0) :
    readAt img off bs.length = bs := by
  apply List.ext_getElem
  · simp [readAt]; omega
  · intro j h1 h2
    have := h j h2
    simp only [List.getD_eq_getElem?_getD] at this
    rw [List.getElem?_eq_getElem (by omega), List.getElem?_eq_getElem h2] at this
    simp only [Option.getD_some] at this
    simp [readAt, this]

end IrVerif.Layout

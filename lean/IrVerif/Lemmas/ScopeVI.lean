/-
What the value_info list written by the serializer contains, and what the deserializer finds in it.
-/
import IrVerif.Lemmas.ScopeRTPhases
namespace IrVerif.Scope

theorem mem_serInits_vi (V : Nat → ValueS) (td : TData) (inames : List (Option Name)) (e : VInfoP) :
    ∀ (its : List (Name × Nat)), e ∈ (serInits V td inames its).1 ↔
      ∃ kv ∈ its, shouldCreate (V kv.2) = true ∧ (V kv.2).name ∉ inames ∧
        e = ⟨nm V kv.2, (V kv.2).info.emit⟩ := by
  intro its
  induction its with
  | nil => simp [serInits]
  | cons kv its ih =>
    obtain ⟨k, v⟩ := kv
    have key : (serInits V td inames ((k, v) :: its)).1 =
        (if shouldCreate (V v) && !(inames.contains (V v).name) then [⟨nm V v, (V v).info.emit⟩] else []) ++
          (serInits V td inames its).1 := by
      simp only [serInits]
      cases (V v).const <;> simp [nm]
    rw [key, List.mem_append, ih]
    constructor
    · rintro (h | ⟨kv', hkv', h⟩)
      · split at h
        · rename_i hc
          simp only [Bool.and_eq_true, Bool.not_eq_true', List.contains_eq_mem, decide_eq_false_iff_not] at hc
          simp only [List.mem_singleton] at h
          exact ⟨(k, v), by simp, hc.1, hc.2, h⟩
        · simp at h
      · exact ⟨kv', by simp [hkv'], h⟩
    · rintro ⟨kv', hkv', h1, h2, h3⟩
      simp only [List.mem_cons] at hkv'
      rcases hkv' with rfl | hkv'
      · left
        have : (shouldCreate (V v) && !(inames.contains (V v).name)) = true := by
          simp only [Bool.and_eq_true, Bool.not_eq_true', List.contains_eq_mem, decide_eq_false_iff_not]
          exact ⟨h1, h2⟩
        rw [if_pos this, h3]
        simp
      · exact .inr ⟨kv', hkv', h1, h2, h3⟩

theorem mem_outVInfo (V : Nat → ValueS) (gouts : List Nat) (e : VInfoP) :
    ∀ (outs : List Nat), e ∈ outVInfo V gouts outs ↔
      ∃ v ∈ outs, v ∉ gouts ∧ shouldCreate (V v) = true ∧ e = ⟨nm V v, (V v).info.emit⟩ := by
  intro outs
  induction outs with
  | nil => simp [outVInfo]
  | cons v outs ih =>
    simp only [outVInfo]
    split
    · rename_i hc
      simp only [Bool.and_eq_true, Bool.not_eq_true', List.contains_eq_mem, decide_eq_false_iff_not] at hc
      simp only [List.mem_cons, ih]
      constructor
      · rintro (h | ⟨w, hw, h⟩)
        · exact ⟨v, by simp, hc.1, hc.2, by simpa [nm] using h⟩
        · exact ⟨w, by simp [hw], h⟩
      · rintro ⟨w, hw, h1, h2, h3⟩
        rcases hw with rfl | hw
        · exact .inl (by simpa [nm] using h3)
        · exact .inr ⟨w, hw, h1, h2, h3⟩
    · rename_i hc
      rw [ih]
      constructor
      · rintro ⟨w, hw, h⟩
        exact ⟨w, by simp [hw], h⟩
      · rintro ⟨w, hw, h1, h2, h3⟩
        simp only [List.mem_cons] at hw
        rcases hw with rfl | hw
        · refine absurd ?_ hc
          simp only [Bool.and_eq_true, Bool.not_eq_true', List.contains_eq_mem, decide_eq_false_iff_not]
          exact ⟨h1, h2⟩
        · exact ⟨w, hw, h1, h2, h3⟩

theorem mem_serNodes_vi (V : Nat → ValueS) (td : TData) (gouts : List Nat) (e : VInfoP) :
    ∀ (nodes : List NodeT) (nps : List NodeP) (vis : List VInfoP) (ws : Writes),
      serNodes V td gouts nodes = .ok (nps, vis, ws) →
      (e ∈ vis ↔ ∃ n ∈ nodes, e ∈ outVInfo V gouts n.outputs)
  | [], nps, vis, ws, h => by
    simp only [serNodes, Except.ok.injEq, Prod.mk.injEq] at h
    obtain ⟨_, rfl, _⟩ := h
    simp
  | n :: ns, nps, vis, ws, h => by
    simp only [serNodes] at h
    split at h
    · simp at h
    · rename_i np vi1 ws1 h1
      split at h
      · simp at h
      · rename_i nps' vis' ws2 h2
        simp only [Except.ok.injEq, Prod.mk.injEq] at h
        obtain ⟨_, rfl, _⟩ := h
        have ih := mem_serNodes_vi V td gouts e ns nps' vis' ws2 h2
        have hv1 : vi1 = outVInfo V gouts n.outputs := by
          obtain ⟨i, g, a, b, c⟩ := n
          simp only [serNode] at h1
          split at h1
          · simp at h1
          · split at h1
            · simp at h1
            · split at h1
              · simp at h1
              · simp only [Except.ok.injEq, Prod.mk.injEq] at h1
                exact h1.2.1.symm
        rw [List.mem_append, ih, hv1]
        simp

/-- what a lookup in `{info.name: info for info in value_info}` finds -/
theorem vinfoTable_lookup_some (L : List VInfoP) (x : Name) (i : Info)
    (hall : ∀ e ∈ L, e.name = x → e.info = i) (hex : ∃ e ∈ L, e.name = x) :
    (vinfoTable L).lookup x = some i := by
  induction L with
  | nil => simp at hex
  | cons a L ih =>
    simp only [vinfoTable, List.map_cons, List.reverse_cons]
    rw [List.lookup_append]
    by_cases hL : ∃ e ∈ L, e.name = x
    · have := ih (fun e he => hall e (by simp [he])) hL
      simp only [vinfoTable] at this
      rw [this]; rfl
    · have hnone : ((L.map fun i => (i.name, i.info)).reverse).lookup x = none := by
        rw [List.lookup_eq_none_iff]
        intro p hp
        simp only [List.mem_reverse, List.mem_map] at hp
        obtain ⟨e, he, rfl⟩ := hp
        simp only [bne_iff_ne, ne_eq]
        exact fun h => hL ⟨e, he, h.symm⟩
      rw [hnone]
      obtain ⟨e, he, hex'⟩ := hex
      simp only [List.mem_cons] at he
      rcases he with rfl | he
      · simp [List.lookup_cons, hex', hall e (by simp) hex']
      · exact absurd ⟨e, he, hex'⟩ hL

theorem vinfoTable_lookup_none (L : List VInfoP) (x : Name) (h : ∀ e ∈ L, e.name ≠ x) :
    (vinfoTable L).lookup x = none := by
  rw [List.lookup_eq_none_iff]
  intro p hp
  simp only [vinfoTable, List.mem_reverse, List.mem_map] at hp
  obtain ⟨e, he, rfl⟩ := hp
  simp only [bne_iff_ne, ne_eq]
  exact fun heq => h e he heq.symm

theorem truthy_mem_stripTrailing (V : Nat → ValueS) (v : Nat) :
    ∀ (outs : List Nat), v ∈ outs → nameTruthy (V v).name = true → v ∈ stripTrailing V outs := by
  intro outs
  induction outs with
  | nil => intro h; simp at h
  | cons a r ih =>
    intro hv ht
    simp only [stripTrailing]
    simp only [List.mem_cons] at hv
    split
    · rename_i hnil
      rcases hv with rfl | hv
      · simp [ht]
      · have := ih hv ht
        rw [hnil] at this
        simp at this
    · rcases hv with rfl | hv
      · simp
      · exact List.mem_cons_of_mem _ (ih hv ht)

theorem emit_of_not_present {i : Info} (h : i.present = false) : i.emit = {} := by
  cases i with
  | mk ty sh doc =>
    simp only [Info.present, Bool.or_eq_false_iff, Option.isSome_eq_false_iff, Option.isNone_iff_eq_none] at h
    simp [Info.emit, h.1, h.2]

theorem emit_orTensor {i t : Info} (h1 : i.ty ≠ none) (h2 : i.sh ≠ none) : (i.emit).orTensor t = i.emit := by
  cases i with
  | mk ty sh doc =>
    cases ty with
    | none => exact absurd rfl h1
    | some a =>
      cases sh with
      | none => exact absurd rfl h2
      | some b => simp [Info.emit, Info.orTensor]

theorem emit_emit (i : Info) : i.emit.emit = i.emit := by
  cases i with
  | mk ty sh doc => cases ty <;> simp [Info.emit]

end IrVerif.Scope

/-
C16: on the integer fragment the exact rational evaluator is Python integer arithmetic.
-/
import IrVerif.Lemmas.SymExprArith
namespace IrVerif.SymExpr

theorem ratAbs_intCast (x : Int) : ratAbs (x : Rat) = ((x.natAbs : Int) : Rat) := by
  unfold ratAbs
  by_cases h : (x : Rat) < 0
  · have hx : x < 0 := by exact_mod_cast h
    simp only [h, if_true]
    have : ((x.natAbs : Nat) : Int) = -x := Int.ofNat_natAbs_of_nonpos (le_of_lt hx)
    rw [this]; push_cast; ring
  · have hx : 0 ≤ x := by
      have : (0 : Rat) ≤ x := not_lt.mp h
      exact_mod_cast this
    simp only [h, if_false]
    have : ((x.natAbs : Nat) : Int) = x := Int.natAbs_of_nonneg hx
    rw [this]

theorem ratSign_intCast (x : Int) : ratSign (x : Rat) = ((x.sign : Int) : Rat) := by
  unfold ratSign
  rcases lt_trichotomy x 0 with h | h | h
  · have h' : (x : Rat) < 0 := by exact_mod_cast h
    simp [h', Int.sign_eq_neg_one_of_neg h]
  · subst h; simp
  · have h' : ¬ (x : Rat) < 0 := by
      have : (0 : Rat) < x := by exact_mod_cast h
      exact not_lt.mpr (le_of_lt this)
    have h'' : (x : Rat) ≠ 0 := by
      have : (0 : Rat) < x := by exact_mod_cast h
      exact ne_of_gt this
    simp [h', h'', Int.sign_eq_one_of_pos h]

theorem evalUn_int (o : UnOp) (x : Int) (ho : o ≠ .sqrt) :
    evalUn o (x : Rat) = some (((match o with
      | .neg => -x | .floor => x | .ceil => x | .trunc => x
      | .abs => (x.natAbs : Int) | .sign => x.sign | .sqrt => 0 : Int)) : Rat) := by
  cases o with
  | neg => simp [evalUn]
  | floor => simp [evalUn]
  | ceil =>
    have h : (-(x : Rat)).floor = -x := by
      have : (-(x : Rat)) = ((-x : Int) : Rat) := by push_cast; ring
      rw [this, floor_intCast']
    simp [evalUn, h]
  | trunc =>
    have h : ratTrunc (x : Rat) = x := by simp [ratTrunc]
    simp [evalUn, h]
  | abs => simp [evalUn, ratAbs_intCast]
  | sign => simp [evalUn, ratSign_intCast]
  | sqrt => exact absurd rfl ho


theorem evalBin_int_fdiv (x y : Int) (hy : y ≠ 0) :
    evalBin .fdiv (x : Rat) (y : Rat) = some ((Int.fdiv x y : Int) : Rat) := by
  have hyq : (y : Rat) ≠ 0 := by exact_mod_cast hy
  simp [evalBin, hyq, floor_div_int x y hy]

theorem evalBin_int_mod (x y : Int) (hy : y ≠ 0) :
    evalBin .mod (x : Rat) (y : Rat) = some ((Int.fmod x y : Int) : Rat) := by
  have hyq : (y : Rat) ≠ 0 := by exact_mod_cast hy
  simp only [evalBin, hyq, if_false, floor_div_int x y hy]
  congr 1
  have h : (x : Rat) = (y : Rat) * ((Int.fdiv x y : Int) : Rat) + ((Int.fmod x y : Int) : Rat) := by
    exact_mod_cast (Int.mul_fdiv_add_fmod x y).symm
  linarith

theorem ite_le_cast (x y a b : Int) :
    (if (x : Rat) ≤ (y : Rat) then (a : Rat) else (b : Rat)) = ((if x ≤ y then a else b : Int) : Rat) := by
  by_cases h : x ≤ y
  · have h' : (x : Rat) ≤ (y : Rat) := by exact_mod_cast h
    simp [h, h']
  · have h' : ¬ (x : Rat) ≤ (y : Rat) := by
      intro hc; exact h (by exact_mod_cast hc)
    simp [h, h']

/-- on the integer fragment, exact rational evaluation is Python integer evaluation -/
theorem eval_eq_evalInt (env : Env) (e : Expr) (h : intFrag e = true) :
    eval env e = (evalInt env e).map (fun (z : Int) => (z : Rat)) := by
  induction e with
  | num n => simp [eval, evalInt]
  | sym s => cases hs : env s <;> simp [eval, evalInt, hs]
  | inf b => simp [intFrag] at h
  | un o a ih =>
    have ho : o ≠ .sqrt := by rintro rfl; simp [intFrag] at h
    have ha : intFrag a = true := by cases o <;> simp_all [intFrag]
    simp only [eval, evalInt, ih ha]
    cases evalInt env a with
    | none => rfl
    | some x =>
      simp only [Option.map_some]
      rw [evalUn_int o x ho]
      cases o <;> first | rfl | exact absurd rfl ho
  | bin o a b iha ihb =>
    have hab : intFrag a = true ∧ intFrag b = true := by
      cases o <;> simp_all [intFrag]
    have ho1 : o ≠ .div := by rintro rfl; simp [intFrag] at h
    have ho2 : o ≠ .pow := by rintro rfl; simp [intFrag] at h
    simp only [eval, evalInt, iha hab.1, ihb hab.2]
    cases evalInt env a with
    | none => rfl
    | some x =>
      cases evalInt env b with
      | none => rfl
      | some y =>
        simp only [Option.map_some]
        cases o with
        | add => simp [evalBin]
        | sub => simp [evalBin]
        | mul => simp [evalBin]
        | div => exact absurd rfl ho1
        | pow => exact absurd rfl ho2
        | fdiv =>
          by_cases hy : y = 0
          · subst hy; simp [evalBin]
          · simp [hy, evalBin_int_fdiv x y hy]
        | mod =>
          by_cases hy : y = 0
          · subst hy; simp [evalBin]
          · simp [hy, evalBin_int_mod x y hy]
        | max => simp [evalBin]
        | min => simp [evalBin]

end IrVerif.SymExpr

/-
Basic facts about the object store and the non-recursive helpers of `IrVerif.Scope`
(used by Props/C03.lean and Props/C17.lean).  Core Lean only.
-/
import IrVerif.Model.Scope
namespace IrVerif.Scope

/-! ### store primitives -/

@[simp] theorem alloc_snd (st : Store) (c : ValueS) : (st.alloc c).2 = st.nv := rfl
@[simp] theorem alloc_nv (st : Store) (c : ValueS) : (st.alloc c).1.nv = st.nv + 1 := rfl
@[simp] theorem alloc_nn (st : Store) (c : ValueS) : (st.alloc c).1.nn = st.nn := rfl
@[simp] theorem alloc_ng (st : Store) (c : ValueS) : (st.alloc c).1.ng = st.ng := rfl
@[simp] theorem alloc_nt (st : Store) (c : ValueS) : (st.alloc c).1.nt = st.nt := rfl
@[simp] theorem alloc_tens (st : Store) (c : ValueS) : (st.alloc c).1.tens = st.tens := rfl
theorem alloc_vals (st : Store) (c : ValueS) (i : Nat) :
    (st.alloc c).1.vals i = if i = st.nv then c else st.vals i := rfl
@[simp] theorem alloc_vals_self (st : Store) (c : ValueS) : (st.alloc c).1.vals st.nv = c := by
  simp [alloc_vals]
theorem alloc_vals_lt (st : Store) (c : ValueS) {i : Nat} (h : i < st.nv) :
    (st.alloc c).1.vals i = st.vals i := by
  simp [alloc_vals, Nat.ne_of_lt h]

@[simp] theorem modify_nv (st : Store) (v : Nat) (f : ValueS → ValueS) : (st.modify v f).nv = st.nv := rfl
@[simp] theorem modify_nn (st : Store) (v : Nat) (f : ValueS → ValueS) : (st.modify v f).nn = st.nn := rfl
@[simp] theorem modify_ng (st : Store) (v : Nat) (f : ValueS → ValueS) : (st.modify v f).ng = st.ng := rfl
@[simp] theorem modify_nt (st : Store) (v : Nat) (f : ValueS → ValueS) : (st.modify v f).nt = st.nt := rfl
@[simp] theorem modify_tens (st : Store) (v : Nat) (f : ValueS → ValueS) :
    (st.modify v f).tens = st.tens := rfl
theorem modify_vals (st : Store) (v : Nat) (f : ValueS → ValueS) (i : Nat) :
    (st.modify v f).vals i = if i = v then f (st.vals i) else st.vals i := rfl
@[simp] theorem modify_vals_self (st : Store) (v : Nat) (f : ValueS → ValueS) :
    (st.modify v f).vals v = f (st.vals v) := by simp [modify_vals]
theorem modify_vals_ne (st : Store) (v : Nat) (f : ValueS → ValueS) {i : Nat} (h : i ≠ v) :
    (st.modify v f).vals i = st.vals i := by simp [modify_vals, h]

@[simp] theorem allocTensor_vals (st : Store) (t : TensorS) : (st.allocTensor t).1.vals = st.vals := rfl
@[simp] theorem allocTensor_nv (st : Store) (t : TensorS) : (st.allocTensor t).1.nv = st.nv := rfl
@[simp] theorem allocTensor_nn (st : Store) (t : TensorS) : (st.allocTensor t).1.nn = st.nn := rfl
@[simp] theorem allocTensor_ng (st : Store) (t : TensorS) : (st.allocTensor t).1.ng = st.ng := rfl

/-! ### tables -/

theorem lookup_mem {α : Type} (x : Name) (t : List (Name × α)) (v : α) (h : t.lookup x = some v) :
    (x, v) ∈ t := by
  induction t with
  | nil => simp at h
  | cons e t ih =>
    obtain ⟨k, w⟩ := e
    simp only [List.lookup_cons] at h
    split at h
    · rename_i hk
      simp only [Option.some.injEq] at h
      have : x = k := by simpa using hk
      subst this; subst h
      simp
    · exact List.mem_cons_of_mem _ (ih h)

theorem lookup_cons_ne {α : Type} (x k : Name) (w : α) (t : List (Name × α)) (h : x ≠ k) :
    List.lookup x ((k, w) :: t) = List.lookup x t := by
  have : (x == k) = false := by simpa using h
  simp [List.lookup_cons, this]

theorem lookup_cons_self {α : Type} (x : Name) (w : α) (t : List (Name × α)) :
    List.lookup x ((x, w) :: t) = some w := by
  simp

theorem resolve_mem (x : Name) (scopes : List Table) (v : Nat) (h : resolve x scopes = some v) :
    ∃ t ∈ scopes, (x, v) ∈ t := by
  induction scopes with
  | nil => simp [resolve] at h
  | cons t ts ih =>
    simp only [resolve] at h
    split at h
    · rename_i w hw
      simp only [Option.some.injEq] at h
      subst h
      exact ⟨t, by simp, lookup_mem _ _ _ hw⟩
    · obtain ⟨t', ht', hm⟩ := ih h
      exact ⟨t', by simp [ht'], hm⟩

end IrVerif.Scope

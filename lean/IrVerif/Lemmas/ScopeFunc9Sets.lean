/-
Set-theoretic facts used by the fix-point of the IR version < 10 format: where the values of a function
(`fvals`: inputs and outputs of its own nodes) sit in the certificate, equally named function values carry the
same emitted info, reserved names and experimental entries are preserved by a renaming (`TreeRelG`).
-/
import IrVerif.Lemmas.ScopeFunc9Cert
import IrVerif.Lemmas.ScopeFunc9Post
namespace IrVerif.Scope

/-! ### lists -/

theorem flatMap_nodup_disjoint {α : Type} (h : α → List Nat) : ∀ (fs : List α), (fs.flatMap h).Nodup →
    ∀ f ∈ fs, ∀ g ∈ fs, f ≠ g → ∀ x ∈ h f, x ∉ h g
  | [], _, f, hf, _, _, _, _, _ => by simp at hf
  | a :: fs, hnd, f, hf, g, hg, hne, x, hx => by
    simp only [List.flatMap_cons] at hnd
    rw [List.nodup_append] at hnd
    obtain ⟨_, n2, n3⟩ := hnd
    simp only [List.mem_cons] at hf hg
    rcases hf with rfl | hf <;> rcases hg with rfl | hg
    · exact absurd rfl hne
    · exact fun hx' => n3 x hx x (List.mem_flatMap.mpr ⟨g, hg, hx'⟩) rfl
    · exact fun hx' => n3 x hx' x (List.mem_flatMap.mpr ⟨f, hf, hx⟩) rfl
    · exact flatMap_nodup_disjoint h fs n2 f hf g hg hne x hx

theorem keys_inj {β : Type} : ∀ (fs : List (FId × β)), (fs.map (·.1)).Nodup → ∀ f ∈ fs, ∀ g ∈ fs, f.1 = g.1 → f = g
  | [], _, f, hf, _, _, _ => by simp at hf
  | a :: fs, hnd, f, hf, g, hg, he => by
    simp only [List.map_cons, List.nodup_cons] at hnd
    simp only [List.mem_cons] at hf hg
    rcases hf with rfl | hf <;> rcases hg with rfl | hg
    · rfl
    · exact absurd (he ▸ List.mem_map_of_mem (f := (·.1)) hg) hnd.1
    · exact absurd (he ▸ List.mem_map_of_mem (f := (·.1)) hf) hnd.1
    · exact keys_inj fs hnd.2 f hf g hg he

theorem filterMap_strip {β : Type} (V : Nat → ValueS) (G : Nat → Option β)
    (hG : ∀ v, nameTruthy (V v).name = false → G v = none) :
    ∀ (l : List Nat), (stripTrailing V l).filterMap G = l.filterMap G := by
  intro l
  induction l with
  | nil => rfl
  | cons a r ih =>
    by_cases hs : stripTrailing V r = []
    · rw [stripTrailing_cons_nil V a r hs]
      rw [hs] at ih
      simp only [List.filterMap_nil] at ih
      by_cases ht : nameTruthy (V a).name = true
      · simp only [ht, if_true, List.filterMap_cons, List.filterMap_nil, ← ih]
      · have hf : nameTruthy (V a).name = false := by simpa using ht
        simp only [hf, Bool.false_eq_true, if_false, List.filterMap_nil, List.filterMap_cons, hG a hf, ← ih]
    · rw [stripTrailing_cons_ne V a r hs]
      simp only [List.filterMap_cons, ih]

theorem filterMap_live {β : Type} (V : Nat → ValueS) (G : Nat → Option β)
    (hG : ∀ v, nameTruthy (V v).name = false → G v = none) :
    ∀ (ns : List NodeT), (ns.flatMap (liveOuts V)).filterMap G = (ns.flatMap NodeT.outputs).filterMap G
  | [] => rfl
  | .mk i g ins outs subs :: ns => by
    simp only [List.flatMap_cons, List.filterMap_append, liveOuts, NodeT.outputs, filterMap_strip V G hG,
      filterMap_live V G hG ns]

theorem filterMap_map_sig {β : Type} (σ : Nat → Nat) (G G' : Nat → Option β) :
    ∀ (l : List Nat), (∀ v ∈ l, G' (σ v) = G v) → (l.map σ).filterMap G' = l.filterMap G
  | [], _ => rfl
  | a :: r, h => by
    simp only [List.map_cons, List.filterMap_cons, h a (by simp),
      filterMap_map_sig σ G G' r (fun v hv => h v (by simp [hv]))]

/-! ### where the values of a function sit in its certificate -/

theorem replF_new_eq (V : Nat → ValueS) (gid : Nat) (ins : List Nat) (inits : List (Name × Nat)) (nodes : List NodeT)
    (outs : List Nat) : (replF V (.mk gid ins inits nodes outs)).new =
      ins ++ (replDecl V (tblIns V ins) (nodes.flatMap (liveOuts V))).new ++
        (replNs V [] (replDecl V (tblIns V ins) (nodes.flatMap (liveOuts V))).tbl nodes).new := rfl

/-- a truthy-named value of a function is an input or a declared node output -/
theorem fvals_truthy_top (V : Nat → ValueS) (gid : Nat) (ins : List Nat) (inits : List (Name × Nat))
    (nodes : List NodeT) (outs : List Nat) (hok : (replF V (.mk gid ins inits nodes outs)).ok) (v : Nat)
    (hv : v ∈ fvals (.mk gid ins inits nodes outs)) (ht : nameTruthy (V v).name = true) :
    v ∈ ins ∨ v ∈ (replDecl V (tblIns V ins) (nodes.flatMap (liveOuts V))).new := by
  simp only [fvals, GraphT.inputs, GraphT.nodes, List.mem_append, List.mem_flatMap] at hv
  rcases hv with hv | ⟨n, hn, hv⟩
  · exact .inl hv
  · right
    simp only [replF] at hok
    obtain ⟨d1, _, _⟩ := replDecl_new V _ _ hok.2.2.2.1
    rw [d1, List.mem_filter]
    refine ⟨List.mem_flatMap.mpr ⟨n, hn, ?_⟩, ht⟩
    obtain ⟨i, g, a, b, c⟩ := n
    exact truthy_mem_stripTrailing V v b hv ht

theorem fvals_truthy_new (V : Nat → ValueS) (g : GraphT) (hok : (replF V g).ok) (v : Nat) (hv : v ∈ fvals g)
    (ht : nameTruthy (V v).name = true) : v ∈ (replF V g).new := by
  obtain ⟨gid, ins, inits, nodes, outs⟩ := g
  rw [replF_new_eq]
  simp only [List.mem_append]
  rcases fvals_truthy_top V gid ins inits nodes outs hok v hv ht with h | h
  · exact .inl (.inl h)
  · exact .inl (.inr h)

/-- a truthy-named value of a function is not introduced by the node phase (placeholders, nested graphs) -/
theorem fvals_truthy_not_nodes (V : Nat → ValueS) (gid : Nat) (ins : List Nat) (inits : List (Name × Nat))
    (nodes : List NodeT) (outs : List Nat) (hok : (replF V (.mk gid ins inits nodes outs)).ok)
    (hnd : (replF V (.mk gid ins inits nodes outs)).new.Nodup) (v : Nat)
    (hv : v ∈ fvals (.mk gid ins inits nodes outs)) (ht : nameTruthy (V v).name = true) :
    v ∉ (replNs V [] (replDecl V (tblIns V ins) (nodes.flatMap (liveOuts V))).tbl nodes).new := by
  rw [replF_new_eq, List.nodup_append] at hnd
  intro hN
  have : v ∈ ins ++ (replDecl V (tblIns V ins) (nodes.flatMap (liveOuts V))).new := by
    rw [List.mem_append]
    exact fvals_truthy_top V gid ins inits nodes outs hok v hv ht
  exact hnd.2.2 v this v hN rfl

/-- equally (truthy-)named values of a certified function carry the same emitted info -/
theorem fvals_sameInfo (V : Nat → ValueS) (g : GraphT) (hok : (replF V g).ok) (a b : Nat) (ha : a ∈ fvals g)
    (hb : b ∈ fvals g) (ht : nameTruthy (V a).name = true) (hn : (V a).name = (V b).name) :
    (V a).info.emit = (V b).info.emit := by
  obtain ⟨gid, ins, inits, nodes, outs⟩ := g
  have htb : nameTruthy (V b).name = true := by rw [← hn]; exact ht
  have hnm : nm V a = nm V b := by simp only [nm, hn]
  have ta := fvals_truthy_top V gid ins inits nodes outs hok a ha ht
  have tb := fvals_truthy_top V gid ins inits nodes outs hok b hb htb
  simp only [replF] at hok
  obtain ⟨_, _, hsame, okD, _, _⟩ := hok
  obtain ⟨_, _, hlook⟩ := replDecl_new V _ _ okD
  have hunb := replDecl_new_unbound V _ _ okD
  rcases ta with ta | ta <;> rcases tb with tb | tb
  · exact hsame a ta b tb ht hn
  · exact absurd hnm (tblIns_lookup_none V ins _ (hunb b tb) a ta)
  · exact absurd hnm.symm (tblIns_lookup_none V ins _ (hunb a ta) b tb)
  · have h1 := hlook a ta
    have h2 := hlook b tb
    rw [hnm, h2] at h1
    rw [Option.some.inj h1]

/-! ### node outputs without a usable name and the values of nested graphs -/

/-- the live node outputs without a usable name -/
def liveNT (V : Nat → ValueS) (ns : List NodeT) : List Nat :=
  ns.flatMap fun n => (liveOuts V n).filter fun v => !nameTruthy (V v).name

theorem liveNT_sub_new (V : Nat → ValueS) (outer : List Table) : ∀ (ns : List NodeT) (T : Table),
    ∀ v ∈ liveNT V ns, v ∈ (replNs V outer T ns).new
  | [], _, v, hv => by simp [liveNT] at hv
  | .mk i g ins outs subs :: ns, T, v, hv => by
    simp only [liveNT, List.flatMap_cons, List.mem_append] at hv
    simp only [replNs, List.mem_append]
    rcases hv with hv | hv
    · left
      simp only [replN, List.mem_append]
      exact .inl (.inr hv)
    · exact .inr (liveNT_sub_new V outer ns _ v hv)

theorem liveNT_emitSub_disjoint (V : Nat → ValueS) (outer : List Table) : ∀ (ns : List NodeT) (T : Table),
    (replNs V outer T ns).ok → (replNs V outer T ns).new.Nodup → ∀ v ∈ liveNT V ns, v ∉ emitSubNs V ns
  | [], _, _, _, v, hv => by simp [liveNT] at hv
  | .mk i g ins outs subs :: ns, T, hok, hnd, v, hv => by
    simp only [replNs] at hok hnd
    rw [List.nodup_append] at hnd
    obtain ⟨n1, n2, n3⟩ := hnd
    have hv0 := hv
    simp only [liveNT, List.flatMap_cons, List.mem_append] at hv
    simp only [emitSubNs, List.mem_append, not_or]
    have hsub1 := emitSubN_sub_new V (.mk i g ins outs subs) outer T hok.1
    have hsub2 := emitSubNs_sub_new V ns outer _ hok.2
    rcases hv with hv | hv
    · constructor
      · intro he
        simp only [emitSubN] at he
        simp only [replN] at hok n1
        have hin := emitGs_sub_new V subs _ hok.1.2.2.2 v he
        rw [List.nodup_append] at n1
        exact n1.2.2 v (List.mem_append_right _ hv) v hin rfl
      · intro he
        have h1 : v ∈ (replN V outer T (.mk i g ins outs subs)).new := by
          simp only [replN, List.mem_append]
          exact .inl (.inr hv)
        exact n3 v h1 v (hsub2 v he) rfl
    · constructor
      · intro he
        exact n3 v (hsub1 v he) v (liveNT_sub_new V outer ns _ v hv) rfl
      · exact liveNT_emitSub_disjoint V outer ns _ hok.2 n2 v hv

/-- in a world where every output of the function's own nodes is live, every value of the function is
    introduced by its certificate, and none of them belongs to a nested graph -/
theorem fvals_live (V : Nat → ValueS) (g : GraphT) (hok : (replF V g).ok) (hnd : (replF V g).new.Nodup)
    (hlive : ∀ n ∈ g.nodes, liveOuts V n = n.outputs) (v : Nat) (hv : v ∈ fvals g) :
    v ∈ (replF V g).new ∧ v ∉ emitSubNs V g.nodes := by
  obtain ⟨gid, ins, inits, nodes, outs⟩ := g
  simp only [GraphT.nodes] at hlive ⊢
  by_cases ht : nameTruthy (V v).name = true
  · refine ⟨fvals_truthy_new V _ hok v hv ht, fun he => ?_⟩
    have hN := fvals_truthy_not_nodes V gid ins inits nodes outs hok hnd v hv ht
    simp only [replF] at hok
    exact hN (emitSubNs_sub_new V nodes [] _ hok.2.2.2.2.1 v he)
  · have hf : nameTruthy (V v).name = false := by simpa using ht
    have hok' := hok
    simp only [replF] at hok
    have hsub := emitSubNs_sub_new V nodes [] _ hok.2.2.2.2.1
    rw [replF_new_eq] at hnd ⊢
    rw [List.nodup_append] at hnd
    simp only [fvals, GraphT.inputs, GraphT.nodes, List.mem_append, List.mem_flatMap] at hv
    rcases hv with hv | ⟨n, hn, hv⟩
    · refine ⟨by simp [hv], fun he => ?_⟩
      exact hnd.2.2 v (by simp [hv]) v (hsub v he) rfl
    · have hl : v ∈ liveNT V nodes := by
        simp only [liveNT, List.mem_flatMap, List.mem_filter]
        exact ⟨n, hn, by rw [hlive n hn]; exact hv, by simp [hf]⟩
      refine ⟨?_, liveNT_emitSub_disjoint V [] nodes _ hok.2.2.2.2.1 hnd.2.1 v hl⟩
      simp only [List.mem_append]
      exact .inr (liveNT_sub_new V [] nodes _ v hl)

/-! ### a renamed tree -/

theorem treeRelNs_outputs (V : Nat → ValueS) (A : Assoc) : ∀ (ns ns' : List NodeT), TreeRelNs V A ns ns' →
    ns'.flatMap NodeT.outputs = (ns.flatMap (liveOuts V)).map (sig A) ∧
    (∀ v ∈ ns.flatMap (liveOuts V), v ∈ A.map (·.1))
  | [], [], _ => ⟨rfl, fun _ h => by simp at h⟩
  | n :: ns, n' :: ns', h => by
    simp only [TreeRelNs] at h
    obtain ⟨a, b⟩ := treeRelNs_outputs V A ns ns' h.2
    obtain ⟨i, g, ins, outs, subs⟩ := n
    obtain ⟨i', g', ins', outs', subs'⟩ := n'
    have h1 := h.1
    simp only [TreeRelN] at h1
    obtain ⟨_, _, e, hk, _⟩ := h1
    refine ⟨by simp only [List.flatMap_cons, NodeT.outputs, liveOuts, List.map_append, a, e], fun v hv => ?_⟩
    simp only [List.flatMap_cons, List.mem_append, liveOuts] at hv
    rcases hv with hv | hv
    · exact hk v hv
    · exact b v hv
  | [], _ :: _, h => by simp [TreeRelNs] at h
  | _ :: _, [], h => by simp [TreeRelNs] at h

/-- in the image of a renaming that keeps names, every node output is live -/
theorem treeRelNs_live (V W : Nat → ValueS) (A : Assoc)
    (hn : ∀ v ∈ A.map (·.1), (W (sig A v)).name = (V v).name) : ∀ (ns ns' : List NodeT), TreeRelNs V A ns ns' →
    ∀ n' ∈ ns', liveOuts W n' = n'.outputs
  | [], [], _, n', hn' => by simp at hn'
  | n :: ns, m :: ns', h, n', hn' => by
    simp only [TreeRelNs] at h
    simp only [List.mem_cons] at hn'
    rcases hn' with rfl | hn'
    · obtain ⟨i, g, ins, outs, subs⟩ := n
      obtain ⟨i', g', ins', outs', subs'⟩ := n'
      have h1 := h.1
      simp only [TreeRelN] at h1
      obtain ⟨_, _, e, hk, _⟩ := h1
      simp only [liveOuts, NodeT.outputs, e]
      rw [img2_stripTrailing hn _ hk, stripTrailing_idem]
    · exact treeRelNs_live V W A hn ns ns' h.2 n' hn'
  | [], _ :: _, h, _, _ => by simp [TreeRelNs] at h
  | _ :: _, [], h, _, _ => by simp [TreeRelNs] at h

theorem treeRelFs_mem (V : Nat → ValueS) (A : Assoc) : ∀ (fs gs : List (FId × GraphT)), TreeRelFs V A fs gs →
    (∀ g ∈ gs, ∃ f ∈ fs, f.1 = g.1 ∧ TreeRelG V A f.2 g.2) ∧ (∀ f ∈ fs, ∃ g ∈ gs, f.1 = g.1 ∧ TreeRelG V A f.2 g.2)
  | [], [], _ => ⟨fun _ h => by simp at h, fun _ h => by simp at h⟩
  | f :: fs, g :: gs, h => by
    simp only [TreeRelFs] at h
    obtain ⟨a, b⟩ := treeRelFs_mem V A fs gs h.2.2
    constructor
    · intro g' hg'
      simp only [List.mem_cons] at hg'
      rcases hg' with rfl | hg'
      · exact ⟨f, by simp, h.1, h.2.1⟩
      · obtain ⟨f', hf', e⟩ := a g' hg'
        exact ⟨f', by simp [hf'], e⟩
    · intro f' hf'
      simp only [List.mem_cons] at hf'
      rcases hf' with rfl | hf'
      · exact ⟨g, by simp, h.1, h.2.1⟩
      · obtain ⟨g', hg', e⟩ := b f' hf'
        exact ⟨g', by simp [hg'], e⟩
  | [], _ :: _, h => by simp [TreeRelFs] at h
  | _ :: _, [], h => by simp [TreeRelFs] at h

/-! ### reserved names -/

/-- the non-empty name of a value -/
def nameNE (V : Nat → ValueS) (v : Nat) : Option Name :=
  match (V v).name with
  | some n => if n = "" then none else some n
  | none => none

theorem nameNE_of_not_truthy (V : Nat → ValueS) (v : Nat) (h : nameTruthy (V v).name = false) : nameNE V v = none := by
  unfold nameNE
  cases hn : (V v).name with
  | none => rfl
  | some n =>
    simp only [hn, nameTruthy, bne_eq_false_iff_eq] at h
    simp [h]

theorem reservedNames_eq (V : Nat → ValueS) (gid : Nat) (ins : List Nat) (inits : List (Name × Nat)) (nodes : List NodeT)
    (outs : List Nat) : reservedNames V (.mk gid ins inits nodes outs) =
      ((nodes.flatMap fun n => n.inputs.filterMap id ++ n.outputs).filterMap (nameNE V)) ++
        (inits.map (·.1)).filter (· != "") := rfl

theorem filterMap_id_map (σ : Nat → Nat) : ∀ (l : List (Option Nat)),
    (l.map (Option.map σ)).filterMap id = (l.filterMap id).map σ
  | [] => rfl
  | none :: r => by simp [filterMap_id_map σ r]
  | some v :: r => by simp [filterMap_id_map σ r]

theorem resNodes_eq (V W : Nat → ValueS) (A : Assoc)
    (hn : ∀ v ∈ A.map (·.1), (W (sig A v)).name = (V v).name) : ∀ (ns ns' : List NodeT), TreeRelNs V A ns ns' →
    (ns'.flatMap fun n => n.inputs.filterMap id ++ n.outputs).filterMap (nameNE W) =
      (ns.flatMap fun n => n.inputs.filterMap id ++ n.outputs).filterMap (nameNE V)
  | [], [], _ => rfl
  | n :: ns, n' :: ns', h => by
    simp only [TreeRelNs] at h
    have ih := resNodes_eq V W A hn ns ns' h.2
    obtain ⟨i, g, ins, outs, subs⟩ := n
    obtain ⟨i', g', ins', outs', subs'⟩ := n'
    have h1 := h.1
    simp only [TreeRelN] at h1
    obtain ⟨e1, k1, e2, k2, _⟩ := h1
    have hpt : ∀ v ∈ A.map (·.1), nameNE W (sig A v) = nameNE V v := fun v hv => by
      simp only [nameNE, hn v hv]
    have a : ((ins.map (Option.map (sig A))).filterMap id).filterMap (nameNE W) = (ins.filterMap id).filterMap (nameNE V) := by
      rw [filterMap_id_map]
      apply filterMap_map_sig
      intro v hv
      apply hpt
      apply k1
      simp only [List.mem_filterMap, id] at hv
      obtain ⟨o, ho, rfl⟩ := hv
      exact ho
    have b : ((stripTrailing V outs).map (sig A)).filterMap (nameNE W) = outs.filterMap (nameNE V) := by
      rw [filterMap_map_sig (sig A) (nameNE V) (nameNE W) _ (fun v hv => hpt v (k2 v hv))]
      exact filterMap_strip V (nameNE V) (nameNE_of_not_truthy V) outs
    rw [List.flatMap_cons, List.flatMap_cons, List.filterMap_append, List.filterMap_append, ih]
    simp only [List.filterMap_append, NodeT.inputs, NodeT.outputs, e1, e2, a, b]
  | [], _ :: _, h => by simp [TreeRelNs] at h
  | _ :: _, [], h => by simp [TreeRelNs] at h

theorem reservedNames_rel (V W : Nat → ValueS) (A : Assoc)
    (hn : ∀ v ∈ A.map (·.1), (W (sig A v)).name = (V v).name) (g g' : GraphT) (h : TreeRelG V A g g') :
    reservedNames W g' = reservedNames V g := by
  obtain ⟨gid, ins, inits, nodes, outs⟩ := g
  obtain ⟨gid', ins', inits', nodes', outs'⟩ := g'
  simp only [TreeRelG] at h
  obtain ⟨_, _, e, _, hN, _, _⟩ := h
  rw [reservedNames_eq, reservedNames_eq, resNodes_eq V W A hn nodes nodes' hN, e]
  simp only [List.map_map]
  rfl

/-! ### the experimental entries as a `filterMap` -/

/-- the entry `expVInfo` writes for one value -/
def expEntry (V : Nat → ValueS) (R : List Name) (k : FId) (v : Nat) : Option VInfoP :=
  if nameTruthy (V v).name && shouldCreate (V v) && canParseBack R k ((V v).name.getD "") then
    some ⟨formatExp k.domain k.name ((V v).name.getD ""), (V v).info.emit⟩
  else none

theorem expVInfo_eq (V : Nat → ValueS) (R : List Name) (k : FId) : ∀ (l : List Nat),
    expVInfo V R k l = l.filterMap (expEntry V R k)
  | [] => rfl
  | v :: vs => by
    simp only [expVInfo, List.filterMap_cons, expEntry, expVInfo_eq V R k vs]
    split <;> rfl

theorem expEntry_of_not_truthy (V : Nat → ValueS) (R : List Name) (k : FId) (v : Nat)
    (h : nameTruthy (V v).name = false) : expEntry V R k v = none := by
  simp [expEntry, h]

end IrVerif.Scope

import IrVerif.Lemmas.SerdeMergeSub
/-! C02 deepening, E4 (several graph output entries with one name):
`WFproto (merge (outdup x)) -> deserialize (outdup x) = deserialize x`, by a third mutual induction over
attributes, nodes and graphs; both sides have the general closed form `graph_des_closedAll` (no condition
on the names of the output entries) and the final tables agree value by value: applying the entries of
one name one after the other is applying their union (`dictUpdate_assoc`), once or several times
(`dictUpdate_idem`). -/
namespace IrVerif.Serde
open IrVerif.Proto

/-! ### the union of a group of entries -/

def mdStep (D : Dict) (e : ValueInfoP) : Dict := dictUpdate D (dictOfEntries e.metadata)

theorem unionMd_eq (es : List ValueInfoP) : unionMd es = es.foldl mdStep [] := rfl

theorem nodup_foldl_mdStep : ∀ (es : List ValueInfoP) (U : Dict), (dkeys U).Nodup →
    (dkeys (es.foldl mdStep U)).Nodup
  | [], _, h => h
  | e :: es, U, h => by
    rw [List.foldl_cons]
    exact nodup_foldl_mdStep es _ (nodup_dkeys_dictUpdate h _)

theorem nodup_unionMd (es : List ValueInfoP) : (dkeys (unionMd es)).Nodup :=
  nodup_foldl_mdStep es [] (by simp [dkeys])

/-- `d.update(e1); d.update(e2); ...` = `d.update(e1 united with e2 ...)` -/
theorem foldl_mdStep_assoc : ∀ (es : List ValueInfoP) (d U : Dict), (dkeys U).Nodup →
    es.foldl mdStep (dictUpdate d U) = dictUpdate d (es.foldl mdStep U)
  | [], _, _, _ => rfl
  | e :: es, d, U, h => by
    rw [List.foldl_cons, List.foldl_cons]
    show es.foldl mdStep (dictUpdate (dictUpdate d U) (dictOfEntries e.metadata)) = _
    rw [dictUpdate_assoc _ U d h]
    exact foldl_mdStep_assoc es d _ (nodup_dkeys_dictUpdate h _)

theorem foldl_mdStep_union (es : List ValueInfoP) (d : Dict) :
    es.foldl mdStep d = dictUpdate d (unionMd es) :=
  foldl_mdStep_assoc es d [] (by simp [dkeys])

/-- applying all entries named `n`, in order: type / shape / doc string of the last one, metadata
united -/
theorem foldl_applyInfoT_group (n : String) : ∀ (outputs : List ValueInfoP) (v : IRValue) (last : ValueInfoP),
    findVI outputs n = some last →
    (outputs.filter (fun w => w.name = n)).foldl applyInfoT v =
      { v with shape := shOf last.type, type := tyOf last.type, doc := last.doc,
               mprops := (outputs.filter (fun w => w.name = n)).foldl mdStep v.mprops }
  | [], _, _, h => by simp [findVI, findLast?] at h
  | x :: xs, v, last, h => by
    simp only [findVI, findLast?] at h
    cases hf : findLast? (fun w : ValueInfoP => w.name = n) xs with
    | some y =>
      rw [hf] at h
      simp only [Option.some.injEq] at h
      subst h
      by_cases hx : x.name = n
      · simp only [List.filter_cons, hx, decide_true, if_true, List.foldl_cons]
        rw [foldl_applyInfoT_group n xs (applyInfoT v x) y hf]
        simp [applyInfoT, mdStep]
      · simp only [List.filter_cons, hx, decide_false, Bool.false_eq_true, if_false]
        exact foldl_applyInfoT_group n xs v y hf
    | none =>
      rw [hf] at h
      have hnone : xs.filter (fun w => w.name = n) = [] := by
        rw [List.filter_eq_nil_iff]
        intro a ha hn
        have := findVI_none_iff.1 (show findVI xs n = none from hf)
        exact this (by
          have : a.name = n := by simpa using hn
          rw [← this]; exact List.mem_map_of_mem ha)
      by_cases hx : x.name = n
      · simp only [hx, decide_true, if_true, Option.some.injEq] at h
        subst h
        simp [List.filter_cons, hx, hnone, applyInfoT, mdStep]
      · simp [hx] at h

theorem outdupVI_name (S : List String) (outputs : List ValueInfoP) (vo : ValueInfoP) :
    (outdupVI S outputs vo).name = vo.name := by
  unfold outdupVI
  split
  · cases hf : findVI outputs vo.name with
    | none => rfl
    | some last => exact (findVI_mem hf).2
  · rfl

/-- a replaced entry is well formed only if the original was -/
theorem wfVI_of_outdup {S : List String} {outputs : List ValueInfoP} {vo : ValueInfoP} (hvo : vo ∈ outputs)
    (h : wfVI (outdupVI S outputs vo) = true) : wfVI vo = true := by
  unfold outdupVI at h
  split at h
  · rename_i ha
    simp only [outdupApplies, Bool.and_eq_true, List.all_eq_true] at ha
    exact ha.2 vo (List.mem_filter.2 ⟨hvo, by simp⟩)
  · exact h

/-- the entries named `n` after `outdup`: unchanged, or copies of one entry `m` with
`applyInfoT v m` = all of them applied -/
theorem outUpdAll_outdup (S : List String) (outputs : List ValueInfoP) (v : IRValue) :
    outUpdAll (outputs.map (outdupVI S outputs)) v = outUpdAll outputs v := by
  unfold outUpdAll
  rw [filter_map_names _ (outdupVI_name S outputs) v.name outputs]
  cases hg : outputs.filter (fun vi => vi.name = v.name) with
  | nil => rfl
  | cons g rest =>
    have hgm : g ∈ outputs.filter (fun vi => vi.name = v.name) := by rw [hg]; simp
    have hgn : g.name = v.name := by simpa using (List.mem_filter.1 hgm).2
    -- every member of the group has the same `sameName` / `outdupApplies`
    have hsn : ∀ x ∈ g :: rest, sameName outputs x = g :: rest := by
      intro x hx
      have hxn : x.name = v.name := by
        rw [← hg] at hx
        simpa using (List.mem_filter.1 hx).2
      unfold sameName
      rw [hxn, hg]
    by_cases ha : outdupApplies S outputs g = true
    · have hall : ∀ x ∈ g :: rest, outdupApplies S outputs x = true := by
        intro x hx
        have hxn : x.name = v.name := by
          rw [← hg] at hx
          simpa using (List.mem_filter.1 hx).2
        simp only [outdupApplies, hsn x hx, hxn] at ha ⊢
        rw [hsn g (by simp), hgn] at ha
        exact ha
      obtain ⟨last, hlast⟩ : ∃ last, findVI outputs v.name = some last := by
        cases hf : findVI outputs v.name with
        | some l => exact ⟨l, rfl⟩
        | none =>
          exact absurd (by rw [← hgn]; exact List.mem_map_of_mem (List.mem_filter.1 hgm).1)
            (findVI_none_iff.1 hf)
      let m : ValueInfoP := { last with metadata := entriesOfDict (unionMd (g :: rest)) }
      have hm : ∀ x ∈ g :: rest, outdupVI S outputs x = m := by
        intro x hx
        have hxn : x.name = v.name := by
          rw [← hg] at hx
          simpa using (List.mem_filter.1 hx).2
        simp only [outdupVI, hall x hx, if_true, hxn, hlast, hsn x hx, m]
      have hmap : (g :: rest).map (outdupVI S outputs) = List.replicate (rest.length + 1) m := by
        rw [List.eq_replicate_iff]
        refine ⟨by simp, ?_⟩
        intro b hb
        obtain ⟨x, hx, rfl⟩ := List.mem_map.1 hb
        exact hm x hx
      rw [hmap, foldl_applyInfoT_replicate]
      have := foldl_applyInfoT_group v.name outputs v last hlast
      rw [hg] at this
      rw [this, foldl_mdStep_union]
      simp only [applyInfoT, m, dictOfEntries_entriesOfDict _ (nodup_unionMd _)]
    · have hall : ∀ x ∈ g :: rest, outdupVI S outputs x = x := by
        intro x hx
        have hxn : x.name = v.name := by
          rw [← hg] at hx
          simpa using (List.mem_filter.1 hx).2
        have : outdupApplies S outputs x = outdupApplies S outputs g := by
          simp only [outdupApplies, hsn x hx, hsn g (by simp), hxn, hgn]
        simp only [outdupVI, this, ha, if_false]
        rfl
      rw [List.map_congr_left hall]
      simp

theorem gOutT_outdup (names S : List String) (all : List ValueInfoP) (hS : ∀ s ∈ S, s ∈ names) :
    ∀ outputs : List ValueInfoP,
    (outputs.map (outdupVI S all)).map (gOutT names) = outputs.map (gOutT names)
  | [] => rfl
  | vo :: vos => by
    simp only [List.map_cons]
    rw [gOutT_outdup names S all hS vos]
    congr 1
    by_cases ha : outdupApplies S all vo = true
    · simp only [outdupApplies, Bool.and_eq_true, List.contains_eq_mem, decide_eq_true_eq] at ha
      have hs := lookupLast_isSome (hS _ ha.1)
      simp only [gOutT, outdupVI_name]
      cases hl : lookupLast names vo.name with
      | none => simp [hl] at hs
      | some i => rfl
    · simp only [outdupVI, ha, if_false]
      rfl

/-! ### outdup keeps names -/

theorem outdupAttr_name (a : AttrP) : (outdupAttr a).name = a.name := by
  cases a <;> rfl

theorem outdupAttrs_names : ∀ as : List AttrP, (outdupAttrs as).map AttrP.name = as.map AttrP.name
  | [] => rfl
  | a :: as => by simp only [outdupAttrs, List.map_cons, outdupAttr_name, outdupAttrs_names as]

theorem outdupAttrs_any (n : String) : ∀ as : List AttrP,
    (outdupAttrs as).any (fun b => b.name = n) = as.any (fun b => b.name = n)
  | [] => rfl
  | a :: as => by simp only [outdupAttrs, List.any_cons, outdupAttr_name, outdupAttrs_any n as]

theorem outdupNode_outputs (n : NodeP) : (outdupNode n).outputs = n.outputs := by cases n; rfl
theorem outdupNode_inputs (n : NodeP) : (outdupNode n).inputs = n.inputs := by cases n; rfl

theorem nodeOutNames_outdupNodes : ∀ nodes : List NodeP, nodeOutNames (outdupNodes nodes) = nodeOutNames nodes
  | [] => rfl
  | n :: ns => by
    have := nodeOutNames_outdupNodes ns
    simp only [nodeOutNames, outdupNodes, List.flatMap_cons, List.filter_append, outdupNode_outputs] at this ⊢
    rw [this]

theorem inputsResolvable_outdup {scopes : Scopes} : ∀ {nodes : List NodeP},
    inputsResolvable scopes (outdupNodes nodes) → inputsResolvable scopes nodes
  | [], _ => fun _ h => by cases h
  | n :: ns, h => by
    intro m hm
    rcases List.mem_cons.1 hm with rfl | hm
    · have := h (outdupNode m) (by simp [outdupNodes])
      rwa [outdupNode_inputs] at this
    · exact inputsResolvable_outdup (nodes := ns)
        (fun k hk => h k (by simp only [outdupNodes]; exact List.mem_cons_of_mem _ hk)) m hm

theorem declareAll_outdupNodes (vis : List ValueInfoP) (q : List AnnotP) :
    ∀ (nodes : List NodeP) (tbl : List IRValue),
    declareAll vis q (outdupNodes nodes) tbl = declareAll vis q nodes tbl
  | [], _ => rfl
  | n :: ns, tbl => by
    simp only [outdupNodes, declareAll, outdupNode_outputs]
    cases declareOutputs vis q n.outputs tbl with
    | error e => rfl
    | ok t1 => simp only [bind, Except.bind]; exact declareAll_outdupNodes vis q ns t1

/-! ### the mutual induction -/

mutual
theorem desAttr_outdup (scopes : Scopes) : ∀ a : AttrP, wfAttr scopes (mergeAttr (outdupAttr a)) = true →
    desAttr scopes (outdupAttr a) = desAttr scopes a
  | .ref .., _ => rfl
  | .int .., _ => rfl
  | .float .., _ => rfl
  | .string .., _ => rfl
  | .ints .., _ => rfl
  | .floats .., _ => rfl
  | .strings .., _ => rfl
  | .tensor .., _ => rfl
  | .tensors .., _ => rfl
  | .graph n d g, h => by
    simp only [outdupAttr, mergeAttr, wfAttr] at h
    simp only [outdupAttr, desAttr, desGraph_outdup scopes g h]
  | .graphs n d gs, h => by
    simp only [outdupAttr, mergeAttr, wfAttr] at h
    simp only [outdupAttr, desAttr, desGraphs_outdup scopes gs h]
  | .typeProto .., _ => rfl
  | .typeProtos .., _ => rfl
  | .undefined .., _ => rfl
  | .sparse .., _ => rfl
  | .unknown .., _ => rfl

theorem desGraphs_outdup (scopes : Scopes) : ∀ gs : List GraphP,
    wfGraphs scopes (mergeGraphs (outdupGraphs gs)) = true →
    desGraphs scopes (outdupGraphs gs) = desGraphs scopes gs
  | [], _ => rfl
  | g :: gs, h => by
    simp only [outdupGraphs, mergeGraphs, wfGraphs, Bool.and_eq_true] at h
    simp only [outdupGraphs, desGraphs, desGraph_outdup scopes g h.1, desGraphs_outdup scopes gs h.2]

theorem desAttrs_outdup (scopes : Scopes) : ∀ as : List AttrP,
    wfAttrs scopes (mergeAttrs (outdupAttrs as)) = true →
    desAttrs scopes (outdupAttrs as) = desAttrs scopes as
  | [], _ => rfl
  | a :: as, h => by
    simp only [outdupAttrs, mergeAttrs, wfAttrs, Bool.and_eq_true] at h
    simp only [outdupAttrs, desAttrs, desAttr_outdup scopes a h.1, desAttrs_outdup scopes as h.2]

theorem desAttrsLast_outdup (scopes : Scopes) : ∀ as : List AttrP,
    wfAttrs scopes (mergeAttrs (outdupAttrs as)) = true →
    desAttrsLast scopes (outdupAttrs as) = desAttrsLast scopes as
  | [], _ => rfl
  | a :: as, h => by
    simp only [outdupAttrs, mergeAttrs, wfAttrs, Bool.and_eq_true] at h
    simp only [outdupAttrs, desAttrsLast, outdupAttr_name, outdupAttrs_any, desAttr_outdup scopes a h.1,
      desAttrsLast_outdup scopes as h.2]

theorem desNode_outdup (outer : Scopes) (vis : List ValueInfoP) (q : List AnnotP) (tbl : List IRValue) :
    ∀ n : NodeP, wfNode (tableNames tbl :: outer) (mergeNode (outdupNode n)) = true →
    desNode outer vis q tbl (outdupNode n) = desNode outer vis q tbl n
  | .mk inputs outputs name opType domain overload doc attrs metadata devcfgs, h => by
    simp only [outdupNode, mergeNode, wfNode, Bool.and_eq_true] at h
    obtain ⟨⟨⟨⟨⟨hin, _⟩, _⟩, hattrs⟩, _⟩, _⟩ := h
    simp only [outdupNode, desNode, outdupAttrs_names, desNodeInputs_wf outer vis q tbl inputs hin, bind,
      Except.bind, desAttrsLast_outdup (tableNames tbl :: outer) attrs hattrs]

theorem desNodes_outdup (outer : Scopes) (vis : List ValueInfoP) (q : List AnnotP) :
    ∀ (nodes : List NodeP) (tbl : List IRValue),
    wfNodes (tableNames tbl :: outer) (mergeNodes (outdupNodes nodes)) = true →
    desNodes outer vis q (outdupNodes nodes) tbl = desNodes outer vis q nodes tbl
  | [], _, _ => rfl
  | n :: ns, tbl, h => by
    simp only [outdupNodes, mergeNodes, wfNodes, Bool.and_eq_true] at h
    simp only [outdupNodes, desNodes, desNode_outdup outer vis q tbl n h.1]
    cases hd : desNode outer vis q tbl n with
    | error e => rfl
    | ok r =>
      obtain ⟨x, t1⟩ := r
      have hin := wfNode_inputs h.1
      rw [mergeNode_inputs, outdupNode_inputs] at hin
      have ht : t1 = tbl := desNode_ok_tbl outer vis q tbl t1 n x hin hd
      simp only [bind, Except.bind, ht, desNodes_outdup outer vis q ns tbl h.2]

theorem desGraph_outdup (outer : Scopes) : ∀ g : GraphP, wfGraph outer (mergeGraph (outdupGraph g)) = true →
    desGraph outer (outdupGraph g) = desGraph outer g
  | .mk name doc nodes inits inputs outputs vis quant md, h => by
    simp only [outdupGraph, mergeGraph] at h ⊢
    -- abbreviations
    generalize hSdef : scopeNames (inputs.map (·.name)) (inits.map (·.name)) (nodeOutNames nodes) = S at h ⊢
    generalize hOdef : outputs.map (outdupVI S outputs) = dOut at h ⊢
    obtain ⟨hw'', hwn''⟩ := graphWF_of_wf outer name doc (mergeNodes (outdupNodes nodes)) inits inputs
      (mOutputs inits inputs dOut vis (nodeOutNames (outdupNodes nodes)))
      (mVis inits inputs dOut vis (nodeOutNames (outdupNodes nodes))) quant md h
    have hw' := hw''
    have hwn' := hwn''
    rw [nodeOutNames_mergeNodes, nodeOutNames_outdupNodes] at hw' hwn'
    rw [hSdef] at hwn'
    -- both graphs satisfy what the closed form needs
    have hwfD : dOut.all wfVI = true := by
      rw [List.all_eq_true]
      intro vo hvo
      exact wfVI_of_merge _ _ _ _ (List.all_eq_true.1 hw'.wfOut _ (List.mem_map_of_mem hvo))
    have hwfO : outputs.all wfVI = true := by
      rw [List.all_eq_true]
      intro vo hvo
      apply wfVI_of_outdup (S := S) hvo
      apply List.all_eq_true.1 hwfD
      rw [← hOdef]
      exact List.mem_map_of_mem hvo
    have hwfV : vis.all wfVI = true := by
      rw [List.all_eq_true]
      intro vi hvi
      by_cases hm : vi ∈ mVis inits inputs dOut vis (nodeOutNames nodes)
      · exact List.all_eq_true.1 hw'.wfVis vi hm
      · have : ¬ (!(((dOut.map (·.name)).contains vi.name
            && (mDeclared inits (nodeOutNames nodes)).contains vi.name
            && !(inputs.map (·.name)).contains vi.name) && wfVI vi)) = true := by
          intro hc
          exact hm (List.mem_filter.2 ⟨hvi, hc⟩)
        cases hwf : wfVI vi with
        | true => rfl
        | false => simp [hwf] at this
    have hw0 : GraphWF0 inits inputs outputs vis (nodeOutNames nodes) :=
      ⟨hw'.nodupNames, hw'.nonempty, hw'.nodupInit, hw'.wfIn, hwfO, hwfV, hw'.wfInit⟩
    have hw0D : GraphWF0 inits inputs dOut vis (nodeOutNames nodes) :=
      ⟨hw'.nodupNames, hw'.nonempty, hw'.nodupInit, hw'.wfIn, hwfD, hwfV, hw'.wfInit⟩
    have hN : ∀ V, tableNames (tblPre inits inputs V quant (nodeOutNames nodes)) = S :=
      fun V => by rw [← hSdef]; exact tableNames_tblPre
    -- nodes: merged + outdup'ed nodes on the merged table, then back
    obtain ⟨xs, n0, _, _⟩ := nodes_rt outer (mVis inits inputs dOut vis (nodeOutNames nodes)) quant none
      (mergeNodes (outdupNodes nodes)) (tblPre inits inputs (mVis inits inputs dOut vis (nodeOutNames nodes)) quant
        (nodeOutNames nodes)) (by rw [hN]; exact hwn') (Or.inl rfl)
    have n1 := n0
    rw [desNodes_merge outer _ quant (outdupNodes nodes) _ (by rw [hN]; exact hwn'),
      desNodes_outdup outer _ quant nodes _ (by rw [hN]; exact hwn')] at n1
    have hv : VisAgree ((dOut.map (·.name)).filter (fun n =>
          (mDeclared inits (nodeOutNames nodes)).contains n && !(inputs.map (·.name)).contains n))
        vis (mVis inits inputs dOut vis (nodeOutNames nodes)) := by
      intro n hn
      symm
      unfold mVis mergeVIs
      apply findVI_filter
      intro v hvn
      rw [hvn]
      simp only [List.mem_filter, Bool.and_eq_true, List.contains_eq_mem, decide_eq_true_eq,
        Bool.not_eq_true', decide_eq_false_iff_not] at hn
      by_cases ho : n ∈ dOut.map (·.name) <;>
        by_cases hd : n ∈ mDeclared inits (nodeOutNames nodes) <;>
        by_cases hi : n ∈ inputs.map (·.name) <;> simp_all
    have hS : ∀ s ∈ (dOut.map (·.name)).filter (fun n =>
          (mDeclared inits (nodeOutNames nodes)).contains n && !(inputs.map (·.name)).contains n),
        s ∈ tableNames (tblPre inits inputs (mVis inits inputs dOut vis (nodeOutNames nodes)) quant
          (nodeOutNames nodes)) := by
      intro s hs
      rw [hN, ← hSdef]
      simp only [List.mem_filter, Bool.and_eq_true, List.contains_eq_mem, decide_eq_true_eq,
        Bool.not_eq_true', decide_eq_false_iff_not, mDeclared, List.mem_append] at hs
      obtain ⟨_, hd, hi⟩ := hs
      rcases hd with hd | hd
      · exact mem_scopeNames.2 (Or.inr (Or.inl ⟨hd, hi⟩))
      · exact mem_scopeNames.2 (Or.inr (Or.inr hd))
    have n2 : desNodes outer vis quant nodes
        (tblPre inits inputs (mVis inits inputs dOut vis (nodeOutNames nodes)) quant (nodeOutNames nodes))
        = .ok (xs, tblPre inits inputs (mVis inits inputs dOut vis (nodeOutNames nodes)) quant
            (nodeOutNames nodes)) := by
      rw [desNodes_congr hv outer quant nodes _ hS]; exact n1
    have hres : inputsResolvable
        (tableNames (tblPre inits inputs (mVis inits inputs dOut vis (nodeOutNames nodes)) quant
          (nodeOutNames nodes)) :: outer) nodes := by
      rw [hN]
      exact inputsResolvable_outdup (inputsResolvable_merge (inputsResolvable_of_wf hwn'))
    have n3 := desNodes_indep outer vis quant _ (tblPre inits inputs vis quant (nodeOutNames nodes))
      (by rw [hN, hN]) nodes xs hres n2
    have n3D : desNodes outer vis quant (outdupNodes nodes) (tblPre inits inputs vis quant (nodeOutNames nodes))
        = .ok (xs, tblPre inits inputs vis quant (nodeOutNames nodes)) := by
      rw [desNodes_outdup outer vis quant nodes _ (by rw [hN]; exact hwn')]; exact n3
    -- the closed forms
    obtain ⟨idxs, c1, c2⟩ := graph_des_closedAll outer name doc nodes inits inputs outputs vis quant md hw0 xs n3
    obtain ⟨idxs', c1', c2'⟩ := graph_des_closedAll outer name doc (outdupNodes nodes) inits inputs dOut vis quant md
      (by rw [nodeOutNames_outdupNodes]; exact hw0D) xs (by rw [nodeOutNames_outdupNodes]; exact n3D)
    have hidx : idxs' = idxs := map_some_inj (c2'.trans c2.symm)
    rw [c1, c1', hidx, nodeOutNames_outdupNodes, hSdef]
    have ht : tblFinalAll inits inputs dOut vis quant (nodeOutNames nodes)
        = tblFinalAll inits inputs outputs vis quant (nodeOutNames nodes) := by
      unfold tblFinalAll
      apply List.map_congr_left
      intro v _
      rw [← hOdef]
      exact outUpdAll_outdup S outputs v
    have hg : dOut.map (gOutT S) = outputs.map (gOutT S) := by
      rw [← hOdef]
      exact gOutT_outdup S S outputs (fun _ h => h) outputs
    rw [ht, hg]
end

/-! ### functions, models -/

theorem desFunction_outdup (ver : Int) (f : FunctionP)
    (h : wfFunction ver (mergeFunction (outdupFunction f)) = true) :
    desFunction (outdupFunction f) = desFunction f := by
  simp only [wfFunction, Bool.and_eq_true, mergeFunction, outdupFunction, nodeOutNames_mergeNodes,
    nodeOutNames_outdupNodes] at h
  obtain ⟨⟨⟨⟨⟨⟨⟨⟨⟨⟨⟨⟨h1, _⟩, _⟩, _⟩, h5⟩, _⟩, h7⟩, _⟩, _⟩, _⟩, _⟩, h12⟩, _⟩ := h
  have hnd := nodupStr_iff.1 h1
  rw [List.nodup_append] at hnd
  obtain ⟨_, hndO, hdis⟩ := hnd
  have hI := functionInputs_eq f.valueInfo h7 f.inputs
  have hNI : tableNames (f.inputs.map (newValueT f.valueInfo [])) = f.inputs := by
    simp [tableNames, List.map_map, Function.comp_def]
  have hC := declareAll_spec f.valueInfo [] h7 f.nodes (f.inputs.map (newValueT f.valueInfo []))
    (by intro n hn hm; rw [hNI] at hm; exact hdis n hm n hn rfl) hndO
  have hN : tableNames (f.inputs.map (newValueT f.valueInfo [])
      ++ (nodeOutNames f.nodes).map (newValueT f.valueInfo [])) = f.inputs ++ nodeOutNames f.nodes := by
    simp [tableNames, List.map_map, Function.comp_def]
  have hM := desNodes_outdup [] f.valueInfo [] f.nodes
    (f.inputs.map (newValueT f.valueInfo []) ++ (nodeOutNames f.nodes).map (newValueT f.valueInfo []))
    (by rw [hN]; exact h12)
  simp only [desFunction, outdupFunction, declareAll_outdupNodes, hI, hC, hM, bind, Except.bind,
    desAttrs_outdup [] f.attrProtos h5]
  rfl

theorem desFunctions_outdup (ver : Int) : ∀ fs : List FunctionP,
    ((fs.map outdupFunction).map mergeFunction).all (wfFunction ver) = true →
    desFunctions (fs.map outdupFunction) = desFunctions fs
  | [], _ => rfl
  | f :: fs, h => by
    simp only [List.map_cons, List.all_cons, Bool.and_eq_true] at h
    simp only [List.map_cons, desFunctions, desFunction_outdup ver f h.1, desFunctions_outdup ver fs h.2]

theorem outdupGraph_valueInfo (g : GraphP) : (outdupGraph g).valueInfo = g.valueInfo := by
  cases g; rfl

theorem outdupGraph_inputs (g : GraphP) : (outdupGraph g).inputs = g.inputs := by
  cases g; rfl

theorem desModel_outdup' (m : ModelP) (hg : wfGraph [] (mergeGraph (outdupGraph m.graph)) = true)
    (hf : ((m.functions.map outdupFunction).map mergeFunction).all (wfFunction m.irVersion) = true) :
    desModel (outdupModel m) = desModel m := by
  simp only [desModel, outdupModel, desGraph_outdup [] m.graph hg,
    desFunctions_outdup m.irVersion m.functions hf, outdupGraph_valueInfo]

theorem desModel_outdup (m : ModelP) (h : wfModel (mergeModel (outdupModel m)) = true) :
    desModel (outdupModel m) = desModel m := by
  simp only [wfModel, Bool.and_eq_true, mergeModel, outdupModel] at h
  obtain ⟨⟨⟨⟨⟨⟨hg, hf⟩, _⟩, _⟩, _⟩, _⟩, _⟩ := h
  exact desModel_outdup' m hg hf

theorem desModel_canonD (m : ModelP) (h : wfModel (canonDModel m) = true) :
    desModel (canonDModel m) = desModel m := by
  have hp := inputsPlain_of_wf _ h
  unfold canonDModel at h ⊢
  rw [desModel_merge _ h, desModel_outdup _ h]
  apply desModel_fold
  rcases hp with hp | hp
  · exact Or.inl (by simpa [canonDModel, mergeModel, outdupModel, foldModel] using hp)
  · right
    simpa [inputsPlain, canonDModel, mergeModel, outdupModel, foldModel, (mergeGraph_fields _).1,
      outdupGraph_inputs, foldGraph_inputs] using hp

end IrVerif.Serde

/-
Helper lemmas about the pack/unpack/byte-layout model (`Model/Pack.lean`) used by the C04
theorems.  Core Lean only.
-/
import IrVerif.Model.Pack
namespace IrVerif.Pack

theorem resize_self (xs : List Nat) : resize xs xs.length = xs := by
  simp [resize]

theorem resize_of_length (xs : List Nat) (n : Nat) (h : xs.length = n) : resize xs n = xs := by
  subst h; exact resize_self xs

theorem pack4_length : ∀ xs : List Nat, (pack4 xs).length = nbytes xs.length 4
  | [] => by simp [pack4, nbytes]
  | [a] => by simp [pack4, nbytes]
  | a :: b :: rest => by
      have := pack4_length rest
      simp [pack4, nbytes] at *
      omega

theorem pack4_byte : ∀ xs : List Nat, ∀ b ∈ pack4 xs, b < 256
  | [] => by simp [pack4]
  | [a] => by simp [pack4]; omega
  | a :: b :: rest => by
      intro x hx
      simp only [pack4, List.mem_cons] at hx
      rcases hx with h | h
      · omega
      · exact pack4_byte rest x h

/-- even length: raw unpack of pack is the masked list -/
theorem unpack4raw_pack4_even : ∀ xs : List Nat, xs.length % 2 = 0 →
    unpack4raw (pack4 xs) = xs.map (· % 16)
  | [], _ => by simp [pack4, unpack4raw]
  | [a], h => by simp at h
  | a :: b :: rest, h => by
      have ih := unpack4raw_pack4_even rest (by simp at h; omega)
      simp only [pack4, unpack4raw, ih, List.map_cons]
      congr 1
      · omega
      · congr 1; omega

theorem unpack4raw_pack4_odd : ∀ xs : List Nat, xs.length % 2 = 1 →
    unpack4raw (pack4 xs) = xs.map (· % 16) ++ [0]
  | [], h => by simp at h
  | [a], _ => by simp [pack4, unpack4raw]; omega
  | a :: b :: rest, h => by
      have ih := unpack4raw_pack4_odd rest (by simp at h; omega)
      simp only [pack4, unpack4raw, ih, List.map_cons, List.cons_append]
      congr 1
      · omega
      · congr 1; omega

theorem unpack4_pack4_mod (xs : List Nat) : unpack4 (pack4 xs) xs.length = xs.map (· % 16) := by
  rcases Nat.mod_two_eq_zero_or_one xs.length with h | h
  · have := unpack4raw_pack4_even xs h
    simp only [unpack4, this, List.length_map]
    simp only [show ¬ (xs.length = xs.length + 1) by omega, if_false]
    simpa using resize_self (xs.map (· % 16))
  · have := unpack4raw_pack4_odd xs h
    simp only [unpack4, this, List.length_append, List.length_map, List.length_singleton, if_true,
      List.dropLast_concat]
    simpa using resize_self (xs.map (· % 16))

theorem pack2_length : ∀ xs : List Nat, (pack2 xs).length = nbytes xs.length 2
  | [] => by simp [pack2, nbytes]
  | [a] => by simp [pack2, nbytes]
  | [a, b] => by simp [pack2, nbytes]
  | [a, b, c] => by simp [pack2, nbytes]
  | a :: b :: c :: d :: rest => by
      have := pack2_length rest
      simp [pack2, nbytes] at *
      omega

theorem pack2_byte : ∀ xs : List Nat, ∀ b ∈ pack2 xs, b < 256
  | [] => by simp [pack2]
  | [a] => by simp [pack2]; omega
  | [a, b] => by simp [pack2]; omega
  | [a, b, c] => by simp [pack2]; omega
  | a :: b :: c :: d :: rest => by
      intro x hx
      simp only [pack2, List.mem_cons] at hx
      rcases hx with h | h
      · omega
      · exact pack2_byte rest x h

/-- raw unpack of a 2-bit pack is the masked list followed by the zero padding -/
theorem unpack2raw_pack2 : ∀ xs : List Nat,
    unpack2raw (pack2 xs) = xs.map (· % 4) ++ List.replicate ((4 - xs.length % 4) % 4) 0
  | [] => by simp [pack2, unpack2raw]
  | [a] => by simp [pack2, unpack2raw]; omega
  | [a, b] => by simp [pack2, unpack2raw]; omega
  | [a, b, c] => by simp [pack2, unpack2raw]; omega
  | a :: b :: c :: d :: rest => by
      have ih := unpack2raw_pack2 rest
      have hl : (4 - (a :: b :: c :: d :: rest).length % 4) % 4 = (4 - rest.length % 4) % 4 := by
        simp; omega
      simp only [pack2, unpack2raw, ih, List.map_cons, List.cons_append, hl]
      congr 1
      · omega
      · congr 1
        · omega
        · congr 1
          · omega
          · congr 1; omega

theorem unpack2_pack2_mod (xs : List Nat) : unpack2 (pack2 xs) xs.length = xs.map (· % 4) := by
  have h := unpack2raw_pack2 xs
  simp only [unpack2, h]
  have hlen : (xs.map (· % 4)).length = xs.length := by simp
  split
  · rw [List.take_append_of_le_length (by simp)]
    simp only [List.take_of_length_le (Nat.le_of_eq hlen)]
    simpa using resize_self (xs.map (· % 4))
  · rename_i hgt
    simp at hgt
    have : (4 - xs.length % 4) % 4 = 0 := by omega
    simp only [this, List.replicate_zero, List.append_nil]
    simpa using resize_self (xs.map (· % 4))

theorem map_mod_id (m : Nat) (xs : List Nat) (h : ∀ x ∈ xs, x < m) : xs.map (· % m) = xs := by
  induction xs with
  | nil => rfl
  | cons x xs ih =>
    have hx : x < m := h x (by simp)
    have := ih (fun y hy => h y (by simp [hy]))
    simp [this, Nat.mod_eq_of_lt hx]

/-- in-range elements survive the 4-bit round trip unchanged -/
theorem unpack4_pack4 (xs : List Nat) (h : ∀ x ∈ xs, x < 16) : unpack4 (pack4 xs) xs.length = xs := by
  rw [unpack4_pack4_mod, map_mod_id 16 xs h]

theorem unpack2_pack2 (xs : List Nat) (h : ∀ x ∈ xs, x < 4) : unpack2 (pack2 xs) xs.length = xs := by
  rw [unpack2_pack2_mod, map_mod_id 4 xs h]

/-- packing only looks at the low 4 bits -/
theorem pack4_map_mod : ∀ xs : List Nat, pack4 (xs.map (· % 16)) = pack4 xs
  | [] => rfl
  | [a] => by simp [pack4]
  | a :: b :: rest => by
      have := pack4_map_mod rest
      simp only [List.map_cons, pack4, this, Nat.mod_mod]

theorem pack2_map_mod : ∀ xs : List Nat, pack2 (xs.map (· % 4)) = pack2 xs
  | [] => rfl
  | [a] => by simp [pack2]
  | [a, b] => by simp [pack2]
  | [a, b, c] => by simp [pack2]
  | a :: b :: c :: d :: rest => by
      have := pack2_map_mod rest
      simp only [List.map_cons, pack2, this, Nat.mod_mod]

/-! ### little-endian items -/

theorem leBytes_length (w x : Nat) : (leBytes w x).length = w := by
  induction w generalizing x with
  | zero => rfl
  | succ w ih => simp [leBytes, ih]

theorem leBytes_byte (w x : Nat) : ∀ b ∈ leBytes w x, b < 256 := by
  induction w generalizing x with
  | zero => simp [leBytes]
  | succ w ih =>
    intro b hb
    simp only [leBytes, List.mem_cons] at hb
    rcases hb with h | h
    · omega
    · exact ih _ b h

theorem ofLeBytes_leBytes (w x : Nat) (h : x < 256 ^ w) : ofLeBytes (leBytes w x) = x := by
  induction w generalizing x with
  | zero => simp [leBytes, ofLeBytes] at *; omega
  | succ w ih =>
      simp only [leBytes, ofLeBytes]
      have : x / 256 < 256 ^ w := by
        rw [Nat.div_lt_iff_lt_mul (by decide)]; rw [Nat.pow_succ] at h; exact h
      rw [ih _ this]; omega

theorem flatMap_leBytes_length (w : Nat) (ys : List Nat) :
    (ys.flatMap (leBytes w)).length = ys.length * w := by
  induction ys with
  | nil => simp
  | cons y ys ih => simp [List.flatMap_cons, leBytes_length, ih, Nat.add_mul]; omega

theorem leBytes_one (b : Nat) (h : b < 256) : leBytes 1 b = [b] := by
  simp [leBytes, Nat.mod_eq_of_lt h]

theorem flatMap_leBytes_one (bs : List Nat) (h : ∀ b ∈ bs, b < 256) : bs.flatMap (leBytes 1) = bs := by
  induction bs with
  | nil => rfl
  | cons b bs ih =>
    have hb := h b (by simp)
    have := ih (fun y hy => h y (by simp [hy]))
    simp [List.flatMap_cons, leBytes_one b hb, this]

/-- an item of `a + b` bytes is its low `a` bytes followed by the `b` bytes of the rest -/
theorem leBytes_add (a b x : Nat) : leBytes (a + b) x = leBytes a x ++ leBytes b (x / 256 ^ a) := by
  induction a generalizing x with
  | zero => simp [leBytes]
  | succ a ih =>
    have : a + 1 + b = (a + b) + 1 := by omega
    rw [this]
    simp only [leBytes, List.cons_append]
    rw [ih (x / 256)]
    congr 2
    rw [Nat.pow_succ, Nat.mul_comm, Nat.div_div_eq_div_mul]

/-- only the low `w` bytes matter -/
theorem leBytes_mod (w x : Nat) : leBytes w (x % 256 ^ w) = leBytes w x := by
  induction w generalizing x with
  | zero => rfl
  | succ w ih =>
    simp only [leBytes]
    congr 1
    · rw [Nat.pow_succ, Nat.mul_comm, Nat.mod_mul_right_mod]
    · rw [Nat.pow_succ, Nat.mul_comm, Nat.mod_mul_right_div_self]
      exact ih (x / 256)

/-! ### unpack then pack: the bytes with the padding bits cleared -/

/-- the packed buffer of `n` elements of `bw` bits with the unused high bits of the last byte
    cleared -/
def clearPad (bw n : Nat) (bs : List Nat) : List Nat :=
  bs.take (n * bw / 8) ++ (bs.drop (n * bw / 8)).map (· % 2 ^ (n * bw % 8))

theorem unpack4raw_append (a b : List Nat) : unpack4raw (a ++ b) = unpack4raw a ++ unpack4raw b := by
  induction a with
  | nil => rfl
  | cons x a ih => simp [unpack4raw, ih]

theorem unpack4raw_length (bs : List Nat) : (unpack4raw bs).length = 2 * bs.length := by
  induction bs with
  | nil => rfl
  | cons b bs ih => simp [unpack4raw, ih]; omega

theorem pack4_unpack4raw_append (init ys : List Nat) (h : ∀ b ∈ init, b < 256) :
    pack4 (unpack4raw init ++ ys) = init ++ pack4 ys := by
  induction init with
  | nil => rfl
  | cons b init ih =>
    have hb : b < 256 := h b (by simp)
    have := ih (fun y hy => h y (by simp [hy]))
    simp only [unpack4raw, List.cons_append, pack4, this]
    congr 1
    omega

theorem pack4_unpack4 (bs : List Nat) (n : Nat) (hb : ∀ b ∈ bs, b < 256)
    (hn : bs.length = nbytes n 4) : pack4 (unpack4 bs n) = clearPad 4 n bs := by
  simp only [nbytes] at hn
  rcases Nat.mod_two_eq_zero_or_one n with he | ho
  · -- even: no padding
    have hl : (unpack4raw bs).length = n := by rw [unpack4raw_length]; omega
    have h1 : ¬ (unpack4raw bs).length = n + 1 := by omega
    have hk : n * 4 / 8 = bs.length := by omega
    simp only [unpack4, h1, if_false, resize_of_length _ n hl, clearPad, hk]
    have := pack4_unpack4raw_append bs [] hb
    simpa [pack4] using this
  · -- odd: one padding nibble
    rcases List.eq_nil_or_concat bs with hnil | ⟨init, last, hcat⟩
    · subst hnil; simp at hn; omega
    · rw [List.concat_eq_append] at hcat
      subst hcat
      have hil : init.length * 2 + 1 = n := by simp at hn; omega
      have hlast : last < 256 := hb last (by simp)
      have hraw : unpack4raw (init ++ [last]) = unpack4raw init ++ [last % 16, last % 256 / 16] := by
        rw [unpack4raw_append]; rfl
      have hl : (unpack4raw (init ++ [last])).length = n + 1 := by
        rw [unpack4raw_length]; simp; omega
      have hdl : (unpack4raw (init ++ [last])).dropLast = unpack4raw init ++ [last % 16] := by
        rw [hraw]
        have : unpack4raw init ++ [last % 16, last % 256 / 16]
            = (unpack4raw init ++ [last % 16]) ++ [last % 256 / 16] := by simp
        rw [this, List.dropLast_concat]
      have hl2 : (unpack4raw init ++ [last % 16]).length = n := by
        simp [unpack4raw_length]; omega
      simp only [unpack4, hl, if_true, hdl, resize_of_length _ n hl2]
      rw [pack4_unpack4raw_append init _ (fun b hb' => hb b (by simp [hb']))]
      have hk : n * 4 / 8 = init.length := by omega
      have hm : n * 4 % 8 = 4 := by omega
      simp only [clearPad, hk, hm, List.take_left' rfl, List.drop_left' rfl, pack4,
        List.map_cons, List.map_nil]
      congr 2
      omega

theorem unpack2raw_append (a b : List Nat) : unpack2raw (a ++ b) = unpack2raw a ++ unpack2raw b := by
  induction a with
  | nil => rfl
  | cons x a ih => simp [unpack2raw, ih]

theorem unpack2raw_length (bs : List Nat) : (unpack2raw bs).length = 4 * bs.length := by
  induction bs with
  | nil => rfl
  | cons b bs ih => simp [unpack2raw, ih]; omega

theorem pack2_unpack2raw_append (init ys : List Nat) (h : ∀ b ∈ init, b < 256) :
    pack2 (unpack2raw init ++ ys) = init ++ pack2 ys := by
  induction init with
  | nil => rfl
  | cons b init ih =>
    have hb : b < 256 := h b (by simp)
    have := ih (fun y hy => h y (by simp [hy]))
    simp only [unpack2raw, List.cons_append, pack2, this]
    congr 1
    omega

theorem pack2_unpack2 (bs : List Nat) (n : Nat) (hb : ∀ b ∈ bs, b < 256)
    (hn : bs.length = nbytes n 2) : pack2 (unpack2 bs n) = clearPad 2 n bs := by
  simp only [nbytes] at hn
  by_cases h0 : n % 4 = 0
  · have hl : (unpack2raw bs).length = n := by rw [unpack2raw_length]; omega
    have h1 : ¬ (unpack2raw bs).length > n := by omega
    have hk : n * 2 / 8 = bs.length := by omega
    simp only [unpack2, h1, if_false, resize_of_length _ n hl, clearPad, hk]
    have := pack2_unpack2raw_append bs [] hb
    simpa [pack2] using this
  · rcases List.eq_nil_or_concat bs with hnil | ⟨init, last, hcat⟩
    · subst hnil; simp at hn; omega
    · rw [List.concat_eq_append] at hcat
      subst hcat
      have hil : init.length * 4 + n % 4 = n := by simp at hn; omega
      have hlast : last < 256 := hb last (by simp)
      have hraw : unpack2raw (init ++ [last]) = unpack2raw init ++
          [last % 4, last % 16 / 4, last % 64 / 16, last % 256 / 64] := by
        rw [unpack2raw_append]; rfl
      have hgt : (unpack2raw (init ++ [last])).length > n := by
        rw [unpack2raw_length]; simp; omega
      have hil' : (unpack2raw init).length = init.length * 4 := by rw [unpack2raw_length]; omega
      have htake : (unpack2raw (init ++ [last])).take n = unpack2raw init ++
          [last % 4, last % 16 / 4, last % 64 / 16, last % 256 / 64].take (n % 4) := by
        rw [hraw, List.take_append, List.take_of_length_le (by omega)]
        congr 2
        omega
      have hl2 : ((unpack2raw (init ++ [last])).take n).length = n := by
        rw [List.length_take]; omega
      simp only [unpack2, hgt, if_true, resize_of_length _ n hl2]
      rw [htake, pack2_unpack2raw_append init _ (fun b hb' => hb b (by simp [hb']))]
      have hk : n * 2 / 8 = init.length := by omega
      simp only [clearPad, hk, List.take_left' rfl, List.drop_left' rfl, List.map_cons, List.map_nil]
      have hr : n % 4 = 1 ∨ n % 4 = 2 ∨ n % 4 = 3 := by omega
      rcases hr with hr | hr | hr
      · have hm : n * 2 % 8 = 2 := by omega
        simp only [hr, hm, List.take, pack2]; congr 2; omega
      · have hm : n * 2 % 8 = 4 := by omega
        simp only [hr, hm, List.take, pack2]; congr 2; omega
      · have hm : n * 2 % 8 = 6 := by omega
        simp only [hr, hm, List.take, pack2]; congr 2; omega

/-! ### the byte forms against the bit-stream specification -/

theorem natBits_add (a b x : Nat) : natBits (a + b) x = natBits a x ++ natBits b (x / 2 ^ a) := by
  induction a generalizing x with
  | zero => simp [natBits]
  | succ a ih =>
    have : a + 1 + b = (a + b) + 1 := by omega
    rw [this]
    simp only [natBits, List.cons_append]
    rw [ih (x / 2)]
    congr 2
    rw [Nat.pow_succ, Nat.mul_comm, Nat.div_div_eq_div_mul]

theorem natBits_mod (k x : Nat) : natBits k (x % 2 ^ k) = natBits k x := by
  induction k generalizing x with
  | zero => rfl
  | succ k ih =>
    simp only [natBits]
    congr 1
    · rw [Nat.pow_succ, Nat.mul_comm, Nat.mod_mul_right_mod]
    · rw [Nat.pow_succ, Nat.mul_comm, Nat.mod_mul_right_div_self]
      exact ih (x / 2)

theorem natBits_zero (k : Nat) : natBits k 0 = List.replicate k false := by
  induction k with
  | zero => rfl
  | succ k ih => simp [natBits, ih, List.replicate_succ]

theorem natBits_eq_of_mod (k x y : Nat) (h : x % 2 ^ k = y % 2 ^ k) : natBits k x = natBits k y := by
  rw [← natBits_mod k x, h, natBits_mod]

/-- one packed 4-bit byte: first element in the low nibble -/
theorem natBits_pack4_byte (a b : Nat) :
    natBits 8 (a % 16 + b % 16 * 16) = natBits 4 a ++ natBits 4 b := by
  have h := natBits_add 4 4 (a % 16 + b % 16 * 16)
  simp only [show (4 : Nat) + 4 = 8 from rfl, show (2 : Nat) ^ 4 = 16 from rfl] at h
  rw [h]
  congr 1
  · exact natBits_eq_of_mod 4 _ _ (by simp only [show (2 : Nat) ^ 4 = 16 from rfl]; omega)
  · exact natBits_eq_of_mod 4 _ _ (by simp only [show (2 : Nat) ^ 4 = 16 from rfl]; omega)

/-- one packed 2-bit byte: first element in the two lowest bits -/
theorem natBits_pack2_byte (a b c d : Nat) :
    natBits 8 (a % 4 + b % 4 * 4 + c % 4 * 16 + d % 4 * 64)
      = natBits 2 a ++ natBits 2 b ++ natBits 2 c ++ natBits 2 d := by
  generalize hv : a % 4 + b % 4 * 4 + c % 4 * 16 + d % 4 * 64 = v
  have h1 := natBits_add 2 6 v
  have h2 := natBits_add 2 4 (v / 2 ^ 2)
  have h3 := natBits_add 2 2 (v / 2 ^ 2 / 2 ^ 2)
  simp only [show (2 : Nat) + 6 = 8 from rfl, show (2 : Nat) + 4 = 6 from rfl,
    show (2 : Nat) + 2 = 4 from rfl, show (2 : Nat) ^ 2 = 4 from rfl] at h1 h2 h3
  rw [h1, h2, h3]
  have e0 : natBits 2 v = natBits 2 a :=
    natBits_eq_of_mod 2 _ _ (by simp only [show (2 : Nat) ^ 2 = 4 from rfl]; omega)
  have e1 : natBits 2 (v / 4) = natBits 2 b :=
    natBits_eq_of_mod 2 _ _ (by simp only [show (2 : Nat) ^ 2 = 4 from rfl]; omega)
  have e2 : natBits 2 (v / 4 / 4) = natBits 2 c :=
    natBits_eq_of_mod 2 _ _ (by simp only [show (2 : Nat) ^ 2 = 4 from rfl]; omega)
  have e3 : natBits 2 (v / 4 / 4 / 4) = natBits 2 d :=
    natBits_eq_of_mod 2 _ _ (by simp only [show (2 : Nat) ^ 2 = 4 from rfl]; omega)
  rw [e0, e1, e2, e3]
  simp [List.append_assoc]

theorem bitStream_pack4 : ∀ xs : List Nat,
    bitStream (pack4 xs) = xs.flatMap (natBits 4) ++ List.replicate (4 * (xs.length % 2)) false
  | [] => rfl
  | [a] => by
      have := natBits_pack4_byte a 0
      simp only [bitStream, pack4, List.flatMap_cons, List.flatMap_nil, List.append_nil] at *
      rw [this, natBits_zero]; rfl
  | a :: b :: rest => by
      have ih := bitStream_pack4 rest
      have hl : (a :: b :: rest).length % 2 = rest.length % 2 := by simp; omega
      simp only [bitStream, pack4, List.flatMap_cons, hl] at *
      rw [ih, natBits_pack4_byte]; simp [List.append_assoc]

theorem bitStream_pack2 : ∀ xs : List Nat,
    bitStream (pack2 xs) = xs.flatMap (natBits 2)
      ++ List.replicate (2 * ((4 - xs.length % 4) % 4)) false
  | [] => rfl
  | [a] => by
      have := natBits_pack2_byte a 0 0 0
      simp only [bitStream, pack2, List.flatMap_cons, List.flatMap_nil, List.append_nil,
        Nat.zero_mod, Nat.zero_mul, Nat.add_zero] at *
      rw [this, natBits_zero]; rfl
  | [a, b] => by
      have := natBits_pack2_byte a b 0 0
      simp only [bitStream, pack2, List.flatMap_cons, List.flatMap_nil, List.append_nil,
        Nat.zero_mod, Nat.zero_mul, Nat.add_zero] at *
      rw [this, natBits_zero]; simp [List.append_assoc]
  | [a, b, c] => by
      have := natBits_pack2_byte a b c 0
      simp only [bitStream, pack2, List.flatMap_cons, List.flatMap_nil, List.append_nil,
        Nat.zero_mod, Nat.zero_mul, Nat.add_zero] at *
      rw [this, natBits_zero]; simp [List.append_assoc]
  | a :: b :: c :: d :: rest => by
      have ih := bitStream_pack2 rest
      have hl : (4 - (a :: b :: c :: d :: rest).length % 4) % 4 = (4 - rest.length % 4) % 4 := by
        simp; omega
      simp only [bitStream, pack2, List.flatMap_cons, hl] at *
      rw [ih, natBits_pack2_byte]
      simp [List.append_assoc]

theorem bitStream_leBytes (w x : Nat) : bitStream (leBytes w x) = natBits (8 * w) x := by
  induction w generalizing x with
  | zero => rfl
  | succ w ih =>
    have h := natBits_add 8 (8 * w) x
    have hm := natBits_mod 8 x
    simp only [show (2 : Nat) ^ 8 = 256 from rfl] at h hm
    have ih' := ih (x / 256)
    simp only [bitStream, leBytes, List.flatMap_cons] at *
    rw [ih', show 8 * (w + 1) = 8 + 8 * w by omega, h, hm]

theorem bitStream_flatMap_leBytes (w : Nat) (xs : List Nat) :
    bitStream (xs.flatMap (leBytes w)) = xs.flatMap (natBits (8 * w)) := by
  induction xs with
  | nil => rfl
  | cons x xs ih =>
    have := bitStream_leBytes w x
    simp only [bitStream, List.flatMap_cons, List.flatMap_append] at *
    rw [this, ih]

/-- the canonical byte form is exactly the specified bit stream -/
theorem bitStream_tobytes (bw : Nat) (xs : List Nat) (h : bw = 2 ∨ bw = 4 ∨ bw % 8 = 0) :
    bitStream (tobytes bw xs) = elemStream bw xs (nbytes xs.length bw) := by
  unfold tobytes elemStream nbytes
  rcases h with h | h | h
  · subst h
    simp only [show ¬ (2 : Nat) = 4 by decide, if_false, if_true, bitStream_pack2]
    congr 2; omega
  · subst h
    simp only [if_true, bitStream_pack4]
    congr 2; omega
  · have h4 : bw ≠ 4 := by omega
    have h2 : bw ≠ 2 := by omega
    simp only [h4, h2, if_false]
    obtain ⟨k, hk⟩ : ∃ k, bw = 8 * k := ⟨bw / 8, by omega⟩
    subst hk
    rw [show 8 * k / 8 = k by omega, bitStream_flatMap_leBytes]
    have : 8 * ((xs.length * (8 * k) + 7) / 8) - xs.length * (8 * k) = 0 := by
      have : xs.length * (8 * k) = 8 * (xs.length * k) := Nat.mul_left_comm _ _ _
      omega
    rw [this]; simp

end IrVerif.Pack

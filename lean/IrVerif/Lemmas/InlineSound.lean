/-
Lemmas/InlineSound.lean — `_inline_calls_in` (`inlG` / `inlNodes` / `inlBodies`) preserves the denotation:
the original environment is the new environment read through the replacements made so far (`RelN`),
for the values of the original model (ids below `N`).  The processing of the inserted nodes (`deeper`) is
a parameter; here it is required to leave an instantiated body as it is (`DeepId`: function bodies without
calls).
-/
import IrVerif.Lemmas.InlineCall
import IrVerif.Lemmas.SemIdentity
namespace IrVerif.Inline
open IrVerif.Sem IrVerif.Passes
variable {Val : Type}

/-- the original environment is the new one read through the replacements, on the original values -/
def RelN (N : Nat) (σ : Subst) (ρo ρi : Env Val) : Prop := ∀ v, v < N → ρo v = ρi (σ.app v)

theorem RelN.bind {N : Nat} {σ : Subst} {ρo ρi : Env Val} (h : RelN N σ ρo ρi) {vs : List VId} (hok : SubstOK σ vs)
    (rs : List (Option Val)) : RelN N σ (ρo.bind vs rs) (ρi.bind vs rs) := by
  intro v hvN
  by_cases hv : v ∈ vs
  · rw [hok.app_of_mem hv]
    simp [Env.bind, hv]
  · rw [Env.bind_of_not_mem _ _ hv, Env.bind_of_not_mem _ _ (hok.app_not_mem hv)]
    exact h v hvN

theorem RelN.args {N : Nat} {σ : Subst} {ρo ρi : Env Val} (h : RelN N σ ρo ρi) (ins : List (Option VId))
    (hins : ∀ v ∈ ins.filterMap id, v < N) : evalArgs ρo ins = evalArgs ρi (substIns σ ins) := by
  unfold substIns evalArgs
  rw [List.map_map]
  apply List.map_congr_left
  intro o ho
  cases o with
  | none => rfl
  | some v =>
    simp only [Function.comp, Option.map, Option.bind]
    exact h v (hins v (by simp [List.mem_filterMap]; exact ho))

theorem evalNodesF_append (I : Interp Val) (Φ : FEnv Val) (α : List (String × AttrData)) :
    ∀ (a b : List FNode) (ρ : Env Val), evalNodesF I Φ α (a ++ b) ρ = evalNodesF I Φ α b (evalNodesF I Φ α a ρ)
  | [], _, _ => by simp [evalNodesF]
  | n :: a, b, ρ => by simp [evalNodesF, evalNodesF_append I Φ α a b]

/-- what a call site needs of the function table -/
structure TblOK (I : Interp Val) (Φ : FEnv Val) (tbl : List Func) : Prop where
  den : ∀ op f, findFunc tbl op = some f → Φ op = some (funcDen I Φ f)
  nostoch : ∀ op f, findFunc tbl op = some f → opsAllNodes (fun op => !isStochasticOp op) f.nodes = true
  subinits : ∀ op f, findFunc tbl op = some f → subInitsOKNodes f.nodes = true
  closed : ∀ op f, findFunc tbl op = some f → closedG (eraseG f.graph) = true

/-- `deeper` leaves an instantiated body as it is -/
def DeepId (tbl : List Func) (crit : OpId → Bool) (deeper : Deeper) : Prop :=
  ∀ op f cattrs cins (st : ISt), findFunc tbl op = some f → crit op = true →
    (deeper (st.addInlined op (instantiate f cattrs cins st.next).next) (instantiate f cattrs cins st.next).nodes).2 =
      ((instantiate f cattrs cins st.next).nodes, []) ∧
    (deeper (st.addInlined op (instantiate f cattrs cins st.next).next) (instantiate f cattrs cins st.next).nodes).1.next =
      (instantiate f cattrs cins st.next).next

theorem callOK_iff {f : Func} {attrs : List (String × FAttr)} {ins : List (Option VId)} {outs : List VId}
    {bodies : List FGraph} (h : callOK f attrs ins outs bodies = true) :
    (attrs.map Prod.fst).Nodup ∧ outs.length ≤ f.outputs.length ∧
    (∀ v ∈ f.outputs, (mapV (zipPad f.inputs ins) v).isSome = true ∨ v ∉ f.inputs) ∧
    (∀ p ∈ attrs, match p.2 with
      | .val _ => True
      | .ref _ => f.params.any (fun q => q.1 == p.1 && q.2.isSome) = false) := by
  simp only [callOK, Bool.and_eq_true, decide_eq_true_eq, List.all_eq_true, Bool.or_eq_true,
    Bool.not_eq_true', List.contains_eq_mem, decide_eq_false_iff_not] at h
  obtain ⟨⟨⟨⟨⟨⟨_, h1⟩, _⟩, h3⟩, h4⟩, h5⟩, _⟩ := h
  refine ⟨h1, h3, h4, fun p hp => ?_⟩
  have := h5 p hp
  cases hp2 : p.2 with
  | val a => trivial
  | ref q => rw [hp2] at this; simpa using this

section
variable (I : Interp Val) (Φ : FEnv Val) (α : List (String × AttrData)) (tbl : List Func) (crit : OpId → Bool)
  (deeper : Deeper) (N : Nat)

mutual
theorem inlG_sound (ht : TblOK I Φ tbl) (hd : DeepId tbl crit deeper) :
    ∀ (g : FGraph) (σ : Subst) (st : ISt) (ρo ρi : Env Val),
    RelN N σ ρo ρi → SubstOK σ (defsG (eraseG g)) → ssaG (eraseG g) = true → closedG (eraseG g) = true →
    noFwdG (eraseG g) = true → (∀ v ∈ refsG (eraseG g), v < N) → (∀ v ∈ defsG (eraseG g), v < N) →
    N ≤ st.next → (∀ p ∈ σ, p.2 < st.next) → callsOKG tbl g = true →
    evalGF I Φ α g ρo = evalGF I Φ α (inlG tbl crit deeper st σ g).2 ρi ∧ st.next ≤ (inlG tbl crit deeper st σ g).1.next
  | .mk inputs outputs inits nodes, σ, st, ρo, ρi, hrel, hok, hs, hc, hf, hr, hdf, hN, hrg, hco => by
    simp only [eraseG, ssaG, Bool.and_eq_true] at hs
    simp only [eraseG, closedG, Bool.and_eq_true, List.all_eq_true] at hc
    simp only [eraseG, noFwdG] at hf
    simp only [callsOKG] at hco
    simp only [eraseG, refsG, List.mem_append] at hr
    simp only [eraseG, defsG, List.mem_append] at hdf hok
    have hmap : outputs.map σ.app = outputs := by
      conv => rhs; rw [← List.map_id outputs]
      apply List.map_congr_left
      intro v hv
      refine hok.app_of_mem ?_
      have := hc.1 v hv
      simp only [List.contains_eq_mem, decide_eq_true_eq, List.mem_append] at this
      simp only [defsG, List.mem_append]
      rcases this with (h | h) | h
      · exact Or.inl (Or.inl h)
      · exact Or.inl (Or.inr h)
      · exact Or.inr (outsTop_sub_defsNodes _ h)
    have hokn : SubstOK σ (defsNodes (eraseNodes nodes)) :=
      hok.mono (fun v hv => by simp only [defsG, List.mem_append]; exact Or.inr hv)
    have key := fun (ρo' ρi' : Env Val) (h : RelN N σ ρo' ρi') =>
      inlNodes_sound ht hd nodes σ outputs st ρo' ρi' h hokn hs.2 hc.2 hf
        (fun v hv => hr v (Or.inr hv)) (fun v hv => hdf v (Or.inr hv)) hN hrg hco
    rw [hmap] at key
    refine ⟨?_, ?_⟩
    · funext xs
      simp only [inlG, evalGF]
      have hrel1 : RelN N σ ((bindInits I ρo inits).bind
            (inputs.filter (fun v => !(inits.map Prod.fst).contains v)) (xs.map some))
          ((bindInits I ρi inits).bind
            (inputs.filter (fun v => !(inits.map Prod.fst).contains v)) (xs.map some)) := by
        refine RelN.bind (RelN.bind hrel ?_ _) ?_ _
        · exact hok.mono (fun v hv => by simp only [defsG, List.mem_append]; exact Or.inl (Or.inr hv))
        · exact hok.mono (fun v hv => by
            simp only [defsG, List.mem_append]; exact Or.inl (Or.inl (List.mem_filter.1 hv).1))
      obtain ⟨k1, k2, _, _⟩ := key _ _ hrel1
      rw [k2, List.map_map]
      apply List.map_congr_left
      intro v hv
      exact k1 v (hr v (Or.inl hv))
    · simp only [inlG]
      exact (key ρo ρi hrel).2.2.1
theorem inlNodes_sound (ht : TblOK I Φ tbl) (hd : DeepId tbl crit deeper) :
    ∀ (ns : List FNode) (σ : Subst) (outs0 : List VId) (st : ISt) (ρo ρi : Env Val),
    RelN N σ ρo ρi → SubstOK σ (defsNodes (eraseNodes ns)) → ssaNodes (eraseNodes ns) = true →
    closedNodes (eraseNodes ns) = true → noFwdNodes (eraseNodes ns) = true →
    (∀ v ∈ refsNodes (eraseNodes ns), v < N) → (∀ v ∈ defsNodes (eraseNodes ns), v < N) →
    N ≤ st.next → (∀ p ∈ σ, p.2 < st.next) → callsOKNodes tbl ns = true →
    RelN N (inlNodes tbl crit deeper st σ (outs0.map σ.app) ns).σ (evalNodesF I Φ α ns ρo)
        (evalNodesF I Φ α (inlNodes tbl crit deeper st σ (outs0.map σ.app) ns).nodes ρi) ∧
    (inlNodes tbl crit deeper st σ (outs0.map σ.app) ns).outs =
      outs0.map (inlNodes tbl crit deeper st σ (outs0.map σ.app) ns).σ.app ∧
    st.next ≤ (inlNodes tbl crit deeper st σ (outs0.map σ.app) ns).st.next ∧
    (∀ p ∈ (inlNodes tbl crit deeper st σ (outs0.map σ.app) ns).σ,
      p.2 < (inlNodes tbl crit deeper st σ (outs0.map σ.app) ns).st.next)
  | [], σ, outs0, st, ρo, ρi, hrel, _, _, _, _, _, _, _, hrg, _ => by
    simp only [inlNodes, evalNodesF]
    exact ⟨hrel, trivial, Nat.le_refl _, hrg⟩
  | .mk op attrs ins nouts bodies :: ns, σ, outs0, st, ρo, ρi, hrel, hok, hs, hc, hf, hr, hdf, hN, hrg, hco => by
    simp only [eraseNodes_cons, eraseN, ssaNodes, ssaN, Bool.and_eq_true, disj_iff] at hs
    simp only [eraseNodes_cons, eraseN, closedNodes, closedN, Bool.and_eq_true] at hc
    simp only [eraseNodes_cons, eraseN, noFwdNodes, noFwdN, Bool.and_eq_true, disj_iff, Node.ins, Node.outs,
      Node.bodies] at hf
    simp only [eraseNodes_cons, eraseN, refsNodes, refsN, List.mem_append] at hr
    simp only [eraseNodes_cons, eraseN, defsNodes, defsN, List.mem_append] at hdf hok
    simp only [callsOKNodes, callsOKN, Bool.and_eq_true] at hco
    obtain ⟨⟨⟨⟨_, _⟩, hsb⟩, hdn⟩, hsn⟩ := hs
    obtain ⟨⟨⟨hfw, _⟩, hfb⟩, hfn⟩ := hf
    have hokn : SubstOK σ (defsNodes (eraseNodes ns)) :=
      hok.mono (fun v hv => by simp only [defsNodes, defsN, List.mem_append]; exact Or.inr hv)
    have hoko : SubstOK σ nouts :=
      hok.mono (fun v hv => by simp only [defsNodes, defsN, List.mem_append]; exact Or.inl (Or.inl hv))
    have hokb : SubstOK σ (defsBodies (eraseBodies bodies)) :=
      hok.mono (fun v hv => by simp only [defsNodes, defsN, List.mem_append]; exact Or.inl (Or.inr hv))
    have hinsN : ∀ v ∈ ins.filterMap id, v < N := fun v hv => hr v (Or.inl (Or.inl hv))
    have hargs := hrel.args ins hinsN
    simp only [inlNodes]
    split
    · -- a call that is inlined
      rename_i f hsel
      have hcrit : crit op = true := by
        by_cases h : crit op = true
        · exact h
        · simp [h] at hsel
      have hff : findFunc tbl op = some f := by simpa [hcrit] using hsel
      rw [hff] at hco
      obtain ⟨hnd, hlen, hpass, href⟩ := callOK_iff hco.1.1
      have hins' : ∀ v ∈ (substIns σ ins).filterMap id, v < st.next := by
        intro v hv
        simp only [substIns, List.mem_filterMap, List.mem_map, id] at hv
        obtain ⟨o, ⟨o0, ho0, rfl⟩, ho⟩ := hv
        cases o0 with
        | none => simp at ho
        | some v0 =>
          simp only [Option.map_some, Option.some.injEq] at ho
          subst ho
          rcases Subst.app_cases σ v0 with h | ⟨p, hp, _, h2⟩
          · rw [h]
            exact Nat.lt_of_lt_of_le (hinsN v0 (by simp [List.mem_filterMap]; exact ho0)) hN
          · rw [← h2]; exact hrg p hp
      have hpre : CallPre f (substIns σ ins) :=
        ⟨ht.nostoch op f hff, ht.subinits op f hff, ht.closed op f hff, fun v hv => by
          rcases hpass v hv with h | h
          · left; rw [zipPad_isSome_subst]; exact h
          · exact Or.inr h⟩
      obtain ⟨is1, is2, is3, is4⟩ := instantiate_sound I Φ α f attrs (substIns σ ins) st.next ρi hpre hnd href hins'
      obtain ⟨hd1, hd2⟩ := hd op f attrs (substIns σ ins) st hff hcrit
      have hlen' : nouts.length ≤ (instantiate f attrs (substIns σ ins) st.next).outvals.length := by
        simp only [instantiate, List.length_map]; exact hlen
      -- abbreviations are not introduced: rewrite the `deeper` result first
      rw [hd1]
      simp only [List.map_id', Subst.app_nil, show (fun v => Subst.app [] v) = id from funext Subst.app_nil,
        List.map_id]
      -- the original step
      have hΦ := ht.den op f hff
      have horig : evalNF I Φ α (.mk op attrs ins nouts bodies) ρo =
          ρo.bind nouts ((instantiate f attrs (substIns σ ins) st.next).outvals.map
            (fun w => evalNodesF I Φ α (instantiate f attrs (substIns σ ins) st.next).nodes ρi w)) := by
        simp only [evalNF, hΦ]
        rw [hargs, is1]
      -- invariants for the rest
      have hrel1 : RelN N (nouts.zip (instantiate f attrs (substIns σ ins) st.next).outvals ++ σ)
          (evalNF I Φ α (.mk op attrs ins nouts bodies) ρo)
          (evalNodesF I Φ α (instantiate f attrs (substIns σ ins) st.next).nodes ρi) := by
        intro v hvN
        rw [horig, Subst.app_append']
        by_cases hv : v ∈ nouts
        · have hi := List.idxOf_lt_length_of_mem hv
          rw [lookup_zip_mem nouts _ v hv hlen', Env.bind_of_mem _ _ hv]
          have hi' : nouts.idxOf v < (instantiate f attrs (substIns σ ins) st.next).outvals.length :=
            Nat.lt_of_lt_of_le hi hlen'
          simp [List.getElem?_eq_getElem hi']
        · rw [lookup_zip_not_mem nouts _ v hv, Env.bind_of_not_mem _ _ hv]
          simp only
          rw [hrel v hvN]
          refine (is2 _ ?_).symm
          rcases Subst.app_cases σ v with h | ⟨p, hp, _, h2⟩
          · rw [h]; exact Nat.lt_of_lt_of_le hvN hN
          · rw [← h2]; exact hrg p hp
      have hok1 : SubstOK (nouts.zip (instantiate f attrs (substIns σ ins) st.next).outvals ++ σ)
          (defsNodes (eraseNodes ns)) := by
        intro p hp
        rcases List.mem_append.1 hp with hp | hp
        · have h1 := (List.of_mem_zip hp).1
          have h2 := (List.of_mem_zip hp).2
          refine ⟨fun h => hdn p.1 (by simp only [defsN, List.mem_append]; exact Or.inl h1) h, fun h => ?_⟩
          rcases (is4 p.2 h2).2 with h3 | h3
          · simp only [substIns, List.mem_filterMap, List.mem_map, id] at h3
            obtain ⟨o, ⟨o0, ho0, rfl⟩, ho⟩ := h3
            cases o0 with
            | none => simp at ho
            | some v0 =>
              simp only [Option.map_some, Option.some.injEq] at ho
              have hv0 : v0 ∉ defsNodes (eraseNodes ns) := fun h' =>
                hfw v0 (by simp [List.mem_filterMap]; exact ho0)
                  (by simp only [defsNodes, defsN, List.mem_append]; exact Or.inr h')
              exact hokn.app_not_mem hv0 (ho ▸ h)
          · exact absurd (hdf p.2 (Or.inr h)) (Nat.not_lt.2 (Nat.le_trans hN h3))
        · exact hokn p hp
      have hmapeq : (outs0.map σ.app).map (fun o =>
            ((nouts.zip (instantiate f attrs (substIns σ ins) st.next).outvals).lookup o).getD o) =
          outs0.map (Subst.app (nouts.zip (instantiate f attrs (substIns σ ins) st.next).outvals ++ σ)) := by
        rw [List.map_map]
        apply List.map_congr_left
        intro o _
        simp only [Function.comp, Subst.app_append']
        by_cases ho : o ∈ nouts
        · rw [hoko.app_of_mem ho]
          cases (nouts.zip (instantiate f attrs (substIns σ ins) st.next).outvals).lookup o <;> rfl
        · have h1 : σ.app o ∉ nouts := hoko.app_not_mem ho
          rw [lookup_zip_not_mem nouts _ _ h1, lookup_zip_not_mem nouts _ _ ho]
          rfl
      rw [hmapeq]
      have hN1 : N ≤ (deeper (st.addInlined op (instantiate f attrs (substIns σ ins) st.next).next)
          (instantiate f attrs (substIns σ ins) st.next).nodes).1.next := by
        rw [hd2]; exact Nat.le_trans hN is3
      have hrg1 : ∀ p ∈ nouts.zip (instantiate f attrs (substIns σ ins) st.next).outvals ++ σ,
          p.2 < (deeper (st.addInlined op (instantiate f attrs (substIns σ ins) st.next).next)
          (instantiate f attrs (substIns σ ins) st.next).nodes).1.next := by
        intro p hp
        rw [hd2]
        rcases List.mem_append.1 hp with hp | hp
        · exact (is4 p.2 (List.of_mem_zip hp).2).1
        · exact Nat.lt_of_lt_of_le (hrg p hp) is3
      obtain ⟨k1, k2, k3, k4⟩ := inlNodes_sound ht hd ns _ outs0 _ _ _ hrel1 hok1 hsn hc.2 hfn
        (fun v hv => hr v (Or.inr hv)) (fun v hv => hdf v (Or.inr hv)) hN1 hrg1 hco.2
      simp only [evalNodesF, evalNodesF_append]
      refine ⟨k1, k2, ?_, k4⟩
      refine Nat.le_trans ?_ k3
      rw [hd2]; exact is3
    · -- the node is kept
      have hb := inlBodies_sound ht hd bodies σ st ρo ρi hrel hokb hsb hc.1 hfb
        (fun v hv => hr v (Or.inl (Or.inr hv))) (fun v hv => hdf v (Or.inl (Or.inr hv))) hN hrg hco.1.2
      have keep : RelN N σ (evalNF I Φ α (.mk op attrs ins nouts bodies) ρo)
          (evalNF I Φ α (.mk op attrs (substIns σ ins) nouts (inlBodies tbl crit deeper st σ bodies).2) ρi) := by
        simp only [evalNF]
        rw [hargs, hb.1]
        exact RelN.bind hrel hoko _
      obtain ⟨k1, k2, k3, k4⟩ := inlNodes_sound ht hd ns σ outs0 (inlBodies tbl crit deeper st σ bodies).1 _ _ keep hokn
        hsn hc.2 hfn (fun v hv => hr v (Or.inr hv)) (fun v hv => hdf v (Or.inr hv)) (Nat.le_trans hN hb.2)
        (fun p hp => Nat.lt_of_lt_of_le (hrg p hp) hb.2) hco.2
      simp only [evalNodesF]
      exact ⟨k1, k2, Nat.le_trans hb.2 k3, k4⟩
theorem inlBodies_sound (ht : TblOK I Φ tbl) (hd : DeepId tbl crit deeper) :
    ∀ (bs : List FGraph) (σ : Subst) (st : ISt) (ρo ρi : Env Val),
    RelN N σ ρo ρi → SubstOK σ (defsBodies (eraseBodies bs)) → ssaBodies (eraseBodies bs) = true →
    closedBodies (eraseBodies bs) = true → noFwdBodies (eraseBodies bs) = true →
    (∀ v ∈ refsBodies (eraseBodies bs), v < N) → (∀ v ∈ defsBodies (eraseBodies bs), v < N) →
    N ≤ st.next → (∀ p ∈ σ, p.2 < st.next) → callsOKBodies tbl bs = true →
    evalBodiesF I Φ α bs ρo = evalBodiesF I Φ α (inlBodies tbl crit deeper st σ bs).2 ρi ∧
    st.next ≤ (inlBodies tbl crit deeper st σ bs).1.next
  | [], _, _, _, _, _, _, _, _, _, _, _, _, _, _ => by simp [inlBodies, evalBodiesF]
  | b :: bs, σ, st, ρo, ρi, hrel, hok, hs, hc, hf, hr, hdf, hN, hrg, hco => by
    simp only [eraseBodies_cons, ssaBodies, Bool.and_eq_true] at hs
    simp only [eraseBodies_cons, closedBodies, Bool.and_eq_true] at hc
    simp only [eraseBodies_cons, noFwdBodies, Bool.and_eq_true] at hf
    simp only [eraseBodies_cons, refsBodies, List.mem_append] at hr
    simp only [eraseBodies_cons, defsBodies, List.mem_append] at hdf hok
    simp only [callsOKBodies, Bool.and_eq_true] at hco
    obtain ⟨h1, h2⟩ := inlG_sound ht hd b σ st ρo ρi hrel
      (hok.mono (fun v hv => by simp only [defsBodies, List.mem_append]; exact Or.inl hv))
      hs.1.1 hc.1 hf.1 (fun v hv => hr v (Or.inl hv)) (fun v hv => hdf v (Or.inl hv)) hN hrg hco.1
    obtain ⟨k1, k2⟩ := inlBodies_sound ht hd bs σ (inlG tbl crit deeper st σ b).1 ρo ρi hrel
      (hok.mono (fun v hv => by simp only [defsBodies, List.mem_append]; exact Or.inr hv))
      hs.2 hc.2 hf.2 (fun v hv => hr v (Or.inr hv)) (fun v hv => hdf v (Or.inr hv)) (Nat.le_trans hN h2)
      (fun p hp => Nat.lt_of_lt_of_le (hrg p hp) h2) hco.2
    simp only [inlBodies, evalBodiesF]
    exact ⟨by rw [h1, k1], Nat.le_trans h2 k2⟩
end

end

end IrVerif.Inline

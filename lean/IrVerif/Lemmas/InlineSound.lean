/-
Lemmas/InlineSound.lean — `_inline_calls_in` (`inlG` / `inlNodes` / `inlBodies`) preserves the denotation:
the original environment is the new environment read through the replacements made so far (`RelN`),
for the values of the original model (ids below `N`).  The processing of the inserted nodes (`deeper`) is
a parameter: it has to simulate the inserted node list in the same sense (`DeepOK`); `inlNodes_sound` itself
shows that for `inlAt` by induction over the unrolling budget (Lemmas/InlineTop.lean).
-/
import IrVerif.Lemmas.InlineWF
import IrVerif.Lemmas.SemIdentity
namespace IrVerif.Inline
open IrVerif.Sem IrVerif.Passes
variable {Val : Type}

/-- the original environment is the new one read through the replacements, on the original values -/
def RelN (N : Nat) (σ : Subst) (ρo ρi : Env Val) : Prop := ∀ v, v < N → ρo v = ρi (σ.app v)

theorem RelN.bind {N : Nat} {σ : Subst} {ρo ρi : Env Val} (h : RelN N σ ρo ρi) {vs : List VId} (hok : SubstOK σ vs)
    (rs : List (Option Val)) : RelN N σ (ρo.bind vs rs) (ρi.bind vs rs) := by
  intro v hvN
  by_cases hv : v ∈ vs
  · rw [hok.app_of_mem hv]
    simp [Env.bind, hv]
  · rw [Env.bind_of_not_mem _ _ hv, Env.bind_of_not_mem _ _ (hok.app_not_mem hv)]
    exact h v hvN

theorem RelN.args {N : Nat} {σ : Subst} {ρo ρi : Env Val} (h : RelN N σ ρo ρi) (ins : List (Option VId))
    (hins : ∀ v ∈ ins.filterMap id, v < N) : evalArgs ρo ins = evalArgs ρi (substIns σ ins) := by
  unfold substIns evalArgs
  rw [List.map_map]
  apply List.map_congr_left
  intro o ho
  cases o with
  | none => rfl
  | some v =>
    simp only [Function.comp, Option.map, Option.bind]
    exact h v (hins v (by simp [List.mem_filterMap]; exact ho))

/-- what a call site needs of the function table -/
structure TblOK (I : Interp Val) (Φ : FEnv Val) (tbl : List Func) : Prop where
  den : ∀ op f, findFunc tbl op = some f → Φ op = some (funcDen I Φ f)
  nostoch : ∀ op f, findFunc tbl op = some f → opsAllNodes (fun op => !isStochasticOp op) f.nodes = true
  subinits : ∀ op f, findFunc tbl op = some f → subInitsOKNodes f.nodes = true
  closed : ∀ op f, findFunc tbl op = some f → closedNodes (eraseNodes f.nodes) = true
  calls : ∀ op f, findFunc tbl op = some f → callsOKNodes tbl f.nodes = true
  noident : findFunc tbl identityOp = none
  noidentΦ : Φ identityOp = none

/-- `deeper` simulates the node list it is given: the environment after the inserted nodes is the environment
    after the processed nodes read through the replacements made in them; these replace values of the inserted
    nodes by values that the inserted nodes read from outside (`Q`) or that are new -/
def DeepOK (I : Interp Val) (Φ : FEnv Val) (α : List (String × AttrData)) (tbl : List Func) (deeper : Deeper) : Prop :=
  ∀ (Q : VId → Prop) (lo : Nat) (ns : List FNode) (st : ISt) (ρ : Env Val), WFBody tbl Q lo st.next ns →
    RelN st.next (deeper st ns).2.2 (evalNodesF I Φ α ns ρ) (evalNodesF I Φ α (deeper st ns).2.1 ρ) ∧
    st.next ≤ (deeper st ns).1.next ∧
    (∀ p ∈ (deeper st ns).2.2, lo ≤ p.1 ∧ p.1 < st.next ∧ p.2 < (deeper st ns).1.next ∧ (Q p.2 ∨ lo ≤ p.2)) ∧
    closedNodes (eraseNodes (deeper st ns).2.1) = true ∧
    (∀ v ∈ outsTop (eraseNodes ns), (deeper st ns).2.2.app v ∈ outsTop (eraseNodes (deeper st ns).2.1))

theorem callOK_iff {f : Func} {attrs : List (String × FAttr)} {ins : List (Option VId)} {outs : List VId}
    {bodies : List FGraph} (h : callOK f attrs ins outs bodies = true) :
    (attrs.map Prod.fst).Nodup ∧ outs.length ≤ f.outputs.length ∧
    (∀ p ∈ attrs, match p.2 with
      | .val _ => True
      | .ref _ => f.params.any (fun q => q.1 == p.1 && q.2.isSome) = false) := by
  simp only [callOK, Bool.and_eq_true, decide_eq_true_eq, List.all_eq_true] at h
  obtain ⟨⟨⟨⟨_, h1⟩, _⟩, h3⟩, h5⟩ := h
  refine ⟨h1, h3, fun p hp => ?_⟩
  have := h5 p hp
  cases hp2 : p.2 with
  | val a => trivial
  | ref q => rw [hp2] at this; simpa using this

theorem length_fwdOuts (vm : VMap) : ∀ (vs produced : List VId) (next : Nat),
    (fwdOuts vm produced vs next).outvals.length = vs.length
  | [], _, _ => by simp [fwdOuts]
  | v :: vs, produced, next => by
    rw [fwdOuts]
    split
    · split <;> simp [length_fwdOuts vm vs]
    · simp [length_fwdOuts vm vs]

theorem Subst.app_of_not_key {σ : Subst} {v : VId} (h : ∀ p ∈ σ, p.1 ≠ v) : σ.app v = v := by
  rcases Subst.app_cases σ v with h' | ⟨p, hp, h1, _⟩
  · exact h'
  · exact absurd h1 (h p hp)

theorem mem_of_lookup_vid : ∀ {l : List (VId × VId)} {v u : VId}, l.lookup v = some u → (v, u) ∈ l
  | [], _, _, h => by simp at h
  | (k, b) :: l, v, u, h => by
    by_cases hk : v = k
    · subst hk
      simp only [List.lookup_cons, beq_self_eq_true, Option.some.injEq] at h
      subst h; simp
    · have : (v == k) = false := by simpa using hk
      simp only [List.lookup_cons, this] at h
      exact List.mem_cons_of_mem _ (mem_of_lookup_vid h)

/-- every value that replaces an output of an instantiated call is produced by one of the inserted nodes -/
theorem outsTopF_eq : ∀ ns : List FNode, outsTopF ns = outsTop (eraseNodes ns)
  | [] => by simp [outsTopF, outsTop]
  | .mk op attrs ins outs bodies :: ns => by
    simp only [outsTopF, FNode.outs, eraseNodes_cons, eraseN, outsTop, Node.outs, outsTopF_eq ns]

theorem fwdOuts_outvals (vm : VMap) : ∀ (vs produced : List VId) (next : Nat),
    ∀ w ∈ (fwdOuts vm produced vs next).outvals, w ∈ produced ∨ w ∈ outsTop (eraseNodes (fwdOuts vm produced vs next).nodes)
  | [], _, _, w, h => by simp [fwdOuts] at h
  | v :: vs, produced, next, w, h => by
    rw [fwdOuts] at h ⊢
    split at h
    · rename_i w' hw'
      split at h
      · rename_i hc
        simp only [hw', hc, if_true]
        rcases List.mem_cons.1 h with h | h
        · exact Or.inl (by rw [h]; simpa using hc)
        · exact fwdOuts_outvals vm vs produced next w h
      · rename_i hc
        simp only [hw', hc, Bool.false_eq_true, if_false, eraseNodes_cons, eraseN, outsTop, Node.outs, List.mem_append,
          List.mem_singleton]
        rcases List.mem_cons.1 h with h | h
        · exact Or.inr (Or.inl h)
        · rcases fwdOuts_outvals vm vs (next :: produced) (next + 1) w h with h' | h'
          · rcases List.mem_cons.1 h' with h' | h'
            · exact Or.inr (Or.inl h')
            · exact Or.inl h'
          · exact Or.inr (Or.inr h')
    · rename_i hw'
      simp only [hw', eraseNodes_cons, eraseN, outsTop, Node.outs, List.mem_append, List.mem_singleton]
      rcases List.mem_cons.1 h with h | h
      · exact Or.inr (Or.inl h)
      · exact (fwdOuts_outvals vm vs produced (next + 1) w h).imp id Or.inr

theorem instantiate_outvals (f : Func) (cattrs : List (String × FAttr)) (cins : List (Option VId)) (next : Nat) :
    ∀ w ∈ (instantiate f cattrs cins next).outvals, w ∈ outsTop (eraseNodes (instantiate f cattrs cins next).nodes) := by
  intro w hw
  simp only [instantiate] at hw ⊢
  rw [eraseNodes_append, outsTop_append, List.mem_append]
  rcases fwdOuts_outvals _ _ _ _ w hw with h | h
  · exact Or.inl (outsTopF_eq _ ▸ h)
  · exact Or.inr h

theorem app_append_of_not_key {new σ : Subst} {v : VId} (h : ∀ p ∈ new, p.1 ≠ v) : (new ++ σ).app v = σ.app v := by
  rw [Subst.app_append']
  cases hl : new.lookup v with
  | none => rfl
  | some z => exact absurd rfl (h (v, z) (mem_of_lookup_vid hl))

theorem mem_substIns {σ : Subst} {ins : List (Option VId)} {w : VId} (h : w ∈ (substIns σ ins).filterMap id) :
    ∃ v ∈ ins.filterMap id, w = σ.app v := by
  simp only [substIns, List.mem_filterMap, List.mem_map, id] at h
  obtain ⟨o, ⟨o0, ho0, rfl⟩, ho⟩ := h
  cases o0 with
  | none => simp at ho
  | some v0 =>
    simp only [Option.map_some, Option.some.injEq] at ho
    exact ⟨v0, by simp [List.mem_filterMap]; exact ho0, ho.symm⟩

section
variable (I : Interp Val) (Φ : FEnv Val) (α : List (String × AttrData)) (tbl : List Func) (crit : OpId → Bool)
  (deeper : Deeper) (N : Nat)

mutual
theorem inlG_sound (ht : TblOK I Φ tbl) (hd : DeepOK I Φ α tbl deeper) :
    ∀ (g : FGraph) (σ : Subst) (st : ISt) (ρo ρi : Env Val),
    RelN N σ ρo ρi → SubstOK σ (defsG (eraseG g)) → ssaG (eraseG g) = true → closedG (eraseG g) = true →
    noFwdG (eraseG g) = true → (∀ v ∈ refsG (eraseG g), v < N) → (∀ v ∈ defsG (eraseG g), v < N) →
    N ≤ st.next → (∀ p ∈ σ, p.2 < st.next) → callsOKG tbl g = true →
    evalGF I Φ α g ρo = evalGF I Φ α (inlG tbl crit deeper st σ g).2 ρi ∧ st.next ≤ (inlG tbl crit deeper st σ g).1.next ∧
    closedG (eraseG (inlG tbl crit deeper st σ g).2) = true
  | .mk inputs outputs inits nodes, σ, st, ρo, ρi, hrel, hok, hs, hc, hf, hr, hdf, hN, hrg, hco => by
    simp only [eraseG, ssaG, Bool.and_eq_true] at hs
    simp only [eraseG, closedG, Bool.and_eq_true, List.all_eq_true] at hc
    simp only [eraseG, noFwdG] at hf
    simp only [callsOKG] at hco
    simp only [eraseG, refsG, List.mem_append] at hr
    simp only [eraseG, defsG, List.mem_append] at hdf hok
    have hmap : outputs.map σ.app = outputs := by
      conv => rhs; rw [← List.map_id outputs]
      apply List.map_congr_left
      intro v hv
      refine hok.app_of_mem ?_
      have := hc.1 v hv
      simp only [List.contains_eq_mem, decide_eq_true_eq, List.mem_append] at this
      simp only [defsG, List.mem_append]
      rcases this with (h | h) | h
      · exact Or.inl (Or.inl h)
      · exact Or.inl (Or.inr h)
      · exact Or.inr (outsTop_sub_defsNodes _ h)
    have hokn : SubstOK σ (defsNodes (eraseNodes nodes)) :=
      hok.mono (fun v hv => by simp only [defsG, List.mem_append]; exact Or.inr hv)
    have key := fun (ρo' ρi' : Env Val) (h : RelN N σ ρo' ρi') =>
      inlNodes_sound ht hd nodes σ outputs st ρo' ρi' h hokn hs.2 hc.2 hf
        (fun v hv => hr v (Or.inr hv)) (fun v hv => hdf v (Or.inr hv)) hN hrg hco
    rw [hmap] at key
    refine ⟨?_, ?_, ?_⟩
    · funext xs
      simp only [inlG, evalGF]
      have hrel1 : RelN N σ ((bindInits I ρo inits).bind
            (inputs.filter (fun v => !(inits.map Prod.fst).contains v)) (xs.map some))
          ((bindInits I ρi inits).bind
            (inputs.filter (fun v => !(inits.map Prod.fst).contains v)) (xs.map some)) := by
        refine RelN.bind (RelN.bind hrel ?_ _) ?_ _
        · exact hok.mono (fun v hv => by simp only [defsG, List.mem_append]; exact Or.inl (Or.inr hv))
        · exact hok.mono (fun v hv => by
            simp only [defsG, List.mem_append]; exact Or.inl (Or.inl (List.mem_filter.1 hv).1))
      obtain ⟨k1, k2, _, _⟩ := key _ _ hrel1
      rw [k2, List.map_map]
      apply List.map_congr_left
      intro v hv
      exact k1 v (hr v (Or.inl hv))
    · simp only [inlG]
      exact (key ρo ρi hrel).2.2.1
    · obtain ⟨_, k2, _, _, _, k6, k7, ⟨new, hnew, hkeys⟩⟩ := key ρo ρi hrel
      simp only [inlG, eraseG, closedG, Bool.and_eq_true, List.all_eq_true, List.contains_eq_mem, decide_eq_true_eq]
      refine ⟨?_, k6⟩
      rw [k2]
      intro o ho
      obtain ⟨o0, ho0, rfl⟩ := List.mem_map.1 ho
      have := hc.1 o0 ho0
      simp only [List.contains_eq_mem, decide_eq_true_eq, List.mem_append] at this ⊢
      rcases this with (h | h) | h
      · left
        rw [hnew, app_append_of_not_key (fun p hp e => (disj_iff.1 hs.1.2 o0 (by simp [h])) (by rw [← e]; exact hkeys p hp)),
          hok.app_of_mem (by simp only [defsG, List.mem_append]; exact Or.inl (Or.inl h))]
        exact Or.inl h
      · left
        rw [hnew, app_append_of_not_key (fun p hp e => (disj_iff.1 hs.1.2 o0 (by simp [h])) (by rw [← e]; exact hkeys p hp)),
          hok.app_of_mem (by simp only [defsG, List.mem_append]; exact Or.inl (Or.inr h))]
        exact Or.inr h
      · exact Or.inr (k7 o0 h)
theorem inlNodes_sound (ht : TblOK I Φ tbl) (hd : DeepOK I Φ α tbl deeper) :
    ∀ (ns : List FNode) (σ : Subst) (outs0 : List VId) (st : ISt) (ρo ρi : Env Val),
    RelN N σ ρo ρi → SubstOK σ (defsNodes (eraseNodes ns)) → ssaNodes (eraseNodes ns) = true →
    closedNodes (eraseNodes ns) = true → noFwdNodes (eraseNodes ns) = true →
    (∀ v ∈ refsNodes (eraseNodes ns), v < N) → (∀ v ∈ defsNodes (eraseNodes ns), v < N) →
    N ≤ st.next → (∀ p ∈ σ, p.2 < st.next) → callsOKNodes tbl ns = true →
    RelN N (inlNodes tbl crit deeper st σ (outs0.map σ.app) ns).σ (evalNodesF I Φ α ns ρo)
        (evalNodesF I Φ α (inlNodes tbl crit deeper st σ (outs0.map σ.app) ns).nodes ρi) ∧
    (inlNodes tbl crit deeper st σ (outs0.map σ.app) ns).outs =
      outs0.map (inlNodes tbl crit deeper st σ (outs0.map σ.app) ns).σ.app ∧
    st.next ≤ (inlNodes tbl crit deeper st σ (outs0.map σ.app) ns).st.next ∧
    (∀ p ∈ (inlNodes tbl crit deeper st σ (outs0.map σ.app) ns).σ,
      p.2 < (inlNodes tbl crit deeper st σ (outs0.map σ.app) ns).st.next) ∧
    (∀ p ∈ (inlNodes tbl crit deeper st σ (outs0.map σ.app) ns).σ, p ∈ σ ∨
      (p.1 ∈ defsNodes (eraseNodes ns) ∧ (st.next ≤ p.2 ∨ ∃ v ∈ refsNodes (eraseNodes ns), p.2 = σ.app v))) ∧
    closedNodes (eraseNodes (inlNodes tbl crit deeper st σ (outs0.map σ.app) ns).nodes) = true ∧
    (∀ v ∈ outsTop (eraseNodes ns), (inlNodes tbl crit deeper st σ (outs0.map σ.app) ns).σ.app v ∈
      outsTop (eraseNodes (inlNodes tbl crit deeper st σ (outs0.map σ.app) ns).nodes)) ∧
    (∃ new, (inlNodes tbl crit deeper st σ (outs0.map σ.app) ns).σ = new ++ σ ∧
      ∀ p ∈ new, p.1 ∈ defsNodes (eraseNodes ns))
  | [], σ, outs0, st, ρo, ρi, hrel, _, _, _, _, _, _, _, hrg, _ => by
    simp only [inlNodes, evalNodesF]
    exact ⟨hrel, trivial, Nat.le_refl _, hrg, fun p hp => Or.inl hp, rfl, fun v hv => by simp [outsTop] at hv,
      [], rfl, fun p hp => by simp at hp⟩
  | .mk op attrs ins nouts bodies :: ns, σ, outs0, st, ρo, ρi, hrel, hok, hs, hc, hf, hr, hdf, hN, hrg, hco => by
    simp only [eraseNodes_cons, eraseN, ssaNodes, ssaN, Bool.and_eq_true, disj_iff] at hs
    simp only [eraseNodes_cons, eraseN, closedNodes, closedN, Bool.and_eq_true] at hc
    simp only [eraseNodes_cons, eraseN, noFwdNodes, noFwdN, Bool.and_eq_true, disj_iff, Node.ins, Node.outs,
      Node.bodies] at hf
    simp only [eraseNodes_cons, eraseN, refsNodes, refsN, List.mem_append] at hr
    simp only [eraseNodes_cons, eraseN, defsNodes, defsN, List.mem_append] at hdf hok
    simp only [callsOKNodes, callsOKN, Bool.and_eq_true] at hco
    obtain ⟨⟨⟨⟨_, _⟩, hsb⟩, hdn⟩, hsn⟩ := hs
    obtain ⟨⟨⟨hfw, _⟩, hfb⟩, hfn⟩ := hf
    have hokn : SubstOK σ (defsNodes (eraseNodes ns)) :=
      hok.mono (fun v hv => by simp only [defsNodes, defsN, List.mem_append]; exact Or.inr hv)
    have hoko : SubstOK σ nouts :=
      hok.mono (fun v hv => by simp only [defsNodes, defsN, List.mem_append]; exact Or.inl (Or.inl hv))
    have hokb : SubstOK σ (defsBodies (eraseBodies bodies)) :=
      hok.mono (fun v hv => by simp only [defsNodes, defsN, List.mem_append]; exact Or.inl (Or.inr hv))
    have hinsN : ∀ v ∈ ins.filterMap id, v < N := fun v hv => hr v (Or.inl (Or.inl hv))
    have hargs := hrel.args ins hinsN
    simp only [inlNodes]
    split
    · -- a call that is inlined
      rename_i f hsel
      have hcrit : crit op = true := by
        by_cases h : crit op = true
        · exact h
        · simp [h] at hsel
      have hff : findFunc tbl op = some f := by simpa [hcrit] using hsel
      rw [hff] at hco
      obtain ⟨hnd, hlen, href⟩ := callOK_iff hco.1.1
      have hins' : ∀ v ∈ (substIns σ ins).filterMap id, v < st.next := by
        intro v hv
        obtain ⟨v0, hv0, rfl⟩ := mem_substIns hv
        rcases Subst.app_cases σ v0 with h | ⟨p, hp, _, h2⟩
        · rw [h]; exact Nat.lt_of_lt_of_le (hinsN v0 hv0) hN
        · rw [← h2]; exact hrg p hp
      -- an image of an input of the call is not bound by a later node
      have hcin : ∀ w ∈ (substIns σ ins).filterMap id, w ∉ defsNodes (eraseNodes ns) := by
        intro w hw h
        obtain ⟨v0, hv0, rfl⟩ := mem_substIns hw
        have hv0' : v0 ∉ defsNodes (eraseNodes ns) := fun h' =>
          hfw v0 hv0 (by simp only [defsNodes, defsN, List.mem_append]; exact Or.inr h')
        exact hokn.app_not_mem hv0' h
      have hpre : CallPre f := ⟨ht.nostoch op f hff, ht.subinits op f hff, ht.closed op f hff⟩
      obtain ⟨inst, hinst⟩ : ∃ x, x = instantiate f attrs (substIns σ ins) st.next := ⟨_, rfl⟩
      obtain ⟨is1, is2, is3, is4⟩ := instantiate_sound I Φ α ht.noidentΦ f attrs (substIns σ ins) st.next ρi hpre hnd
        href hins'
      have hwf := instantiate_wf tbl ht.noident f (ht.closed op f hff) (ht.calls op f hff) attrs (substIns σ ins) st.next
        hins'
      rw [← hinst] at is1 is2 is3 is4 hwf ⊢
      obtain ⟨dd, hdd⟩ : ∃ x, x = deeper (st.addInlined op inst.next (inst.bad || nouts.length != f.outputs.length)) inst.nodes := ⟨_, rfl⟩
      have hdst : (st.addInlined op inst.next (inst.bad || nouts.length != f.outputs.length)).next = inst.next := rfl
      have hov := instantiate_outvals f attrs (substIns σ ins) st.next
      rw [← hinst] at hov
      obtain ⟨d1, d2, d3, d4, d5⟩ := hd (· ∈ (substIns σ ins).filterMap id) st.next inst.nodes
        (st.addInlined op inst.next (inst.bad || nouts.length != f.outputs.length)) ρi (by rw [hdst]; exact hwf)
      rw [← hdd] at d1 d2 d3 d4 d5 ⊢
      rw [hdst] at d1 d2 d3
      have hlen' : nouts.length ≤ (inst.outvals.map dd.2.2.app).length := by
        rw [List.length_map, hinst]
        simp only [instantiate, length_fwdOuts]; exact hlen
      -- the values that replace the outputs of the call
      have hval : ∀ w ∈ inst.outvals, dd.2.2.app w < dd.1.next ∧
          (dd.2.2.app w ∈ (substIns σ ins).filterMap id ∨ st.next ≤ dd.2.2.app w) := by
        intro w hw
        rcases Subst.app_cases dd.2.2 w with h | ⟨q, hq, _, h2⟩
        · rw [h]; exact ⟨Nat.lt_of_lt_of_le (is4 w hw).1 d2, (is4 w hw).2⟩
        · rw [← h2]; exact ⟨(d3 q hq).2.2.1, (d3 q hq).2.2.2⟩
      -- the original step
      have hΦ := ht.den op f hff
      have horig : evalNF I Φ α (.mk op attrs ins nouts bodies) ρo =
          ρo.bind nouts ((inst.outvals.map dd.2.2.app).map (fun w => evalNodesF I Φ α dd.2.1 ρi w)) := by
        simp only [evalNF, hΦ]
        rw [hargs, is1, List.map_map]
        congr 1
        apply List.map_congr_left
        intro w hw
        exact d1 w (is4 w hw).1
      have hlow : ∀ u, u < st.next → dd.2.2.app u = u := fun u hu =>
        Subst.app_of_not_key (fun q hq h => absurd hu (Nat.not_lt.2 (h ▸ (d3 q hq).1)))
      -- invariants for the rest
      have hrel1 : RelN N (nouts.zip (inst.outvals.map dd.2.2.app) ++ σ)
          (evalNF I Φ α (.mk op attrs ins nouts bodies) ρo) (evalNodesF I Φ α dd.2.1 ρi) := by
        intro v hvN
        rw [horig, Subst.app_append']
        by_cases hv : v ∈ nouts
        · have hi := List.idxOf_lt_length_of_mem hv
          rw [lookup_zip_mem nouts _ v hv hlen', Env.bind_of_mem _ _ hv]
          have hi' : nouts.idxOf v < inst.outvals.length := by
            have := Nat.lt_of_lt_of_le hi hlen'
            rwa [List.length_map] at this
          simp [List.getElem?_eq_getElem hi']
        · rw [lookup_zip_not_mem nouts _ v hv, Env.bind_of_not_mem _ _ hv]
          simp only
          rw [hrel v hvN]
          have hlt : σ.app v < st.next := by
            rcases Subst.app_cases σ v with h | ⟨p, hp, _, h2⟩
            · rw [h]; exact Nat.lt_of_lt_of_le hvN hN
            · rw [← h2]; exact hrg p hp
          rw [← is2 _ hlt, d1 _ (Nat.lt_of_lt_of_le hlt is3), hlow _ hlt]
      have hok1 : SubstOK (nouts.zip (inst.outvals.map dd.2.2.app) ++ σ) (defsNodes (eraseNodes ns)) := by
        intro p hp
        rcases List.mem_append.1 hp with hp | hp
        · have h1 := (List.of_mem_zip hp).1
          have h2 := (List.of_mem_zip hp).2
          refine ⟨fun h => hdn p.1 (by simp only [defsN, List.mem_append]; exact Or.inl h1) h, fun h => ?_⟩
          obtain ⟨w, hw, hw2⟩ := List.mem_map.1 h2
          rw [← hw2] at h
          rcases (hval w hw).2 with h3 | h3
          · exact hcin _ h3 h
          · exact absurd (hdf _ (Or.inr h)) (Nat.not_lt.2 (Nat.le_trans hN h3))
        · exact hokn p hp
      have hmapeq : (outs0.map σ.app).map (fun o =>
            ((nouts.zip (inst.outvals.map dd.2.2.app)).lookup o).getD o) =
          outs0.map (Subst.app (nouts.zip (inst.outvals.map dd.2.2.app) ++ σ)) := by
        rw [List.map_map]
        apply List.map_congr_left
        intro o _
        simp only [Function.comp, Subst.app_append']
        by_cases ho : o ∈ nouts
        · rw [hoko.app_of_mem ho]
          cases (nouts.zip (inst.outvals.map dd.2.2.app)).lookup o <;> rfl
        · have h1 : σ.app o ∉ nouts := hoko.app_not_mem ho
          rw [lookup_zip_not_mem nouts _ _ h1, lookup_zip_not_mem nouts _ _ ho]
          rfl
      rw [hmapeq]
      have hN1 : N ≤ dd.1.next := Nat.le_trans hN (Nat.le_trans is3 d2)
      have hrg1 : ∀ p ∈ nouts.zip (inst.outvals.map dd.2.2.app) ++ σ, p.2 < dd.1.next := by
        intro p hp
        rcases List.mem_append.1 hp with hp | hp
        · obtain ⟨w, hw, hw2⟩ := List.mem_map.1 (List.of_mem_zip hp).2
          rw [← hw2]; exact (hval w hw).1
        · exact Nat.lt_of_lt_of_le (hrg p hp) (Nat.le_trans is3 d2)
      obtain ⟨k1, k2, k3, k4, k5, k6, k7, ⟨new, hnew, hkeys⟩⟩ := inlNodes_sound ht hd ns _ outs0 _ _ _ hrel1 hok1 hsn hc.2 hfn
        (fun v hv => hr v (Or.inr hv)) (fun v hv => hdf v (Or.inr hv)) hN1 hrg1 hco.2
      simp only [evalNodesF, evalNodesF_append]
      refine ⟨k1, k2, Nat.le_trans (Nat.le_trans is3 d2) k3, k4, ?_, ?_, ?_, ?_⟩
      rotate_left
      · rw [eraseNodes_append, closedNodes_append, d4, k6]; rfl
      · intro v hv
        rw [eraseNodes_append, outsTop_append, List.mem_append]
        simp only [eraseNodes_cons, eraseN, outsTop, Node.outs, List.mem_append] at hv
        rcases hv with hv | hv
        · left
          have hvn : v ∉ defsNodes (eraseNodes ns) := fun h => hdn v (by simp only [defsN, List.mem_append]; exact Or.inl hv) h
          rw [hnew, app_append_of_not_key (fun p hp e => hvn (by rw [← e]; exact hkeys p hp)), Subst.app_append']
          have hi := List.idxOf_lt_length_of_mem hv
          rw [lookup_zip_mem nouts _ v hv hlen']
          have hi' : nouts.idxOf v < inst.outvals.length := by
            have := Nat.lt_of_lt_of_le hi hlen'
            rwa [List.length_map] at this
          simp only [List.getElem?_map, List.getElem?_eq_getElem hi', Option.map_some]
          exact d5 _ (hov _ (List.getElem_mem hi'))
        · exact Or.inr (k7 v hv)
      · exact ⟨new ++ nouts.zip (inst.outvals.map dd.2.2.app), by rw [hnew, List.append_assoc], fun p hp => by
          simp only [eraseNodes_cons, eraseN, defsNodes, defsN, List.mem_append]
          rcases List.mem_append.1 hp with hp | hp
          · exact Or.inr (hkeys p hp)
          · exact Or.inl (Or.inl (List.of_mem_zip hp).1)⟩
      -- where the replacements come from
      have hpair : ∀ p ∈ nouts.zip (inst.outvals.map dd.2.2.app), p.1 ∈ nouts ∧
          (st.next ≤ p.2 ∨ ∃ v ∈ ins.filterMap id, p.2 = σ.app v) := by
        intro p hp
        refine ⟨(List.of_mem_zip hp).1, ?_⟩
        obtain ⟨w, hw, hw2⟩ := List.mem_map.1 (List.of_mem_zip hp).2
        rw [← hw2]
        rcases (hval w hw).2 with h3 | h3
        · exact Or.inr (mem_substIns h3)
        · exact Or.inl h3
      intro p hp
      rcases k5 p hp with h | ⟨h1, h2⟩
      · rcases List.mem_append.1 h with h | h
        · obtain ⟨a, b⟩ := hpair p h
          refine Or.inr ⟨by simp only [eraseNodes_cons, eraseN, defsNodes, defsN, List.mem_append]; exact Or.inl (Or.inl a), ?_⟩
          rcases b with b | ⟨v, hv, b⟩
          · exact Or.inl b
          · exact Or.inr ⟨v, by simp only [eraseNodes_cons, eraseN, refsNodes, refsN, List.mem_append]; exact Or.inl (Or.inl hv), b⟩
        · exact Or.inl h
      · refine Or.inr ⟨by simp only [eraseNodes_cons, defsNodes, List.mem_append]; exact Or.inr h1, ?_⟩
        rcases h2 with h2 | ⟨v, hv, h2⟩
        · exact Or.inl (Nat.le_trans (Nat.le_trans is3 d2) h2)
        · rw [Subst.app_append'] at h2
          cases hl : (nouts.zip (inst.outvals.map dd.2.2.app)).lookup v with
          | none =>
            rw [hl] at h2
            exact Or.inr ⟨v, by simp only [eraseNodes_cons, refsNodes, List.mem_append]; exact Or.inr hv, h2⟩
          | some u =>
            rw [hl] at h2
            simp only at h2
            have hmem : (v, u) ∈ nouts.zip (inst.outvals.map dd.2.2.app) := mem_of_lookup_vid hl
            obtain ⟨_, b⟩ := hpair (v, u) hmem
            rw [h2]
            rcases b with b | ⟨v', hv', b⟩
            · exact Or.inl b
            · exact Or.inr ⟨v', by simp only [eraseNodes_cons, eraseN, refsNodes, refsN, List.mem_append]; exact Or.inl (Or.inl hv'), b⟩
    · -- the node is kept
      have hb := inlBodies_sound ht hd bodies σ st ρo ρi hrel hokb hsb hc.1 hfb
        (fun v hv => hr v (Or.inl (Or.inr hv))) (fun v hv => hdf v (Or.inl (Or.inr hv))) hN hrg hco.1.2
      have keep : RelN N σ (evalNF I Φ α (.mk op attrs ins nouts bodies) ρo)
          (evalNF I Φ α (.mk op attrs (substIns σ ins) nouts (inlBodies tbl crit deeper st σ bodies).2) ρi) := by
        simp only [evalNF]
        rw [hargs, hb.1]
        exact RelN.bind hrel hoko _
      obtain ⟨k1, k2, k3, k4, k5, k6, k7, ⟨new, hnew, hkeys⟩⟩ := inlNodes_sound ht hd ns σ outs0 (inlBodies tbl crit deeper st σ bodies).1 _ _ keep hokn
        hsn hc.2 hfn (fun v hv => hr v (Or.inr hv)) (fun v hv => hdf v (Or.inr hv)) (Nat.le_trans hN hb.2.1)
        (fun p hp => Nat.lt_of_lt_of_le (hrg p hp) hb.2.1) hco.2
      simp only [evalNodesF]
      refine ⟨k1, k2, Nat.le_trans hb.2.1 k3, k4, ?_, ?_, ?_, ?_⟩
      rotate_left
      · simp only [eraseNodes_cons, eraseN, closedNodes, closedN, Bool.and_eq_true]
        exact ⟨hb.2.2, k6⟩
      · intro v hv
        simp only [eraseNodes_cons, eraseN, outsTop, Node.outs, List.mem_append] at hv ⊢
        rcases hv with hv | hv
        · left
          have hvn : v ∉ defsNodes (eraseNodes ns) := fun h => hdn v (by simp only [defsN, List.mem_append]; exact Or.inl hv) h
          rw [hnew, app_append_of_not_key (fun p hp e => hvn (by rw [← e]; exact hkeys p hp)), hoko.app_of_mem hv]
          exact hv
        · exact Or.inr (k7 v hv)
      · exact ⟨new, hnew, fun p hp => by
          simp only [eraseNodes_cons, defsNodes, List.mem_append]; exact Or.inr (hkeys p hp)⟩
      intro p hp
      rcases k5 p hp with h | ⟨h1, h2⟩
      · exact Or.inl h
      · refine Or.inr ⟨by simp only [eraseNodes_cons, defsNodes, List.mem_append]; exact Or.inr h1, ?_⟩
        rcases h2 with h2 | ⟨v, hv, h2⟩
        · exact Or.inl (Nat.le_trans hb.2.1 h2)
        · exact Or.inr ⟨v, by simp only [eraseNodes_cons, refsNodes, List.mem_append]; exact Or.inr hv, h2⟩
theorem inlBodies_sound (ht : TblOK I Φ tbl) (hd : DeepOK I Φ α tbl deeper) :
    ∀ (bs : List FGraph) (σ : Subst) (st : ISt) (ρo ρi : Env Val),
    RelN N σ ρo ρi → SubstOK σ (defsBodies (eraseBodies bs)) → ssaBodies (eraseBodies bs) = true →
    closedBodies (eraseBodies bs) = true → noFwdBodies (eraseBodies bs) = true →
    (∀ v ∈ refsBodies (eraseBodies bs), v < N) → (∀ v ∈ defsBodies (eraseBodies bs), v < N) →
    N ≤ st.next → (∀ p ∈ σ, p.2 < st.next) → callsOKBodies tbl bs = true →
    evalBodiesF I Φ α bs ρo = evalBodiesF I Φ α (inlBodies tbl crit deeper st σ bs).2 ρi ∧
    st.next ≤ (inlBodies tbl crit deeper st σ bs).1.next ∧
    closedBodies (eraseBodies (inlBodies tbl crit deeper st σ bs).2) = true
  | [], _, _, _, _, _, _, _, _, _, _, _, _, _, _ => by simp [inlBodies, evalBodiesF, closedBodies]
  | b :: bs, σ, st, ρo, ρi, hrel, hok, hs, hc, hf, hr, hdf, hN, hrg, hco => by
    simp only [eraseBodies_cons, ssaBodies, Bool.and_eq_true] at hs
    simp only [eraseBodies_cons, closedBodies, Bool.and_eq_true] at hc
    simp only [eraseBodies_cons, noFwdBodies, Bool.and_eq_true] at hf
    simp only [eraseBodies_cons, refsBodies, List.mem_append] at hr
    simp only [eraseBodies_cons, defsBodies, List.mem_append] at hdf hok
    simp only [callsOKBodies, Bool.and_eq_true] at hco
    obtain ⟨h1, h2, h3⟩ := inlG_sound ht hd b σ st ρo ρi hrel
      (hok.mono (fun v hv => by simp only [defsBodies, List.mem_append]; exact Or.inl hv))
      hs.1.1 hc.1 hf.1 (fun v hv => hr v (Or.inl hv)) (fun v hv => hdf v (Or.inl hv)) hN hrg hco.1
    obtain ⟨k1, k2, k3⟩ := inlBodies_sound ht hd bs σ (inlG tbl crit deeper st σ b).1 ρo ρi hrel
      (hok.mono (fun v hv => by simp only [defsBodies, List.mem_append]; exact Or.inr hv))
      hs.2 hc.2 hf.2 (fun v hv => hr v (Or.inr hv)) (fun v hv => hdf v (Or.inr hv)) (Nat.le_trans hN h2)
      (fun p hp => Nat.lt_of_lt_of_le (hrg p hp) h2) hco.2
    simp only [inlBodies, evalBodiesF, eraseBodies_cons, closedBodies, Bool.and_eq_true]
    exact ⟨by rw [h1, k1], Nat.le_trans h2 k2, h3, k3⟩
end

end

end IrVerif.Inline

import IrVerif.Lemmas.ScopeSerdeBridge
import IrVerif.Model.ScopeSerdeBridgeSub
/-!
The C02 bridge WITH nested graphs, part 1: definitions (`absGFull`, `absIRFull`) and the phase lemmas of
`ScopeSerdeBridge` generalised to a base offset (the graph is entered at value counter `b = P.length`, `P` = the cells
that already exist) and to a scope stack.
-/
namespace IrVerif.Bridge
open IrVerif.Proto IrVerif.Serde

/-! ## tables with a base offset, scope stacks -/

def TblRelB (tbl : Scope.Table) (names : List String) (b : Nat) : Prop :=
  tbl = (names.zip (List.range' b names.length)).reverse

theorem tblRelB_lookup {tbl : Scope.Table} {names : List String} {b : Nat} (h : TblRelB tbl names b) (x : String) :
    tbl.lookup x = (lookupLast names x).map (b + ·) := by
  rw [h]; exact lookup_zip_range' x names b

theorem tblRelB_snoc {tbl : Scope.Table} {names : List String} {b : Nat} (h : TblRelB tbl names b) (n : String) :
    TblRelB ((n, b + names.length) :: tbl) (names ++ [n]) b := by
  unfold TblRelB at *
  rw [h]
  simp only [List.length_append, List.length_singleton, List.range'_concat, Nat.one_mul]
  rw [List.zip_append (by simp)]
  simp

inductive ScRel : List Scope.Table → Scopes → List Nat → Prop
  | nil : ScRel [] [] []
  | cons {t : Scope.Table} {n : List String} {b : Nat} {ts : List Scope.Table} {ns : Scopes} {bs : List Nat} :
      TblRelB t n b → ScRel ts ns bs → ScRel (t :: ts) (n :: ns) (b :: bs)

theorem scRel_resolve (x : String) {S : List Scope.Table} {N : Scopes} {B : List Nat} (h : ScRel S N B) :
    Scope.resolve x S = (Serde.resolve N x).map (refId B) := by
  induction h with
  | nil => rfl
  | cons h1 _ ih =>
    simp only [Scope.resolve, Serde.resolve, tblRelB_lookup h1]
    cases lookupLast _ x with
    | some i => simp [refId]
    | none =>
      simp only [Option.map_none, ih]
      cases Serde.resolve _ x with
      | none => rfl
      | some r => simp [refId]

theorem set_append_add {α : Type} (P L : List α) (i : Nat) (c : α) :
    (P ++ L).set (P.length + i) c = P ++ L.set i c := by
  induction P with
  | nil => simp
  | cons x P ih =>
    have : (x :: P).length + i = (P.length + i) + 1 := by simp; omega
    rw [this]
    simp [ih]

theorem getD_PT (P : List Cell) (T : List IRValue) (X : List Cell) (i : Nat) (hi : i < T.length) :
    (P ++ T.map absCell ++ X).getD (P.length + i) default = absCell (T.getD i (IRValue.blank "")) := by
  rw [List.append_assoc]
  simp [List.getD, List.getElem?_append_right, List.getElem?_append_left, hi]

/-! ## phase 2 with a prefix -/

theorem ph2B (vis : List ValueInfoP) (q : List AnnotP) (hvis : vis.all wfVI = true) (P : List Cell) :
    ∀ (ps : List TensorP) (T : List IRValue) (st : Scope.Store) (tblS : Scope.Table) (T' : List IRValue)
      (idxs : List Nat),
    (∀ p ∈ ps, wfTensor p = true ∧ validDType p.dataType = true) →
    CoreEq st (P ++ T.map absCell) → TblRelB tblS (tableNames T) P.length →
    desInitializers vis q (ps.map irT) T = .ok (T', idxs) →
    ∃ st' tblS', Scope.deserInits st tblS (Scope.vinfoTable (vis.map absVI)) (ps.map absT)
        = (st', tblS', idxs.map (P.length + ·)) ∧
      CoreEq st' (P ++ T'.map absCell) ∧ TblRelB tblS' (tableNames T') P.length ∧ st'.nn = st.nn ∧ st'.ng = st.ng
  | [], T, st, tblS, T', idxs, _, hc, ht, h => by
    simp only [List.map_nil, desInitializers, Except.ok.injEq, Prod.mk.injEq] at h
    obtain ⟨rfl, rfl⟩ := h
    exact ⟨st, tblS, rfl, hc, ht, rfl, rfl⟩
  | p :: ps, T, st, tblS, T', idxs, hwf, hc, ht, h => by
    obtain ⟨hw, hv⟩ := hwf p (by simp)
    have hwf' : ∀ p ∈ ps, wfTensor p = true ∧ validDType p.dataType = true :=
      fun x hx => hwf x (List.mem_cons_of_mem _ hx)
    have hname : (irT p).name = p.name := (irT_spec p hw).2.2.1
    have hdt := (irT_dtype p hw hv).1
    simp only [List.map_cons, desInitializers, hname] at h
    simp only [List.map_cons, Scope.deserInits]
    have hnm : (absT p).name = p.name := rfl
    rw [hnm]
    by_cases he : p.name = ""
    · simp only [he, if_true] at h ⊢
      exact ph2B vis q hvis P ps T st tblS T' idxs hwf' hc ht h
    · simp only [he, if_false, hdt, bind, Except.bind] at h ⊢
      rw [tblRelB_lookup ht]
      cases hl : lookupLast (tableNames T) p.name with
      | some i =>
        simp only [hl] at h
        simp only [Option.map_some]
        have hi : i < T.length := by simpa [tableNames] using lookupLast_lt hl
        split at h
        · cases h
        · rename_i r hr
          obtain ⟨T2, is2⟩ := r
          simp only [Except.ok.injEq, Prod.mk.injEq] at h
          obtain ⟨rfl, rfl⟩ := h
          rw [listSet_eq_map] at hr
          have hc1 := coreEq_allocTensor hc ⟨some p.name, tensTok (irT p), tyTok (.tensor p.dataType ""), dimsTok p.dims⟩
          have hc2 := coreEq_modify hc1 (P.length + i) (fun c => { c with const := some st.nt })
            (by intro t ht'; simp only [Option.some.injEq] at ht'; subst ht'; simp [Scope.Store.allocTensor])
          have hcell := hc.cells (P.length + i) (by simp; omega)
          have hg := getD_PT P T [] i hi
          rw [List.append_nil] at hg
          rw [hg] at hcell
          have hc3 : CoreEq (((st.allocTensor ⟨some p.name, tensTok (irT p), tyTok (.tensor p.dataType ""), dimsTok p.dims⟩).1).modify (P.length + i)
              (fun c => { c with const := some st.nt }))
              (P ++ (T.set i { T.getD i (IRValue.blank "") with const := some (irT p) }).map absCell) := by
            rw [List.map_set, ← set_append_add]
            have hce : absCell { T.getD i (IRValue.blank "") with const := some (irT p) }
                = ⟨(st.vals (P.length + i)).name, (st.vals (P.length + i)).info,
                    some ⟨some p.name, tensTok (irT p), tyTok (.tensor p.dataType ""), dimsTok p.dims⟩⟩ := by
              simp only [cellAt, absCell, Cell.mk.injEq] at hcell
              simp only [absCell, Option.map_some, absTens_irT p hw hv, Cell.mk.injEq]
              exact ⟨hcell.1.symm, hcell.2.1.symm, trivial⟩
            rw [hce]
            simpa [Scope.Store.allocTensor] using hc2
          have ht3 : TblRelB tblS (tableNames (T.set i { T.getD i (IRValue.blank "") with const := some (irT p) })) P.length := by
            have := tableNames_set T i { T.getD i (IRValue.blank "") with const := some (irT p) } rfl hi
            rw [this]; exact ht
          obtain ⟨st', tblS', e1, e2, e3, e4, e5⟩ := ph2B vis q hvis P ps _ _ tblS T2 is2 hwf' hc3 ht3 hr
          refine ⟨st', tblS', ?_, e2, e3, ?_, ?_⟩
          · simp only [absT_eq] at e1 ⊢
            rw [e1]; rfl
          · rw [e4]; rfl
          · rw [e5]; rfl
      | none =>
        simp only [hl, newInitValue_eq vis q hvis p hw hv] at h
        simp only [Option.map_none]
        split at h
        · cases h
        · rename_i r hr
          obtain ⟨T2, is2⟩ := r
          simp only [Except.ok.injEq, Prod.mk.injEq] at h
          obtain ⟨rfl, rfl⟩ := h
          have hc1 := coreEq_allocTensor hc ⟨some p.name, tensTok (irT p), tyTok (.tensor p.dataType ""), dimsTok p.dims⟩
          have hnv : st.nv = P.length + T.length := by simpa using hc.nv
          have hnew : Scope.newInit (st.allocTensor ⟨some p.name, tensTok (irT p), tyTok (.tensor p.dataType ""), dimsTok p.dims⟩).1
              (Scope.vinfoTable (vis.map absVI)) (absT p) st.nt
              = ((st.allocTensor ⟨some p.name, tensTok (irT p), tyTok (.tensor p.dataType ""), dimsTok p.dims⟩).1.alloc
                  { name := some p.name, info := initInfoS vis p, const := some st.nt }).1 := by
            unfold Scope.newInit initInfoS
            rw [vinfoTable_lookup, hnm]
            cases findVI vis p.name with
            | none => rfl
            | some vi =>
              simp only [Option.map_some]
              rw [alloc_modify]
              rfl
          have hc2 := coreEq_alloc hc1 { name := some p.name, info := initInfoS vis p, const := some st.nt }
            (by intro t ht'; simp only [Option.some.injEq] at ht'; subst ht'; simp [Scope.Store.allocTensor])
          have hc3 : CoreEq (Scope.newInit (st.allocTensor ⟨some p.name, tensTok (irT p), tyTok (.tensor p.dataType ""), dimsTok p.dims⟩).1
              (Scope.vinfoTable (vis.map absVI)) (absT p) st.nt) (P ++ (T ++ [initValT vis q p]).map absCell) := by
            rw [hnew, List.map_append, ← List.append_assoc]
            simp only [List.map_cons, List.map_nil, absCell_initValT vis q p hw hv, absTens_irT p hw hv]
            simpa [Scope.Store.allocTensor] using hc2
          have ht3 : TblRelB ((p.name, st.nv) :: tblS) (tableNames (T ++ [initValT vis q p])) P.length := by
            rw [tableNames_append, hnv]
            have := tblRelB_snoc ht p.name
            simpa [tableNames] using this
          obtain ⟨st', tblS', e1, e2, e3, e4, e5⟩ := ph2B vis q hvis P ps _ _ _ T2 is2 hwf' hc3 ht3 hr
          refine ⟨st', tblS', ?_, e2, e3, ?_, ?_⟩
          · simp only [absT_eq] at e1 ⊢
            rw [e1, hnv]; rfl
          · rw [e4, hnew]; rfl
          · rw [e5, hnew]; rfl

/-! ## phase 3 with a prefix -/

theorem ph3B_declareOutputs (vis : List ValueInfoP) (q : List AnnotP) (hvis : vis.all wfVI = true) (P : List Cell) :
    ∀ (xs : List String) (T : List IRValue) (st : Scope.Store) (tblS : Scope.Table) (T' : List IRValue),
    CoreEq st (P ++ T.map absCell) → TblRelB tblS (tableNames T) P.length →
    Serde.declareOutputs vis q xs T = .ok T' →
    ∃ st' tblS', Scope.declareOutputs st tblS (Scope.vinfoTable (vis.map absVI)) xs = .ok (st', tblS') ∧
      CoreEq st' (P ++ T'.map absCell) ∧ TblRelB tblS' (tableNames T') P.length ∧ st'.nn = st.nn ∧ st'.ng = st.ng
  | [], T, st, tblS, T', hc, ht, h => by
    simp only [Serde.declareOutputs, Except.ok.injEq] at h
    subst h
    exact ⟨st, tblS, rfl, hc, ht, rfl, rfl⟩
  | x :: xs, T, st, tblS, T', hc, ht, h => by
    simp only [Serde.declareOutputs] at h
    simp only [Scope.declareOutputs]
    by_cases he : x = ""
    · simp only [he, if_true] at h ⊢
      exact ph3B_declareOutputs vis q hvis P xs T st tblS T' hc ht h
    · simp only [he, if_false] at h ⊢
      rw [tblRelB_lookup ht]
      cases hl : lookupLast (tableNames T) x with
      | some i => simp [hl] at h
      | none =>
        simp only [hl, newValue_eq vis q x hvis, bind, Except.bind] at h
        simp only [Option.map_none]
        have hnv : st.nv = P.length + T.length := by simpa using hc.nv
        have hc2 := coreEq_alloc hc { name := some x, info := ((findVI vis x).map absInfo).getD {} }
          (by intro t ht'; cases ht')
        have hc3 : CoreEq (Scope.newNamed st (Scope.vinfoTable (vis.map absVI)) x)
            (P ++ (T ++ [newValueT vis q x]).map absCell) := by
          rw [newNamed_eq, List.map_append, ← List.append_assoc]
          simpa [absCell_newValueT] using hc2
        have ht3 : TblRelB ((x, st.nv) :: tblS) (tableNames (T ++ [newValueT vis q x])) P.length := by
          rw [tableNames_append, hnv]
          have := tblRelB_snoc ht x
          simpa [tableNames] using this
        obtain ⟨st', tblS', e1, e2, e3, e4, e5⟩ := ph3B_declareOutputs vis q hvis P xs _ _ _ T' hc3 ht3 h
        refine ⟨st', tblS', e1, e2, e3, ?_, ?_⟩
        · rw [e4, newNamed_eq]; rfl
        · rw [e5, newNamed_eq]; rfl

theorem absNFull_outputs (n : NodeP) : (absNFull n).outputs = n.outputs := by
  cases n; simp [absNFull, Scope.NodeP.outputs, NodeP.outputs]

theorem absNsFull_cons (n : NodeP) (ns : List NodeP) : absNsFull (n :: ns) = absNFull n :: absNsFull ns := by
  simp [absNsFull]

theorem ph3B_declareAll (vis : List ValueInfoP) (q : List AnnotP) (hvis : vis.all wfVI = true) (P : List Cell) :
    ∀ (ns : List NodeP) (T : List IRValue) (st : Scope.Store) (tblS : Scope.Table) (T' : List IRValue),
    CoreEq st (P ++ T.map absCell) → TblRelB tblS (tableNames T) P.length →
    declareAll vis q ns T = .ok T' →
    ∃ st' tblS', Scope.declareNodes st tblS (Scope.vinfoTable (vis.map absVI)) (absNsFull ns) = .ok (st', tblS') ∧
      CoreEq st' (P ++ T'.map absCell) ∧ TblRelB tblS' (tableNames T') P.length ∧ st'.nn = st.nn ∧ st'.ng = st.ng
  | [], T, st, tblS, T', hc, ht, h => by
    simp only [declareAll, Except.ok.injEq] at h
    subst h
    exact ⟨st, tblS, by simp [absNsFull, Scope.declareNodes], hc, ht, rfl, rfl⟩
  | n :: ns, T, st, tblS, T', hc, ht, h => by
    simp only [declareAll, bind, Except.bind] at h
    split at h
    · cases h
    · rename_i T1 h1
      obtain ⟨st1, tbl1, a1, a2, a3, a4, a5⟩ := ph3B_declareOutputs vis q hvis P n.outputs T st tblS T1 hc ht h1
      obtain ⟨st2, tbl2, b1, b2, b3, b4, b5⟩ := ph3B_declareAll vis q hvis P ns T1 st1 tbl1 T' a2 a3 h
      refine ⟨st2, tbl2, ?_, b2, b3, by rw [b4, a4], by rw [b5, a5]⟩
      rw [absNsFull_cons]
      simp only [Scope.declareNodes]
      rw [absNFull_outputs, a1]
      exact b1

/-! ## phase 4 helpers -/

theorem sameCore_mkNode (st : Scope.Store) (ins : List (Option Nat)) (outs : List Nat) (gs : List Scope.GraphT) :
    SameCore st (Scope.mkNode st ins outs gs).1 := by
  have h1 := sameCore_setProducers st.nn outs 0 st
  have h2 := sameCore_addUses st.nn ins 0 (Scope.setProducers st st.nn 0 outs)
  have h := h1.trans h2
  exact ⟨h.nv, h.nt, h.tens, h.name, h.info, h.const⟩

theorem resolveInputs_res (st : Scope.Store) (top : Scope.Table) (outer : List Scope.Table)
    (vi : List (Scope.Name × Scope.Info)) :
    ∀ xs : List String, (∀ x ∈ xs, x ≠ "" → (Scope.resolve x (top :: outer)).isSome = true) →
    Scope.resolveInputs st top outer vi xs
      = (st, top, xs.map fun x => if x = "" then none else Scope.resolve x (top :: outer))
  | [], _ => rfl
  | x :: xs, h => by
    have ih := resolveInputs_res st top outer vi xs (fun y hy => h y (List.mem_cons_of_mem _ hy))
    simp only [Scope.resolveInputs, List.map_cons]
    by_cases he : x = ""
    · simp [he, ih]
    · have hb := h x (by simp) he
      cases hl : Scope.resolve x (top :: outer) with
      | none => rw [hl] at hb; cases hb
      | some v => simp [he, ih]

theorem absOuts_shift (b : Nat) : ∀ (os : List (Option Nat)) (k : Nat),
    absOuts k (os.map fun o => o.map (b + ·)) = absOutsB b k os
  | [], _ => rfl
  | some j :: r, k => by simp [absOuts, absOutsB, absOuts_shift b r k]
  | none :: r, k => by simp [absOuts, absOutsB, absOuts_shift b r (k + 1)]

theorem numNone_shift (b : Nat) : ∀ (os : List (Option Nat)),
    numNone (os.map fun o => o.map (b + ·)) = numNone os
  | [] => rfl
  | some j :: r => by simp [numNone, numNone_shift b r]
  | none :: r => by simp [numNone, numNone_shift b r]

/-! ## phase 5 with a prefix -/

theorem ph5B (tbl : Scope.Table) (P : List Cell) : ∀ (outs : List ValueInfoP) (T : List IRValue) (st : Scope.Store)
    (X : List Cell) (os : List IRGOut) (T' : List IRValue),
    CoreEq st (P ++ T.map absCell ++ X) → TblRelB tbl (tableNames T) P.length →
    desGraphOutputs outs T = .ok (os, T') →
    ∃ st', Scope.deserOutputs st tbl (outs.map absVI)
        = (st', absGOutsB P.length (P.length + T.length + X.length) os) ∧
      CoreEq st' (P ++ T'.map absCell ++ X ++ dangCells os) ∧ tableNames T' = tableNames T ∧
      st'.nn = st.nn ∧ st'.ng = st.ng
  | [], T, st, X, os, T', hc, _, h => by
    simp only [desGraphOutputs, Except.ok.injEq, Prod.mk.injEq] at h
    obtain ⟨rfl, rfl⟩ := h
    exact ⟨st, rfl, by simpa [dangCells] using hc, rfl, rfl, rfl⟩
  | vi :: outs, T, st, X, os, T', hc, ht, h => by
    simp only [desGraphOutputs] at h
    simp only [List.map_cons, Scope.deserOutputs]
    have hnm : (absVI vi).name = vi.name := rfl
    rw [hnm, tblRelB_lookup ht]
    cases hl : lookupLast (tableNames T) vi.name with
    | some i =>
      simp only [hl, bind, Except.bind] at h
      simp only [Option.map_some]
      have hi : i < T.length := by simpa [tableNames] using lookupLast_lt hl
      split at h
      · cases h
      · rename_i v' hv'
        have hv := applyInfo_ok_eq hv'
        subst hv
        split at h
        · cases h
        · rename_i r hr
          obtain ⟨os2, T2⟩ := r
          simp only [Except.ok.injEq, Prod.mk.injEq] at h
          obtain ⟨rfl, rfl⟩ := h
          rw [listSet_eq_map] at hr
          have hcell := hc.cells (P.length + i) (by simp; omega)
          rw [getD_PT P T X i hi] at hcell
          have hc2 := coreEq_modify hc (P.length + i) (fun c => { c with info := absInfo vi })
            (by intro t ht'; exact hc.tens (P.length + i) t ht')
          have hc3 : CoreEq (st.modify (P.length + i) fun c => { c with info := absInfo vi })
              (P ++ (T.set i (applyInfoT (T.getD i (IRValue.blank "")) vi)).map absCell ++ X) := by
            rw [List.map_set, absCell_applyInfoT]
            have : (P ++ T.map absCell ++ X).set (P.length + i)
                  ⟨(st.vals (P.length + i)).name, absInfo vi, (st.vals (P.length + i)).const.map st.tens⟩
                = P ++ (T.map absCell).set i
                  ⟨(st.vals (P.length + i)).name, absInfo vi, (st.vals (P.length + i)).const.map st.tens⟩ ++ X := by
              rw [List.append_assoc, set_append_add, List.set_append_left _ _ (by simpa using hi), List.append_assoc]
            simp only [cellAt, absCell, Cell.mk.injEq] at hcell
            rw [← hcell.1, ← hcell.2.2, ← this]
            exact hc2
          have hT : tableNames (T.set i (applyInfoT (T.getD i (IRValue.blank "")) vi)) = tableNames T :=
            tableNames_set T i _ rfl hi
          obtain ⟨st', e1, e2, e3, e4, e5⟩ := ph5B tbl P outs _ _ X os2 T2 hc3 (by rw [hT]; exact ht) hr
          refine ⟨st', ?_, ?_, e3.trans hT, e4, e5⟩
          · simp only [List.length_set] at e1
            simp only [absVI] at e1 ⊢
            rw [e1]; rfl
          · simpa [dangCells] using e2
    | none =>
      simp only [hl, bind, Except.bind] at h
      simp only [Option.map_none]
      split at h
      · cases h
      · rename_i v' hv'
        have hv := applyInfo_ok_eq hv'
        subst hv
        split at h
        · cases h
        · rename_i r hr
          obtain ⟨os2, T2⟩ := r
          simp only [Except.ok.injEq, Prod.mk.injEq] at h
          obtain ⟨rfl, rfl⟩ := h
          have hc2 := coreEq_alloc hc { name := some vi.name, info := absInfo vi } (by intro t ht'; cases ht')
          have hc3 : CoreEq (st.alloc { name := some vi.name, info := absInfo vi }).1
              (P ++ T.map absCell ++ (X ++ [absCell (applyInfoT (IRValue.blank vi.name) vi)])) := by
            rw [← List.append_assoc]
            simpa [absCell_applyInfoT, IRValue.blank] using hc2
          obtain ⟨st', e1, e2, e3, e4, e5⟩ := ph5B tbl P outs T _ _ os2 T2 hc3 ht hr
          have hnv : st.nv = P.length + T.length + X.length := by simpa [Nat.add_assoc] using hc.nv
          refine ⟨st', ?_, ?_, e3, by rw [e4]; rfl, by rw [e5]; rfl⟩
          · simp only [absVI] at e1 ⊢
            rw [e1]
            simp [absGOutsB, Scope.Store.alloc, hnv, Nat.add_assoc]
          · simpa [dangCells, List.append_assoc] using e2

/-! ## nested graphs of a node -/

theorem deserSubs_append (sc : List Scope.Table) : ∀ (a b : List Scope.GraphP) (st st1 st2 : Scope.Store)
    (g1 g2 : List Scope.GraphT),
    Scope.deserSubs st sc a = .ok (st1, g1) → Scope.deserSubs st1 sc b = .ok (st2, g2) →
    Scope.deserSubs st sc (a ++ b) = .ok (st2, g1 ++ g2)
  | [], b, st, st1, st2, g1, g2, h1, h2 => by
    simp only [Scope.deserSubs, Except.ok.injEq, Prod.mk.injEq] at h1
    obtain ⟨rfl, rfl⟩ := h1
    simpa using h2
  | x :: a, b, st, st1, st2, g1, g2, h1, h2 => by
    simp only [Scope.deserSubs, List.cons_append] at h1 ⊢
    split at h1
    · cases h1
    · rename_i sx gx hx
      split at h1
      · cases h1
      · rename_i sa ga ha
        simp only [Except.ok.injEq, Prod.mk.injEq] at h1
        obtain ⟨rfl, rfl⟩ := h1
        simp only [deserSubs_append sc a b sx sa st2 ga g2 ha h2, List.cons_append]

end IrVerif.Bridge

/-
C18: the decidable checkers of Model/Extract.lean imply the hypotheses of the theorems (so the share of
generated cases on which the driver reports `true` is the share on which the theorems apply).
-/
import IrVerif.Lemmas.ExtractSem
namespace IrVerif.Extract

theorem val_out_of_range {W : World} {v : VId} (h : W.vals.length ≤ v) : W.val v = {} := by
  unfold World.val
  simp [List.getD, List.getElem?_eq_none h]

theorem graphOf_out_of_range {W : World} {v : VId} (h : W.vals.length ≤ v) : W.graphOf v = none := by
  unfold World.graphOf; rw [val_out_of_range h]

theorem prod_out_of_range {W : World} {v : VId} (h : W.vals.length ≤ v) : W.prod v = none := by
  unfold World.prod; rw [val_out_of_range h]

theorem isInit_out_of_range {W : World} {v : VId} (h : W.vals.length ≤ v) : W.isInit v = false := by
  unfold World.isInit; rw [val_out_of_range h]

theorem bodiesOK_of_B {W : World} {p : GId} {n : NId} (h : bodiesOKB W p n = true) : BodiesOK W p n :=
  bodiesOKB_sound h (fun _ hv => graphOf_out_of_range hv)

theorem nodup_of_B : ∀ {l : List Nat}, nodupB l = true → l.Nodup
  | [], _ => List.nodup_nil
  | a :: t, h => by
    rw [nodupB, Bool.and_eq_true] at h
    exact List.nodup_cons.mpr ⟨by simpa using h.1, nodup_of_B h.2⟩

theorem topoSorted_of_B {W : World} {p : GId} : ∀ {g : List NId}, topoSortedB W p g = true → TopoSorted W p g
  | [], _ => trivial
  | n :: rest, h => by
    rw [topoSortedB, Bool.and_eq_true] at h
    refine ⟨?_, topoSorted_of_B h.2⟩
    intro u hu m hm
    have hu' : u ∈ neededBy W p n := by
      unfold neededBy; rw [List.mem_append]; exact needs_iff.mp hu
    have := List.all_eq_true.mp (List.all_eq_true.mp h.1 u hu') m hm
    simpa using this

theorem sourceOK_of_B {W : World} {p : GId} {g : List NId} (h : sourceOKB W p g = true) :
    SourceOK W p g ∧ (∀ u, W.isInit u = true → NotProducedIn W g u) := by
  unfold sourceOKB at h
  simp only [Bool.and_eq_true] at h
  obtain ⟨⟨⟨⟨h1, h2⟩, h3⟩, h4⟩, h5⟩ := h
  refine ⟨⟨nodup_of_B h1, ?_, ?_, topoSorted_of_B h5⟩, ?_⟩
  · intro n hn o ho
    have := List.all_eq_true.mp (List.all_eq_true.mp h2 n hn) o ho
    simpa using this
  · intro v n hp
    by_cases hv : v < W.vals.length
    · have := List.all_eq_true.mp h3 v (List.mem_range.mpr hv)
      rw [hp] at this
      simpa using this
    · rw [prod_out_of_range (Nat.le_of_not_lt hv)] at hp; cases hp
  · intro u hu m hm
    by_cases hv : u < W.vals.length
    · have := List.all_eq_true.mp h4 u (List.mem_range.mpr hv)
      rw [hu] at this
      simp only [Bool.not_true, Bool.false_or] at this
      have := List.all_eq_true.mp this m hm
      simpa using this
    · rw [isInit_out_of_range (Nat.le_of_not_lt hv)] at hu; cases hu

end IrVerif.Extract

import IrVerif.Lemmas.SerdeAlone
/-!
C02 — field-by-field preservation, in the vocabulary of the property ("no node, attribute, value,
initializer, annotation, metadata, type, shape, denotation, function or opset import is lost or
altered"), derived from `model_rt` (`C02_model`).

The statements below do not mention `norm*`.  The documented normalisations appear by name:
`normDomain` (node domain "ai.onnx" = ""), `trimTrailingEmpty` (trailing unnamed node outputs),
`List.Perm` (the entries of a string-string map may be reordered), `mergeVI` (one Value carries one
entry: pass-through input/output), `fillFromTensor` (the value_info of an initializer is completed
from its tensor).
-/
namespace IrVerif.Serde
open IrVerif.Proto

/-! ## vocabulary -/

def emptyGraphP : GraphP := .mk "" "" [] [] [] [] [] [] []

/-- an attribute without the tensors / subgraphs it carries (those are compared by `TensorKeeps`
and `GraphKeeps`): name, doc string, kind, and the complete value of every other kind -/
def attrSig : AttrP → AttrP
  | .tensor n d _ => .tensor n d emptyTensorP
  | .tensors n d ts => .tensors n d (ts.map fun _ => emptyTensorP)
  | .graph n d _ => .graph n d emptyGraphP
  | .graphs n d gs => .graphs n d (List.replicate gs.length emptyGraphP)
  | a => a

def attrTensors : AttrP → List TensorP
  | .tensor _ _ t => [t]
  | .tensors _ _ ts => ts
  | _ => []

/-- every field of a TensorProto except the two string-string maps -/
def tensorCore (t : TensorP) : TensorP := { t with metadata := [], externalData := [] }

/-- a tensor is kept: name, doc string, element type, dims, data location and every payload field
(raw_data, float_data, int32_data, string_data, int64_data, double_data, uint64_data) are equal;
the metadata entries and the external_data entries are the same entries, possibly reordered -/
def TensorKeeps (t' t : TensorP) : Prop :=
  tensorCore t' = tensorCore t ∧ t'.metadata.Perm t.metadata ∧ t'.externalData.Perm t.externalData

/-- what a node says itself (documented normalisations: `normDomain`, `trimTrailingEmpty`) -/
structure NodeCore where
  name : String
  opType : String
  domain : String
  overload : String
  doc : String
  inputs : List String
  outputs : List String
  attrs : List AttrP
  devcfgs : List NodeDevCfgP

def nodeCore (n : NodeP) : NodeCore :=
  { name := n.name, opType := n.opType, domain := normDomain n.domain, overload := n.overload,
    doc := n.doc, inputs := n.inputs, outputs := trimTrailingEmpty n.outputs,
    attrs := n.attrs.map attrSig, devcfgs := n.devcfgs }

/-- a node is kept: name, operator identifier (domain, op type, overload), doc string, input and
output names, the attribute list (names, kinds, values), the multi-device configurations are
equal; the metadata entries are the same entries; every tensor in its attributes is kept -/
def NodeKeeps (n' n : NodeP) : Prop :=
  nodeCore n' = nodeCore n ∧ n'.metadata.Perm n.metadata ∧
    Pointwise TensorKeeps (n'.attrs.flatMap attrTensors) (n.attrs.flatMap attrTensors)

/-- a value entry is kept: name, type (element type, shape, denotations at every level), doc string
are equal; the metadata entries are the same entries -/
def VIKeeps (v' v : ValueInfoP) : Prop :=
  v'.name = v.name ∧ v'.type = v.type ∧ v'.doc = v.doc ∧ v'.metadata.Perm v.metadata

/-- a graph input entry is kept — unless the value is also a graph output (pass-through): one Value
carries one entry, and then the input entry reads `mergeVI input output` -/
def InputKeeps (outputs : List ValueInfoP) (v' v : ValueInfoP) : Prop :=
  match findVI outputs v.name with
  | some vo => v' = mergeVI v vo
  | none => VIKeeps v' v

/-- a graph output entry keeps its name, type and doc string always; its metadata entries are the
same entries — for a pass-through value, those of `mergeVI input output` -/
def OutputKeeps (inputs : List ValueInfoP) (v' v : ValueInfoP) : Prop :=
  v'.name = v.name ∧ v'.type = v.type ∧ v'.doc = v.doc ∧
    match findVI inputs v.name with
    | some vi => v'.metadata = (mergeVI vi v).metadata
    | none => v'.metadata.Perm v.metadata

/-- a graph is kept (its nodes and subgraphs are compared by `NodeKeeps` / `GraphKeeps` on
`graphNodes` / `graphGraphs`): name, doc string, metadata; every initializer; every input and
output entry; the value_info of every intermediate value that carries information; the value_info
of every initializer, completed from the tensor (`fillFromTensor`: type / shape where the entry says
nothing); every quantization annotation (the list is a map keyed by tensor name) -/
def GraphKeeps (g' g : GraphP) : Prop :=
  g'.name = g.name ∧ g'.doc = g.doc ∧ g'.metadata.Perm g.metadata ∧
  Pointwise TensorKeeps g'.initializers g.initializers ∧
  Pointwise (InputKeeps g.outputs) g'.inputs g.inputs ∧
  Pointwise (OutputKeeps g.inputs) g'.outputs g.outputs ∧
  (∀ vi ∈ g.valueInfo, viHasInfo vi = true → vi.name ∈ nodeOutNames g.nodes →
    ∃ v' ∈ g'.valueInfo, VIKeeps v' vi) ∧
  (∀ vi ∈ g.valueInfo, ∀ t ∈ g.initializers, t.name = vi.name →
    ∃ v' ∈ g'.valueInfo, VIKeeps v' (fillFromTensor vi t)) ∧
  (g'.quant.length = g.quant.length ∧
    ∀ a ∈ g.quant, ∃ a' ∈ g'.quant, a'.tensorName = a.tensorName ∧ a'.params.Perm a.params)

mutual
/-- every node, in order of appearance, nested subgraphs (any depth) included -/
def attrNodes : AttrP → List NodeP
  | .graph _ _ g => graphNodes g
  | .graphs _ _ gs => graphsNodes gs
  | _ => []
def graphsNodes : List GraphP → List NodeP
  | [] => []
  | g :: gs => graphNodes g ++ graphsNodes gs
def attrsNodes : List AttrP → List NodeP
  | [] => []
  | a :: as => attrNodes a ++ attrsNodes as
def nodeNodes : NodeP → List NodeP
  | .mk i o n t d ov doc attrs md dc => .mk i o n t d ov doc attrs md dc :: attrsNodes attrs
def nodesNodes : List NodeP → List NodeP
  | [] => []
  | n :: ns => nodeNodes n ++ nodesNodes ns
def graphNodes : GraphP → List NodeP
  | .mk _ _ nodes .. => nodesNodes nodes
end

mutual
/-- every graph, the graph itself first, then the subgraphs of its nodes (any depth) -/
def attrGraphs : AttrP → List GraphP
  | .graph _ _ g => graphGraphs g
  | .graphs _ _ gs => graphsGraphs gs
  | _ => []
def graphsGraphs : List GraphP → List GraphP
  | [] => []
  | g :: gs => graphGraphs g ++ graphsGraphs gs
def attrsGraphs : List AttrP → List GraphP
  | [] => []
  | a :: as => attrGraphs a ++ attrsGraphs as
def nodeGraphs : NodeP → List GraphP
  | .mk _ _ _ _ _ _ _ attrs _ _ => attrsGraphs attrs
def nodesGraphs : List NodeP → List GraphP
  | [] => []
  | n :: ns => nodeGraphs n ++ nodesGraphs ns
def graphGraphs : GraphP → List GraphP
  | .mk n d nodes i ins outs vi q m => .mk n d nodes i ins outs vi q m :: nodesGraphs nodes
end

/-- a function is kept: identifier (domain, name, overload), doc string, input / output names,
attribute declarations and defaults, opset imports are equal; the metadata entries are the same
entries; the value_info of every value that carries information is kept (its nodes are compared by
`NodeKeeps` on `modelNodes`) -/
def FnKeeps (f' f : FunctionP) : Prop :=
  f'.name = f.name ∧ f'.domain = f.domain ∧ f'.overload = f.overload ∧ f'.doc = f.doc ∧
  f'.inputs = f.inputs ∧ f'.outputs = f.outputs ∧ f'.attrNames = f.attrNames ∧
  f'.opsetImport = f.opsetImport ∧
  f'.attrProtos.map attrSig = f.attrProtos.map attrSig ∧
  Pointwise TensorKeeps (f'.attrProtos.flatMap attrTensors) (f.attrProtos.flatMap attrTensors) ∧
  f'.metadata.Perm f.metadata ∧
  (∀ vi ∈ f.valueInfo, viHasInfo vi = true → ∃ v' ∈ f'.valueInfo, VIKeeps v' vi)

/-- every node of a model: main graph, function bodies, default attribute values of functions,
all nested subgraphs -/
def modelNodes (m : ModelP) : List NodeP :=
  graphNodes m.graph ++ m.functions.flatMap fun f => nodesNodes f.nodes ++ attrsNodes f.attrProtos

/-- every graph of a model: the main graph, then every subgraph (any depth) of the main graph, of
the function bodies and of the functions' default attribute values -/
def modelGraphs (m : ModelP) : List GraphP :=
  graphGraphs m.graph ++ m.functions.flatMap fun f => nodesGraphs f.nodes ++ attrsGraphs f.attrProtos

/-- the model-level fields are kept; below IR version 10, where the value_info of function values
lives in the main graph under `domain::name/value` names (experimental encoding), every such entry
that addresses a value of an overload-free function and carries information is kept -/
def ModelKeeps (m' m : ModelP) : Prop :=
  m'.irVersion = m.irVersion ∧ m'.producerName = m.producerName ∧
  m'.producerVersion = m.producerVersion ∧ m'.domain = m.domain ∧ m'.modelVersion = m.modelVersion ∧
  m'.doc = m.doc ∧ m'.opsetImport = m.opsetImport ∧ m'.configuration = m.configuration ∧
  m'.metadata.Perm m.metadata ∧
  Pointwise FnKeeps m'.functions m.functions ∧
  (m.irVersion < 10 → ∀ f ∈ m.functions, f.overload = "" →
    ∀ e ∈ m.graph.valueInfo, ∀ v ∈ f.inputs ++ nodeOutNames f.nodes,
      parseExperimentalName e.name = some (f.domain, f.name, v) → viHasInfo e = true →
      ∃ e' ∈ m'.graph.valueInfo, VIKeeps e' e)

/-! ## generic lemmas -/

theorem Pointwise.append {α β : Type} {R : α → β → Prop} {a c : List α} {b d : List β}
    (h1 : Pointwise R a b) (h2 : Pointwise R c d) : Pointwise R (a ++ c) (b ++ d) := by
  induction h1 with
  | nil => exact h2
  | cons h _ ih => exact Pointwise.cons h ih

theorem pointwise_map_left {α : Type} {R : α → α → Prop} (f : α → α) :
    ∀ l : List α, (∀ a ∈ l, R (f a) a) → Pointwise R (l.map f) l
  | [], _ => Pointwise.nil
  | a :: as, h => Pointwise.cons (h a (by simp))
      (pointwise_map_left f as (fun b hb => h b (List.mem_cons_of_mem _ hb)))

theorem Pointwise.imp {α β : Type} {R S : α → β → Prop} (hRS : ∀ a b, R a b → S a b) {l : List α}
    {r : List β} (h : Pointwise R l r) : Pointwise S l r := by
  induction h with
  | nil => exact Pointwise.nil
  | cons h _ ih => exact Pointwise.cons (hRS _ _ h) ih

/-! ## tensors -/

theorem perm_normExternal {es : List Entry} (hnd : wfEntries es = true)
    (hk : es.all (fun e => ["location", "offset", "length", "checksum"].contains e.key) = true) :
    (normExternal es).Perm es := by
  have hkeys := nodupStr_iff.1 hnd
  have hsub : ∀ ks : List String,
      ((ks.filterMap fun k => es.find? (·.key = k)).map (·.key)).Sublist ks := by
    intro ks
    induction ks with
    | nil => exact List.Sublist.slnil
    | cons k ks ih =>
      simp only [List.filterMap_cons]
      cases h : es.find? (·.key = k) with
      | none => exact List.Sublist.cons _ ih
      | some e =>
        have : e.key = k := by simpa using List.find?_some h
        simp only [List.map_cons, this]
        exact List.Sublist.cons₂ _ ih
  rw [List.perm_ext_iff_of_nodup]
  · intro e
    unfold normExternal
    simp only [List.mem_filterMap]
    constructor
    · rintro ⟨k, _, h⟩
      exact List.mem_of_find?_eq_some h
    · intro he
      refine ⟨e.key, ?_, ?_⟩
      · have := List.all_eq_true.1 hk e he
        simpa using this
      · exact find?_of_nodup (fun x : Entry => x.key) hkeys he
  · exact nodup_of_map (·.key) (List.Nodup.sublist (hsub _) (by decide))
  · exact nodup_of_map (·.key) hkeys

theorem tensorKeeps_norm (t : TensorP) (h : wfTensor t = true) : TensorKeeps (normTensor t) t := by
  simp only [wfTensor, Bool.and_eq_true] at h
  refine ⟨rfl, perm_normEntries h.1, ?_⟩
  simp only [normTensor]
  by_cases hl : t.dataLocation = 1
  · simp only [hl, if_true] at h ⊢
    simp only [Bool.and_eq_true] at h
    exact perm_normExternal h.2.1.1.1.2 h.2.1.1.2
  · simp only [hl, if_false]
    exact List.Perm.refl _

theorem tensorsKeep_norm : ∀ ts : List TensorP, ts.all wfTensor = true →
    Pointwise TensorKeeps (ts.map normTensor) ts := by
  intro ts h
  exact pointwise_map_left normTensor ts (fun t ht => tensorKeeps_norm t (List.all_eq_true.1 h t ht))

/-! ## nodes -/

theorem length_normGraphs : ∀ gs : List GraphP, (normGraphs gs).length = gs.length
  | [] => rfl
  | g :: gs => by simp [normGraphs, length_normGraphs gs]

theorem attrSig_norm (a : AttrP) : attrSig (normAttr a) = attrSig a := by
  cases a <;> simp [normAttr, attrSig, length_normGraphs, List.map_map, Function.comp_def]

theorem attrsSig_norm : ∀ as : List AttrP, (normAttrs as).map attrSig = as.map attrSig
  | [] => rfl
  | a :: as => by simp [normAttrs, attrSig_norm a, attrsSig_norm as]

theorem attrTensors_norm (a : AttrP) : attrTensors (normAttr a) = (attrTensors a).map normTensor := by
  cases a <;> simp [normAttr, attrTensors]

theorem attrsTensors_norm : ∀ as : List AttrP,
    (normAttrs as).flatMap attrTensors = (as.flatMap attrTensors).map normTensor
  | [] => rfl
  | a :: as => by
    simp [normAttrs, List.flatMap_cons, attrTensors_norm a, attrsTensors_norm as]

theorem wfAttrs_tensors (scopes : Scopes) : ∀ as : List AttrP, wfAttrs scopes as = true →
    (as.flatMap attrTensors).all wfTensor = true
  | [], _ => rfl
  | a :: as, h => by
    simp only [wfAttrs, Bool.and_eq_true] at h
    have ih := wfAttrs_tensors scopes as h.2
    have ha : (attrTensors a).all wfTensor = true := by
      cases a <;> simp_all [attrTensors, wfAttr]
    simp only [List.flatMap_cons, List.all_append, ha, ih, Bool.and_self]

theorem nodeKeeps_norm (scopes : Scopes) (n : NodeP) (h : wfNode scopes n = true) :
    NodeKeeps (normNode n) n := by
  cases n with
  | mk inputs outputs name opType domain overload doc attrs metadata devcfgs =>
    simp only [wfNode, Bool.and_eq_true] at h
    refine ⟨?_, ?_, ?_⟩
    · simp [nodeCore, normNode, NodeP.name, NodeP.opType, NodeP.domain, NodeP.overload, NodeP.doc,
        NodeP.inputs, NodeP.outputs, NodeP.attrs, NodeP.devcfgs, normDomain_idem,
        trimTrailingEmpty_idem, attrsSig_norm]
    · simp only [normNode, NodeP.metadata]
      exact perm_normEntries h.1.2
    · simp only [normNode, NodeP.attrs, attrsTensors_norm]
      exact tensorsKeep_norm _ (wfAttrs_tensors scopes attrs h.1.1.2)

mutual
theorem attrNodes_keep (scopes : Scopes) : ∀ a : AttrP, wfAttr scopes a = true →
    Pointwise NodeKeeps (attrNodes (normAttr a)) (attrNodes a)
  | .graph n d g, h => by
    simp only [wfAttr] at h
    simpa [normAttr, attrNodes] using graphNodes_keep scopes g h
  | .graphs n d gs, h => by
    simp only [wfAttr] at h
    simpa [normAttr, attrNodes] using graphsNodes_keep scopes gs h
  | .tensor .., _ | .tensors .., _ | .ref .., _ | .int .., _ | .float .., _ | .string .., _
  | .ints .., _ | .floats .., _ | .strings .., _ | .typeProto .., _ | .typeProtos .., _
  | .undefined .., _ | .sparse .., _ | .unknown .., _ => by
    simp only [normAttr, attrNodes]; exact Pointwise.nil

theorem graphsNodes_keep (scopes : Scopes) : ∀ gs : List GraphP, wfGraphs scopes gs = true →
    Pointwise NodeKeeps (graphsNodes (normGraphs gs)) (graphsNodes gs)
  | [], _ => Pointwise.nil
  | g :: gs, h => by
    simp only [wfGraphs, Bool.and_eq_true] at h
    simp only [normGraphs, graphsNodes]
    exact (graphNodes_keep scopes g h.1).append (graphsNodes_keep scopes gs h.2)

theorem attrsNodes_keep (scopes : Scopes) : ∀ as : List AttrP, wfAttrs scopes as = true →
    Pointwise NodeKeeps (attrsNodes (normAttrs as)) (attrsNodes as)
  | [], _ => Pointwise.nil
  | a :: as, h => by
    simp only [wfAttrs, Bool.and_eq_true] at h
    simp only [normAttrs, attrsNodes]
    exact (attrNodes_keep scopes a h.1).append (attrsNodes_keep scopes as h.2)

theorem nodeNodes_keep (scopes : Scopes) : ∀ n : NodeP, wfNode scopes n = true →
    Pointwise NodeKeeps (nodeNodes (normNode n)) (nodeNodes n)
  | .mk inputs outputs name opType domain overload doc attrs metadata devcfgs, h => by
    have hk := nodeKeeps_norm scopes _ h
    simp only [wfNode, Bool.and_eq_true] at h
    simp only [normNode, nodeNodes] at hk ⊢
    exact Pointwise.cons hk (attrsNodes_keep scopes attrs h.1.1.2)

theorem nodesNodes_keep (scopes : Scopes) : ∀ ns : List NodeP, wfNodes scopes ns = true →
    Pointwise NodeKeeps (nodesNodes (normNodes ns)) (nodesNodes ns)
  | [], _ => Pointwise.nil
  | n :: ns, h => by
    simp only [wfNodes, Bool.and_eq_true] at h
    simp only [normNodes, nodesNodes]
    exact (nodeNodes_keep scopes n h.1).append (nodesNodes_keep scopes ns h.2)

theorem graphNodes_keep (outer : Scopes) : ∀ g : GraphP, wfGraph outer g = true →
    Pointwise NodeKeeps (graphNodes (normGraph g)) (graphNodes g)
  | .mk name doc nodes inits inputs outputs vis quant md, h => by
    obtain ⟨_, hn⟩ := graphWF_of_wf outer name doc nodes inits inputs outputs vis quant md h
    simp only [normGraph, graphNodes]
    exact nodesNodes_keep _ nodes hn
end

/-! ## graphs -/

theorem viKeeps_norm (vi : ValueInfoP) (h : wfVI vi = true) : VIKeeps (normValueInfo vi) vi := by
  simp only [wfVI, Bool.and_eq_true] at h
  exact ⟨rfl, rfl, rfl, perm_normEntries h.2⟩

theorem mem_normNodeVIs (vis : List ValueInfoP) (outN : List String) {vi : ValueInfoP} {n : String}
    (hf : findVI vis n = some vi) (hi : viHasInfo vi = true) (hno : n ∉ outN) :
    ∀ outs : List String, n ∈ outs → normValueInfo vi ∈ normNodeVIs vis outN outs := by
  intro outs hn
  rw [normNodeVIs_eq, List.mem_filterMap]
  exact ⟨n, List.mem_filter.2 ⟨hn, by simpa using hno⟩, by simp [nodeEntry, hf, hi]⟩

theorem mem_normInitVIs (vis outputs : List ValueInfoP) (inN : List String) {vi : ValueInfoP}
    {t : TensorP} (hf : findVI vis t.name = some vi) (hno : findVI outputs t.name = none)
    (hni : t.name ∉ inN) :
    ∀ ts : List TensorP, t ∈ ts → normValueInfo (fillFromTensor vi t) ∈ normInitVIs vis outputs inN ts := by
  intro ts ht
  rw [normInitVIs_eq, List.mem_filterMap]
  exact ⟨t, List.mem_filter.2 ⟨ht, by simpa using hni⟩, by simp [initEntryO, initEntry, hf, hno]⟩

theorem graphKeeps_norm (outer : Scopes) : ∀ g : GraphP, wfGraph outer g = true →
    GraphKeeps (normGraph g) g
  | .mk name doc nodes inits inputs outputs vis quant md, h => by
    have hq := normGraph_quant outer _ h
    obtain ⟨hw, _⟩ := graphWF_of_wf outer name doc nodes inits inputs outputs vis quant md h
    have hmd : wfEntries md = true := by
      simp only [wfGraph, Bool.and_eq_true] at h
      exact h.1.2
    simp only [normGraph, GraphP.quant] at hq
    refine ⟨rfl, rfl, ?_, ?_, ?_, ?_, ?_, ?_, ?_, ?_⟩
    · exact perm_normEntries hmd
    · simp only [normGraph, GraphP.initializers]
      apply tensorsKeep_norm
      rw [List.all_eq_true]
      intro t ht
      have := List.all_eq_true.1 hw.wfInit t ht
      simp only [Bool.and_eq_true] at this
      exact this.1
    · simp only [normGraph, GraphP.inputs, GraphP.outputs]
      apply pointwise_map_left
      intro vi hvi
      unfold InputKeeps normInputVI
      cases findVI outputs vi.name with
      | some vo => rfl
      | none => exact viKeeps_norm vi (List.all_eq_true.1 hw.wfIn vi hvi)
    · simp only [normGraph, GraphP.inputs, GraphP.outputs]
      apply pointwise_map_left
      intro vo hvo
      unfold OutputKeeps normOutputVI
      cases findVI inputs vo.name with
      | some vi => exact ⟨rfl, rfl, rfl, rfl⟩
      | none =>
        obtain ⟨a, b, c, d⟩ := viKeeps_norm vo (List.all_eq_true.1 hw.wfOut vo hvo)
        exact ⟨a, b, c, d⟩
    · intro vi hvi hinfo hname
      simp only [GraphP.valueInfo, GraphP.nodes] at hvi hname
      have hf : findVI vis vi.name = some vi := findVI_of_mem hw.nodupVis hvi
      refine ⟨normValueInfo vi, ?_, viKeeps_norm vi (List.all_eq_true.1 hw.wfVis vi hvi)⟩
      simp only [normGraph, GraphP.valueInfo]
      exact List.mem_append_right _ (mem_normNodeVIs vis _ hf hinfo (hw.visNotIO vi hvi).2 _ hname)
    · intro vi hvi t ht hn
      simp only [GraphP.valueInfo, GraphP.initializers] at hvi ht
      have hf : findVI vis t.name = some vi := by rw [hn]; exact findVI_of_mem hw.nodupVis hvi
      have hno := hw.visNotIO vi hvi
      refine ⟨normValueInfo (fillFromTensor vi t), ?_, ?_⟩
      · simp only [normGraph, GraphP.valueInfo]
        exact List.mem_append_left _ (mem_normInitVIs vis outputs _ hf
          (findVI_none_iff.2 (by rw [hn]; exact hno.2)) (by rw [hn]; exact hno.1) _ ht)
      · have hwf := List.all_eq_true.1 hw.wfVis vi hvi
        simp only [wfVI, Bool.and_eq_true] at hwf
        exact ⟨rfl, rfl, rfl, perm_normEntries hwf.2⟩
    · simp only [normGraph, GraphP.quant]
      simpa using hq.length_eq
    · intro a ha
      simp only [GraphP.quant] at ha
      refine ⟨normAnnot a, ?_, rfl, perm_normEntries (hw.quantOK a ha).2.2⟩
      simp only [normGraph, GraphP.quant]
      exact hq.mem_iff.2 (List.mem_map_of_mem ha)

theorem graphKeeps_addValueInfo {g' g : GraphP} (h : GraphKeeps g' g) (X : List ValueInfoP) :
    GraphKeeps (GraphP.addValueInfo g' X) g := by
  cases g' with
  | mk n d ns i ins outs vi q m =>
    obtain ⟨h1, h2, h3, h4, h5, h6, h7, h8, h9⟩ := h
    refine ⟨h1, h2, h3, h4, h5, h6, ?_, ?_, h9⟩
    · intro v hv hi hn
      obtain ⟨v', hv', hk⟩ := h7 v hv hi hn
      exact ⟨v', by simp only [GraphP.addValueInfo, GraphP.valueInfo] at hv' ⊢; exact List.mem_append_left _ hv', hk⟩
    · intro v hv t ht hn
      obtain ⟨v', hv', hk⟩ := h8 v hv t ht hn
      exact ⟨v', by simp only [GraphP.addValueInfo, GraphP.valueInfo] at hv' ⊢; exact List.mem_append_left _ hv', hk⟩

mutual
theorem attrGraphs_keep (scopes : Scopes) : ∀ a : AttrP, wfAttr scopes a = true →
    Pointwise GraphKeeps (attrGraphs (normAttr a)) (attrGraphs a)
  | .graph n d g, h => by
    simp only [wfAttr] at h
    simpa [normAttr, attrGraphs] using graphGraphs_keep scopes g h
  | .graphs n d gs, h => by
    simp only [wfAttr] at h
    simpa [normAttr, attrGraphs] using graphsGraphs_keep scopes gs h
  | .tensor .., _ | .tensors .., _ | .ref .., _ | .int .., _ | .float .., _ | .string .., _
  | .ints .., _ | .floats .., _ | .strings .., _ | .typeProto .., _ | .typeProtos .., _
  | .undefined .., _ | .sparse .., _ | .unknown .., _ => by
    simp only [normAttr, attrGraphs]; exact Pointwise.nil

theorem graphsGraphs_keep (scopes : Scopes) : ∀ gs : List GraphP, wfGraphs scopes gs = true →
    Pointwise GraphKeeps (graphsGraphs (normGraphs gs)) (graphsGraphs gs)
  | [], _ => Pointwise.nil
  | g :: gs, h => by
    simp only [wfGraphs, Bool.and_eq_true] at h
    simp only [normGraphs, graphsGraphs]
    exact (graphGraphs_keep scopes g h.1).append (graphsGraphs_keep scopes gs h.2)

theorem attrsGraphs_keep (scopes : Scopes) : ∀ as : List AttrP, wfAttrs scopes as = true →
    Pointwise GraphKeeps (attrsGraphs (normAttrs as)) (attrsGraphs as)
  | [], _ => Pointwise.nil
  | a :: as, h => by
    simp only [wfAttrs, Bool.and_eq_true] at h
    simp only [normAttrs, attrsGraphs]
    exact (attrGraphs_keep scopes a h.1).append (attrsGraphs_keep scopes as h.2)

theorem nodeGraphs_keep (scopes : Scopes) : ∀ n : NodeP, wfNode scopes n = true →
    Pointwise GraphKeeps (nodeGraphs (normNode n)) (nodeGraphs n)
  | .mk inputs outputs name opType domain overload doc attrs metadata devcfgs, h => by
    simp only [wfNode, Bool.and_eq_true] at h
    simp only [normNode, nodeGraphs]
    exact attrsGraphs_keep scopes attrs h.1.1.2

theorem nodesGraphs_keep (scopes : Scopes) : ∀ ns : List NodeP, wfNodes scopes ns = true →
    Pointwise GraphKeeps (nodesGraphs (normNodes ns)) (nodesGraphs ns)
  | [], _ => Pointwise.nil
  | n :: ns, h => by
    simp only [wfNodes, Bool.and_eq_true] at h
    simp only [normNodes, nodesGraphs]
    exact (nodeGraphs_keep scopes n h.1).append (nodesGraphs_keep scopes ns h.2)

theorem graphGraphs_keep (outer : Scopes) : ∀ g : GraphP, wfGraph outer g = true →
    Pointwise GraphKeeps (graphGraphs (normGraph g)) (graphGraphs g)
  | .mk name doc nodes inits inputs outputs vis quant md, h => by
    have hk := graphKeeps_norm outer _ h
    obtain ⟨_, hn⟩ := graphWF_of_wf outer name doc nodes inits inputs outputs vis quant md h
    simp only [normGraph, graphGraphs] at hk ⊢
    exact Pointwise.cons hk (nodesGraphs_keep _ nodes hn)
end

/-! ## functions and the model -/

theorem pointwise_flatMap {α β : Type} {R : β → β → Prop} (f : α → α) (F G : α → List β) :
    ∀ l : List α, (∀ a ∈ l, Pointwise R (F (f a)) (G a)) →
      Pointwise R ((l.map f).flatMap F) (l.flatMap G)
  | [], _ => Pointwise.nil
  | a :: as, h => by
    simp only [List.map_cons, List.flatMap_cons]
    exact (h a (by simp)).append (pointwise_flatMap f F G as (fun b hb => h b (List.mem_cons_of_mem _ hb)))

theorem mem_normFnVIs (vis : List ValueInfoP) {vi : ValueInfoP} {n : String}
    (hf : findVI vis n = some vi) (hi : viHasInfo vi = true) :
    ∀ ks : List String, n ∈ ks → normValueInfo vi ∈ normFnVIs vis ks
  | [], h => by cases h
  | k :: ks, h => by
    simp only [normFnVIs, List.mem_append]
    rcases List.mem_cons.1 h with rfl | h
    · left; simp [hf, hi]
    · right; exact mem_normFnVIs vis hf hi ks h

theorem fnKeeps_norm (ver : Int) (f : FunctionP) (h : wfFunction ver f = true) :
    FnKeeps (normFunction (decide (ver ≥ 10)) f) f := by
  simp only [wfFunction, Bool.and_eq_true] at h
  obtain ⟨⟨⟨⟨⟨⟨⟨⟨⟨⟨⟨⟨h1, h2⟩, h3⟩, h4⟩, h5⟩, h6⟩, h7⟩, h8⟩, h9⟩, h10⟩, h11⟩, h12⟩, h13⟩ := h
  refine ⟨rfl, rfl, rfl, rfl, rfl, rfl, rfl, rfl, ?_, ?_, ?_, ?_⟩
  · simp only [normFunction, attrsSig_norm]
  · simp only [normFunction, attrsTensors_norm]
    exact tensorsKeep_norm _ (wfAttrs_tensors [] f.attrProtos h5)
  · exact perm_normEntries h11
  · intro vi hvi hinfo
    have hname : vi.name ∈ f.inputs ++ nodeOutNames f.nodes := by
      have := List.all_eq_true.1 h9 vi hvi
      simpa using this
    have hf : findVI f.valueInfo vi.name = some vi := findVI_of_mem (nodupStr_iff.1 h8) hvi
    have hc : decide (ver ≥ 10) = true := by
      rcases Bool.or_eq_true_iff.1 h13 with hc | hc
      · exact hc
      · have : f.valueInfo = [] := by simpa using hc
        rw [this] at hvi; cases hvi
    refine ⟨normValueInfo vi, ?_, viKeeps_norm vi (List.all_eq_true.1 h7 vi hvi)⟩
    simp only [normFunction, hc, if_true]
    exact mem_normFnVIs f.valueInfo hf hinfo _ hname

theorem findLast?_isSome_of_mem {α : Type} {p : α → Bool} {l : List α} {a : α} (ha : a ∈ l)
    (hp : p a = true) : ∃ b, findLast? p l = some b := by
  cases h : findLast? p l with
  | some b => exact ⟨b, rfl⟩
  | none =>
    exfalso
    induction l with
    | nil => cases ha
    | cons x xs ih =>
      simp only [findLast?] at h
      cases hx : findLast? p xs with
      | some y => rw [hx] at h; cases h
      | none =>
        rw [hx] at h
        rcases List.mem_cons.1 ha with rfl | ha
        · simp [hp] at h
        · exact ih ha hx

theorem graphNodes_addValueInfo (g : GraphP) (X : List ValueInfoP) :
    graphNodes (GraphP.addValueInfo g X) = graphNodes g := by
  cases g; rfl

theorem graphGraphs_addValueInfo (g : GraphP) (X : List ValueInfoP) :
    ∃ rest, graphGraphs g = g :: rest ∧
      graphGraphs (GraphP.addValueInfo g X) = GraphP.addValueInfo g X :: rest := by
  cases g; exact ⟨_, rfl, rfl⟩

theorem modelNodes_keep (m : ModelP) (h : wfModel m = true) :
    Pointwise NodeKeeps (modelNodes (normModel m)) (modelNodes m) := by
  simp only [wfModel, Bool.and_eq_true] at h
  obtain ⟨⟨⟨⟨⟨⟨hg, hf⟩, _⟩, _⟩, _⟩, _⟩, _⟩ := h
  have hgn : graphNodes (normModel m).graph = graphNodes (normGraph m.graph) := by
    simp only [normModel]
    split
    · rfl
    · exact graphNodes_addValueInfo _ _
  simp only [modelNodes, hgn]
  apply (graphNodes_keep [] m.graph hg).append
  simp only [normModel]
  apply pointwise_flatMap
  intro f hfm
  have hwf := List.all_eq_true.1 hf f hfm
  simp only [wfFunction, Bool.and_eq_true] at hwf
  simp only [normFunction]
  exact (nodesNodes_keep _ f.nodes hwf.1.2).append (attrsNodes_keep [] f.attrProtos hwf.1.1.1.1.1.1.1.1.2)

theorem modelGraphs_keep (m : ModelP) (h : wfModel m = true) :
    Pointwise GraphKeeps (modelGraphs (normModel m)) (modelGraphs m) := by
  simp only [wfModel, Bool.and_eq_true] at h
  obtain ⟨⟨⟨⟨⟨⟨hg, hf⟩, _⟩, _⟩, _⟩, _⟩, _⟩ := h
  have hmain : Pointwise GraphKeeps (graphGraphs (normModel m).graph) (graphGraphs m.graph) := by
    have hk := graphGraphs_keep [] m.graph hg
    simp only [normModel]
    split
    · exact hk
    · obtain ⟨rest, e1, e2⟩ := graphGraphs_addValueInfo (normGraph m.graph)
        (m.functions.flatMap (experimentalVIs m.graph.valueInfo))
      obtain ⟨rest', e3, _⟩ := graphGraphs_addValueInfo m.graph []
      rw [e2]
      rw [e1, e3] at hk
      rw [e3]
      cases hk with
      | cons hhead htail => exact Pointwise.cons (graphKeeps_addValueInfo hhead _) htail
  simp only [modelGraphs]
  apply hmain.append
  simp only [normModel]
  apply pointwise_flatMap
  intro f hfm
  have hwf := List.all_eq_true.1 hf f hfm
  simp only [wfFunction, Bool.and_eq_true] at hwf
  simp only [normFunction]
  exact (nodesGraphs_keep _ f.nodes hwf.1.2).append (attrsGraphs_keep [] f.attrProtos hwf.1.1.1.1.1.1.1.1.2)

theorem modelKeeps_norm (m : ModelP) (h : wfModel m = true) : ModelKeeps (normModel m) m := by
  have h0 := h
  simp only [wfModel, Bool.and_eq_true] at h
  obtain ⟨⟨⟨⟨⟨⟨hg, hf⟩, hmd⟩, _⟩, _⟩, _⟩, _⟩ := h
  refine ⟨rfl, rfl, rfl, rfl, rfl, rfl, rfl, rfl, perm_normEntries hmd, ?_, ?_⟩
  · simp only [normModel]
    exact pointwise_map_left _ _ (fun f hfm => fnKeeps_norm m.irVersion f (List.all_eq_true.1 hf f hfm))
  · intro hlt f hfm hov e he v hv hparse hinfo
    have hnot : ¬ m.irVersion ≥ 10 := by omega
    cases hgr : m.graph with
    | mk name doc nodes inits inputs outputs vis quant md =>
      rw [hgr] at hg he
      simp only [GraphP.valueInfo] at he
      obtain ⟨hw, _⟩ := graphWF_of_wf [] name doc nodes inits inputs outputs vis quant md hg
      -- the entry the lookup finds is `e` (names are distinct, a parsed name is its formatted name)
      obtain ⟨e0, hfind⟩ := findLast?_isSome_of_mem (p := fun x : ValueInfoP =>
        parseExperimentalName x.name = some (f.domain, f.name, v)) he (by simpa using hparse)
      have he0 := findLast?_mem hfind
      have hname : e0.name = e.name := by
        have a := parseExperimentalName_spec (by simpa using he0.2 : parseExperimentalName e0.name
          = some (f.domain, f.name, v))
        have b := parseExperimentalName_spec hparse
        rw [a, b]
      have hee : e0 = e := by
        have h1 := findVI_of_mem hw.nodupVis he0.1
        have h2 := findVI_of_mem hw.nodupVis he
        rw [hname, h2] at h1
        exact (Option.some.inj h1).symm
      subst hee
      refine ⟨normValueInfo e0, ?_, viKeeps_norm e0 (List.all_eq_true.1 hw.wfVis e0 he)⟩
      simp only [normModel, hnot, if_false, hgr]
      simp only [normGraph, GraphP.addValueInfo, GraphP.valueInfo]
      apply List.mem_append_right
      rw [List.mem_flatMap]
      refine ⟨f, hfm, ?_⟩
      have hexp : experimentalVIs vis f
          = (f.inputs ++ nodeOutNames f.nodes).filterMap (expEntry vis f) := by
        simp [experimentalVIs, hov]
      rw [hexp, List.mem_filterMap]
      exact ⟨v, hv, by simp [expEntry, hfind, hinfo]⟩

/-- the round trip of a well-formed model, field by field -/
theorem model_keeps (m : ModelP) (h : wfModel m = true) :
    ∃ x q, desModel m = .ok x ∧ serModel x = .ok q ∧
      ModelKeeps q m ∧ Pointwise NodeKeeps (modelNodes q) (modelNodes m) ∧
      Pointwise GraphKeeps (modelGraphs q) (modelGraphs m) := by
  obtain ⟨x, h1, h2⟩ := model_rt m h
  exact ⟨x, normModel m, h1, h2, modelKeeps_norm m h, modelNodes_keep m h, modelGraphs_keep m h⟩

end IrVerif.Serde

/-
The abstraction function: `absCur` (model ghost function) equals `acur`; what a cursor still
yields and what `next()` does, expressed on the abstract machine.
-/
import IrVerif.Lemmas.LinkedSetRefine
namespace IrVerif.LinkedSet

theorem liveFrom_links {s : LSet} {bs : List Nat} (h : Inv s bs) :
    ∀ (l : List Nat) (x f : Nat), HopLinks s .fwd (x :: l ++ [0]) → (∀ y ∈ l, y ∈ bs) →
      l.length < f → liveFrom s f (nx s x) = l
  | [], x, f, hl, _, hf => by
      obtain ⟨f, rfl⟩ : ∃ g, f = g + 1 := ⟨f - 1, by simp at hf; omega⟩
      simp only [List.cons_append, List.nil_append, HopLinks_cons2, hop] at hl
      simp [liveFrom, hl.1]
  | y :: l, x, f, hl, hm, hf => by
      obtain ⟨f, rfl⟩ : ∃ g, f = g + 1 := ⟨f - 1, by simp at hf; omega⟩
      simp only [List.cons_append, HopLinks_cons2, hop] at hl
      have hy := h.live y (hm y (by simp))
      have hy0 : y ≠ 0 := by omega
      have ih := liveFrom_links h l y f (by simpa using hl.2) (fun z hz => hm z (by simp [hz]))
        (by simp at hf; omega)
      simp [liveFrom, hl.1, hy0, hy.2.2, ih]

theorem Inv.liveBoxes_eq {s : LSet} {bs : List Nat} (h : Inv s bs) : liveBoxes s = bs := by
  unfold liveBoxes
  exact liveFrom_links h bs 0 _ (by simpa [seqD] using h.hopLinks .fwd) (fun _ hy => hy) h.length_le

theorem Inv.isSome_iff {s : LSet} {bs : List Nat} (h : Inv s bs) (b : Nat) :
    (val s b).isSome = true ↔ b ∈ bs := by
  constructor
  · intro hs
    apply Classical.byContradiction
    intro hc; rw [h.dead b hc] at hs; simp at hs
  · intro hb; exact (h.live b hb).2.2

/-- the executable abstraction of the model agrees with the proof-level one -/
theorem Inv.absCur_eq {s : LSet} {bs : List Nat} (h : Inv s bs) (d : Dir) (c : Cursor) :
    absCur s d c = acur s bs d c := by
  have h0 := h.zero_notin
  have hlen : bs.idxOf 0 = bs.length := List.idxOf_eq_length h0
  unfold absCur acur
  rw [h.liveBoxes_eq]
  cases c with
  | done => rfl
  | notStarted =>
    cases d <;> simp [Cursor.pos, posR, posF, hlen]
  | «at» b =>
    by_cases hb0 : b = 0
    · subst hb0; cases d <;> simp [Cursor.pos, posR, posF, hlen]
    · by_cases hb : b ∈ bs
      · have := (h.isSome_iff b).2 hb
        cases d <;> simp [Cursor.pos, posR, posF, hb0, hb, this]
      · have : (val s b).isSome = false := by
          cases hv : (val s b).isSome
          · rfl
          · exact absurd ((h.isSome_iff b).1 hv) hb
        cases d
        · simp [Cursor.pos, posF, hb0, hb, this, tg]
        · simp only [Cursor.pos, posR, posF, hb0, hb, this, tg, false_or, if_false]
          simp only [Bool.false_eq_true, if_false]
          congr 1

/-- neighbours of a node, in index terms -/
theorem Inv.succ_pos {s : LSet} {bs : List Nat} (h : Inv s bs) {b : Nat} (hb : IsNode bs b) :
    IsNode bs (nx s b) ∧ posF bs (nx s b) = posR bs b ∧
    IsNode bs (pv s b) ∧ posR bs (pv s b) = posF bs b := by
  have h0 := h.zero_notin
  have hnd := h.nodup
  rcases hb with rfl | hb
  · have hl := h.links
    have e1 : nx s 0 = headOr 0 bs := by
      have := Links_outof [] 0 bs 0 (by simpa using hl); exact this.1
    have e2 : pv s 0 = lastOr 0 bs := by
      have := Links_into bs 0 0 [] (by simpa using hl); exact this.2
    rw [e1, e2]
    have hqm := headOr_mem bs 0
    have hpm := lastOr_mem bs 0
    refine ⟨by simp only [List.mem_append, List.mem_singleton] at hqm; unfold IsNode; grind, ?_,
      by simp only [List.mem_cons] at hpm; unfold IsNode; grind, ?_⟩
    · cases bs with
      | nil => simp [posF, posR]
      | cons q bs => simp [posF, posR]
    · have := lastOr_posR bs [] (by simpa using hnd) h0
      simp only [List.append_nil] at this
      rw [this]; simp [posF, List.idxOf_eq_length h0]
  · obtain ⟨l1, l2, rfl⟩ := List.append_of_mem hb
    obtain ⟨hp, hq, _, _⟩ := h.around
    rw [hp, hq]
    have hqm := headOr_mem l2 0
    have hpm := lastOr_mem l1 0
    have hb0 : b ≠ 0 := by grind
    have hb1 : b ∉ l1 := by grind
    refine ⟨by simp only [List.mem_append, List.mem_singleton] at hqm; unfold IsNode; grind, ?_,
      by simp only [List.mem_cons] at hpm; unfold IsNode; grind, ?_⟩
    · simp only [posR, hb0, if_false, posF, idxOf_mid hb1]
      cases l2 with
      | nil => simp only [headOr_nil]; rw [List.idxOf_eq_length h0]; simp
      | cons q l2 =>
        simp only [headOr_cons]
        have : l1 ++ b :: q :: l2 = (l1 ++ [b]) ++ q :: l2 := by simp
        rw [this, idxOf_mid (by grind)]; simp
    · rw [lastOr_posR l1 (b :: l2) hnd (by grind)]
      simp [posF, idxOf_mid hb1]

/-- for every cursor, the index part of `acur` is the position of the resolution point -/
theorem Inv.acur_index {s : LSet} {bs : List Nat} (h : Inv s bs) (d : Dir) {c : Cursor}
    (hc : c ≠ .done) (hp : c.pos < size s) :
    let t := tg s d (hop s d c.pos)
    IsNode bs t ∧
    match d with
    | .fwd => acur s bs .fwd c = .att (posF bs t) ∨ acur s bs .fwd c = .gap (posF bs t)
    | .rev => acur s bs .rev c = .att (posR bs t) ∨ acur s bs .rev c = .gap (posR bs t) := by
  intro t
  have hlt := h.hop_lt d hp
  have htn : IsNode bs t := (h.tg_spec d hlt).node
  refine ⟨htn, ?_⟩
  by_cases hb : c.pos = 0 ∨ c.pos ∈ bs
  · have hs := h.succ_pos hb
    cases d with
    | fwd =>
      left
      have : t = nx s c.pos := h.tg_eq hlt (Tgt.of_node hs.1)
      rw [this, hs.2.1]
      cases c <;> simp_all [acur]
    | rev =>
      left
      have : t = pv s c.pos := h.tg_eq hlt (Tgt.of_node hs.2.2.1)
      rw [this, hs.2.2.2]
      cases c <;> simp_all [acur]
  · cases d with
    | fwd => right; cases c <;> simp_all [acur, t, hop]
    | rev => right; cases c <;> simp_all [acur, t, hop]

@[simp] theorem acur_done (s : LSet) (bs : List Nat) (d : Dir) : acur s bs d .done = .done := by
  cases d <;> rfl

theorem drop_rev_eq {bs : List Nat} {t : Nat} (hnd : bs.Nodup) (h0 : 0 ∉ bs) (ht : IsNode bs t) :
    bs.reverse.drop (bs.reverse.idxOf t) = (bs.take (posR bs t)).reverse := by
  rcases ht with rfl | ht
  · have : (0 : Nat) ∉ bs.reverse := by simpa using h0
    rw [List.idxOf_eq_length this]; simp [posR]
  · obtain ⟨A, B, rfl⟩ := List.append_of_mem ht
    have ht0 : t ≠ 0 := by grind
    have htA : t ∉ A := by grind
    have htB : t ∉ B.reverse := by grind
    have e : (A ++ t :: B).reverse = B.reverse ++ t :: A.reverse := by simp
    rw [e, idxOf_mid htB]
    simp only [posR, ht0, if_false, idxOf_mid htA]
    have e2 : A ++ t :: B = (A ++ [t]) ++ B := by simp
    rw [e2, List.take_left' (by simp)]
    simp

/-- **what a cursor still yields** is what the abstract cursor still yields -/
theorem Inv.rest_eq {s : LSet} {bs : List Nat} (h : Inv s bs) (d : Dir) (c : Cursor)
    (hp : c.pos < size s) :
    rest s d c = Spec.rest (bs.map (vl s)) d (acur s bs d c) ∧
    (drain s d (size s + 1) c).2 = .stop := by
  by_cases hc : c = .done
  · subst hc
    simp only [rest, Inv.drain_done, acur_done]
    cases d <;> simp [Spec.rest]
  · have hd := h.drain_eq d hc hp
    have hi := h.acur_index d hc hp
    simp only at hi
    obtain ⟨htn, hi⟩ := hi
    refine ⟨?_, by rw [hd]⟩
    simp only [rest, hd]
    cases d with
    | fwd =>
      simp only [seqD]
      rcases hi with hi | hi <;> rw [hi] <;> simp [Spec.rest, posF, List.map_drop]
    | rev =>
      simp only [seqD]
      rw [drop_rev_eq h.nodup h.zero_notin htn]
      rcases hi with hi | hi <;> rw [hi] <;> simp [Spec.rest, List.map_take, List.map_reverse]

theorem getElem?_idxOf_map (f : Nat → Nat) : ∀ (bs : List Nat) (t : Nat), t ∈ bs →
    (bs.map f)[bs.idxOf t]? = some (f t)
  | [], _, h => by simp at h
  | x :: bs, t, h => by
      by_cases hx : x = t
      · subst hx; simp
      · have hb : (x == t) = false := by simp [hx]
        have ht : t ∈ bs := by
          simp only [List.mem_cons] at h
          rcases h with h | h
          · exact absurd h.symm hx
          · exact h
        simp only [List.idxOf_cons, hb, cond_false, List.map_cons, List.getElem?_cons_succ]
        exact getElem?_idxOf_map f bs t ht

/-- **one `next()`** on the concrete cursor is one `Spec.next` on the abstract one -/
theorem Inv.next_eq {s : LSet} {bs : List Nat} (h : Inv s bs) (d : Dir) (c : Cursor)
    (hp : c.pos < size s) :
    let r := iterNext s d c
    let a := Spec.next (bs.map (vl s)) d (acur s bs d c)
    acur s bs d r.1 = a.1 ∧ r.1.pos < size s ∧
      (match a.2 with
       | some v => r.2 = .yield v
       | none => r.2 = .stop) := by
  intro r a
  by_cases hc : c = .done
  · subst hc
    have : r = (.done, .stop) := by simp [r, iterNext]
    simp only [a, this, acur_done]
    cases d <;> simp [Spec.next, Cursor.pos, h.size_pos]
  · have hr : r = scanRes s (tg s d (hop s d c.pos)) := h.iterNext_eq d hc hp
    have hi := h.acur_index d hc hp
    simp only at hi
    obtain ⟨htn, hi⟩ := hi
    have h0 := h.zero_notin
    generalize tg s d (hop s d c.pos) = t at hr htn hi
    rcases htn with rfl | ht
    · have hr' : r = (.done, .stop) := by simp [hr, scanRes]
      simp only [a, hr', acur_done]
      cases d with
      | fwd =>
        have : (bs.map (vl s))[posF bs 0]? = none := by
          simp [posF, List.idxOf_eq_length h0]
        rcases hi with hi | hi <;> rw [hi] <;> simp [Spec.next, this, Cursor.pos, h.size_pos]
      | rev =>
        rcases hi with hi | hi <;> rw [hi] <;> simp [Spec.next, posR, Cursor.pos, h.size_pos]
    · have ht0 : t ≠ 0 := by rintro rfl; exact h0 ht
      have hr' : r = (.at t, .yield (vl s t)) := by simp [hr, scanRes, ht0]
      have hlt := (h.live t ht).2.1
      have hnode : t = 0 ∨ t ∈ bs := Or.inr ht
      simp only [a, hr']
      cases d with
      | fwd =>
        have hg : (bs.map (vl s))[posF bs t]? = some (vl s t) := getElem?_idxOf_map _ _ _ ht
        have hn : acur s bs .fwd (.at t) = .att (posF bs t + 1) := by
          simp [acur, Cursor.pos, ht, posR, posF, ht0]
        rcases hi with hi | hi <;> rw [hi] <;> simp [Spec.next, hg, hn, Cursor.pos, hlt]
      | rev =>
        have hk : posR bs t = bs.idxOf t + 1 := by simp [posR, ht0]
        have hg : (bs.map (vl s))[posR bs t - 1]? = some (vl s t) := by
          rw [hk]; exact getElem?_idxOf_map _ _ _ ht
        have hn : acur s bs .rev (.at t) = .att (posR bs t - 1) := by
          simp [acur, Cursor.pos, ht, posF, hk]
        have hk0 : posR bs t ≠ 0 := by omega
        rcases hi with hi | hi <;> rw [hi] <;> simp [Spec.next, hg, hn, hk0, Cursor.pos, hlt]

end IrVerif.LinkedSet

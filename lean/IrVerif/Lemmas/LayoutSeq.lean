/-
Helper lemmas for C07 (deepening round): the restore loop through the setter, the sequence
invariant of save / load / load_to_model / unload_from_model histories, small list facts.
Core Lean only.
-/
import IrVerif.Lemmas.LayoutSt
import IrVerif.Model.LayoutSeq
namespace IrVerif.Layout

theorem entriesFrom_zip (cur : Nat) (vs : List StView) :
    ∀ p ∈ (entriesFrom cur vs).zip vs, p.1.name = p.2.name ∧ p.1.stop - p.1.start = p.2.bytes.length := by
  induction vs generalizing cur with
  | nil => intro p hp; simp [entriesFrom] at hp
  | cons v vs ih =>
    intro p hp
    simp only [entriesFrom, List.zip_cons_cons, List.mem_cons] at hp
    rcases hp with rfl | hp
    · simp
    · exact ih _ p hp

theorem zipIdx_flatMap_fst {α β : Type} (l : List α) (k : Nat) (f : α → List β) :
    (l.zipIdx k).flatMap (fun p => f p.1) = l.flatMap f := by
  induction l generalizing k with
  | nil => rfl
  | cons x xs ih => simp [List.zipIdx_cons, ih]

theorem perm_flatMap_left {α β : Type} (l : List α) (f g : α → List β)
    (h : ∀ a ∈ l, (f a).Perm (g a)) : (l.flatMap f).Perm (l.flatMap g) := by
  induction l with
  | nil => exact List.Perm.refl _
  | cons x xs ih =>
    simp only [List.flatMap_cons]
    exact List.Perm.append (h x (List.mem_cons_self ..))
      (ih (fun a ha => h a (List.mem_cons_of_mem _ ha)))

theorem restoreLoop_ok (debug : Bool) (isProto : Nat → Bool) (st : Store) (ps : List (Nat × Option Nat))
    (h : ∀ p ∈ ps, setterOk debug isProto p.2 = true) :
    restoreLoop debug isProto st ps = (assignAll st ps, false) := by
  induction ps generalizing st with
  | nil => rfl
  | cons p ps ih =>
    obtain ⟨v, t⟩ := p
    simp only [restoreLoop, assignAll]
    rw [if_pos (h (v, t) (List.mem_cons_self ..))]
    exact ih _ (fun q hq => h q (List.mem_cons_of_mem _ hq))

theorem restoreLoop_stops (debug : Bool) (isProto : Nat → Bool) (st : Store)
    (pre : List (Nat × Option Nat)) (bad : Nat × Option Nat) (post : List (Nat × Option Nat))
    (hpre : ∀ p ∈ pre, setterOk debug isProto p.2 = true)
    (hbad : setterOk debug isProto bad.2 = false) :
    restoreLoop debug isProto st (pre ++ bad :: post) = (assignAll st pre, true) := by
  induction pre generalizing st with
  | nil =>
    obtain ⟨v, t⟩ := bad
    simp only [List.nil_append, restoreLoop, assignAll]
    rw [if_neg (by simpa using hbad)]
  | cons p pre ih =>
    obtain ⟨v, t⟩ := p
    simp only [List.cons_append, restoreLoop, assignAll]
    rw [if_pos (hpre (v, t) (List.mem_cons_self ..))]
    exact ih _ (fun q hq => hpre q (List.mem_cons_of_mem _ hq))

theorem installFiles_zipIdx (fs : FS FileKey) (base n : Nat) (files : List (List Nat)) (k i : Nat) (hk : k ≤ i) :
    installFiles fs ((files.zipIdx k).map fun (p : List Nat × Nat) => (((base, p.2, n) : FileKey), p.1))
      (base, i, n) = (match files[i - k]? with | some img => some img | none => fs (base, i, n)) := by
  induction files generalizing k with
  | nil => rfl
  | cons x xs ih =>
    simp only [List.zipIdx_cons, List.map_cons, installFiles]
    by_cases hik : i = k
    · subst hik; simp
    · rw [if_neg (by simp [hik])]
      rw [ih (k + 1) (by omega)]
      have : i - k = (i - (k + 1)) + 1 := by omega
      rw [this, List.getElem?_cons_succ]

section Seq
variable {κ : Type} [DecidableEq κ]

/-- every reference of the list is stale or reads the value of its position -/
def RefsOk (V : List (List Nat)) (fs : FS κ) (refs : List (Ref κ)) : Prop :=
  refs.length = V.length ∧ ∀ (k : Nat) (r : Ref κ), refs[k]? = some r → r = Ref.stale ∨ r.value fs = V[k]?

/-- the sequence invariant -/
def SeqInv (V : List (List Nat)) (s : SeqState κ) : Prop :=
  RefsOk V s.fs s.mem ∧ ∀ refs, s.disk = some refs → RefsOk V s.fs refs

theorem readAll_eq (V : List (List Nat)) (fs : FS κ) (refs : List (Ref κ)) (h : RefsOk V fs refs)
    (vals : List (List Nat)) (hr : readAll fs refs = some vals) : vals = V := by
  unfold readAll at hr
  split at hr
  · rename_i hall
    have hv : vals = refs.map fun r => (r.value fs).getD [] := (Option.some.inj hr).symm
    subst hv
    apply List.ext_getElem?
    intro k
    rw [List.getElem?_map]
    cases hk : refs[k]? with
    | none =>
      have : refs.length ≤ k := List.getElem?_eq_none_iff.mp hk
      simp only [Option.map_none]
      have hl := h.1
      rw [eq_comm, List.getElem?_eq_none_iff]; omega
    | some r =>
      have hsome : (r.value fs).isSome = true :=
        (List.all_eq_true.mp hall) r (List.mem_of_getElem? hk)
      rcases h.2 k r hk with hst | hval
      · subst hst; simp [Ref.value] at hsome
      · simp only [Option.map_some]
        rw [← hval]
        cases hx : r.value fs with
        | none => rw [hx] at hsome; simp at hsome
        | some x => rfl
  · cases hr

theorem installFiles_not_mem (fs : FS κ) (files : List (κ × List Nat)) (f : κ) (h : f ∉ files.map (·.1)) :
    installFiles fs files f = fs f := by
  induction files with
  | nil => rfl
  | cons p ps ih =>
    obtain ⟨g, img⟩ := p
    simp only [List.map_cons, List.mem_cons, not_or] at h
    simp only [installFiles]
    rw [if_neg h.1]
    exact ih h.2

theorem staleIf_ok (fs : FS κ) (files : List (κ × List Nat)) (r : Ref κ) (x : Option (List Nat))
    (h : r = .stale ∨ r.value fs = x) :
    r.staleIf (files.map (·.1)) = .stale ∨
      (r.staleIf (files.map (·.1))).value (installFiles fs files) = x := by
  cases r with
  | inline bs => right; simpa [Ref.staleIf, Ref.value] using h
  | stale => left; rfl
  | ext f off len =>
    simp only [Ref.staleIf]
    split
    · left; rfl
    · rename_i hf
      right
      rcases h with h | h
      · cases h
      · simp only [Ref.value, installFiles_not_mem fs files f hf]
        simpa [Ref.value] using h

theorem refsOk_staleIf (V : List (List Nat)) (fs : FS κ) (files : List (κ × List Nat)) (refs : List (Ref κ))
    (h : RefsOk V fs refs) :
    RefsOk V (installFiles fs files) (refs.map (Ref.staleIf (files.map (·.1)))) := by
  refine ⟨by simpa using h.1, ?_⟩
  intro k r hr
  rw [List.getElem?_map] at hr
  cases hk : refs[k]? with
  | none => rw [hk] at hr; cases hr
  | some r0 =>
    rw [hk] at hr
    have : r = r0.staleIf (files.map (·.1)) := (Option.some.inj hr).symm
    subst this
    exact staleIf_ok fs files r0 _ (h.2 k r0 hk)

theorem refsOk_backend (V : List (List Nat)) (fs : FS κ) (b : Backend κ) (hb : b.Ok)
    (refs : List (Ref κ)) (hl : refs.length = V.length) :
    RefsOk V (installFiles fs (b refs V).files) (b refs V).refs := by
  have := hb refs V fs hl
  refine ⟨this.1, ?_⟩
  intro k r hr
  have hk : k < V.length := by
    have := (List.getElem?_eq_some_iff.mp hr).1
    omega
  obtain ⟨r', hr', _, hval⟩ := this.2 k hk
  rw [hr] at hr'
  have : r = r' := Option.some.inj hr'
  subst this
  right
  rw [hval, List.getElem?_eq_getElem hk]

def SeqOp.BackendOk : SeqOp κ → Prop
  | .save b => b.Ok
  | .unload b => b.Ok
  | _ => True

theorem seqStep_inv (V : List (List Nat)) (s s' : SeqState κ) (op : SeqOp κ) (hop : op.BackendOk)
    (hinv : SeqInv V s) (hs : seqStep s op = some s') : SeqInv V s' := by
  cases op with
  | save b =>
    simp only [seqStep, Option.map_eq_some_iff] at hs
    obtain ⟨vals, hvals, rfl⟩ := hs
    have hv := readAll_eq V s.fs s.mem hinv.1 vals hvals
    subst hv
    refine ⟨refsOk_staleIf _ _ _ _ hinv.1, ?_⟩
    intro refs hrefs
    have : refs = (b s.mem vals).refs := (Option.some.inj hrefs).symm
    subst this
    exact refsOk_backend vals s.fs b hop s.mem hinv.1.1
  | unload b =>
    simp only [seqStep, Option.map_eq_some_iff] at hs
    obtain ⟨vals, hvals, rfl⟩ := hs
    have hv := readAll_eq V s.fs s.mem hinv.1 vals hvals
    subst hv
    refine ⟨refsOk_backend vals s.fs b hop s.mem hinv.1.1, ?_⟩
    intro refs hrefs
    simp only [Option.map_eq_some_iff] at hrefs
    obtain ⟨old, hold, rfl⟩ := hrefs
    exact refsOk_staleIf _ _ _ _ (hinv.2 old hold)
  | load =>
    simp only [seqStep, Option.map_eq_some_iff] at hs
    obtain ⟨refs, hrefs, rfl⟩ := hs
    exact ⟨hinv.2 refs hrefs, hinv.2⟩
  | loadToModel =>
    simp only [seqStep, Option.map_eq_some_iff] at hs
    obtain ⟨vals, hvals, rfl⟩ := hs
    have hv := readAll_eq V s.fs s.mem hinv.1 vals hvals
    subst hv
    refine ⟨⟨by simp, ?_⟩, hinv.2⟩
    intro k r hr
    rw [List.getElem?_map] at hr
    cases hk : vals[k]? with
    | none => rw [hk] at hr; cases hr
    | some x =>
      rw [hk] at hr
      have : r = .inline x := (Option.some.inj hr).symm
      subst this
      right; rfl
  | convertFromExternal k =>
    simp only [seqStep] at hs
    cases hk : s.mem[k]? with
    | none => rw [hk] at hs; cases hs
    | some r0 =>
      rw [hk] at hs
      simp only [Option.map_eq_some_iff] at hs
      obtain ⟨bs, hbs, rfl⟩ := hs
      refine ⟨⟨by simpa using hinv.1.1, ?_⟩, hinv.2⟩
      intro j r hr
      by_cases hjk : j = k
      · subst hjk
        have hlt : j < s.mem.length := (List.getElem?_eq_some_iff.mp hk).1
        rw [List.getElem?_set_self hlt] at hr
        have : r = .inline bs := (Option.some.inj hr).symm
        subst this
        right
        rcases hinv.1.2 j r0 hk with hst | hval
        · subst hst; simp [Ref.value] at hbs
        · rw [← hval, hbs]; rfl
      · rw [List.getElem?_set_ne (Ne.symm hjk)] at hr
        exact hinv.1.2 j r hr

end Seq

end IrVerif.Layout

/-
Extended model, MODELS WITH FUNCTIONS: what holds for every model the extended deserializer returns
(`deserializeME_reloadableME`, `Lemmas/ScopeExtFuncDeser.lean`): the second serialization is a fix-point, and the
round trip keeps the core (the data of `IsoM`) and the extension state (`normM` / `normQ`).
-/
import IrVerif.Lemmas.ScopeExtModel
import IrVerif.Lemmas.ScopeExtFuncDeser
import IrVerif.Lemmas.ScopeExtModelDev
import IrVerif.Lemmas.ScopeExtFuncDevCert
namespace IrVerif.Scope

/-- **idempotence for extended models with functions**: deserialize, serialize (raises only for a device
    configuration that cannot be written), deserialize, serialize: the same proto -/
theorem idempotent_extM (ver : Option Int) (p : ModelE) (w : MWorldE) (hd : deserializeME p = .ok w) :
    (∃ e, serializeME ver w = .error (.dev e)) ∨
    ∃ (w1 : MWorldE) (Q : ModelE) (D w2 : MWorldE),
      serializeME ver w = .ok (w1, Q) ∧ deserializeME Q = .ok D ∧ serializeME ver D = .ok (w2, Q) := by
  have h := deserializeME_reloadableME p w hd
  rcases reloadableME_ser ver w h with ⟨w1, Q, hs⟩ | ⟨e, he⟩
  · obtain ⟨D, w2, hD, h2⟩ := reloadableME_fixpoint ver w h w1 Q hs
    exact .inr ⟨w1, Q, D, w2, hs, hD, h2⟩
  · exact .inl ⟨e, he⟩

/-- the round trip of a DESERIALIZED extended model with functions: serialization raises for a device
    configuration, or the reloaded model is the source up to the renaming `σ` (the data of `IsoM`) and carries the
    source metadata / annotations written and read once -/
theorem roundtrip_extM (ver : Option Int) (p : ModelE) (w : MWorldE) (hd : deserializeME p = .ok w) :
    (∃ e, serializeME ver w = .error (.dev e)) ∨
    ∃ (w1 : MWorldE) (Q : ModelE) (D : MWorldE) (σ : Nat → Nat),
      serializeME ver w = .ok (w1, Q) ∧ deserializeME Q = .ok D ∧
      TreeIsoG w.st.vals σ w.root D.root ∧ TreeIsoFs w.st.vals σ w.funcs D.funcs ∧
      (∀ a ∈ domM w.core, ∀ b ∈ domM w.core, σ a = σ b → a = b) ∧
      (∀ v ∈ domM w.core, (D.st.vals (σ v)).name = (w.st.vals v).name) ∧
      (∀ v ∈ emitM w.core, (D.st.vals (σ v)).info = (w.st.vals v).info.emit) ∧
      (∀ kv ∈ allInitsM w.core, ∀ t, (w.st.vals kv.2).const = some t →
        ∃ t', (D.st.vals (σ kv.2)).const = some t' ∧ (D.st.tens t').name = some kv.1 ∧
          D.st.tdata t' = w.st.tdata t) ∧
      (∀ v ∈ emitM w.core, D.ext.vmeta (σ v) = normM (w.ext.vmeta v)) ∧
      (∀ v ∈ emitQM w, D.ext.quant (σ v) = normQ (w.ext.quant v)) := by
  have h := deserializeME_reloadableME p w hd
  rcases reloadableME_ser ver w h with ⟨w1, Q, hs⟩ | ⟨e, he⟩
  · obtain ⟨D, σ, hD, r⟩ := reloadableME_roundtrip_iso ver w h w1 Q hs
    exact .inr ⟨w1, Q, D, σ, hs, hD, r⟩
  · exact .inl ⟨e, he⟩

/-- the round trip of a DESERIALIZED extended model with functions, with the device configurations: when they are
    written (IR version gate open), serialization raises for a device configuration, or the reloaded model is the
    source up to the renaming `σ` and every reloaded node (main graph, nested graphs, function bodies) carries the
    source device configurations with the sharding values renamed by `σ` (BY IDENTITY) -/
theorem roundtrip_extM_devs (ver : Option Int) (hgate : ver = none ∨ ∃ v, ver = some v ∧ ¬ v < 11) (p : ModelE)
    (w : MWorldE) (hd : deserializeME p = .ok w) :
    (∃ e, serializeME ver w = .error (.dev e)) ∨
    ∃ (w1 : MWorldE) (Q : ModelE) (D : MWorldE) (σ : Nat → Nat),
      serializeME ver w = .ok (w1, Q) ∧ deserializeME Q = .ok D ∧
      TreeIsoG w.st.vals σ w.root D.root ∧ TreeIsoFs w.st.vals σ w.funcs D.funcs ∧
      (∀ a ∈ domM w.core, ∀ b ∈ domM w.core, σ a = σ b → a = b) ∧
      DevIsoM w.ext D.ext σ w D := by
  have h := deserializeME_reloadableME p w hd
  rcases reloadableME_ser ver w h with ⟨w1, Q, hs⟩ | ⟨e, he⟩
  · obtain ⟨D, B, hD, hrs, hk, ht, htf, _, _, _, _, hdev⟩ :=
      reloadableME_roundtrip_devs ver hgate w h (deserializeME_devCert p w hd) w1 Q hs
    have hkeys : ∀ v ∈ domM w.core, v ∈ B.map (·.1) := fun v hv => hk ▸ hv
    exact .inr ⟨w1, Q, D, sig B, hs, hD, TreeRelG.iso _ B _ _ ht, TreeRelFs.iso _ B _ _ htf,
      fun a ha b hb he => hrs.sig_inj (hkeys a ha) (hkeys b hb) he, hdev⟩
  · exact .inl ⟨e, he⟩

end IrVerif.Scope

/-
Extended model, MODELS WITH FUNCTIONS: what holds for every model the extended deserializer returns
(`deserializeME_reloadableME`, `Lemmas/ScopeExtFuncDeser.lean`): the second serialization is a fix-point, and the
round trip keeps the core (the data of `IsoM`) and the extension state (`normM` / `normQ`).
-/
import IrVerif.Lemmas.ScopeExtModel
import IrVerif.Lemmas.ScopeExtFuncDeser
namespace IrVerif.Scope

/-- **idempotence for extended models with functions**: deserialize, serialize (raises only for a device
    configuration that cannot be written), deserialize, serialize: the same proto -/
theorem idempotent_extM (ver : Option Int) (p : ModelE) (w : MWorldE) (hd : deserializeME p = .ok w) :
    (∃ e, serializeME ver w = .error (.dev e)) ∨
    ∃ (w1 : MWorldE) (Q : ModelE) (D w2 : MWorldE),
      serializeME ver w = .ok (w1, Q) ∧ deserializeME Q = .ok D ∧ serializeME ver D = .ok (w2, Q) := by
  have h := deserializeME_reloadableME p w hd
  rcases reloadableME_ser ver w h with ⟨w1, Q, hs⟩ | ⟨e, he⟩
  · obtain ⟨D, w2, hD, h2⟩ := reloadableME_fixpoint ver w h w1 Q hs
    exact .inr ⟨w1, Q, D, w2, hs, hD, h2⟩
  · exact .inl ⟨e, he⟩

/-- the round trip of a DESERIALIZED extended model with functions: serialization raises for a device
    configuration, or the reloaded model is the source up to the renaming `σ` (the data of `IsoM`) and carries the
    source metadata / annotations written and read once -/
theorem roundtrip_extM (ver : Option Int) (p : ModelE) (w : MWorldE) (hd : deserializeME p = .ok w) :
    (∃ e, serializeME ver w = .error (.dev e)) ∨
    ∃ (w1 : MWorldE) (Q : ModelE) (D : MWorldE) (σ : Nat → Nat),
      serializeME ver w = .ok (w1, Q) ∧ deserializeME Q = .ok D ∧
      TreeIsoG w.st.vals σ w.root D.root ∧ TreeIsoFs w.st.vals σ w.funcs D.funcs ∧
      (∀ a ∈ domM w.core, ∀ b ∈ domM w.core, σ a = σ b → a = b) ∧
      (∀ v ∈ domM w.core, (D.st.vals (σ v)).name = (w.st.vals v).name) ∧
      (∀ v ∈ emitM w.core, (D.st.vals (σ v)).info = (w.st.vals v).info.emit) ∧
      (∀ kv ∈ allInitsM w.core, ∀ t, (w.st.vals kv.2).const = some t →
        ∃ t', (D.st.vals (σ kv.2)).const = some t' ∧ (D.st.tens t').name = some kv.1 ∧
          D.st.tdata t' = w.st.tdata t) ∧
      (∀ v ∈ emitM w.core, D.ext.vmeta (σ v) = normM (w.ext.vmeta v)) ∧
      (∀ v ∈ emitQM w, D.ext.quant (σ v) = normQ (w.ext.quant v)) := by
  have h := deserializeME_reloadableME p w hd
  rcases reloadableME_ser ver w h with ⟨w1, Q, hs⟩ | ⟨e, he⟩
  · obtain ⟨D, σ, hD, r⟩ := reloadableME_roundtrip_iso ver w h w1 Q hs
    exact .inr ⟨w1, Q, D, σ, hs, hD, r⟩
  · exact .inl ⟨e, he⟩

end IrVerif.Scope

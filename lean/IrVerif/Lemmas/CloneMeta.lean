import IrVerif.Model.CloneMeta
import IrVerif.Lemmas.CloneMetaFaithful
/-! # `deep_copy=True` of the objects stored in `meta`: freshness, frame; `deep_copy=False`: sharing

Theorems about `IrVerif.Clone.Meta` (Model/CloneMeta.lean), re-exported by Props/C13.lean as
`C13_deep_copy_meta_fresh`, `C13_deep_copy_meta_frame`, `C13_shallow_meta_shared`,
`C13_deep_copy_meta_faithful` (proof development in Lemmas/CloneMetaFaithful.lean). -/
namespace IrVerif.Clone.Meta

/-- element-wise relation of two lists of the same length (core has no `Forall₂`) -/
inductive All2 {α β : Type} (R : α → β → Prop) : List α → List β → Prop where
  | nil : All2 R [] []
  | cons {a : α} {b : β} {as : List α} {bs : List β} : R a b → All2 R as bs → All2 R (a :: as) (b :: bs)

theorem All2.imp {α β : Type} {R S : α → β → Prop} {xs : List α} {ys : List β}
    (h : All2 R xs ys) (f : ∀ a b, R a b → S a b) : All2 S xs ys := by
  induction h with
  | nil => exact .nil
  | cons r _ ih => exact .cons (f _ _ r) ih

/-! ## invariants -/

/-- every cell at or above `n` holds only references at or above `n` -/
def HFresh (n : Nat) (h : PyHeap) : Prop :=
  n ≤ h.length ∧ ∀ i o, n ≤ i → h[i]? = some o → ∀ j, PyVal.ref j ∈ o.vals → n ≤ j

def SFresh (n : Nat) (st : DSt) : Prop :=
  HFresh n st.h ∧ ∀ a b, (a, b) ∈ st.memo → n ≤ b

/-- the heap only grows and nothing below `n` changes -/
def Pre (n : Nat) (h h' : PyHeap) : Prop :=
  h.length ≤ h'.length ∧ ∀ i, i < n → h'[i]? = h[i]?

/-- a copied value: an atom stays the same atom, a reference becomes a reference at or above `n` -/
def GoodV (n : Nat) (v v' : PyVal) : Prop :=
  (∀ s, v = .atom s ↔ v' = .atom s) ∧ ∀ j, v' = .ref j → n ≤ j

def RecSpec (n : Nat) (rec : PyVal → DM PyVal) : Prop :=
  ∀ v st v' st', rec v st = .ok (v', st') → SFresh n st →
    SFresh n st' ∧ Pre n st.h st'.h ∧ GoodV n v v'

theorem Pre.refl (n : Nat) (h : PyHeap) : Pre n h h := ⟨Nat.le_refl _, fun _ _ => rfl⟩

theorem Pre.trans {n : Nat} {a b c : PyHeap} (h1 : Pre n a b) (h2 : Pre n b c) : Pre n a c :=
  ⟨Nat.le_trans h1.1 h2.1, fun i hi => by rw [h2.2 i hi, h1.2 i hi]⟩

theorem mem_of_lookup {a b : Nat} : ∀ {m : List (Nat × Nat)}, m.lookup a = some b → (a, b) ∈ m
  | [], h => by simp at h
  | (x, y) :: m, h => by
    by_cases hx : a = x
    · subst hx; simp [List.lookup] at h; subst h; simp
    · have : (a == x) = false := by simpa using hx
      simp only [List.lookup, this] at h
      exact List.mem_cons_of_mem _ (mem_of_lookup h)

theorem withVals_vals_sub (o : PyObj) (ys : List PyVal) :
    ∀ c, c ∈ (o.withVals ys).vals → c ∈ ys := by
  intro c hc
  cases o with
  | list xs => simpa [PyObj.withVals, PyObj.vals] using hc
  | dict kv =>
    simp only [PyObj.withVals, PyObj.vals, List.mem_map] at hc
    obtain ⟨p, hp, rfl⟩ := hc
    exact (List.of_mem_zip (a := p.1) (b := p.2) (by simpa using hp)).2

theorem empty_vals (o : PyObj) : o.empty.vals = [] := by cases o <;> rfl

/-! ## `deepcopy` -/

theorem dcList_spec {n : Nat} {rec : PyVal → DM PyVal} (hrec : RecSpec n rec) :
    ∀ xs st ys st', dcList rec xs st = .ok (ys, st') → SFresh n st →
      SFresh n st' ∧ Pre n st.h st'.h ∧ All2 (GoodV n) xs ys := by
  intro xs
  induction xs with
  | nil =>
    intro st ys st' h hs
    simp only [dcList, Except.ok.injEq, Prod.mk.injEq] at h
    obtain ⟨rfl, rfl⟩ := h
    exact ⟨hs, Pre.refl _ _, .nil⟩
  | cons a as ih =>
    intro st ys st' h hs
    simp only [dcList] at h
    split at h
    · cases h
    · rename_i a' s1 h1
      split at h
      · cases h
      · rename_i as' s2 h2
        simp only [Except.ok.injEq, Prod.mk.injEq] at h
        obtain ⟨rfl, rfl⟩ := h
        obtain ⟨f1, p1, g1⟩ := hrec _ _ _ _ h1 hs
        obtain ⟨f2, p2, g2⟩ := ih _ _ _ h2 f1
        exact ⟨f2, p1.trans p2, .cons g1 g2⟩

theorem forall2_refs {n : Nat} {xs ys : List PyVal} (h : All2 (GoodV n) xs ys) :
    ∀ j, PyVal.ref j ∈ ys → n ≤ j := by
  induction h with
  | nil => intro j hj; cases hj
  | cons g _ ih =>
    intro j hj
    rcases List.mem_cons.1 hj with rfl | hj
    · exact g.2 j rfl
    · exact ih j hj

theorem dcStep_spec {n : Nat} {rec : PyVal → DM PyVal} (hrec : RecSpec n rec) :
    RecSpec n (dcStep rec) := by
  intro v st v' st' h hs
  cases v with
  | atom s =>
    simp only [dcStep, Except.ok.injEq, Prod.mk.injEq] at h
    obtain ⟨rfl, rfl⟩ := h
    exact ⟨hs, Pre.refl _ _, by simp [GoodV]⟩
  | ref i =>
    simp only [dcStep] at h
    split at h
    · rename_i j hj
      simp only [Except.ok.injEq, Prod.mk.injEq] at h
      obtain ⟨rfl, rfl⟩ := h
      refine ⟨hs, Pre.refl _ _, by simp, ?_⟩
      intro j' hj'
      cases hj'
      exact hs.2 _ _ (mem_of_lookup hj)
    · split at h
      · cases h
      · rename_i o ho
        split at h
        · cases h
        · rename_i ys st2 h2
          simp only [Except.ok.injEq, Prod.mk.injEq] at h
          obtain ⟨rfl, rfl⟩ := h
          have hn : n ≤ st.h.length := hs.1.1
          have hs1 : SFresh n { h := st.h ++ [o.empty], memo := (i, st.h.length) :: st.memo } := by
            refine ⟨⟨by simp; omega, ?_⟩, ?_⟩
            · intro k o' hk ho' j hj
              by_cases hlt : k < st.h.length
              · rw [List.getElem?_append_left hlt] at ho'
                exact hs.1.2 k o' hk ho' j hj
              · have : k = st.h.length ∨ st.h.length < k := by omega
                rcases this with rfl | hgt
                · simp at ho'; subst ho'; simp [empty_vals] at hj
                · rw [List.getElem?_eq_none (by simp; omega)] at ho'; cases ho'
            · intro a b hab
              rcases List.mem_cons.1 hab with heq | hab
              · cases heq; exact hn
              · exact hs.2 a b hab
          obtain ⟨f2, p2, g2⟩ := dcList_spec hrec _ _ _ _ h2 hs1
          have hlen : st.h.length + 1 ≤ st2.h.length := by
            have := p2.1; simpa using this
          refine ⟨⟨⟨by simpa using f2.1.1, ?_⟩, f2.2⟩, ⟨by simp; omega, ?_⟩, by simp, ?_⟩
          · intro k o' hk ho' j hj
            by_cases hky : k = st.h.length
            · subst hky
              rw [List.getElem?_set_self (by omega)] at ho'
              cases ho'
              exact forall2_refs g2 j (withVals_vals_sub _ _ _ hj)
            · rw [List.getElem?_set_ne (by omega)] at ho'
              exact f2.1.2 k o' hk ho' j hj
          · intro k hk
            rw [List.getElem?_set_ne (by omega)]
            rw [p2.2 k hk]
            exact List.getElem?_append_left (by omega)
          · intro j hj; cases hj; exact hn

theorem dc_spec (n : Nat) : ∀ f, RecSpec n (dc f) := by
  intro f
  induction f with
  | zero =>
    intro v st v' st' h hs
    cases v with
    | atom s =>
      simp only [dc, Except.ok.injEq, Prod.mk.injEq] at h
      obtain ⟨rfl, rfl⟩ := h
      exact ⟨hs, Pre.refl _ _, by simp [GoodV]⟩
    | ref i => simp [dc] at h
  | succ f ih =>
    intro v st v' st' h hs
    cases v with
    | atom s =>
      simp only [dc, Except.ok.injEq, Prod.mk.injEq] at h
      obtain ⟨rfl, rfl⟩ := h
      exact ⟨hs, Pre.refl _ _, by simp [GoodV]⟩
    | ref i =>
      simp only [dc] at h
      exact dcStep_spec ih _ _ _ _ h hs

theorem deepcopy_spec {n fuel : Nat} {v v' : PyVal} {h h' : PyHeap}
    (hc : deepcopy fuel v h = .ok (v', h')) (hf : HFresh n h) :
    HFresh n h' ∧ Pre n h h' ∧ GoodV n v v' := by
  simp only [deepcopy] at hc
  split at hc
  · cases hc
  · rename_i w st hd
    simp only [Except.ok.injEq, Prod.mk.injEq] at hc
    obtain ⟨rfl, rfl⟩ := hc
    obtain ⟨f, p, g⟩ := dc_spec n fuel _ _ _ _ hd ⟨hf, by simp⟩
    exact ⟨f.1, p, g⟩

theorem HFresh.self (h : PyHeap) : HFresh h.length h :=
  ⟨Nat.le_refl _, fun i o hi ho => by rw [List.getElem?_eq_none hi] at ho; cases ho⟩

/-- `copy.deepcopy` changes no existing object (for every heap, also ill-formed ones) -/
theorem deepcopy_frame {fuel : Nat} {v v' : PyVal} {h h' : PyHeap}
    (hc : deepcopy fuel v h = .ok (v', h')) : Pre h.length h h' :=
  (deepcopy_spec hc (HFresh.self h)).2.1

theorem Pre.weaken {n m : Nat} {a b : PyHeap} (h : Pre m a b) (hnm : n ≤ m) : Pre n a b :=
  ⟨h.1, fun i hi => h.2 i (by omega)⟩

/-! ## `clone_meta` -/

/-- key-wise relation between a store's entries and their deep copies -/
def GoodE (n : Nat) (e e' : String × PyVal) : Prop := e'.1 = e.1 ∧ GoodV n e.2 e'.2

theorem cloneData_deep_spec {n fuel : Nat} :
    ∀ (d d' : List (String × PyVal)) (h h' : PyHeap),
      cloneData true fuel d h = .ok (d', h') → HFresh n h →
      HFresh n h' ∧ Pre n h h' ∧ All2 (GoodE n) d d' := by
  intro d
  induction d with
  | nil =>
    intro d' h h' hc hf
    simp only [cloneData, Except.ok.injEq, Prod.mk.injEq] at hc
    obtain ⟨rfl, rfl⟩ := hc
    exact ⟨hf, Pre.refl _ _, .nil⟩
  | cons e rest ih =>
    intro d' h h' hc hf
    obtain ⟨k, v⟩ := e
    simp only [cloneData, if_true] at hc
    split at hc
    · cases hc
    · rename_i v' h1 h1e
      split at hc
      · cases hc
      · rename_i rest' h2 h2e
        simp only [Except.ok.injEq, Prod.mk.injEq] at hc
        obtain ⟨rfl, rfl⟩ := hc
        obtain ⟨f1, p1, g1⟩ := deepcopy_spec h1e hf
        obtain ⟨f2, p2, g2⟩ := ih _ _ _ h2e f1
        exact ⟨f2, p1.trans p2, .cons ⟨rfl, g1⟩ g2⟩

theorem cloneData_shallow : ∀ (fuel : Nat) (d : List (String × PyVal)) (h : PyHeap),
    cloneData false fuel d h = .ok (d, h) := by
  intro fuel d
  induction d with
  | nil => intro h; rfl
  | cons e rest ih =>
    intro h
    obtain ⟨k, v⟩ := e
    simp [cloneData, ih]

theorem prefix_of_pre {h h' : PyHeap} (p : Pre h.length h h') : ∃ ext, h' = h ++ ext := by
  refine ⟨h'.drop h.length, ?_⟩
  apply List.ext_getElem?
  intro i
  by_cases hi : i < h.length
  · rw [List.getElem?_append_left hi]; exact p.2 i hi
  · rw [List.getElem?_append_right (by omega), List.getElem?_drop]
    congr 1; omega

theorem reach_fresh {n : Nat} {h : PyHeap} {roots : List PyVal} (hf : HFresh n h)
    (hr : ∀ j, PyVal.ref j ∈ roots → n ≤ j) : ∀ i, Reach h roots i → n ≤ i := by
  intro i hi
  induction hi with
  | root hm => exact hr _ hm
  | step _ ho hj ih => exact hf.2 _ _ ih ho _ hj

theorem forall2E_refs {n : Nat} {d d' : List (String × PyVal)} (h : All2 (GoodE n) d d') :
    ∀ k j, (k, PyVal.ref j) ∈ d' → n ≤ j := by
  induction h with
  | nil => intro k j hj; cases hj
  | cons g _ ih =>
    intro k j hj
    rcases List.mem_cons.1 hj with heq | hj
    · exact g.2.2 j (by rw [← heq])
    · exact ih k j hj

theorem forall2E_keys {n : Nat} {d d' : List (String × PyVal)} (h : All2 (GoodE n) d d') :
    d'.map (·.1) = d.map (·.1) := by
  induction h with
  | nil => rfl
  | cons g _ ih => simp [g.1, ih]

/-- what the clone's store and the heap look like relative to a base `n` below the heap the
    clone started from (used with `n` = the length of the heap before the FIRST store) -/
theorem cloneMeta_deep_spec {n fuel : Nat} {st st' : Store} {h h' : PyHeap}
    (hc : cloneMeta true fuel st h = .ok (st', h')) (hf : HFresh n h) :
    HFresh n h' ∧ Pre n h h' ∧ All2 (GoodE n) st.data st'.data ∧ st'.invalid = st.invalid := by
  simp only [cloneMeta] at hc
  split at hc
  · cases hc
  · rename_i d hd hde
    simp only [Except.ok.injEq, Prod.mk.injEq] at hc
    obtain ⟨rfl, rfl⟩ := hc
    obtain ⟨f, p, g⟩ := cloneData_deep_spec _ _ _ _ hde hf
    exact ⟨f, p, g, rfl⟩

/-- **C13_deep_copy_meta_fresh.**  `Cloner.clone_meta(old, new, deep_copy=True)`, for ALL heaps
    (also ill-formed ones), stores and fuel, when it returns: (a) no pre-existing object changed
    (the heap is extended), (b) every reference stored in the clone's store names a NEW cell,
    (c) new cells hold references to new cells only, hence (d) every Python object reachable from
    the clone's store is a new object; the keys (in order) and the invalid keys are those of the
    source and an atom is copied to the same atom. -/
theorem deep_copy_meta_fresh (fuel : Nat) (st st' : Store) (h h' : PyHeap)
    (hc : cloneMeta true fuel st h = .ok (st', h')) :
    (∃ ext, h' = h ++ ext) ∧
    (∀ k i, (k, PyVal.ref i) ∈ st'.data → h.length ≤ i) ∧
    (∀ i o, h.length ≤ i → h'[i]? = some o → ∀ j, PyVal.ref j ∈ o.vals → h.length ≤ j) ∧
    (∀ i, Reach h' (st'.data.map (·.2)) i → h.length ≤ i) ∧
    st'.data.map (·.1) = st.data.map (·.1) ∧ st'.invalid = st.invalid ∧
    All2 (fun e e' => e'.1 = e.1 ∧ ∀ s, e.2 = .atom s ↔ e'.2 = .atom s) st.data st'.data := by
  obtain ⟨f, p, g, hi⟩ := cloneMeta_deep_spec hc (HFresh.self h)
  refine ⟨prefix_of_pre p, forall2E_refs g, f.2, ?_, forall2E_keys g, hi, ?_⟩
  · apply reach_fresh f
    intro j hj
    simp only [List.mem_map] at hj
    obtain ⟨e, he, hej⟩ := hj
    exact forall2E_refs g e.1 j (by rw [← hej]; exact he)
  · exact g.imp fun _ _ ge => ⟨ge.1, ge.2.1⟩

/-- all the stores of one cloned IR object -/
theorem cloneMetaAll_deep_spec {n fuel : Nat} :
    ∀ (ss ss' : List Store) (h h' : PyHeap),
      cloneMetaAll true fuel ss h = .ok (ss', h') → HFresh n h →
      HFresh n h' ∧ Pre n h h' ∧
      All2 (fun s s' => All2 (GoodE n) s.data s'.data ∧ s'.invalid = s.invalid) ss ss' := by
  intro ss
  induction ss with
  | nil =>
    intro ss' h h' hc hf
    simp only [cloneMetaAll, Except.ok.injEq, Prod.mk.injEq] at hc
    obtain ⟨rfl, rfl⟩ := hc
    exact ⟨hf, Pre.refl _ _, .nil⟩
  | cons s rest ih =>
    intro ss' h h' hc hf
    simp only [cloneMetaAll] at hc
    split at hc
    · cases hc
    · rename_i s' h1 h1e
      split at hc
      · cases hc
      · rename_i rest' h2 h2e
        simp only [Except.ok.injEq, Prod.mk.injEq] at hc
        obtain ⟨rfl, rfl⟩ := hc
        obtain ⟨f1, p1, g1, i1⟩ := cloneMeta_deep_spec h1e hf
        obtain ⟨f2, p2, g2⟩ := ih _ _ _ h2e f1
        exact ⟨f2, p1.trans p2, .cons ⟨g1, i1⟩ g2⟩

/-- the roots of a family of stores -/
def rootsOf (ss : List Store) : List PyVal := ss.flatMap fun s => s.data.map (·.2)

/-- **C13_deep_copy_meta_fresh**, all stores of a cloned IR object (`cloneMetaAll`): every object
    reachable from ANY store of the clone is new, whatever aliasing there was between keys and
    between stores in the source. -/
theorem deep_copy_meta_fresh_all (fuel : Nat) (ss ss' : List Store) (h h' : PyHeap)
    (hc : cloneMetaAll true fuel ss h = .ok (ss', h')) :
    (∃ ext, h' = h ++ ext) ∧
    (∀ i o, h.length ≤ i → h'[i]? = some o → ∀ j, PyVal.ref j ∈ o.vals → h.length ≤ j) ∧
    (∀ i, Reach h' (rootsOf ss') i → h.length ≤ i) ∧
    All2 (fun s s' => s'.data.map (·.1) = s.data.map (·.1) ∧ s'.invalid = s.invalid ∧
      All2 (fun e e' => e'.1 = e.1 ∧ ∀ a, e.2 = .atom a ↔ e'.2 = .atom a) s.data s'.data)
      ss ss' := by
  obtain ⟨f, p, g⟩ := cloneMetaAll_deep_spec _ _ _ _ hc (HFresh.self h)
  refine ⟨prefix_of_pre p, f.2, ?_, ?_⟩
  · apply reach_fresh f
    intro j hj
    simp only [rootsOf, List.mem_flatMap, List.mem_map] at hj
    obtain ⟨s', hs', e, he, hej⟩ := hj
    have : ∀ s' ∈ ss', ∀ k j, (k, PyVal.ref j) ∈ s'.data → h.length ≤ j := by
      clear hs' he hc
      induction g with
      | nil => intro s' hs'; cases hs'
      | cons g1 _ ih =>
        intro s' hs'
        rcases List.mem_cons.1 hs' with rfl | hs'
        · exact forall2E_refs g1.1
        · exact ih s' hs'
    exact this s' hs' e.1 j (by rw [← hej]; exact he)
  · exact g.imp fun _ _ gs => ⟨forall2E_keys gs.1, gs.2, gs.1.imp fun _ _ ge => ⟨ge.1, ge.2.1⟩⟩

/-! ## frame: in-place edits of the clone's objects -/

theorem stepPy_frame (h : PyHeap) (e : PyEdit) :
    (stepPy h e).length = h.length ∧ ∀ i, i ≠ e.target → (stepPy h e)[i]? = h[i]? := by
  simp only [stepPy, applyPyEdit]
  split
  · rename_i h' heq
    split at heq
    · cases heq
    · split at heq
      · cases heq
      · simp only [Except.ok.injEq] at heq
        subst heq
        exact ⟨by simp, fun i hi => List.getElem?_set_ne (by omega)⟩
  · exact ⟨rfl, fun _ _ => rfl⟩

/-- a history of in-place edits whose targets are all at or above `n` changes no cell below `n` -/
theorem runPyHistory_frame (n : Nat) : ∀ (es : List PyEdit) (h : PyHeap),
    (∀ e ∈ es, n ≤ e.target) →
    (runPyHistory es h).length = h.length ∧ ∀ i, i < n → (runPyHistory es h)[i]? = h[i]? := by
  intro es
  induction es with
  | nil => intro h _; exact ⟨rfl, fun _ _ => rfl⟩
  | cons e es ih =>
    intro h ht
    have h1 := stepPy_frame h e
    have h2 := ih (stepPy h e) (fun e' he' => ht e' (List.mem_cons_of_mem _ he'))
    have hte := ht e (List.mem_cons_self ..)
    simp only [runPyHistory, List.foldl_cons] at h2 ⊢
    exact ⟨by rw [h2.1, h1.1], fun i hi => by rw [h2.2 i hi, h1.2 i (by omega)]⟩

theorem reach_child {h : PyHeap} {i : Nat} {o : PyObj} {c : PyVal} (ho : h[i]? = some o)
    (hc : c ∈ o.vals) : ∀ j, Reach h [c] j → Reach h [PyVal.ref i] j := by
  intro j hj
  induction hj with
  | root hm =>
    simp only [List.mem_singleton] at hm
    subst hm
    exact .step (.root (by simp)) ho hc
  | step _ ho' hj' ih => exact .step ih ho' hj'

theorem optAll_congr {α β : Type} (f g : α → Option β) :
    ∀ (xs : List α), (∀ x ∈ xs, f x = g x) → optAll (xs.map f) = optAll (xs.map g) := by
  intro xs
  induction xs with
  | nil => intro _; rfl
  | cons x xs ih =>
    intro hx
    simp only [List.map_cons]
    rw [hx x (List.mem_cons_self ..)]
    cases g x with
    | none => rfl
    | some b =>
      simp only [optAll]
      rw [ih (fun y hy => hx y (List.mem_cons_of_mem _ hy))]

/-- two heaps that agree below `n` observe alike from every value that reaches cells below `n`
    only -/
theorem obs_congr (n : Nat) (h1 h2 : PyHeap) (hsame : ∀ i, i < n → h2[i]? = h1[i]?) :
    ∀ (k : Nat) (v : PyVal), (∀ i, Reach h1 [v] i → i < n) → obs k h2 v = obs k h1 v := by
  intro k
  induction k with
  | zero => intro v _; cases v <;> rfl
  | succ k ih =>
    intro v hv
    cases v with
    | atom s => rfl
    | ref i =>
      have hi : i < n := hv i (.root (by simp))
      simp only [obs]
      rw [hsame i hi]
      cases ho : h1[i]? with
      | none => rfl
      | some o =>
        cases o with
        | list xs =>
          simp only
          rw [optAll_congr (obs k h2) (obs k h1) xs]
          intro c hc
          exact ih c fun j hj => hv j (reach_child ho (by simpa [PyObj.vals] using hc) j hj)
        | dict kv =>
          simp only
          rw [optAll_congr (fun e => obs k h2 e.2) (fun e => obs k h1 e.2) kv]
          intro e he
          exact ih e.2 fun j hj => hv j (reach_child ho
            (by simp only [PyObj.vals, List.mem_map]; exact ⟨e, he, rfl⟩) j hj)

/-- **C13_deep_copy_meta_frame** (index form).  After `clone_meta(.., deep_copy=True)`, every
    history of in-place edits whose target cells are objects created by the clone (index at or
    above the old heap length: by `deep_copy_meta_fresh` (d) these are all the objects reachable
    from the clone's store; the values written are arbitrary) leaves every pre-existing object
    unchanged, so every value whose reachable objects are pre-existing ones (every value of the
    ORIGINAL store in a well-formed heap) observes to the same tree to every depth. -/
theorem deep_copy_meta_frame (fuel : Nat) (st st' : Store) (h h' : PyHeap)
    (hc : cloneMeta true fuel st h = .ok (st', h')) (es : List PyEdit)
    (ht : ∀ e ∈ es, h.length ≤ e.target) :
    (∀ i, i < h.length → (runPyHistory es h')[i]? = h[i]?) ∧
    ∀ v, (∀ i, Reach h [v] i → i < h.length) → ∀ k, obs k (runPyHistory es h') v = obs k h v := by
  obtain ⟨_, p, _⟩ := cloneMeta_deep_spec hc (HFresh.self h)
  have key : ∀ i, i < h.length → (runPyHistory es h')[i]? = h[i]? := fun i hi => by
    rw [(runPyHistory_frame h.length es h' ht).2 i hi, p.2 i hi]
  exact ⟨key, fun v hv k => obs_congr h.length h _ key k v hv⟩

/-- a well-formed heap: no dangling reference inside a cell -/
def HeapClosed (h : PyHeap) : Prop :=
  ∀ (i : Nat) (o : PyObj), h[i]? = some o → ∀ j, PyVal.ref j ∈ o.vals → j < h.length

theorem reach_closed {h : PyHeap} (hw : HeapClosed h) {roots : List PyVal}
    (hr : ∀ j, PyVal.ref j ∈ roots → j < h.length) : ∀ i, Reach h roots i → i < h.length := by
  intro i hi
  induction hi with
  | root hm => exact hr _ hm
  | step _ ho hj ih => exact hw _ _ ho _ hj

/-! ### the frame theorem with targets given by reachability from the clone's store -/

/-- a history of edits of objects reached from `roots` AT THE TIME OF THE EDIT; a value written is
    an atom or (a reference to) an object reached from `roots` at that time -/
def ReachHistory (roots : List PyVal) : List PyEdit → PyHeap → Prop
  | [], _ => True
  | e :: es, h => Reach h roots e.target ∧ (∀ j, e.written = some (.ref j) → Reach h roots j) ∧
      ReachHistory roots es (stepPy h e)

theorem dictSetKV_vals (k : String) (v : PyVal) : ∀ (kv : List (String × PyVal)) (c : PyVal),
    c ∈ (dictSetKV k v kv).map (·.2) → c ∈ kv.map (·.2) ∨ c = v := by
  intro kv
  induction kv with
  | nil => intro c hc; simp [dictSetKV] at hc; exact .inr hc
  | cons e rest ih =>
    intro c hc
    obtain ⟨k', v'⟩ := e
    simp only [dictSetKV] at hc
    split at hc
    · simp only [List.map_cons, List.mem_cons] at hc ⊢
      rcases hc with rfl | hc
      · exact .inr rfl
      · exact .inl (.inr hc)
    · simp only [List.map_cons, List.mem_cons] at hc ⊢
      rcases hc with rfl | hc
      · exact .inl (.inl rfl)
      · rcases ih c hc with h | h
        · exact .inl (.inr h)
        · exact .inr h

/-- an edit stores nothing but what the cell held and the value written -/
theorem editObj_vals {e : PyEdit} {o o' : PyObj} (h : editObj e o = .ok o') :
    ∀ c, c ∈ o'.vals → c ∈ o.vals ∨ e.written = some c := by
  intro c hc
  cases e <;> cases o <;> simp only [editObj] at h <;> try (cases h; done)
  · cases h
    simp only [PyObj.vals, List.mem_append, List.mem_singleton] at hc ⊢
    rcases hc with hc | rfl
    · exact .inl hc
    · exact .inr rfl
  · split at h
    · cases h
      simp only [PyObj.vals] at hc ⊢
      rcases List.mem_or_eq_of_mem_set hc with hc | rfl
      · exact .inl hc
      · exact .inr rfl
    · cases h
  · split at h
    · cases h
    · cases h
      exact .inl (List.dropLast_subset _ hc)
  · cases h
    simp only [PyObj.vals] at hc ⊢
    rcases dictSetKV_vals _ _ _ _ hc with hc | rfl
    · exact .inl hc
    · exact .inr rfl
  · split at h
    · cases h
      simp only [PyObj.vals, List.mem_map] at hc ⊢
      obtain ⟨p, hp, rfl⟩ := hc
      exact .inl ⟨p, (List.mem_filter.1 hp).1, rfl⟩
    · cases h

theorem stepPy_fresh {n : Nat} {h : PyHeap} {e : PyEdit} (hf : HFresh n h) (_ht : n ≤ e.target)
    (hw : ∀ j, e.written = some (.ref j) → n ≤ j) : HFresh n (stepPy h e) := by
  refine ⟨by rw [(stepPy_frame h e).1]; exact hf.1, ?_⟩
  intro i o hi ho j hj
  by_cases hie : i = e.target
  · simp only [stepPy, applyPyEdit] at ho
    split at ho
    · rename_i h' heq
      split at heq
      · cases heq
      · rename_i o0 ho0
        split at heq
        · cases heq
        · rename_i o1 ho1
          simp only [Except.ok.injEq] at heq
          subst heq
          subst hie
          have hlt : e.target < h.length := by
            rcases Nat.lt_or_ge e.target h.length with hlt | hge
            · exact hlt
            · rw [List.getElem?_eq_none hge] at ho0; cases ho0
          rw [List.getElem?_set_self hlt] at ho
          cases ho
          rcases editObj_vals ho1 _ hj with hin | hwr
          · exact hf.2 _ _ hi ho0 j hin
          · exact hw j hwr
    · exact hf.2 _ _ hi ho j hj
  · rw [(stepPy_frame h e).2 i hie] at ho
    exact hf.2 _ _ hi ho j hj

theorem reachHistory_targets {n : Nat} {roots : List PyVal} (hr : ∀ j, PyVal.ref j ∈ roots → n ≤ j) :
    ∀ (es : List PyEdit) (h : PyHeap), HFresh n h → ReachHistory roots es h →
      ∀ i, i < n → (runPyHistory es h)[i]? = h[i]? := by
  intro es
  induction es with
  | nil => intro h _ _ i _; rfl
  | cons e es ih =>
    intro h hf hh i hi
    obtain ⟨h1, h2, h3⟩ := hh
    have ht : n ≤ e.target := reach_fresh hf hr _ h1
    have hf' : HFresh n (stepPy h e) :=
      stepPy_fresh hf ht fun j hj => reach_fresh hf hr _ (h2 j hj)
    simp only [runPyHistory, List.foldl_cons]
    have := ih (stepPy h e) hf' h3 i hi
    simp only [runPyHistory] at this
    rw [this, (stepPy_frame h e).2 i (by omega)]

/-- **C13_deep_copy_meta_frame** (reachability form): the edited objects are whatever is reachable
    from the clone's store at the time of each edit, the values written are atoms or objects
    reachable from the clone's store: no pre-existing object changes, and what the original's
    values observe is unchanged. -/
theorem deep_copy_meta_frame_reach (fuel : Nat) (st st' : Store) (h h' : PyHeap)
    (hc : cloneMeta true fuel st h = .ok (st', h')) (es : List PyEdit)
    (hh : ReachHistory (st'.data.map (·.2)) es h') :
    (∀ i, i < h.length → (runPyHistory es h')[i]? = h[i]?) ∧
    ∀ v, (∀ i, Reach h [v] i → i < h.length) → ∀ k, obs k (runPyHistory es h') v = obs k h v := by
  obtain ⟨f, p, g, _⟩ := cloneMeta_deep_spec hc (HFresh.self h)
  have hr : ∀ j, PyVal.ref j ∈ st'.data.map (·.2) → h.length ≤ j := by
    intro j hj
    simp only [List.mem_map] at hj
    obtain ⟨e, he, hej⟩ := hj
    exact forall2E_refs g e.1 j (by rw [← hej]; exact he)
  have key : ∀ i, i < h.length → (runPyHistory es h')[i]? = h[i]? := fun i hi => by
    rw [reachHistory_targets hr es h' f hh i hi, p.2 i hi]
  exact ⟨key, fun v hv k => obs_congr h.length h _ key k v hv⟩

/-- the same for all the stores of a cloned IR object -/
theorem deep_copy_meta_frame_all (fuel : Nat) (ss ss' : List Store) (h h' : PyHeap)
    (hc : cloneMetaAll true fuel ss h = .ok (ss', h')) (es : List PyEdit)
    (hh : ReachHistory (rootsOf ss') es h') :
    (∀ i, i < h.length → (runPyHistory es h')[i]? = h[i]?) ∧
    ∀ v, (∀ i, Reach h [v] i → i < h.length) → ∀ k, obs k (runPyHistory es h') v = obs k h v := by
  obtain ⟨f, p, _⟩ := cloneMetaAll_deep_spec _ _ _ _ hc (HFresh.self h)
  have hr : ∀ j, PyVal.ref j ∈ rootsOf ss' → h.length ≤ j := fun j hj =>
    (deep_copy_meta_fresh_all fuel ss ss' h h' hc).2.2.1 j (.root hj)
  have key : ∀ i, i < h.length → (runPyHistory es h')[i]? = h[i]? := fun i hi => by
    rw [reachHistory_targets hr es h' f hh i hi, p.2 i hi]
  exact ⟨key, fun v hv k => obs_congr h.length h _ key k v hv⟩

/-! ## `deep_copy=False` -/

/-- **C13_shallow_meta_shared.**  `clone_meta(.., deep_copy=False)` (the default of every `clone`
    entry point, and what `passes.functionalize` uses): the STORE is a new container (a new record
    here; a new `dict` cell in `IrVerif.Clone`), its keys and invalid keys are copied, the heap of
    stored objects is untouched and every stored object is THE SAME object as in the source.
    An in-place edit made through the clone's store is therefore visible through the original's
    store (witness below).  The property statement demands that the "metadata containers are new
    objects" (containers, not contents) and `deep_copy=False` is the documented default, so this is
    recorded as an observation (`observation=meta-shared:*` counts of the check), not a violation. -/
theorem shallow_meta_shared (fuel : Nat) (st : Store) (h : PyHeap) :
    ∃ st', cloneMeta false fuel st h = .ok (st', h) ∧ st'.data = st.data ∧ st'.invalid = st.invalid := by
  refine ⟨{ data := st.data, invalid := st.invalid }, ?_, rfl, rfl⟩
  simp [cloneMeta, cloneData_shallow]

/-! ## witnesses and non-vacuity -/

/-- cell 0 = `[cell 0, "a", cell 1]` (contains itself), cell 1 = `{"k": cell 0}` -/
def exHeap : PyHeap := [.list [.ref 0, .atom "a", .ref 1], .dict [("k", .ref 0)]]
/-- `meta["a"] is meta["b"]`, an atom, an invalid key -/
def exStore : Store := { data := [("a", .ref 0), ("b", .ref 0), ("c", .atom "z")], invalid := ["c"] }

/-- the hypothesis of `deep_copy_meta_fresh` / `_frame` is satisfiable on a cyclic heap with
    aliasing between keys; and deep_copy does NOT preserve the aliasing between two keys: the
    source has `meta["a"] is meta["b"]`, the clone two different lists (cells 2 and 4) -/
example : cloneMeta true 3 exStore exHeap = .ok
    ({ data := [("a", .ref 2), ("b", .ref 4), ("c", .atom "z")], invalid := ["c"] },
     exHeap ++ [.list [.ref 2, .atom "a", .ref 3], .dict [("k", .ref 2)],
                .list [.ref 4, .atom "a", .ref 5], .dict [("k", .ref 4)]]) := by rfl

/-- too little fuel, a dangling reference: the error outcomes exist -/
example : cloneMeta true 1 exStore exHeap = .error .fuel := by rfl
example : cloneMeta true 3 { data := [("a", .ref 7)], invalid := [] } exHeap =
    .error (.unsupported "dangling reference") := by rfl

/-- `ht` of `deep_copy_meta_frame`: a history on the clone's cells, and it does something -/
example : (∀ e ∈ [PyEdit.listAppend 2 (.atom "n"), .dictDel 3 "k"], exHeap.length ≤ e.target) ∧
    runPyHistory [PyEdit.listAppend 2 (.atom "n"), .dictDel 3 "k"]
      (exHeap ++ [.list [.ref 2, .atom "a", .ref 3], .dict [("k", .ref 2)]]) =
      exHeap ++ [.list [.ref 2, .atom "a", .ref 3, .atom "n"], .dict []] := by decide

/-- `ReachHistory` is satisfiable: append to the clone's list, then write into the dict reached
    through it -/
example : ReachHistory [.ref 2] [PyEdit.listAppend 2 (.atom "n"), .dictSet 3 "q" (.ref 2)]
    (exHeap ++ [.list [.ref 2, .atom "a", .ref 3], .dict [("k", .ref 2)]]) := by
  refine ⟨?_, by simp [PyEdit.written], ?_, ?_, trivial⟩
  · show Reach _ _ 2
    exact .root (by simp)
  · show Reach _ _ 3
    exact .step (i := 2) (.root (by simp)) (o := .list [.ref 2, .atom "a", .ref 3, .atom "n"])
      (by decide) (by simp [PyObj.vals])
  · intro j hj
    simp only [PyEdit.written, Option.some.injEq, PyVal.ref.injEq] at hj
    subst hj
    exact .root (by simp)

/-- the reach hypothesis on the original's values of `deep_copy_meta_frame` holds for the values
    of a store in a closed heap -/
example : HeapClosed exHeap ∧ ∀ i, Reach exHeap [.ref 0] i → i < exHeap.length := by
  have hw : HeapClosed exHeap := by
    unfold HeapClosed
    intro i o ho j hj
    match i, ho with
    | 0, ho => cases ho; simp [PyObj.vals] at hj; rcases hj with rfl | rfl <;> simp [exHeap]
    | 1, ho => cases ho; simp [PyObj.vals] at hj; subst hj; simp [exHeap]
    | i + 2, ho => simp [exHeap] at ho
  exact ⟨hw, reach_closed hw (by simp [exHeap])⟩

/-- `deep_copy=False`: an in-place edit through the CLONE's store (`clone.meta["a"].append("n")`)
    changes what the ORIGINAL's store observes; with `deep_copy=True` the same edit of the clone's
    object does not -/
example :
    (cloneMeta false 3 exStore exHeap).toOption.map (fun r =>
      (r.1.data.lookup "a",
       decide (obs 2 (runPyHistory [.listAppend 0 (.atom "n")] r.2) (.ref 0) = obs 2 exHeap (.ref 0))))
      = some (some (.ref 0), false) ∧
    (cloneMeta true 3 exStore exHeap).toOption.map (fun r =>
      (r.1.data.lookup "a",
       decide (obs 2 (runPyHistory [.listAppend 2 (.atom "n")] r.2) (.ref 0) = obs 2 exHeap (.ref 0))))
      = some (some (.ref 2), true) := by decide

/-! ## faithfulness -/

/-- `copy.deepcopy(value)` observes like its source, to every depth, in a well-formed heap.
    (`HeapClosed` is needed IN THE MODEL: a dangling slot `ref i`, `i` beyond the heap, would name
    a cell the copy itself has just allocated; no Python heap has dangling references.  Witnesses
    in Lemmas/CloneMetaFaithful.lean.) -/
theorem deepcopy_faithful (fuel : Nat) (v v' : PyVal) (h h' : PyHeap) (hwf : HeapClosed h)
    (hc : deepcopy fuel v h = .ok (v', h')) : ∀ k, obs k h' v' = obs k h v :=
  Faithful.deepcopy_faithful fuel v v' h h' hwf hc

/-- **C13_deep_copy_meta_faithful.**  In a well-formed heap (no dangling reference in a cell or in
    the store; decidable, evaluated by the check: true for every Python heap)
    `clone_meta(.., deep_copy=True)` yields a store that observes exactly like the source store: the
    same keys in order, the same invalid keys, and per key a value that unfolds to the same tree
    to EVERY depth `k` (lists, dicts, atoms, sharing and cycles inside one value included: the
    final memo of each `deepcopy` call is a graph isomorphism). -/
theorem deep_copy_meta_faithful (fuel : Nat) (st st' : Store) (h h' : PyHeap) (hwf : HeapClosed h)
    (hst : ∀ k j, (k, PyVal.ref j) ∈ st.data → j < h.length)
    (hc : cloneMeta true fuel st h = .ok (st', h')) :
    ∀ k, obsStore k h' st' = obsStore k h st :=
  Faithful.deep_copy_meta_faithful fuel st st' h h' hwf
    (fun e he j hj => hst e.1 j (by rw [← hj]; exact he)) hc

/-- the executable check the driver evaluates implies the hypothesis `hwf` -/
theorem heapClosed_of_B {h : PyHeap} (hb : heapClosedB h = true) : HeapClosed h := by
  intro i o ho j hj
  simp only [heapClosedB, List.all_eq_true] at hb
  have := hb o (List.mem_of_getElem? ho) (.ref j) hj
  simpa [PyVal.below] using this

/-- the executable check the driver evaluates implies the hypothesis `hst` -/
theorem storeOk_of_B {h : PyHeap} {st : Store} (hb : storeOkB h st = true) :
    ∀ k j, (k, PyVal.ref j) ∈ st.data → j < h.length := by
  intro k j hm
  simp only [storeOkB, List.all_eq_true] at hb
  simpa [PyVal.below] using hb _ hm

/-- non-vacuity of `hwf`, `hst`, `hc` together (cyclic heap, aliasing between keys) -/
example : HeapClosed exHeap ∧ (∀ k j, (k, PyVal.ref j) ∈ exStore.data → j < exHeap.length) ∧
    (cloneMeta true 3 exStore exHeap).toBool = true := by
  refine ⟨?_, ?_, by decide⟩
  · unfold HeapClosed
    intro i o ho j hj
    match i, ho with
    | 0, ho => cases ho; simp [PyObj.vals] at hj; rcases hj with rfl | rfl <;> simp [exHeap]
    | 1, ho => cases ho; simp [PyObj.vals] at hj; subst hj; simp [exHeap]
    | i + 2, ho => simp [exHeap] at ho
  · intro k j hm
    simp [exStore] at hm
    rcases hm with ⟨_, rfl⟩ | ⟨_, rfl⟩ <;> simp [exHeap]

end IrVerif.Clone.Meta

/-
The link invariants hold along every successful run of `deserGraph` (mutual induction on the proto).
-/
import IrVerif.Lemmas.ScopeInv
namespace IrVerif.Scope

/-- names whose node has not been built yet are bound to values without producer -/
def Pend (st : Store) (top : Table) (names : List Name) : Prop :=
  ∀ x ∈ names, ∃ v, top.lookup x = some v ∧ (st.vals v).producer = none

/-- entries whose name is not a declared node output never get a producer -/
def Roots (st : Store) (top : Table) (decl : List Name) : Prop :=
  ∀ e ∈ top, e.1 ∉ decl → (st.vals e.2).producer = none

/-- the values bound in the scope of a graph under construction are not owned by any graph yet -/
def Unowned (st : Store) (top : Table) : Prop :=
  ∀ e ∈ top, (st.vals e.2).graph = none ∧ (st.vals e.2).isIn = false ∧ (st.vals e.2).isOut = false ∧
    (st.vals e.2).isInit = false

theorem unlinked_default {c : ValueS} (h : linksOf c = linksOf {}) :
    c.producer = none ∧ c.graph = none ∧ c.isIn = false ∧ c.isOut = false ∧ c.isInit = false := by
  obtain ⟨_, a, _, b, c1, c2, c3⟩ := linksOf_eq h
  exact ⟨a, b, c1, c2, c3⟩

theorem outNames_cons (n : NodeP) (ns : List NodeP) :
    outNames (n :: ns) = n.outputs.filter (· ≠ "") ++ outNames ns := by
  simp [outNames, List.flatMap_cons, List.filter_append]

mutual
theorem deserGraph_links :
    ∀ (p : GraphP) (st : Store) (outer : List Table) (st' : Store) (g : GraphT) (R : List NRec) (G : List GRec),
      Fresh st → TablesLt st outer → Inv st R G → deserGraph st outer p = .ok (st', g) →
      Inv st' (R ++ recsG g) (G ++ grecsG g)
  | .mk inputs inits vinfo nodes outputs, st, outer, st', g, R, G, hf, ho, hinv, h => by
    obtain ⟨st3, tbl3, st4, tbl4, ns, h3, h4, h5⟩ := deserGraph_inv h
    obtain ⟨q1, hnv1, hins⟩ := deserInputs_spec st inputs
    have ok1 := inputTable_ok st inputs
    have f1 := q1.fresh hf
    obtain ⟨q2, ok2, s2, miv⟩ := deserInits_spec (vinfoTable vinfo) inits _ _ st.nv ok1 q1.nv_le
    have f2 := q2.fresh f1
    have le2 : st.nv ≤ (deserInits (deserInputs st inputs).1 (inputTable inputs (deserInputs st inputs).2)
        (vinfoTable vinfo) inits).1.nv := Nat.le_trans q1.nv_le q2.nv_le
    obtain ⟨q3, ok3, s3, m3, nd3⟩ := declareNodes_spec (vinfoTable vinfo) nodes _ _ st.nv st3 tbl3 ok2 le2 h3
    have f3 := q3.fresh f2
    have le3 : st.nv ≤ st3.nv := Nat.le_trans le2 q3.nv_le
    have q13 : Quiet st st3 := (q1.trans q2).trans q3
    have inv3 : Inv st3 R G := hinv.quiet q13 hf
    -- every cell allocated by this graph so far is unlinked
    have hdef : ∀ v, st.nv ≤ v → linksOf (st3.vals v) = linksOf {} := by
      intro v hv
      rw [q13.links hf v, hf v hv]
    have pend3 : Pend st3 tbl3 (outNames nodes) := by
      intro x hx
      obtain ⟨_, v, hl, hge⟩ := m3 x hx
      exact ⟨v, hl, (unlinked_default (hdef v (Nat.le_trans le2 hge))).1⟩
    have roots3 : Roots st3 tbl3 (outNames nodes) := fun e he _ =>
      (unlinked_default (hdef e.2 (ok3.ge e he))).1
    have unown3 : Unowned st3 tbl3 := fun e he =>
      (unlinked_default (hdef e.2 (ok3.ge e he))).2
    obtain ⟨f4, m4, ok4, s4⟩ := deserNodes_struct nodes st3 tbl3 outer (vinfoTable vinfo) st.nv st4 tbl4 ns f3 ok3
      (ho.mono le3) le3 h4
    obtain ⟨inv4, roots4, unown4⟩ := deserNodes_links nodes st3 tbl3 outer (vinfoTable vinfo) st.nv st4 tbl4 ns R G
      (outNames nodes) f3 ok3 (ho.mono le3) le3 inv3 pend3 nd3 (fun _ hx => hx) roots3 unown3 h4
    obtain ⟨q5, mo⟩ := deserOutputs_spec tbl4 outputs st4 st.nv ok4
    have inv5 := inv4.quiet q5 f4
    have hl5 : ∀ v, _ := fun v => linksOf_eq (q5.links f4 v)
    -- the values handed to `mkGraph`
    have ins_mem : ∀ v ∈ (deserInputs st inputs).2, ∃ x, (x, v) ∈ tbl4 := by
      intro v hv
      rw [hins] at hv
      obtain ⟨x, hx⟩ := inputTable_vals inputs st.nv v hv
      rw [← hins] at hx
      exact ⟨x, s4.mem _ (s3.mem _ (s2.mem _ hx))⟩
    have iv_mem : ∀ v ∈ (deserInits (deserInputs st inputs).1 (inputTable inputs (deserInputs st inputs).2)
        (vinfoTable vinfo) inits).2.2, ∃ x, (x, v) ∈ tbl4 := by
      intro v hv
      obtain ⟨x, _, hx⟩ := miv v hv
      exact ⟨x, s4.mem _ (s3.mem _ hx)⟩
    have hun : ∀ v, v ∈ (deserInputs st inputs).2 ∨ v ∈ (deserOutputs st4 tbl4 outputs).2 ∨
        v ∈ (deserInits (deserInputs st inputs).1 (inputTable inputs (deserInputs st inputs).2)
          (vinfoTable vinfo) inits).2.2 →
        ((deserOutputs st4 tbl4 outputs).1.vals v).graph = none ∧
        ((deserOutputs st4 tbl4 outputs).1.vals v).isIn = false ∧
        ((deserOutputs st4 tbl4 outputs).1.vals v).isOut = false ∧
        ((deserOutputs st4 tbl4 outputs).1.vals v).isInit = false := by
      intro v hv
      have intbl : (∃ x, (x, v) ∈ tbl4) →
          ((deserOutputs st4 tbl4 outputs).1.vals v).graph = none ∧
          ((deserOutputs st4 tbl4 outputs).1.vals v).isIn = false ∧
          ((deserOutputs st4 tbl4 outputs).1.vals v).isOut = false ∧
          ((deserOutputs st4 tbl4 outputs).1.vals v).isInit = false := by
        intro hx
        obtain ⟨x, hx⟩ := hx
        have := unown4 (x, v) hx
        rw [(hl5 v).2.2.2.1, (hl5 v).2.2.2.2.1, (hl5 v).2.2.2.2.2.1, (hl5 v).2.2.2.2.2.2]
        exact this
      rcases hv with hv | hv | hv
      · exact intbl (ins_mem v hv)
      · rcases mo v hv with hx | ⟨hge, _⟩
        · exact intbl hx
        · have := unlinked_default (show linksOf ((deserOutputs st4 tbl4 outputs).1.vals v) = linksOf {} by
            rw [q5.links f4 v, f4 v hge])
          exact this.2
      · exact intbl (iv_mem v hv)
    have hroot : ∀ v, v ∈ (deserInputs st inputs).2 ∨
        v ∈ (deserInits (deserInputs st inputs).1 (inputTable inputs (deserInputs st inputs).2)
          (vinfoTable vinfo) inits).2.2 →
        ((deserOutputs st4 tbl4 outputs).1.vals v).producer = none := by
      intro v hv
      -- `v` is bound in `tbl2` under a name that is not a declared output
      have h2 : ∃ x, (x, v) ∈ (deserInits (deserInputs st inputs).1 (inputTable inputs (deserInputs st inputs).2)
          (vinfoTable vinfo) inits).2.1 := by
        rcases hv with hv | hv
        · rw [hins] at hv
          obtain ⟨x, hx⟩ := inputTable_vals inputs st.nv v hv
          rw [← hins] at hx
          exact ⟨x, s2.mem _ hx⟩
        · obtain ⟨x, _, hx⟩ := miv v hv
          exact ⟨x, hx⟩
      obtain ⟨x, hx⟩ := h2
      have hnd : x ∉ outNames nodes := fun hm => lookup_ne_none_of_mem _ _ _ hx (m3 x hm).1
      have := roots4 (x, v) (s4.mem _ (s3.mem _ hx)) hnd
      rw [(hl5 v).2.1]
      exact this
    have hres := inv5.of_mkGraph (deserInputs st inputs).2 (deserOutputs st4 tbl4 outputs).2 ns
      (deserInits (deserInputs st inputs).1 (inputTable inputs (deserInputs st inputs).2)
        (vinfoTable vinfo) inits).2.2 hun hroot
    have e1 : st' = (mkGraph (deserOutputs st4 tbl4 outputs).1 (deserInputs st inputs).2
        (deserOutputs st4 tbl4 outputs).2 ns (deserInits (deserInputs st inputs).1
          (inputTable inputs (deserInputs st inputs).2) (vinfoTable vinfo) inits).2.2).1 := by rw [h5]
    have e2 : g = (mkGraph (deserOutputs st4 tbl4 outputs).1 (deserInputs st inputs).2
        (deserOutputs st4 tbl4 outputs).2 ns (deserInits (deserInputs st inputs).1
          (inputTable inputs (deserInputs st inputs).2) (vinfoTable vinfo) inits).2.2).2 := by rw [h5]
    rw [e1, e2, mkGraph_snd]
    simp only [recsG, grecsG, recsNs_setGraph, grecsNs_setGraph, ← List.append_assoc]
    rw [(q5.ng_eq : (deserOutputs st4 tbl4 outputs).1.ng = st4.ng)] at hres ⊢
    exact hres
theorem deserNodes_links :
    ∀ (ns : List NodeP) (st : Store) (top : Table) (outer : List Table) (vi : List (Name × Info)) (b : Nat)
      (st' : Store) (top' : Table) (nts : List NodeT) (R : List NRec) (G : List GRec) (decl : List Name),
      Fresh st → TblOK st b top → TablesLt st outer → b ≤ st.nv → Inv st R G →
      Pend st top (outNames ns) → (outNames ns).Nodup → (∀ x ∈ outNames ns, x ∈ decl) →
      Roots st top decl → Unowned st top →
      deserNodes st top outer vi ns = .ok (st', top', nts) →
      Inv st' (R ++ recsNs nts) (G ++ grecsNs nts) ∧ Roots st' top' decl ∧ Unowned st' top'
  | [], st, top, outer, vi, b, st', top', nts, R, G, decl, _, _, _, _, hinv, _, _, _, hr, hu, h => by
    simp only [deserNodes, Except.ok.injEq, Prod.mk.injEq] at h
    obtain ⟨rfl, rfl, rfl⟩ := h
    simpa [recsNs, grecsNs] using ⟨hinv, hr, hu⟩
  | n :: ns, st, top, outer, vi, b, st', top', nts, R, G, decl, hf, hok, ho, hb, hinv, hp, hnd, hdecl, hr, hu, h => by
    obtain ⟨st1, top1, nt, nts', h1, h2, rfl⟩ := deserNodes_inv h
    obtain ⟨f1, m1, ok1, _⟩ := deserNode_struct n st top outer vi b st1 top1 nt hf hok ho hb h1
    obtain ⟨inv1, p1, r1, u1⟩ := deserNode_links n ns st top outer vi b st1 top1 nt R G decl hf hok ho hb hinv hp
      hnd hdecl hr hu h1
    have hnd' : (outNames ns).Nodup := by
      rw [outNames_cons, List.nodup_append] at hnd; exact hnd.2.1
    have hdecl' : ∀ x ∈ outNames ns, x ∈ decl := fun x hx => hdecl x (by rw [outNames_cons]; simp [hx])
    obtain ⟨inv2, r2, u2⟩ := deserNodes_links ns st1 top1 outer vi b st' top' nts' _ _ decl f1 ok1
      (ho.mono m1.nv_le) (Nat.le_trans hb m1.nv_le) inv1 p1 hnd' hdecl' r1 u1 h2
    simp only [recsNs, grecsNs, ← List.append_assoc]
    exact ⟨inv2, r2, u2⟩
theorem deserNode_links :
    ∀ (n : NodeP) (rest : List NodeP) (st : Store) (top : Table) (outer : List Table) (vi : List (Name × Info))
      (b : Nat) (st' : Store) (top' : Table) (nt : NodeT) (R : List NRec) (G : List GRec) (decl : List Name),
      Fresh st → TblOK st b top → TablesLt st outer → b ≤ st.nv → Inv st R G →
      Pend st top (outNames (n :: rest)) → (outNames (n :: rest)).Nodup →
      (∀ x ∈ outNames (n :: rest), x ∈ decl) → Roots st top decl → Unowned st top →
      deserNode st top outer vi n = .ok (st', top', nt) →
      Inv st' (R ++ recsN nt) (G ++ grecsN nt) ∧ Pend st' top' (outNames rest) ∧ Roots st' top' decl ∧
        Unowned st' top'
  | .mk inputs outputs subs, rest, st, top, outer, vi, b, st', top', nt, R, G, decl, hf, hok, ho, hb, hinv, hp,
      hnd, hdecl, hr, hu, h => by
    obtain ⟨st2, outs, st3, gs, h2, h3, rfl, rfl, rfl⟩ := deserNode_inv h
    obtain ⟨q1, ok1, s1, mi⟩ := resolveInputs_spec outer vi inputs st top b hok ho hb
    have f1 := q1.fresh hf
    obtain ⟨q2, _, mo, _, hn⟩ := lookupOutputs_spec _ outputs _ _ _ h2
    have f2 := q2.fresh f1
    have q12 := q1.trans q2
    have le1 : b ≤ (resolveInputs st top outer vi inputs).1.nv := Nat.le_trans hb q1.nv_le
    have hts : TablesLt st2 ((resolveInputs st top outer vi inputs).2.1 :: outer) :=
      TablesLt.cons (ok1.lt.mono q2.nv_le) (ho.mono (Nat.le_trans q1.nv_le q2.nv_le))
    obtain ⟨f3, m3⟩ := deserSubs_struct subs st2 _ st3 gs f2 hts h3
    have inv2 : Inv st2 R G := hinv.quiet q12 hf
    have inv3 := deserSubs_links subs st2 _ st3 gs R G f2 hts inv2 h3
    rw [outNames_cons] at hp hnd hdecl
    simp only [NodeP.outputs] at hp hnd hdecl
    rw [List.nodup_append] at hnd
    -- link fields of a cell of the current scope: unchanged from `st` to `st3`
    have hl12 : ∀ v, _ := fun v => linksOf_eq (q12.links hf v)
    have entry_lt : ∀ e ∈ (resolveInputs st top outer vi inputs).2.1, e.2 < st2.nv := fun e he =>
      Nat.lt_of_lt_of_le (ok1.lt e he) q2.nv_le
    -- cells of entries of the grown table, seen from `st`
    have entry_def : ∀ e ∈ (resolveInputs st top outer vi inputs).2.1, e ∈ top ∨ linksOf (st2.vals e.2) = linksOf {} := by
      intro e he
      rcases s1.grow e he with h | h
      · exact .inl h
      · right; rw [q12.links hf, hf _ h]
    have keep3 : ∀ v, v < st2.nv → (st3.vals v).producer = (st2.vals v).producer ∧
        (st3.vals v).graph = (st2.vals v).graph ∧ (st3.vals v).isIn = (st2.vals v).isIn ∧
        (st3.vals v).isOut = (st2.vals v).isOut ∧ (st3.vals v).isInit = (st2.vals v).isInit := by
      intro v hv
      have := m3.keep v hv
      simp only [linksOf, Prod.mk.injEq] at this
      exact ⟨this.1, this.2.2.1, this.2.2.2.1, this.2.2.2.2.1, this.2.2.2.2.2⟩
    have pend3 : ∀ x ∈ outputs.filter (· ≠ "") ++ outNames rest,
        ∃ v, (resolveInputs st top outer vi inputs).2.1.lookup x = some v ∧ (st3.vals v).producer = none := by
      intro x hx
      obtain ⟨v, hl, hpn⟩ := hp x hx
      have hl' := s1.lookup _ _ hl
      refine ⟨v, hl', ?_⟩
      rw [(keep3 v (entry_lt _ (lookup_mem _ _ _ hl'))).1, (hl12 v).2.1]
      exact hpn
    have roots3 : Roots st3 (resolveInputs st top outer vi inputs).2.1 decl := by
      intro e he hne
      rw [(keep3 e.2 (entry_lt e he)).1]
      rcases entry_def e he with h | h
      · rw [(hl12 e.2).2.1]; exact hr e h hne
      · exact (unlinked_default h).1
    have unown3 : Unowned st3 (resolveInputs st top outer vi inputs).2.1 := by
      intro e he
      obtain ⟨_, k2, k3, k4, k5⟩ := keep3 e.2 (entry_lt e he)
      rw [k2, k3, k4, k5]
      rcases entry_def e he with h | h
      · rw [(hl12 e.2).2.2.2.1, (hl12 e.2).2.2.2.2.1, (hl12 e.2).2.2.2.2.2.1, (hl12 e.2).2.2.2.2.2.2]
        exact hu e h
      · exact (unlinked_default h).2
    -- the outputs of the node
    have outs_lt : ∀ w ∈ outs, w < st2.nv := by
      intro w hw
      rcases mo w hw with ⟨y, _, _, hl⟩ | ⟨_, h2'⟩
      · exact entry_lt _ (lookup_mem _ _ _ hl)
      · exact h2'
    have outs_def : ∀ w ∈ outs, (st3.vals w).producer = none ∧ (st3.vals w).graph = none := by
      intro w hw
      obtain ⟨k1, k2, _⟩ := keep3 w (outs_lt w hw)
      rw [k1, k2]
      rcases mo w hw with ⟨y, hy, hyne, hl⟩ | ⟨hge, _⟩
      · obtain ⟨v, hl', hpn⟩ := pend3 y (by simp [List.mem_filter, hy, hyne])
        rw [hl] at hl'
        cases hl'
        have hm := lookup_mem _ _ _ hl
        refine ⟨by rw [← (keep3 w (entry_lt _ hm)).1]; exact hpn, ?_⟩
        rw [← (keep3 w (entry_lt _ hm)).2.1]
        exact (unown3 _ hm).1
      · have : linksOf (st2.vals w) = linksOf {} := by rw [q2.links f1 w, f1 w hge]
        exact ⟨(unlinked_default this).1, (unlinked_default this).2.1⟩
    have outs_nd : outs.Nodup := hn b ok1 hnd.1
    have hres := inv3.of_mkNode (resolveInputs st top outer vi inputs).2.2 outs gs
      (fun w hw => (outs_def w hw).1) outs_nd (fun w hw => (outs_def w hw).2)
    -- an entry of the scope whose name is not an output name of this node is not among `outs`
    have not_out : ∀ e ∈ (resolveInputs st top outer vi inputs).2.1, e.1 ∉ outputs.filter (· ≠ "") → e.2 ∉ outs := by
      intro e he hne hm
      rcases mo e.2 hm with ⟨y, hy, hyne, hl⟩ | ⟨hge, _⟩
      · have := ok1.mem_inj (lookup_mem _ _ _ hl) (show (e.1, e.2) ∈ _ from he)
        subst this
        exact hne (by simp [List.mem_filter, hy, hyne])
      · have := ok1.lt e he
        omega
    have hk := mkNode_keeps st3 (resolveInputs st top outer vi inputs).2.2 outs gs
    refine ⟨?_, ?_, ?_, ?_⟩
    · simp only [mkNode_snd, recsN, grecsN, ← List.append_assoc]
      exact hres
    · intro x hx
      obtain ⟨v, hl, hpn⟩ := pend3 x (List.mem_append.mpr (.inr hx))
      refine ⟨v, hl, ?_⟩
      have hv : v ∉ outs := not_out (x, v) (lookup_mem _ _ _ hl) (fun hm => hnd.2.2 x hm x hx rfl)
      rw [mkNode_vals, setProducers_not_mem _ _ _ _ _ hv]
      exact hpn
    · intro e he hne
      have hv : e.2 ∉ outs := not_out e he (fun hm => hne (hdecl e.1 (List.mem_append.mpr (.inl hm))))
      rw [mkNode_vals, setProducers_not_mem _ _ _ _ _ hv]
      exact roots3 e he hne
    · intro e he
      rw [(hk e.2).2.2.2.1, (hk e.2).2.2.2.2.1, (hk e.2).2.2.2.2.2.1, (hk e.2).2.2.2.2.2.2]
      exact unown3 e he
theorem deserSubs_links :
    ∀ (gs : List GraphP) (st : Store) (scopes : List Table) (st' : Store) (gts : List GraphT)
      (R : List NRec) (G : List GRec),
      Fresh st → TablesLt st scopes → Inv st R G → deserSubs st scopes gs = .ok (st', gts) →
      Inv st' (R ++ recsGs gts) (G ++ grecsGs gts)
  | [], st, scopes, st', gts, R, G, _, _, hinv, h => by
    simp only [deserSubs, Except.ok.injEq, Prod.mk.injEq] at h
    obtain ⟨rfl, rfl⟩ := h
    simpa [recsGs, grecsGs] using hinv
  | g :: gs, st, scopes, st', gts, R, G, hf, hs, hinv, h => by
    obtain ⟨st1, gt, gts', h1, h2, rfl⟩ := deserSubs_inv h
    obtain ⟨f1, m1⟩ := deserGraph_struct g st scopes st1 gt hf hs h1
    have inv1 := deserGraph_links g st scopes st1 gt R G hf hs hinv h1
    have inv2 := deserSubs_links gs st1 scopes st' gts' _ _ f1 (hs.mono m1.nv_le) inv1 h2
    simp only [recsGs, grecsGs, ← List.append_assoc]
    exact inv2
end

end IrVerif.Scope

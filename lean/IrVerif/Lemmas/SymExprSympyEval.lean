/-
C16: the evaluation half of the SymPy-surface theorem.  The tree `surf s` the repository's parser
returns on the text SymPy's `str()` prints for `s` (`Lemmas/SymExprSympy.lean`) has, under EVERY
binding, exactly the value of the SymPy object's meaning `sden s` ("no value" cases included):
reading `-3*N/4` as `((-3)*N)/4`, `a - b` for `a + (-b)`, `x/(c*d)` for `x * c**-1 * d**-1`,
`1/N` for `N**-1`, `sqrt(N)` for `N**(1/2)`, `M/N**(2/3)` for `M*N**(-2/3)` preserves the exact
value (`eval_surf`).
-/
import IrVerif.Lemmas.SymExprSympy
namespace IrVerif.SymExpr

/-! ### option-lifted arithmetic -/

def omul : Option Rat → Option Rat → Option Rat
  | some x, some y => some (x * y)
  | _, _ => none

/-- the product of the values of a list of expressions (no value when one of them has none) -/
def evalProd (env : Env) : List Expr → Option Rat
  | [] => some 1
  | e :: es => omul (eval env e) (evalProd env es)

/-- `± n / d`, no value when `d = 0` -/
def frac (m : Bool) : Option Rat → Option Rat → Option Rat
  | some n, some d => if d = 0 then none else some ((if m then -n else n) / d)
  | _, _ => none

theorem omul_assoc (a b c : Option Rat) : omul (omul a b) c = omul a (omul b c) := by
  cases a <;> cases b <;> cases c <;> simp [omul, mul_assoc]

theorem omul_one (a : Option Rat) : omul a (some 1) = a := by cases a <;> simp [omul]
theorem one_omul (a : Option Rat) : omul (some 1) a = a := by cases a <;> simp [omul]

theorem eval_mul (env : Env) (a b : Expr) :
    eval env (.bin .mul a b) = omul (eval env a) (eval env b) := by
  simp only [eval]
  cases eval env a <;> cases eval env b <;> simp [omul, evalBin]

theorem eval_foldl_mul (env : Env) (es : List Expr) (a : Expr) :
    eval env (es.foldl (fun acc y => .bin .mul acc y) a) = omul (eval env a) (evalProd env es) := by
  induction es generalizing a with
  | nil => simp [evalProd, omul_one]
  | cons e es ih => simp only [List.foldl_cons, ih, eval_mul, evalProd, omul_assoc]

theorem eval_foldBin_mul (env : Env) (es : List Expr) :
    eval env (foldBin .mul (.num 1) es) = evalProd env es := by
  cases es with
  | nil => simp [foldBin, evalProd, eval]
  | cons a rest => simp only [foldBin, eval_foldl_mul, evalProd]

theorem evalProd_append (env : Env) (a b : List Expr) :
    evalProd env (a ++ b) = omul (evalProd env a) (evalProd env b) := by
  induction a with
  | nil => simp [evalProd, one_omul]
  | cons x a ih => simp only [List.cons_append, evalProd, ih, omul_assoc]

theorem frac_false_one (a : Option Rat) : frac false (omul a (some 1)) (some 1) = a := by
  cases a <;> simp [frac, omul]

theorem frac_mul (s1 s2 : Bool) (n1 n2 d1 d2 : Option Rat) :
    omul (frac s1 n1 d1) (frac s2 n2 d2) = frac (xor s1 s2) (omul n1 n2) (omul d1 d2) := by
  cases n1 <;> cases n2 <;> cases d1 <;> cases d2 <;> try (simp [frac, omul]; done)
  all_goals try (simp only [frac, omul]; split <;> simp [omul]; done)
  rename_i n1 n2 d1 d2
  by_cases h1 : d1 = 0
  · simp [frac, omul, h1]
  · by_cases h2 : d2 = 0
    · simp [frac, omul, h1, h2]
    · simp only [frac, omul, h1, h2, if_false, mul_eq_zero, or_self]
      congr 1
      cases s1 <;> cases s2 <;> simp <;> field_simp

theorem frac_neg (n d : Option Rat) : frac false n d = (frac true n d).map (fun v => -v) := by
  cases n <;> cases d <;> simp [frac]
  split <;> simp [neg_div]

/-! ### products: numerator / denominator split -/

theorem eval_mulNumerE (env : Env) (m : Bool) (x : Expr) (rest : List Expr) :
    eval env (mulNumerE m (x :: rest)) = frac m (evalProd env (x :: rest)) (some 1) := by
  simp only [mulNumerE, eval_foldl_mul, evalProd]
  cases m <;> cases h1 : eval env x <;> cases h2 : evalProd env rest <;>
    simp [omul, frac, eval, evalUn, h1]

theorem eval_mulBodyE (env : Env) (m : Bool) (fs : List (SExpr × SF)) :
    eval env (mulBodyE m fs) =
      frac m (evalProd env (mulNumE fs)) (evalProd env (mulDenE fs)) := by
  have hN : ∀ A : List Expr, eval env (mulNumerE m (if A.isEmpty then [Expr.num 1] else A)) =
      frac m (evalProd env A) (some 1) := by
    intro A
    cases A with
    | nil => simp [eval_mulNumerE, evalProd, eval, omul]
    | cons x rest => simp [eval_mulNumerE]
  simp only [mulBodyE]
  cases hD : mulDenE fs with
  | nil => simp only [hN, evalProd]
  | cons d ds =>
    simp only [eval, hN, eval_foldBin_mul]
    cases h1 : evalProd env (mulNumE fs) <;> cases h2 : evalProd env (d :: ds) <;>
      simp [frac, evalBin]

theorem stripNeg_foldl (rest : List Expr) (acc : Expr) :
    stripNeg (rest.foldl (fun a y => .bin .mul a y) acc) =
      rest.foldl (fun a y => .bin .mul a y) (stripNeg acc) := by
  induction rest generalizing acc with
  | nil => rfl
  | cons y rest ih => simp only [List.foldl_cons, ih, stripNeg]

/-- removing the leading `-` of a product with a negative coefficient gives the positive product -/
theorem stripNeg_mulBodyE (fs : List (SExpr × SF)) :
    stripNeg (mulBodyE true fs) = mulBodyE false fs := by
  have hN : ∀ A : List Expr, stripNeg (mulNumerE true (if A.isEmpty then [Expr.num 1] else A)) =
      mulNumerE false (if A.isEmpty then [Expr.num 1] else A) := by
    intro A
    cases A with
    | nil => simp [mulNumerE, stripNeg]
    | cons x rest => simp [mulNumerE, stripNeg_foldl, stripNeg]
  simp only [mulBodyE]
  cases mulDenE fs with
  | nil => simp only [hN]
  | cons d ds => simp only [stripNeg, hN]

def sgnF (f : SExpr) : Bool := isNum f && negCoeff f

def sgnL : List SExpr → Bool
  | [] => false
  | f :: fs => xor (sgnF f) (sgnL fs)

/-- what the induction carries: the surface tree evaluates like the meaning; a power with a
    negative exponent (a literal, or any with a base that is not zero under the binding) is one
    over its denominator entry; the negated exponent `apow` prints has the negated value -/
def SInv (env : Env) (s : SExpr) : Prop :=
  eval env (sfOf s).e = eval env (sden s) ∧
  (∀ b x, s = .pow b x → negCoeff x = true → (litExp x = true ∨ eval env (sden b) ≠ some 0) →
    eval env (sden s) = frac false (some 1) (eval env (sfOf s).den)) ∧
  (negCoeff s = true → eval env (sfOf s).neg = (eval env (sden s)).map (fun v => -v))

theorem eval_num (env : Env) (n : Int) : eval env (.num n) = some (n : Rat) := rfl

theorem sden_int (z : Int) : sden (.int z) = .num z := rfl
theorem sden_rat (p : Int) (q : Nat) : sden (.rat p q) = .bin .div (.num p) (.num q) := rfl
theorem sden_sym (x : String) : sden (.sym x) = .sym x := rfl

theorem sden_add (ts : List SExpr) : sden (.add ts) = foldBin .add (.num 0) (ts.map sden) := by
  simp only [sden, para, paraL_eq, sdenAlg, List.map_map, Function.comp_def]
  rfl

theorem sden_mul (fs : List SExpr) : sden (.mul fs) = foldBin .mul (.num 1) (fs.map sden) := by
  simp only [sden, para, paraL_eq, sdenAlg, List.map_map, Function.comp_def]
  rfl

theorem sden_fn (f : SFn) (args : List SExpr) : sden (.fn f args) = fnExpr f (args.map sden) := by
  simp only [sden, para, paraL_eq, sdenAlg, List.map_map, Function.comp_def]
  rfl

theorem sden_pow (b e : SExpr) : sden (.pow b e) =
    if isHalf e then .un .sqrt (sden b)
    else if isNegHalf e then .bin .div (.num 1) (.un .sqrt (sden b))
    else .bin .pow (sden b) (sden e) := by
  simp only [sden, para]; rfl

theorem cast_natAbs (z : Int) :
    (((z.natAbs : Nat) : Int) : Rat) = if z < 0 then -(z : Rat) else (z : Rat) := by
  split
  · rename_i h
    have : ((z.natAbs : Nat) : Int) = -z := Int.ofNat_natAbs_of_nonpos (Int.le_of_lt h)
    rw [this]; push_cast; ring
  · rename_i h
    have : ((z.natAbs : Nat) : Int) = z := Int.natAbs_of_nonneg (by omega)
    rw [this]

theorem evalProd_lit (env : Env) (n : Nat) :
    evalProd env (if n ≠ 1 then [Expr.num (n : Int)] else []) = some (((n : Nat) : Int) : Rat) := by
  by_cases h : n = 1
  · subst h; simp [evalProd]
  · simp [h, evalProd, eval, omul]

theorem mulNumE_cons (p : SExpr × SF) (rest : List (SExpr × SF)) :
    mulNumE (p :: rest) = mulNumE [p] ++ mulNumE rest := by
  obtain ⟨f, sf⟩ := p
  simp [mulNumE]

theorem mulDenE_cons (p : SExpr × SF) (rest : List (SExpr × SF)) :
    mulDenE (p :: rest) = mulDenE [p] ++ mulDenE rest := by
  obtain ⟨f, sf⟩ := p
  simp [mulDenE]

/-- one factor: its value is `± numerator entries / denominator entries` -/
theorem fac_eval (env : Env) (f : SExpr) (h : SInv env f) (hd : denNZf env f = true) :
    eval env (sden f) = frac (sgnF f) (evalProd env (mulNumE [(f, sfOf f)]))
      (evalProd env (mulDenE [(f, sfOf f)])) := by
  have other : (mulNumE [(f, sfOf f)] = [(sfOf f).e]) → (mulDenE [(f, sfOf f)] = []) →
      sgnF f = false → eval env (sden f) = frac (sgnF f) (evalProd env (mulNumE [(f, sfOf f)]))
      (evalProd env (mulDenE [(f, sfOf f)])) := by
    intro h1 h2 h3
    rw [h1, h2, h3]
    simp only [evalProd, frac_false_one, h.1]
  cases f with
  | int z =>
    simp only [mulNumE, mulDenE, List.append_nil, sgnF, isNum, negCoeff, Bool.true_and, sden_int,
      evalProd_lit]
    simp only [eval, evalProd, frac, cast_natAbs]
    by_cases hz : z < 0 <;> simp [hz]
  | rat p q =>
    simp only [mulNumE, mulDenE, List.append_nil, sgnF, isNum, negCoeff, Bool.true_and, sden_rat,
      evalProd_lit]
    simp only [eval, evalBin, frac, cast_natAbs]
    by_cases hq : q = 0
    · subst hq; simp
    · by_cases hz : p < 0 <;> simp [hz, hq]
  | pow b x =>
    by_cases hn : negCoeff x = true
    · have hl : litExp x = true ∨ eval env (sden b) ≠ some 0 := by
        simpa [denNZf, hn] using hd
      have := h.2.1 b x rfl hn hl
      simp only [mulNumE, mulDenE, hn, if_true, List.append_nil, List.nil_append, sgnF, isNum,
        Bool.false_and, evalProd, omul_one]
      exact this
    · have hn' : negCoeff x = false := by simpa using hn
      exact other (by simp [mulNumE, hn']) (by simp [mulDenE, hn']) rfl
  | sym x => exact other rfl rfl rfl
  | add ts => exact other rfl rfl rfl
  | mul gs => exact other rfl rfl rfl
  | fn g args => exact other rfl rfl rfl

theorem prod_eval (env : Env) : ∀ fs : List SExpr, (∀ f ∈ fs, SInv env f ∧ denNZf env f = true) →
    evalProd env (fs.map sden) =
      frac (sgnL fs) (evalProd env (mulNumE (sfL fs))) (evalProd env (mulDenE (sfL fs)))
  | [], _ => by simp [evalProd, sfL, mulNumE, mulDenE, sgnL, frac]
  | f :: rest, h => by
    have ih := prod_eval env rest (fun g hg => h g (by simp [hg]))
    obtain ⟨h1, h2⟩ := h f (by simp)
    have hs : sfL (f :: rest) = (f, sfOf f) :: sfL rest := rfl
    rw [hs, mulNumE_cons, mulDenE_cons, evalProd_append, evalProd_append, sgnL, ← frac_mul,
      ← fac_eval env f h1 h2, ← ih]
    rfl

theorem sgnL_swf (f : SExpr) (rest : List SExpr) (h : ∀ g ∈ rest, isNum g = false) :
    sgnL (f :: rest) = negCoeff (.mul (f :: rest)) := by
  have hr : sgnL rest = false := by
    induction rest with
    | nil => rfl
    | cons g rest ih =>
      simp [sgnL, sgnF, h g (by simp), ih (fun x hx => h x (by simp [hx]))]
  cases f <;> simp [sgnL, sgnF, isNum, negCoeff, hr]

theorem denNZ_add (env : Env) (ts : List SExpr) : denNZ env (.add ts) = ts.all (denNZ env) := by
  simp only [denNZ, para, paraL_eq, denNZAlg, List.all_map, Function.comp_def]
  rfl

theorem denNZ_mul (env : Env) (fs : List SExpr) :
    denNZ env (.mul fs) = fs.all (fun g => denNZ env g && denNZf env g) := by
  simp only [denNZ, para, paraL_eq, denNZAlg, List.all_map, Function.comp_def]

theorem denNZ_pow (env : Env) (b e : SExpr) :
    denNZ env (.pow b e) = (denNZ env b && denNZ env e) := by
  simp [denNZ, para, denNZAlg]

theorem denNZ_fn (env : Env) (f : SFn) (args : List SExpr) :
    denNZ env (.fn f args) = args.all (denNZ env) := by
  simp only [denNZ, para, paraL_eq, denNZAlg, List.all_map, Function.comp_def]
  rfl

theorem sinv_mul (env : Env) (fs : List SExpr) (ih : ∀ f ∈ fs, SInv env f) (hw : SWfX (.mul fs))
    (hnz : denNZ env (.mul fs) = true) : SInv env (.mul fs) := by
  simp only [SWfX, swfX_mul, Bool.and_eq_true, List.all_eq_true, Bool.not_eq_true'] at hw
  simp only [denNZ_mul, List.all_eq_true, Bool.and_eq_true] at hnz
  have hsd : eval env (sden (.mul fs)) = frac (negCoeff (.mul fs))
      (evalProd env (mulNumE (sfL fs))) (evalProd env (mulDenE (sfL fs))) := by
    rw [sden_mul, eval_foldBin_mul, prod_eval env fs (fun f hf => ⟨ih f hf, (hnz f hf).2⟩)]
    match fs, hw with
    | [], hw => simp at hw
    | f :: rest, hw => rw [sgnL_swf f rest (by simpa using hw.2)]
  refine ⟨?_, (by intro b x h; cases h), ?_⟩
  · rw [sf_mul, eval_mulBodyE, hsd]
  · intro hn
    have generic : eval env (mulBodyE false (sfL fs)) =
        (eval env (sden (.mul fs))).map (fun v => -v) := by
      rw [eval_mulBodyE, hsd, hn, frac_neg]
    rw [sf_neg_mul]
    match fs, ih, generic with
    | [], _, g => exact g
    | [_], _, g => exact g
    | [c, y], ih, g =>
      by_cases hc : isNegOne c = true
      · simp only [hc, if_true]
        cases c with
        | int z =>
          have hz : z = -1 := by simpa [isNegOne] using hc
          subst hz
          rw [(ih y (by simp)).1, sden_mul]
          simp only [List.map_cons, List.map_nil, foldBin, List.foldl_cons, List.foldl_nil,
            eval_mul, sden_int, eval_num]
          cases eval env (sden y) with
          | none => simp [omul]
          | some v => simp [omul]
        | _ => simp [isNegOne] at hc
      · have hc' : isNegOne c = false := by simpa using hc
        simp only [hc', Bool.false_eq_true, if_false]
        exact g
    | _ :: _ :: _ :: _, _, g => exact g

/-! ### sums: the sign `_print_Add` pulls out of a term -/

theorem mulNum_pow {lv : Nat} (hlv : lv = 40 ∨ lv = 50) : ∀ fs : List SExpr, (∀ f ∈ fs, FacOk f) →
    List.Forall₂ PPower (mulNum lv (tkL fs)) (mulNumE (sfL fs))
  | [], _ => by simp [tkL, sfL, mulNum, mulNumE]
  | f :: rest, h => by
    have ih := mulNum_pow hlv rest (fun g hg => h g (by simp [hg]))
    obtain ⟨hi, hm⟩ := h f (by simp)
    have other : isNum f = false → (∀ b x, f = .pow b x → negCoeff x = false) →
        List.Forall₂ PPower (par lv (precS f) (tkOf f).toks :: mulNum lv (tkL rest))
          ((sfOf f).e :: mulNumE (sfL rest)) :=
      fun h1 h3 => .cons (parMul hlv hi.1 h1 hm h3) ih
    simp only [tkL, sfL, List.map_cons, mulNum, mulNumE] at ih ⊢
    cases f with
    | int z =>
      by_cases hz : z.natAbs = 1
      · simpa [hz] using ih
      · simpa [hz] using List.Forall₂.cons (PPrim.num z.natAbs).toPower ih
    | rat p q =>
      by_cases hz : p.natAbs = 1
      · simpa [hz] using ih
      · simpa [hz] using List.Forall₂.cons (PPrim.num p.natAbs).toPower ih
    | pow b e =>
      by_cases hn : negCoeff e = true
      · simpa [hn] using ih
      · have hn' : negCoeff e = false := by simpa using hn
        simpa [hn', tkL, sfL] using
          other rfl (by intro b' x hx; cases hx; exact hn')
    | sym x => simpa [tkL, sfL] using other rfl (by intro _ _ hx; cases hx)
    | add ts => simpa [tkL, sfL] using other rfl (by intro _ _ hx; cases hx)
    | mul gs => simp [isMulS] at hm
    | fn g args => simpa [tkL, sfL] using other rfl (by intro _ _ hx; cases hx)

/-- the text of a product after its sign never starts with `-` -/
theorem mulBody_head {lv : Nat} (hlv : lv = 40 ∨ lv = 50) (fs : List SExpr)
    (h : ∀ f ∈ fs, FacOk f) (r : List Tok) : mulBody lv (tkL fs) ≠ Tok.op .minus :: r := by
  intro hr
  have hA := mulNum_pow hlv fs h
  simp only [mulBody] at hr
  generalize mulNum lv (tkL fs) = A at hA hr
  generalize mulNumE (sfL fs) = AE at hA
  cases hA with
  | nil => simp [intercal] at hr
  | @cons x e xs es hx hxs =>
    obtain ⟨d, hd, _⟩ := hx
    obtain ⟨t, rest, h3, h4⟩ := power_head d
    rw [← hd, h3] at hr
    simp [intercal_cons] at hr
    exact h4 hr.1

theorem facOk_of_swf (fs : List SExpr) (hw : SWfX (.mul fs)) : ∀ f ∈ fs, FacOk f := by
  simp only [SWfX, swfX_mul, Bool.and_eq_true, List.all_eq_true, Bool.not_eq_true'] at hw
  exact fun f hf => ⟨inv_all f (hw.1 f hf).1, (hw.1 f hf).2⟩

/-- the tree of a term whose text starts with `-`, after `_print_Add` removed that `-`, has the
    negated value -/
theorem strip_eval (env : Env) (s : SExpr) (hw : SWfX s) (hA : isAddS s = false) {r : List Tok}
    (hr : (tkOf s).toks = Tok.op .minus :: r) :
    eval env (stripNeg (sfOf s).e) = (eval env (sfOf s).e).map (fun v => -v) := by
  cases s with
  | int z =>
    by_cases hz : z < 0
    · simp [sfOf, para, surfAlg, hz, numE, stripNeg, eval, evalUn]
    · simp [tkOf, para, tokAlg, hz, ppNat] at hr
  | rat p q =>
    by_cases hz : p < 0
    · simp only [sfOf, para, surfAlg, hz, decide_true, numE, if_true, stripNeg, eval, evalUn,
        evalBin]
      split <;> simp [neg_div]
    · simp [tkOf, para, tokAlg, hz, ppNat] at hr
  | sym x => simp [tkOf, para, tokAlg] at hr
  | add ts => simp [isAddS] at hA
  | mul fs =>
    rw [tk_mul] at hr
    by_cases hn : negCoeff (.mul fs) = true
    · rw [sf_mul, hn, stripNeg_mulBodyE, eval_mulBodyE, eval_mulBodyE, frac_neg]
    · have hn' : negCoeff (.mul fs) = false := by simpa using hn
      simp only [hn', Bool.false_eq_true, if_false] at hr
      exact absurd hr (mulBody_head (Or.inr rfl) fs (facOk_of_swf fs hw) r)
  | pow b e =>
    have hi := (inv_all _ hw).1
    rw [tk_pow] at hr
    by_cases h0 : isHalf e = true
    · simp [h0, call] at hr
    · have h0' : isHalf e = false := by simpa using h0
      by_cases h2 : isNegHalf e = true
      · simp [h0', h2] at hr
      · have h2' : isNegHalf e = false := by simpa using h2
        by_cases h1 : isNegOne e = true
        · simp [h0', h2', h1] at hr
        · have h1' : isNegOne e = false := by simpa using h1
          have hl : lvl (.pow b e) = 3 := by simp [lvl, h0', h1', h2']
          rw [hl] at hi
          obtain ⟨d, hd, _⟩ := (hi : PPower _ _)
          obtain ⟨t, rest, h3, h4⟩ := power_head d
          rw [tk_pow] at hd
          simp only [h0', h2', h1', Bool.false_eq_true, if_false] at hr hd
          rw [hr] at hd
          rw [h3] at hd
          simp at hd
          exact absurd hd.1 h4
  | fn f args =>
    rw [tk_fn] at hr
    simp [call] at hr

def stp (s : SExpr) : Bool × Expr := addStepE (s, tkOf s) (s, sfOf s)

def TermOk (env : Env) (s : SExpr) : Prop := ∀ acc1 acc2, eval env acc1 = eval env acc2 →
  eval env (.bin (if (stp s).1 then .sub else .add) acc1 (stp s).2) =
    eval env (.bin .add acc2 (sden s))

theorem termOk (env : Env) (s : SExpr) (hs : SInv env s) (hw : SWfX s) : TermOk env s := by
  intro acc1 acc2 hacc
  by_cases hA : isAddS s = true
  · simp only [stp, addStepE_add hA]
    simp [eval, hacc, hs.1]
  · have hA' : isAddS s = false := by simpa using hA
    by_cases hm : ∃ r, (tkOf s).toks = Tok.op .minus :: r
    · obtain ⟨r, hr⟩ := hm
      have h1 := strip_eval env s hw hA' hr
      simp only [stp, addStepE_minus hA' hr, if_true]
      simp only [eval, hacc, h1, hs.1]
      cases eval env acc2 <;> cases eval env (sden s) <;> simp [evalBin, sub_eq_add_neg]
    · have hm' : ∀ r, (tkOf s).toks ≠ Tok.op .minus :: r := fun r hr => hm ⟨r, hr⟩
      simp only [stp, addStepE_other hA' hm']
      simp [eval, hacc, hs.1]

theorem add_fold (env : Env) : ∀ (rest : List SExpr) (acc1 acc2 : Expr),
    eval env acc1 = eval env acc2 → (∀ s ∈ rest, TermOk env s) →
    eval env ((rest.map stp).foldl (fun acc mt => .bin (if mt.1 then .sub else .add) acc mt.2) acc1)
      = eval env ((rest.map sden).foldl (fun acc x => .bin .add acc x) acc2)
  | [], _, _, h, _ => by simpa using h
  | s :: rest, acc1, acc2, h, hs => by
    simp only [List.map_cons, List.foldl_cons]
    exact add_fold env rest _ _ (hs s (by simp) acc1 acc2 h) (fun t ht => hs t (by simp [ht]))

theorem sinv_add (env : Env) (ts : List SExpr) (ih : ∀ t ∈ ts, SInv env t) (hw : SWfX (.add ts)) :
    SInv env (.add ts) := by
  refine ⟨?_, (by intro b x h; cases h), (by intro h; simp [negCoeff] at h)⟩
  simp only [SWfX, swfX_add, Bool.and_eq_true, List.all_eq_true] at hw
  match ts, hw with
  | t :: rest, hw =>
    rw [sf_add, sden_add]
    simp only [addJoinE, foldBin, List.map_cons]
    exact add_fold env rest _ _ (ih t (by simp)).1
      (fun s hs => termOk env s (ih s (by simp [hs])) (hw.2 s (by simp [hs])))

/-! ### functions -/

theorem foldl_congr (env : Env) (o : BinOp) (g1 g2 : SExpr → Expr) : ∀ (l : List SExpr) (a1 a2 : Expr),
    eval env a1 = eval env a2 → (∀ a ∈ l, eval env (g1 a) = eval env (g2 a)) →
    eval env ((l.map g1).foldl (fun acc x => .bin o acc x) a1) =
      eval env ((l.map g2).foldl (fun acc x => .bin o acc x) a2)
  | [], _, _, h, _ => by simpa using h
  | x :: l, a1, a2, h, hl => by
    simp only [List.map_cons, List.foldl_cons]
    exact foldl_congr env o g1 g2 l _ _ (by simp [eval, h, hl x (by simp)])
      (fun a ha => hl a (by simp [ha]))

theorem fnExpr_congr (env : Env) (f : SFn) (args : List SExpr) (g1 g2 : SExpr → Expr)
    (h : ∀ a ∈ args, eval env (g1 a) = eval env (g2 a)) :
    eval env (fnExpr f (args.map g1)) = eval env (fnExpr f (args.map g2)) := by
  have many : ∀ (o : BinOp) (u : Expr), eval env (foldBin o u (args.map g1)) =
      eval env (foldBin o u (args.map g2)) := by
    intro o u
    match args, h with
    | [], _ => rfl
    | a :: rest, h =>
      simp only [List.map_cons, foldBin]
      exact foldl_congr env o g1 g2 rest _ _ (h a (by simp)) (fun x hx => h x (by simp [hx]))
  cases f with
  | max => exact many .max _
  | min => exact many .min _
  | mod =>
    match args, h with
    | [], _ => rfl
    | [a], _ => rfl
    | [a, b], h => simp [fnExpr, eval, h a (by simp), h b (by simp)]
    | a :: b :: c :: rest, _ => rfl
  | floor =>
    match args, h with
    | [], _ => rfl
    | [a], h => simp [fnExpr, eval, h a (by simp)]
    | a :: b :: rest, _ => rfl
  | ceiling =>
    match args, h with
    | [], _ => rfl
    | [a], h => simp [fnExpr, eval, h a (by simp)]
    | a :: b :: rest, _ => rfl
  | abs =>
    match args, h with
    | [], _ => rfl
    | [a], h => simp [fnExpr, eval, h a (by simp)]
    | a :: b :: rest, _ => rfl
  | sign =>
    match args, h with
    | [], _ => rfl
    | [a], h => simp [fnExpr, eval, h a (by simp)]
    | a :: b :: rest, _ => rfl

theorem sinv_fn (env : Env) (f : SFn) (args : List SExpr) (ih : ∀ a ∈ args, SInv env a) :
    SInv env (.fn f args) := by
  refine ⟨?_, (by intro b x h; cases h), (by intro h; simp [negCoeff] at h)⟩
  rw [sf_fn, sden_fn]
  exact fnExpr_congr env f args _ _ (fun a ha => (ih a ha).1)

/-! ### powers -/

theorem ratPow_neg (x v : Rat) (hv : v < 0) :
    ratPow x v = frac false (some 1) (ratPow x (-v)) := by
  unfold ratPow
  have h1 : (-v).den = v.den := Rat.den_neg_eq_den v
  have h2 : (-v).num = -v.num := Rat.num_neg_eq_neg_num v
  rw [h1, h2]
  by_cases hd : v.den = 1
  · have hn : v.num < 0 := Rat.num_neg.mpr hv
    have h3 : ¬ (0 ≤ v.num) := by omega
    have h4 : 0 ≤ -v.num := by omega
    simp only [hd, if_true, h3, if_false, h4, neg_neg]
    have hne : (-v.num).toNat ≠ 0 := by omega
    by_cases hx : x = 0
    · subst hx
      simp [frac, zero_pow hne]
    · simp [frac, hx, pow_ne_zero]
  · simp [hd, frac]

theorem ratPow_one (x : Rat) : ratPow x 1 = some x := by
  simp [ratPow]

/-- for a base that is not zero, `b**v` is `1 / b**(-v)` whatever the sign of `v` -/
theorem ratPow_neg_nz (x v : Rat) (hx : x ≠ 0) :
    ratPow x v = frac false (some 1) (ratPow x (-v)) := by
  by_cases hv : v < 0
  · exact ratPow_neg x v hv
  · unfold ratPow
    rw [Rat.den_neg_eq_den, Rat.num_neg_eq_neg_num]
    by_cases hd : v.den = 1
    · have hn : 0 ≤ v.num := Rat.num_nonneg.mpr (not_lt.mp hv)
      simp only [hd, if_true, hn, neg_neg]
      by_cases h0 : v.num = 0
      · simp [h0, frac]
      · have h1 : ¬ (0 ≤ -v.num) := by omega
        simp only [h1, if_false, hx]
        have hp : x ^ v.num.toNat ≠ 0 := pow_ne_zero _ hx
        simp [frac, hp]
    · simp [hd, frac]

/-- `x * b**z` and `x / b**(-z)` for a negative literal `z`: the same value, the same "no value" -/
theorem den_int (x : Rat) (z : Int) (hz : z < 0) :
    ratPow x (z : Rat) = frac false (some 1) (ratPow x (((z.natAbs : Nat) : Int) : Rat)) := by
  rw [cast_natAbs, if_pos hz]
  exact ratPow_neg x _ (by exact_mod_cast hz)

theorem den_negone (x : Rat) : ratPow x (((-1 : Int)) : Rat) = frac false (some 1) (some x) := by
  have h := ratPow_neg x (-1) (by norm_num)
  rw [neg_neg, ratPow_one] at h
  rw [← h]; norm_num

theorem den_rat (x : Rat) (p : Int) (q : Nat) (hp : p < 0) (hq : ((q : Int) : Rat) ≠ 0) :
    ratPow x ((p : Rat) / ((q : Int) : Rat)) =
      frac false (some 1) (ratPow x ((((p.natAbs : Nat) : Int) : Rat) / ((q : Int) : Rat))) := by
  rw [cast_natAbs, if_pos hp, neg_div]
  have hq0 : (0 : Rat) < ((q : Int) : Rat) := by
    have : (0 : Rat) ≤ ((q : Int) : Rat) := by exact_mod_cast Int.natCast_nonneg q
    exact lt_of_le_of_ne this (Ne.symm hq)
  exact ratPow_neg x _ (div_neg_of_neg_of_pos (by exact_mod_cast hp) hq0)

theorem eval_div (env : Env) (a b : Expr) : eval env (.bin .div a b) =
    match eval env a, eval env b with
    | some x, some y => if y = 0 then none else some (x / y)
    | _, _ => none := by
  simp only [eval]
  cases eval env a <;> cases eval env b <;> simp [evalBin]

theorem eval_numE (env : Env) (z : Int) :
    eval env (numE (decide (z < 0)) z.natAbs) = some (z : Rat) := by
  by_cases hz : z < 0 <;> simp only [numE, hz, decide_true, decide_false, if_true, eval, evalUn,
    cast_natAbs, if_false, neg_neg, Bool.false_eq_true]

theorem eval_pow (env : Env) (a b : Expr) : eval env (.bin .pow a b) =
    match eval env a, eval env b with
    | some x, some y => ratPow x y
    | _, _ => none := by
  simp only [eval]
  cases eval env a <;> cases eval env b <;> simp [evalBin]

theorem sinv_pow (env : Env) (b e : SExpr) (hb : SInv env b) (he : SInv env e) :
    SInv env (.pow b e) := by
  have hsq : eval env (.un .sqrt (sfOf b).e) = eval env (.un .sqrt (sden b)) := by
    simp [eval, hb.1]
  refine ⟨?_, ?_, (by intro h; simp [negCoeff] at h)⟩
  · rw [sf_pow, sden_pow]
    by_cases h0 : isHalf e = true
    · simp only [h0, if_true]; exact hsq
    · have h0' : isHalf e = false := by simpa using h0
      by_cases h2 : isNegHalf e = true
      · simp only [h0', h2, if_true, Bool.false_eq_true, if_false]
        simp only [eval] at hsq ⊢
        rw [hsq]
      · have h2' : isNegHalf e = false := by simpa using h2
        by_cases h1 : isNegOne e = true
        · simp only [h0', h2', h1, if_true, Bool.false_eq_true, if_false]
          cases e with
          | int z =>
            have hz : z = -1 := by simpa [isNegOne] using h1
            subst hz
            rw [eval_pow, sden_int]
            have := ratPow_neg
            simp only [eval, hb.1]
            cases hx : eval env (sden b) with
            | none => rfl
            | some x =>
              have h := ratPow_neg x (-1) (by norm_num)
              simp only [neg_neg, ratPow_one, frac] at h
              simp only [evalBin]
              have hc : (((-1 : Int)) : Rat) = -1 := by norm_num
              rw [hc, h]
              by_cases hx0 : x = 0 <;> simp [hx0]
          | _ => simp [isNegOne] at h1
        · have h1' : isNegOne e = false := by simpa using h1
          simp only [h0', h2', h1', Bool.false_eq_true, if_false]
          rw [eval_pow, eval_pow, hb.1, he.1]
  · intro b' x h hn hl0
    cases h
    rw [sf_den, sden_pow]
    have h0' : isHalf e = false := by
      cases e with
      | rat p q =>
        have hp : p < 0 := by simpa [negCoeff] using hn
        have : (p == 1) = false := by simp only [beq_eq_false_iff_ne]; omega
        simp [isHalf, this]
      | _ => rfl
    by_cases hlit : litExp e = true
    swap
    · -- a symbolic exponent: the base is not zero under the binding
      have hnz : eval env (sden b) ≠ some 0 := by
        rcases hl0 with h | h
        · exact absurd h hlit
        · exact h
      have h1' : isNegOne e = false := by cases e <;> first | rfl | simp [litExp] at hlit
      have h2' : isNegHalf e = false := by cases e <;> first | rfl | simp [litExp] at hlit
      simp only [h0', h1', h2', Bool.false_eq_true, if_false]
      rw [eval_pow, eval_pow, hb.1, he.2.2 hn]
      cases hbv : eval env (sden b) with
      | none => simp [frac]
      | some bv =>
        have hbv0 : bv ≠ 0 := by
          intro h0; apply hnz; rw [hbv, h0]
        cases eval env (sden e) with
        | none => simp [frac]
        | some v => exact ratPow_neg_nz bv v hbv0
    have hl : litExp e = true := hlit
    by_cases h2 : isNegHalf e = true
    · have h1' : isNegOne e = false := by
        cases e <;> simp_all [isNegOne, isNegHalf]
      simp only [h0', h1', h2, if_true, Bool.false_eq_true, if_false]
      rw [eval_div, eval_num, hsq]
      generalize eval env (Expr.un UnOp.sqrt (sden b)) = o
      cases o <;> simp [frac]
    · have h2' : isNegHalf e = false := by simpa using h2
      simp only [h0', h2', Bool.false_eq_true, if_false]
      rw [eval_pow]
      cases e with
      | int z =>
        have hz : z < 0 := by simpa [negCoeff] using hn
        by_cases h1 : isNegOne (.int z) = true
        · have hz1 : z = -1 := by simpa [isNegOne] using h1
          subst hz1
          simp only [h1, if_true, sden_int, eval, hb.1]
          cases eval env (sden b) with
          | none => simp [frac]
          | some x => exact den_negone x
        · have h1' : isNegOne (.int z) = false := by simpa using h1
          have hz' : ¬ (0 < z) := by omega
          have hneg : (sfOf (.int z)).neg = .num (z.natAbs : Int) := by
            simp [sfOf, para, surfAlg, hz', numE]
          simp only [h1', Bool.false_eq_true, if_false, sden_int, eval_pow, hb.1, hneg, eval]
          cases eval env (sden b) with
          | none => simp [frac]
          | some x => exact den_int x z hz
      | rat p q =>
        have hp : p < 0 := by simpa [negCoeff] using hn
        have hp' : ¬ (0 < p) := by omega
        have h1' : isNegOne (.rat p q) = false := rfl
        have hneg : (sfOf (.rat p q)).neg = .bin .div (.num (p.natAbs : Int)) (.num q) := by
          simp [sfOf, para, surfAlg, hp', numE]
        simp only [h1', Bool.false_eq_true, if_false, sden_rat, eval_pow, hb.1, hneg, eval_div,
          eval_num]
        by_cases hq : ((q : Int) : Rat) = 0
        · simp only [hq, if_true]
          cases eval env (sden b) <;> simp [frac]
        · simp only [hq, if_false]
          cases eval env (sden b) with
          | none => simp [frac]
          | some x => exact den_rat x p q hp hq
      | sym _ => simp [litExp] at hl
      | add _ => simp [litExp] at hl
      | mul _ => simp [litExp] at hl
      | pow _ _ => simp [litExp] at hl
      | fn _ _ => simp [litExp] at hl

/-! ### the theorem -/

theorem eval_numE_pos (env : Env) (z : Int) (hz : z < 0) :
    eval env (numE (decide (0 < z)) z.natAbs) = some (-(z : Rat)) := by
  have h : ¬ (0 < z) := by omega
  simp only [numE, h, decide_false, Bool.false_eq_true, if_false, eval, cast_natAbs, hz, if_true]

theorem sinv_all (env : Env) : ∀ s, SWfX s → denNZ env s = true → SInv env s := by
  apply SExpr.ind
  · intro z _ _
    refine ⟨?_, (by intro b x h; cases h), ?_⟩
    · simp only [sfOf, para, surfAlg, sden_int, eval_numE, eval]
    · intro hn
      have hz : z < 0 := by simpa [negCoeff] using hn
      simp only [sfOf, para, surfAlg, sden_int, eval_numE_pos env z hz, eval_num, Option.map]
  · intro p q _ _
    refine ⟨?_, (by intro b x h; cases h), ?_⟩
    · simp only [sfOf, para, surfAlg, sden_rat, eval_div, eval_numE, eval]
    · intro hn
      have hp : p < 0 := by simpa [negCoeff] using hn
      simp only [sfOf, para, surfAlg, sden_rat, eval_div, eval_numE_pos env p hp, eval_num]
      by_cases hq : q = 0
      · simp [hq]
      · simp [hq, neg_div]
  · intro x _ _; exact ⟨rfl, (by intro b x h; cases h), (by intro h; simp [negCoeff] at h)⟩
  · intro ts ih hw hnz
    have hw' := hw
    simp only [SWfX, swfX_add, Bool.and_eq_true, List.all_eq_true] at hw'
    simp only [denNZ_add, List.all_eq_true] at hnz
    exact sinv_add env ts (fun a ha => ih a ha (hw'.2 a ha) (hnz a ha)) hw
  · intro fs ih hw hnz
    have hw' := hw
    simp only [SWfX, swfX_mul, Bool.and_eq_true, List.all_eq_true, Bool.not_eq_true'] at hw'
    have hnz' := hnz
    simp only [denNZ_mul, List.all_eq_true, Bool.and_eq_true] at hnz'
    exact sinv_mul env fs (fun a ha => ih a ha (hw'.1 a ha).1 (hnz' a ha).1) hw hnz
  · intro b e ihb ihe hw hnz
    have hw' := hw
    simp only [SWfX, swfX_pow, Bool.and_eq_true] at hw'
    simp only [denNZ_pow, Bool.and_eq_true] at hnz
    exact sinv_pow env b e (ihb hw'.1.1 hnz.1) (ihe hw'.1.2 hnz.2)
  · intro f args ih hw hnz
    have hw' := hw
    simp only [SWfX, swfX_fn, Bool.and_eq_true, List.all_eq_true] at hw'
    simp only [denNZ_fn, List.all_eq_true] at hnz
    exact sinv_fn env f args (fun a ha => ih a ha (hw'.1 a ha) (hnz a ha))

/-- with literal exponents in every denominator there is nothing to exclude -/
theorem swf_denNZ (env : Env) : ∀ s, SWf s → denNZ env s = true := by
  apply SExpr.ind
  · intro z _; rfl
  · intro p q _; rfl
  · intro x _; rfl
  · intro ts ih hw
    simp only [SWf, swf_add, Bool.and_eq_true, List.all_eq_true] at hw
    simp only [denNZ_add, List.all_eq_true]
    exact fun a ha => ih a ha (hw.2 a ha)
  · intro fs ih hw
    simp only [SWf, swf_mul, Bool.and_eq_true, List.all_eq_true, Bool.not_eq_true'] at hw
    simp only [denNZ_mul, List.all_eq_true, Bool.and_eq_true]
    intro a ha
    refine ⟨ih a ha (hw.1 a ha).1.1, ?_⟩
    have hd := (hw.1 a ha).1.2
    cases a <;> first | rfl | skip
    rename_i b e
    simp only [denOk, Bool.or_eq_true, Bool.not_eq_true'] at hd
    simp only [denNZf, Bool.or_eq_true, Bool.not_eq_true']
    rcases hd with h | h
    · exact Or.inl (Or.inl h)
    · exact Or.inl (Or.inr h)
  · intro b e ihb ihe hw
    simp only [SWf, swf_pow, Bool.and_eq_true] at hw
    simp only [denNZ_pow, Bool.and_eq_true]
    exact ⟨ihb hw.1.1, ihe hw.1.2⟩
  · intro f args ih hw
    simp only [SWf, swf_fn, Bool.and_eq_true, List.all_eq_true] at hw
    simp only [denNZ_fn, List.all_eq_true]
    exact fun a ha => ih a ha (hw.1 a ha)

/-- The tree the parser returns on SymPy's text has the value of the SymPy object's meaning
    (`none` = no value on both sides) under every binding that makes no denominator with a
    symbolic exponent vanish. -/
theorem eval_surfX (s : SExpr) (h : SWfX s) (env : Env) (hnz : denNZ env s = true) :
    eval env (surf s) = eval env (sden s) :=
  (sinv_all env s h hnz).1

/-- ... and under EVERY binding when the exponents in denominators are literals. -/
theorem eval_surf (s : SExpr) (h : SWf s) (env : Env) : eval env (surf s) = eval env (sden s) :=
  eval_surfX s (swf_imp_swfX s h) env (swf_denNZ env s h)

end IrVerif.SymExpr

/-
Helper development for C13_frame: every editing call of the alphabet `IrVerif.Clone.Edit` writes
only to the cells named by its arguments, to cells reached from those through the pointers that
the call follows (`followed`), and to fresh cells.  Hence, for any set `B` of cells such that no
cell outside `B` has a followed pointer into `B`, an edit whose arguments are outside `B` leaves
every cell of `B` exactly as it was, and re-establishes the separation.
-/
import IrVerif.Lemmas.Clone
namespace IrVerif.Clone

def OptOut (B : Nat → Prop) : Option Nat → Prop
  | none => True
  | some x => ¬ B x

/-- the pointers an edit follows out of this cell do not lead into `B` -/
def CellOut (strict : Bool) (B : Nat → Prop) : Cell → Prop
  | .val v => OptOut B v.type ∧ OptOut B v.shape ∧ ¬ B v.props ∧ ¬ B v.mstore ∧ OptOut B v.graph ∧
      OptOut B v.const
  | .node n => (strict = true → ∀ v, some v ∈ n.inputs → ¬ B v) ∧ ¬ B n.props ∧ ¬ B n.mstore
  | .graph g => (∀ v ∈ g.outputs, ¬ B v) ∧ ¬ B g.props ∧ ¬ B g.mstore
  | .model m => ¬ B m.props ∧ ¬ B m.mstore
  | _ => True

/-- `CellOut` plus, when `u = true`, the pointers followed only by the calls of the extended alphabet
    (`Edit2`): the users of a value, the outputs of a node, the inputs and initializers of a graph -/
def CellOutX (u strict : Bool) (B : Nat → Prop) : Cell → Prop
  | .val v => OptOut B v.type ∧ OptOut B v.shape ∧ ¬ B v.props ∧ ¬ B v.mstore ∧ OptOut B v.graph ∧
      OptOut B v.const ∧ (u = true → ∀ x ∈ v.uses, ¬ B x.1)
  | .node n => (strict = true → ∀ v, some v ∈ n.inputs → ¬ B v) ∧ ¬ B n.props ∧ ¬ B n.mstore ∧
      (u = true → ∀ o ∈ n.outputs, ¬ B o)
  | .graph g => (∀ v ∈ g.outputs, ¬ B v) ∧ ¬ B g.props ∧ ¬ B g.mstore ∧
      (u = true → (∀ v ∈ g.inputs, ¬ B v) ∧ (∀ e ∈ g.inits, ¬ B e.2))
  | .model m => ¬ B m.props ∧ ¬ B m.mstore
  | _ => True

theorem CellOutX.of_cellOut {strict : Bool} {B : Nat → Prop} {c : Cell} (h : CellOut strict B c) :
    CellOutX false strict B c := by
  cases c with
  | val v => obtain ⟨a, b, c, d, e, f⟩ := h; exact ⟨a, b, c, d, e, f, fun h => by cases h⟩
  | node n => obtain ⟨a, b, c⟩ := h; exact ⟨a, b, c, fun h => by cases h⟩
  | graph g => obtain ⟨a, b, c⟩ := h; exact ⟨a, b, c, fun h => by cases h⟩
  | model m => exact h
  | attr _ => trivial
  | func _ => trivial
  | type _ => trivial
  | shape _ => trivial
  | dict _ => trivial
  | tensor _ => trivial

/-- the usage records of a value that were made by nodes of `B` -/
noncomputable def usesByB (B : Nat → Prop) (c : Cell) : List (Nat × Nat) :=
  c.usesOf.filter (fun u => @decide (B u.1) (Classical.propDecidable _))

/-- how a cell of the protected region may differ from what it was: not at all (`strict`), or only
    in usage records made by nodes outside the region -/
def CellRel (strict : Bool) (B : Nat → Prop) (c0 c : Cell) : Prop :=
  if strict then c = c0 else c.eraseUses = c0.eraseUses ∧ usesByB B c = usesByB B c0

def OptRel (strict : Bool) (B : Nat → Prop) : Option Cell → Option Cell → Prop
  | none, none => True
  | some a, some b => CellRel strict B a b
  | _, _ => False

theorem CellRel.refl (strict : Bool) (B : Nat → Prop) (c : Cell) : CellRel strict B c c := by
  unfold CellRel; split <;> simp

theorem OptRel.refl (strict : Bool) (B : Nat → Prop) (o : Option Cell) : OptRel strict B o o := by
  cases o with
  | none => trivial
  | some c => exact CellRel.refl strict B c

theorem CellRel.trans {strict : Bool} {B : Nat → Prop} {a b c : Cell} (h1 : CellRel strict B a b)
    (h2 : CellRel strict B b c) : CellRel strict B a c := by
  unfold CellRel at *
  split at h1
  · next hs => simp only [hs, if_true] at h2 ⊢; rw [h2, h1]
  · next hs => simp only [hs] at h2 ⊢; exact ⟨h2.1.trans h1.1, h2.2.trans h1.2⟩

/-- `B` is a region of the heap `wB` that the running edit must not touch -/
structure FInv (ex strict : Bool) (B : Nat → Prop) (wB : World) (s : St) : Prop where
  bound : ∀ i, B i → i < s.w.length
  same : ∀ i, B i → OptRel strict B (wB[i]?) (s.w[i]?)
  sep : ∀ (i : Nat) (c : Cell), ¬ B i → s.w[i]? = some c → CellOutX ex strict B c

def FGoodAt (ex strict : Bool) (B : Nat → Prop) (wB : World) (m : M α) (s : St) (Q : α → St → Prop) : Prop :=
  FInv ex strict B wB (m s).2 ∧ s.w.length ≤ (m s).2.w.length ∧ ∀ a, (m s).1 = .ok a → Q a (m s).2

section
variable {ex strict : Bool} {B : Nat → Prop} {wB : World}

theorem FGoodAt.pure {a : α} {s : St} {Q : α → St → Prop} (hI : FInv ex strict B wB s) (hQ : Q a s) :
    FGoodAt ex strict B wB (Pure.pure a : M α) s Q :=
  ⟨hI, Nat.le_refl _, by intro b hb; cases hb; exact hQ⟩

theorem FGoodAt.fail {e : Err} {s : St} {Q : α → St → Prop} (hI : FInv ex strict B wB s) :
    FGoodAt ex strict B wB (Clone.fail e : M α) s Q :=
  ⟨hI, Nat.le_refl _, by intro b hb; cases hb⟩

theorem FGoodAt.raise {why : String} {s : St} {Q : α → St → Prop} (hI : FInv ex strict B wB s) :
    FGoodAt ex strict B wB (Clone.raise why : M α) s Q := FGoodAt.fail hI

theorem FGoodAt.unsupported {why : String} {s : St} {Q : α → St → Prop} (hI : FInv ex strict B wB s) :
    FGoodAt ex strict B wB (Clone.unsupported why : M α) s Q := FGoodAt.fail hI

theorem FGoodAt.bind {m : M α} {f : α → M β} {s : St} {Q : α → St → Prop} {R : β → St → Prop}
    (hm : FGoodAt ex strict B wB m s Q)
    (hf : ∀ a s1, FInv ex strict B wB s1 → s.w.length ≤ s1.w.length → Q a s1 → FGoodAt ex strict B wB (f a) s1 R) :
    FGoodAt ex strict B wB (m >>= f) s R := by
  obtain ⟨hI, hl, hq⟩ := hm
  show FGoodAt ex strict B wB (M.bind m f) s R
  unfold FGoodAt M.bind
  rcases hms : m s with ⟨r, s1⟩
  rw [hms] at hI hl hq
  cases r with
  | error e => exact ⟨hI, hl, by intro b hb; cases hb⟩
  | ok a =>
    obtain ⟨hI2, hl2, hq2⟩ := hf a s1 hI hl (hq a rfl)
    exact ⟨hI2, Nat.le_trans hl hl2, hq2⟩

theorem FGoodAt.mono {m : M α} {s : St} {Q R : α → St → Prop} (hm : FGoodAt ex strict B wB m s Q)
    (h : ∀ a s1, FInv ex strict B wB s1 → s.w.length ≤ s1.w.length → Q a s1 → R a s1) :
    FGoodAt ex strict B wB m s R :=
  ⟨hm.1, hm.2.1, fun a ha => h a _ hm.1 hm.2.1 (hm.2.2 a ha)⟩

macro "fbind " h:term " with " a:ident s1:ident hI:ident hl:ident hq:ident : tactic =>
  `(tactic| (refine FGoodAt.bind $h ?_; intro $a $s1 $hI $hl $hq))

theorem FInv.alloc {s : St} {c : Cell} (hI : FInv ex strict B wB s) (hc : CellOutX ex strict B c) :
    FInv ex strict B wB { s with w := s.w ++ [c] } := by
  refine ⟨?_, ?_, ?_⟩
  · intro i hi
    have := hI.bound i hi
    simp only [List.length_append, List.length_cons, List.length_nil]
    omega
  · intro i hi
    have := hI.bound i hi
    simp only
    rw [List.getElem?_append_left this]
    exact hI.same i hi
  · intro i c' hi hc'
    simp only at hc'
    rcases Nat.lt_or_ge i s.w.length with h | h
    · rw [List.getElem?_append_left h] at hc'
      exact hI.sep i c' hi hc'
    · rw [List.getElem?_append_right h] at hc'
      have : i - s.w.length = 0 := by
        rcases Nat.eq_zero_or_pos (i - s.w.length) with h0 | h0
        · exact h0
        · rw [List.getElem?_eq_none (by simp; omega)] at hc'; cases hc'
      rw [this] at hc'
      simp at hc'
      subst hc'
      exact hc

/-- the fresh id is outside `B` -/
theorem FGoodAt.alloc {s : St} {c : Cell} (hI : FInv ex strict B wB s) (hc : CellOutX ex strict B c) :
    FGoodAt ex strict B wB (Clone.alloc c) s (fun r s1 => ¬ B r ∧ r < s1.w.length) := by
  refine ⟨hI.alloc hc, by simp [Clone.alloc], ?_⟩
  intro a ha
  simp only [Clone.alloc, Except.ok.injEq] at ha
  subst ha
  refine ⟨fun hb => Nat.lt_irrefl _ (hI.bound _ hb), by simp [Clone.alloc]⟩

theorem FInv.set {s : St} {i : Nat} {c : Cell} (hI : FInv ex strict B wB s) (hi : ¬ B i) (hc : CellOutX ex strict B c) :
    FInv ex strict B wB { s with w := s.w.set i c } := by
  refine ⟨?_, ?_, ?_⟩
  · intro j hj
    simpa using hI.bound j hj
  · intro j hj
    have : i ≠ j := fun h => hi (h ▸ hj)
    simp only
    rw [List.getElem?_set_ne this]
    exact hI.same j hj
  · intro j c' hj hc'
    simp only at hc'
    rw [List.getElem?_set] at hc'
    split at hc'
    · split at hc'
      · cases hc'; exact hc
      · cases hc'
    · exact hI.sep j c' hj hc'

theorem FGoodAt.set {s : St} {i : Nat} {c : Cell} (hI : FInv ex strict B wB s) (hi : ¬ B i)
    (hc : CellOutX ex strict B c) : FGoodAt ex strict B wB (setCell i c) s (fun _ _ => True) :=
  ⟨hI.set hi hc, by simp [setCell], fun _ _ => trivial⟩

theorem FGoodAt.readVal {s : St} {i : Nat} (hI : FInv ex strict B wB s) :
    FGoodAt ex strict B wB (Clone.readVal i) s (fun r s1 => s1 = s ∧ s.w[i]? = some (.val r)) := by
  unfold FGoodAt Clone.readVal
  split
  · next v h => exact ⟨hI, Nat.le_refl _, by intro a ha; cases ha; exact ⟨rfl, h⟩⟩
  · exact ⟨hI, Nat.le_refl _, by intro a ha; cases ha⟩

theorem FGoodAt.readNode {s : St} {i : Nat} (hI : FInv ex strict B wB s) :
    FGoodAt ex strict B wB (Clone.readNode i) s (fun r s1 => s1 = s ∧ s.w[i]? = some (.node r)) := by
  unfold FGoodAt Clone.readNode
  split
  · next v h => exact ⟨hI, Nat.le_refl _, by intro a ha; cases ha; exact ⟨rfl, h⟩⟩
  · exact ⟨hI, Nat.le_refl _, by intro a ha; cases ha⟩

theorem FGoodAt.readGraph {s : St} {i : Nat} (hI : FInv ex strict B wB s) :
    FGoodAt ex strict B wB (Clone.readGraph i) s (fun r s1 => s1 = s ∧ s.w[i]? = some (.graph r)) := by
  unfold FGoodAt Clone.readGraph
  split
  · next v h => exact ⟨hI, Nat.le_refl _, by intro a ha; cases ha; exact ⟨rfl, h⟩⟩
  · exact ⟨hI, Nat.le_refl _, by intro a ha; cases ha⟩

theorem FGoodAt.readType {s : St} {i : Nat} (hI : FInv ex strict B wB s) :
    FGoodAt ex strict B wB (Clone.readType i) s (fun r s1 => s1 = s ∧ s.w[i]? = some (.type r)) := by
  unfold FGoodAt Clone.readType
  split
  · next v h => exact ⟨hI, Nat.le_refl _, by intro a ha; cases ha; exact ⟨rfl, h⟩⟩
  · exact ⟨hI, Nat.le_refl _, by intro a ha; cases ha⟩

theorem FGoodAt.readShape {s : St} {i : Nat} (hI : FInv ex strict B wB s) :
    FGoodAt ex strict B wB (Clone.readShape i) s (fun r s1 => s1 = s ∧ s.w[i]? = some (.shape r)) := by
  unfold FGoodAt Clone.readShape
  split
  · next v h => exact ⟨hI, Nat.le_refl _, by intro a ha; cases ha; exact ⟨rfl, h⟩⟩
  · exact ⟨hI, Nat.le_refl _, by intro a ha; cases ha⟩

theorem FGoodAt.readTensor {s : St} {i : Nat} (hI : FInv ex strict B wB s) :
    FGoodAt ex strict B wB (Clone.readTensor i) s (fun r s1 => s1 = s ∧ s.w[i]? = some (.tensor r)) := by
  unfold FGoodAt Clone.readTensor
  split
  · next v h => exact ⟨hI, Nat.le_refl _, by intro a ha; cases ha; exact ⟨rfl, h⟩⟩
  · exact ⟨hI, Nat.le_refl _, by intro a ha; cases ha⟩

theorem FGoodAt.readFunc {s : St} {i : Nat} (hI : FInv ex strict B wB s) :
    FGoodAt ex strict B wB (Clone.readFunc i) s (fun r s1 => s1 = s ∧ s.w[i]? = some (.func r)) := by
  unfold FGoodAt Clone.readFunc
  split
  · next v h => exact ⟨hI, Nat.le_refl _, by intro a ha; cases ha; exact ⟨rfl, h⟩⟩
  · exact ⟨hI, Nat.le_refl _, by intro a ha; cases ha⟩

theorem FGoodAt.readModel {s : St} {i : Nat} (hI : FInv ex strict B wB s) :
    FGoodAt ex strict B wB (Clone.readModel i) s (fun r s1 => s1 = s ∧ s.w[i]? = some (.model r)) := by
  unfold FGoodAt Clone.readModel
  split
  · next v h => exact ⟨hI, Nat.le_refl _, by intro a ha; cases ha; exact ⟨rfl, h⟩⟩
  · exact ⟨hI, Nat.le_refl _, by intro a ha; cases ha⟩

theorem FGoodAt.readDict {s : St} {i : Nat} (hI : FInv ex strict B wB s) :
    FGoodAt ex strict B wB (Clone.readDict i) s (fun r s1 => s1 = s ∧ s.w[i]? = some (.dict r)) := by
  unfold FGoodAt Clone.readDict
  split
  · next v h => exact ⟨hI, Nat.le_refl _, by intro a ha; cases ha; exact ⟨rfl, h⟩⟩
  · exact ⟨hI, Nat.le_refl _, by intro a ha; cases ha⟩

end
section
variable {ex strict : Bool} {B : Nat → Prop} {wB : World}

theorem ownerDict_good {s : St} (o : Nat) (which : Which) (hI : FInv ex strict B wB s) (ho : ¬ B o) :
    FGoodAt ex strict B wB (ownerDict o which) s (fun r s1 => s1 = s ∧ ¬ B r) := by
  unfold FGoodAt ownerDict
  split
  · next v h =>
    obtain ⟨_, _, c, d, _⟩ := hI.sep o _ ho h
    exact ⟨hI, Nat.le_refl _, by intro a ha; cases ha; exact ⟨rfl, by cases which <;> assumption⟩⟩
  · next v h =>
    obtain ⟨_, c, d, _⟩ := hI.sep o _ ho h
    exact ⟨hI, Nat.le_refl _, by intro a ha; cases ha; exact ⟨rfl, by cases which <;> assumption⟩⟩
  · next v h =>
    obtain ⟨_, c, d, _⟩ := hI.sep o _ ho h
    exact ⟨hI, Nat.le_refl _, by intro a ha; cases ha; exact ⟨rfl, by cases which <;> assumption⟩⟩
  · next v h =>
    obtain ⟨c, d⟩ := hI.sep o _ ho h
    exact ⟨hI, Nat.le_refl _, by intro a ha; cases ha; exact ⟨rfl, by cases which <;> assumption⟩⟩
  · exact ⟨hI, Nat.le_refl _, by intro a ha; cases ha⟩

theorem usesByB_filter_ne {B : Nat → Prop} {us : List (Nat × Nat)} {n i : Nat} (hn : ¬ B n) :
    (us.filter (fun u => u != (n, i))).filter (fun u => @decide (B u.1) (Classical.propDecidable _)) =
      us.filter (fun u => @decide (B u.1) (Classical.propDecidable _)) := by
  rw [List.filter_filter]
  apply List.filter_congr
  intro u _
  by_cases hu : B u.1
  · have : u ≠ (n, i) := by intro h; rw [h] at hu; exact hn hu
    simp [hu, this]
  · simp [hu]

/-- writing the users of a value of the protected region by a node outside it (weak mode only) -/
theorem FInv.setUsesIn {s : St} {v : Nat} {vs : ValueS} {us : List (Nat × Nat)}
    (hI : FInv ex false B wB s) (hv : s.w[v]? = some (.val vs)) (hvB : B v)
    (hus : us.filter (fun u => @decide (B u.1) (Classical.propDecidable _)) =
      vs.uses.filter (fun u => @decide (B u.1) (Classical.propDecidable _))) :
    FInv ex false B wB { s with w := s.w.set v (.val { vs with uses := us }) } := by
  refine ⟨?_, ?_, ?_⟩
  · intro j hj; simpa using hI.bound j hj
  · intro j hj
    by_cases hjv : v = j
    · subst hjv
      have h0 := hI.same v hj
      rw [hv] at h0
      simp only
      rw [List.getElem?_set_self (lt_of_getElem? hv)]
      cases hw : wB[v]? with
      | none => rw [hw] at h0; exact h0
      | some c0 =>
        rw [hw] at h0
        exact CellRel.trans h0 (by
          show CellRel false B (.val vs) (.val { vs with uses := us })
          unfold CellRel
          simp only [Bool.false_eq_true, if_false]
          exact ⟨rfl, hus⟩)
    · simp only
      rw [List.getElem?_set_ne hjv]
      exact hI.same j hj
  · intro j c' hj hc'
    simp only at hc'
    rw [List.getElem?_set] at hc'
    split at hc'
    · split at hc'
      · next hjv _ =>
        cases hc'
        subst hjv
        exact absurd hvB hj
      · cases hc'
    · exact hI.sep j c' hj hc'

theorem fremoveUse_good {s : St} (v n i : Nat) (hI : FInv ex strict B wB s) (hv : strict = true → ¬ B v)
    (hn : ¬ B n) : FGoodAt ex strict B wB (removeUse v n i) s (fun _ _ => True) := by
  unfold removeUse
  fbind (FGoodAt.readVal hI) with vs s1 hI1 hl1 hq1
  obtain ⟨rfl, h⟩ := hq1
  split
  · by_cases hvB : B v
    · cases strict with
      | true => exact absurd hvB (hv rfl)
      | false =>
        exact ⟨hI1.setUsesIn h hvB (usesByB_filter_ne hn), by simp [setCell], fun _ _ => trivial⟩
    · obtain ⟨a1, a2, a3, a4, a5, a6, a7⟩ := hI1.sep v (.val vs) hvB h
      exact FGoodAt.set hI1 hvB (show CellOutX ex strict B (.val { vs with uses := _ }) from
        ⟨a1, a2, a3, a4, a5, a6, fun hu x hx => a7 hu x (List.mem_filter.mp hx).1⟩)
  · exact FGoodAt.raise hI1

theorem faddUse_good {s : St} (v n i : Nat) (hI : FInv ex strict B wB s) (hv : strict = true → ¬ B v)
    (hn : ¬ B n) : FGoodAt ex strict B wB (addUse v n i) s (fun _ _ => True) := by
  unfold addUse
  fbind (FGoodAt.readVal hI) with vs s1 hI1 hl1 hq1
  obtain ⟨rfl, h⟩ := hq1
  by_cases hvB : B v
  · cases strict with
    | true => exact absurd hvB (hv rfl)
    | false =>
      refine ⟨hI1.setUsesIn h hvB ?_, by simp [setCell], fun _ _ => trivial⟩
      split
      · rfl
      · rw [List.filter_append]
        have : List.filter (fun u => @decide (B u.1) (Classical.propDecidable _)) [(n, i)] = [] := by
          simp [List.filter, hn]
        rw [this]; simp
  · obtain ⟨a1, a2, a3, a4, a5, a6, a7⟩ := hI1.sep v (.val vs) hvB h
    refine FGoodAt.set hI1 hvB (show CellOutX ex strict B (.val { vs with uses := _ }) from
      ⟨a1, a2, a3, a4, a5, a6, fun hu x hx => ?_⟩)
    split at hx
    · exact a7 hu x hx
    · rcases List.mem_append.mp hx with hx | hx
      · exact a7 hu x hx
      · simp at hx; subst hx; exact hn

theorem faddUses_good (n : Nat) (hn : ¬ B n) :
    ∀ (l : List (Option Nat)) (i : Nat) (s : St), FInv ex strict B wB s → (∀ v, some v ∈ l → ¬ B v) →
      FGoodAt ex strict B wB (addUses n i l) s (fun _ _ => True)
  | [], i, s, hI, _ => FGoodAt.pure hI trivial
  | none :: rest, i, s, hI, hl => by
    unfold addUses
    exact faddUses_good n hn rest (i + 1) s hI (fun v hv => hl v (List.mem_cons_of_mem _ hv))
  | some v :: rest, i, s, hI, hl => by
    unfold addUses
    fbind (faddUse_good v n i hI (fun _ => hl v List.mem_cons_self) hn) with u s1 hI1 hl1 hq1
    exact faddUses_good n hn rest (i + 1) s1 hI1 (fun v hv => hl v (List.mem_cons_of_mem _ hv))

theorem fmkOutputs_good (n : Nat) :
    ∀ (k i : Nat) (s : St), FInv ex strict B wB s →
      FGoodAt ex strict B wB (mkOutputs n i k) s (fun r _ => ∀ v ∈ r, ¬ B v)
  | 0, i, s, hI => FGoodAt.pure hI (by simp)
  | k + 1, i, s, hI => by
    unfold mkOutputs
    fbind (FGoodAt.alloc hI (c := .dict {}) trivial) with pr s1 hI1 hl1 hpr
    fbind (FGoodAt.alloc hI1 (c := .dict {}) trivial) with me s2 hI2 hl2 hme
    have hc : CellOutX ex strict B (.val { producer := some n, index := some i, props := pr, mstore := me }) :=
      ⟨trivial, trivial, hpr.1, hme.1, trivial, trivial, fun _ x hx => by cases hx⟩
    fbind (FGoodAt.alloc hI2 hc) with v s3 hI3 hl3 hv
    fbind (fmkOutputs_good n k (i + 1) s3 hI3) with rest s4 hI4 hl4 hrest
    refine FGoodAt.pure hI4 ?_
    intro x hx
    rcases List.mem_cons.mp hx with h | h
    · subst h; exact hv.1
    · exact hrest x h

theorem fsetOutputNames_good :
    ∀ (vs : List Nat) (nms : List String) (s : St), FInv ex strict B wB s → (∀ v ∈ vs, ¬ B v) →
      FGoodAt ex strict B wB (setOutputNames vs nms) s (fun _ _ => True)
  | [], _, s, hI, _ => by unfold setOutputNames; exact FGoodAt.pure hI trivial
  | _ :: _, [], s, hI, _ => by unfold setOutputNames; exact FGoodAt.pure hI trivial
  | v :: vs, nm :: nms, s, hI, h => by
    unfold setOutputNames
    fbind (FGoodAt.readVal hI) with x s1 hI1 hl1 hq1
    obtain ⟨rfl, hx⟩ := hq1
    have hv := h v List.mem_cons_self
    fbind (FGoodAt.set hI1 hv (show CellOutX ex strict B (.val { x with name := some nm }) from hI1.sep v (.val x) hv hx))
      with u s2 hI2 hl2 hq2
    exact fsetOutputNames_good vs nms s2 hI2 (fun y hy => h y (List.mem_cons_of_mem _ hy))

end

section
variable {ex strict : Bool} {B : Nat → Prop} {wB : World}

/-- every argument of the edit is outside `B` -/
def ArgsOut (B : Nat → Prop) (e : Edit) : Prop := ∀ a ∈ e.args, ¬ B a

theorem optOut_of_toList {B : Nat → Prop} {o : Option Nat} (h : ∀ a ∈ o.toList, ¬ B a) : OptOut B o := by
  cases o with
  | none => trivial
  | some x => exact h x (by simp)

theorem applyEdit0_frame (e : Edit) {s : St} (hI : FInv ex strict B wB s) (ha : ArgsOut B e) :
    FGoodAt ex strict B wB (applyEdit0 e) s (fun _ _ => True) := by
  cases e with
  | setName v nm =>
    have hv : ¬ B v := ha v (by simp [Edit.args])
    unfold applyEdit0
    fbind (FGoodAt.readVal hI) with vs s1 hI1 hl1 hq1
    obtain ⟨rfl, h⟩ := hq1
    have hvo := hI1.sep v (.val vs) hv h
    have hren : ∀ (x : Option String) (s2 : St), FInv ex strict B wB s2 →
        FGoodAt ex strict B wB (renameTensor vs.const x) s2 (fun _ _ => True) := by
      intro x s2 hI2
      unfold renameTensor
      split
      · exact FGoodAt.pure hI2 trivial
      · next t ht =>
        have htB : ¬ B t := by
          obtain ⟨_, _, _, _, _, k, _⟩ := hvo
          rw [ht] at k; exact k
        fbind (FGoodAt.readTensor hI2) with nm0 s3 hI3 hl3 hq3
        exact FGoodAt.set hI3 htB (c := .tensor x) trivial
    split
    · exact FGoodAt.pure hI1 trivial
    · split
      · split
        · next nm1 gid oldstr hgid hnameq hne =>
          split
          · exact FGoodAt.raise hI1
          · fbind (FGoodAt.readGraph hI1) with gs s2 hI2 hl2 hq2
            obtain ⟨rfl, hgs⟩ := hq2
            have hgB : ¬ B gid := by
              obtain ⟨_, _, _, _, e, _⟩ := hvo
              rw [hgid] at e; exact e
            have hgo := hI2.sep gid (.graph gs) hgB hgs
            split
            · exact FGoodAt.raise hI2
            · fbind (hren _ s2 hI2) with u0 s2' hI2' hl2' hq2'
              fbind (FGoodAt.set hI2' hv (show CellOutX ex strict B (.val { vs with name := _ }) from hvo))
                with u s3 hI3 hl3 hq3
              split
              · obtain ⟨g1, g2, g3, g4⟩ := hgo
                refine FGoodAt.set hI3 hgB (show CellOutX ex strict B (.graph { gs with inits := _ }) from
                  ⟨g1, g2, g3, fun hu => ⟨(g4 hu).1, fun e he => ?_⟩⟩)
                rcases List.mem_append.mp he with he | he
                · exact (g4 hu).2 e (List.mem_filter.mp he).1
                · simp at he; subst he; exact hv
              · exact FGoodAt.raise hI3
        · exact FGoodAt.raise hI1
      · fbind (hren _ s1 hI1) with u0 s2 hI2 hl2 hq2
        exact FGoodAt.set hI2 hv (show CellOutX ex strict B (.val { vs with name := nm }) from hvo)
  | setType v t =>
    have hv : ¬ B v := ha v (by simp [Edit.args])
    unfold applyEdit0
    fbind (FGoodAt.readVal hI) with vs s1 hI1 hl1 hq1
    obtain ⟨rfl, h⟩ := hq1
    obtain ⟨_, b, c, d, e⟩ := hI1.sep v (.val vs) hv h
    cases t with
    | none => exact FGoodAt.set hI1 hv (show CellOutX ex strict B (.val { vs with type := none }) from ⟨trivial, b, c, d, e⟩)
    | some ts =>
      simp only
      fbind (FGoodAt.alloc hI1 (c := .type ts) trivial) with i s2 hI2 hl2 hi
      exact FGoodAt.set hI2 hv (show CellOutX ex strict B (.val { vs with type := some i }) from ⟨hi.1, b, c, d, e⟩)
  | setDtype v dt =>
    have hv : ¬ B v := ha v (by simp [Edit.args])
    unfold applyEdit0
    fbind (FGoodAt.readVal hI) with vs s1 hI1 hl1 hq1
    obtain ⟨rfl, h⟩ := hq1
    obtain ⟨a, b, c, d, e⟩ := hI1.sep v (.val vs) hv h
    split
    · fbind (FGoodAt.alloc hI1 (c := .type { dtype := dt }) trivial) with i s2 hI2 hl2 hi
      exact FGoodAt.set hI2 hv (show CellOutX ex strict B (.val { vs with type := some i }) from ⟨hi.1, b, c, d, e⟩)
    · next t ht =>
      rw [ht] at a
      fbind (FGoodAt.readType hI1) with ts s2 hI2 hl2 hq2
      exact FGoodAt.set hI2 a (c := .type { ts with dtype := dt }) trivial
  | setTypeDenot v dn =>
    have hv : ¬ B v := ha v (by simp [Edit.args])
    unfold applyEdit0
    fbind (FGoodAt.readVal hI) with vs s1 hI1 hl1 hq1
    obtain ⟨rfl, h⟩ := hq1
    obtain ⟨a, b, c, d, e⟩ := hI1.sep v (.val vs) hv h
    split
    · exact FGoodAt.raise hI1
    · next t ht =>
      rw [ht] at a
      fbind (FGoodAt.readType hI1) with ts s2 hI2 hl2 hq2
      split
      · exact FGoodAt.set hI2 a (c := .type { ts with denot := dn }) trivial
      · exact FGoodAt.set hI2 a (c := .type { ts with wrap := _ }) trivial
  | setShape v sh =>
    have hv : ¬ B v := ha v (by simp [Edit.args])
    unfold applyEdit0
    fbind (FGoodAt.readVal hI) with vs s1 hI1 hl1 hq1
    obtain ⟨rfl, h⟩ := hq1
    obtain ⟨a, _, c, d, e⟩ := hI1.sep v (.val vs) hv h
    cases sh with
    | none => exact FGoodAt.set hI1 hv (show CellOutX ex strict B (.val { vs with shape := none }) from ⟨a, trivial, c, d, e⟩)
    | some ss =>
      simp only
      fbind (FGoodAt.alloc hI1 (c := .shape ss) trivial) with i s2 hI2 hl2 hi
      exact FGoodAt.set hI2 hv (show CellOutX ex strict B (.val { vs with shape := some i }) from ⟨a, hi.1, c, d, e⟩)
  | setDim v i d =>
    have hv : ¬ B v := ha v (by simp [Edit.args])
    unfold applyEdit0
    fbind (FGoodAt.readVal hI) with vs s1 hI1 hl1 hq1
    obtain ⟨rfl, h⟩ := hq1
    obtain ⟨_, b, _, _, _⟩ := hI1.sep v (.val vs) hv h
    split
    · exact FGoodAt.raise hI1
    · next sh hsh =>
      rw [hsh] at b
      fbind (FGoodAt.readShape hI1) with ss s2 hI2 hl2 hq2
      split
      · exact FGoodAt.raise hI2
      · split
        · exact FGoodAt.set hI2 b (c := .shape { ss with dims := _ }) trivial
        · exact FGoodAt.raise hI2
  | setDimDenot v i dn =>
    have hv : ¬ B v := ha v (by simp [Edit.args])
    unfold applyEdit0
    fbind (FGoodAt.readVal hI) with vs s1 hI1 hl1 hq1
    obtain ⟨rfl, h⟩ := hq1
    obtain ⟨_, b, _, _, _⟩ := hI1.sep v (.val vs) hv h
    split
    · exact FGoodAt.raise hI1
    · next sh hsh =>
      rw [hsh] at b
      fbind (FGoodAt.readShape hI1) with ss s2 hI2 hl2 hq2
      split
      · exact FGoodAt.set hI2 b (c := .shape { ss with denots := _ }) trivial
      · exact FGoodAt.raise hI2
  | setConst v t =>
    have hv : ¬ B v := ha v (by simp [Edit.args])
    unfold applyEdit0
    fbind (FGoodAt.readVal hI) with vs s1 hI1 hl1 hq1
    obtain ⟨rfl, h⟩ := hq1
    obtain ⟨a, b, c, d, e, _, k7⟩ := hI1.sep v (.val vs) hv h
    have ht : OptOut B t := optOut_of_toList (fun x hx => ha x (by simp [Edit.args]; exact .inr (by simpa using hx)))
    exact FGoodAt.set hI1 hv (show CellOutX ex strict B (.val { vs with const := t }) from ⟨a, b, c, d, e, ht, k7⟩)
  | setDoc v d =>
    have hv : ¬ B v := ha v (by simp [Edit.args])
    unfold applyEdit0
    fbind (FGoodAt.readVal hI) with vs s1 hI1 hl1 hq1
    obtain ⟨rfl, h⟩ := hq1
    exact FGoodAt.set hI1 hv (show CellOutX ex strict B (.val { vs with doc := d }) from hI1.sep v (.val vs) hv h)
  | dictSet o which k x =>
    have ho : ¬ B o := ha o (by simp [Edit.args])
    unfold applyEdit0
    fbind (ownerDict_good o which hI ho) with di s1 hI1 hl1 hq1
    obtain ⟨rfl, hdi⟩ := hq1
    fbind (FGoodAt.readDict hI1) with d s2 hI2 hl2 hq2
    exact FGoodAt.set hI2 hdi (c := .dict _) trivial
  | dictDel o which k =>
    have ho : ¬ B o := ha o (by simp [Edit.args])
    unfold applyEdit0
    fbind (ownerDict_good o which hI ho) with di s1 hI1 hl1 hq1
    obtain ⟨rfl, hdi⟩ := hq1
    fbind (FGoodAt.readDict hI1) with d s2 hI2 hl2 hq2
    split
    · exact FGoodAt.set hI2 hdi (c := .dict _) trivial
    · exact FGoodAt.raise hI2
  | metaInvalidate o k =>
    have ho : ¬ B o := ha o (by simp [Edit.args])
    unfold applyEdit0
    fbind (ownerDict_good o .mstore hI ho) with di s1 hI1 hl1 hq1
    obtain ⟨rfl, hdi⟩ := hq1
    fbind (FGoodAt.readDict hI1) with d s2 hI2 hl2 hq2
    exact FGoodAt.set hI2 hdi (c := .dict _) trivial
  | replaceInput n i v =>
    have hn : ¬ B n := ha n (by simp [Edit.args])
    have hvB : OptOut B v := optOut_of_toList (fun a h => ha a (by simp [Edit.args]; exact .inr (by simpa using h)))
    unfold applyEdit0
    fbind (FGoodAt.readNode hI) with ns s1 hI1 hl1 hq1
    obtain ⟨rfl, h⟩ := hq1
    obtain ⟨hin, hp, hm⟩ := hI1.sep n (.node ns) hn h
    split
    · next hlt =>
      have hset : CellOutX ex strict B (.node { ns with inputs := ns.inputs.set i v }) := by
        refine ⟨?_, hp, hm⟩
        intro hs x hx
        rcases List.mem_or_eq_of_mem_set hx with h1 | h1
        · exact hin hs x h1
        · rw [← h1] at hvB; exact hvB
      fbind (FGoodAt.set hI1 hn hset) with u s2 hI2 hl2 hq2
      have hold : ∀ o, (ns.inputs[i]?).join = some o → strict = true → ¬ B o := by
        intro o ho hs
        apply hin hs o
        cases hget : ns.inputs[i]? with
        | none => rw [hget] at ho; cases ho
        | some x =>
          rw [hget] at ho
          simp at ho
          subst ho
          exact List.mem_of_getElem? hget
      have hrem : FGoodAt ex strict B wB (removeUseOpt (ns.inputs[i]?).join n i) s2 (fun _ _ => True) := by
        unfold removeUseOpt
        split
        · next o ho => exact fremoveUse_good o n i hI2 (hold o ho) hn
        · exact FGoodAt.pure hI2 trivial
      fbind hrem with u3 s3 hI3 hl3 hq3
      have hadd : FGoodAt ex strict B wB (addUseOpt v n i) s3 (fun _ _ => True) := by
        unfold addUseOpt
        cases v with
        | none => exact FGoodAt.pure hI3 trivial
        | some x => exact faddUse_good x n i hI3 (fun _ => hvB) hn
      fbind hadd with u4 s4 hI4 hl4 hq4
      unfold dropShardingStep
      split
      · split
        · fbind (FGoodAt.readNode hI4) with nn s5 hI5 hl5 hq5
          obtain ⟨rfl, hnn⟩ := hq5
          obtain ⟨a1, a2, a3⟩ := hI5.sep n (.node nn) hn hnn
          refine FGoodAt.set hI5 hn ?_
          unfold dropSharding
          split
          · exact ⟨a1, a2, a3⟩
          · exact ⟨a1, a2, a3⟩
        · exact FGoodAt.pure hI4 trivial
      · exact FGoodAt.pure hI4 trivial
    · exact FGoodAt.raise hI1
  | setNodeName n nm =>
    have hn : ¬ B n := ha n (by simp [Edit.args])
    unfold applyEdit0
    fbind (FGoodAt.readNode hI) with ns s1 hI1 hl1 hq1
    obtain ⟨rfl, h⟩ := hq1
    exact FGoodAt.set hI1 hn (show CellOutX ex strict B (.node { ns with name := nm }) from hI1.sep n (.node ns) hn h)
  | setOpType n nm =>
    have hn : ¬ B n := ha n (by simp [Edit.args])
    unfold applyEdit0
    fbind (FGoodAt.readNode hI) with ns s1 hI1 hl1 hq1
    obtain ⟨rfl, h⟩ := hq1
    exact FGoodAt.set hI1 hn (show CellOutX ex strict B (.node { ns with opType := nm }) from hI1.sep n (.node ns) hn h)
  | setAttr n k p =>
    have hn : ¬ B n := ha n (by simp [Edit.args])
    unfold applyEdit0
    fbind (FGoodAt.readNode hI) with ns s1 hI1 hl1 hq1
    obtain ⟨rfl, h⟩ := hq1
    have := hI1.sep n (.node ns) hn h
    fbind (FGoodAt.alloc hI1 (c := .attr { name := k, v := .plain p }) trivial) with a s2 hI2 hl2 hq2
    exact FGoodAt.set hI2 hn (show CellOutX ex strict B (.node { ns with attrs := _ }) from this)
  | delAttr n k =>
    have hn : ¬ B n := ha n (by simp [Edit.args])
    unfold applyEdit0
    fbind (FGoodAt.readNode hI) with ns s1 hI1 hl1 hq1
    obtain ⟨rfl, h⟩ := hq1
    split
    · exact FGoodAt.set hI1 hn (show CellOutX ex strict B (.node { ns with attrs := _ }) from hI1.sep n (.node ns) hn h)
    · exact FGoodAt.raise hI1
  | setGraphName g nm =>
    have hg : ¬ B g := ha g (by simp [Edit.args])
    unfold applyEdit0
    fbind (FGoodAt.readGraph hI) with gs s1 hI1 hl1 hq1
    obtain ⟨rfl, h⟩ := hq1
    exact FGoodAt.set hI1 hg (show CellOutX ex strict B (.graph { gs with name := nm }) from hI1.sep g (.graph gs) hg h)
  | setOpset g dom ver =>
    have hg : ¬ B g := ha g (by simp [Edit.args])
    unfold applyEdit0
    fbind (FGoodAt.readGraph hI) with gs s1 hI1 hl1 hq1
    obtain ⟨rfl, h⟩ := hq1
    exact FGoodAt.set hI1 hg (show CellOutX ex strict B (.graph { gs with opsets := _ }) from hI1.sep g (.graph gs) hg h)
  | removeNode g n =>
    have hg : ¬ B g := ha g (by simp [Edit.args])
    have hn : ¬ B n := ha n (by simp [Edit.args])
    unfold applyEdit0
    fbind (FGoodAt.readGraph hI) with gs s1 hI1 hl1 hq1
    obtain ⟨rfl, hgs⟩ := hq1
    fbind (FGoodAt.readNode hI1) with ns s2 hI2 hl2 hq2
    obtain ⟨rfl, hns⟩ := hq2
    split
    · exact FGoodAt.unsupported hI2
    · split
      · exact FGoodAt.raise hI2
      · fbind (FGoodAt.set hI2 hn (show CellOutX ex strict B (.node { ns with graph := none }) from hI2.sep n (.node ns) hn hns))
          with u s3 hI3 hl3 hq3
        exact FGoodAt.set hI3 hg (show CellOutX ex strict B (.graph { gs with nodes := _ }) from hI2.sep g (.graph gs) hg hgs)
  | appendNode g name op inputs outNames =>
    have hg : ¬ B g := ha g (by simp [Edit.args])
    have hins : ∀ v, some v ∈ inputs → ¬ B v := by
      intro v hv
      apply ha v
      simp only [Edit.args, List.mem_cons, List.mem_filterMap, id]
      exact .inr ⟨some v, hv, rfl⟩
    unfold applyEdit0
    fbind (FGoodAt.readGraph hI) with gs s1 hI1 hl1 hq1
    obtain ⟨rfl, hgs⟩ := hq1
    split
    · exact FGoodAt.unsupported hI1
    · fbind (FGoodAt.alloc hI1 (c := .dict {}) trivial) with pr s2 hI2 hl2 hpr
      fbind (FGoodAt.alloc hI2 (c := .dict {}) trivial) with me s3 hI3 hl3 hme
      have hc : CellOutX ex strict B
          (.node { name := some name, opType := op, inputs := inputs, props := pr, mstore := me }) :=
        ⟨fun _ => hins, hpr.1, hme.1, fun _ o ho => by cases ho⟩
      fbind (FGoodAt.alloc hI3 hc) with n s4 hI4 hl4 hn
      fbind (fmkOutputs_good n outNames.length 0 s4 hI4) with outs s5 hI5 hl5 houts
      fbind (FGoodAt.readNode hI5) with nn s6 hI6 hl6 hq6
      obtain ⟨rfl, hnn⟩ := hq6
      obtain ⟨b1, b2, b3, _⟩ := hI6.sep n (.node nn) hn.1 hnn
      fbind (FGoodAt.set hI6 hn.1 (show CellOutX ex strict B (.node { nn with outputs := outs }) from
        ⟨b1, b2, b3, fun _ => houts⟩)) with u s7 hI7 hl7 hq7
      fbind (faddUses_good n hn.1 inputs 0 s7 hI7 hins) with u2 s8 hI8 hl8 hq8
      fbind (fsetOutputNames_good outs outNames s8 hI8 houts) with u3 s9 hI9 hl9 hq9
      fbind (FGoodAt.readNode hI9) with nn2 s10 hI10 hl10 hq10
      obtain ⟨rfl, hnn2⟩ := hq10
      fbind (FGoodAt.set hI10 hn.1 (show CellOutX ex strict B (.node { nn2 with graph := some g }) from
        hI10.sep n (.node nn2) hn.1 hnn2)) with u4 s11 hI11 hl11 hq11
      fbind (FGoodAt.readGraph hI11) with gs2 s12 hI12 hl12 hq12
      obtain ⟨rfl, hgs2⟩ := hq12
      exact FGoodAt.set hI12 hg (show CellOutX ex strict B (.graph { gs2 with nodes := _ }) from
        hI12.sep g (.graph gs2) hg hgs2)
  | appendOutput g v =>
    have hg : ¬ B g := ha g (by simp [Edit.args])
    have hv : ¬ B v := ha v (by simp [Edit.args])
    unfold applyEdit0
    fbind (FGoodAt.readGraph hI) with gs s1 hI1 hl1 hq1
    obtain ⟨rfl, hgs⟩ := hq1
    obtain ⟨go, gp, gm⟩ := hI1.sep g (.graph gs) hg hgs
    split
    · exact FGoodAt.unsupported hI1
    · fbind (FGoodAt.readVal hI1) with vs s2 hI2 hl2 hq2
      obtain ⟨rfl, hvs⟩ := hq2
      obtain ⟨a, b, c, d, _, k⟩ := hI2.sep v (.val vs) hv hvs
      split
      · exact FGoodAt.raise hI2
      · fbind (FGoodAt.set hI2 hv (show CellOutX ex strict B (.val { vs with isOut := true, graph := some g }) from
          ⟨a, b, c, d, hg, k⟩)) with u s3 hI3 hl3 hq3
        refine FGoodAt.set hI3 hg (show CellOutX ex strict B (.graph { gs with outputs := gs.outputs ++ [v] }) from
          ⟨?_, gp, gm⟩)
        intro x hx
        rcases List.mem_append.mp hx with h | h
        · exact go x h
        · simp at h; subst h; exact hv
  | popOutput g =>
    have hg : ¬ B g := ha g (by simp [Edit.args])
    unfold applyEdit0
    fbind (FGoodAt.readGraph hI) with gs s1 hI1 hl1 hq1
    obtain ⟨rfl, hgs⟩ := hq1
    obtain ⟨go, gp, gm⟩ := hI1.sep g (.graph gs) hg hgs
    split
    · exact FGoodAt.unsupported hI1
    · split
      · exact FGoodAt.raise hI1
      · next v hv =>
        have hvB : ¬ B v := go v (List.mem_of_getLast? hv)
        have hdrop : CellOutX ex strict B (.graph { gs with outputs := gs.outputs.dropLast }) :=
          ⟨fun x hx => go x (List.dropLast_subset _ hx), gp, gm⟩
        fbind (FGoodAt.set hI1 hg hdrop) with u s2 hI2 hl2 hq2
        split
        · exact FGoodAt.pure hI2 trivial
        · fbind (FGoodAt.readVal hI2) with vs s3 hI3 hl3 hq3
          obtain ⟨rfl, hvs⟩ := hq3
          obtain ⟨a, b, c, d, e⟩ := hI3.sep v (.val vs) hvB hvs
          refine FGoodAt.set hI3 hvB ?_
          split
          · exact ⟨a, b, c, d, e⟩
          · exact ⟨a, b, c, d, trivial, e.2⟩

  | setNodeDomain _ _ => exact FGoodAt.unsupported hI
  | setNodeOverload _ _ => exact FGoodAt.unsupported hI
  | setNodeVersion _ _ => exact FGoodAt.unsupported hI
  | setNodeDoc _ _ => exact FGoodAt.unsupported hI
  | setGraphDoc _ _ => exact FGoodAt.unsupported hI
  | setDev _ _ => exact FGoodAt.unsupported hI
  | setFuncName _ _ => exact FGoodAt.unsupported hI
  | setModelHeader _ _ => exact FGoodAt.unsupported hI

theorem applyEdit_frame (e : Edit) {s : St} (hI : FInv ex strict B wB s) (ha : ArgsOut B e) :
    FGoodAt ex strict B wB (applyEdit e) s (fun _ _ => True) := by
  have hnode : ∀ (n : Nat) (f : NodeS → NodeS), ¬ B n →
      (∀ ns, CellOutX ex strict B (.node ns) → CellOutX ex strict B (.node (f ns))) →
      FGoodAt ex strict B wB (do let ns ← readNode n; setCell n (.node (f ns))) s (fun _ _ => True) := by
    intro n f hn hf
    fbind (FGoodAt.readNode hI) with ns s1 hI1 hl1 hq1
    obtain ⟨rfl, h⟩ := hq1
    exact FGoodAt.set hI1 hn (hf ns (hI1.sep n (.node ns) hn h))
  cases e with
  | setNodeDomain n x => exact hnode n (fun ns => { ns with domain := x }) (ha n (by simp [Edit.args])) (fun _ h => h)
  | setNodeOverload n x => exact hnode n (fun ns => { ns with overload := x }) (ha n (by simp [Edit.args])) (fun _ h => h)
  | setNodeVersion n x => exact hnode n (fun ns => { ns with version := x }) (ha n (by simp [Edit.args])) (fun _ h => h)
  | setNodeDoc n x => exact hnode n (fun ns => { ns with doc := x }) (ha n (by simp [Edit.args])) (fun _ h => h)
  | setDev n d => exact hnode n (fun ns => { ns with dev := d }) (ha n (by simp [Edit.args])) (fun _ h => h)
  | setGraphDoc g x =>
    have hg : ¬ B g := ha g (by simp [Edit.args])
    show FGoodAt ex strict B wB (do let gs ← readGraph g; setCell g (.graph { gs with doc := x })) s _
    fbind (FGoodAt.readGraph hI) with gs s1 hI1 hl1 hq1
    obtain ⟨rfl, h⟩ := hq1
    exact FGoodAt.set hI1 hg (show CellOutX ex strict B (.graph { gs with doc := x }) from hI1.sep g (.graph gs) hg h)
  | setFuncName f x =>
    have hf : ¬ B f := ha f (by simp [Edit.args])
    show FGoodAt ex strict B wB (do let fs ← readFunc f; setCell f (.func { fs with name := x })) s _
    fbind (FGoodAt.readFunc hI) with fs s1 hI1 hl1 hq1
    exact FGoodAt.set hI1 hf (c := .func _) trivial
  | setModelHeader m x =>
    have hm : ¬ B m := ha m (by simp [Edit.args])
    show FGoodAt ex strict B wB (do let ms ← readModel m; setCell m (.model { ms with header := x })) s _
    fbind (FGoodAt.readModel hI) with ms s1 hI1 hl1 hq1
    obtain ⟨rfl, h⟩ := hq1
    exact FGoodAt.set hI1 hm (show CellOutX ex strict B (.model { ms with header := x }) from hI1.sep m (.model ms) hm h)
  | setName v nm => exact applyEdit0_frame (.setName v nm) hI ha
  | setType v t => exact applyEdit0_frame (.setType v t) hI ha
  | setDtype v d => exact applyEdit0_frame (.setDtype v d) hI ha
  | setTypeDenot v x => exact applyEdit0_frame (.setTypeDenot v x) hI ha
  | setShape v x => exact applyEdit0_frame (.setShape v x) hI ha
  | setDim v i d => exact applyEdit0_frame (.setDim v i d) hI ha
  | setDimDenot v i x => exact applyEdit0_frame (.setDimDenot v i x) hI ha
  | setConst v t => exact applyEdit0_frame (.setConst v t) hI ha
  | setDoc v x => exact applyEdit0_frame (.setDoc v x) hI ha
  | dictSet o wh k x => exact applyEdit0_frame (.dictSet o wh k x) hI ha
  | dictDel o wh k => exact applyEdit0_frame (.dictDel o wh k) hI ha
  | metaInvalidate o k => exact applyEdit0_frame (.metaInvalidate o k) hI ha
  | replaceInput n i v => exact applyEdit0_frame (.replaceInput n i v) hI ha
  | setNodeName n x => exact applyEdit0_frame (.setNodeName n x) hI ha
  | setOpType n x => exact applyEdit0_frame (.setOpType n x) hI ha
  | setAttr n k p => exact applyEdit0_frame (.setAttr n k p) hI ha
  | delAttr n k => exact applyEdit0_frame (.delAttr n k) hI ha
  | setGraphName g x => exact applyEdit0_frame (.setGraphName g x) hI ha
  | setOpset g d v => exact applyEdit0_frame (.setOpset g d v) hI ha
  | removeNode g n => exact applyEdit0_frame (.removeNode g n) hI ha
  | appendNode g a b c d => exact applyEdit0_frame (.appendNode g a b c d) hI ha
  | appendOutput g v => exact applyEdit0_frame (.appendOutput g v) hI ha
  | popOutput g => exact applyEdit0_frame (.popOutput g) hI ha

end

end IrVerif.Clone

/-
C16 (deepening) — lemmas about the operator overloads, `evaluate` and `Shape` (Model/SymDim.lean).
-/
import IrVerif.Model.SymDim
import IrVerif.Lemmas.SymExprArith
import IrVerif.Lemmas.SymExprInt
import Mathlib.Tactic.Ring
import Mathlib.Data.List.Forall2
namespace IrVerif.SymExpr

/-- the integer operation a Python operator denotes -/
def BOp.den : BOp → BinOp
  | .add => .add | .sub => .sub | .mul => .mul | .truediv => .div
  | .floordiv => .fdiv | .mod => .mod | .pow => .pow

def UOp.den : UOp → UnOp
  | .neg => .neg | .floor => .floor | .ceil => .ceil | .trunc => .trunc

/-- the expression an accepted operand stands for -/
def Operand.asExpr : Operand → Option Expr
  | .int n => some (.num n)
  | .dim (.expr e) => some e
  | _ => none

/-- Python's own arithmetic on two `int`s (`none` = ZeroDivisionError; `/` is exact here, where
    Python would round to a float) -/
def pyIntOp : BOp → Int → Int → Option Rat
  | .add, x, y => some ((x + y : Int) : Rat)
  | .sub, x, y => some ((x - y : Int) : Rat)
  | .mul, x, y => some ((x * y : Int) : Rat)
  | .truediv, x, y => if y = 0 then none else some ((x : Rat) / (y : Rat))
  | .floordiv, x, y => if y = 0 then none else some ((Int.fdiv x y : Int) : Rat)
  | .mod, x, y => if y = 0 then none else some ((Int.fmod x y : Int) : Rat)
  | .pow, _, _ => none

/-- `floor(a / b)`, the tree `//` builds, is floor division -/
theorem eval_floor_div (env : Env) (a b : Expr) :
    eval env (.un .floor (.bin .div a b)) = eval env (.bin .fdiv a b) := by
  simp only [eval]
  cases eval env a with
  | none => rfl
  | some x =>
    cases eval env b with
    | none => rfl
    | some y =>
      by_cases hy : y = 0
      · simp [evalBin, hy]
      · simp [evalBin, evalUn, hy]

theorem eval_fwdTree (env : Env) (o : BOp) (a b : Expr) :
    eval env (fwdTree o a b) = eval env (.bin o.den a b) := by
  cases o <;> simp only [fwdTree, BOp.den]
  exact eval_floor_div env a b

/-- `Rational(1, n) * a`, the tree `a / n` builds for an `int` n, is true division by n -/
theorem eval_rational_mul (env : Env) (a : Expr) (n : Int) :
    eval env (.bin .mul (.bin .div (.num 1) (.num n)) a) = eval env (.bin .div a (.num n)) := by
  simp only [eval]
  cases eval env a with
  | none =>
    by_cases hn : (n : Rat) = 0 <;> simp [evalBin, hn]
  | some x =>
    by_cases hn : (n : Rat) = 0
    · simp [evalBin, hn]
    · simp only [evalBin, hn, if_false]
      congr 1
      push_cast
      ring

theorem eval_fwdTreeInt (env : Env) (o : BOp) (a : Expr) (n : Int) :
    eval env (fwdTreeInt o a n) = eval env (.bin o.den a (.num n)) := by
  cases o <;> simp only [fwdTreeInt, BOp.den] <;> first
    | exact eval_fwdTree env _ a (.num n)
    | exact eval_rational_mul env a n

theorem eval_add_comm (env : Env) (a b : Expr) :
    eval env (.bin .add a b) = eval env (.bin .add b a) := by
  simp only [eval]
  cases eval env a <;> cases eval env b <;> simp [evalBin, add_comm]

theorem eval_mul_comm (env : Env) (a b : Expr) :
    eval env (.bin .mul a b) = eval env (.bin .mul b a) := by
  simp only [eval]
  cases eval env a <;> cases eval env b <;> simp [evalBin, mul_comm]

theorem eval_unTree (env : Env) (u : UOp) (a : Expr) :
    eval env (unTree u a) = eval env (.un u.den a) := by
  cases u <;> simp only [unTree, UOp.den]
  simp only [eval]
  cases eval env a with
  | none => rfl
  | some x => simp [evalUn, evalBin, sign_mul_floor_abs]

/-- the operation on two integer values -/
theorem evalBin_den_int (o : BOp) (x y : Int) (ho : o ≠ .pow) :
    evalBin o.den (x : Rat) (y : Rat) = pyIntOp o x y := by
  cases o with
  | pow => exact absurd rfl ho
  | add => simp [BOp.den, evalBin, pyIntOp]
  | sub => simp [BOp.den, evalBin, pyIntOp]
  | mul => simp [BOp.den, evalBin, pyIntOp]
  | truediv =>
    by_cases hy : y = 0
    · simp [BOp.den, evalBin, pyIntOp, hy]
    · have hyq : (y : Rat) ≠ 0 := by exact_mod_cast hy
      simp [BOp.den, evalBin, pyIntOp, hy, hyq]
  | floordiv =>
    by_cases hy : y = 0
    · simp [BOp.den, evalBin, pyIntOp, hy]
    · simp only [BOp.den, pyIntOp, hy, if_false]
      exact evalBin_int_fdiv x y hy
  | mod =>
    by_cases hy : y = 0
    · simp [BOp.den, evalBin, pyIntOp, hy]
    · simp only [BOp.den, pyIntOp, hy, if_false]
      exact evalBin_int_mod x y hy

/-! ## forward / reflected methods -/

theorem dunder_expr_ok (o : BOp) (ho : o ≠ .pow) (a : Expr) (y : Operand) (b : Expr)
    (hy : y.asExpr = some b) :
    ∃ t, dunder o (.expr a) y = .ok (.expr t) ∧ ∀ env, eval env t = eval env (.bin o.den a b) := by
  cases y with
  | int n =>
    simp only [Operand.asExpr, Option.some.injEq] at hy
    subst hy
    refine ⟨fwdTreeInt o a n, ?_, fun env => eval_fwdTreeInt env o a n⟩
    cases o <;> first | exact absurd rfl ho | rfl
  | dim d =>
    cases d with
    | expr e =>
      simp only [Operand.asExpr, Option.some.injEq] at hy
      subst hy
      refine ⟨fwdTree o a e, ?_, fun env => eval_fwdTree env o a e⟩
      cases o <;> first | exact absurd rfl ho | rfl
    | unknown => simp [Operand.asExpr] at hy
    | bad => simp [Operand.asExpr] at hy
  | other => simp [Operand.asExpr] at hy
  | bool _ => simp [Operand.asExpr] at hy

theorem rdunder_expr_ok (o : BOp) (ho : o ≠ .pow) (a : Expr) (n : Int) :
    ∃ t, rdunder o (.expr a) (.int n) = .ok (.expr t) ∧
      ∀ env, eval env t = eval env (.bin o.den (.num n) a) := by
  cases o with
  | pow => exact absurd rfl ho
  | add =>
    exact ⟨.bin .add a (.num n), rfl, fun env => eval_add_comm env a (.num n)⟩
  | mul =>
    exact ⟨.bin .mul a (.num n), rfl, fun env => eval_mul_comm env a (.num n)⟩
  | sub => exact ⟨revTree .sub n a, rfl, fun env => eval_fwdTree env .sub (.num n) a⟩
  | truediv => exact ⟨revTree .truediv n a, rfl, fun env => eval_fwdTree env .truediv (.num n) a⟩
  | floordiv => exact ⟨revTree .floordiv n a, rfl, fun env => eval_fwdTree env .floordiv (.num n) a⟩
  | mod => exact ⟨revTree .mod n a, rfl, fun env => eval_fwdTree env .mod (.num n) a⟩

/-- every operator except `**` accepts every mix of `int` and well-formed dimensions (at least one
    dimension) -/
def Operand.accepted : Operand → Bool
  | .int _ => true
  | .dim .unknown => true
  | .dim (.expr _) => true
  | _ => false

def Operand.isDim : Operand → Bool
  | .dim _ => true
  | _ => false

def Operand.isUnknown : Operand → Bool
  | .dim .unknown => true
  | _ => false

theorem binop_accepts (o : BOp) (ho : o ≠ .pow) (x y : Operand) (hx : x.accepted = true)
    (hy : y.accepted = true) (hd : x.isDim = true ∨ y.isDim = true) :
    ∃ d, binop o x y = .ok d ∧ d ≠ .bad ∧
      (d = .unknown ↔ (x.isUnknown = true ∨ y.isUnknown = true)) := by
  cases x with
  | other => simp [Operand.accepted] at hx
  | bool _ => simp [Operand.accepted] at hx
  | int n =>
    cases y with
    | other => simp [Operand.accepted] at hy
    | bool _ => simp [Operand.accepted] at hy
    | int m => simp [Operand.isDim] at hd
    | dim d =>
      cases d with
      | bad => simp [Operand.accepted] at hy
      | unknown =>
        refine ⟨.unknown, ?_, by simp, by simp [Operand.isUnknown]⟩
        cases o <;> first | exact absurd rfl ho | rfl
      | expr b =>
        obtain ⟨t, ht, _⟩ := rdunder_expr_ok o ho b n
        refine ⟨.expr t, ?_, by simp, by simp [Operand.isUnknown]⟩
        simp [binop, ht, Out.toPy]
  | dim d =>
    cases d with
    | bad => simp [Operand.accepted] at hx
    | unknown =>
      refine ⟨.unknown, ?_, by simp, by simp [Operand.isUnknown]⟩
      cases o <;> first | exact absurd rfl ho | (cases y <;> rfl)
    | expr a =>
      cases y with
      | other => simp [Operand.accepted] at hy
      | bool _ => simp [Operand.accepted] at hy
      | int n =>
        obtain ⟨t, ht, _⟩ := dunder_expr_ok o ho a (.int n) (.num n) rfl
        refine ⟨.expr t, ?_, by simp, by simp [Operand.isUnknown]⟩
        simp [binop, ht, Out.toPy]
      | dim d2 =>
        cases d2 with
        | bad => simp [Operand.accepted] at hy
        | unknown =>
          refine ⟨.unknown, ?_, by simp, by simp [Operand.isUnknown]⟩
          cases o <;> first | exact absurd rfl ho | rfl
        | expr b =>
          obtain ⟨t, ht, _⟩ := dunder_expr_ok o ho a (.dim (.expr b)) b rfl
          refine ⟨.expr t, ?_, by simp, by simp [Operand.isUnknown]⟩
          simp [binop, ht, Out.toPy]

theorem binop_pow (x y : Operand) : binop .pow x y = .typeError := by
  cases x <;> cases y <;> rfl

/-- a foreign operand next to a known dimension is a TypeError, on either side -/
theorem binop_other (o : BOp) (a : Expr) :
    binop o (.dim (.expr a)) .other = .typeError ∧ binop o .other (.dim (.expr a)) = .typeError := by
  cases o <;> exact ⟨rfl, rfl⟩

/-! ## bool operands (`isinstance(True, int)`) -/

/-- the `int` a bool is for `isinstance` -/
def boolInt (b : Bool) : Int := if b then 1 else 0

/-- a bool goes down the `int` branches: the unknown dimension absorbs it and a bad text raises on
    either side, exactly as with an `int` -/
theorem binop_bool_absorb (o : BOp) (ho : o ≠ .pow) (b : Bool) :
    binop o (.dim .unknown) (.bool b) = .ok .unknown ∧
    binop o (.bool b) (.dim .unknown) = .ok .unknown ∧
    binop o (.dim .bad) (.bool b) = .valueError ∧
    binop o (.bool b) (.dim .bad) = .valueError := by
  cases o <;> first | exact absurd rfl ho | exact ⟨rfl, rfl, rfl, rfl⟩

/-- SymPy refuses the bool: TypeError on either side of a known dimension, except `dim / bool` -/
theorem binop_bool_refused (o : BOp) (b : Bool) (a : Expr) :
    (o ≠ .truediv → binop o (.dim (.expr a)) (.bool b) = .typeError) ∧
    binop o (.bool b) (.dim (.expr a)) = .typeError := by
  cases o <;> refine ⟨fun h => ?_, rfl⟩ <;> first | exact absurd rfl h | rfl

/-- `a / True` is `a / 1` and `a / False` is `a / 0` (`sympy.Rational(1, other)`) -/
theorem binop_bool_truediv (b : Bool) (a : Expr) :
    binop .truediv (.dim (.expr a)) (.bool b) = binop .truediv (.dim (.expr a)) (.int (boolInt b)) :=
  rfl

/-- wherever a bool operand is accepted at all, the result is the result with the `int` it is -/
theorem binop_bool_as_int (o : BOp) (b : Bool) (x : Operand) (d : Dim) :
    (binop o x (.bool b) = .ok d → binop o x (.int (boolInt b)) = .ok d) ∧
    (binop o (.bool b) x = .ok d → binop o (.int (boolInt b)) x = .ok d) := by
  constructor
  · intro h
    cases x with
    | dim dx =>
      cases dx with
      | unknown => cases o <;> first | exact h | (simp [binop, dunder, Out.toPy] at h)
      | bad => cases o <;> simp [binop, dunder, Out.toPy] at h
      | expr a =>
        cases o <;> first | exact h | (simp [binop, dunder, Out.toPy] at h)
    | int n => simp [binop] at h
    | bool c => simp [binop] at h
    | other => simp [binop] at h
  · intro h
    cases x with
    | dim dx =>
      cases dx with
      | unknown => cases o <;> first | exact h | (simp [binop, rdunder, dunder, Out.toPy] at h)
      | bad => cases o <;> simp [binop, rdunder, dunder, Out.toPy] at h
      | expr a => cases o <;> simp [binop, rdunder, dunder, Out.toPy] at h
    | int n => simp [binop] at h
    | bool c => simp [binop] at h
    | other => simp [binop] at h

/-- `a / True` evaluates like `a`; `a / False` has no value -/
theorem eval_truediv_bool (env : Env) (a : Expr) :
    eval env (fwdTreeInt .truediv a (boolInt true)) = eval env a ∧
    eval env (fwdTreeInt .truediv a (boolInt false)) = none := by
  constructor
  · simp only [fwdTreeInt, boolInt, if_true, eval]
    cases eval env a <;> simp [evalBin]
  · simp only [fwdTreeInt, boolInt, eval]
    cases eval env a <;> simp [evalBin]

/-! ## evaluate -/

theorem union_empty (b : Env) : Env.union b Env.empty = b := by
  funext s
  simp only [Env.union, Env.empty]
  cases b s <;> rfl

/-- a value exists only when every free symbol is bound -/
theorem eval_some_bound (env : Env) (e : Expr) (q : Rat) (h : eval env e = some q) :
    ∀ s ∈ free e, env s ≠ none := by
  induction e generalizing q with
  | num n => intro s hs; simp [free] at hs
  | sym x =>
    intro s hs
    simp only [free, List.mem_singleton] at hs
    subst hs
    intro hc
    simp [eval, hc] at h
  | inf b => simp [eval] at h
  | un o a ih =>
    intro s hs
    simp only [eval] at h
    cases ha : eval env a with
    | none => simp [ha] at h
    | some x => exact ih x ha s (by simpa [free] using hs)
  | bin o a b iha ihb =>
    intro s hs
    simp only [eval] at h
    cases ha : eval env a with
    | none => simp [ha] at h
    | some x =>
      cases hb : eval env b with
      | none => simp [ha, hb] at h
      | some y =>
        simp only [free, List.mem_append] at hs
        rcases hs with hs | hs
        · exact iha x ha s hs
        · exact ihb y hb s hs

theorem eval_subst (b1 b2 : Env) (e : Expr) :
    eval (Env.union b1 b2) e = eval b2 (subst b1 e) := by
  induction e with
  | num n => simp [eval, subst]
  | sym s => cases h : b1 s <;> simp [eval, subst, Env.union, h]
  | inf n => simp [eval, subst]
  | un o a ih => simp [eval, subst, ih]
  | bin o a b iha ihb => simp [eval, subst, iha, ihb]

theorem free_subst (b1 : Env) (e : Expr) (s : String) :
    s ∈ free (subst b1 e) ↔ (s ∈ free e ∧ b1 s = none) := by
  induction e with
  | num n => simp [subst, free]
  | sym x =>
    cases h : b1 x <;> simp [subst, free, h]
    · rintro rfl; exact h
    · rintro rfl; simp [h]
  | inf n => simp [subst, free]
  | un o a ih => simp [subst, free, ih]
  | bin o a b iha ihb =>
    simp only [subst, free, List.mem_append, iha, ihb]
    tauto

/-- what `evaluate` returns for a dimension with expression `e`, spelled out -/
inductive EvalSpec (b : Env) (e : Expr) : EvalOut → Prop
  /-- complete: every symbol is bound and the exact value is the integer `z` -/
  | int (z : Int) (hv : eval b e = some (z : Rat)) (hb : ∀ s ∈ free e, b s ≠ none) :
      EvalSpec b e (.int z)
  /-- a residual dimension: it evaluates later like the whole under the joined bindings, its free
      symbols are exactly the unbound ones, and the value under `b` alone is not an integer -/
  | dim (r : Expr) (hr : r = subst b e)
      (hlater : ∀ b2 : Env, eval b2 r = eval (Env.union b b2) e)
      (hfree : ∀ s, s ∈ free r ↔ (s ∈ free e ∧ b s = none))
      (hnot : ∀ z : Int, eval b e ≠ some (z : Rat)) :
      EvalSpec b e (.dim (.expr r))

theorem evaluate_spec (b : Env) (e : Expr) : EvalSpec b e ((Dim.expr e).evaluate b) := by
  have hkey : eval Env.empty (subst b e) = eval b e := by
    rw [← eval_subst b Env.empty e, union_empty]
  simp only [Dim.evaluate, hkey]
  cases hv : eval b e with
  | none =>
    exact .dim _ rfl (fun b2 => (eval_subst b b2 e).symm) (free_subst b e) (by simp [hv])
  | some q =>
    by_cases hq : q.den = 1
    · simp only [if_pos hq]
      have hqz : q = (q.num : Rat) := by
        have := Rat.num_div_den q
        rw [hq] at this
        simpa using this.symm
      exact .int _ (by rw [← hqz]; exact hv) (eval_some_bound b e q hv)
    · simp only [if_neg hq]
      refine .dim _ rfl (fun b2 => (eval_subst b b2 e).symm) (free_subst b e) ?_
      intro z hz
      rw [hv] at hz
      simp only [Option.some.injEq] at hz
      apply hq
      rw [hz]
      exact Rat.den_intCast z

/-! ## Shape -/

/-- free symbols of one dimension of a shape (specification) -/
def SDim.free : SDim → List String
  | .dim (.expr e) => IrVerif.SymExpr.free e
  | _ => []

def SDim.noBad : SDim → Bool
  | .dim .bad => false
  | _ => true

theorem evaluateLoop_spec (b : Env) : ∀ (sh acc out : List SDim),
    Shape.evaluateLoop b acc sh = some out ↔
      ∃ sh', out = acc ++ sh' ∧ List.Forall₂ (fun d d' => SDim.evaluate b d = some d') sh sh'
  | [], acc, out => by
    simp only [Shape.evaluateLoop, Option.some.injEq]
    constructor
    · rintro rfl; exact ⟨[], by simp, .nil⟩
    · rintro ⟨sh', rfl, h⟩; cases h; simp
  | d :: rest, acc, out => by
    simp only [Shape.evaluateLoop]
    cases hd : d.evaluate b with
    | none =>
      simp only [false_iff, reduceCtorEq]
      rintro ⟨sh', _, h⟩
      cases h with
      | cons h1 _ => rw [hd] at h1; cases h1
    | some d' =>
      simp only [evaluateLoop_spec b rest (acc ++ [d']) out]
      constructor
      · rintro ⟨sh', rfl, h⟩
        exact ⟨d' :: sh', by simp, .cons hd h⟩
      · rintro ⟨sh', rfl, h⟩
        cases h with
        | @cons _ d2 _ t h1 h2 =>
          rw [hd] at h1
          cases h1
          exact ⟨t, by simp, h2⟩

theorem shape_evaluate_iff (b : Env) (sh sh' : Shape) :
    Shape.evaluate b sh = some sh' ↔ List.Forall₂ (fun d d' => SDim.evaluate b d = some d') sh sh' := by
  simp only [Shape.evaluate, evaluateLoop_spec b sh [] sh', List.nil_append]
  constructor
  · rintro ⟨t, rfl, h⟩; exact h
  · intro h; exact ⟨sh', rfl, h⟩

theorem sdim_evaluate_none (b : Env) (d : SDim) : SDim.evaluate b d = none ↔ d = .dim .bad := by
  cases d with
  | int n => simp [SDim.evaluate]
  | dim d =>
    cases d with
    | unknown => simp [SDim.evaluate, Dim.evaluate]
    | bad => simp [SDim.evaluate, Dim.evaluate]
    | expr e =>
      have h := evaluate_spec b e
      simp only [SDim.evaluate]
      cases h' : (Dim.expr e).evaluate b with
      | int z => simp
      | dim d' => simp
      | raised => rw [h'] at h; cases h

theorem shape_evaluate_none (b : Env) : ∀ sh : Shape,
    Shape.evaluate b sh = none ↔ SDim.dim .bad ∈ sh := by
  intro sh
  have key : ∀ (sh acc : List SDim), Shape.evaluateLoop b acc sh = none ↔ SDim.dim .bad ∈ sh := by
    intro sh
    induction sh with
    | nil => intro acc; simp [Shape.evaluateLoop]
    | cons d rest ih =>
      intro acc
      simp only [Shape.evaluateLoop]
      cases hd : d.evaluate b with
      | none =>
        have := (sdim_evaluate_none b d).mp hd
        simp [this]
      | some d' =>
        have hne : d ≠ .dim .bad := by
          intro hc
          rw [(sdim_evaluate_none b d).mpr hc] at hd
          cases hd
        simp only [ih (acc ++ [d']), List.mem_cons]
        constructor
        · intro h; exact Or.inr h
        · rintro (h | h)
          · exact absurd h.symm hne
          · exact h
  exact key sh []

/-- one dimension: no bad text on either side, and the free symbols that remain are exactly the
    unbound ones -/
theorem sdim_evaluate_free (b : Env) (d d' : SDim) (h : SDim.evaluate b d = some d') :
    d.noBad = true ∧ d'.noBad = true ∧ ∀ s, s ∈ d'.free ↔ (s ∈ d.free ∧ b s = none) := by
  cases d with
  | int n =>
    simp only [SDim.evaluate, Option.some.injEq] at h
    subst h
    simp [SDim.noBad, SDim.free]
  | dim d =>
    cases d with
    | unknown =>
      simp only [SDim.evaluate, Dim.evaluate, Option.some.injEq] at h
      subst h
      simp [SDim.noBad, SDim.free]
    | bad => simp [SDim.evaluate, Dim.evaluate] at h
    | expr e =>
      have hs := evaluate_spec b e
      simp only [SDim.evaluate] at h
      cases h' : (Dim.expr e).evaluate b with
      | raised => rw [h'] at hs; cases hs
      | int z =>
        rw [h'] at hs h
        simp only [Option.some.injEq] at h
        subst h
        cases hs with
        | int _ hv hb =>
          refine ⟨rfl, rfl, fun s => ?_⟩
          simp only [SDim.free, List.not_mem_nil, false_iff, not_and]
          intro hs
          exact hb s hs
      | dim r =>
        rw [h'] at hs h
        simp only [Option.some.injEq] at h
        subst h
        cases hs with
        | dim r0 hr hlater hfree hnot =>
          exact ⟨rfl, rfl, fun s => by simpa [SDim.free] using hfree s⟩

theorem freeLoop_spec : ∀ (sh : List SDim) (acc : List String), (∀ d ∈ sh, d.noBad = true) →
    ∃ l, Shape.freeLoop acc sh = some l ∧ ∀ s, s ∈ l ↔ (s ∈ acc ∨ ∃ d ∈ sh, s ∈ d.free)
  | [], acc, _ => ⟨acc, rfl, by simp⟩
  | .int n :: rest, acc, h => by
    obtain ⟨l, hl, hm⟩ := freeLoop_spec rest acc (fun d hd => h d (by simp [hd]))
    exact ⟨l, by simpa [Shape.freeLoop] using hl, fun s => by simp [hm s, SDim.free]⟩
  | .dim d :: rest, acc, h => by
    cases d with
    | bad => have := h (.dim .bad) (by simp); simp [SDim.noBad] at this
    | unknown =>
      obtain ⟨l, hl, hm⟩ := freeLoop_spec rest (acc ++ []) (fun d hd => h d (by simp [hd]))
      exact ⟨l, by simpa [Shape.freeLoop, Dim.freeSymbols] using hl,
        fun s => by simp [hm s, SDim.free]⟩
    | expr e =>
      obtain ⟨l, hl, hm⟩ := freeLoop_spec rest (acc ++ (free e).eraseDups)
        (fun d hd => h d (by simp [hd]))
      refine ⟨l, by simpa [Shape.freeLoop, Dim.freeSymbols] using hl, fun s => ?_⟩
      simp only [hm s, List.mem_append, List.mem_eraseDups, List.mem_cons, exists_eq_or_imp,
        SDim.free]
      tauto

theorem shape_freeSymbols_spec (sh : Shape) (h : ∀ d ∈ sh, d.noBad = true) :
    ∃ l, Shape.freeSymbols sh = some l ∧ ∀ s, s ∈ l ↔ ∃ d ∈ sh, s ∈ d.free := by
  obtain ⟨l, hl, hm⟩ := freeLoop_spec sh [] h
  exact ⟨l.eraseDups, by simp [Shape.freeSymbols, hl], fun s => by simp [List.mem_eraseDups, hm s]⟩

theorem forall2_evaluate_free (b : Env) {sh sh' : List SDim}
    (h : List.Forall₂ (fun d d' => SDim.evaluate b d = some d') sh sh') :
    (∀ d ∈ sh, d.noBad = true) ∧ (∀ d ∈ sh', d.noBad = true) ∧
      ∀ s, (∃ d' ∈ sh', s ∈ d'.free) ↔ ((∃ d ∈ sh, s ∈ d.free) ∧ b s = none) := by
  induction h with
  | nil => simp
  | @cons d d' t t' h1 _ ih =>
    obtain ⟨hn, hn', hf⟩ := sdim_evaluate_free b d d' h1
    obtain ⟨i1, i2, i3⟩ := ih
    refine ⟨?_, ?_, fun s => ?_⟩
    · intro x hx
      rcases List.mem_cons.mp hx with rfl | hx
      · exact hn
      · exact i1 x hx
    · intro x hx
      rcases List.mem_cons.mp hx with rfl | hx
      · exact hn'
      · exact i2 x hx
    · simp only [List.mem_cons, exists_eq_or_imp, hf s, i3 s]
      tauto

theorem shape_evaluate_static (b : Env) : ∀ sh : Shape, Shape.isStatic sh = true →
    List.Forall₂ (fun d d' => SDim.evaluate b d = some d') sh sh
  | [], _ => .nil
  | d :: rest, h => by
    simp only [Shape.isStatic, List.all_cons, Bool.and_eq_true] at h
    refine .cons ?_ (shape_evaluate_static b rest (by simpa [Shape.isStatic] using h.2))
    cases d with
    | int n => rfl
    | dim d => simp [SDim.isInt] at h

end IrVerif.SymExpr

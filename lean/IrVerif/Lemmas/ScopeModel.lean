/-
Models with functions: certificate, round trip and idempotence of `deserializeM` / `serializeM`.
-/
import IrVerif.Lemmas.ScopeFunc
namespace IrVerif.Scope

theorem fdictInsert_fresh (d : List (FId × GraphT)) (k : FId) (g : GraphT) (h : k ∉ d.map (·.1)) :
    fdictInsert d k g = d ++ [(k, g)] := by
  induction d with
  | nil => rfl
  | cons e r ih =>
    obtain ⟨k', g'⟩ := e
    simp only [List.map_cons, List.mem_cons, not_or] at h
    have hne : ¬ k' = k := fun e => h.1 e.symm
    simp [fdictInsert, hne, ih h.2]

/-- the functions `gs` are the functions `fs`, renamed -/
def TreeRelFs (V : Nat → ValueS) (A : Assoc) : List (FId × GraphT) → List (FId × GraphT) → Prop
  | [], [] => True
  | f :: fs, g :: gs => f.1 = g.1 ∧ TreeRelG V A f.2 g.2 ∧ TreeRelFs V A fs gs
  | _, _ => False

theorem TreeRelFs.mono (V : Nat → ValueS) (A B : Assoc) : ∀ (fs gs : List (FId × GraphT)),
    TreeRelFs V A fs gs → TreeRelFs V (A ++ B) fs gs
  | [], [], _ => by simp [TreeRelFs]
  | f :: fs, g :: gs, h => by
    simp only [TreeRelFs] at h ⊢
    exact ⟨h.1, TreeRelG.mono V A B _ _ h.2.1, TreeRelFs.mono V A B fs gs h.2.2⟩
  | [], _ :: _, h => by simp [TreeRelFs] at h
  | _ :: _, [], h => by simp [TreeRelFs] at h

theorem TreeRelFs.keys (V : Nat → ValueS) (A : Assoc) : ∀ (fs gs : List (FId × GraphT)),
    TreeRelFs V A fs gs → gs.map (·.1) = fs.map (·.1)
  | [], [], _ => rfl
  | f :: fs, g :: gs, h => by
    simp only [TreeRelFs] at h
    simp only [List.map_cons, h.1, TreeRelFs.keys V A fs gs h.2.2]
  | [], _ :: _, h => by simp [TreeRelFs] at h
  | _ :: _, [], h => by simp [TreeRelFs] at h

theorem serFuncs_inv {V : Nat → ValueS} {td : TData} {f : FId × GraphT} {fs : List (FId × GraphT)}
    {fps : List FuncP} {ws : Writes} (h : serFuncs V td (f :: fs) = .ok (fps, ws)) :
    ∃ fp ws1 fps' ws2, serFunction V td f = .ok (fp, ws1) ∧ serFuncs V td fs = .ok (fps', ws2) ∧
      fps = fp :: fps' ∧ ws = ws1 ++ ws2 := by
  simp only [serFuncs] at h
  split at h
  · simp at h
  · rename_i fp ws1 h1
    split at h
    · simp at h
    · rename_i fps' ws2 h2
      simp only [Except.ok.injEq, Prod.mk.injEq] at h
      obtain ⟨rfl, rfl⟩ := h
      exact ⟨fp, ws1, fps', ws2, h1, h2, rfl, rfl⟩

/-- the round trip of the functions of a model -/
theorem rt2_funcs (V : Nat → ValueS) (td : TData) :
    ∀ (fs : List (FId × GraphT)) (s : Store) (A : Assoc) (d0 : List (FId × GraphT)) (fps : List FuncP) (ws : Writes),
      serFuncs V td fs = .ok (fps, ws) → (∀ f ∈ fs, (replF V f.2).ok) →
      (fs.flatMap fun f => (replF V f.2).new).Nodup →
      (∀ v ∈ fs.flatMap (fun f => (replF V f.2).new), v ∉ A.map (·.1)) →
      (fs.map (·.1)).Nodup → (∀ f ∈ fs, f.1 ∉ d0.map (·.1)) → RS V s A → Fresh s →
      ∃ (s' : Store) (gs : List (FId × GraphT)) (B : Assoc),
        deserFuncs s d0 fps = .ok (s', d0 ++ gs) ∧ RS V s' (A ++ B) ∧ s.nv ≤ s'.nv ∧
        B.map (·.1) = (fs.flatMap fun f => (replF V f.2).new) ∧ TreeRelFs V (A ++ B) fs gs ∧
        Fresh s' ∧ Prim s.nv s s' ∧ InfoOK2 V s' (A ++ B) (fs.flatMap fun f => emitF V f.2) ∧
        ConstOK2 V td s' (A ++ B) (fs.flatMap fun f => allInitsG f.2)
  | [], s, A, d0, fps, ws, hser, _, _, _, _, _, hrs, hfr => by
    simp only [serFuncs, Except.ok.injEq, Prod.mk.injEq] at hser
    obtain ⟨rfl, _⟩ := hser
    exact ⟨s, [], [], by simp [deserFuncs], by simpa using hrs, Nat.le_refl _, by simp, by simp [TreeRelFs], hfr,
      Prim.refl _ _, by simp [InfoOK2], by simp [ConstOK2]⟩
  | f :: fs, s, A, d0, fps, ws, hser, hok, hnd, hnew, hids, hd0, hrs, hfr => by
    obtain ⟨fp, ws1, fps', ws2, h1, h2, rfl, rfl⟩ := serFuncs_inv hser
    obtain ⟨id, g⟩ := f
    simp only [List.flatMap_cons] at hnd hnew ⊢
    rw [List.nodup_append] at hnd
    simp only [List.map_cons, List.nodup_cons] at hids
    obtain ⟨s1, g', B1, e1, eid, r1, l1, k1, t1, f1, p1, io1, co1⟩ := rt2_func V td id g s A fp ws1 h1
      (hok (id, g) (by simp)) hnd.1 (fun v hv => hnew v (by simp [hv])) hrs hfr
    have hidd : id ∉ d0.map (·.1) := hd0 (id, g) (by simp)
    obtain ⟨s2, gs, B2, e2, r2, l2, k2, t2, f2, p2, io2, co2⟩ := rt2_funcs V td fs s1 (A ++ B1) (d0 ++ [(id, g')]) fps' ws2 h2
      (fun f hf => hok f (by simp [hf])) hnd.2.1
      (fun v hv hm => by
        rw [List.map_append, List.mem_append, k1] at hm
        rcases hm with hm | hm
        · exact hnew v (by simp [hv]) hm
        · exact hnd.2.2 v hm v hv rfl)
      hids.2
      (fun f hf hm => by
        simp only [List.map_append, List.map_cons, List.map_nil, List.mem_append, List.mem_singleton] at hm
        rcases hm with hm | hm
        · exact hd0 f (by simp [hf]) hm
        · exact hids.1 (hm ▸ List.mem_map_of_mem hf))
      r1 f1
    refine ⟨s2, (id, g') :: gs, B1 ++ B2, ?_, by simpa [List.append_assoc] using r2, Nat.le_trans l1 l2, ?_, ?_, f2,
      p1.trans (p2.weaken l1), ?_, ?_⟩
    · simp only [deserFuncs, e1, eid]
      rw [fdictInsert_fresh d0 id g' hidd, e2]
      simp [List.append_assoc]
    · simp [k1, k2]
    · simp only [TreeRelFs]
      rw [← List.append_assoc]
      exact ⟨trivial, TreeRelG.mono V (A ++ B1) B2 g g' t1, t2⟩
    · rw [← List.append_assoc]
      have io1' := io1.step (B := B2) r1 p2
      intro v hv
      simp only [List.mem_append] at hv
      rcases hv with hv | hv
      · exact io1' v hv
      · exact io2 v hv
    · rw [← List.append_assoc]
      have co1' := co1.step (B := B2) r1 p2
      intro kv hkv
      simp only [List.mem_append] at hkv
      rcases hkv with hkv | hkv
      · exact co1' kv hkv
      · exact co2 kv hkv

/-- serializing the reloaded functions gives the same protos -/
theorem img2_serFuncs {V V' : Nat → ValueS} {td td' : TData} {A : Assoc} {E : List Nat} (h : Img V V' (sig A) E)
    (hn : ∀ v ∈ A.map (·.1), (V' (sig A v)).name = (V v).name)
    (hinj : ∀ a ∈ A.map (·.1), ∀ b ∈ A.map (·.1), sig A a = sig A b → a = b) :
    ∀ (fs gs : List (FId × GraphT)) (fps : List FuncP) (ws : Writes), TreeRelFs V A fs gs →
      (∀ v ∈ fs.flatMap (fun f => emitF V f.2), v ∈ E) →
      ConstImg V V' td td' (sig A) (fs.flatMap fun f => allInitsG f.2) →
      serFuncs V td fs = .ok (fps, ws) → ∃ ws', serFuncs V' td' gs = .ok (fps, ws')
  | [], [], fps, ws, _, _, _, hser => by
    simp only [serFuncs, Except.ok.injEq, Prod.mk.injEq] at hser
    obtain ⟨rfl, _⟩ := hser
    exact ⟨[], rfl⟩
  | f :: fs, g :: gs, fps, ws, ht, hE, hc, hser => by
    simp only [TreeRelFs] at ht
    obtain ⟨fp, ws1, fps', ws2, h1, h2, rfl, _⟩ := serFuncs_inv hser
    obtain ⟨id, fg⟩ := f
    obtain ⟨id', gg⟩ := g
    simp only at ht
    obtain ⟨rfl, ht1, ht2⟩ := ht
    obtain ⟨w1, e1⟩ := img2_serFunction h hn hinj id fg gg fp ws1 ht1
      (fun v hv => hE v (by simp [hv])) (fun kv hkv => hc kv (by simp [hkv])) h1
    obtain ⟨w2, e2⟩ := img2_serFuncs h hn hinj fs gs fps' ws2 ht2
      (fun v hv => hE v (by simp only [List.flatMap_cons, List.mem_append]; exact .inr hv))
      (fun kv hkv => hc kv (by simp only [List.flatMap_cons, List.mem_append]; exact .inr hkv)) h2
    exact ⟨_, by simp only [serFuncs, e1, e2]; rfl⟩
  | [], _ :: _, _, _, ht, _, _, _ => by simp [TreeRelFs] at ht
  | _ :: _, [], _, _, ht, _, _, _ => by simp [TreeRelFs] at ht

/-- a certified function can be serialized -/
theorem replF_ser_ok (V : Nat → ValueS) (td : TData) (id : FId) :
    ∀ (g : GraphT), (replF V g).ok → ∃ fp ws, serFunction V td (id, g) = .ok (fp, ws)
  | .mk gid ins inits nodes outs, h => by
    simp only [replF] at h
    obtain ⟨_, hins, _, _, hN, hO⟩ := h
    obtain ⟨nps, vis, ws, hn⟩ := replNs_ser_ok V td nodes [] _ [] hN
    obtain ⟨vis1, h1⟩ := serFInputs_of_names V ins hins
    have h2 := serOutNames_of_names (V := V) (vs := outs) (fun v hv => (hO v hv).1)
    exact ⟨_, _, by simp only [serFunction, h1, h2, hn]; rfl⟩

theorem replFs_ser_ok (V : Nat → ValueS) (td : TData) : ∀ (fs : List (FId × GraphT)),
    (∀ f ∈ fs, (replF V f.2).ok) → ∃ fps ws, serFuncs V td fs = .ok (fps, ws)
  | [], _ => ⟨[], [], rfl⟩
  | f :: fs, h => by
    obtain ⟨id, g⟩ := f
    obtain ⟨fp, ws1, h1⟩ := replF_ser_ok V td id g (h (id, g) (by simp))
    obtain ⟨fps, ws2, h2⟩ := replFs_ser_ok V td fs (fun f hf => h f (by simp [hf]))
    exact ⟨_, _, by simp only [serFuncs, h1, h2]; rfl⟩

/-- **ReloadableM**: the main graph and every function satisfy their certificate, every value is
    introduced once in the whole model, function identifiers are distinct -/
def ReloadableM (w : MWorld) : Prop :=
  (replG w.st.vals [] w.root).ok ∧ (∀ f ∈ w.funcs, (replF w.st.vals f.2).ok) ∧
  ((replG w.st.vals [] w.root).new ++ w.funcs.flatMap fun f => (replF w.st.vals f.2).new).Nodup ∧
  (w.funcs.map (·.1)).Nodup

/-- the values a model introduces (main graph and functions) -/
def domM (w : MWorld) : List Nat :=
  (replG w.st.vals [] w.root).new ++ w.funcs.flatMap fun f => (replF w.st.vals f.2).new

/-- the values of a model whose information the proto carries -/
def emitM (w : MWorld) : List Nat := emitG w.st.vals w.root ++ w.funcs.flatMap fun f => emitF w.st.vals f.2

def allInitsM (w : MWorld) : List (Name × Nat) := allInitsG w.root ++ w.funcs.flatMap fun f => allInitsG f.2

theorem reloadableM_roundtrip (w : MWorld) (h : ReloadableM w) :
    ∃ (w1 : MWorld) (P : ModelP) (D : MWorld) (B : Assoc),
      serializeM w = .ok (w1, P) ∧ deserializeM P = .ok D ∧ RS w.st.vals D.st B ∧ B.map (·.1) = domM w ∧
      TreeRelG w.st.vals B w.root D.root ∧ TreeRelFs w.st.vals B w.funcs D.funcs ∧
      InfoOK2 w.st.vals D.st B (emitM w) ∧ ConstOK2 w.st.vals w.st.tdata D.st B (allInitsM w) := by
  obtain ⟨hok, hfok, hnd, hids⟩ := h
  rw [List.nodup_append] at hnd
  obtain ⟨p, ws1, hp⟩ := replG_ser_ok w.st.vals w.st.tdata w.root [] hok
  obtain ⟨fps, ws2, hf⟩ := replFs_ser_ok w.st.vals w.st.tdata w.funcs hfok
  obtain ⟨s1, g', B1, hd, hrs, _, hk, ht, f1, p1, hio, hco⟩ := rt2_graph w.st.vals w.st.tdata w.root {} [] [] p ws1 hp
    hok hnd.1 (fun _ _ => by simp) (fun _ hT => by simp at hT)
    ⟨by simp, fun _ he => by simp at he, by simp, fun _ he => by simp at he⟩ (fun _ _ => rfl)
  simp only [List.map_nil, List.nil_append] at hd hrs ht hio hco
  obtain ⟨s2, gs, B2, e2, r2, _, k2, t2, f2, p2, io2, co2⟩ := rt2_funcs w.st.vals w.st.tdata w.funcs s1 B1 [] fps ws2 hf hfok
    hnd.2.1
    (fun v hv hm => by rw [hk] at hm; exact hnd.2.2 v hm v hv rfl)
    hids (fun _ _ hm => by simp at hm) hrs f1
  simp only [List.nil_append] at e2
  refine ⟨⟨w.st.writes (ws1 ++ ws2), w.root, w.funcs⟩, ⟨p, fps⟩, ⟨s2, g', gs⟩, B1 ++ B2,
    by simp only [serializeM, hp, hf], by simp only [deserializeM, hd, e2], r2, by simp [domM, hk, k2],
    TreeRelG.mono _ B1 B2 _ _ ht, t2, ?_, ?_⟩
  · have hio' := hio.step (B := B2) hrs p2
    intro v hv
    simp only [emitM, List.mem_append] at hv
    rcases hv with hv | hv
    · exact hio' v hv
    · exact io2 v hv
  · have hco' := hco.step (B := B2) hrs p2
    intro kv hkv
    simp only [allInitsM, List.mem_append] at hkv
    rcases hkv with hkv | hkv
    · exact hco' kv hkv
    · exact co2 kv hkv

/-- serializing the reloaded model gives the proto it was read from -/
theorem reloadableM_fixpoint (w : MWorld) (h : ReloadableM w) :
    ∃ (w1 : MWorld) (Q : ModelP) (D : MWorld) (w2 : MWorld),
      serializeM w = .ok (w1, Q) ∧ deserializeM Q = .ok D ∧ serializeM D = .ok (w2, Q) := by
  obtain ⟨w1, Q, D, B, hQ, hD, hrs, _, ht, htf, hio, hco⟩ := reloadableM_roundtrip w h
  have hn : ∀ v ∈ B.map (·.1), (D.st.vals (sig B v)).name = (w.st.vals v).name := fun v hv => hrs.sig_name hv
  have hinj : ∀ a ∈ B.map (·.1), ∀ b ∈ B.map (·.1), sig B a = sig B b → a = b := fun a ha b hb he => hrs.sig_inj ha hb he
  have himg : Img w.st.vals D.st.vals (sig B) (emitM w) :=
    ⟨fun v hv => hn v (hio v hv).1, fun v hv => (hio v hv).2, fun a ha b hb he => hinj a (hio a ha).1 b (hio b hb).1 he⟩
  have hci : ConstImg w.st.vals D.st.vals w.st.tdata D.st.tdata (sig B) (allInitsM w) := fun kv hkv => by
    obtain ⟨_, hne, hc⟩ := hco kv hkv
    refine ⟨hne, fun t ht => ?_⟩
    obtain ⟨t', h1, _, _, h4⟩ := hc t ht
    exact ⟨t', h1, h4⟩
  -- unfold the first serialization
  simp only [serializeM] at hQ
  split at hQ
  · simp at hQ
  · rename_i p ws1 hp
    split at hQ
    · simp at hQ
    · rename_i fps ws2 hf
      simp only [Except.ok.injEq, Prod.mk.injEq] at hQ
      obtain ⟨_, rfl⟩ := hQ
      obtain ⟨ws1', e1⟩ := img2_serGraph (td := w.st.tdata) (td' := D.st.tdata) himg hn hinj w.root D.root p ws1 ht
        (fun v hv => by simp [emitM, hv]) (fun kv hkv => hci kv (by simp [allInitsM, hkv])) hp
      obtain ⟨ws2', e2⟩ := img2_serFuncs (td := w.st.tdata) (td' := D.st.tdata) himg hn hinj w.funcs D.funcs fps ws2 htf
        (fun v hv => by simp only [emitM, List.mem_append]; exact .inr hv)
        (fun kv hkv => hci kv (by simp only [allInitsM, List.mem_append]; exact .inr hkv)) hf
      exact ⟨w1, ⟨p, fps⟩, D, ⟨D.st.writes (ws1' ++ ws2'), D.root, D.funcs⟩, by simp only [serializeM, hp, hf] at *; simp_all,
        hD, by simp only [serializeM, e1, e2]⟩

/-! ### what `deserializeM` builds satisfies the certificate -/

theorem deserFunction_frame (f : FuncP) (st st' : Store) (g : GraphT) (hf : Fresh st)
    (h : deserFunction st f = .ok (st', g)) :
    Fresh st' ∧ st.nv ≤ st'.nv ∧ (∀ v, v < st.nv → (st'.vals v).name = (st.vals v).name) ∧ Prim st.nv st st' := by
  obtain ⟨st2, tbl2, st3, tbl3, ns, outs, h2, h3, h4, h5⟩ := deserFunction_inv h
  obtain ⟨hids, hnv1, hf1, p1, keep1⟩ := deserFInputs_spec (vinfoTable f.vinfo) f.inputs st
  have ok1 := finputTable_ok (vinfoTable f.vinfo) f.inputs st
  have f1 := hf1 hf
  have le1 : st.nv ≤ (deserFInputs st (vinfoTable f.vinfo) f.inputs).1.nv := by rw [hnv1]; omega
  obtain ⟨q3, ok3, _, _, _⟩ := declareNodes_spec (vinfoTable f.vinfo) f.nodes _ _ st.nv st2 tbl2 ok1 le1 h2
  have f2 := q3.fresh f1
  have le2 : st.nv ≤ st2.nv := Nat.le_trans le1 q3.nv_le
  have hol : TablesLt st2 [] := fun _ ht => by simp at ht
  obtain ⟨f3, m4, ok4, _⟩ := deserNodes_struct f.nodes st2 tbl2 [] (vinfoTable f.vinfo) st.nv st3 tbl3 ns f2 ok3 hol le2 h3
  have p3 := declareNodes_prim st.nv (vinfoTable f.vinfo) f.nodes _ _ st2 _ le1 h2
  have p4 := deserNodes_prim2 st.nv f.nodes st2 tbl2 [] (vinfoTable f.vinfo) st.nv st3 tbl3 ns f2 ok3 hol le2 le2 h3
  obtain ⟨c1, _, _⟩ := mkGraph_fst_counters st3 (deserFInputs st (vinfoTable f.vinfo) f.inputs).2 outs ns []
  have hcell := mkGraph_cell st3 (deserFInputs st (vinfoTable f.vinfo) f.inputs).2 outs ns []
  have p6 := mkGraph_prim st.nv st3 (deserFInputs st (vinfoTable f.vinfo) f.inputs).2 outs ns []
  have e1 : st' = (mkGraph st3 (deserFInputs st (vinfoTable f.vinfo) f.inputs).2 outs ns []).1 := by rw [h5]
  have hle3 : st.nv ≤ st3.nv := Nat.le_trans le2 m4.nv_le
  rw [e1]
  refine ⟨?_, by rw [c1]; exact hle3, fun v hv => ?_, ((p1.trans p3).trans p4).trans p6⟩
  · apply mkGraph_fresh _ _ _ _ _ f3
    · intro v hv
      rw [hids, List.mem_range'_1] at hv
      have := q3.nv_le
      have := m4.nv_le
      rw [hnv1] at *
      omega
    · intro v hv
      obtain ⟨y, hy⟩ := deserFOutputs_mem tbl3 f.outputs outs h4 v hv
      exact ok4.lt _ (lookup_mem _ _ _ hy)
    · intro v hv; simp at hv
  · rw [hcell]
    show (st3.vals v).name = _
    rw [m4.names v (Nat.lt_of_lt_of_le hv le2), q3.names v (Nat.lt_of_lt_of_le hv le1), keep1 v hv]

theorem deser_repl_funcs :
    ∀ (fps : List FuncP) (st : Store) (d0 : List (FId × GraphT)) (st' : Store) (d' : List (FId × GraphT)),
      Fresh st → deserFuncs st d0 fps = .ok (st', d') → (fps.map (·.id)).Nodup →
      (∀ f ∈ fps, f.id ∉ d0.map (·.1)) →
      Fresh st' ∧ st.nv ≤ st'.nv ∧ (∀ v, v < st.nv → (st'.vals v).name = (st.vals v).name) ∧ Prim st.nv st st' ∧
      ∀ (V : Nat → ValueS), NamesAgree V st' → (∀ v, st.nv ≤ v → v < st'.nv → CellAgree V st' v) →
        ∃ gs, d' = d0 ++ gs ∧ gs.map (·.1) = fps.map (·.id) ∧ (∀ f ∈ gs, (replF V f.2).ok) ∧
          Incr st.nv st'.nv (gs.flatMap fun f => (replF V f.2).new)
  | [], st, d0, st', d', hf, h, _, _ => by
    simp only [deserFuncs, Except.ok.injEq, Prod.mk.injEq] at h
    obtain ⟨rfl, rfl⟩ := h
    exact ⟨hf, Nat.le_refl _, fun _ _ => rfl, Prim.refl _ _, fun V _ _ => ⟨[], by simp, rfl, by simp, Incr.nil _ _⟩⟩
  | f :: fps, st, d0, st', d', hf, h, hids, hd0 => by
    simp only [deserFuncs] at h
    split at h
    · simp at h
    · rename_i st1 g h1
      simp only [List.map_cons, List.nodup_cons] at hids
      have hidd : f.id ∉ d0.map (·.1) := hd0 f (by simp)
      rw [fdictInsert_fresh d0 f.id g hidd] at h
      obtain ⟨f1, le1, keep1, p1⟩ := deserFunction_frame f st st1 g hf h1
      obtain ⟨f2, le2, keep2, p2, rest⟩ := deser_repl_funcs fps st1 (d0 ++ [(f.id, g)]) st' d' f1 h hids.2
        (fun f' hf' hm => by
          simp only [List.map_append, List.map_cons, List.map_nil, List.mem_append, List.mem_singleton] at hm
          rcases hm with hm | hm
          · exact hd0 f' (by simp [hf']) hm
          · exact hids.1 (hm ▸ List.mem_map_of_mem hf'))
      refine ⟨f2, Nat.le_trans le1 le2, fun v hv => by rw [keep2 v (Nat.lt_of_lt_of_le hv le1), keep1 v hv],
        p1.trans (p2.weaken le1), fun V hV hC => ?_⟩
      have hV1 : NamesAgree V st1 := fun v hv => by rw [hV v (Nat.lt_of_lt_of_le hv le2), keep2 v hv]
      obtain ⟨a1, a2⟩ := deser_repl_func f st st1 g hf h1 V hV1 (fun v hge hlt => by
        have := hC v hge (Nat.lt_of_lt_of_le hlt le2)
        rw [CellAgree, (p2.cell v hlt).1, (p2.cell v hlt).2] at this
        exact this)
      obtain ⟨gs, e1, e2, e3, e4⟩ := rest V hV (fun v hge hlt => hC v (Nat.le_trans le1 hge) hlt)
      refine ⟨(f.id, g) :: gs, by rw [e1]; simp, by simp [e2], fun f' hf' => ?_, ?_⟩
      · simp only [List.mem_cons] at hf'
        rcases hf' with rfl | hf'
        · exact a1
        · exact e3 f' hf'
      · simp only [List.flatMap_cons]
        exact a2.append e4 le1 le2

/-- every deserialized model whose function identifiers are distinct is reloadable -/
theorem deserializeM_reloadable (P : ModelP) (m : MWorld) (h : deserializeM P = .ok m)
    (hid : (P.funcs.map (·.id)).Nodup) : ReloadableM m := by
  simp only [deserializeM] at h
  split at h
  · simp at h
  · rename_i st g hg
    split at h
    · simp at h
    · rename_i st1 fs hfs
      simp only [Except.ok.injEq] at h
      subst h
      obtain ⟨f0, m0⟩ := deserGraph_struct P.graph {} [] st g (fun _ _ => rfl) (fun _ ht => by simp at ht) hg
      obtain ⟨f1, le1, keep1, p1, rest⟩ := deser_repl_funcs P.funcs st [] st1 fs f0 hfs hid (fun _ _ hm => by simp at hm)
      obtain ⟨gs, e1, e2, e3, e4⟩ := rest st1.vals (fun _ _ => rfl) (fun _ _ _ => ⟨rfl, rfl⟩)
      simp only [List.nil_append] at e1
      subst e1
      obtain ⟨h1, h2⟩ := deser_repl_graph P.graph {} [] st g (fun _ _ => rfl) (fun _ ht => by simp at ht)
        (fun _ ht => by simp at ht) hg st1.vals (fun v hv => keep1 v hv)
        (fun v _ hlt => ⟨(p1.cell v hlt).1, (p1.cell v hlt).2⟩)
      exact ⟨h1, e3, (h2.append e4 (Nat.zero_le _) le1).nodup, by rw [e2]; exact hid⟩

/-- the functions `gs` are the functions `fs` (same identifiers, same order) with every value renamed by `σ` -/
def TreeIsoFs (V : Nat → ValueS) (σ : Nat → Nat) : List (FId × GraphT) → List (FId × GraphT) → Prop
  | [], [] => True
  | f :: fs, g :: gs => f.1 = g.1 ∧ TreeIsoG V σ f.2 g.2 ∧ TreeIsoFs V σ fs gs
  | _, _ => False

theorem TreeRelFs.iso (V : Nat → ValueS) (A : Assoc) : ∀ (fs gs : List (FId × GraphT)),
    TreeRelFs V A fs gs → TreeIsoFs V (sig A) fs gs
  | [], [], _ => by simp [TreeIsoFs]
  | f :: fs, g :: gs, h => by
    simp only [TreeRelFs] at h
    simp only [TreeIsoFs]
    exact ⟨h.1, TreeRelG.iso V A _ _ h.2.1, TreeRelFs.iso V A fs gs h.2.2⟩
  | [], _ :: _, h => by simp [TreeRelFs] at h
  | _ :: _, [], h => by simp [TreeRelFs] at h

end IrVerif.Scope

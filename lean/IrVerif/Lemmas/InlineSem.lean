/-
Lemmas/InlineSem.lean — basic facts about the function-call semantics of Model/Inline.lean:
trimming, dependence on the function environment only through the operators that occur, call depth
(`lvl`) and stabilisation of the unrolling (`fenv`), frame lemma.
-/
import IrVerif.Model.Inline
import IrVerif.Lemmas.SemSyntax
namespace IrVerif.Inline
open IrVerif.Sem IrVerif.Passes
variable {Val : Type}

theorem trimV_getElem?_join : ∀ (l : List (Option Val)) (i : Nat), ((trimV l)[i]?).join = (l[i]?).join
  | [], i => by simp [trimV]
  | a :: rest, i => by
    have ih := trimV_getElem?_join rest
    rw [trimV]
    split
    · rename_i h
      simp only [Bool.and_eq_true, Option.isNone_iff_eq_none, List.isEmpty_iff] at h
      cases i with
      | zero => simp [h.1]
      | succ j =>
        have := ih j
        rw [h.2] at this
        simp only [List.getElem?_cons_succ]
        rw [← this]; simp
    · cases i with
      | zero => simp
      | succ j => simpa using ih j

theorem bind_trimV (ρ : Env Val) (vs : List VId) (rs : List (Option Val)) :
    ρ.bind vs (trimV rs) = ρ.bind vs rs := by
  funext u
  simp only [Env.bind]
  split
  · exact trimV_getElem?_join rs _
  · rfl

theorem nodeResults_outs (I : Interp Val) {op : OpId} (h : isStochasticOp op = false) (attrs : List (String × AttrData))
    (outs outs' : List VId) (bodies : List (BodyFn Val)) (args : List (Option Val)) :
    nodeResults I op attrs outs bodies args = nodeResults I op attrs outs' bodies args := by
  simp [nodeResults, h]

theorem nodeResultsF_outs (I : Interp Val) {op : OpId} (h : isStochasticOp op = false) (attrs : List (String × AttrData))
    (outs outs' : List VId) (bodies : List (BodyFn Val)) (args : List (Option Val)) :
    nodeResultsF I op attrs outs bodies args = nodeResultsF I op attrs outs' bodies args := by
  simp only [nodeResultsF, nodeResults_outs I h attrs outs outs']

/-! ## erasure and the syntactic measures of Model/Sem.lean -/

@[simp] theorem eraseNodes_cons (n : FNode) (ns : List FNode) : eraseNodes (n :: ns) = eraseN n :: eraseNodes ns := by
  simp [eraseNodes]
@[simp] theorem eraseNodes_nil : eraseNodes [] = [] := by simp [eraseNodes]
@[simp] theorem eraseBodies_cons (b : FGraph) (bs : List FGraph) : eraseBodies (b :: bs) = eraseG b :: eraseBodies bs := by
  simp [eraseBodies]
@[simp] theorem eraseBodies_nil : eraseBodies [] = [] := by simp [eraseBodies]

theorem eraseNodes_append : ∀ (a b : List FNode), eraseNodes (a ++ b) = eraseNodes a ++ eraseNodes b
  | [], b => by simp
  | n :: a, b => by simp [eraseNodes_append a b]

theorem outsTop_append : ∀ (a b : List Node), outsTop (a ++ b) = outsTop a ++ outsTop b
  | [], b => by simp [outsTop]
  | n :: a, b => by simp [outsTop, outsTop_append a b]

/-! ## frame -/

theorem evalNodesF_frame (I : Interp Val) (Φ : FEnv Val) (α : List (String × AttrData)) :
    ∀ (ns : List FNode) (ρ : Env Val) (w : VId), w ∉ outsTop (eraseNodes ns) → evalNodesF I Φ α ns ρ w = ρ w
  | [], ρ, w, _ => by simp [evalNodesF]
  | .mk op attrs ins outs bodies :: ns, ρ, w, h => by
    simp only [eraseNodes_cons, eraseN, outsTop, Node.outs, List.mem_append, not_or] at h
    simp only [evalNodesF]
    rw [evalNodesF_frame I Φ α ns _ w h.2]
    simp only [evalNF]
    exact Env.bind_of_not_mem _ _ h.1

/-! ## the function environment matters only at the operators that occur -/

mutual
theorem opsAllG_mono {p q : OpId → Bool} (h : ∀ op, p op = true → q op = true) :
    ∀ g : FGraph, opsAllG p g = true → opsAllG q g = true
  | .mk _ _ _ nodes, hg => by
    simp only [opsAllG] at hg ⊢; exact opsAllNodes_mono h nodes hg
theorem opsAllNodes_mono {p q : OpId → Bool} (h : ∀ op, p op = true → q op = true) :
    ∀ ns : List FNode, opsAllNodes p ns = true → opsAllNodes q ns = true
  | [], _ => by simp [opsAllNodes]
  | n :: ns, hn => by
    simp only [opsAllNodes, Bool.and_eq_true] at hn ⊢
    exact ⟨opsAllN_mono h n hn.1, opsAllNodes_mono h ns hn.2⟩
theorem opsAllN_mono {p q : OpId → Bool} (h : ∀ op, p op = true → q op = true) :
    ∀ n : FNode, opsAllN p n = true → opsAllN q n = true
  | .mk op _ _ _ bodies, hn => by
    simp only [opsAllN, Bool.and_eq_true] at hn ⊢
    exact ⟨h op hn.1, opsAllBodies_mono h bodies hn.2⟩
theorem opsAllBodies_mono {p q : OpId → Bool} (h : ∀ op, p op = true → q op = true) :
    ∀ bs : List FGraph, opsAllBodies p bs = true → opsAllBodies q bs = true
  | [], _ => by simp [opsAllBodies]
  | b :: bs, hb => by
    simp only [opsAllBodies, Bool.and_eq_true] at hb ⊢
    exact ⟨opsAllG_mono h b hb.1, opsAllBodies_mono h bs hb.2⟩
end

mutual
theorem evalGF_congrΦ (I : Interp Val) (Φ1 Φ2 : FEnv Val) (P : OpId → Bool)
    (h : ∀ op, P op = true → Φ1 op = Φ2 op) (α : List (String × AttrData)) :
    ∀ (g : FGraph) (ρ : Env Val), opsAllG P g = true → evalGF I Φ1 α g ρ = evalGF I Φ2 α g ρ
  | .mk inputs outputs inits nodes, ρ, hg => by
    simp only [opsAllG] at hg
    funext xs
    simp only [evalGF]
    rw [evalNodesF_congrΦ I Φ1 Φ2 P h α nodes _ hg]
theorem evalNodesF_congrΦ (I : Interp Val) (Φ1 Φ2 : FEnv Val) (P : OpId → Bool)
    (h : ∀ op, P op = true → Φ1 op = Φ2 op) (α : List (String × AttrData)) :
    ∀ (ns : List FNode) (ρ : Env Val), opsAllNodes P ns = true → evalNodesF I Φ1 α ns ρ = evalNodesF I Φ2 α ns ρ
  | [], _, _ => by simp [evalNodesF]
  | n :: ns, ρ, hn => by
    simp only [opsAllNodes, Bool.and_eq_true] at hn
    simp only [evalNodesF]
    rw [evalNF_congrΦ I Φ1 Φ2 P h α n ρ hn.1, evalNodesF_congrΦ I Φ1 Φ2 P h α ns _ hn.2]
theorem evalNF_congrΦ (I : Interp Val) (Φ1 Φ2 : FEnv Val) (P : OpId → Bool)
    (h : ∀ op, P op = true → Φ1 op = Φ2 op) (α : List (String × AttrData)) :
    ∀ (n : FNode) (ρ : Env Val), opsAllN P n = true → evalNF I Φ1 α n ρ = evalNF I Φ2 α n ρ
  | .mk op attrs ins outs bodies, ρ, hn => by
    simp only [opsAllN, Bool.and_eq_true] at hn
    simp only [evalNF]
    rw [h op hn.1, evalBodiesF_congrΦ I Φ1 Φ2 P h α bodies ρ hn.2]
theorem evalBodiesF_congrΦ (I : Interp Val) (Φ1 Φ2 : FEnv Val) (P : OpId → Bool)
    (h : ∀ op, P op = true → Φ1 op = Φ2 op) (α : List (String × AttrData)) :
    ∀ (bs : List FGraph) (ρ : Env Val), opsAllBodies P bs = true → evalBodiesF I Φ1 α bs ρ = evalBodiesF I Φ2 α bs ρ
  | [], _, _ => by simp [evalBodiesF]
  | b :: bs, ρ, hb => by
    simp only [opsAllBodies, Bool.and_eq_true] at hb
    simp only [evalBodiesF]
    rw [evalGF_congrΦ I Φ1 Φ2 P h α b ρ hb.1, evalBodiesF_congrΦ I Φ1 Φ2 P h α bs ρ hb.2]
end

theorem funcDen_congrΦ (I : Interp Val) (Φ1 Φ2 : FEnv Val) (P : OpId → Bool)
    (h : ∀ op, P op = true → Φ1 op = Φ2 op) (f : Func) (hf : opsAllNodes P f.nodes = true) :
    funcDen I Φ1 f = funcDen I Φ2 f := by
  funext cattrs args
  simp only [funcDen]
  rw [evalNodesF_congrΦ I Φ1 Φ2 P h _ f.nodes _ hf]

/-! ## call depth -/

theorem findFunc_some {fs : List Func} {op : OpId} {f : Func} (h : findFunc fs op = some f) : f ∈ fs ∧ f.id = op := by
  unfold findFunc at h
  exact ⟨List.mem_of_find?_eq_some h, by simpa using List.find?_some h⟩

theorem lvl_mono (fs : List Func) : ∀ (d : Nat) (op : OpId), lvl fs d op = true → lvl fs (d + 1) op = true
  | 0, op, h => by
    simp only [lvl, Option.isNone_iff_eq_none] at h
    simp [lvl, h]
  | d + 1, op, h => by
    rw [lvl] at h ⊢
    split
    · rfl
    · rename_i f hf
      rw [hf] at h
      exact opsAllNodes_mono (lvl_mono fs d) f.nodes h

theorem lvl_mono_le (fs : List Func) {d e : Nat} (hde : d ≤ e) (op : OpId) (h : lvl fs d op = true) :
    lvl fs e op = true := by
  induction hde with
  | refl => exact h
  | step _ ih => exact lvl_mono fs _ op ih

/-- once the unrolling depth reaches the depth of the call tree of `op`, going deeper changes nothing -/
theorem fenv_stable (I : Interp Val) (fs : List Func) : ∀ (d : Nat) (op : OpId), lvl fs d op = true →
    ∀ e, d ≤ e → fenv I fs e op = fenv I fs d op
  | 0, op, h, e, _ => by
    simp only [lvl, Option.isNone_iff_eq_none] at h
    cases e with
    | zero => rfl
    | succ e => simp [fenv, h]
  | d + 1, op, h, e, hde => by
    obtain ⟨e', rfl⟩ : ∃ e', e = e' + 1 := ⟨e - 1, by omega⟩
    simp only [fenv]
    rw [lvl] at h
    cases hf : findFunc fs op with
    | none => rfl
    | some f =>
      rw [hf] at h
      simp only [Option.map_some, Option.some.injEq]
      exact funcDen_congrΦ I _ _ (lvl fs d) (fun op' hop' => fenv_stable I fs d op' hop' e' (by omega)) f h

/-- at a depth that covers every function, a call denotes the body of the function under the same
    function environment -/
theorem fenv_unfold (I : Interp Val) (fs : List Func) (d : Nat) (hd : ∀ f ∈ fs, lvl fs d f.id = true)
    {e : Nat} (hde : d ≤ e) {op : OpId} {f : Func} (hf : findFunc fs op = some f) :
    fenv I fs e op = some (funcDen I (fenv I fs e) f) := by
  obtain ⟨hmem, hid⟩ := findFunc_some hf
  have hl : lvl fs d op = true := hid ▸ hd f hmem
  have h1 : fenv I fs (e + 1) op = fenv I fs e op := by
    rw [fenv_stable I fs d op hl (e + 1) (by omega), fenv_stable I fs d op hl e hde]
  rw [← h1]
  simp [fenv, hf]

theorem fenv_none (I : Interp Val) (fs : List Func) (d : Nat) {op : OpId} (hf : findFunc fs op = none) :
    fenv I fs d op = none := by
  cases d with
  | zero => rfl
  | succ d => simp [fenv, hf]

end IrVerif.Inline

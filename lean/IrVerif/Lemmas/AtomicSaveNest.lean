/-
Helper lemmas for the two-level model of C08 (`Model/AtomicSaveNest.lean`): bytes of `writeAt` position by
position, the invariant of the inner pool of one shard, the invariant of the two-level run.
-/
import IrVerif.Lemmas.AtomicSaveConc
import IrVerif.Model.AtomicSaveNest
namespace IrVerif.AtomicSave

/-! ### `writeAt`, position by position (a position past the end reads as zero) -/

theorem writeAt_getD (buf : Bytes) (pos : Nat) (bs : Bytes) (x : Nat) :
    (writeAt buf pos bs).getD x 0 =
      if pos ≤ x ∧ x < pos + bs.length then bs.getD (x - pos) 0 else buf.getD x 0 := by
  unfold writeAt
  simp only [List.getD_eq_getElem?_getD]
  cases bs with
  | nil => simp; intro h1 h2; omega
  | cons b r =>
    simp only [List.isEmpty_cons, Bool.false_eq_true, if_false]
    simp only [List.getElem?_append, List.getElem?_take, List.getElem?_drop, List.getElem?_replicate,
      List.length_append, List.length_take, List.length_replicate, List.length_cons]
    split <;> split <;> (try split) <;> (try split) <;> (try split) <;>
      first | (exfalso; omega) | rfl | (congr 2; omega) | (simp; omega) | skip
    all_goals (rw [List.getElem?_eq_none (by omega)]; rfl)

theorem writeAt_length (buf : Bytes) (pos : Nat) (bs : Bytes) (h : pos + bs.length ≤ buf.length) :
    (writeAt buf pos bs).length = buf.length := by
  unfold writeAt
  split
  · rfl
  · simp; omega

/-- A write of bytes that are the target bytes of their positions keeps every position that already holds
its target byte. -/
theorem stable_write (T : Nat → Nat) (B : Bytes) (pos : Nat) (c : Bytes)
    (hc : ∀ i, i < c.length → c.getD i 0 = T (pos + i)) (x : Nat) (h : B.getD x 0 = T x) :
    (writeAt B pos c).getD x 0 = T x := by
  rw [writeAt_getD]
  split
  · rename_i hx
    have := hc (x - pos) (by omega)
    rw [this]
    congr 1
    omega
  · exact h

theorem bytes_ext (a b : Bytes) (hl : a.length = b.length) (h : ∀ x, x < a.length → a.getD x 0 = b.getD x 0) :
    a = b := by
  apply List.ext_getElem hl
  intro i h1 h2
  have := h i h1
  simp only [List.getD_eq_getElem?_getD, List.getElem?_eq_getElem h1, List.getElem?_eq_getElem h2,
    Option.getD_some] at this
  exact this

/-! ### Facts about a well-formed job -/

theorem tgt_uncovered (nm : Nat) (j : NJob) (x : Nat) (h : ∀ tk ∈ j.tasks, tk.covers x = false) :
    tgtByte nm j x = (preBytes nm j).getD x 0 := by
  unfold tgtByte
  have : j.tasks.find? (fun t => t.covers x) = none := by
    rw [List.find?_eq_none]
    intro tk htk
    simp [h tk htk]
  rw [this]

theorem jobOk_file {nm : Nat} {j : NJob} (h : jobOk nm j = true) :
    ∃ t, (preEnd nm j).fs.file .tmpFile = some t ∧ preBytes nm j = (preEnd nm j).fs.data t := by
  simp only [jobOk, Bool.and_eq_true] at h
  cases hf : (preEnd nm j).fs.file .tmpFile with
  | none => simp [hf] at h
  | some t => exact ⟨t, rfl, by simp [preBytes, hf]⟩

theorem jobOk_task {nm : Nat} {j : NJob} (h : jobOk nm j = true) {tk : Task} (htk : tk ∈ j.tasks) :
    tk.off + tk.bytes.length ≤ (preBytes nm j).length ∧
    ∀ i, i < tk.bytes.length → tk.bytes.getD i 0 = tgtByte nm j (tk.off + i) := by
  simp only [jobOk, Bool.and_eq_true, List.all_eq_true, decide_eq_true_eq, List.mem_range, beq_iff_eq] at h
  exact h.2 tk htk

/-! ### The invariant of the inner pool of one shard -/

/-- What is known about an inner worker in the middle of a task. -/
def WkInv (nm : Nat) (job : NJob) (files : List Nat) (loc : St) (t : Nat) (a : Wk) : Prop :=
  match a.st with
  | .opn => True
  | .cbk => a.w ∈ files
  | .sek => a.w ∈ files
  | .wr rc => a.w ∈ files ∧ rc ≠ [] ∧ ∃ dn, dn ++ rc = a.task.chunks ∧
      loc.wfd a.w = some (t, a.task.off + dn.flatten.length) ∧
      ∀ x, a.task.off ≤ x → x < a.task.off + dn.flatten.length →
        (loc.fs.data t).getD x 0 = tgtByte nm job x

structure PoolInv (nm : Nat) (p : NProc) (t : Nat) : Prop where
  file : p.loc.fs.file .tmpFile = some t
  len : (p.loc.fs.data t).length = (preBytes nm p.job).length
  unc : ∀ x, (∀ tk ∈ p.job.tasks, tk.covers x = false) → (p.loc.fs.data t).getD x 0 = tgtByte nm p.job x
  dn : ∀ tk ∈ p.doneT, ∀ x, tk.covers x = true → (p.loc.fs.data t).getD x 0 = tgtByte nm p.job x
  all : p.failed = true ∨ ∀ tk ∈ p.job.tasks, tk ∈ p.queue ∨ (∃ a ∈ p.act, a.task = tk) ∨ tk ∈ p.doneT
  subq : ∀ tk ∈ p.queue, tk ∈ p.job.tasks
  suba : ∀ a ∈ p.act, a.task ∈ p.job.tasks
  hfiles : ∀ w ∈ p.files, ∃ pos, p.loc.wfd w = some (t, pos)
  pw : p.act.Pairwise (fun a b => a.w ≠ b.w)
  actv : ∀ a ∈ p.act, WkInv nm p.job p.files p.loc t a

theorem pw_unique {l : List Wk} (h : l.Pairwise (fun a b => a.w ≠ b.w)) {a b : Wk} (ha : a ∈ l) (hb : b ∈ l)
    (hw : a.w = b.w) : a = b := by
  induction l with
  | nil => simp at ha
  | cons c r ih =>
    rw [List.pairwise_cons] at h
    simp only [List.mem_cons] at ha hb
    rcases ha with rfl | ha <;> rcases hb with rfl | hb
    · rfl
    · exact absurd hw (h.1 b hb)
    · exact absurd hw.symm (h.1 a ha)
    · exact ih h.2 ha hb

/-- What one effect of an inner worker (with handle `w`) does to the private world. -/
structure Frame (nm : Nat) (job : NJob) (t w : Nat) (loc loc' : St) : Prop where
  file : loc'.fs.file .tmpFile = some t
  data : ∃ pos c, loc'.fs.data t = writeAt (loc.fs.data t) pos c ∧ pos + c.length ≤ (loc.fs.data t).length ∧
    ∀ i, i < c.length → c.getD i 0 = tgtByte nm job (pos + i)
  wfdne : ∀ w', w' ≠ w → loc'.wfd w' = loc.wfd w'
  keep : ∀ w' pos, loc.wfd w' = some (t, pos) → ∃ pos', loc'.wfd w' = some (t, pos')

theorem Frame.stable {nm : Nat} {job : NJob} {t w : Nat} {loc loc' : St} (f : Frame nm job t w loc loc') (x : Nat)
    (h : (loc.fs.data t).getD x 0 = tgtByte nm job x) : (loc'.fs.data t).getD x 0 = tgtByte nm job x := by
  rcases f.data with ⟨pos, c, hd, _, hc⟩
  rw [hd]
  exact stable_write _ _ pos c hc x h

theorem Frame.length {nm : Nat} {job : NJob} {t w : Nat} {loc loc' : St} (f : Frame nm job t w loc loc') :
    (loc'.fs.data t).length = (loc.fs.data t).length := by
  rcases f.data with ⟨pos, c, hd, hb, _⟩
  rw [hd]
  exact writeAt_length _ pos c hb

theorem Frame.refl (nm : Nat) (job : NJob) (t w : Nat) (loc : St) (hf : loc.fs.file .tmpFile = some t) :
    Frame nm job t w loc loc :=
  ⟨hf, ⟨0, [], by simp [writeAt], by simp, by intro i hi; simp at hi⟩, fun _ _ => rfl, fun _ pos h => ⟨pos, h⟩⟩

theorem WkInv.transfer {nm : Nat} {job : NJob} {t w : Nat} {loc loc' : St} {files files' : List Nat} {a : Wk}
    (f : Frame nm job t w loc loc') (hne : a.w ≠ w) (hsub : ∀ v ∈ files, v ∈ files')
    (h : WkInv nm job files loc t a) : WkInv nm job files' loc' t a := by
  unfold WkInv at h ⊢
  split
  · trivial
  · rename_i hs; simp only [hs] at h; exact hsub _ h
  · rename_i hs; simp only [hs] at h; exact hsub _ h
  · rename_i rc hs
    simp only [hs] at h
    rcases h with ⟨hm, hrc, dn, hdn, hw, hp⟩
    refine ⟨hsub _ hm, hrc, dn, hdn, ?_, ?_⟩
    · rw [f.wfdne _ hne]; exact hw
    · intro x h1 h2; exact f.stable x (hp x h1 h2)

theorem start_inv {nm : Nat} {p : NProc} {t : Nat} (h : PoolInv nm p t) (w i : Nat) :
    PoolInv nm (startIfIdle p w i) t := by
  unfold startIfIdle
  split
  · exact h
  · rename_i hany
    split
    · exact h
    · rename_i tk hfind
      have hmem : tk ∈ p.queue := List.mem_of_find?_eq_some hfind
      have hnot : ∀ a ∈ p.act, a.w ≠ w := by
        intro a ha hw
        apply hany
        rw [List.any_eq_true]
        exact ⟨a, ha, by simp [hw]⟩
      refine ⟨h.file, h.len, h.unc, h.dn, ?_, ?_, ?_, h.hfiles, ?_, ?_⟩
      · rcases h.all with hf | hall
        · exact Or.inl hf
        · right
          intro tk' htk'
          rcases hall tk' htk' with hq' | ⟨a, ha, hat⟩ | hd
          · by_cases heq : tk' = tk
            · subst heq
              exact Or.inr (Or.inl ⟨_, List.mem_cons_self .., rfl⟩)
            · exact Or.inl ((List.mem_erase_of_ne heq).mpr hq')
          · exact Or.inr (Or.inl ⟨a, List.mem_cons_of_mem _ ha, hat⟩)
          · exact Or.inr (Or.inr hd)
      · intro tk' htk'
        exact h.subq tk' (List.mem_of_mem_erase htk')
      · intro a ha
        simp only [List.mem_cons] at ha
        rcases ha with rfl | ha
        · exact h.subq tk hmem
        · exact h.suba a ha
      · rw [List.pairwise_cons]
        exact ⟨fun a ha => (hnot a ha).symm, h.pw⟩
      · intro a ha
        simp only [List.mem_cons] at ha
        rcases ha with rfl | ha
        · unfold WkInv
          by_cases hc : p.files.contains w = true
          · have hm : w ∈ p.files := by simpa using hc
            by_cases hcb : p.job.cb = true <;> simp [hcb, hm]
          · have hm : ¬ w ∈ p.files := by simpa using hc
            simp [hm]
        · exact h.actv a ha

theorem getD_mid (a c r : Bytes) (i : Nat) (hi : i < c.length) :
    c.getD i 0 = (a ++ c ++ r).getD (a.length + i) 0 := by
  simp only [List.getD_eq_getElem?_getD]
  rw [List.getElem?_append_left (by simp; omega), List.getElem?_append_right (by omega)]
  congr 2
  omega

/-- The private world after a write of `c'` (a prefix of the chunk `c` that is due) by worker `x`. -/
theorem frame_write {nm : Nat} {p : NProc} {t : Nat} {x : Wk} (h : PoolInv nm p t) (hok : jobOk nm p.job = true)
    (hx : x ∈ p.act) {c : Bytes} {rc dn : List Bytes} (hdn : dn ++ c :: rc = x.task.chunks)
    (hw : p.loc.wfd x.w = some (t, x.task.off + dn.flatten.length)) (c' r' : Bytes) (hc : c = c' ++ r') :
    let loc' := apply ⟨p.job.dest, nm⟩ p.loc (.writeW x.w c')
    Frame nm p.job t x.w p.loc loc' ∧
    loc'.wfd x.w = some (t, x.task.off + dn.flatten.length + c'.length) ∧
    loc'.fs.data t = writeAt (p.loc.fs.data t) (x.task.off + dn.flatten.length) c' ∧
    (∀ i, i < c'.length → c'.getD i 0 = tgtByte nm p.job (x.task.off + dn.flatten.length + i)) := by
  intro loc'
  have hj := jobOk_task hok (h.suba x hx)
  have hb : x.task.bytes = dn.flatten ++ c' ++ (r' ++ rc.flatten) := by
    simp [Task.bytes, ← hdn, hc]
  have hcons : ∀ i, i < c'.length → c'.getD i 0 = tgtByte nm p.job (x.task.off + dn.flatten.length + i) := by
    intro i hi
    rw [getD_mid dn.flatten c' (r' ++ rc.flatten) i hi, ← hb, hj.2 _ (by rw [hb]; simp only [List.length_append]; omega)]
    congr 1
    omega
  have hbound : x.task.off + dn.flatten.length + c'.length ≤ (p.loc.fs.data t).length := by
    rw [h.len]
    have := hj.1
    rw [hb] at this
    simp only [List.length_append] at this
    omega
  have hl : loc' = { p.loc with
      fs := { p.loc.fs with data := upd p.loc.fs.data t (writeAt (p.loc.fs.data t) (x.task.off + dn.flatten.length) c') }
      wfd := upd p.loc.wfd x.w (some (t, x.task.off + dn.flatten.length + c'.length)) } := by
    simp [loc', apply, hw]
  refine ⟨⟨?_, ⟨_, c', ?_, hbound, hcons⟩, ?_, ?_⟩, ?_, ?_, hcons⟩
  · rw [hl]; exact h.file
  · rw [hl]; simp
  · intro w' hne; rw [hl]; exact upd_ne _ _ hne
  · intro w' pos hp
    rw [hl]
    by_cases hww : w' = x.w
    · subst hww; exact ⟨_, upd_same _ _ _⟩
    · exact ⟨pos, by simp only []; rw [upd_ne _ _ hww]; exact hp⟩
  · rw [hl]; simp
  · rw [hl]; simp

/-- Every effect of an inner worker, succeeding or failing, is a `Frame`. -/
theorem wk_frame {nm : Nat} {p : NProc} {t : Nat} {x : Wk} (h : PoolInv nm p t) (hok : jobOk nm p.job = true)
    (hx : x ∈ p.act) :
    Frame nm p.job t x.w p.loc (apply ⟨p.job.dest, nm⟩ p.loc (wkEff x)) ∧
    ∀ q, Frame nm p.job t x.w p.loc (applyPartial ⟨p.job.dest, nm⟩ p.loc (wkEff x) q) := by
  have hinv := h.actv x hx
  have hrefl := Frame.refl nm p.job t x.w p.loc h.file
  unfold WkInv at hinv
  unfold wkEff
  split
  · -- open
    refine ⟨?_, fun _ => hrefl⟩
    have hl : apply ⟨p.job.dest, nm⟩ p.loc (.openW x.w) = { p.loc with wfd := upd p.loc.wfd x.w (some (t, 0)) } := by
      simp [apply, h.file]
    rw [hl]
    refine ⟨h.file, ⟨0, [], by simp [writeAt], by simp, by intro i hi; simp at hi⟩, fun w' hne => upd_ne _ _ hne, ?_⟩
    intro w' pos hp
    by_cases hww : w' = x.w
    · subst hww; exact ⟨_, upd_same _ _ _⟩
    · exact ⟨pos, by simp only []; rw [upd_ne _ _ hww]; exact hp⟩
  · exact ⟨hrefl, fun _ => hrefl⟩
  · -- seek
    rename_i hs
    simp only [hs] at hinv
    rcases h.hfiles _ hinv with ⟨pos, hp⟩
    refine ⟨?_, fun _ => hrefl⟩
    have hl : apply ⟨p.job.dest, nm⟩ p.loc (.seekW x.w x.task.off) =
        { p.loc with wfd := upd p.loc.wfd x.w (some (t, x.task.off)) } := by
      simp [apply, hp]
    rw [hl]
    refine ⟨h.file, ⟨0, [], by simp [writeAt], by simp, by intro i hi; simp at hi⟩, fun w' hne => upd_ne _ _ hne, ?_⟩
    intro w' pos' hp'
    by_cases hww : w' = x.w
    · subst hww; exact ⟨_, upd_same _ _ _⟩
    · exact ⟨pos', by simp only []; rw [upd_ne _ _ hww]; exact hp'⟩
  · -- write
    rename_i c rc hs
    simp only [hs] at hinv
    rcases hinv with ⟨_, _, dn, hdn, hw, _⟩
    refine ⟨(frame_write h hok hx hdn hw c [] (by simp)).1, ?_⟩
    intro q
    exact (frame_write h hok hx hdn hw (c.take q) (c.drop q) (by simp)).1
  · exact ⟨hrefl, fun _ => hrefl⟩

def filesAfter (p : NProc) (x : Wk) : List Nat := if x.st = .opn then p.files ++ [x.w] else p.files

/-- What is known about worker `x` itself after its effect succeeded. -/
theorem wk_post {nm : Nat} {p : NProc} {t : Nat} {x : Wk} (h : PoolInv nm p t) (hok : jobOk nm p.job = true)
    (hx : x ∈ p.act) :
    let loc' := apply ⟨p.job.dest, nm⟩ p.loc (wkEff x)
    (∀ w ∈ filesAfter p x, ∃ pos, loc'.wfd w = some (t, pos)) ∧
    match wkNext p.job.cb x with
    | some st => WkInv nm p.job (filesAfter p x) loc' t { x with st := st }
    | none => ∀ y, x.task.covers y = true → (loc'.fs.data t).getD y 0 = tgtByte nm p.job y := by
  intro loc'
  have hinv := h.actv x hx
  have hF := (wk_frame h hok hx).1
  have hkeep : ∀ w ∈ p.files, ∃ pos, loc'.wfd w = some (t, pos) := by
    intro w hw
    rcases h.hfiles w hw with ⟨pos, hp⟩
    exact hF.keep w pos hp
  unfold WkInv at hinv
  cases hs : x.st with
  | opn =>
    have hl : loc' = { p.loc with wfd := upd p.loc.wfd x.w (some (t, 0)) } := by
      simp [loc', wkEff, hs, apply, h.file]
    constructor
    · intro w hw
      simp only [filesAfter, hs, if_true, List.mem_append, List.mem_singleton] at hw
      rcases hw with hw | rfl
      · exact hkeep w hw
      · exact ⟨0, by rw [hl]; exact upd_same _ _ _⟩
    · simp only [wkNext, hs]
      unfold WkInv
      by_cases hcb : p.job.cb = true <;> simp [hcb, filesAfter, hs]
  | cbk =>
    simp only [hs] at hinv
    refine ⟨by simpa [filesAfter, hs] using hkeep, ?_⟩
    simp only [wkNext, hs]
    unfold WkInv
    simpa [filesAfter, hs] using hinv
  | sek =>
    simp only [hs] at hinv
    rcases h.hfiles _ hinv with ⟨pos, hp⟩
    have hl : loc' = { p.loc with wfd := upd p.loc.wfd x.w (some (t, x.task.off)) } := by
      simp [loc', wkEff, hs, apply, hp]
    refine ⟨by simpa [filesAfter, hs] using hkeep, ?_⟩
    simp only [wkNext, hs]
    by_cases hemp : x.task.chunks.isEmpty = true
    · simp only [hemp, if_true]
      intro y hy
      have : x.task.bytes = [] := by
        have : x.task.chunks = [] := by simpa using hemp
        simp [Task.bytes, this]
      simp [Task.covers, this] at hy
      omega
    · simp only [hemp, if_false]
      have hne := hemp
      unfold WkInv
      simp only [filesAfter, hs]
      refine ⟨by simpa using hinv, by simpa using hne, [], rfl, ?_, ?_⟩
      · rw [hl]; simp
      · intro y h1 h2; simp at h2; omega
  | wr rc0 =>
    simp only [hs] at hinv
    rcases hinv with ⟨hm, hrc, dn, hdn, hw, hp⟩
    cases rc0 with
    | nil => exact absurd rfl hrc
    | cons c rc =>
      have hfw := frame_write h hok hx hdn hw c [] (by simp)
      have hloc : loc' = apply ⟨p.job.dest, nm⟩ p.loc (.writeW x.w c) := by simp [loc', wkEff, hs]
      rw [← hloc] at hfw
      refine ⟨by simpa [filesAfter, hs] using hkeep, ?_⟩
      have hprog : ∀ y, x.task.off ≤ y → y < x.task.off + (dn ++ [c]).flatten.length →
          (loc'.fs.data t).getD y 0 = tgtByte nm p.job y := by
        intro y h1 h2
        simp only [List.flatten_append, List.flatten_cons, List.flatten_nil, List.append_nil,
          List.length_append] at h2
        by_cases hy : y < x.task.off + dn.flatten.length
        · exact hfw.1.stable y (hp y h1 hy)
        · rw [hfw.2.2.1, writeAt_getD]
          rw [if_pos ⟨by omega, by omega⟩]
          have := hfw.2.2.2 (y - (x.task.off + dn.flatten.length)) (by omega)
          rw [this]
          congr 1
          omega
      simp only [wkNext, hs]
      by_cases hemp : rc.isEmpty = true
      · simp only [hemp, if_true]
        have hrce : rc = [] := by simpa using hemp
        intro y hy
        have hb : x.task.bytes = (dn ++ [c]).flatten := by
          simp [Task.bytes, ← hdn, hrce]
        simp only [Task.covers, Bool.and_eq_true, decide_eq_true_eq] at hy
        exact hprog y hy.1 (by rw [← hb]; exact hy.2)
      · simp only [hemp, if_false]
        have hne := hemp
        unfold WkInv
        simp only [filesAfter, hs]
        refine ⟨by simpa using hm, by simpa using hne, dn ++ [c], by simp [← hdn], ?_, hprog⟩
        rw [hfw.2.1]
        simp [Nat.add_assoc]

theorem doWk_inv {nm : Nat} {p : NProc} {t : Nat} {x : Wk} (h : PoolInv nm p t) (hok : jobOk nm p.job = true)
    (hx : x ∈ p.act) (o : Option Nat) : PoolInv nm (doWk nm p x o) t := by
  have hF := wk_frame h hok hx
  have hmem : ∀ a, a ∈ p.act.filter (fun a => a.w != x.w) → a ∈ p.act ∧ a.w ≠ x.w := by
    intro a ha
    simpa using ha
  have hconv : ∀ a ∈ p.act, a ≠ x → a ∈ p.act.filter (fun a => a.w != x.w) := by
    intro a ha hne
    simp only [List.mem_filter, bne_iff_ne, ne_eq]
    exact ⟨ha, fun hw => hne (pw_unique h.pw ha hx hw)⟩
  have hpw : (p.act.filter (fun a => a.w != x.w)).Pairwise (fun a b => a.w ≠ b.w) := h.pw.filter _
  unfold doWk
  cases o with
  | some q =>
    have F := hF.2 q
    refine ⟨F.file, by rw [F.length]; exact h.len, fun y hy => F.stable y (h.unc y hy),
      fun tk htk y hy => F.stable y (h.dn tk htk y hy), Or.inl rfl, h.subq,
      fun a ha => h.suba a (hmem a ha).1, ?_, hpw, ?_⟩
    · intro w hw
      rcases h.hfiles w hw with ⟨pos, hp⟩
      exact F.keep w pos hp
    · intro a ha
      exact (h.actv a (hmem a ha).1).transfer F (hmem a ha).2 (fun _ hv => hv)
  | none =>
    have F := hF.1
    have hpost := wk_post h hok hx
    have hsub : ∀ v ∈ p.files, v ∈ filesAfter p x := by
      intro v hv
      unfold filesAfter
      split
      · exact List.mem_append_left _ hv
      · exact hv
    have hoth : ∀ a ∈ p.act.filter (fun a => a.w != x.w),
        WkInv nm p.job (filesAfter p x) (apply ⟨p.job.dest, nm⟩ p.loc (wkEff x)) t a :=
      fun a ha => (h.actv a (hmem a ha).1).transfer F (hmem a ha).2 hsub
    simp only [] at hpost
    show PoolInv nm (match wkNext p.job.cb x with
      | some st => { p with loc := apply ⟨p.job.dest, nm⟩ p.loc (wkEff x), files := filesAfter p x,
                            act := { x with st := st } :: p.act.filter (fun a => a.w != x.w) }
      | none => { p with loc := apply ⟨p.job.dest, nm⟩ p.loc (wkEff x), files := filesAfter p x,
                         act := p.act.filter (fun a => a.w != x.w), doneT := x.task :: p.doneT }) t
    cases hn : wkNext p.job.cb x with
    | some st =>
      rw [hn] at hpost
      refine ⟨F.file, by rw [F.length]; exact h.len, fun y hy => F.stable y (h.unc y hy),
        fun tk htk y hy => F.stable y (h.dn tk htk y hy), ?_, h.subq, ?_, hpost.1, ?_, ?_⟩
      · rcases h.all with hf | hall
        · exact Or.inl hf
        · right
          intro tk htk
          rcases hall tk htk with hq | ⟨a, ha, hat⟩ | hd
          · exact Or.inl hq
          · by_cases hax : a = x
            · exact Or.inr (Or.inl ⟨{ x with st := st }, List.mem_cons_self .., by rw [← hat, hax]⟩)
            · exact Or.inr (Or.inl ⟨a, List.mem_cons_of_mem _ (hconv a ha hax), hat⟩)
          · exact Or.inr (Or.inr hd)
      · intro a ha
        simp only [List.mem_cons] at ha
        rcases ha with rfl | ha
        · exact h.suba x hx
        · exact h.suba a (hmem a ha).1
      · rw [List.pairwise_cons]
        exact ⟨fun a ha => (hmem a ha).2.symm, hpw⟩
      · intro a ha
        simp only [List.mem_cons] at ha
        rcases ha with rfl | ha
        · exact hpost.2
        · exact hoth a ha
    | none =>
      rw [hn] at hpost
      refine ⟨F.file, by rw [F.length]; exact h.len, fun y hy => F.stable y (h.unc y hy), ?_, ?_, h.subq,
        fun a ha => h.suba a (hmem a ha).1, hpost.1, hpw, hoth⟩
      · intro tk htk y hy
        simp only [List.mem_cons] at htk
        rcases htk with rfl | htk
        · exact hpost.2 y hy
        · exact F.stable y (h.dn tk htk y hy)
      · rcases h.all with hf | hall
        · exact Or.inl hf
        · right
          intro tk htk
          rcases hall tk htk with hq | ⟨a, ha, hat⟩ | hd
          · exact Or.inl hq
          · by_cases hax : a = x
            · exact Or.inr (Or.inr (by rw [← hat, hax]; exact List.mem_cons_self ..))
            · exact Or.inr (Or.inl ⟨a, hconv a ha hax, hat⟩)
          · exact Or.inr (Or.inr (List.mem_cons_of_mem _ hd))

/-! ### The invariant of one shard's threads -/

def Fresh (p : NProc) : Prop :=
  p.queue = p.job.tasks ∧ p.act = [] ∧ p.files = [] ∧ p.failed = false ∧ p.doneT = []

/-- The temporary file (if there is one) holds exactly the complete bytes of the shard. -/
def FinOK (nm : Nat) (p : NProc) : Prop :=
  ∀ t, p.loc.fs.file .tmpFile = some t → p.loc.fs.data t = nBytes nm p.job

def NInv (nm : Nat) (p : NProc) : Prop :=
  match p.pc with
  | .init => p.loc = emptySt ∧ Fresh p
  | .pre rest =>
    (∃ dn, dn ++ rest = p.job.pre ∧
      p.loc = applyAll ⟨p.job.dest, nm⟩ dn (apply ⟨p.job.dest, nm⟩ emptySt .mkdtemp)) ∧ Fresh p
  | .pool => ∃ t, PoolInv nm p t
  | .closing _ false => FinOK nm p
  | .rep => FinOK nm p
  | _ => True

theorem nBytes_length (nm : Nat) (j : NJob) : (nBytes nm j).length = (preBytes nm j).length := by
  simp [nBytes]

theorem nBytes_getD (nm : Nat) (j : NJob) (x : Nat) (hx : x < (preBytes nm j).length) :
    (nBytes nm j).getD x 0 = tgtByte nm j x := by
  simp [nBytes, List.getD_eq_getElem?_getD, List.getElem?_map, List.getElem?_range hx]

theorem settle1_inv {nm : Nat} {p : NProc} (h : NInv nm p) (hok : jobOk nm p.job = true) : NInv nm (settle1 p) := by
  unfold settle1
  split
  · rename_i hpc
    simp only [NInv, hpc, List.append_nil] at h
    rcases h with ⟨⟨dn, hdn, hl⟩, hq, ha, hf, hfa, hd⟩
    subst hdn
    rcases jobOk_file hok with ⟨t, hft, hpb⟩
    have hle : p.loc = preEnd nm p.job := hl
    simp only [NInv]
    refine ⟨t, ⟨by rw [hle]; exact hft, by rw [hle, hpb], ?_, ?_, ?_, ?_, ?_, ?_, ?_, ?_⟩⟩
    · intro x hx
      show (p.loc.fs.data t).getD x 0 = _
      rw [tgt_uncovered nm p.job x hx, hle, hpb]
    · intro tk htk
      have : tk ∈ p.doneT := htk
      rw [hd] at this; simp at this
    · right; intro tk htk; left; show tk ∈ p.queue; rw [hq]; exact htk
    · intro tk htk; have : tk ∈ p.queue := htk; rw [hq] at this; exact this
    · intro a ha'; have : a ∈ p.act := ha'; rw [ha] at this; simp at this
    · intro w hw; have : w ∈ p.files := hw; rw [hf] at this; simp at this
    · show p.act.Pairwise _; rw [ha]; exact List.Pairwise.nil
    · intro a ha'; have : a ∈ p.act := ha'; rw [ha] at this; simp at this
  · exact h

theorem pool_fin {nm : Nat} {p : NProc} {t : Nat} (h : PoolInv nm p t) (hf : p.failed = false) (hq : p.queue = [])
    (ha : p.act = []) : FinOK nm p := by
  intro t' ht'
  have : t' = t := by
    have := h.file
    rw [ht'] at this
    exact Option.some.inj this
  subst this
  apply bytes_ext
  · rw [h.len, nBytes_length]
  · intro x hx
    rw [nBytes_getD nm p.job x (by rw [← h.len]; exact hx)]
    by_cases hc : ∃ tk ∈ p.job.tasks, tk.covers x = true
    · rcases hc with ⟨tk, htk, hcov⟩
      rcases h.all with hf' | hall
      · rw [hf] at hf'; cases hf'
      · rcases hall tk htk with h1 | ⟨a, h2, _⟩ | h3
        · rw [hq] at h1; simp at h1
        · rw [ha] at h2; simp at h2
        · exact h.dn tk h3 x hcov
    · apply h.unc
      intro tk htk
      cases hcv : tk.covers x with
      | false => rfl
      | true => exact absurd ⟨tk, htk, hcv⟩ hc

theorem settle2_inv {nm : Nat} {p : NProc} (h : NInv nm p) : NInv nm (settle2 p) := by
  unfold settle2
  split
  · rename_i hpc
    split
    · rename_i hen
      simp only [NInv, hpc] at h
      rcases h with ⟨t, ht⟩
      simp only [Bool.and_eq_true, Bool.or_eq_true, List.isEmpty_iff] at hen
      cases hf : p.failed with
      | true => simp [NInv]
      | false =>
        simp only [NInv]
        have hq : p.queue = [] := by
          rcases hen.2 with h1 | h1
          · rw [hf] at h1; cases h1
          · exact h1
        intro t' ht'
        exact pool_fin ht hf hq hen.1 t' ht'
    · exact h
  · exact h

theorem settle3_inv {nm : Nat} {p : NProc} (h : NInv nm p) : NInv nm (settle3 p) := by
  unfold settle3
  split
  · rename_i exc hpc
    cases exc with
    | true => simp [NInv]
    | false =>
      simp only [NInv, hpc] at h
      simp only [NInv]
      intro t ht
      exact h t ht
  · exact h

theorem settle1_job (p : NProc) : (settle1 p).job = p.job := by unfold settle1; split <;> rfl
theorem settle2_job (p : NProc) : (settle2 p).job = p.job := by
  unfold settle2; split
  · split <;> rfl
  · rfl
theorem settle3_job (p : NProc) : (settle3 p).job = p.job := by unfold settle3; split <;> rfl
theorem settle_job (p : NProc) : (settle p).job = p.job := by
  simp [settle, settle3_job, settle2_job, settle1_job]

theorem settle_inv {nm : Nat} {p : NProc} (h : NInv nm p) (hok : jobOk nm p.job = true) : NInv nm (settle p) :=
  settle3_inv (settle2_inv (settle1_inv h hok))

/-- A step of the driver thread keeps the invariant; the shared world changes only by the `os.replace` of a
temporary file that holds the complete bytes. -/
theorem stepMain_spec {nm : Nat} {sh sh' : St} {p0 p' : NProc} {o : Option Nat} {e : Eff}
    (hs : stepMain nm sh p0 o = some (e, sh', p')) (h : NInv nm p0) (hok : jobOk nm p0.job = true) :
    NInv nm p' ∧ p'.job = p0.job ∧
    (sh' = sh ∨ (FinOK nm (settle p0) ∧ sh' = (publish p0.job.dest sh (settle p0).loc).1)) := by
  have hi := settle_inv h hok
  have hj := settle_job p0
  unfold stepMain at hs
  generalize settle p0 = p at hs hi hj
  dsimp only at hs
  split at hs <;> (try simp only [Option.some.injEq, Prod.mk.injEq] at hs)
  · rename_i hpc
    rcases hs with ⟨_, rfl, rfl⟩
    simp only [NInv, hpc] at hi
    refine ⟨?_, hj, Or.inl rfl⟩
    simp only [NInv]
    exact ⟨⟨[], rfl, by rw [hi.1]; rfl⟩, hi.2⟩
  · rcases hs with ⟨_, rfl, rfl⟩
    exact ⟨by simp [NInv], hj, Or.inl rfl⟩
  · rename_i e' r hpc
    rcases hs with ⟨_, rfl, rfl⟩
    simp only [NInv, hpc] at hi
    rcases hi with ⟨⟨dn, hdn, hl⟩, hfr⟩
    refine ⟨?_, hj, Or.inl rfl⟩
    simp only [NInv]
    refine ⟨⟨dn ++ [e'], by simp [← hdn], ?_⟩, hfr⟩
    rw [hl, applyAll_append]
    rfl
  · rcases hs with ⟨_, rfl, rfl⟩
    exact ⟨by simp [NInv], hj, Or.inl rfl⟩
  · rename_i w r exc hpc
    rcases hs with ⟨_, rfl, rfl⟩
    refine ⟨?_, hj, Or.inl rfl⟩
    cases exc with
    | true => simp [NInv]
    | false =>
      simp only [NInv, hpc] at hi
      simp only [NInv]
      intro t ht
      exact hi t ht
  · rcases hs with ⟨_, rfl, rfl⟩
    exact ⟨by simp [NInv], hj, Or.inl rfl⟩
  · rename_i hpc
    rcases hs with ⟨_, rfl, rfl⟩
    simp only [NInv, hpc] at hi
    exact ⟨by simp [NInv], hj, Or.inr ⟨hi, by rw [hj]⟩⟩
  · rcases hs with ⟨_, rfl, rfl⟩
    exact ⟨by simp [NInv], hj, Or.inl rfl⟩
  · rcases hs with ⟨_, rfl, rfl⟩
    exact ⟨by simp [NInv], hj, Or.inl rfl⟩
  · rcases hs with ⟨_, rfl, rfl⟩
    exact ⟨by simp [NInv], hj, Or.inl rfl⟩
  · rcases hs with ⟨_, rfl, rfl⟩
    exact ⟨by simp [NInv], hj, Or.inl rfl⟩
  · rcases hs with ⟨_, rfl, rfl⟩
    exact ⟨by simp [NInv], hj, Or.inl rfl⟩
  · cases hs

theorem start_pc (p : NProc) (w i : Nat) : (startIfIdle p w i).pc = p.pc ∧ (startIfIdle p w i).job = p.job := by
  unfold startIfIdle
  split
  · exact ⟨rfl, rfl⟩
  · split <;> exact ⟨rfl, rfl⟩

theorem doWk_pc (nm : Nat) (p : NProc) (x : Wk) (o : Option Nat) :
    (doWk nm p x o).pc = p.pc ∧ (doWk nm p x o).job = p.job := by
  unfold doWk
  cases o with
  | some q => exact ⟨rfl, rfl⟩
  | none =>
    simp only []
    split <;> exact ⟨rfl, rfl⟩

/-- A step of an inner worker keeps the invariant and touches nothing but its shard's private world. -/
theorem stepWk_spec {nm : Nat} {p p' : NProc} {w i : Nat} {o : Option Nat} {e : Eff}
    (hs : stepWk nm p w i o = some (e, p')) (h : NInv nm p) (hok : jobOk nm p.job = true) :
    NInv nm p' ∧ p'.job = p.job := by
  unfold stepWk at hs
  split at hs
  · rename_i hpc
    have h1 := settle1_inv h hok
    simp only [NInv, hpc] at h1
    rcases h1 with ⟨t, ht⟩
    have h2 := start_inv ht w i
    simp only [] at hs
    split at hs
    · rename_i x hfind
      simp only [Option.some.injEq, Prod.mk.injEq] at hs
      rcases hs with ⟨_, rfl⟩
      have hx : x ∈ (startIfIdle (settle1 p) w i).act := List.mem_of_find?_eq_some hfind
      have hok' : jobOk nm (startIfIdle (settle1 p) w i).job = true := by
        rw [(start_pc _ w i).2, settle1_job]; exact hok
      have h3 := doWk_inv h2 hok' hx o
      have hpc' := doWk_pc nm (startIfIdle (settle1 p) w i) x o
      refine ⟨?_, by rw [hpc'.2, (start_pc _ w i).2, settle1_job]⟩
      have : (doWk nm (startIfIdle (settle1 p) w i) x o).pc = .pool := by
        rw [hpc'.1, (start_pc _ w i).1, hpc]
      simp only [NInv, this]
      exact ⟨t, h3⟩
    · cases hs
  · cases hs

/-! ### The invariant of the two-level run -/

structure NCInv (nm : Nat) (jobs : List NJob) (s0 : St) (c : NCSt) : Prop where
  jobOf : ∀ k, (c.procs k).job = (initNProcs jobs k).job
  out : ∀ k, jobs.length ≤ k → (c.procs k).pc = .done false
  ninv : ∀ k, k < jobs.length → NInv nm (c.procs k)
  data : ∀ i, i < s0.fs.next → c.sh.fs.data i = s0.fs.data i
  mode : ∀ i, i < s0.fs.next → c.sh.fs.mode i = s0.fs.mode i
  next : s0.fs.next ≤ c.sh.fs.next
  named : ∀ p i, c.sh.fs.file p = some i → i < c.sh.fs.next
  each : ∀ n, c.sh.fs.file (.user n) = s0.fs.file (.user n) ∨
    ∃ j ∈ jobs, j.dest = n ∧ ∃ i, c.sh.fs.file (.user n) = some i ∧ s0.fs.next ≤ i ∧
      c.sh.fs.data i = nBytes nm j
  isDir : c.sh.fs.isDir = s0.fs.isDir
  valid : c.sh.valid = s0.valid
  mapped : c.sh.mapped = s0.mapped

theorem initNProcs_job_mem (jobs : List NJob) (k : Nat) (hk : k < jobs.length) :
    (initNProcs jobs k).job ∈ jobs := by
  simp only [initNProcs]
  rw [List.getElem?_eq_getElem hk]
  exact List.getElem_mem hk

theorem ncinv_init (nm : Nat) (jobs : List NJob) (s0 : St) (h0 : WF s0) :
    NCInv nm jobs s0 ⟨s0, initNProcs jobs⟩ where
  jobOf := fun _ => rfl
  out := fun k hk => by
    simp only [initNProcs]
    rw [List.getElem?_eq_none hk]
  ninv := fun k hk => by
    simp only [initNProcs]
    rw [List.getElem?_eq_getElem hk]
    simp [NInv, Fresh]
  data := fun _ _ => rfl
  mode := fun _ _ => rfl
  next := Nat.le_refl _
  named := h0.named
  each := fun _ => Or.inl rfl
  isDir := rfl
  valid := rfl
  mapped := rfl

theorem ncinv_step (nm : Nat) (jobs : List NJob) (s0 : St) (hok : ∀ j ∈ jobs, jobOk nm j = true)
    (c c' : NCSt) (pk : NPick) (e : Eff) (h : NCInv nm jobs s0 c) (hs : nstep nm c pk = some (e, c')) :
    NCInv nm jobs s0 c' := by
  have hk : pk.k < jobs.length := by
    apply Nat.lt_of_not_le
    intro hle
    have hpc := h.out pk.k hle
    unfold nstep at hs
    split at hs
    · have : stepMain nm c.sh (c.procs pk.k) pk.fault = none := by
        unfold stepMain settle settle1 settle2 settle3
        simp [hpc]
      rw [this] at hs
      cases hs
    · rename_i w _
      have : stepWk nm (c.procs pk.k) w pk.take pk.fault = none := by
        unfold stepWk settle1
        simp [hpc]
      rw [this] at hs
      cases hs
  have hjm : (c.procs pk.k).job ∈ jobs := by rw [h.jobOf pk.k]; exact initNProcs_job_mem jobs pk.k hk
  have hjok := hok _ hjm
  have frame : ∀ (p' : NProc), NInv nm p' → p'.job = (c.procs pk.k).job →
      (∀ k', (upd c.procs pk.k p' k').job = (initNProcs jobs k').job) ∧
      (∀ k', jobs.length ≤ k' → (upd c.procs pk.k p' k').pc = .done false) ∧
      (∀ k', k' < jobs.length → NInv nm (upd c.procs pk.k p' k')) := by
    intro p' hi hj
    refine ⟨?_, ?_, ?_⟩
    · intro k'
      by_cases hkk : k' = pk.k
      · subst hkk; rw [upd_same, hj]; exact h.jobOf _
      · rw [upd_ne _ _ hkk]; exact h.jobOf k'
    · intro k' hk'
      have : k' ≠ pk.k := by omega
      rw [upd_ne _ _ this]; exact h.out k' hk'
    · intro k' hk'
      by_cases hkk : k' = pk.k
      · subst hkk; rw [upd_same]; exact hi
      · rw [upd_ne _ _ hkk]; exact h.ninv k' hk'
  unfold nstep at hs
  split at hs
  · -- the driver thread
    split at hs
    · rename_i e' sh' p' hsm
      simp only [Option.some.injEq, Prod.mk.injEq] at hs
      rcases hs with ⟨_, rfl⟩
      rcases stepMain_spec hsm (h.ninv pk.k hk) hjok with ⟨hi, hj, hsh⟩
      rcases frame p' hi hj with ⟨f1, f2, f3⟩
      rcases hsh with rfl | ⟨hfin, rfl⟩
      · exact ⟨f1, f2, f3, h.data, h.mode, h.next, h.named, h.each, h.isDir, h.valid, h.mapped⟩
      · unfold publish
        cases ht : (settle (c.procs pk.k)).loc.fs.file .tmpFile with
        | none => exact ⟨f1, f2, f3, h.data, h.mode, h.next, h.named, h.each, h.isDir, h.valid, h.mapped⟩
        | some t =>
          have hnb := hfin t ht
          rw [settle_job] at hnb
          refine ⟨f1, f2, f3, ?_, ?_, ?_, ?_, ?_, h.isDir, h.valid, h.mapped⟩
          · intro i hi'
            have := h.next
            have : i ≠ c.sh.fs.next := by omega
            simp [upd, this, h.data i hi']
          · intro i hi'
            have := h.next
            have : i ≠ c.sh.fs.next := by omega
            simp [upd, this, h.mode i hi']
          · have := h.next
            show s0.fs.next ≤ c.sh.fs.next + 1
            omega
          · intro p i hp
            show i < c.sh.fs.next + 1
            simp only [upd] at hp
            split at hp
            · simp at hp; omega
            · have := h.named p i hp; omega
          · intro n
            by_cases hn : n = (c.procs pk.k).job.dest
            · right
              refine ⟨(c.procs pk.k).job, hjm, hn.symm, c.sh.fs.next, ?_, h.next, ?_⟩
              · simp [upd, hn]
              · simpa [upd] using hnb
            · rcases h.each n with ho | ⟨j, hj', hjd, i, hi', hlo, hb⟩
              · left
                simpa [upd, hn] using ho
              · right
                refine ⟨j, hj', hjd, i, by simpa [upd, hn] using hi', hlo, ?_⟩
                have := h.named _ i hi'
                have hne : i ≠ c.sh.fs.next := by omega
                simpa [upd, hne] using hb
    · cases hs
  · -- an inner worker
    split at hs
    · rename_i w _ e' p' hsw
      simp only [Option.some.injEq, Prod.mk.injEq] at hs
      rcases hs with ⟨_, rfl⟩
      rcases stepWk_spec hsw (h.ninv pk.k hk) hjok with ⟨hi, hj⟩
      rcases frame p' hi hj with ⟨f1, f2, f3⟩
      exact ⟨f1, f2, f3, h.data, h.mode, h.next, h.named, h.each, h.isDir, h.valid, h.mapped⟩
    · cases hs

theorem nrun_inv (nm : Nat) (jobs : List NJob) (s0 : St) (hok : ∀ j ∈ jobs, jobOk nm j = true) :
    ∀ (sched : List NPick) (c : NCSt), NCInv nm jobs s0 c →
      NCInv nm jobs s0 (nrun nm sched c).2 ∧ ∀ st ∈ (nrun nm sched c).1, NCInv nm jobs s0 st.st
  | [], c, hc => by simp [nrun, hc]
  | pk :: r, c, hc => by
    simp only [nrun]
    split
    · exact nrun_inv nm jobs s0 hok r c hc
    · rename_i e c' hn
      have h1 := ncinv_step nm jobs s0 hok c c' pk e hc hn
      have ih := nrun_inv nm jobs s0 hok r c' h1
      refine ⟨ih.1, ?_⟩
      intro st hst
      simp only [List.mem_cons] at hst
      rcases hst with rfl | hst
      · exact h1
      · exact ih.2 st hst

/-! ### Exceptions and temporary paths of the two-level run (wave 7) -/

/-- An exception is in flight in (or has left) the shard: a task of its pool raised, or its driver thread is in
or past the handlers with an exception. -/
def NExc (p : NProc) : Prop :=
  match p.pc with
  | .pool => p.failed = true
  | .closing _ b => b = true
  | .fin1 b => b = true
  | .fin2 b => b = true
  | .done b => b = true
  | _ => False

/-- Nothing raised in the shard so far. -/
def NNoExc (p : NProc) : Prop :=
  p.failed = false ∧
  match p.pc with
  | .closing _ b => b = false
  | .fin1 b => b = false
  | .fin2 b => b = false
  | .done b => b = false
  | _ => True

/-- Temporary paths of a shard by program counter of its driver thread, as long as no clean-up effect failed. -/
def NClean (p : NProc) : Prop :=
  match p.pc with
  | .init => noTmp p.loc
  | .fin2 _ => p.loc.fs.file .tmpFile = none
  | .done _ => noTmp p.loc
  | _ => True

theorem settle_nexc {p : NProc} (h : NExc p) : NExc (settle p) := by
  have h1 : NExc (settle1 p) := by
    unfold settle1
    split
    · rename_i hpc; simp [NExc, hpc] at h
    · exact h
  have h2 : NExc (settle2 (settle1 p)) := by
    generalize settle1 p = q at h1
    unfold settle2
    split
    · rename_i hpc
      split
      · simp only [NExc, hpc] at h1; simpa [NExc] using h1
      · exact h1
    · exact h1
  show NExc (settle3 (settle2 (settle1 p)))
  generalize settle2 (settle1 p) = q at h2
  unfold settle3
  split
  · rename_i exc hpc
    simp only [NExc, hpc] at h2
    subst h2
    simp [NExc]
  · exact h2

theorem settle_nnoexc {p : NProc} (h : NNoExc p) : NNoExc (settle p) := by
  have h1 : NNoExc (settle1 p) := by
    unfold settle1
    split
    · exact ⟨h.1, by simp⟩
    · exact h
  have h2 : NNoExc (settle2 (settle1 p)) := by
    generalize settle1 p = q at h1
    unfold settle2
    split
    · split
      · exact ⟨h1.1, by simpa using h1.1⟩
      · exact h1
    · exact h1
  show NNoExc (settle3 (settle2 (settle1 p)))
  generalize settle2 (settle1 p) = q at h2
  unfold settle3
  split
  · rename_i exc hpc
    have := h2.2
    simp only [hpc] at this
    subst this
    exact ⟨h2.1, by simp⟩
  · exact h2

theorem settle_nclean {p : NProc} (h : NClean p) : NClean (settle p) := by
  have h1 : NClean (settle1 p) := by
    unfold settle1
    split
    · simp [NClean]
    · exact h
  have h2 : NClean (settle2 (settle1 p)) := by
    generalize settle1 p = q at h1
    unfold settle2
    split
    · split
      · simp [NClean]
      · exact h1
    · exact h1
  show NClean (settle3 (settle2 (settle1 p)))
  generalize settle2 (settle1 p) = q at h2
  unfold settle3
  split
  · rename_i exc hpc
    cases exc <;> simp [NClean]
  · exact h2

/-- An exception that is in flight stays with the shard, whatever its driver thread does. -/
theorem stepMain_nexc {nm : Nat} {sh sh' : St} {p0 p' : NProc} {o : Option Nat} {e : Eff}
    (hs : stepMain nm sh p0 o = some (e, sh', p')) (h : NExc p0) : NExc p' := by
  have hi := settle_nexc h
  unfold stepMain at hs
  generalize settle p0 = p at hs hi
  dsimp only at hs
  split at hs <;> (try cases hs) <;> simp_all [NExc]

/-- A failing effect of the driver thread puts an exception in flight. -/
theorem stepMain_fault {nm : Nat} {sh sh' : St} {p0 p' : NProc} {o : Option Nat} {e : Eff}
    (hs : stepMain nm sh p0 o = some (e, sh', p')) (ho : o.isSome = true) : NExc p' := by
  unfold stepMain at hs
  generalize settle p0 = p at hs
  dsimp only at hs
  split at hs <;> (try cases hs) <;> simp_all [NExc]

/-- A successful effect of the driver thread raises nothing. -/
theorem stepMain_nnoexc {nm : Nat} {sh sh' : St} {p0 p' : NProc} {o : Option Nat} {e : Eff}
    (hs : stepMain nm sh p0 o = some (e, sh', p')) (ho : o = none) (h : NNoExc p0) : NNoExc p' := by
  subst ho
  have hi := settle_nnoexc h
  unfold stepMain at hs
  generalize settle p0 = p at hs hi
  dsimp only at hs
  split at hs <;> (try cases hs) <;> simp_all [NNoExc]

/-- A step of the driver thread that is not a failing clean-up effect keeps `NClean`. -/
theorem stepMain_nclean {nm : Nat} {sh sh' : St} {p0 p' : NProc} {o : Option Nat} {e : Eff}
    (hs : stepMain nm sh p0 o = some (e, sh', p')) (h : NClean p0)
    (hok : o.isSome = true → e ≠ .removeTmp ∧ e ≠ .rmdirTmp) : NClean p' := by
  have hi := settle_nclean h
  unfold stepMain at hs
  generalize settle p0 = p at hs hi
  dsimp only at hs
  split at hs <;> (try cases hs) <;> simp_all [NClean, noTmp, apply, upd]

theorem settle1_failed (p : NProc) : (settle1 p).failed = p.failed := by unfold settle1; split <;> rfl

theorem start_failed (p : NProc) (w i : Nat) : (startIfIdle p w i).failed = p.failed := by
  unfold startIfIdle
  split
  · rfl
  · split <;> rfl

theorem doWk_failed (nm : Nat) (p : NProc) (x : Wk) (o : Option Nat) :
    (doWk nm p x o).failed = (o.isSome || p.failed) := by
  unfold doWk
  cases o with
  | some q => rfl
  | none =>
    simp only []
    split <;> simp

/-- A step of an inner worker: the driver thread is (still) inside the pool; the shard's `failed` flag is set iff
the effect failed or it was set before. -/
theorem stepWk_shape {nm : Nat} {p p' : NProc} {w i : Nat} {o : Option Nat} {e : Eff}
    (hs : stepWk nm p w i o = some (e, p')) :
    p'.pc = .pool ∧ (p.pc = .pool ∨ p.pc = .pre []) ∧ p'.failed = (o.isSome || p.failed) := by
  unfold stepWk at hs
  split at hs
  · rename_i hpc
    simp only [] at hs
    split at hs
    · rename_i x hfind
      simp only [Option.some.injEq, Prod.mk.injEq] at hs
      rcases hs with ⟨_, rfl⟩
      refine ⟨?_, ?_, ?_⟩
      · rw [(doWk_pc nm _ x o).1, (start_pc _ w i).1, hpc]
      · unfold settle1 at hpc
        split at hpc
        · right; assumption
        · left; exact hpc
      · rw [doWk_failed, start_failed, settle1_failed]
    · cases hs
  · cases hs

theorem stepWk_nexc {nm : Nat} {p p' : NProc} {w i : Nat} {o : Option Nat} {e : Eff}
    (hs : stepWk nm p w i o = some (e, p')) (h : NExc p) : NExc p' := by
  rcases stepWk_shape hs with ⟨h1, h2 | h2, h3⟩
  · simp only [NExc, h2] at h
    simp [NExc, h1, h3, h]
  · simp [NExc, h2] at h

theorem stepWk_fault {nm : Nat} {p p' : NProc} {w i : Nat} {o : Option Nat} {e : Eff}
    (hs : stepWk nm p w i o = some (e, p')) (ho : o.isSome = true) : NExc p' := by
  rcases stepWk_shape hs with ⟨h1, _, h3⟩
  simp [NExc, h1, h3, ho]

theorem stepWk_nnoexc {nm : Nat} {p p' : NProc} {w i : Nat} {o : Option Nat} {e : Eff}
    (hs : stepWk nm p w i o = some (e, p')) (ho : o = none) (h : NNoExc p) : NNoExc p' := by
  subst ho
  rcases stepWk_shape hs with ⟨h1, _, h3⟩
  exact ⟨by simpa [h.1] using h3, by simp [h1]⟩

theorem stepWk_nclean {nm : Nat} {p p' : NProc} {w i : Nat} {o : Option Nat} {e : Eff}
    (hs : stepWk nm p w i o = some (e, p')) : NClean p' := by
  simp [NClean, (stepWk_shape hs).1]

/-- One step of the two-level run changes one shard, by a step of its driver thread or of one of its workers. -/
theorem nstep_cases {nm : Nat} {c c' : NCSt} {pk : NPick} {e : Eff} (hs : nstep nm c pk = some (e, c')) :
    ∃ p', c'.procs = upd c.procs pk.k p' ∧
      (stepMain nm c.sh (c.procs pk.k) pk.fault = some (e, c'.sh, p') ∨
       (c'.sh = c.sh ∧ ∃ w, stepWk nm (c.procs pk.k) w pk.take pk.fault = some (e, p'))) := by
  unfold nstep at hs
  split at hs
  · split at hs
    · rename_i e' sh' p' hsm
      simp only [Option.some.injEq, Prod.mk.injEq] at hs
      rcases hs with ⟨rfl, rfl⟩
      exact ⟨p', rfl, Or.inl hsm⟩
    · cases hs
  · split at hs
    · rename_i e' p' hsw
      simp only [Option.some.injEq, Prod.mk.injEq] at hs
      rcases hs with ⟨rfl, rfl⟩
      exact ⟨p', rfl, Or.inr ⟨rfl, _, hsw⟩⟩
    · cases hs

/-- A property of single shards that every step of a thread of the shard keeps is kept by a step of the run. -/
theorem nstep_lift {nm : Nat} {c c' : NCSt} {pk : NPick} {e : Eff} {Q : NProc → Prop}
    (hs : nstep nm c pk = some (e, c')) (k : Nat) (hQ : Q (c.procs k))
    (hm : ∀ sh' p', stepMain nm c.sh (c.procs pk.k) pk.fault = some (e, sh', p') → Q (c.procs pk.k) → Q p')
    (hw : ∀ w p', stepWk nm (c.procs pk.k) w pk.take pk.fault = some (e, p') → Q (c.procs pk.k) → Q p') :
    Q (c'.procs k) := by
  rcases nstep_cases hs with ⟨p', hp, h⟩
  rw [hp]
  by_cases hk : k = pk.k
  · subst hk
    rw [upd_same]
    rcases h with h | ⟨_, w, h⟩
    · exact hm _ p' h hQ
    · exact hw w p' h hQ
  · rw [upd_ne _ _ hk]; exact hQ

/-- Generic invariant rule for a two-level schedule: `P` is kept by every step that satisfies `ok`. -/
theorem nrun_gen (nm : Nat) {P : NCSt → Prop} (ok : Eff → Bool → Bool)
    (hstep : ∀ c pk e c', P c → nstep nm c pk = some (e, c') → ok e pk.fault.isSome = true → P c') :
    ∀ (sched : List NPick) (c : NCSt), P c →
      (∀ st ∈ (nrun nm sched c).1, ok st.eff st.failed = true) → P (nrun nm sched c).2
  | [], c, hc, _ => by simpa [nrun] using hc
  | pk :: r, c, hc, hok => by
    cases hn : nstep nm c pk with
    | none =>
      simp only [nrun, hn] at hok ⊢
      exact nrun_gen nm ok hstep r c hc hok
    | some ec =>
      obtain ⟨e, c'⟩ := ec
      simp only [nrun, hn] at hok ⊢
      have h1 := hstep c pk e c' hc hn (hok ⟨pk.k, pk.w, e, pk.fault.isSome, c'⟩ (List.mem_cons_self ..))
      exact nrun_gen nm ok hstep r c' h1 (fun st hst => hok st (List.mem_cons_of_mem _ hst))

/-- An exception that is in flight in a shard stays with it to the end of the run. -/
theorem nrun_exc_persist (nm : Nat) (k : Nat) (sched : List NPick) (c : NCSt) (h : NExc (c.procs k)) :
    NExc ((nrun nm sched c).2.procs k) :=
  nrun_gen nm (P := fun c => NExc (c.procs k)) (fun _ _ => true)
    (fun _ _ _ _ hc hs _ => nstep_lift (Q := NExc) hs k hc (fun _ _ h hq => stepMain_nexc h hq)
      (fun _ _ h hq => stepWk_nexc h hq))
    sched c h (fun _ _ => rfl)

/-- A failed effect of any thread of a shard: the shard's save raises at the end of the run. -/
theorem nrun_failed_exc (nm : Nat) : ∀ (sched : List NPick) (c : NCSt),
    ∀ st ∈ (nrun nm sched c).1, st.failed = true → NExc ((nrun nm sched c).2.procs st.k)
  | [], _, st, hst, _ => by simp [nrun] at hst
  | pk :: r, c, st, hst, hf => by
    cases hn : nstep nm c pk with
    | none =>
      simp only [nrun, hn] at hst ⊢
      exact nrun_failed_exc nm r c st hst hf
    | some ec =>
      obtain ⟨e, c'⟩ := ec
      simp only [nrun, hn] at hst ⊢
      simp only [List.mem_cons] at hst
      rcases hst with rfl | hst
      · simp only at hf ⊢
        apply nrun_exc_persist nm pk.k r c'
        rcases nstep_cases hn with ⟨p', hp, h⟩
        rw [hp, upd_same]
        rcases h with h | ⟨_, w, h⟩
        · exact stepMain_fault h hf
        · exact stepWk_fault h hf
      · exact nrun_failed_exc nm r c' st hst hf

/-- No effect failed: nothing raised in any shard. -/
theorem nrun_nnoexc (nm : Nat) (sched : List NPick) (c : NCSt) (h : ∀ k, NNoExc (c.procs k))
    (hno : ∀ st ∈ (nrun nm sched c).1, st.failed = false) : ∀ k, NNoExc ((nrun nm sched c).2.procs k) :=
  nrun_gen nm (P := fun c => ∀ k, NNoExc (c.procs k)) (fun _ b => !b)
    (fun _ pk _ _ hc hs hok k => by
      have ho : pk.fault = none := by
        cases hf : pk.fault with
        | none => rfl
        | some q => simp [hf] at hok
      exact nstep_lift (Q := NNoExc) hs k (hc k)
        (fun _ _ h hq => stepMain_nnoexc h ho hq) (fun _ _ h hq => stepWk_nnoexc h ho hq))
    sched c h (fun st hst => by simp [hno st hst])

/-- No clean-up effect failed: `NClean` holds for every shard at the end. -/
theorem nrun_nclean (nm : Nat) (sched : List NPick) (c : NCSt) (h : ∀ k, NClean (c.procs k))
    (hcl : ∀ st ∈ (nrun nm sched c).1, st.failed = true → st.eff ≠ .removeTmp ∧ st.eff ≠ .rmdirTmp) :
    ∀ k, NClean ((nrun nm sched c).2.procs k) :=
  nrun_gen nm (P := fun c => ∀ k, NClean (c.procs k)) (fun e b => !b || (e != .removeTmp && e != .rmdirTmp))
    (fun _ pk e _ hc hs hok k =>
      nstep_lift (Q := NClean) hs k (hc k)
        (fun _ _ h hq => stepMain_nclean h hq (fun ho => by
          simp only [ho, Bool.not_true, Bool.false_or, Bool.and_eq_true, bne_iff_ne, ne_eq] at hok
          exact hok))
        (fun _ _ h _ => stepWk_nclean h))
    sched c h (fun st hst => by
      cases hf : st.failed with
      | false => rfl
      | true =>
        have := hcl st hst hf
        simp [this.1, this.2])

/-! ### The shared world of the two-level run, for ANY jobs (no `jobOk`) -/

/-- A step of the driver thread changes the shared world only by `os.replace`. -/
theorem stepMain_sh {nm : Nat} {sh sh' : St} {p0 p' : NProc} {o : Option Nat} {e : Eff}
    (hs : stepMain nm sh p0 o = some (e, sh', p')) :
    p'.job = p0.job ∧ (sh' = sh ∨ sh' = (publish p0.job.dest sh (settle p0).loc).1) := by
  have hj := settle_job p0
  unfold stepMain at hs
  generalize settle p0 = p at hs hj
  dsimp only at hs
  split at hs <;> (try cases hs) <;> simp_all

theorem stepWk_job {nm : Nat} {p p' : NProc} {w i : Nat} {o : Option Nat} {e : Eff}
    (hs : stepWk nm p w i o = some (e, p')) : p'.job = p.job := by
  unfold stepWk at hs
  split at hs
  · simp only [] at hs
    split at hs
    · simp only [Option.some.injEq, Prod.mk.injEq] at hs
      rcases hs with ⟨_, rfl⟩
      rw [(doWk_pc nm _ _ o).2, (start_pc _ w i).2, settle1_job]
    · cases hs
  · cases hs

theorem stepMain_done {nm : Nat} {sh : St} {p : NProc} {o : Option Nat} {b : Bool} (h : p.pc = .done b) :
    stepMain nm sh p o = none := by
  unfold stepMain settle settle1 settle2 settle3
  simp [h]

theorem stepWk_done {nm : Nat} {p : NProc} {w i : Nat} {o : Option Nat} {b : Bool} (h : p.pc = .done b) :
    stepWk nm p w i o = none := by
  unfold stepWk settle1
  simp [h]

/-- What holds of the shared world in every state of the two-level run, whatever the jobs are: files that
existed keep inode, bytes and mode; a caller name is what it was or a shard destination naming a new inode. -/
structure NShInv (jobs : List NJob) (s0 : St) (c : NCSt) : Prop where
  jobOf : ∀ k, (c.procs k).job = (initNProcs jobs k).job
  out : ∀ k, jobs.length ≤ k → (c.procs k).pc = .done false
  data : ∀ i, i < s0.fs.next → c.sh.fs.data i = s0.fs.data i
  mode : ∀ i, i < s0.fs.next → c.sh.fs.mode i = s0.fs.mode i
  next : s0.fs.next ≤ c.sh.fs.next
  named : ∀ p i, c.sh.fs.file p = some i → i < c.sh.fs.next
  each : ∀ n, c.sh.fs.file (.user n) = s0.fs.file (.user n) ∨
    ∃ j ∈ jobs, j.dest = n ∧ ∃ i, c.sh.fs.file (.user n) = some i ∧ s0.fs.next ≤ i
  valid : c.sh.valid = s0.valid
  mapped : c.sh.mapped = s0.mapped

theorem nshinv_init (jobs : List NJob) (s0 : St) (h0 : WF s0) : NShInv jobs s0 ⟨s0, initNProcs jobs⟩ where
  jobOf := fun _ => rfl
  out := fun k hk => by
    simp only [initNProcs]
    rw [List.getElem?_eq_none hk]
  data := fun _ _ => rfl
  mode := fun _ _ => rfl
  next := Nat.le_refl _
  named := h0.named
  each := fun _ => Or.inl rfl
  valid := rfl
  mapped := rfl

theorem nshinv_step (nm : Nat) (jobs : List NJob) (s0 : St) (c c' : NCSt) (pk : NPick) (e : Eff)
    (h : NShInv jobs s0 c) (hs : nstep nm c pk = some (e, c')) : NShInv jobs s0 c' := by
  rcases nstep_cases hs with ⟨p', hp, hcase⟩
  have hk : pk.k < jobs.length := by
    apply Nat.lt_of_not_le
    intro hle
    have hpc := h.out pk.k hle
    rcases hcase with h1 | ⟨_, w, h1⟩
    · rw [stepMain_done hpc] at h1; cases h1
    · rw [stepWk_done hpc] at h1; cases h1
  have hjm : (c.procs pk.k).job ∈ jobs := by rw [h.jobOf pk.k]; exact initNProcs_job_mem jobs pk.k hk
  have hj : p'.job = (c.procs pk.k).job := by
    rcases hcase with h1 | ⟨_, w, h1⟩
    · exact (stepMain_sh h1).1
    · exact stepWk_job h1
  have f1 : ∀ k', (c'.procs k').job = (initNProcs jobs k').job := by
    intro k'
    rw [hp]
    by_cases hkk : k' = pk.k
    · subst hkk; rw [upd_same, hj]; exact h.jobOf _
    · rw [upd_ne _ _ hkk]; exact h.jobOf k'
  have f2 : ∀ k', jobs.length ≤ k' → (c'.procs k').pc = .done false := by
    intro k' hk'
    have : k' ≠ pk.k := by omega
    rw [hp, upd_ne _ _ this]; exact h.out k' hk'
  have hsh : c'.sh = c.sh ∨ c'.sh = (publish (c.procs pk.k).job.dest c.sh (settle (c.procs pk.k)).loc).1 := by
    rcases hcase with h1 | ⟨h1, _⟩
    · exact (stepMain_sh h1).2
    · exact Or.inl h1
  clear hcase hs
  obtain ⟨sh', pr'⟩ := c'
  dsimp only at hsh f1 f2
  rcases hsh with hsh | hsh
  · subst hsh
    exact ⟨f1, f2, h.data, h.mode, h.next, h.named, h.each, h.valid, h.mapped⟩
  · unfold publish at hsh
    cases ht : (settle (c.procs pk.k)).loc.fs.file .tmpFile with
    | none =>
      simp only [ht] at hsh
      subst hsh
      exact ⟨f1, f2, h.data, h.mode, h.next, h.named, h.each, h.valid, h.mapped⟩
    | some t =>
      simp only [ht] at hsh
      subst hsh
      refine ⟨f1, f2, ?_, ?_, ?_, ?_, ?_, h.valid, h.mapped⟩
      · intro i hi'
        have := h.next
        have : i ≠ c.sh.fs.next := by omega
        simp [upd, this, h.data i hi']
      · intro i hi'
        have := h.next
        have : i ≠ c.sh.fs.next := by omega
        simp [upd, this, h.mode i hi']
      · have := h.next
        show s0.fs.next ≤ c.sh.fs.next + 1
        omega
      · intro p i hp'
        show i < c.sh.fs.next + 1
        simp only [upd] at hp'
        split at hp'
        · simp at hp'; omega
        · have := h.named p i hp'; omega
      · intro n
        by_cases hn : n = (c.procs pk.k).job.dest
        · right
          exact ⟨(c.procs pk.k).job, hjm, hn.symm, c.sh.fs.next, by simp [upd, hn], h.next⟩
        · rcases h.each n with ho | ⟨j, hj', hjd, i, hi', hlo⟩
          · left
            simpa [upd, hn] using ho
          · right
            exact ⟨j, hj', hjd, i, by simpa [upd, hn] using hi', hlo⟩

theorem nrun_shinv (nm : Nat) (jobs : List NJob) (s0 : St) (h0 : WF s0) (sched : List NPick) :
    NShInv jobs s0 (nrun nm sched ⟨s0, initNProcs jobs⟩).2 :=
  nrun_gen nm (P := NShInv jobs s0) (fun _ _ => true)
    (fun c pk e c' hc hs _ => nshinv_step nm jobs s0 c c' pk e hc hs)
    sched _ (nshinv_init jobs s0 h0) (fun _ _ => rfl)

end IrVerif.AtomicSave

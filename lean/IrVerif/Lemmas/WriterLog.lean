/-
C09 helper development: the callback log (`GInv`) and quiescence of finished states.
-/
import IrVerif.Lemmas.WriterLive
namespace IrVerif.Writer

/-- the progress callback of this tensor has been called -/
def pastCb : Pc → Bool
  | .notStarted | .tAcq | .cbAcq | .cbBody => false
  | _ => true

def called (s : State) (k : Nat) : Prop := ∃ p, s.tasks[k]? = some p ∧ pastCb p = true

structure GInv (s : State) : Prop where
  nodup : s.log.Nodup
  mem : ∀ k, k ∈ s.log ↔ called s k

theorem GInv_init (cfg : Cfg) : GInv (init cfg) := by
  refine ⟨by simp [init], fun k => ?_⟩
  simp only [init, List.not_mem_nil, called, false_iff]
  rintro ⟨p, hp, hc⟩
  simp [List.getElem?_replicate] at hp
  rw [← hp.2] at hc; simp [pastCb] at hc

theorem pastCb_wake (p : Pc) : pastCb (wake p) = pastCb p := by cases p <;> rfl

theorem called_set {s s' : State} {i : Nat} {p x : Pc} (hi : s.tasks[i]? = some p)
    (ht : s'.tasks = s.tasks.set i x) (hpx : pastCb x = pastCb p) (k : Nat) :
    called s' k ↔ called s k := by
  have hlt := getElem?_lt hi
  unfold called
  rw [ht]
  by_cases e : i = k
  · subst e
    have h1 : (s.tasks.set i x)[i]? = some x := by simp [hlt]
    constructor
    · rintro ⟨q, hq, hc⟩; rw [h1] at hq; cases hq; exact ⟨p, hi, by rw [← hpx]; exact hc⟩
    · rintro ⟨q, hq, hc⟩; rw [hi] at hq; cases hq; exact ⟨x, h1, by rw [hpx]; exact hc⟩
  · simp only [List.getElem?_set, e, if_false]

theorem called_finish {cfg : Cfg} {s : State} (hs : SInv cfg s) {i : Nat} {p : Pc} (ok : Bool)
    (hi : s.tasks[i]? = some p) (hp : act p = true) (k : Nat) :
    called (finishTask cfg s i ok) k ↔ (k = i ∨ called s k) := by
  have hlt := getElem?_lt hi
  have hpd : p ≠ .done true := act_ne_done hp
  unfold called
  rcases finishTask_cases cfg s i ok with ⟨rfl, hn, e⟩ | ⟨_, e⟩ <;> rw [e]
  · have hnext := hs.next_notStarted hi hpd hn
    have hl1 := getElem?_lt hnext
    by_cases e1 : i + 1 = k
    · subst e1
      have h1 : ((s.tasks.set i (.done true)).set (i + 1) .tAcq)[i + 1]? = some .tAcq := by
        simp [hl1]
      constructor
      · rintro ⟨q, hq, hc⟩; rw [h1] at hq; cases hq; simp [pastCb] at hc
      · rintro (h2 | ⟨q, hq, hc⟩)
        · omega
        · rw [hnext] at hq; cases hq; simp [pastCb] at hc
    · by_cases e2 : i = k
      · subst e2
        have h1 : ((s.tasks.set i (.done true)).set (i + 1) .tAcq)[i]? = some (.done true) := by
          simp [List.getElem?_set, hlt]
        exact ⟨fun _ => Or.inl rfl, fun _ => ⟨_, h1, rfl⟩⟩
      · have e3 : ¬ k = i := fun e => e2 e.symm
        simp only [List.getElem?_set, e1, e2, if_false, e3, false_or]
  · by_cases e2 : i = k
    · subst e2
      have h1 : (s.tasks.set i (.done ok))[i]? = some (.done ok) := by simp [hlt]
      exact ⟨fun _ => Or.inl rfl, fun _ => ⟨_, h1, rfl⟩⟩
    · have e3 : ¬ k = i := fun e => e2 e.symm
      simp only [List.getElem?_set, e2, if_false, e3, false_or]

theorem called_wake {s : State} (k : Nat) :
    called { s with tasks := s.tasks.map wake } k ↔ called s k := by
  unfold called
  simp only [List.getElem?_map, Option.map_eq_some_iff]
  constructor
  · rintro ⟨p, ⟨q, hq, rfl⟩, hp⟩; exact ⟨q, hq, by rw [pastCb_wake] at hp; exact hp⟩
  · rintro ⟨q, hq, hp⟩; exact ⟨wake q, ⟨q, hq, rfl⟩, by rw [pastCb_wake]; exact hp⟩

theorem GInv_step {cfg : Cfg} (wf : WF cfg) {s s' : State} {l : Label} (hs : SInv cfg s)
    (h : GInv s) (hst : StepRel cfg s l s') : GInv s' := by
  have frame : ∀ {s' : State}, s'.log = s.log → (∀ k, called s' k ↔ called s k) → GInv s' := by
    intro s' hl hc
    exact ⟨by rw [hl]; exact h.nodup, fun k => by rw [hl, hc]; exact h.mem k⟩
  cases hst with
  | submit c k hm hk => exact frame rfl (fun _ => Iff.rfl)
  | collect c j ok hm hj hf =>
      unfold collectOne
      cases ok
      · cases cfg.mode <;> exact frame rfl (fun _ => Iff.rfl)
      · simp only [if_true]; split <;> exact frame rfl (fun _ => Iff.rfl)
  | join c e hm he => exact frame rfl (fun _ => Iff.rfl)
  | take j q hq hidle =>
      have hj : j ∈ s.queue := by simp [hq]
      exact frame rfl (called_set (hs.start_notStarted wf hj) rfl rfl)
  | exit hq hsd hidle => exact frame rfl (fun _ => Iff.rfl)
  | cbAcq i hi hl => exact frame rfl (called_set hi rfl rfl)
  | cbFail i hi hf =>
      have hni : i ∉ s.log := by
        intro hin
        obtain ⟨p, hp, hc⟩ := (h.mem i).1 hin
        rw [hi] at hp; simp at hp; subst hp; simp [pastCb] at hc
      refine ⟨?_, fun k => ?_⟩
      · simp only [finishTask_log]
        exact List.nodup_append.2 ⟨h.nodup, by simp, by
          intro a ha b hb; simp at hb; subst hb; intro e; subst e; exact hni ha⟩
      · rw [called_finish (s := { s with log := s.log ++ [i], cbLock := false, tLocks := s.tLocks.set (cfg.obj i) false })
          (SInv_congr hs rfl rfl (by simp) rfl rfl) false hi rfl k]
        simp only [finishTask_log, List.mem_append, List.mem_cons, List.not_mem_nil, or_false]
        rw [h.mem k]
        constructor
        · rintro (h1 | h1)
          · exact Or.inr h1
          · exact Or.inl h1
        · rintro (h1 | h1)
          · exact Or.inr h1
          · exact Or.inl h1
  | cbOk i hi hf =>
      have hni : i ∉ s.log := by
        intro hin
        obtain ⟨p, hp, hc⟩ := (h.mem i).1 hin
        rw [hi] at hp; simp at hp; subst hp; simp [pastCb] at hc
      have hlt := getElem?_lt hi
      refine ⟨?_, fun k => ?_⟩
      · exact List.nodup_append.2 ⟨h.nodup, by simp, by
          intro a ha b hb; simp at hb; subst hb; intro e; subst e; exact hni ha⟩
      · simp only [List.mem_append, List.mem_cons, List.not_mem_nil, or_false]
        rw [h.mem k]
        unfold called
        by_cases e : i = k
        · subst e; simp [hlt, pastCb]
        · have e3 : ¬ k = i := fun e' => e e'.symm
          simp [List.getElem?_set, e, e3]
  | tAcq i hi hl => exact frame rfl (called_set hi rfl rfl)
  | bTry i p hi hp' =>
      rcases budgetTry_cases cfg s i with ⟨_, _, e⟩ | ⟨_, _, e⟩ | ⟨_, _, e⟩ | ⟨_, _, e⟩ <;> rw [e] <;>
        exact frame rfl (called_set hi rfl (by rcases hp' with rfl | rfl <;> rfl))
  | writeFail i hi hf => exact frame rfl (called_set hi rfl rfl)
  | writeOk i hi hf => exact frame rfl (called_set hi rfl rfl)
  | bRel i ok hi =>
      unfold budgetRelease
      refine frame (by simp) (fun k => ?_)
      rw [called_finish (p := .bRel ok) _ ok (by simp [hi, wake]) rfl k]
      · have : called { s with oversized := if cfg.size i > cfg.capacity then false else s.oversized
                               inFlight := if cfg.size i > cfg.capacity then s.inFlight else s.inFlight - cfg.size i
                               tasks := s.tasks.map wake
                               tLocks := s.tLocks.set (cfg.obj i) false } k ↔ called s k :=
          called_wake (s := s) k
        rw [this]
        constructor
        · rintro (rfl | h1)
          · exact ⟨_, hi, rfl⟩
          · exact h1
        · exact Or.inr
      · exact SInv_congr (s := { s with tasks := s.tasks.map wake }) (SInv_wake hs) rfl rfl
          (by simp) rfl rfl

/-- in a state with no running pool thread nothing is held -/
theorem quiet_of_no_act {cfg : Cfg} {s : State} (hl : LInv cfg s)
    (hna : ∀ (i : Nat) (p : Pc), s.tasks[i]? = some p → act p = false) :
    s.inFlight = 0 ∧ s.oversized = false ∧ s.cbLock = false ∧
      ∀ o, o < cfg.nObjs → s.tLocks.getD o false = false := by
  have z : ∀ f : Nat → Pc → Nat, (∀ i p, act p = false → f i p = 0) → wsum f 0 s.tasks = 0 :=
    fun f hf => wsum_eq_zero _ _ _ (by intro k q hk; simpa using hf k q (hna k q hk))
  have h1 := z (fReg cfg) (by intro i p hp; cases p <;> simp at hp <;> simp [fReg, holds])
  have h2 := z (fOver cfg) (by intro i p hp; cases p <;> simp at hp <;> simp [fOver, holds])
  have h3 := z fCb (by intro i p hp; cases p <;> simp at hp <;> simp [fCb])
  refine ⟨by rw [hl.reg, h1], ?_, ?_, fun o ho => ?_⟩
  · have := hl.over; rw [h2] at this; cases ho : s.oversized <;> simp [ho] at this ⊢
  · have := hl.cb; rw [h3] at this; cases hc : s.cbLock <;> simp [hc] at this ⊢
  · have h4 := z (fT cfg o) (by intro i p hp; cases p <;> simp at hp <;> simp [fT, inT])
    have := hl.tl o ho; rw [h4] at this
    simp only [List.getD_eq_getElem?_getD] at this ⊢
    cases hc : s.tLocks[o]?.getD false <;> simp [hc] at this ⊢

theorem no_act_of_wsum {s : State} (h : wsum fAct 0 s.tasks = 0) :
    ∀ (i : Nat) (p : Pc), s.tasks[i]? = some p → act p = false := by
  intro i p hi
  have := wsum_ge0 fAct s.tasks i p hi
  cases hp : act p
  · rfl
  · simp [fAct, hp] at this; omega

end IrVerif.Writer

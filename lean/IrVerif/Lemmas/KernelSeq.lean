/-
Kernel ↔ C11: the kernel's node-sequence operations, as pure list functions (`seqApply`), are the
abstract list operations that the pointer-level `LinkedSet` model refines (`C11_rep_toList`), and they are
what the kernel's graph calls do to `(w.gr g).nodes`.
-/
import IrVerif.Lemmas.KernelNode
import IrVerif.Props.C11
namespace IrVerif.Kernel
open IrVerif.LinkedSet

theorem idxOf?_eq_idxOf (l : List Nat) (a : Nat) :
    l.idxOf? a = if a ∈ l then some (l.idxOf a) else none := by
  induction l with
  | nil => simp
  | cons x xs ih =>
    simp only [List.idxOf?_cons, List.idxOf_cons, List.mem_cons, ih]
    by_cases h : x = a
    · subst h; simp
    · have h' : ¬ a = x := fun e => h e.symm
      have hb : (x == a) = false := by simp [h]
      simp [h', hb]

theorem insertIdx_eq_take_drop (l : List Nat) (p x : Nat) (h : p ≤ l.length) :
    l.insertIdx p x = l.take p ++ x :: l.drop p := by
  induction l generalizing p with
  | nil => simp at h; subst h; simp
  | cons a as ih =>
    cases p with
    | zero => simp
    | succ p => simp [List.insertIdx_succ_cons, ih p (by simpa using h)]

theorem eraseIdx_idxOf (l : List Nat) (x : Nat) : l.eraseIdx (l.idxOf x) = l.erase x :=
  (List.erase_eq_eraseIdx_of_idxOf rfl).symm

/-- the kernel's `_insert_one_after` on the abstract sequence is C11's -/
theorem spec_insertOneAfter (L : List Nat) (d : Dir) (c : Spec.ACur) (anchor : Option Nat) (x : Nat)
    (ha : ∀ a, anchor = some a → a ∈ L) :
    (Spec.insertOneAfter ⟨L, d, c⟩ anchor x).1.L = linkAfter L anchor x ∧
    (Spec.insertOneAfter ⟨L, d, c⟩ anchor x).2 = some x := by
  unfold Spec.insertOneAfter linkAfter
  by_cases hax : anchor = some x
  · have hx : x ∈ L := ha x hax
    simp [hax, hx]
  · simp only [hax, if_false, false_and]
    refine ⟨?_, by simp⟩
    have h1 : (if x ∈ L then Spec.removeIdx ⟨L, d, c⟩ (L.idxOf x) else ⟨L, d, c⟩).L = L.erase x := by
      split
      · simp [Spec.removeIdx, eraseIdx_idxOf]
      · rename_i hx; simp [List.erase_of_not_mem hx]
    simp only [Spec.insertIdx]
    cases anchor with
    | none => simp [insertAfter, h1]
    | some a =>
      have hne : a ≠ x := fun e => hax (by rw [e])
      have hal : a ∈ L.erase x := (List.mem_erase_of_ne hne).2 (ha a rfl)
      simp only [insertAfter, h1, idxOf?_eq_idxOf, hal, if_true]
      exact insertIdx_eq_take_drop _ _ _ (List.idxOf_lt_length_of_mem hal)

/-- `_insert_many_after` on the abstract sequence, with the kernel's `linkAfter` -/
def linkManyL (l : List Nat) (anchor : Option Nat) : List Nat → List Nat
  | [] => l
  | x :: xs => linkManyL (linkAfter l anchor x) (some x) xs

/-- the node-sequence operations of the kernel as pure list functions (what `graphAppend`,
`extendMut`, `linkMany`, `nodeUnlink` do to `(w.gr g).nodes`); `false` = the call is rejected -/
def seqApply (l : List Nat) : LinkedSet.Op → List Nat × Bool
  | .append v => (linkAfter l l.getLast? v, true)
  | .extend vs => (vs.foldl (fun l v => linkAfter l l.getLast? v) l, true)
  | .insertAfter a vs => if a ∈ l then (linkManyL l (some a) vs, true) else (l, false)
  | .insertBefore a vs => if a ∈ l then (linkManyL l (predOf l a) vs, true) else (l, false)
  | .remove v => if v ∈ l then (l.erase v, true) else (l, false)

theorem mem_linkAfter_self (l : List Nat) (a : Option Nat) (x : Nat) (h : l.Nodup) : x ∈ linkAfter l a x := by
  rw [mem_linkAfter _ _ _ _ h]; exact Or.inl rfl

theorem spec_insertManyAfter (d : Dir) : ∀ (xs : List Nat) (L : List Nat) (c : Spec.ACur) (anchor : Option Nat),
    L.Nodup → (∀ a, anchor = some a → a ∈ L) →
    (Spec.insertManyAfter ⟨L, d, c⟩ anchor xs).L = linkManyL L anchor xs
  | [], L, c, anchor, _, _ => rfl
  | x :: xs, L, c, anchor, hn, ha => by
    obtain ⟨h1, h2⟩ := spec_insertOneAfter L d c anchor x ha
    simp only [Spec.insertManyAfter, linkManyL]
    have e : (Spec.insertOneAfter ⟨L, d, c⟩ anchor x).1 =
        ⟨linkAfter L anchor x, d, (Spec.insertOneAfter ⟨L, d, c⟩ anchor x).1.c⟩ := by
      rw [← h1]
      have hd : (Spec.insertOneAfter ⟨L, d, c⟩ anchor x).1.d = d := by
        unfold Spec.insertOneAfter; split
        · rfl
        · simp only [Spec.insertIdx]; split <;> rfl
      cases hs : (Spec.insertOneAfter ⟨L, d, c⟩ anchor x).1 with
      | mk L' d' c' => rw [hs] at hd; simp at hd; subst hd; rfl
    rw [e, h2]
    exact spec_insertManyAfter d xs _ _ (some x) (nodup_linkAfter _ _ _ hn)
      (fun a ha' => by cases ha'; exact mem_linkAfter_self _ _ _ hn)

theorem getLast?_mem (l : List Nat) (a : Nat) (h : l.getLast? = some a) : a ∈ l :=
  List.mem_of_getLast? h

theorem spec_append (L : List Nat) (d : Dir) (c : Spec.ACur) (x : Nat) :
    (Spec.append ⟨L, d, c⟩ x).L = linkAfter L L.getLast? x ∧ (Spec.append ⟨L, d, c⟩ x).d = d := by
  unfold Spec.append
  refine ⟨(spec_insertOneAfter L d c L.getLast? x (fun a ha => getLast?_mem L a ha)).1, ?_⟩
  unfold Spec.insertOneAfter; split
  · rfl
  · simp only [Spec.insertIdx]; split <;> rfl

theorem spec_extend (d : Dir) : ∀ (xs : List Nat) (L : List Nat) (c : Spec.ACur),
    (Spec.extend ⟨L, d, c⟩ xs).L = xs.foldl (fun l v => linkAfter l l.getLast? v) L
  | [], _, _ => rfl
  | x :: xs, L, c => by
    obtain ⟨h1, h2⟩ := spec_append L d c x
    simp only [Spec.extend, List.foldl_cons]
    cases hs : Spec.append ⟨L, d, c⟩ x with
    | mk L' d' c' =>
      rw [hs] at h1 h2; simp at h1 h2; subst h1 h2
      exact spec_extend d' xs _ c'

theorem predOf_eq (L : List Nat) (a : Nat) (h : a ∈ L) : Spec.predOf L a = predOf L a := by
  unfold Spec.predOf predOf
  simp only [idxOf?_eq_idxOf, h, if_true]
  cases hi : L.idxOf a with
  | zero => simp
  | succ i => simp

theorem predOf_mem (L : List Nat) (a p : Nat) (h : predOf L a = some p) : p ∈ L := by
  unfold predOf at h
  split at h
  · exact List.mem_of_getElem? h
  · simp at h

/-- every node-sequence operation of the kernel, as a list function, is C11's abstract operation -/
theorem seqApply_eq_spec (L : List Nat) (hn : L.Nodup) (op : LinkedSet.Op) :
    (Spec.apply ⟨L, .fwd, .done⟩ op).1.L = (seqApply L op).1 ∧
    (Spec.apply ⟨L, .fwd, .done⟩ op).2 = (seqApply L op).2 := by
  cases op with
  | append v => exact ⟨(spec_append L _ _ v).1, rfl⟩
  | extend vs => exact ⟨spec_extend _ vs L _, rfl⟩
  | insertAfter a vs =>
    simp only [Spec.apply, Spec.insertAfter, seqApply]
    split
    · rename_i h
      exact ⟨spec_insertManyAfter _ vs L _ (some a) hn (fun b hb => by cases hb; exact h), rfl⟩
    · exact ⟨rfl, rfl⟩
  | insertBefore a vs =>
    simp only [Spec.apply, Spec.insertBefore, seqApply]
    split
    · rename_i h
      rw [predOf_eq L a h]
      exact ⟨spec_insertManyAfter _ vs L _ _ hn (fun b hb => predOf_mem L a b hb), rfl⟩
    · exact ⟨rfl, rfl⟩
  | remove v =>
    simp only [Spec.apply, Spec.remove, seqApply]
    split
    · simp [Spec.removeIdx, eraseIdx_idxOf]
    · exact ⟨rfl, rfl⟩

theorem nodup_map_of_injOn (f : Nat → Nat) : ∀ (l : List Nat), l.Nodup →
    (∀ a ∈ l, ∀ b ∈ l, f a = f b → a = b) → (l.map f).Nodup
  | [], _, _ => by simp
  | x :: xs, hn, hinj => by
    simp only [List.nodup_cons] at hn
    simp only [List.map_cons, List.nodup_cons, List.mem_map, not_exists, not_and]
    refine ⟨?_, nodup_map_of_injOn f xs hn.2 (fun a ha b hb => hinj a (List.mem_cons_of_mem _ ha) b (List.mem_cons_of_mem _ hb))⟩
    intro y hy e
    have := hinj y (List.mem_cons_of_mem _ hy) x (List.mem_cons_self) e
    subst this; exact hn.1 hy

theorem toList_nodup {s : LSet} (h : LinkedSet.WF s) : (toList s).Nodup := by
  obtain ⟨bs, hi⟩ := h
  rw [hi.toList_eq]
  apply nodup_map_of_injOn _ _ hi.nodup
  intro a ha b hb hab
  exact hi.val_inj ha hb (hi.val_eq_vl ha) (by rw [hab]; exact hi.val_eq_vl hb)


/-! ### what the kernel's graph calls do to the node sequence -/

/-- only names / authority state change: node membership data is untouched -/
def SameSeq (w w' : World) : Prop :=
  (∀ g, (w'.gr g).nodes = (w.gr g).nodes) ∧ (∀ n, (w'.node n).graph = (w.node n).graph)

theorem SameSeq.refl (w : World) : SameSeq w w := ⟨fun _ => rfl, fun _ => rfl⟩
theorem SameSeq.trans {a b c : World} (h1 : SameSeq a b) (h2 : SameSeq b c) : SameSeq a c :=
  ⟨fun g => (h2.1 g).trans (h1.1 g), fun n => (h2.2 n).trans (h1.2 n)⟩

theorem registerValue_sameSeq (w : World) (g v : Nat) : SameSeq w (registerValue w g v) := by
  unfold registerValue
  split
  · constructor
    · intro g'; simp; split <;> simp_all
    · intro n; rfl
  · simp only []
    split
    · constructor
      · intro g'; simp; split <;> simp_all
      · intro n; rfl
    · constructor
      · intro g'; rw [setNamePlain_gr]; simp; split <;> simp_all
      · intro n; rw [setNamePlain_node]; rfl

theorem registerNode_sameSeq (w : World) (g n : Nat) : SameSeq w (registerNode w g n) := by
  unfold registerNode
  split
  · constructor
    · intro g'; simp; split <;> simp_all
    · intro m; rfl
  · simp only []
    constructor
    · intro g'; simp; split <;> simp_all
    · intro m; simp; split <;> simp_all

theorem foldl_sameSeq {β : Type} (f : World → β → World) (hf : ∀ a b, SameSeq a (f a b)) :
    ∀ (l : List β) (w : World), SameSeq w (l.foldl f w)
  | [], w => SameSeq.refl w
  | b :: l, w => (hf w b).trans (foldl_sameSeq f hf l (f w b))

theorem assignNames_sameSeq (w : World) (g n : Nat) : SameSeq w (assignNames w g n) :=
  (registerNode_sameSeq w g n).trans (foldl_sameSeq _ (fun a b => registerValue_sameSeq a g b) _ _)

theorem nodeAddable_congr {w w' : World} (h : SameSeq w w') (g n : Nat) : nodeAddable w' g n = nodeAddable w g n := by
  simp [nodeAddable, h.2 n]

/-- one `_insert_one_after` of the kernel: names first, then the link -/
theorem link_step (w : World) (g : Nat) (anchor : Option Nat) (n : Nat) (ha : nodeAddable w g n = true) :
    ((nodeLink (assignNames w g n) g anchor n).gr g).nodes = linkAfter (w.gr g).nodes anchor n ∧
    (∀ m, nodeAddable w g m = true → nodeAddable (nodeLink (assignNames w g n) g anchor n) g m = true) := by
  have hs := assignNames_sameSeq w g n
  have ha' : nodeAddable (assignNames w g n) g n = true := by rw [nodeAddable_congr hs]; exact ha
  unfold nodeLink
  simp only [ha', if_true]
  constructor
  · simp [hs.1 g]
  · intro m hm
    have hm' : nodeAddable (assignNames w g n) g m = true := by rw [nodeAddable_congr hs]; exact hm
    simp [nodeAddable] at hm' ⊢
    split
    · simp
    · exact hm'

theorem guardOp_fst (bad : Bool) (kind : String) (w w' : World) (h : bad = false) :
    (guardOp bad kind w w').1 = w' := by
  unfold guardOp; simp [h]; split <;> rfl

theorem addable_of_acceptable {w : World} {g n : Nat} (h : nodeAcceptable w g n = true) :
    nodeAddable w g n = true := by
  simp [nodeAcceptable] at h; exact h.1

theorem nodes_graphAppend (w : World) (g n : Nat) (ha : nodeAcceptable w g n = true) :
    ((graphAppend w g n).1.gr g).nodes = (seqApply (w.gr g).nodes (.append n)).1 := by
  unfold graphAppend
  rw [guardOp_fst _ _ _ _ (by simp [ha])]
  exact (link_step w g _ n (addable_of_acceptable ha)).1

theorem nodes_extendMut (g : Nat) : ∀ (ns : List Nat) (w : World), (∀ n ∈ ns, nodeAddable w g n = true) →
    ((extendMut w g ns).gr g).nodes = ns.foldl (fun l v => linkAfter l l.getLast? v) (w.gr g).nodes
  | [], _, _ => rfl
  | n :: ns, w, h => by
    obtain ⟨h1, h2⟩ := link_step w g (w.gr g).nodes.getLast? n (h n List.mem_cons_self)
    simp only [extendMut, List.foldl_cons]
    have := nodes_extendMut g ns _ (fun m hm => h2 m (h m (List.mem_cons_of_mem _ hm)))
    simp only [extendMut] at this
    rw [this, h1]

theorem nodes_graphExtend (w : World) (g : Nat) (ns : List Nat) (ha : ns.all (nodeAcceptable w g) = true) :
    ((graphExtend w g ns).1.gr g).nodes = (seqApply (w.gr g).nodes (.extend ns)).1 := by
  unfold graphExtend
  rw [guardOp_fst _ _ _ _ (by simp [ha])]
  exact nodes_extendMut g ns w (fun n hn => addable_of_acceptable ((List.all_eq_true.1 ha) n hn))

theorem nodes_linkMany (g : Nat) : ∀ (ns : List Nat) (w : World) (anchor : Option Nat),
    (∀ n ∈ ns, nodeAddable w g n = true) →
    ((linkMany w g anchor ns).gr g).nodes = linkManyL (w.gr g).nodes anchor ns
  | [], _, _, _ => rfl
  | n :: ns, w, anchor, h => by
    obtain ⟨h1, h2⟩ := link_step w g anchor n (h n List.mem_cons_self)
    have := nodes_linkMany g ns _ (some n) (fun m hm => h2 m (h m (List.mem_cons_of_mem _ hm)))
    simp only [linkMany, List.foldl_cons, linkManyL] at this ⊢
    rw [this, h1]

theorem nodes_graphInsertAfter (w : World) (hw : I_node w) (g a : Nat) (ns : List Nat)
    (ha : (w.node a).graph = some g) (hns : ns.all (nodeAcceptable w g) = true) :
    ((graphInsertAfter w g a ns).1.gr g).nodes = (seqApply (w.gr g).nodes (.insertAfter a ns)).1 := by
  have hmem : a ∈ (w.gr g).nodes := (hw.mem a g).1 ha
  unfold graphInsertAfter
  rw [guardOp_fst _ _ _ _ (by simp [ha, hns])]
  simp only [seqApply, hmem, if_true]
  exact nodes_linkMany g ns w _ (fun n hn => addable_of_acceptable ((List.all_eq_true.1 hns) n hn))

theorem nodes_graphInsertBefore (w : World) (hw : I_node w) (g a : Nat) (ns : List Nat)
    (ha : (w.node a).graph = some g) (hns : ns.all (nodeAcceptable w g) = true) :
    ((graphInsertBefore w g a ns).1.gr g).nodes = (seqApply (w.gr g).nodes (.insertBefore a ns)).1 := by
  have hmem : a ∈ (w.gr g).nodes := (hw.mem a g).1 ha
  unfold graphInsertBefore
  rw [guardOp_fst _ _ _ _ (by simp [ha, hns])]
  simp only [seqApply, hmem, if_true]
  exact nodes_linkMany g ns w _ (fun n hn => addable_of_acceptable ((List.all_eq_true.1 hns) n hn))

/-- removing one node (`Graph.remove(n)`, not `safe`) -/
theorem nodes_graphRemove_one (w : World) (hw : I_node w) (g n : Nat) (ha : (w.node n).graph = some g) :
    ((graphRemove w g [n] false).1.gr g).nodes = (seqApply (w.gr g).nodes (.remove n)).1 := by
  have hmem : n ∈ (w.gr g).nodes := (hw.mem n g).1 ha
  unfold graphRemove
  rw [guardOp_fst _ _ _ _ (by simp [ha])]
  simp [seqApply, hmem, ha, nodeUnlink, dedup]

end IrVerif.Kernel

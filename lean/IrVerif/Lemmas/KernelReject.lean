/-
Kernel: the rejection reasons of C06 as decidable conditions on (world, call), and the histories with their
outcome lists (`outcomesAny`).  Used by the wave-6 corollaries `C06_rejects_*` / `C06_retry` in `Props/C06.lean`.
Every lemma here is about the validation half of a call: when the rejecting condition holds, `guardOp` returns the
world it was given.
-/
import IrVerif.Lemmas.KernelOps
namespace IrVerif.Kernel

/-- the place a call offers a value for: tracked graph inputs, tracked graph outputs, the initializer mapping -/
inductive Slot where
  | inp
  | out
  | init
  deriving DecidableEq, Repr

def Slot.ofKind : IOKind → Slot
  | .inp => .inp
  | .out => .out

def offeredIO (g : Nat) (k : IOKind) : IOMut → List (Nat × Slot × Nat)
  | .append v => [(g, .ofKind k, v)]
  | .extend vs => vs.map (fun v => (g, .ofKind k, v))
  | .insert _ v => [(g, .ofKind k, v)]
  | .setItem _ v => [(g, .ofKind k, v)]
  | .setSlice _ _ _ vs => vs.map (fun v => (g, .ofKind k, v))
  | _ => []

def offeredInit (w : World) (g : Nat) : InitMut → List (Nat × Slot × Nat)
  | .setItem _ v => [(g, .init, v)]
  | .add v => [(g, .init, v)]
  | .register v => [(g, .init, v)]
  | .setdefault key v => if (lookupInit (w.gr g).inits key).isSome then [] else [(g, .init, v)]
  | _ => []

/-- every (graph, slot, value) a single call offers for ownership: the mutators of the tracked input / output
lists, of the initializer mapping (`update` is not listed: its entries are checked by a dry run, `C06_atomic`),
`Graph(inputs, outputs, initializers=…)` (the graph being created is `w.graphs.length`; the initializers as the
dict the constructor builds), and `Value.replace_all_uses_with` on an output of graph `g` (the replacement
becomes an output of `g`) -/
def offered (w : World) : Op → List (Nat × Slot × Nat)
  | .io g k m => offeredIO g k m
  | .init g m => offeredInit w g m
  | .newGraph ins outs _ inits =>
    ins.map (fun v => (w.graphs.length, Slot.inp, v)) ++ outs.map (fun v => (w.graphs.length, Slot.out, v)) ++
      (initDict w inits).map (fun p => (w.graphs.length, Slot.init, p.2))
  | .rauw v r _ =>
    if (w.val v).isOut then
      match (w.val v).graph with
      | some g => [(g, Slot.out, r)]
      | none => []
    else []
  | _ => []

/-- `v` is owned by a graph other than `g` -/
def foreignTo (w : World) (g v : Nat) : Bool :=
  decide ((w.val v).graph ≠ none ∧ (w.val v).graph ≠ some g)

/-- `v` is the output of a node -/
def produced (w : World) (v : Nat) : Bool := decide ((w.val v).producer ≠ none)

/-- the ownership checks of the three slots (for the initializer mapping: the part of `initOK` that does not
depend on the key) -/
def slotOK (w : World) (g : Nat) : Slot → Nat → Bool
  | .inp, v => checkIO w g .inp v
  | .out, v => checkIO w g .out v
  | .init, v => decide ((w.val v).producer = none) &&
      (decide ((w.val v).graph = none) || decide ((w.val v).graph = some g))

theorem slotOK_ofKind (w : World) (g : Nat) (k : IOKind) (v : Nat) :
    slotOK w g (.ofKind k) v = checkIO w g k v := by cases k <;> rfl

theorem initOK_of_slot (w : World) (g : Nat) (key : String) (v : Nat) (h : slotOK w g .init v = false) :
    initOK w g key v = false := by
  simp only [slotOK, initOK] at h ⊢
  revert h
  cases decide ((w.val v).producer = none) <;> cases decide ((w.val v).graph = none) <;>
    cases decide ((w.val v).graph = some g) <;> simp

theorem slotOK_foreign (w : World) (g : Nat) (s : Slot) (v : Nat) (h : foreignTo w g v = true) :
    slotOK w g s v = false := by
  simp only [foreignTo, decide_eq_true_eq] at h
  cases s <;> simp [slotOK, checkIO, h.1, h.2]

theorem slotOK_produced (w : World) (g : Nat) (s : Slot) (v : Nat) (hs : s ≠ .out) (h : produced w v = true) :
    slotOK w g s v = false := by
  simp only [produced, decide_eq_true_eq] at h
  cases s <;> simp_all [slotOK, checkIO]

theorem all_false_of_mem {α : Type} (l : List α) (p : α → Bool) (a : α) (ha : a ∈ l) (hp : p a = false) :
    l.all p = false := by
  rw [List.all_eq_false]; exact ⟨a, ha, by simp [hp]⟩

theorem ioMut_rejects (w : World) (g : Nat) (k : IOKind) (m : IOMut)
    (h : ∃ p ∈ offeredIO g k m, slotOK w p.1 p.2.1 p.2.2 = false) : ∃ kd, ioMut w g k m = (w, .raised kd) := by
  obtain ⟨⟨g', s, v⟩, hm, hp⟩ := h
  cases m <;> simp only [offeredIO, List.mem_singleton, List.mem_map, Prod.mk.injEq, List.not_mem_nil] at hm
  case append v' =>
    obtain ⟨rfl, rfl, rfl⟩ := hm
    rw [slotOK_ofKind] at hp
    exact ⟨"ValueError", by simp [ioMut, guardOp, hp]⟩
  case insert i v' =>
    obtain ⟨rfl, rfl, rfl⟩ := hm
    rw [slotOK_ofKind] at hp
    exact ⟨"ValueError", by simp [ioMut, guardOp, hp]⟩
  case setItem i v' =>
    obtain ⟨rfl, rfl, rfl⟩ := hm
    rw [slotOK_ofKind] at hp
    exact ⟨"IndexError|ValueError", by simp [ioMut, guardOp, hp]⟩
  case extend vs =>
    obtain ⟨v', hv', rfl, rfl, rfl⟩ := hm
    rw [slotOK_ofKind] at hp
    have := all_false_of_mem vs (checkIO w _ k) _ hv' hp
    exact ⟨"ValueError", by simp only [ioMut, guardOp, this, Bool.not_false, ↓reduceIte]⟩
  case setSlice a b c vs =>
    obtain ⟨v', hv', rfl, rfl, rfl⟩ := hm
    rw [slotOK_ofKind] at hp
    have := all_false_of_mem vs (checkIO w _ k) _ hv' hp
    simp only [ioMut]
    split
    · exact ⟨_, rfl⟩
    · exact ⟨"ValueError", by simp only [guardOp, this, Bool.not_false, Bool.true_or, ↓reduceIte]⟩

theorem initMut_rejects (w : World) (g : Nat) (m : InitMut)
    (h : ∃ p ∈ offeredInit w g m, slotOK w p.1 p.2.1 p.2.2 = false) : ∃ kd, initMut w g m = (w, .raised kd) := by
  obtain ⟨⟨g', s, v⟩, hm, hp⟩ := h
  cases m <;> simp only [offeredInit, List.mem_singleton, Prod.mk.injEq, List.not_mem_nil] at hm
  case setItem key v' =>
    obtain ⟨rfl, rfl, rfl⟩ := hm
    exact ⟨"ValueError", by simp [initMut, initSetItem, guardOp, initOK_of_slot _ _ _ _ hp]⟩
  case add v' =>
    obtain ⟨rfl, rfl, rfl⟩ := hm
    exact ⟨"TypeError|ValueError", by simp [initMut, guardOp, initOK_of_slot _ _ _ _ hp]⟩
  case register v' =>
    obtain ⟨rfl, rfl, rfl⟩ := hm
    exact ⟨"ValueError", by simp [initMut, guardOp, initOK_of_slot _ _ _ _ hp]⟩
  case setdefault key v' =>
    split at hm
    · simp at hm
    · rename_i hpres
      simp only [List.mem_singleton, Prod.mk.injEq] at hm
      obtain ⟨rfl, rfl, rfl⟩ := hm
      have hpres' : (lookupInit (w.gr g').inits key).isSome = false := by simpa using hpres
      exact ⟨"ValueError", by simp [initMut, guardOp, hpres', initOK_of_slot _ _ _ _ hp]⟩

/-- a call that offers a value to a slot whose ownership check refuses it is rejected with the world untouched -/
theorem step_rejects_offered (w : World) (op : Op)
    (h : ∃ p ∈ offered w op, slotOK w p.1 p.2.1 p.2.2 = false) : ∃ kd, step w op = (w, .raised kd) := by
  cases op <;> simp only [offered, List.not_mem_nil, false_and, exists_false] at h
  case io g k m => exact ioMut_rejects w g k m h
  case init g m => exact initMut_rejects w g m h
  case newGraph ins outs nodes inits =>
    obtain ⟨⟨g', s, v⟩, hm, hp⟩ := h
    simp only [List.mem_append, List.mem_map, Prod.mk.injEq] at hm
    rcases hm with (⟨v', hv', rfl, rfl, rfl⟩ | ⟨v', hv', rfl, rfl, rfl⟩) | ⟨p, hp', rfl, rfl, rfl⟩
    · have := all_false_of_mem ins (checkIO w w.graphs.length .inp) _ hv' hp
      exact ⟨"ValueError", by simp only [step, newGraph, guardOp, this, Bool.not_false, Bool.true_or, ↓reduceIte]⟩
    · have := all_false_of_mem outs (checkIO w w.graphs.length .out) _ hv' hp
      exact ⟨"ValueError", by simp only [step, newGraph, guardOp, this, Bool.not_false, Bool.true_or, Bool.or_true, ↓reduceIte]⟩
    · have := all_false_of_mem (initDict w inits) (fun p => initOK w w.graphs.length p.1 p.2) _ hp'
        (initOK_of_slot _ _ _ _ hp)
      exact ⟨"ValueError", by simp only [step, newGraph, guardOp, this, Bool.not_false, Bool.true_or, Bool.or_true, ↓reduceIte]⟩
  case rauw v r rgo =>
    obtain ⟨⟨g', s, v'⟩, hm, hp⟩ := h
    split at hm
    · rename_i hout
      split at hm
      · rename_i g hg
        simp only [List.mem_singleton, Prod.mk.injEq] at hm
        obtain ⟨rfl, rfl, rfl⟩ := hm
        have hp' : checkIO w g' .out v' = false := hp
        exact ⟨"ValueError", by simp [step, rauw, guardOp, hout, hg, hp']⟩
      · simp at hm
    · simp at hm

/-! ### nodes -/

/-- every (graph, node) a call offers for membership -/
def offeredNodes (w : World) : Op → List (Nat × Nat)
  | .append g n => [(g, n)]
  | .extend g ns => ns.map (fun n => (g, n))
  | .insertAfter g _ ns => ns.map (fun n => (g, n))
  | .insertBefore g _ ns => ns.map (fun n => (g, n))
  | .newGraph _ _ ns _ => ns.map (fun n => (w.graphs.length, n))
  | _ => []

/-- every (graph, node) a call requires to be a member already: the anchor of an insertion, the nodes to remove -/
def requiredMembers : Op → List (Nat × Nat)
  | .insertAfter g a _ => [(g, a)]
  | .insertBefore g a _ => [(g, a)]
  | .remove g ns _ => ns.map (fun n => (g, n))
  | _ => []

/-- `n` belongs to a graph other than `g` -/
def foreignNode (w : World) (g n : Nat) : Bool :=
  decide ((w.node n).graph ≠ none ∧ (w.node n).graph ≠ some g)

def notMember (w : World) (g n : Nat) : Bool := decide ((w.node n).graph ≠ some g)

theorem nodeAcceptable_foreign (w : World) (g n : Nat) (h : foreignNode w g n = true) :
    nodeAcceptable w g n = false := by
  simp only [foreignNode, decide_eq_true_eq] at h
  simp [nodeAcceptable, nodeAddable, h.1, h.2]

theorem any_true_of_mem {α : Type} (l : List α) (p : α → Bool) (a : α) (ha : a ∈ l) (hp : p a = true) :
    l.any p = true := by
  rw [List.any_eq_true]; exact ⟨a, ha, hp⟩

theorem step_rejects_node (w : World) (op : Op)
    (h : (∃ p ∈ offeredNodes w op, foreignNode w p.1 p.2 = true) ∨
         (∃ p ∈ requiredMembers op, notMember w p.1 p.2 = true)) :
    step w op = (w, .raised "ValueError") := by
  rcases h with ⟨⟨g', n⟩, hm, hp⟩ | ⟨⟨g', n⟩, hm, hp⟩
  · have hacc := nodeAcceptable_foreign w g' n hp
    cases op <;> simp only [offeredNodes, List.mem_singleton, List.mem_map, Prod.mk.injEq, List.not_mem_nil] at hm
    case append g n' =>
      obtain ⟨rfl, rfl⟩ := hm
      simp [step, graphAppend, guardOp, hacc]
    case extend g ns =>
      obtain ⟨n', hn', rfl, rfl⟩ := hm
      have := all_false_of_mem ns (nodeAcceptable w _) _ hn' hacc
      simp only [step, graphExtend, guardOp, this, Bool.not_false, ↓reduceIte]
    case insertAfter g a ns =>
      obtain ⟨n', hn', rfl, rfl⟩ := hm
      have := all_false_of_mem ns (nodeAcceptable w _) _ hn' hacc
      simp only [step, graphInsertAfter, guardOp, this, Bool.not_false, Bool.or_true, ↓reduceIte]
    case insertBefore g a ns =>
      obtain ⟨n', hn', rfl, rfl⟩ := hm
      have := all_false_of_mem ns (nodeAcceptable w _) _ hn' hacc
      simp only [step, graphInsertBefore, guardOp, this, Bool.not_false, Bool.or_true, ↓reduceIte]
    case newGraph ins outs ns inits =>
      obtain ⟨n', hn', rfl, rfl⟩ := hm
      have := all_false_of_mem ns (nodeAcceptable w _) _ hn' hacc
      simp only [step, newGraph, guardOp, this, Bool.not_false, Bool.true_or, Bool.or_true, ↓reduceIte]
  · simp only [notMember, decide_eq_true_eq] at hp
    cases op <;> simp only [requiredMembers, List.mem_singleton, List.mem_map, Prod.mk.injEq, List.not_mem_nil] at hm
    case insertAfter g a ns =>
      obtain ⟨rfl, rfl⟩ := hm
      simp [step, graphInsertAfter, guardOp, hp]
    case insertBefore g a ns =>
      obtain ⟨rfl, rfl⟩ := hm
      simp [step, graphInsertBefore, guardOp, hp]
    case remove g ns safe =>
      obtain ⟨n', hn', rfl, rfl⟩ := hm
      have := any_true_of_mem ns
        (fun n => decide ((w.node n).graph ≠ some g) || (safe && unsafeToRemove w g ns n)) _ hn' (by simp [hp])
      simp only [step, graphRemove, guardOp]
      rw [if_pos]
      simpa using this

/-! ### histories with their outcome lists -/

/-- the outcome of every call of a history run from `w` -/
def outcomesFrom (w : World) : List AnyOp → List Outcome
  | [] => []
  | o :: os => (stepAny w o).2 :: outcomesFrom (stepAny w o).1 os

/-- the outcome list of a history from the empty world (what the caller of the library sees call by call) -/
def outcomesAny (ops : List AnyOp) : List Outcome := outcomesFrom World.empty ops

def runFrom (w : World) (ops : List AnyOp) : World := ops.foldl (fun w o => (stepAny w o).1) w

theorem runAny_eq (ops : List AnyOp) : runAny ops = runFrom World.empty ops := rfl

theorem runFrom_append (w : World) (a b : List AnyOp) : runFrom w (a ++ b) = runFrom (runFrom w a) b := by
  simp [runFrom, List.foldl_append]

theorem outcomesFrom_append (a b : List AnyOp) : ∀ w : World,
    outcomesFrom w (a ++ b) = outcomesFrom w a ++ outcomesFrom (runFrom w a) b := by
  induction a with
  | nil => intro w; rfl
  | cons o os ih => intro w; simp [outcomesFrom, runFrom, ih]

theorem outcomesFrom_length (ops : List AnyOp) : ∀ w : World, (outcomesFrom w ops).length = ops.length := by
  induction ops with
  | nil => intro w; rfl
  | cons o os ih => intro w; simp [outcomesFrom, ih]

theorem runFrom_WF (ops : List AnyOp) : ∀ w : World, WF w → WF (runFrom w ops) := by
  induction ops with
  | nil => intro w h; exact h
  | cons o os ih => intro w h; exact ih _ (stepAny_WF w o h)

theorem runAny_WF (ops : List AnyOp) : WF (runAny ops) := runFrom_WF ops _ WF_empty

/-- the calls C06 claims all-or-nothing: every single call, `rename_values`, and the multi-pair
`replace_all_uses_with` as /repo has it since fix D82 (the other composites are sequences of public calls) -/
def atomicCall : AnyOp → Bool
  | .one _ => true
  | .conv (.renameValues _ _) => true
  | .conv (.rauwManyExact _ _ _) => true
  | _ => false

/-! ### the dict `Graph(initializers=…)` builds has the key `""` as soon as one initializer has no name -/

theorem dictSet_key_mem (d : List (String × Nat)) (k : String) (v : Nat) : ∃ p ∈ dictSet d k v, p.1 = k := by
  unfold dictSet
  split
  · rename_i h
    rw [List.any_eq_true] at h
    obtain ⟨q, hq, hk⟩ := h
    exact ⟨(k, v), List.mem_map.mpr ⟨q, hq, by simp_all⟩, rfl⟩
  · exact ⟨(k, v), by simp, rfl⟩

theorem dictSet_key_keep (d : List (String × Nat)) (k k' : String) (v : Nat) (h : ∃ p ∈ d, p.1 = k') :
    ∃ p ∈ dictSet d k v, p.1 = k' := by
  obtain ⟨q, hq, hk⟩ := h
  unfold dictSet
  split
  · by_cases hqk : q.1 = k
    · exact ⟨(k, v), List.mem_map.mpr ⟨q, hq, by simp [hqk]⟩, by simp [← hk, hqk]⟩
    · exact ⟨q, List.mem_map.mpr ⟨q, hq, by simp [hqk]⟩, hk⟩
  · exact ⟨q, by simp [hq], hk⟩

theorem initDict_fold_key (w : World) (k : String) : ∀ (vs : List Nat) (d : List (String × Nat)),
    ((∃ p ∈ d, p.1 = k) ∨ ∃ v ∈ vs, (w.val v).name.getD "" = k) →
    ∃ p ∈ vs.foldl (fun d v => dictSet d ((w.val v).name.getD "") v) d, p.1 = k := by
  intro vs
  induction vs with
  | nil => intro d h; rcases h with h | ⟨v, hv, _⟩
           · exact h
           · cases hv
  | cons a as ih =>
    intro d h
    simp only [List.foldl_cons]
    apply ih
    rcases h with h | ⟨v, hv, hk⟩
    · exact Or.inl (dictSet_key_keep _ _ _ _ h)
    · rcases List.mem_cons.mp hv with rfl | hv
      · exact Or.inl (hk ▸ dictSet_key_mem _ _ _)
      · exact Or.inr ⟨v, hv, hk⟩

theorem initDict_empty_key (w : World) (vs : List Nat) (v : Nat) (hv : v ∈ vs) (h : falsy (w.val v).name = true) :
    ∃ p ∈ initDict w vs, p.1 = "" := by
  apply initDict_fold_key
  refine Or.inr ⟨v, hv, ?_⟩
  unfold falsy at h
  cases hn : (w.val v).name with
  | none => rfl
  | some s => simp [hn] at h; simp [h]

theorem newGraph_rejects_unnamed (w : World) (ins outs ns inits : List Nat) (v : Nat) (hv : v ∈ inits)
    (h : falsy (w.val v).name = true) : newGraph w ins outs ns inits = (w, .raised "ValueError") := by
  obtain ⟨p, hp, hk⟩ := initDict_empty_key w inits v hv h
  have := all_false_of_mem (initDict w inits) (fun p => initOK w w.graphs.length p.1 p.2) p hp
    (by simp [initOK, hk])
  simp only [newGraph, guardOp, this, Bool.not_false, Bool.true_or, Bool.or_true, ↓reduceIte]

end IrVerif.Kernel

/-
Arithmetic lemmas for C16: `Rat.floor` of an integer quotient is Python's floor division, sign
rules of Python's modulo, floor / ceiling / trunc bounds.
-/
import IrVerif.Model.SymExpr
import Mathlib.Data.Rat.Floor
namespace IrVerif.SymExpr

theorem fmod_bounds_neg (a : Int) {b : Int} (hb : b < 0) : b < Int.fmod a b ∧ Int.fmod a b ≤ 0 := by
  rw [Int.fmod_eq_emod]
  have h1 := Int.emod_nonneg a (Int.ne_of_lt hb)
  have h2 := Int.emod_lt_of_neg a hb
  by_cases hd : b ∣ a
  · have : a % b = 0 := Int.emod_eq_zero_of_dvd hd
    simp [hd, this]; omega
  · have : a % b ≠ 0 := fun h => hd (Int.dvd_of_emod_eq_zero h)
    have hnb : ¬ (0 ≤ b) := by omega
    simp [hd, hnb]; omega

/-- `floor (a / b)` over the rationals is Python's `a // b` on integers. -/
theorem floor_div_int (a b : Int) (hb : b ≠ 0) : ((a : Rat) / (b : Rat)).floor = Int.fdiv a b := by
  have key : ⌊(a : ℚ) / (b : ℚ)⌋ = Int.fdiv a b := by
    rw [Int.floor_eq_iff]
    have hq : (b : ℚ) * (Int.fdiv a b : ℚ) + (Int.fmod a b : ℚ) = a := by
      exact_mod_cast Int.mul_fdiv_add_fmod a b
    have hbq : (b : ℚ) ≠ 0 := by exact_mod_cast hb
    rcases lt_or_gt_of_ne hb with hneg | hpos
    · obtain ⟨h1, h2⟩ := fmod_bounds_neg a hneg
      have h1q : (b : ℚ) < (Int.fmod a b : ℚ) := by exact_mod_cast h1
      have h2q : (Int.fmod a b : ℚ) ≤ 0 := by exact_mod_cast h2
      have hbneg : (b : ℚ) < 0 := by exact_mod_cast hneg
      constructor
      · rw [le_div_iff_of_neg hbneg]; nlinarith
      · rw [div_lt_iff_of_neg hbneg]; nlinarith
    · have h1 := Int.fmod_nonneg_of_pos a hpos
      have h2 := Int.fmod_lt_of_pos a hpos
      have h1q : (0 : ℚ) ≤ (Int.fmod a b : ℚ) := by exact_mod_cast h1
      have h2q : (Int.fmod a b : ℚ) < (b : ℚ) := by exact_mod_cast h2
      have hbpos : (0 : ℚ) < (b : ℚ) := by exact_mod_cast hpos
      constructor
      · rw [le_div_iff₀ hbpos]; nlinarith
      · rw [div_lt_iff₀ hbpos]; nlinarith
  exact key


theorem floor_intCast' (a : Int) : ((a : Rat)).floor = a := by
  have : ⌊((a : ℤ) : ℚ)⌋ = a := Int.floor_intCast a
  exact this

theorem floor_le' (x : Rat) : ((x.floor : Int) : Rat) ≤ x := by
  have : ((⌊x⌋ : ℤ) : ℚ) ≤ x := Int.floor_le x
  exact this

theorem lt_floor_add_one' (x : Rat) : x < ((x.floor : Int) : Rat) + 1 := by
  have : x < ((⌊x⌋ : ℤ) : ℚ) + 1 := Int.lt_floor_add_one x
  exact this

/-- `trunc` rounds toward zero: it is `floor` on the non-negative side -/
theorem ratTrunc_of_nonneg {x : Rat} (hx : 0 ≤ x) : ratTrunc x = x.floor := by
  have hn : 0 ≤ x.num := Rat.num_nonneg.mpr hx
  rw [ratTrunc, Rat.floor_def, Int.tdiv_eq_ediv_of_nonneg hn]

/-- and the ceiling `-floor(-x)` on the non-positive side -/
theorem ratTrunc_of_nonpos {x : Rat} (hx : x ≤ 0) : ratTrunc x = -((-x).floor) := by
  have hn : 0 ≤ (-x).num := Rat.num_nonneg.mpr (by linarith)
  have h1 : (-x).num = -x.num := Rat.num_neg_eq_neg_num x
  have h2 : (-x).den = x.den := Rat.den_neg_eq_den x
  rw [ratTrunc, Rat.floor_def, h1, h2]
  rw [h1] at hn
  rw [← Int.tdiv_eq_ediv_of_nonneg hn, Int.neg_tdiv, neg_neg]

/-- what `SymbolicDim.__trunc__` builds, `sign(x) * floor(Abs(x))`, is truncation toward zero -/
theorem sign_mul_floor_abs (x : Rat) : ratSign x * (((ratAbs x).floor : Int) : Rat) = ((ratTrunc x : Int) : Rat) := by
  unfold ratSign ratAbs
  by_cases h : x < 0
  · simp only [h, if_true]
    rw [ratTrunc_of_nonpos (le_of_lt h)]
    push_cast; ring
  · have h0 : 0 ≤ x := not_lt.mp h
    simp only [h, if_false]
    by_cases hz : x = 0
    · subst hz; simp [ratTrunc]
    · simp only [hz, if_false]
      rw [ratTrunc_of_nonneg h0]; ring

end IrVerif.SymExpr

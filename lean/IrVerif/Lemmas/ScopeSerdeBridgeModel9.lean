import IrVerif.Lemmas.ScopeSerdeBridgeModel3
import IrVerif.Model.ScopeSerdeBridgeModel9
import IrVerif.Lemmas.ScopeFunc9Post
/-!
The C02 bridge for models in the IR version < 10 format, part 1: the two models parse / format the experimental names
alike, and the mapping of one function is C02's `experimentalFor`.
-/
namespace IrVerif.Bridge
open IrVerif.Proto IrVerif.Serde

/-! ## parse / format -/

theorem isPrefixL_eq_isPrefixOf : ∀ (a b : List Char), Scope.isPrefixL a b = a.isPrefixOf b
  | [], _ => by simp [Scope.isPrefixL]
  | _ :: _, [] => by simp [Scope.isPrefixL]
  | a :: as, b :: bs => by simp [Scope.isPrefixL, isPrefixL_eq_isPrefixOf as bs, List.isPrefixOf]

theorem splitFirstL_eq_partitionChars (sep : List Char) : ∀ l : List Char,
    Scope.splitFirstL sep l = Serde.partitionChars sep l
  | [] => rfl
  | c :: cs => by
    simp only [Scope.splitFirstL, Serde.partitionChars, isPrefixL_eq_isPrefixOf,
      splitFirstL_eq_partitionChars sep cs]
    split
    · rfl
    · cases Serde.partitionChars sep cs with
      | none => rfl
      | some ab => rfl

theorem splitFirst_eq_partitionStr (sep s : String) : Scope.splitFirst sep s = Serde.partitionStr sep s := by
  simp only [Scope.splitFirst, Serde.partitionStr, splitFirstL_eq_partitionChars]
  cases Serde.partitionChars sep.toList s.toList with
  | none => rfl
  | some ab => rfl

/-- both models split at the first "::", then at the first "/" -/
theorem parseExp_eq_parseExperimentalName (name : String) :
    Scope.parseExp name = Serde.parseExperimentalName name := by
  simp only [Scope.parseExp, Serde.parseExperimentalName, splitFirst_eq_partitionStr]
  cases Serde.partitionStr "::" name with
  | none => rfl
  | some p =>
    obtain ⟨d, rest⟩ := p
    simp only
    cases Serde.partitionStr "/" rest with
    | none => rfl
    | some q => rfl

theorem formatExp_eq_experimentalName (d n v : String) : Scope.formatExp d n v = Serde.experimentalName d n v := rfl

/-! ## the mapping of one function -/

theorem expEntries_overload (fids : List Scope.FId) (vi : List Scope.VInfoP) (k : Scope.FId)
    (h : k.overload ≠ "") : Scope.expEntriesFor fids vi k = [] := by
  simp only [Scope.expEntriesFor]
  rw [List.filterMap_eq_nil_iff]
  intro e _
  split
  · rfl
  · rename_i d f v _
    have : ¬ ((⟨d, f, ""⟩ : Scope.FId) = k) := by
      intro e; rw [← e] at h; exact h rfl
    simp [this]

theorem tbl_lookup (fids : List Scope.FId) (d nm : String) (hc : fids.contains ⟨d, nm, ""⟩ = true) (n : String) :
    ∀ V : List ValueInfoP,
    (Scope.expEntriesFor fids (V.map absVI) ⟨d, nm, ""⟩).reverse.lookup n
      = (findLast? (fun e => e.1 = n) (experimentalFor V d nm)).map (fun e => absInfo e.2)
  | [] => rfl
  | v :: V => by
    have ih := tbl_lookup fids d nm hc n V
    have hname : (absVI v).name = v.name := rfl
    have hinfo : (absVI v).info = absInfo v := rfl
    cases hp : parseExperimentalName v.name with
    | none =>
      have e1 : Scope.expEntriesFor fids ((v :: V).map absVI) ⟨d, nm, ""⟩
          = Scope.expEntriesFor fids (V.map absVI) ⟨d, nm, ""⟩ := by
        simp [Scope.expEntriesFor, hname, parseExp_eq_parseExperimentalName, hp]
      have e2 : experimentalFor (v :: V) d nm = experimentalFor V d nm := by
        simp [experimentalFor, hp]
      rw [e1, e2, ih]
    | some x =>
      obtain ⟨d', n', vn'⟩ := x
      by_cases hcc : d' = d ∧ n' = nm
      · obtain ⟨rfl, rfl⟩ := hcc
        have hc' : (⟨d', n', ""⟩ : Scope.FId) ∈ fids := by simpa using hc
        have e1 : Scope.expEntriesFor fids ((v :: V).map absVI) ⟨d', n', ""⟩
            = (vn', absInfo v) :: Scope.expEntriesFor fids (V.map absVI) ⟨d', n', ""⟩ := by
          simp [Scope.expEntriesFor, hname, hinfo, parseExp_eq_parseExperimentalName, hp, hc']
        have e2 : experimentalFor (v :: V) d' n' = (vn', v) :: experimentalFor V d' n' := by
          simp [experimentalFor, hp]
        rw [e1, e2, List.reverse_cons, List.lookup_append, ih]
        simp only [findLast?]
        cases findLast? (fun e => decide (e.1 = n)) (experimentalFor V d' n') with
        | some y => simp
        | none =>
          simp only [Option.map_none, Option.none_or, List.lookup_cons, List.lookup_nil]
          by_cases hx : vn' = n
          · subst hx; simp
          · have : (n == vn') = false := by simp [Ne.symm hx]
            simp [this, hx]
      · have e1 : Scope.expEntriesFor fids ((v :: V).map absVI) ⟨d, nm, ""⟩
            = Scope.expEntriesFor fids (V.map absVI) ⟨d, nm, ""⟩ := by
          have : ¬ ((⟨d', n', ""⟩ : Scope.FId) = ⟨d, nm, ""⟩) := by
            intro e; simp only [Scope.FId.mk.injEq, and_true] at e; exact hcc e
          simp [Scope.expEntriesFor, hname, parseExp_eq_parseExperimentalName, hp, hcc]
        have e2 : experimentalFor (v :: V) d nm = experimentalFor V d nm := by
          simp [experimentalFor, hp, hcc]
        rw [e1, e2, ih]

/-- under `noEmptyExp` no function value with the empty name is addressed -/
theorem experimentalFor_noEmpty (V : List ValueInfoP) (h : noEmptyExp V = true) (d nm : String) :
    findLast? (fun e => e.1 = "") (experimentalFor V d nm) = none := by
  have hall : ∀ e ∈ experimentalFor V d nm, e.1 ≠ "" := by
    intro e he
    simp only [experimentalFor, List.mem_filterMap] at he
    obtain ⟨vi, hvi, hh⟩ := he
    have := List.all_eq_true.1 h vi hvi
    split at hh
    · rename_i d' n' vn hp
      rw [hp] at this
      split at hh
      · cases hh; simpa using this
      · cases hh
    · cases hh
  generalize experimentalFor V d nm = L at hall
  induction L with
  | nil => rfl
  | cons a L ih =>
    simp only [findLast?, ih (fun e he => hall e (List.mem_cons_of_mem _ he))]
    simp [hall a (by simp)]

end IrVerif.Bridge

/-
Every model WITH FUNCTIONS the extended deserializer returns satisfies the source-side certificate of the device
configurations `DevCertM` (`Lemmas/ScopeExtFuncDevDefs.lean`).

* `deser_dev_func`: one function run satisfies `DevCertF`: the table of the certificate is the table of the run (as
  in `deser_ext_func`), the node list is certified by `deser_dev_nodes` (`Lemmas/ScopeExtDevCert.lean`);
* `deser_dev_all_funcs`: the fold over all functions (duplicate identifiers included, as `deser_ext_all_funcs`): the
  names / cells of the values and the device configurations of the nodes of a function are kept by the later runs;
* `deserializeME_devCert`.
-/
import IrVerif.Lemmas.ScopeExtFuncDeser
import IrVerif.Lemmas.ScopeExtDevCert
import IrVerif.Lemmas.ScopeExtFuncDevDefs
namespace IrVerif.Scope

/-- one function run satisfies the certificate of the device configurations of a function body -/
theorem deser_dev_func (f : FuncE) (st : Store) (x : Ext) (st' : Store) (x' : Ext) (g : GraphT)
    (hf : Fresh st) (h : deserFunctionE st x f = .ok (st', x', g)) :
    ∀ (V : Nat → ValueS) (X : Ext), NamesAgree V st' → (∀ v, st.nv ≤ v → v < st'.nv → CellAgree V st' v) →
      (∀ k, k < st'.nn → X.devs k = x'.devs k) → DevCertF V X g := by
  intro V X hV hC hX
  simp only [deserFunctionE] at h
  obtain ⟨a, b⟩ := deserFInputsE_erase (vinfoTableE f.vinfo) f.inputs st x
  obtain ⟨hids, hnv1, hf1, _, _⟩ := deserFInputs_spec (eraseVT (vinfoTableE f.vinfo)) f.inputs st
  obtain ⟨hnl, _⟩ := deserFInputs_named (eraseVT (vinfoTableE f.vinfo)) f.inputs st
  have ok1 := finputTable_ok (eraseVT (vinfoTableE f.vinfo)) f.inputs st
  have f1 := hf1 hf
  rw [← a] at hnv1 f1 hnl ok1
  rw [← b] at hids hnl ok1
  generalize deserFInputsE st x (vinfoTableE f.vinfo) f.inputs = r1 at h hids hnv1 f1 hnl ok1
  obtain ⟨st1, x1, ins⟩ := r1
  simp only at h hids hnv1 f1 hnl ok1
  have n1 : Named st1 (finputTable f.inputs ins) := by
    intro e he
    simp only [finputTable, List.mem_reverse] at he
    exact zip_map_eq (fun v => (st1.vals v).name) some f.inputs ins hnl e he
  have le1 : st.nv ≤ st1.nv := by rw [hnv1]; omega
  split at h
  · simp at h
  · rename_i st2 x2 tbl2 h2
    have e2 := declareNodesE_erase (vinfoTableE f.vinfo) [] f.nodes st1 x1 (finputTable f.inputs ins)
    rw [h2] at e2
    simp only [dropX] at e2
    obtain ⟨q3, ok3, _, m3, _⟩ := declareNodes_spec _ _ st1 _ st.nv st2 tbl2 ok1 le1 e2.symm
    have f2 := q3.fresh f1
    have n2 := declareNodes_named _ _ st1 _ st2 tbl2 n1 ok1.lt e2.symm
    have le2 : st.nv ≤ st2.nv := Nat.le_trans le1 q3.nv_le
    have hol : TablesLt st2 [] := fun _ ht => by simp at ht
    split at h
    · simp at h
    · rename_i st3 x3 tbl3 ns h3
      have e3 := deserNodesE_erase f.nodes st2 x2 tbl2 [] (vinfoTableE f.vinfo) []
      rw [h3] at e3
      simp only [dropX] at e3
      obtain ⟨_, m4, _, _⟩ := deserNodes_struct _ st2 tbl2 [] _ st.nv st3 tbl3 ns f2 ok3 hol le2 e3.symm
      split at h
      · simp at h
      · rename_i outs _
        simp only [Except.ok.injEq, Prod.mk.injEq] at h
        obtain ⟨rfl, rfl, rfl⟩ := h
        obtain ⟨c1, c2, _⟩ := mkGraph_fst_counters st3 ins outs ns []
        have hcell := mkGraph_cell st3 ins outs ns []
        rw [c1] at hC
        rw [c2] at hX
        rw [mkGraph_snd]
        have hV3 : NamesAgree V st3 := fun v hv => by rw [hV v (by rw [c1]; exact hv), hcell]
        have hV2 : NamesAgree V st2 := fun v hv => by rw [hV3 v (Nat.lt_of_lt_of_le hv m4.nv_le), m4.names v hv]
        have hV1 : NamesAgree V st1 := fun v hv => by rw [hV2 v (Nat.lt_of_lt_of_le hv q3.nv_le), q3.names v hv]
        have hC3 : ∀ v, st.nv ≤ v → v < st3.nv → CellAgree V st3 v := fun v h1 h2 => by
          have := hC v h1 h2
          rw [CellAgree, hcell] at this
          exact this
        -- inputs: the table of the certificate is the table of the run
        have hinsV : ins.map (fun v => (V v).name) = f.inputs.map some := by
          rw [← hnl]
          apply List.map_congr_left
          intro v hv
          have hvlt : v < st1.nv := by
            rw [hids, List.mem_range'_1] at hv
            rw [hnv1]; omega
          exact hV1 v hvlt
        have E1 : tblIns V ins = finputTable f.inputs ins := by
          have h2' : f.inputs = ins.map (nm V) := by
            have := congrArg (List.map (fun o : Option Name => o.getD "")) hinsV
            rw [List.map_map, List.map_map] at this
            have e1 : List.map ((fun o : Option Name => o.getD "") ∘ some) f.inputs = f.inputs := by
              have : ((fun o : Option Name => o.getD "") ∘ some) = id := rfl
              rw [this, List.map_id]
            rw [e1] at this
            exact this.symm
          simp only [tblIns, finputTable]
          congr 1
          have key : ∀ (l : List Nat), (l.map (nm V)).zip l = l.map fun v => (nm V v, v) := by
            intro l
            induction l with
            | nil => rfl
            | cons a r ih => simp [ih]
          rw [h2', key]
        -- nodes
        have hdeclared : ∀ n ∈ eraseNs f.nodes, ∀ y ∈ n.outputs, y ≠ "" → ∃ u, tbl2.lookup y = some u := by
          intro n hn y hy hne
          obtain ⟨_, v, hv, _⟩ := m3 y (by
            simp only [outNames, List.mem_filter, List.mem_flatMap]
            exact ⟨⟨n, hn, hy⟩, by simpa using hne⟩)
          exact ⟨v, hv⟩
        obtain ⟨_, _, _, rn4⟩ := deser_repl_nodes (eraseNs f.nodes) st2 tbl2 [] (eraseVT (vinfoTableE f.vinfo)) st.nv
          st3 tbl3 ns f2 ok3 hol le2 n2 (fun _ hT => by simp at hT) e3.symm hdeclared V hV3
          (fun v hge hlt _ => hC3 v (Nat.le_trans le2 hge) hlt)
        obtain ⟨rd1, _, _, _⟩ := repl_declareNodes V (eraseVT (vinfoTableE f.vinfo)) tbl2 (eraseNs f.nodes) st1 _ st2
          tbl2 e2.symm hV2 (fun _ _ h => h)
        have hlive : (ns.flatMap (liveOuts V)).filter (fun v => nameTruthy (V v).name) =
            (eraseNs f.nodes).flatMap (fun n => declared tbl2 n.outputs) := by
          rw [List.filter_flatMap]
          exact flatMap_congr_map rn4
        obtain ⟨df1, _, _⟩ := replDecl_filter V (ns.flatMap (liveOuts V)) (finputTable f.inputs ins)
        rw [hlive] at df1
        simp only [DevCertF, flatMap_liveOuts_setGraph, DevCertNs_setGraph, E1, df1, rd1]
        exact deser_dev_nodes f.nodes st2 x2 tbl2 [] (vinfoTableE f.vinfo) [] st.nv st3 x3 tbl3 ns f2 ok3 hol le2 n2
          (fun _ hT => by simp at hT) h3 hdeclared V X hV3
          (fun v hge hlt _ => hC3 v (Nat.le_trans le2 hge) hlt) hX

/-- the fold over ALL functions of the proto (the dict keeps a sub-family of their bodies): every body is
    certified with respect to the final store and extension state -/
theorem deser_dev_all_funcs :
    ∀ (fps : List FuncE) (st : Store) (x : Ext) (d0 : List (FId × GraphT)) (st' : Store) (x' : Ext)
      (d' : List (FId × GraphT)),
      Fresh st → deserFuncsE st x d0 fps = .ok (st', x', d') →
      st.nv ≤ st'.nv ∧ st.nn ≤ st'.nn ∧ (∀ k, k < st.nn → x'.devs k = x.devs k) ∧
      ∀ (V : Nat → ValueS) (X : Ext), NamesAgree V st' → (∀ v, st.nv ≤ v → v < st'.nv → CellAgree V st' v) →
        (∀ k, k < st'.nn → X.devs k = x'.devs k) →
        ∃ all, d' = fdictFold d0 all ∧ all.map (·.1) = fps.map (·.id) ∧ ∀ f ∈ all, DevCertF V X f.2
  | [], st, x, d0, st', x', d', _, h => by
    simp only [deserFuncsE, Except.ok.injEq, Prod.mk.injEq] at h
    obtain ⟨rfl, rfl, rfl⟩ := h
    exact ⟨Nat.le_refl _, Nat.le_refl _, fun _ _ => rfl, fun _ _ _ _ _ => ⟨[], rfl, rfl, by simp⟩⟩
  | f :: fps, st, x, d0, st', x', d', hf, h => by
    simp only [deserFuncsE] at h
    split at h
    · simp at h
    · rename_i st1 x1 g h1
      have e1 := deserFunctionE_erase f st x
      rw [h1] at e1
      simp only [dropX] at e1
      obtain ⟨f1, le1, _, _⟩ := deserFunction_frame f.erase st st1 g hf e1.symm
      obtain ⟨_, fr1, nn1⟩ := deserFunctionE_devX f st x st1 x1 g hf h1
      have e2 := deserFuncsE_erase fps st1 x1 (fdictInsert d0 f.id g)
      rw [h] at e2
      simp only [dropXF] at e2
      obtain ⟨_, le2, keep2, p2, _⟩ := deser_all_funcs (fps.map FuncE.erase) st1 _ st' d' f1 e2.symm
      obtain ⟨_, nn2, fr2, rest⟩ := deser_dev_all_funcs fps st1 x1 _ st' x' d' f1 h
      refine ⟨Nat.le_trans le1 le2, Nat.le_trans nn1 nn2,
        fun k hk => by rw [fr2 k (Nat.lt_of_lt_of_le hk nn1), fr1 k hk], fun V X hV hC hX => ?_⟩
      have hV1 : NamesAgree V st1 := fun v hv => by rw [hV v (Nat.lt_of_lt_of_le hv le2), keep2 v hv]
      have a1 := deser_dev_func f st x st1 x1 g hf h1 V X hV1
        (fun v hge hlt => by
          have := hC v hge (Nat.lt_of_lt_of_le hlt le2)
          rw [CellAgree, (p2.cell v hlt).1, (p2.cell v hlt).2] at this
          exact this)
        (fun k hk => by rw [hX k (Nat.lt_of_lt_of_le hk nn2), fr2 k hk])
      obtain ⟨all, k1, k2, k3⟩ := rest V X hV (fun v hge hlt => hC v (Nat.le_trans le1 hge) hlt) hX
      refine ⟨(f.id, g) :: all, by rw [k1]; rfl, by simp [k2], fun f' hf' => ?_⟩
      simp only [List.mem_cons] at hf'
      rcases hf' with rfl | hf'
      · exact a1
      · exact k3 f' hf'

/-- **every model with functions the extended deserializer returns satisfies the certificate of the device
    configurations** (no hypothesis on the identifiers of the functions) -/
theorem deserializeME_devCert (p : ModelE) (w : MWorldE) (h : deserializeME p = .ok w) : DevCertM w := by
  simp only [deserializeME] at h
  split at h
  · simp at h
  · rename_i st x g hg
    split at h
    · simp at h
    · rename_i st1 x1 fs hfs
      simp only [Except.ok.injEq] at h
      subst h
      have e0 := deserGraphE_erase p.graph {} {} []
      rw [hg] at e0
      simp only [dropX] at e0
      obtain ⟨f0, _⟩ := deserGraph_struct _ {} [] st g (fun _ _ => rfl) (fun _ ht => by simp at ht) e0.symm
      have e2 := deserFuncsE_erase p.funcs st x []
      rw [hfs] at e2
      simp only [dropXF] at e2
      obtain ⟨_, le1, keep1, p1, _⟩ := deser_all_funcs (p.funcs.map FuncE.erase) st [] st1 fs f0 e2.symm
      obtain ⟨_, _, fr, rest⟩ := deser_dev_all_funcs p.funcs st x [] st1 x1 fs f0 hfs
      obtain ⟨all, ea, _, eb⟩ := rest st1.vals x1 (fun _ _ => rfl) (fun _ _ _ => ⟨rfl, rfl⟩) (fun _ _ => rfl)
      refine ⟨?_, fun f hf => ?_⟩
      · exact deser_dev_graph p.graph {} {} [] st x g (fun _ _ => rfl) (fun _ ht => by simp at ht)
          (fun _ ht => by simp at ht) hg st1.vals x1 (fun v hv => keep1 v hv)
          (fun v _ hlt => ⟨(p1.cell v hlt).1, (p1.cell v hlt).2⟩) (fun k hk => fr k hk)
      · subst ea
        rcases fdictFold_mem all [] f hf with ⟨f', hf', _⟩ | ⟨f', hf', e⟩
        · simp at hf'
        · exact e ▸ eb f' hf'

end IrVerif.Scope

/-
Helper lemmas for the C04 theorems about `Model/TensorRepr.lean`: facts about the element-type
tables, decoding of little-endian buffers, complex pairs, file slices, and the definition of a
*legal* representation of a logical tensor.  Core Lean only.
-/
import IrVerif.Model.TensorRepr
import IrVerif.Lemmas.Pack
namespace IrVerif.TensorRepr
open IrVerif.Pack

/-! ### element-type table facts (finite, by evaluation) -/

theorem ofCode_code (d : DType) : DType.ofCode d.code = some d := by cases d <;> rfl

structure Facts (d : DType) (bw : Nat) : Prop where
  pack4 : d.bytePack4 = true ↔ bw = 4
  pack2 : d.bytePack2 = true ↔ bw = 2
  sub : d.extSubByte = true ↔ (bw = 4 ∨ bw = 2)
  item : bw = 2 ∨ bw = 4 ∨ bw = 8 * npItemBytes d
  item1 : bw = 2 ∨ bw = 4 → npItemBytes d = 1
  np : d.npName.isSome = true
  range : bw = 2 ∨ bw = 4 ∨ bw = 8 ∨ bw = 16 ∨ bw = 32 ∨ bw = 64 ∨ bw = 128
  i32 : d.int32Legal = true → bw ≤ 32 ∧ (d.int32Bytes16 = true ↔ bw = 16) ∧
        (d.int32Bytes8 = true ↔ (bw = 8 ∨ bw = 4 ∨ bw = 2)) ∧ (d = .int32 ↔ bw = 32)
  torch : d.torchMapped = true → bw ≠ 4
  w64 : d = .int64 ∨ d = .uint64 ∨ d = .double ∨ d = .complex64 → bw = 64
  w32 : d = .uint32 ∨ d = .float → bw = 32
  w128 : d = .complex128 → bw = 128
  nundef : d ≠ .undefined
  nstr : d ≠ .string

theorem facts (d : DType) (bw : Nat) (h : d.bitwidth = some bw) : Facts d bw := by
  have hb : bw = (d.bitwidth).getD 0 := by simp [h]
  subst hb
  cases d <;> first | (constructor <;> decide) | (exfalso; revert h; decide)

/-! ### decoding little-endian buffers -/

theorem fromLE_nil (w : Nat) : fromLE w [] = [] := by
  rw [fromLE]; simp

theorem fromLE_cons (w : Nat) (hw : 0 < w) (x : Nat) (hx : x < 256 ^ w) (rest : List Nat) :
    fromLE w (leBytes w x ++ rest) = x :: fromLE w rest := by
  rw [fromLE]
  have hl := leBytes_length w x
  have hc : ¬ (w = 0 ∨ ((leBytes w x ++ rest).take w).length < w) := by
    rw [List.take_left' hl, hl]; omega
  rw [dif_neg hc, List.take_left' hl, List.drop_left' hl, ofLeBytes_leBytes w x hx]

/-- `np.frombuffer` of the little-endian items returns the items -/
theorem fromLE_flatMap (w : Nat) (hw : 0 < w) (xs : List Nat) (h : ∀ x ∈ xs, x < 256 ^ w) :
    fromLE w (xs.flatMap (leBytes w)) = xs := by
  induction xs with
  | nil => simpa using fromLE_nil w
  | cons x xs ih =>
    rw [List.flatMap_cons, fromLE_cons w hw x (h x (by simp)), ih (fun y hy => h y (by simp [hy]))]

theorem fromBuffer_flatMap (w : Nat) (hw : 0 < w) (xs : List Nat) (h : ∀ x ∈ xs, x < 256 ^ w) :
    fromBuffer w (xs.flatMap (leBytes w)) = .ok xs := by
  have hw0 : w ≠ 0 := by omega
  have hl : (xs.flatMap (leBytes w)).length % w = 0 := by
    rw [flatMap_leBytes_length]; exact Nat.mul_mod_left _ _
  simp only [fromBuffer, hw0, if_false, hl, if_true, fromLE_flatMap w hw xs h]

/-! ### complex pairs -/

/-- the float fields of a complex tensor: real part, imaginary part, ... -/
def splitParts (hb : Nat) (xs : List Nat) : List Nat :=
  xs.flatMap (fun x => [x % 2 ^ hb, x / 2 ^ hb])

theorem pairUp_splitParts (hb : Nat) (xs : List Nat) : pairUp hb (splitParts hb xs) = .ok xs := by
  induction xs with
  | nil => rfl
  | cons x xs ih =>
    simp only [splitParts, List.flatMap_cons, List.cons_append, List.nil_append] at *
    simp only [pairUp, ih, Nat.mod_add_div']

theorem splitParts_eq_nil (hb : Nat) (xs : List Nat) : splitParts hb xs = [] ↔ xs = [] := by
  cases xs <;> simp [splitParts]

theorem splitParts_bytes32 (xs : List Nat) :
    (splitParts 32 xs).flatMap (leBytes 4) = xs.flatMap (leBytes 8) := by
  induction xs with
  | nil => rfl
  | cons x xs ih =>
    simp only [splitParts, List.flatMap_cons, List.cons_append, List.nil_append] at *
    rw [ih]
    have h1 := leBytes_add 4 4 x
    have h2 := leBytes_mod 4 x
    have e : (256 : Nat) ^ 4 = 2 ^ 32 := by decide
    rw [e] at h1 h2
    simp only [show (4 : Nat) + 4 = 8 from rfl] at h1
    rw [h1, h2, List.append_assoc]

theorem splitParts_bytes64 (xs : List Nat) :
    (splitParts 64 xs).flatMap (leBytes 8) = xs.flatMap (leBytes 16) := by
  induction xs with
  | nil => rfl
  | cons x xs ih =>
    simp only [splitParts, List.flatMap_cons, List.cons_append, List.nil_append] at *
    rw [ih]
    have h1 := leBytes_add 8 8 x
    have h2 := leBytes_mod 8 x
    have e : (256 : Nat) ^ 8 = 2 ^ 64 := by decide
    rw [e] at h1 h2
    simp only [show (8 : Nat) + 8 = 16 from rfl] at h1
    rw [h1, h2, List.append_assoc]

/-! ### the canonical bytes -/

theorem packLE_length (bw : Nat) (xs : List Nat) (h : bw = 2 ∨ bw = 4 ∨ bw % 8 = 0) :
    (packLE bw xs).length = nbytes xs.length bw := by
  unfold packLE tobytes
  rcases h with h | h | h
  · subst h; simp [pack2_length]
  · subst h; simp [pack4_length]
  · have h4 : bw ≠ 4 := by omega
    have h2 : bw ≠ 2 := by omega
    simp only [h4, h2, if_false]
    rw [flatMap_leBytes_length, nbytes]
    obtain ⟨k, hk⟩ : ∃ k, bw = 8 * k := ⟨bw / 8, by omega⟩
    subst hk
    have h8 : 8 * k / 8 = k := by omega
    rw [h8, show xs.length * (8 * k) = 8 * (xs.length * k) from Nat.mul_left_comm _ _ _]
    omega

theorem packLE_byte (bw : Nat) (xs : List Nat) : ∀ b ∈ packLE bw xs, b < 256 := by
  unfold packLE tobytes
  split
  · exact pack4_byte xs
  · split
    · exact pack2_byte xs
    · intro b hb
      rw [List.mem_flatMap] at hb
      obtain ⟨x, _, hx⟩ := hb
      exact leBytes_byte _ x b hx

theorem slice_mid (pre mid post : List Nat) :
    ((pre ++ mid ++ post).drop pre.length).take mid.length = mid := by
  simp [List.append_assoc]

/-! ### memory of an array in either byte order -/

/-- the memory of a C-contiguous array of `w`-byte items holding `xs` -/
def memOf (w : Nat) (be : Bool) (xs : List Nat) : List Nat :=
  xs.flatMap (fun x => if be then (leBytes w x).reverse else leBytes w x)

theorem swapItems_nil (w : Nat) : swapItems w [] = [] := by
  rw [swapItems]; simp

theorem swapItems_cons (w : Nat) (hw : 0 < w) (x : Nat) (rest : List Nat) :
    swapItems w ((leBytes w x).reverse ++ rest) = leBytes w x ++ swapItems w rest := by
  rw [swapItems]
  have hl : ((leBytes w x).reverse).length = w := by simp [leBytes_length]
  have hc : ¬ (w = 0 ∨ (((leBytes w x).reverse ++ rest).take w).length < w) := by
    rw [List.take_left' hl, hl]; omega
  rw [dif_neg hc, List.take_left' hl, List.drop_left' hl, List.reverse_reverse]

theorem swapItems_memOf (w : Nat) (hw : 0 < w) (xs : List Nat) :
    swapItems w (memOf w true xs) = xs.flatMap (leBytes w) := by
  induction xs with
  | nil => simpa [memOf] using swapItems_nil w
  | cons x xs ih =>
    simp only [memOf, List.flatMap_cons, if_true] at *
    rw [swapItems_cons w hw, ih]

theorem memOf_length (w : Nat) (be : Bool) (xs : List Nat) : (memOf w be xs).length = xs.length * w := by
  induction xs with
  | nil => simp [memOf]
  | cons x xs ih =>
    simp only [memOf, List.flatMap_cons, List.length_append] at *
    rw [ih]
    cases be <;> simp [leBytes_length, Nat.add_mul] <;> omega

/-! ### legal representations of a logical tensor -/

/-- `Legal d dims bw xs r`: `r` is a legal way to hold the logical tensor of element type `d`
    (of `bw` bits), shape `dims` and element bit patterns `xs`.  This is the specification side:
    what the ONNX spec and the class documentation allow, written without the decoders. -/
inductive Legal (d : DType) (dims : List Nat) (bw : Nat) (xs : List Nat) : Rep → Prop
  /-- array-backed: one storage unit per element whose low `bw` bits are the element (the upper
      bits of a sub-byte element's byte are free, e.g. sign extension) -/
  | array (elems : List Nat) (hu : ∀ e ∈ elems, e < 256 ^ npItemBytes d)
      (hx : obsBits bw elems = xs) : Legal d dims bw xs (.array d dims elems)
  | torch (elems : List Nat) (ht : d.torchMapped = true) (hu : ∀ e ∈ elems, e < 256 ^ npItemBytes d)
      (hx : obsBits bw elems = xs) : Legal d dims bw xs (.torch d dims elems)
  /-- array(-compatible) object given by its memory: the little-endian or big-endian items of the
      elements; a real ndarray must be little-endian (native), any other holder may be either (big-endian
      complex memory, whose two parts are swapped separately, is left to the correspondence) -/
  | arrayMem (be nd : Bool) (hnb : (nd && be) = false) (h8 : 8 ≤ bw)
      (hc : be = true → d ≠ .complex64 ∧ d ≠ .complex128) :
      Legal d dims bw xs (.arrayMem d dims (memOf (bw / 8) be xs) be nd)
  /-- torch adapter over a contiguous view into a larger storage: the view's elements start at
      `storage_offset` inside the storage, between arbitrary other elements -/
  | torchView (pre elems post : List Nat) (ht : d.torchMapped = true)
      (hu : ∀ e ∈ elems, e < 256 ^ npItemBytes d) (hx : obsBits bw elems = xs) :
      Legal d dims bw xs (.torch d dims (torchView (pre ++ elems ++ post) pre.length (prod dims)))
  /-- packed: the canonical packed bytes (zero padding bits) -/
  | packed (hb : bw = 2 ∨ bw = 4) :
      Legal d dims bw xs (.packed { dtype := d, dims := dims, raw := packLE bw xs })
  /-- `raw_data` holds the canonical bytes (whatever else the proto carries) -/
  | protoRaw (p : Proto) (hd : p.dataType = d.code) (hdims : p.dims = dims)
      (hext : p.external = none) (hraw : p.rawData = some (packLE bw xs)) :
      Legal d dims bw xs (.proto p)
  /-- `int32_data`: any int32 values congruent to the elements (whole-byte types) or to the
      packed bytes (2/4-bit types) -/
  | protoInt32 (ys : List Int) (hl : d.int32Legal = true)
      (hy : if 8 ≤ bw then ys.map (wrap bw) = xs else ys.map (wrap 8) = packLE bw xs) :
      Legal d dims bw xs (.proto { dataType := d.code, dims := dims, int32Data := ys })
  | protoInt64 (ys : List Int) (hd : d = .int64) (hy : ys.map (wrap 64) = xs) :
      Legal d dims bw xs (.proto { dataType := d.code, dims := dims, int64Data := ys })
  | protoUint64 (hd : d = .uint64) :
      Legal d dims bw xs (.proto { dataType := d.code, dims := dims, uint64Data := xs })
  | protoUint64as32 (ys : List Nat) (hd : d = .uint32) (hy : ys.map (· % 2 ^ 32) = xs) :
      Legal d dims bw xs (.proto { dataType := d.code, dims := dims, uint64Data := ys })
  | protoFloat (hd : d = .float) :
      Legal d dims bw xs (.proto { dataType := d.code, dims := dims, floatData := xs })
  | protoComplex64 (hd : d = .complex64) :
      Legal d dims bw xs (.proto { dataType := d.code, dims := dims, floatData := splitParts 32 xs })
  | protoDouble (hd : d = .double) :
      Legal d dims bw xs (.proto { dataType := d.code, dims := dims, doubleData := xs })
  | protoComplex128 (hd : d = .complex128) :
      Legal d dims bw xs (.proto { dataType := d.code, dims := dims, doubleData := splitParts 64 xs })
  /-- external: the canonical bytes sit in the data file at the offset, between arbitrary other
      content; `offset` may be omitted when 0, `length` may be omitted (or 0) -/
  | external (e : Ext) (pre post : List Nat) (hd : e.dtype = d) (hdims : e.dims = dims)
      (hoff : e.offset.getD 0 = pre.length)
      (hlen : ∀ l, e.length = some l → l = 0 ∨ l = nbytes (prod dims) bw) :
      Legal d dims bw xs (.external e (some (pre ++ packLE bw xs ++ post)))
  | lazy (inner : Rep) (h : Legal d dims bw xs inner) : Legal d dims bw xs (.lazy d dims inner)

/-- what every legal representation must answer -/
structure Agrees (d : DType) (dims : List Nat) (bw : Nat) (xs : List Nat) (r : Rep) : Prop where
  dtype : r.dtype = .ok d
  shape : r.shape = dims
  nbytes : r.nbytes = .ok (nbytes (prod dims) bw)
  numpy : ∃ u, r.numpy = .ok u ∧ obsBits bw u = xs
  tobytes : r.tobytes = .ok (packLE bw xs)
  tofile : r.tofile = .ok (packLE bw xs, false)

/-- the well-formedness of a logical tensor -/
structure WF (d : DType) (dims : List Nat) (bw : Nat) (xs : List Nat) : Prop where
  hbw : d.bitwidth = some bw
  len : xs.length = prod dims
  range : ∀ x ∈ xs, x < 2 ^ bw

theorem obsBits_id (bw : Nat) (xs : List Nat) (h : ∀ x ∈ xs, x < 2 ^ bw) : obsBits bw xs = xs :=
  map_mod_id (2 ^ bw) xs h

theorem pow256 (k : Nat) : (256 : Nat) ^ k = 2 ^ (8 * k) := by
  rw [Nat.pow_mul]

theorem nbytesOf_ok {d : DType} {dims : List Nat} {bw : Nat} (h : d.bitwidth = some bw) :
    nbytesOf d dims = .ok (nbytes (prod dims) bw) := by
  simp [nbytesOf, h]

theorem unpackBits_packLE {bw : Nat} (hb : bw = 2 ∨ bw = 4) (xs : List Nat)
    (hr : ∀ x ∈ xs, x < 2 ^ bw) : unpackBits bw (packLE bw xs) xs.length = xs := by
  rcases hb with hb | hb <;> subst hb
  · simpa [unpackBits, packLE, tobytes] using unpack2_pack2 xs (by simpa using hr)
  · simpa [unpackBits, packLE, tobytes] using unpack4_pack4 xs (by simpa using hr)

end IrVerif.TensorRepr

/-
Extended model, MODELS WITH FUNCTIONS: the device configurations of the function bodies, shared definitions.

* `DevTrF` / `DevTrFs`: the TRACE of the device configurations of one function body / of the function list along the
  round trip (`rtE_func` / `rtE_funcs`): `DevTrNs` of the node list, no enclosing scope, in the table of `replF`
  (the named inputs, then the declared node outputs); monotone like `DevTrNs.mono`;
* `DevCertF` / `DevCertM`: the source-side certificate (`DevCertNs` with the function's table for every function
  body, `DevCertG` for the main graph);
* `DevIsoFs` / `DevIsoM`: node by node, the reloaded configurations are the source configurations renamed by `σ`
  (main graph, and function bodies positionally).
-/
import IrVerif.Lemmas.ScopeExtFuncDefs
namespace IrVerif.Scope

/-- the trace of the device configurations of one function body (source `g`, proto `fp`, reloaded `g'`) -/
def DevTrF (V : Nat → ValueS) (x' : Ext) (hi : Nat) (A : Assoc) : GraphT → FuncE → GraphT → Prop
  | .mk _ ins _ nodes _, fp, .mk _ _ _ nodes' _ =>
    DevTrNs V x' hi A [] (replDecl V (tblIns V ins) (nodes.flatMap (liveOuts V))).tbl nodes fp.nodes nodes'

/-- the trace of the device configurations of the functions, positionally -/
def DevTrFs (V : Nat → ValueS) (x' : Ext) (hi : Nat) (A : Assoc) :
    List (FId × GraphT) → List FuncE → List (FId × GraphT) → Prop
  | [], [], [] => True
  | f :: fs, fp :: fps, g :: gs => DevTrF V x' hi A f.2 fp g.2 ∧ DevTrFs V x' hi A fs fps gs
  | _, _, _ => False

theorem DevTrF.mono {V : Nat → ValueS} {x x' : Ext} {hi hi' : Nat} {A : Assoc} (B : Assoc) (hhi : hi ≤ hi')
    (hx : ∀ k, k < hi → x'.devs k = x.devs k) :
    ∀ (g : GraphT) (fp : FuncE) (g' : GraphT), DevTrF V x hi A g fp g' → DevTrF V x' hi' (A ++ B) g fp g'
  | .mk _ ins _ nodes _, fp, .mk _ _ _ nodes' _, h => by
    simp only [DevTrF] at h ⊢
    exact DevTrNs.mono B hhi hx [] _ nodes fp.nodes nodes' h

theorem DevTrFs.mono {V : Nat → ValueS} {x x' : Ext} {hi hi' : Nat} {A : Assoc} (B : Assoc) (hhi : hi ≤ hi')
    (hx : ∀ k, k < hi → x'.devs k = x.devs k) :
    ∀ (fs : List (FId × GraphT)) (fps : List FuncE) (gs : List (FId × GraphT)),
      DevTrFs V x hi A fs fps gs → DevTrFs V x' hi' (A ++ B) fs fps gs
  | [], [], [], _ => by simp only [DevTrFs]
  | f :: fs, fp :: fps, g :: gs, h => by
    simp only [DevTrFs] at h ⊢
    exact ⟨DevTrF.mono B hhi hx f.2 fp g.2 h.1, DevTrFs.mono B hhi hx fs fps gs h.2⟩
  | [], [], _ :: _, h => by simp only [DevTrFs] at h
  | [], _ :: _, _, h => by simp only [DevTrFs] at h
  | _ :: _, [], _, h => by simp only [DevTrFs] at h
  | _ :: _, _ :: _, [], h => by simp only [DevTrFs] at h

/-- the same association: larger counter, `devs` kept below the counter -/
theorem DevTrG.frame {V : Nat → ValueS} {x x' : Ext} {hi hi' : Nat} {A : Assoc} (hhi : hi ≤ hi')
    (hx : ∀ k, k < hi → x'.devs k = x.devs k) (outer : List Table) (g : GraphT) (p : GraphE) (g' : GraphT)
    (h : DevTrG V x hi A outer g p g') : DevTrG V x' hi' A outer g p g' := by
  have := DevTrG.mono [] hhi hx outer g p g' h
  rwa [List.append_nil] at this

/-- the source-side certificate of the device configurations of a function body, along the tables of `replF` -/
def DevCertF (V : Nat → ValueS) (x : Ext) : GraphT → Prop
  | .mk _ ins _ nodes _ => DevCertNs V x [] (replDecl V (tblIns V ins) (nodes.flatMap (liveOuts V))).tbl nodes

/-- the source-side certificate of the device configurations of a model with functions -/
def DevCertM (w : MWorldE) : Prop :=
  DevCertG w.st.vals w.ext [] w.root ∧ ∀ f ∈ w.funcs, DevCertF w.st.vals w.ext f.2

/-- function body by function body (positionally), the reloaded configurations are the source ones renamed by `σ`
    (`DevIsoG` only looks at the node lists) -/
def DevIsoFs (x x' : Ext) (σ : Nat → Nat) : List (FId × GraphT) → List (FId × GraphT) → Prop
  | [], [] => True
  | f :: fs, g :: gs => DevIsoG x x' σ f.2 g.2 ∧ DevIsoFs x x' σ fs gs
  | _, _ => False

/-- the device configurations of the reloaded model `D` are those of the source `w` renamed by `σ` -/
def DevIsoM (x x' : Ext) (σ : Nat → Nat) (w D : MWorldE) : Prop :=
  DevIsoG x x' σ w.root D.root ∧ DevIsoFs x x' σ w.funcs D.funcs

end IrVerif.Scope

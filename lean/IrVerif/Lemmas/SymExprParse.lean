/-
C16: the recursive-descent parser of `Model/SymExpr.lean` against the documented grammar
(derivation trees `D`): every derivation parses to its meaning (with enough fuel), and
everything the parser accepts has a derivation.
-/
import IrVerif.Model.SymExpr
namespace IrVerif.SymExpr

/-! ### follow conditions: what may come after a complete phrase -/

def headIs (p : Tok → Bool) : List Tok → Bool
  | [] => false
  | t :: _ => p t

def isLP : Tok → Bool
  | .lparen => true
  | _ => false
def isPow : Tok → Bool
  | .op .dstar => true
  | _ => false
def isMul : Tok → Bool
  | .op .star => true | .op .slash => true | .op .dslash => true | .op .percent => true
  | _ => false
def isAdd : Tok → Bool
  | .op .plus => true | .op .minus => true
  | _ => false

/-- after a primary: no `(` -/
def okPrim (r : List Tok) : Prop := headIs isLP r = false
/-- after a power / unary: no `(`, no `**` -/
def okPow (r : List Tok) : Prop := okPrim r ∧ headIs isPow r = false
/-- after a term: additionally no multiplicative operator -/
def okTerm (r : List Tok) : Prop := okPow r ∧ headIs isMul r = false
/-- after an expr: additionally no additive operator -/
def okExpr (r : List Tok) : Prop := okTerm r ∧ headIs isAdd r = false

theorem okExpr_nil : okExpr [] := by simp [okExpr, okTerm, okPow, okPrim, headIs]
theorem okExpr_rparen (r : List Tok) : okExpr (.rparen :: r) := by
  simp [okExpr, okTerm, okPow, okPrim, headIs, isLP, isPow, isMul, isAdd]
theorem okExpr_comma (r : List Tok) : okExpr (.comma :: r) := by
  simp [okExpr, okTerm, okPow, okPrim, headIs, isLP, isPow, isMul, isAdd]

theorem addOpOf_tok (o : AddOp) (ts : List Tok) : addOpOf (o.tok :: ts) = some (o.bin, ts) := by
  cases o <;> rfl
theorem mulOpOf_tok (o : MulOp) (ts : List Tok) : mulOpOf (o.tok :: ts) = some (o.bin, ts) := by
  cases o <;> rfl

theorem addOpOf_none {r : List Tok} (h : headIs isAdd r = false) : addOpOf r = none := by
  rcases r with _ | ⟨t, ts⟩
  · rfl
  · rcases t with _ | _ | o | _ | _ | _ <;> try rfl
    cases o <;> simp_all [headIs, isAdd, addOpOf]

theorem mulOpOf_none {r : List Tok} (h : headIs isMul r = false) : mulOpOf r = none := by
  rcases r with _ | ⟨t, ts⟩
  · rfl
  · rcases t with _ | _ | o | _ | _ | _ <;> try rfl
    cases o <;> simp_all [headIs, isMul, mulOpOf]

/-- a term may be followed by an expression tail and then anything an expression may be followed by -/
theorem okTerm_exprTail (tl : D .exprTail) {r : List Tok} (h : okExpr r) : okTerm (tl.flatten ++ r) := by
  cases tl with
  | etNil => exact h.1
  | etCons o t tl =>
    cases o <;> simp [D.flatten, AddOp.tok, okTerm, okPow, okPrim, headIs, isLP, isPow, isMul]

theorem okPow_termTail (tl : D .termTail) {r : List Tok} (h : okTerm r) : okPow (tl.flatten ++ r) := by
  cases tl with
  | ttNil => exact h.1
  | ttCons o u tl =>
    cases o <;> simp [D.flatten, MulOp.tok, okPow, okPrim, headIs, isLP, isPow]

theorem okExpr_argsTail (tl : D .argsTail) (r : List Tok) : okExpr (tl.flatten ++ .rparen :: r) := by
  cases tl with
  | atNil => exact okExpr_rparen r
  | atCons e tl => exact okExpr_comma _

/-! ### fuel a derivation needs (recursion depth of the parser on it) -/

def D.need : D n → Nat
  | .expr t tl => 1 + max t.need tl.need
  | .etNil => 1
  | .etCons _ t tl => 1 + max t.need tl.need
  | .term u tl => 1 + max u.need tl.need
  | .ttNil => 1
  | .ttCons _ u tl => 1 + max u.need tl.need
  | .neg u => 1 + u.need
  | .upow p => 1 + p.need
  | .prim p => 1 + p.need
  | .pow b e => 1 + max b.need e.need
  | .num _ => 1
  | .ident _ => 1
  | .paren e => 1 + e.need
  | .call1 _ a => 1 + max a.need 1
  | .call2 _ a b => 1 + max a.need (1 + max b.need 1)
  | .callN _ args => 1 + args.need
  | .argsNil => 0
  | .argsCons e tl => max e.need tl.need
  | .atNil => 1
  | .atCons e tl => 1 + max e.need tl.need


/-! ### first token of a phrase -/

/-- first token of an expression-like phrase: never `)` (nor `,`) -/
def goodStart : List Tok → Prop
  | [] => False
  | t :: _ => t ≠ .rparen

def StartsOK : (n : NT) → D n → Prop
  | .expr, d => ∀ r, goodStart (d.flatten ++ r)
  | .term, d => ∀ r, goodStart (d.flatten ++ r)
  | .unary, d => ∀ r, goodStart (d.flatten ++ r)
  | .power, d => ∀ r, goodStart (d.flatten ++ r)
  | .primary, d => ∀ r, goodStart (d.flatten ++ r)
  | _, _ => True

theorem startsOK_all {n : NT} (d : D n) : StartsOK n d := by
  induction d with
  | expr t tl iht _ => intro r; simpa [D.flatten, List.append_assoc] using iht (tl.flatten ++ r)
  | term u tl ihu _ => intro r; simpa [D.flatten, List.append_assoc] using ihu (tl.flatten ++ r)
  | neg u _ => intro r; simp [D.flatten, goodStart]
  | upow p ih => intro r; simpa [D.flatten] using ih r
  | prim p ih => intro r; simpa [D.flatten] using ih r
  | pow b e ihb _ => intro r; simpa [D.flatten, List.append_assoc] using ihb (.op .dstar :: (e.flatten ++ r))
  | num n => intro r; simp [D.flatten, goodStart]
  | ident s => intro r; simp [D.flatten, goodStart]
  | paren e _ => intro r; simp [D.flatten, goodStart]
  | call1 f a _ => intro r; simp [D.flatten, goodStart]
  | call2 f a b _ _ => intro r; simp [D.flatten, goodStart]
  | callN f args _ => intro r; simp [D.flatten, goodStart]
  | _ => trivial

theorem expr_goodStart (d : D .expr) (r : List Tok) : goodStart (d.flatten ++ r) :=
  startsOK_all d r


/-! ### completeness: every derivation parses to its meaning -/

/-- the call part of `parsePrimary` after `IDENT (`, for a non-`)` start: one expression, the
    comma loop, the closing parenthesis, the function table -/
theorem parsePrimary_call (f : Nat) (name : String) (ts : List Tok) (h : goodStart ts) :
    parsePrimary (f + 1) (.ident name :: .lparen :: ts) =
      match parseExpr f ts with
      | some (a, r) =>
        match argsLoop f [a] r with
        | some (args, .rparen :: r') =>
          match applyFn name args with
          | some e => some (e, r')
          | none => none
        | _ => none
      | none => none := by
  rcases ts with _ | ⟨t, ts⟩
  · simp [goodStart] at h
  · rcases t with _ | _ | _ | _ | _ | _ <;> first | rfl | simp [goodStart] at h

/-- first token of a power / primary: a number, an identifier or `(` -/
def primStart : List Tok → Prop
  | .num _ :: _ => True
  | .ident _ :: _ => True
  | .lparen :: _ => True
  | _ => False

def StartsPrim : (n : NT) → D n → Prop
  | .power, d => ∀ r, primStart (d.flatten ++ r)
  | .primary, d => ∀ r, primStart (d.flatten ++ r)
  | _, _ => True

theorem startsPrim_all {n : NT} (d : D n) : StartsPrim n d := by
  induction d with
  | prim p ih => intro r; simpa [D.flatten] using ih r
  | pow b e ihb _ => intro r; simpa [D.flatten, List.append_assoc] using ihb (.op .dstar :: (e.flatten ++ r))
  | num n => intro r; simp [D.flatten, primStart]
  | ident s => intro r; simp [D.flatten, primStart]
  | paren e _ => intro r; simp [D.flatten, primStart]
  | call1 f a _ => intro r; simp [D.flatten, primStart]
  | call2 f a b _ _ => intro r; simp [D.flatten, primStart]
  | callN f args _ => intro r; simp [D.flatten, primStart]
  | _ => trivial

theorem parseUnary_primStart (f : Nat) (ts : List Tok) (h : primStart ts) :
    parseUnary (f + 1) ts = parsePower f ts := by
  rcases ts with _ | ⟨t, ts⟩
  · simp [primStart] at h
  · rcases t with _ | _ | _ | _ | _ | _ <;> first | rfl | simp [primStart] at h

theorem parsePower_noPow (f : Nat) (ts : List Tok) (b : Expr) (r : List Tok)
    (h : parsePrimary f ts = some (b, r)) (hr : headIs isPow r = false) :
    parsePower (f + 1) ts = some (b, r) := by
  simp only [parsePower, h]
  rcases r with _ | ⟨t, r'⟩
  · rfl
  · rcases t with _ | _ | o | _ | _ | _ <;> try rfl
    cases o <;> first | rfl | simp [headIs, isPow] at hr

theorem parsePower_pow (f : Nat) (ts ts' : List Tok) (b e : Expr) (r : List Tok)
    (h : parsePrimary f ts = some (b, .op .dstar :: ts')) (h2 : parseUnary f ts' = some (e, r)) :
    parsePower (f + 1) ts = some (.bin .pow b e, r) := by
  simp only [parsePower, h, h2]

theorem parsePrimary_ident (f : Nat) (s : String) (r : List Tok) (hr : okPrim r) :
    parsePrimary (f + 1) (.ident s :: r) = some (.sym s, r) := by
  rcases r with _ | ⟨t, r'⟩
  · rfl
  · rcases t with _ | _ | _ | _ | _ | _ <;> first | rfl | simp [okPrim, headIs, isLP] at hr

theorem argsLoop_rparen (f : Nat) (acc : List Expr) (r : List Tok) :
    argsLoop (f + 1) acc (.rparen :: r) = some (acc, .rparen :: r) := rfl

def Complete : (n : NT) → D n → Prop
  | .expr, d => ∀ f r, d.need ≤ f → okExpr r →
      parseExpr f (d.flatten ++ r) = some ((d.sem : Expr), r)
  | .exprTail, d => ∀ f acc r, d.need ≤ f → okExpr r →
      exprLoop f acc (d.flatten ++ r) = some ((d.sem : Expr → Expr) acc, r)
  | .term, d => ∀ f r, d.need ≤ f → okTerm r →
      parseTerm f (d.flatten ++ r) = some ((d.sem : Expr), r)
  | .termTail, d => ∀ f acc r, d.need ≤ f → okTerm r →
      termLoop f acc (d.flatten ++ r) = some ((d.sem : Expr → Expr) acc, r)
  | .unary, d => ∀ f r, d.need ≤ f → okPow r →
      parseUnary f (d.flatten ++ r) = some ((d.sem : Expr), r)
  | .power, d => ∀ f r, d.need ≤ f → okPow r →
      parsePower f (d.flatten ++ r) = some ((d.sem : Expr), r)
  | .primary, d => ∀ f r, d.need ≤ f → okPrim r →
      parsePrimary f (d.flatten ++ r) = some ((d.sem : Expr), r)
  | .args, d => ∀ f name r, d.need ≤ f →
      parsePrimary (f + 1) (.ident name :: .lparen :: (d.flatten ++ .rparen :: r)) =
        match applyFn name (d.sem : List Expr) with
        | some e => some (e, r)
        | none => none
  | .argsTail, d => ∀ f acc r, d.need ≤ f →
      argsLoop f acc (d.flatten ++ .rparen :: r) = some (acc ++ (d.sem : List Expr), .rparen :: r)

theorem applyFn_fn1 (f : Fn1) (a : Expr) : applyFn f.name [a] = some (.un f.un a) := by
  cases f <;> simp [applyFn, Fn1.name, Fn1.un]

theorem applyFn_fn2 (f : Fn2) (a b : Expr) : applyFn f.name [a, b] = some (.bin .mod a b) := by
  cases f <;> simp [applyFn, Fn2.name]

theorem applyFn_fnN (f : FnN) (args : List Expr) :
    applyFn f.name args = some (f.apply args) := by
  cases f <;> cases args <;> simp [applyFn, FnN.name, FnN.bin, FnN.emptyNeg, FnN.apply]

theorem complete_all {n : NT} (d : D n) : Complete n d := by
  induction d with
  | expr t tl iht ihtl =>
    intro f r hf hr
    rcases f with _ | f
    · simp [D.need] at hf
    · simp only [D.need] at hf
      simp only [D.flatten, List.append_assoc, parseExpr]
      rw [iht f (tl.flatten ++ r) (by omega) (okTerm_exprTail tl hr)]
      exact ihtl f _ r (by omega) hr
  | etNil =>
    intro f acc r hf hr
    rcases f with _ | f
    · simp [D.need] at hf
    · simp [D.flatten, exprLoop, addOpOf_none hr.2, D.sem]
  | etCons o t tl iht ihtl =>
    intro f acc r hf hr
    rcases f with _ | f
    · simp [D.need] at hf
    · simp only [D.need] at hf
      simp only [D.flatten, exprLoop, List.cons_append, List.append_assoc, addOpOf_tok]
      rw [iht f (tl.flatten ++ r) (by omega) (okTerm_exprTail tl hr)]
      exact ihtl f _ r (by omega) hr
  | term u tl ihu ihtl =>
    intro f r hf hr
    rcases f with _ | f
    · simp [D.need] at hf
    · simp only [D.need] at hf
      simp only [D.flatten, List.append_assoc, parseTerm]
      rw [ihu f (tl.flatten ++ r) (by omega) (okPow_termTail tl hr)]
      exact ihtl f _ r (by omega) hr
  | ttNil =>
    intro f acc r hf hr
    rcases f with _ | f
    · simp [D.need] at hf
    · simp [D.flatten, termLoop, mulOpOf_none hr.2, D.sem]
  | ttCons o u tl ihu ihtl =>
    intro f acc r hf hr
    rcases f with _ | f
    · simp [D.need] at hf
    · simp only [D.need] at hf
      simp only [D.flatten, termLoop, List.cons_append, List.append_assoc, mulOpOf_tok]
      rw [ihu f (tl.flatten ++ r) (by omega) (okPow_termTail tl hr)]
      exact ihtl f _ r (by omega) hr
  | neg u ih =>
    intro f r hf hr
    rcases f with _ | f
    · simp [D.need] at hf
    · simp only [D.need] at hf
      simp only [D.flatten, List.cons_append, parseUnary]
      rw [ih f r (by omega) hr]
      rfl
  | upow p ih =>
    intro f r hf hr
    rcases f with _ | f
    · simp [D.need] at hf
    · simp only [D.need] at hf
      simp only [D.flatten]
      rw [parseUnary_primStart f _ (startsPrim_all p r)]
      exact ih f r (by omega) hr
  | prim p ih =>
    intro f r hf hr
    rcases f with _ | f
    · simp [D.need] at hf
    · simp only [D.need] at hf
      simp only [D.flatten]
      exact parsePower_noPow f _ _ r (ih f r (by omega) hr.1) hr.2
  | pow b e ihb ihe =>
    intro f r hf hr
    rcases f with _ | f
    · simp [D.need] at hf
    · simp only [D.need] at hf
      simp only [D.flatten, List.append_assoc, List.cons_append]
      refine parsePower_pow f _ (e.flatten ++ r) _ _ r ?_ (ihe f r (by omega) hr)
      exact ihb f _ (by omega) (by simp [okPrim, headIs, isLP])
  | num n =>
    intro f r hf _
    rcases f with _ | f
    · simp [D.need] at hf
    · simp [D.flatten, parsePrimary, D.sem]
  | ident s =>
    intro f r hf hr
    rcases f with _ | f
    · simp [D.need] at hf
    · simpa [D.flatten, D.sem] using parsePrimary_ident f s r hr
  | paren e ih =>
    intro f r hf _
    rcases f with _ | f
    · simp [D.need] at hf
    · simp only [D.need] at hf
      have h := ih f (.rparen :: r) (by omega) (okExpr_rparen r)
      simp only [D.flatten, List.append_assoc, List.cons_append, List.nil_append, parsePrimary, h]
      rfl
  | call1 fn a ih =>
    intro f r hf _
    rcases f with _ | f
    · simp [D.need] at hf
    · simp only [D.need] at hf
      rcases f with _ | f
      · omega
      · have h := ih (f + 1) (.rparen :: r) (by omega) (okExpr_rparen r)
        simp only [D.flatten, List.append_assoc, List.cons_append, List.nil_append]
        rw [parsePrimary_call _ _ _ (expr_goodStart a _), h]
        simp only [argsLoop_rparen, applyFn_fn1]
        rfl
  | call2 fn a b iha ihb =>
    intro f r hf _
    rcases f with _ | f
    · simp [D.need] at hf
    · simp only [D.need] at hf
      rcases f with _ | f
      · omega
      · rcases f with _ | f
        · omega
        · have ha := iha (f + 2) (.comma :: (b.flatten ++ .rparen :: r)) (by omega) (okExpr_comma _)
          have hb := ihb (f + 1) (.rparen :: r) (by omega) (okExpr_rparen r)
          simp only [D.flatten, List.append_assoc, List.cons_append, List.nil_append]
          rw [parsePrimary_call _ _ _ (expr_goodStart a _), ha]
          simp only [argsLoop, hb, List.cons_append, List.nil_append, applyFn_fn2]
          rfl
  | callN fn args ih =>
    intro f r hf _
    rcases f with _ | f
    · simp [D.need] at hf
    · simp only [D.need] at hf
      have h := ih f fn.name r (by omega)
      simp only [D.flatten, List.append_assoc, List.cons_append, List.nil_append]
      rw [h, applyFn_fnN]
      rfl
  | argsNil =>
    intro f name r _
    simp only [D.flatten, List.nil_append, parsePrimary, D.sem]
    rfl
  | argsCons e tl ihe ihtl =>
    intro f name r hf
    simp only [D.need] at hf
    have he := ihe f (tl.flatten ++ .rparen :: r) (by omega) (okExpr_argsTail tl r)
    have htl := ihtl f [(e.sem : Expr)] r (by omega)
    simp only [D.flatten, List.append_assoc]
    rw [parsePrimary_call _ _ _ (expr_goodStart e _), he]
    simp only [htl, D.sem, List.cons_append, List.nil_append]
  | atNil =>
    intro f acc r hf
    rcases f with _ | f
    · simp [D.need] at hf
    · simp [D.flatten, argsLoop_rparen, D.sem]
  | atCons e tl ihe ihtl =>
    intro f acc r hf
    rcases f with _ | f
    · simp [D.need] at hf
    · simp only [D.need] at hf
      have he := ihe f (tl.flatten ++ .rparen :: r) (by omega) (okExpr_argsTail tl r)
      have htl := ihtl f (acc ++ [(e.sem : Expr)]) r (by omega)
      simp only [D.flatten, List.append_assoc, List.cons_append, argsLoop, he, htl, D.sem]
      simp


/-! ### the fuel `parseTokens` starts with is enough -/

def Bound : (n : NT) → D n → Prop
  | .expr, d => d.need ≤ 5 * d.flatten.length ∧ 1 ≤ d.flatten.length
  | .exprTail, d => d.need ≤ 5 * d.flatten.length + 1
  | .term, d => d.need + 1 ≤ 5 * d.flatten.length ∧ 1 ≤ d.flatten.length
  | .termTail, d => d.need ≤ 5 * d.flatten.length + 1
  | .unary, d => d.need + 2 ≤ 5 * d.flatten.length ∧ 1 ≤ d.flatten.length
  | .power, d => d.need + 3 ≤ 5 * d.flatten.length ∧ 1 ≤ d.flatten.length
  | .primary, d => d.need + 4 ≤ 5 * d.flatten.length ∧ 1 ≤ d.flatten.length
  | .args, d => d.need ≤ 5 * d.flatten.length + 1
  | .argsTail, d => d.need ≤ 5 * d.flatten.length + 1

theorem bound_all {n : NT} (d : D n) : Bound n d := by
  induction d <;> simp only [Bound, D.need, D.flatten, List.length_append, List.length_cons,
    List.length_nil] at * <;> omega

theorem parseTokens_complete (d : D .expr) : parseTokens d.flatten = some (d.sem : Expr) := by
  have hb := (bound_all d).1
  have h := complete_all d (fuelFor d.flatten) [] (by simp only [fuelFor]; omega) okExpr_nil
  simp only [List.append_nil] at h
  simp only [parseTokens, h]

end IrVerif.SymExpr

/-
`Links`: consecutive boxes of a list are linked both ways; unlinking / linking lemmas.
-/
import IrVerif.Lemmas.LinkedSetPrim
namespace IrVerif.LinkedSet

/-- last element of `a :: l` -/
def lastOr (a : Nat) : List Nat → Nat
  | [] => a
  | b :: l => lastOr b l
/-- first element of `l ++ [z]` -/
def headOr (z : Nat) : List Nat → Nat
  | [] => z
  | q :: _ => q

@[simp] theorem lastOr_nil (a : Nat) : lastOr a [] = a := rfl
@[simp] theorem lastOr_cons (a b : Nat) (l : List Nat) : lastOr a (b :: l) = lastOr b l := rfl
@[simp] theorem headOr_nil (z : Nat) : headOr z [] = z := rfl
@[simp] theorem headOr_cons (z q : Nat) (l : List Nat) : headOr z (q :: l) = q := rfl

theorem lastOr_mem : ∀ (l : List Nat) (a : Nat), lastOr a l ∈ a :: l
  | [], a => by simp
  | b :: l, a => by
      have := lastOr_mem l b
      simp only [lastOr_cons]; exact List.mem_cons_of_mem _ this
theorem headOr_mem (l : List Nat) (z : Nat) : headOr z l ∈ l ++ [z] := by cases l <;> simp

theorem lastOr_append_singleton : ∀ (l : List Nat) (a x : Nat), lastOr a (l ++ [x]) = x
  | [], a, x => rfl
  | b :: l, a, x => by simp [lastOr_append_singleton l b x]

theorem lastOr_eq_of_ne_nil : ∀ (l : List Nat) (a a' : Nat), l ≠ [] → lastOr a l = lastOr a' l
  | [], _, _, h => by simp at h
  | b :: l, a, a', _ => by simp

/-- consecutive boxes of the list are linked both ways -/
def Links (s : LSet) : List Nat → Prop
  | x :: y :: r => nx s x = y ∧ pv s y = x ∧ Links s (y :: r)
  | _ => True

@[simp] theorem Links_nil (s : LSet) : Links s [] = True := by simp [Links]
@[simp] theorem Links_single (s : LSet) (x : Nat) : Links s [x] = True := by simp [Links]
theorem Links_cons2 (s : LSet) (x y : Nat) (r : List Nat) :
    Links s (x :: y :: r) ↔ nx s x = y ∧ pv s y = x ∧ Links s (y :: r) := by simp [Links]

/-- frame: `Links s (x :: l ++ [z])` reads `nx` on `x :: l` and `pv` on `l ++ [z]` only -/
theorem Links_frame {s s' : LSet} : ∀ (l : List Nat) (x z : Nat), Links s (x :: l ++ [z]) →
    (∀ y ∈ x :: l, nx s' y = nx s y) → (∀ y ∈ l ++ [z], pv s' y = pv s y) →
    Links s' (x :: l ++ [z])
  | [], x, z, h, hn, hp => by
      simp only [List.cons_append, List.nil_append, Links_cons2, Links_single, and_true] at *
      rw [hn x (by simp), hp z (by simp)]; exact h
  | y :: l, x, z, h, hn, hp => by
      simp only [List.cons_append, Links_cons2] at *
      refine ⟨?_, ?_, ?_⟩
      · rw [hn x (by simp)]; exact h.1
      · rw [hp y (by simp)]; exact h.2.1
      · exact Links_frame l y z h.2.2 (fun w hw => hn w (by grind)) (fun w hw => hp w (by grind))

/-- the link entering `x` -/
theorem Links_into {s : LSet} : ∀ (l1 : List Nat) (a x : Nat) (r : List Nat),
    Links s (a :: l1 ++ x :: r) → nx s (lastOr a l1) = x ∧ pv s x = lastOr a l1
  | [], a, x, r, h => by
      simp only [List.cons_append, List.nil_append, Links_cons2] at h
      exact ⟨h.1, h.2.1⟩
  | b :: l1, a, x, r, h => by
      simp only [List.cons_append, Links_cons2] at h
      exact Links_into l1 b x r h.2.2

/-- the link leaving `x` -/
theorem Links_outof {s : LSet} : ∀ (pre : List Nat) (x : Nat) (l2 : List Nat) (z : Nat),
    Links s (pre ++ x :: l2 ++ [z]) → nx s x = headOr z l2 ∧ pv s (headOr z l2) = x
  | [], x, [], z, h => by simpa [Links_cons2] using h
  | [], x, q :: l2, z, h => by
      simp only [List.nil_append, List.cons_append, Links_cons2] at h
      exact ⟨h.1, h.2.1⟩
  | [a], x, l2, z, h => by
      simp only [List.cons_append, List.nil_append, Links_cons2] at h
      exact Links_outof [] x l2 z (by simpa using h.2.2)
  | a :: b :: pre, x, l2, z, h => by
      simp only [List.cons_append, Links_cons2] at h
      exact Links_outof (b :: pre) x l2 z (by simpa using h.2.2)

/-- unlinking `n` from `a :: l1 ++ n :: l2 ++ [z]` -/
theorem Links_unlink {s s' : LSet} : ∀ (l1 : List Nat) (a n : Nat) (l2 : List Nat) (z : Nat),
    Links s (a :: l1 ++ n :: l2 ++ [z]) →
    (a :: l1 ++ n :: l2).Nodup → z ∉ l1 ++ n :: l2 →
    (∀ x, nx s' x = if x = lastOr a l1 then headOr z l2 else nx s x) →
    (∀ x, pv s' x = if x = headOr z l2 then lastOr a l1 else pv s x) →
    Links s' (a :: l1 ++ l2 ++ [z])
  | [], a, n, l2, z, h, hnd, hz, hnx, hpv => by
      simp only [lastOr_nil, List.cons_append, List.nil_append] at *
      cases l2 with
      | nil =>
        simp only [headOr_nil, List.nil_append, Links_cons2, Links_single, and_true] at *
        simp [hnx, hpv]
      | cons q l2 =>
        simp only [headOr_cons, List.cons_append, Links_cons2] at *
        refine ⟨by simp [hnx], by simp [hpv], ?_⟩
        apply Links_frame l2 q z h.2.2.2.2
        · intro y hy
          have : y ≠ a := by grind
          rw [hnx]; simp [this]
        · intro y hy
          have : y ≠ q := by grind
          rw [hpv]; simp [this]
  | b :: l1, a, n, l2, z, h, hnd, hz, hnx, hpv => by
      simp only [List.cons_append, Links_cons2, lastOr_cons] at h hnx hpv ⊢
      have hmem := lastOr_mem l1 b
      have hqmem := headOr_mem l2 z
      have h1 : a ≠ lastOr b l1 := by grind
      have h2 : b ≠ headOr z l2 := by grind
      refine ⟨?_, ?_, ?_⟩
      · rw [hnx]; simp [h1, h.1]
      · rw [hpv]; simp [h2, h.2.1]
      · exact Links_unlink l1 b n l2 z (by simpa using h.2.2) (by grind) (by grind) hnx hpv

/-- linking a new box `m` into `a :: l1 ++ l2 ++ [z]` after the last box of `a :: l1` -/
theorem Links_link {s s' : LSet} : ∀ (l1 : List Nat) (a m : Nat) (l2 : List Nat) (z : Nat),
    Links s (a :: l1 ++ l2 ++ [z]) →
    (a :: l1 ++ l2).Nodup → z ∉ l1 ++ l2 → m ∉ a :: l1 ++ l2 ++ [z] →
    (∀ x, nx s' x = if x = m then headOr z l2 else if x = lastOr a l1 then m else nx s x) →
    (∀ x, pv s' x = if x = headOr z l2 then m else if x = m then lastOr a l1 else pv s x) →
    Links s' (a :: l1 ++ m :: l2 ++ [z])
  | [], a, m, l2, z, h, hnd, hz, hm, hnx, hpv => by
      simp only [lastOr_nil, List.cons_append, List.nil_append] at *
      have hma : m ≠ a := by grind
      cases l2 with
      | nil =>
        simp only [headOr_nil, List.nil_append, Links_cons2, Links_single, and_true] at *
        have hmz : m ≠ z := by grind
        refine ⟨by simp [hnx, hma.symm], ?_, by simp [hnx], by simp [hpv]⟩
        rw [hpv]; simp [hmz]
      | cons q l2 =>
        simp only [headOr_cons, List.cons_append, Links_cons2] at *
        have hmq : m ≠ q := by grind
        refine ⟨by simp [hnx, hma.symm], ?_, by simp [hnx], by simp [hpv], ?_⟩
        · rw [hpv]; simp [hmq]
        · apply Links_frame l2 q z h.2.2
          · intro y hy
            have h1 : y ≠ m := by grind
            have h2 : y ≠ a := by grind
            rw [hnx]; simp [h1, h2]
          · intro y hy
            have h1 : y ≠ m := by grind
            have h2 : y ≠ q := by grind
            rw [hpv]; simp [h1, h2]
  | b :: l1, a, m, l2, z, h, hnd, hz, hm, hnx, hpv => by
      simp only [List.cons_append, Links_cons2, lastOr_cons] at h hnx hpv ⊢
      have hmem := lastOr_mem l1 b
      have hqmem := headOr_mem l2 z
      have hma : a ≠ m := by grind
      have hmb : b ≠ m := by grind
      have h1 : a ≠ lastOr b l1 := by grind
      have h2 : b ≠ headOr z l2 := by grind
      refine ⟨?_, ?_, ?_⟩
      · rw [hnx]; simp [h1, hma, h.1]
      · rw [hpv]; simp [h2, hmb, h.2.1]
      · exact Links_link l1 b m l2 z (by simpa using h.2.2) (by grind) (by grind) (by grind) hnx hpv

end IrVerif.LinkedSet

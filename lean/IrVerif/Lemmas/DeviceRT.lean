/-
C19 helper development, part 2: the serialize -> deserialize round trip preserves `DevOK`
(`DevOK_roundTrip`).  Core Lean only.
-/
import IrVerif.Lemmas.Device
namespace IrVerif.Device

/-! ### scopes -/

theorem slookup_mem {sc : Scope} {a : String} {b : VId} (h : slookup sc a = some b) : (a, b) ∈ sc := by
  unfold slookup at h
  cases hf : sc.find? (fun p => decide (p.1 = a)) with
  | none => simp [hf] at h
  | some p =>
    simp [hf] at h
    have h1 := List.mem_of_find?_eq_some hf
    have h2 := List.find?_some hf
    simp at h2
    have : p = (a, b) := by cases p; simp_all
    rw [← this]; exact h1

theorem slookup_isSome_of_mem {sc : Scope} {a : String} {b : VId} (h : (a, b) ∈ sc) :
    ∃ b', slookup sc a = some b' := by
  unfold slookup
  cases hf : sc.find? (fun p => decide (p.1 = a)) with
  | none =>
    rw [List.find?_eq_none] at hf
    have := hf (a, b) h
    simp at this
  | some p => exact ⟨p.2, rfl⟩

theorem slookup_cons (sc : Scope) (a x : String) (b : VId) :
    slookup ((a, b) :: sc) x = if a = x then some b else slookup sc x := by
  unfold slookup
  simp only [List.find?_cons]
  by_cases h : a = x <;> simp [h]

/-- same id means same name when ids are pairwise different -/
theorem sc_inj {sc : Scope} (hinj : (sc.map (·.2)).Nodup) {a1 a2 : String} {b : VId}
    (h1 : (a1, b) ∈ sc) (h2 : (a2, b) ∈ sc) : a1 = a2 := by
  have := inj_of_nodup_map hinj h1 h2 rfl
  exact (Prod.mk.inj this).1

/-- only values were appended -/
structure VExt (a b : World) : Prop where
  values : ∃ extra, b.values = a.values ++ extra
  cfgs : b.cfgs = a.cfgs
  nodes : b.nodes = a.nodes
  models : b.models = a.models

theorem VExt.refl (a : World) : VExt a a := ⟨⟨[], by simp⟩, rfl, rfl, rfl⟩

theorem VExt.trans {a b c : World} (h1 : VExt a b) (h2 : VExt b c) : VExt a c := by
  obtain ⟨e1, he1⟩ := h1.values
  obtain ⟨e2, he2⟩ := h2.values
  exact ⟨⟨e1 ++ e2, by rw [he2, he1, List.append_assoc]⟩, h2.cfgs.trans h1.cfgs, h2.nodes.trans h1.nodes,
    h2.models.trans h1.models⟩

theorem VExt.len {a b : World} (h : VExt a b) : a.values.length ≤ b.values.length := by
  obtain ⟨e, he⟩ := h.values; rw [he]; simp

theorem VExt.value {a b : World} (h : VExt a b) {v : VId} (hv : v < a.values.length) : b.value v = a.value v := by
  obtain ⟨e, he⟩ := h.values
  simp [World.value, he, List.getD_eq_getElem?_getD, List.getElem?_append_left hv]

theorem VExt.toExt {a b : World} (h : VExt a b) : Ext a b := by
  obtain ⟨e, he⟩ := h.values
  exact Ext.of_append e he h.cfgs

theorem VExt.push (a : World) (x : ValueS) : VExt a { a with values := a.values ++ [x] } :=
  ⟨⟨[x], rfl⟩, rfl, rfl, rfl⟩

theorem value_push (a : World) (x : ValueS) : World.value { a with values := a.values ++ [x] } a.values.length = x := by
  simp [World.value, List.getD_eq_getElem?_getD]

/-- what holds of a scope of value names during deserialization (relative to the source world `w`
    and the values `vals` the source graph mentions) -/
structure ScopeOK (w : World) (vals : List VId) (wd : World) (sc : Scope) : Prop where
  lt : ∀ p ∈ sc, p.2 < wd.values.length
  inj : (sc.map (·.2)).Nodup
  shape : ∀ p ∈ sc, p.1 ≠ "" → ∀ v ∈ vals, (w.value v).name = p.1 →
    (wd.value p.2).shape = (w.value v).shape ∨ (wd.value p.2).shape = none

theorem ScopeOK.vext {w : World} {vals : List VId} {wd wd' : World} {sc : Scope}
    (h : ScopeOK w vals wd sc) (he : VExt wd wd') : ScopeOK w vals wd' sc := by
  refine ⟨fun p hp => Nat.lt_of_lt_of_le (h.lt p hp) he.len, h.inj, ?_⟩
  intro p hp hne v hv hname
  rw [he.value (h.lt p hp)]
  exact h.shape p hp hne v hv hname

/-- entering a fresh value under a name that is not yet in the scope -/
theorem ScopeOK.push {w : World} {vals : List VId} {wd : World} {sc : Scope} (h : ScopeOK w vals wd sc)
    (name : String) (x : ValueS)
    (hx : name ≠ "" → ∀ v ∈ vals, (w.value v).name = name → x.shape = (w.value v).shape ∨ x.shape = none) :
    ScopeOK w vals { wd with values := wd.values ++ [x] } ((name, wd.values.length) :: sc) := by
  have he := VExt.push wd x
  refine ⟨?_, ?_, ?_⟩
  · intro p hp
    simp only [List.mem_cons] at hp
    rcases hp with hp | hp
    · subst hp; simp
    · exact Nat.lt_of_lt_of_le (h.lt p hp) he.len
  · simp only [List.map_cons, List.nodup_cons, List.mem_map, not_exists, not_and]
    refine ⟨?_, h.inj⟩
    intro p hp e
    have := h.lt p hp
    rw [e] at this
    exact Nat.lt_irrefl _ this
  · intro p hp hne v hv hname
    simp only [List.mem_cons] at hp
    rcases hp with hp | hp
    · subst hp
      simp only
      rw [value_push]
      exact hx hne v hv hname
    · rw [he.value (h.lt p hp)]
      exact h.shape p hp hne v hv hname

/-! ### node inputs by name -/

structure InputsSpec (w : World) (vals : List VId) (wd : World) (sc : Scope) (ins : List (Option VId))
    (r : World × Scope × List (Option VId)) : Prop where
  vext : VExt wd r.1
  ok : ScopeOK w vals r.1 r.2.1
  mono : ∀ x b, slookup sc x = some b → slookup r.2.1 x = some b
  found : ∀ v, some v ∈ ins → (w.value v).name ≠ "" →
    ∃ b, slookup r.2.1 (w.value v).name = some b ∧ some b ∈ r.2.2
  lt : ∀ b, some b ∈ r.2.2 → b < r.1.values.length

theorem deserInputs_spec (w : World) (vals : List VId) : ∀ (ins : List (Option VId)) (wd : World) (sc : Scope),
    ScopeOK w vals wd sc → InputsSpec w vals wd sc ins (deserInputs w (wd, sc) ins) := by
  intro ins
  induction ins with
  | nil =>
    intro wd sc h
    exact ⟨VExt.refl wd, h, fun _ _ hx => hx, by simp, by simp [deserInputs]⟩
  | cons o rest ih =>
    intro wd sc h
    cases o with
    | none =>
      obtain ⟨a, b, c, d, e⟩ := ih wd sc h
      simp only [deserInputs]
      refine ⟨a, b, c, ?_, ?_⟩
      · intro v hv hne
        simp only [List.mem_cons] at hv
        rcases hv with hv | hv
        · cases hv
        · obtain ⟨x, hx1, hx2⟩ := d v hv hne
          exact ⟨x, hx1, by simp [hx2]⟩
      · intro x hx
        simp only [List.mem_cons] at hx
        rcases hx with hx | hx
        · cases hx
        · exact e x hx
    | some v0 =>
      simp only [deserInputs]
      split
      · rename_i hname
        obtain ⟨a, b, c, d, e⟩ := ih wd sc h
        refine ⟨a, b, c, ?_, ?_⟩
        · intro v hv hne
          simp only [List.mem_cons] at hv
          rcases hv with hv | hv
          · cases hv; exact absurd hname hne
          · obtain ⟨x, hx1, hx2⟩ := d v hv hne
            exact ⟨x, hx1, by simp [hx2]⟩
        · intro x hx
          simp only [List.mem_cons] at hx
          rcases hx with hx | hx
          · cases hx
          · exact e x hx
      · rename_i hname
        cases hl : slookup sc (w.value v0).name with
        | some v' =>
          simp only []
          obtain ⟨a, b, c, d, e⟩ := ih wd sc h
          refine ⟨a, b, c, ?_, ?_⟩
          · intro v hv hne
            simp only [List.mem_cons] at hv
            rcases hv with hv | hv
            · cases hv; exact ⟨v', c _ _ hl, by simp⟩
            · obtain ⟨x, hx1, hx2⟩ := d v hv hne
              exact ⟨x, hx1, by simp [hx2]⟩
          · intro x hx
            simp only [List.mem_cons] at hx
            rcases hx with hx | hx
            · cases hx
              exact Nat.lt_of_lt_of_le (h.lt _ (slookup_mem hl)) a.len
            · exact e x hx
        | none =>
          simp only []
          have hpush := h.push (w.value v0).name ({ name := (w.value v0).name, shape := none } : ValueS)
            (fun _ _ _ _ => Or.inr rfl)
          obtain ⟨a, b, c, d, e⟩ := ih _ _ hpush
          have hnew : slookup (((w.value v0).name, wd.values.length) :: sc) (w.value v0).name = some wd.values.length := by
            rw [slookup_cons]; simp
          refine ⟨(VExt.push wd _).trans a, b, ?_, ?_, ?_⟩
          · intro x y hxy
            apply c
            rw [slookup_cons]
            split
            · rename_i hx; subst hx; rw [hl] at hxy; cases hxy
            · exact hxy
          · intro v hv hne
            simp only [List.mem_cons] at hv
            rcases hv with hv | hv
            · cases hv; exact ⟨wd.values.length, c _ _ hnew, by simp⟩
            · obtain ⟨x, hx1, hx2⟩ := d v hv hne
              exact ⟨x, hx1, by simp [hx2]⟩
          · intro x hx
            simp only [List.mem_cons] at hx
            rcases hx with hx | hx
            · cases hx
              have : wd.values.length < (wd.values ++ [({ name := (w.value v0).name, shape := none } : ValueS)]).length := by simp
              exact Nat.lt_of_lt_of_le this a.len
            · exact e x hx

/-! ### node outputs by name -/

structure OutputsSpec (w : World) (vals : List VId) (wd : World) (sc : Scope) (outs : List VId)
    (r : World × List VId) : Prop where
  vext : VExt wd r.1
  found : ∀ o ∈ outs, (w.value o).name ≠ "" → ∀ b, slookup sc (w.value o).name = some b → b ∈ r.2
  lt : ∀ b ∈ r.2, b < r.1.values.length

theorem deserOutputs_spec (w : World) (vals : List VId) (sc : Scope) : ∀ (outs : List VId) (wd : World),
    ScopeOK w vals wd sc → OutputsSpec w vals wd sc outs (deserOutputs w sc wd outs) := by
  intro outs
  induction outs with
  | nil => intro wd _; exact ⟨VExt.refl wd, by simp, by simp [deserOutputs]⟩
  | cons o rest ih =>
    intro wd h
    simp only [deserOutputs]
    cases hm : (if (w.value o).name = "" then none else slookup sc (w.value o).name) with
    | some v' =>
      simp only
      obtain ⟨a, b, c⟩ := ih wd h
      have hv' : slookup sc (w.value o).name = some v' := by
        split at hm
        · cases hm
        · exact hm
      refine ⟨a, ?_, ?_⟩
      · intro x hx hne y hy
        simp only [List.mem_cons] at hx
        rcases hx with hx | hx
        · subst hx; rw [hv'] at hy; cases hy; simp
        · exact List.mem_cons_of_mem _ (b x hx hne y hy)
      · intro y hy
        simp only [List.mem_cons] at hy
        rcases hy with hy | hy
        · subst hy; exact Nat.lt_of_lt_of_le (h.lt _ (slookup_mem hv')) a.len
        · exact c y hy
    | none =>
      simp only
      have he := VExt.push wd ({ name := (w.value o).name, shape := none } : ValueS)
      obtain ⟨a, b, c⟩ := ih _ (h.vext he)
      refine ⟨he.trans a, ?_, ?_⟩
      · intro x hx hne y hy
        simp only [List.mem_cons] at hx
        rcases hx with hx | hx
        · subst hx
          simp only [hne, if_false] at hm
          rw [hm] at hy; cases hy
        · exact List.mem_cons_of_mem _ (b x hx hne y hy)
      · intro y hy
        simp only [List.mem_cons] at hy
        rcases hy with hy | hy
        · subst hy
          have : wd.values.length < (wd.values ++ [({ name := (w.value o).name, shape := none } : ValueS)]).length := by simp
          exact Nat.lt_of_lt_of_le this a.len
        · exact c y hy

/-! ### device configurations by name, when every name resolves -/

def resolveSpec (sc : Scope) (p : PSpec) : Spec :=
  { value := (slookup sc p.tensor).getD 0, device := p.device, dims := p.dims }

theorem deserSpecs_resolved (sc : Scope) : ∀ (ps : List PSpec) (wd : World),
    (∀ p ∈ ps, ∃ b, slookup sc p.tensor = some b) →
    deserSpecs sc wd ps = (wd, ps.map (resolveSpec sc)) := by
  intro ps
  induction ps with
  | nil => intro wd _; rfl
  | cons p rest ih =>
    intro wd h
    obtain ⟨b, hb⟩ := h p (by simp)
    simp only [deserSpecs, hb]
    rw [ih wd (fun q hq => h q (by simp [hq]))]
    simp [resolveSpec, hb]

def klookup (known : List (String × CId)) (s : String) : Option CId :=
  (known.find? (fun q => decide (q.1 = s))).map (·.2)

def resolveCfg (sc : Scope) (known : List (String × CId)) (p : PCfg) : NodeCfg :=
  { cfg := (klookup known p.id).getD 0, specs := p.specs.map (resolveSpec sc), stage := p.stage }

theorem deserCfgs_resolved (sc : Scope) (known : List (String × CId)) : ∀ (ps : List PCfg) (wd : World),
    (∀ p ∈ ps, (∃ c, klookup known p.id = some c) ∧ ∀ q ∈ p.specs, ∃ b, slookup sc q.tensor = some b) →
    deserCfgs sc known wd ps = (wd, ps.map (resolveCfg sc known)) := by
  intro ps
  induction ps with
  | nil => intro wd _; rfl
  | cons p rest ih =>
    intro wd h
    obtain ⟨⟨c, hc⟩, hsp⟩ := h p (by simp)
    have hc' : (known.find? (fun q => decide (q.1 = p.id))).map (·.2) = some c := hc
    simp only [deserCfgs, deserSpecs_resolved sc p.specs wd hsp, hc']
    rw [ih wd (fun q hq => h q (by simp [hq]))]
    simp [resolveCfg, hc]

/-! ### one node -/

theorem mem_dropWhile_of_not {α : Type} {p : α → Bool} : ∀ {l : List α} {x : α}, x ∈ l → p x = false →
    x ∈ l.dropWhile p := by
  intro l
  induction l with
  | nil => intro x hx; cases hx
  | cons a rest ih =>
    intro x hx hp
    simp only [List.dropWhile_cons]
    split
    · rename_i hpa
      simp only [List.mem_cons] at hx
      rcases hx with hx | hx
      · subst hx; rw [hp] at hpa; cases hpa
      · exact ih hx hp
    · exact hx

theorem mem_serOutputs {w : World} {nd : NodeS} {o : VId} (ho : o ∈ nd.outputs)
    (hne : (w.value o).name ≠ "") : o ∈ serOutputs w nd := by
  unfold serOutputs
  rw [List.mem_reverse]
  apply mem_dropWhile_of_not (List.mem_reverse.mpr ho)
  simp [hne]

theorem serOutputs_sub {w : World} {nd : NodeS} {o : VId} (ho : o ∈ serOutputs w nd) : o ∈ nd.outputs := by
  unfold serOutputs at ho
  rw [List.mem_reverse] at ho
  exact List.mem_reverse.mp ((List.dropWhile_sublist _).subset ho)

/-- the registered configurations of the source resolve, by name, to their copies -/
structure KnownOK (w : World) (ms : ModelS) (wd : World) (known : List (String × CId))
    (newCfgs : List CId) : Prop where
  found : ∀ c ∈ rtRegs ms, ∃ c', klookup known (w.cfg c).name = some c' ∧ c' ∈ newCfgs ∧
    c' < wd.cfgs.length ∧ wd.cfg c' = w.cfg c
  inj : ∀ n1 n2 c', klookup known n1 = some c' → klookup known n2 = some c' → n1 = n2

/-- the annotations the deserialized node gets -/
def rtDev (w : World) (sc : Scope) (known : List (String × CId)) (dev0 : List NodeCfg) : List NodeCfg :=
  (dev0.map (cfgProto w)).map (resolveCfg sc known)

theorem rtNode_ok {w : World} {ms : ModelS} {nd : NodeS} {dev0 : List NodeCfg}
    {wd w3 : World} {sc1 : Scope} {known : List (String × CId)} {newCfgs : List CId}
    {ins' : List (Option VId)} {outs' : List VId}
    (hU : NamesUnique w ms) (hmo : ModelOK w ms) (hnd : NodeOK w nd)
    (hvals : ∀ v, InIO nd v → v ∈ modelValues w ms)
    (hsub : dev0.Sublist nd.dev)
    (hnamed : ∀ nc ∈ dev0, ∀ s ∈ nc.specs, (w.value s.value).name ≠ "")
    (hregs : ∀ nc ∈ dev0, nc.cfg ∈ rtRegs ms)
    (hk : KnownOK w ms wd known newCfgs) (hcf : w3.cfgs = wd.cfgs)
    (hsc : ScopeOK w (modelValues w ms) w3 sc1)
    (hin : ∀ v, some v ∈ nd.inputs → (w.value v).name ≠ "" →
      ∃ b, slookup sc1 (w.value v).name = some b ∧ some b ∈ ins')
    (hout : ∀ o ∈ nd.outputs, (w.value o).name ≠ "" →
      ∃ b, slookup sc1 (w.value o).name = some b ∧ b ∈ outs')
    (hinlt : ∀ b, some b ∈ ins' → b < w3.values.length) (houtlt : ∀ b ∈ outs', b < w3.values.length) :
    NodeOK w3 { inputs := ins', outputs := outs', dev := rtDev w sc1 known dev0 } ∧
    (∀ nc ∈ rtDev w sc1 known dev0, nc.cfg ∈ newCfgs) ∧
    (∀ p ∈ dev0.map (cfgProto w), (∃ c, klookup known p.id = some c) ∧
      ∀ q ∈ p.specs, ∃ b, slookup sc1 q.tensor = some b) := by
  obtain ⟨hids, hndup, hall⟩ := hnd
  have hregsub : ∀ c ∈ rtRegs ms, c ∈ ms.cfgs := by
    intro c hc; unfold rtRegs at hc; split at hc
    · exact hc
    · cases hc
  -- every spec value resolves into the new node
  have hres : ∀ nc ∈ dev0, ∀ s ∈ nc.specs, ∃ b, slookup sc1 (w.value s.value).name = some b ∧
      InIO ({ inputs := ins', outputs := outs', dev := rtDev w sc1 known dev0 } : NodeS) b := by
    intro nc hnc s hs
    have hio := ((hall nc (hsub.subset hnc)).2.2.2 s hs).1
    have hne := hnamed nc hnc s hs
    rcases hio with hio | hio
    · obtain ⟨b, hb1, hb2⟩ := hin _ hio hne
      exact ⟨b, hb1, Or.inl hb2⟩
    · obtain ⟨b, hb1, hb2⟩ := hout _ hio hne
      exact ⟨b, hb1, Or.inr hb2⟩
  have hresc : ∀ nc ∈ dev0, ∃ c', klookup known (w.cfg nc.cfg).name = some c' ∧ c' ∈ newCfgs ∧
      c' < wd.cfgs.length ∧ wd.cfg c' = w.cfg nc.cfg := fun nc hnc => hk.found _ (hregs nc hnc)
  have hdev : rtDev w sc1 known dev0 = dev0.map (fun nc => resolveCfg sc1 known (cfgProto w nc)) := by
    simp [rtDev, List.map_map, Function.comp_def]
  refine ⟨⟨⟨?_, ?_⟩, ?_, ?_⟩, ?_, ?_⟩
  · intro o ho v hov; subst hov; exact hinlt v ho
  · exact houtlt
  · -- one record per configuration
    show ((rtDev w sc1 known dev0).map (·.cfg)).Nodup
    rw [hdev, List.map_map]
    have : dev0.map ((fun nc : NodeCfg => nc.cfg) ∘ fun nc => resolveCfg sc1 known (cfgProto w nc))
        = (dev0.map (·.cfg)).map (fun c => (klookup known (w.cfg c).name).getD 0) := by
      rw [List.map_map]; rfl
    rw [this]
    apply nodup_map_of_inj_on ((hsub.map _).nodup hndup)
    intro c1 h1 c2 h2 e
    simp only [List.mem_map] at h1 h2
    obtain ⟨nc1, hn1, rfl⟩ := h1
    obtain ⟨nc2, hn2, rfl⟩ := h2
    obtain ⟨a1, ha1, _⟩ := hresc nc1 hn1
    obtain ⟨a2, ha2, _⟩ := hresc nc2 hn2
    simp only [ha1, ha2, Option.getD_some] at e
    subst e
    have hnames := hk.inj _ _ _ ha1 ha2
    exact inj_of_nodup_map hmo.2.2 (hregsub _ (hregs nc1 hn1)) (hregsub _ (hregs nc2 hn2)) hnames
  · intro nc' hnc'
    have hnc'' : nc' ∈ rtDev w sc1 known dev0 := hnc'
    rw [hdev] at hnc''
    simp only [List.mem_map] at hnc''
    obtain ⟨nc, hnc, rfl⟩ := hnc''
    obtain ⟨c', hc1, hc2, hc3, hc4⟩ := hresc nc hnc
    obtain ⟨a, b, c, d⟩ := hall nc (hsub.subset hnc)
    have hcfgeq : (resolveCfg sc1 known (cfgProto w nc)).cfg = c' := by
      simp [resolveCfg, cfgProto, hc1]
    refine ⟨by rw [hcfgeq, hcf]; exact hc3, b, ?_, ?_⟩
    · -- one spec per value
      show (((cfgProto w nc).specs.map (resolveSpec sc1)).map (·.value)).Nodup
      have : ((cfgProto w nc).specs.map (resolveSpec sc1)).map (·.value)
          = (nc.specs.map (·.value)).map (fun v => (slookup sc1 (w.value v).name).getD 0) := by
        simp [cfgProto, specProto, resolveSpec, List.map_map, Function.comp_def]
      rw [this]
      apply nodup_map_of_inj_on c
      intro v1 h1 v2 h2 e
      simp only [List.mem_map] at h1 h2
      obtain ⟨s1, hs1, rfl⟩ := h1
      obtain ⟨s2, hs2, rfl⟩ := h2
      obtain ⟨b1, hb1, _⟩ := hres nc hnc s1 hs1
      obtain ⟨b2, hb2, _⟩ := hres nc hnc s2 hs2
      simp only [hb1, hb2, Option.getD_some] at e
      subst e
      have hnames := sc_inj hsc.inj (slookup_mem hb1) (slookup_mem hb2)
      exact hU _ (hvals _ (d s1 hs1).1) _ (hvals _ (d s2 hs2).1) hnames (hnamed nc hnc s1 hs1)
    · intro s' hs'
      have hs'' : s' ∈ (cfgProto w nc).specs.map (resolveSpec sc1) := hs'
      simp only [cfgProto, List.map_map, List.mem_map] at hs''
      obtain ⟨s, hs, rfl⟩ := hs''
      obtain ⟨b0, hb1, hb2⟩ := hres nc hnc s hs
      have hval : ((resolveSpec sc1 ∘ specProto w) s).value = b0 := by
        simp [resolveSpec, specProto, hb1]
      refine ⟨by rw [hval]; exact hb2, ?_⟩
      obtain ⟨hio, hwf1, hwf2, hwf3, hwf4⟩ := d s hs
      have hshape := hsc.shape _ (slookup_mem hb1) (hnamed nc hnc s hs) s.value (hvals _ hio) rfl
      have hnum : (w3.cfg (resolveCfg sc1 known (cfgProto w nc)).cfg).numDevices = (w.cfg nc.cfg).numDevices := by
        rw [hcfgeq]
        have : w3.cfg c' = wd.cfg c' := by simp [World.cfg, hcf]
        rw [this, hc4]
      show SpecWF w3 (w3.cfg (resolveCfg sc1 known (cfgProto w nc)).cfg).numDevices _
      rw [hnum]
      unfold SpecWF
      rw [hval]
      have hdims : ((resolveSpec sc1 ∘ specProto w) s).dims = s.dims := rfl
      have hdevs : ((resolveSpec sc1 ∘ specProto w) s).device = s.device := rfl
      rw [hdims, hdevs]
      rcases hshape with hsh | hsh
      · have : rankOf (w3.value b0) = rankOf (w.value s.value) := by simp [rankOf, hsh]
        rw [this]; exact ⟨hwf1, hwf2, hwf3, hwf4⟩
      · have : rankOf (w3.value b0) = none := by simp [rankOf, hsh]
        rw [this]
        refine ⟨fun _ _ h => h, ?_, hwf3, hwf4⟩
        have h1 : s.dims.map (fun d => normAxis (rankOf (w.value s.value)) d.axis)
            = (s.dims.map (fun d => normAxis none d.axis)).map (normAxis (rankOf (w.value s.value))) := by
          rw [List.map_map]; rfl
        rw [h1] at hwf2
        exact List.Pairwise.of_map _ (fun a b hne e => hne (by rw [e])) hwf2
  · intro nc' hnc'
    rw [hdev] at hnc'
    simp only [List.mem_map] at hnc'
    obtain ⟨nc, hnc, rfl⟩ := hnc'
    obtain ⟨c', hc1, hc2, _, _⟩ := hresc nc hnc
    have : (resolveCfg sc1 known (cfgProto w nc)).cfg = c' := by simp [resolveCfg, cfgProto, hc1]
    rw [this]; exact hc2
  · intro p hp
    simp only [List.mem_map] at hp
    obtain ⟨nc, hnc, rfl⟩ := hp
    obtain ⟨c', hc1, _⟩ := hresc nc hnc
    refine ⟨⟨c', hc1⟩, ?_⟩
    intro q hq
    simp only [cfgProto, List.mem_map] at hq
    obtain ⟨s, hs, rfl⟩ := hq
    obtain ⟨b, hb, _⟩ := hres nc hnc s hs
    exact ⟨b, hb⟩

/-! ### declaring the node outputs -/

theorem ScopeOK.of_values_eq {w : World} {vals : List VId} {wd wd' : World} {sc : Scope}
    (h : ScopeOK w vals wd sc) (hv : wd'.values = wd.values) : ScopeOK w vals wd' sc := by
  refine ⟨fun p hp => by rw [hv]; exact h.lt p hp, h.inj, ?_⟩
  intro p hp hne v hvm hname
  have : wd'.value p.2 = wd.value p.2 := by simp [World.value, hv]
  rw [this]; exact h.shape p hp hne v hvm hname

theorem declareOutputs_spec (w : World) (vals : List VId)
    (hU : ∀ a ∈ vals, ∀ b ∈ vals, (w.value a).name = (w.value b).name → (w.value a).name ≠ "" → a = b) :
    ∀ (outs : List VId) (wd : World) (sc : Scope) (st : World × Scope),
    ScopeOK w vals wd sc → (∀ o ∈ outs, o ∈ vals) → declareOutputs w (wd, sc) outs = some st →
    VExt wd st.1 ∧ ScopeOK w vals st.1 st.2 ∧ (∀ x b, slookup sc x = some b → slookup st.2 x = some b) ∧
    (∀ o ∈ outs, (w.value o).name ≠ "" → ∃ b, slookup st.2 (w.value o).name = some b) := by
  intro outs
  induction outs with
  | nil =>
    intro wd sc st h _ hd
    simp only [declareOutputs, Option.some.injEq] at hd
    subst hd
    exact ⟨VExt.refl wd, h, fun _ _ hx => hx, by simp⟩
  | cons o rest ih =>
    intro wd sc st h hvals hd
    simp only [declareOutputs] at hd
    split at hd
    · rename_i hname
      obtain ⟨a, b, c, d⟩ := ih wd sc st h (fun x hx => hvals x (by simp [hx])) hd
      refine ⟨a, b, c, ?_⟩
      intro x hx hne
      simp only [List.mem_cons] at hx
      rcases hx with hx | hx
      · subst hx; exact absurd hname hne
      · exact d x hx hne
    · rename_i hname
      split at hd
      · cases hd
      · rename_i hnone
        have hl : slookup sc (w.value o).name = none := by
          cases hx : slookup sc (w.value o).name with
          | none => rfl
          | some y => simp [hx] at hnone
        have hpush := h.push (w.value o).name (w.value o) (by
          intro _ v hv hnm
          left
          have := hU v hv o (hvals o (by simp)) hnm (by rw [hnm]; exact hname)
          rw [this])
        obtain ⟨a, b, c, d⟩ := ih _ _ st hpush (fun x hx => hvals x (by simp [hx])) hd
        have hnew : slookup (((w.value o).name, wd.values.length) :: sc) (w.value o).name = some wd.values.length := by
          rw [slookup_cons]; simp
        refine ⟨(VExt.push wd _).trans a, b, ?_, ?_⟩
        · intro x y hxy
          apply c
          rw [slookup_cons]
          split
          · rename_i hx; subst hx; rw [hl] at hxy; cases hxy
          · exact hxy
        · intro x hx hne
          simp only [List.mem_cons] at hx
          rcases hx with hx | hx
          · subst hx; exact ⟨_, c _ _ hnew⟩
          · exact d x hx hne

/-! ### all nodes -/

/-- what holds of the world and scope while the nodes are being deserialized -/
structure RTInv (w : World) (ms : ModelS) (newCfgs : List CId) (wd : World) (sc : Scope) : Prop where
  ext : Ext w wd
  cfgs : wd.cfgs = w.cfgs ++ (rtRegs ms).map w.cfg
  models : wd.models = w.models
  nodes : ∃ extra, wd.nodes = w.nodes ++ extra ∧
    ∀ nd ∈ extra, NodeOK wd nd ∧ ∀ nc ∈ nd.dev, nc.cfg ∈ newCfgs
  scope : ScopeOK w (modelValues w ms) wd sc
  declared : ∀ n ∈ ms.nodes, ∀ o ∈ serOutputs w (w.node n), (w.value o).name ≠ "" →
    ∃ b, slookup sc (w.value o).name = some b

/-- the pair `deserNodes` receives for node `n`: the node with trimmed outputs and the protos of
    the annotations that were serialized for it -/
def rtPair (w : World) (devOf : NId → List NodeCfg) (n : NId) : NodeS × List PCfg :=
  ({ (w.node n) with outputs := serOutputs w (w.node n) }, (devOf n).map (cfgProto w))

theorem mem_modelValues_of_io {w : World} {ms : ModelS} {n : NId} (hn : n ∈ ms.nodes) {v : VId}
    (hv : InIO (w.node n) v) : v ∈ modelValues w ms := by
  unfold modelValues
  rw [List.mem_append]
  right
  simp only [List.mem_flatten, List.mem_map]
  refine ⟨_, ⟨n, hn, rfl⟩, ?_⟩
  rw [List.mem_append]
  rcases hv with hv | hv
  · left; simp only [List.mem_filterMap, id]; exact ⟨some v, hv, rfl⟩
  · right; exact hv

theorem deserNodes_inv {w : World} {ms : ModelS} {known : List (String × CId)} {newCfgs : List CId}
    (devOf : NId → List NodeCfg)
    (hU : NamesUnique w ms) (hD : DevOK w) (hmo : ModelOK w ms)
    (hsub : ∀ n, (devOf n).Sublist (w.node n).dev)
    (hnamed : ∀ n ∈ ms.nodes, ∀ nc ∈ devOf n, ∀ s ∈ nc.specs, (w.value s.value).name ≠ "")
    (hregs : ∀ n ∈ ms.nodes, ∀ nc ∈ devOf n, nc.cfg ∈ rtRegs ms)
    (hk : ∀ wd, wd.cfgs = w.cfgs ++ (rtRegs ms).map w.cfg → KnownOK w ms wd known newCfgs) :
    ∀ (ns0 : List NId) (wd : World) (sc : Scope) (acc : List NId), (∀ n ∈ ns0, n ∈ ms.nodes) →
    RTInv w ms newCfgs wd sc → (∀ k ∈ acc, w.nodes.length ≤ k ∧ k < wd.nodes.length) →
    ∃ scf, RTInv w ms newCfgs (deserNodes w known (wd, sc) (ns0.map (rtPair w devOf)) acc).1 scf ∧
      ∀ k ∈ (deserNodes w known (wd, sc) (ns0.map (rtPair w devOf)) acc).2,
        w.nodes.length ≤ k ∧ k < (deserNodes w known (wd, sc) (ns0.map (rtPair w devOf)) acc).1.nodes.length := by
  intro ns0
  induction ns0 with
  | nil =>
    intro wd sc acc _ h hacc
    exact ⟨sc, h, fun k hk => hacc k (List.mem_reverse.mp hk)⟩
  | cons n rest ih =>
    intro wd sc acc hns h hacc
    have hn : n ∈ ms.nodes := hns n (by simp)
    simp only [List.map_cons, rtPair, deserNodes]
    -- inputs
    have h1 := deserInputs_spec w (modelValues w ms) (w.node n).inputs wd sc h.scope
    generalize hr1 : deserInputs w (wd, sc) (w.node n).inputs = r1 at h1 ⊢
    obtain ⟨wd1, sc1, ins'⟩ := r1
    obtain ⟨e1, ok1, mono1, found1, lt1⟩ := h1
    simp only at e1 ok1 mono1 found1 lt1 ⊢
    -- outputs
    have h2 := deserOutputs_spec w (modelValues w ms) sc1 (serOutputs w (w.node n)) wd1 ok1
    generalize hr2 : deserOutputs w sc1 wd1 (serOutputs w (w.node n)) = r2 at h2 ⊢
    obtain ⟨wd2, outs'⟩ := r2
    obtain ⟨e2, found2, lt2⟩ := h2
    simp only at e2 found2 lt2 ⊢
    have e12 : VExt wd wd2 := e1.trans e2
    have hcf2 : wd2.cfgs = wd.cfgs := e12.cfgs
    have ok2 : ScopeOK w (modelValues w ms) wd2 sc1 := ok1.vext e2
    -- the node
    have hnode := rtNode_ok (nd := w.node n) (dev0 := devOf n) (wd := wd) (w3 := wd2) (sc1 := sc1)
      (known := known) (newCfgs := newCfgs) (ins' := ins') (outs' := outs') hU hmo (hD.node n)
      (fun v hv => mem_modelValues_of_io hn hv) (hsub n) (hnamed n hn) (hregs n hn) (hk wd h.cfgs) hcf2 ok2
      (fun v hv hne => found1 v hv hne)
      (by
        intro o ho hne
        have hso := mem_serOutputs ho hne
        obtain ⟨b, hb⟩ := h.declared n hn o hso hne
        have hb1 := mono1 _ _ hb
        exact ⟨b, hb1, found2 o hso hne b hb1⟩)
      (fun b hb => Nat.lt_of_lt_of_le (lt1 b hb) e2.len) lt2
    obtain ⟨hnok, hncfg, hresolved⟩ := hnode
    rw [deserCfgs_resolved sc1 known _ wd2 hresolved]
    simp only
    -- the world with the new node
    generalize hnn : ({ inputs := ins', outputs := outs', dev := List.map (resolveCfg sc1 known) (List.map (cfgProto w) (devOf n)) } : NodeS) = nn
    have hnok' : NodeOK wd2 nn := by rw [← hnn]; exact hnok
    have hncfg' : ∀ nc ∈ nn.dev, nc.cfg ∈ newCfgs := by rw [← hnn]; exact hncfg
    obtain ⟨extra, hex, hok⟩ := h.nodes
    have hext2 : Ext wd wd2 := e12.toExt
    apply ih
    · intro x hx; exact hns x (by simp [hx])
    · refine ⟨h.ext.trans (Ext.of_eq (w := wd2) rfl rfl |> fun e => hext2.trans e), ?_, ?_, ?_, ?_, ?_⟩
      · show wd2.cfgs = _
        rw [hcf2]; exact h.cfgs
      · show wd2.models = _
        rw [e12.models]; exact h.models
      · refine ⟨extra ++ [nn], ?_, ?_⟩
        · show wd2.nodes ++ [nn] = w.nodes ++ (extra ++ [nn])
          rw [e12.nodes, hex, List.append_assoc]
        · intro x hx
          simp only [List.mem_append, List.mem_singleton] at hx
          rcases hx with hx | hx
          · exact ⟨((hok x hx).1.ext hext2).ext (Ext.of_eq rfl rfl), (hok x hx).2⟩
          · subst hx
            exact ⟨hnok'.ext (Ext.of_eq rfl rfl), hncfg'⟩
      · exact ok2.of_values_eq rfl
      · intro n' hn' o ho hne
        obtain ⟨b, hb⟩ := h.declared n' hn' o ho hne
        exact ⟨b, mono1 _ _ hb⟩
    · intro k hk
      simp only [List.mem_cons] at hk
      rcases hk with hk | hk
      · subst hk
        simp only [List.length_append, List.length_singleton]
        rw [e12.nodes, hex]
        simp only [List.length_append]
        exact ⟨Nat.le_add_right _ _, Nat.lt_succ_self _⟩
      · simp only [List.length_append, List.length_singleton]
        rw [e12.nodes]
        exact ⟨(hacc k hk).1, Nat.lt_succ_of_lt (hacc k hk).2⟩

/-! ### what was serialized -/

theorem optAll_all {α : Type} : ∀ {l : List (Option α)} {r : List α}, optAll l = some r →
    ∀ o ∈ l, ∃ a, o = some a := by
  intro l
  induction l with
  | nil => intro _ _ o ho; cases ho
  | cons x rest ih =>
    intro r h o ho
    cases x with
    | none => simp [optAll] at h
    | some a =>
      simp only [optAll] at h
      cases hr : optAll rest with
      | none => simp [hr] at h
      | some r0 =>
        simp only [List.mem_cons] at ho
        rcases ho with ho | ho
        · exact ⟨a, ho⟩
        · exact ih hr o ho

/-- the annotations of node `n` that reach the proto -/
def serDevOf (w : World) (ms : ModelS) (n : NId) : List NodeCfg :=
  if 11 ≤ ms.irVersion then (w.node n).dev else []

theorem serModelDev_protos {w : World} {m : MId} {protos : List (List PCfg)}
    (h : serModelDev w m = some protos) :
    protos = (w.model m).nodes.map (fun n => (serDevOf w (w.model m) n).map (cfgProto w)) ∧
    ∀ n ∈ (w.model m).nodes, ∀ nc ∈ serDevOf w (w.model m) n,
      ∀ s ∈ nc.specs, (w.value s.value).name ≠ "" := by
  by_cases hir : 11 ≤ (w.model m).irVersion
  · constructor
    · rw [serModelDev_eq h hir]
      apply List.map_congr_left
      intro n _
      simp [serDevOf, hir]
    · intro n hn nc hnc s hs
      simp only [serDevOf, hir, if_true] at hnc
      unfold serModelDev at h
      obtain ⟨a, ha⟩ := optAll_all h (serNodeDev w (w.model m).irVersion (w.node n))
        (List.mem_map_of_mem (f := fun n => serNodeDev w (w.model m).irVersion (w.node n)) hn)
      unfold serNodeDev at ha
      have : ¬ (w.model m).irVersion < 11 := by omega
      simp only [this, if_false] at ha
      obtain ⟨p, hp⟩ := optAll_all ha (serCfg w nc) (List.mem_map_of_mem hnc)
      unfold serCfg at hp
      split at hp
      · cases hp
      · cases ho : optAll (nc.specs.map (serSpec w)) with
        | none => simp [ho] at hp
        | some sp =>
          obtain ⟨q, hq⟩ := optAll_all ho (serSpec w s) (List.mem_map_of_mem hs)
          unfold serSpec at hq
          split at hq
          · cases hq
          · assumption
  · constructor
    · unfold serModelDev at h
      have hlt : (w.model m).irVersion < 11 := by omega
      have := optAll_map (f := fun n => serNodeDev w (w.model m).irVersion (w.node n))
        (g := fun _ => ([] : List PCfg)) (l := (w.model m).nodes) (r := protos) (by
          intro n _ b hb
          simp only [serNodeDev, hlt, if_true, Option.some.injEq] at hb
          exact hb.symm) h
      rw [this]
      apply List.map_congr_left
      intro n _
      simp [serDevOf, hir]
    · intro n _ nc hnc
      simp [serDevOf, hir] at hnc

/-! ### the initial scope and the configuration table -/

theorem zip_map_left' {α β γ : Type} (f : α → γ) : ∀ (l : List α) (r : List β),
    (l.map f).zip r = (l.zip r).map (fun p => (f p.1, p.2)) := by
  intro l
  induction l with
  | nil => intro r; simp
  | cons a rest ih =>
    intro r
    cases r with
    | nil => simp
    | cons b rs => simp [ih]

theorem initScope_ok (w : World) (ms : ModelS) (w2 : World) (hU : NamesUnique w ms)
    (hv : w2.values = w.values ++ ms.inputs.map w.value) :
    ScopeOK w (modelValues w ms) w2 (rtScope0 w ms) := by
  unfold rtScope0 rtNewIns
  rw [zip_map_left']
  refine ⟨?_, ?_, ?_⟩
  · intro p hp
    rw [List.mem_reverse, List.mem_map] at hp
    obtain ⟨q, hq, rfl⟩ := hp
    have := (zip_range'_value (wc := w) (outs := ms.inputs) (a := q.1) (b := q.2) hq w2 hv).2.2.1
    rw [hv]; simpa using this
  · rw [List.map_reverse, nodup_reverse', List.map_map]
    have : (ms.inputs.zip (List.range' w.values.length ms.inputs.length)).map
        ((fun p : String × VId => p.2) ∘ fun p => ((w.value p.1).name, p.2))
        = (ms.inputs.zip (List.range' w.values.length ms.inputs.length)).map Prod.snd := by
      apply List.map_congr_left; intro p _; rfl
    rw [this, List.map_snd_zip (by simp)]
    exact List.nodup_range' (h := by decide)
  · intro p hp hne v hvm hname
    rw [List.mem_reverse, List.mem_map] at hp
    obtain ⟨q, hq, rfl⟩ := hp
    obtain ⟨h1, _, _, h4⟩ := zip_range'_value (wc := w) (outs := ms.inputs) (a := q.1) (b := q.2) hq w2 hv
    left
    simp only at hname hne ⊢
    rw [h1]
    have hq1 : q.1 ∈ modelValues w ms := by
      unfold modelValues; exact List.mem_append_left _ h4
    have := hU v hvm q.1 hq1 hname (by rw [hname]; exact hne)
    rw [this]

theorem known_ok (w : World) (ms : ModelS) (hmo : ModelOK w ms) (wd : World)
    (hc : wd.cfgs = w.cfgs ++ (rtRegs ms).map w.cfg) :
    KnownOK w ms wd (rtKnown w ms) (rtNewCfgs w ms) := by
  unfold rtKnown rtNewCfgs
  have hregsub : ∀ c ∈ rtRegs ms, c ∈ ms.cfgs := by
    intro c hc; unfold rtRegs at hc; split at hc
    · exact hc
    · cases hc
  have hnd : ((rtRegs ms).map (fun c => (w.cfg c).name)).Nodup := by
    unfold rtRegs; split
    · exact hmo.2.2
    · simp
  rw [zip_map_left']
  -- a pair of the table: index i, name of regs[i], id base + i
  have hpair : ∀ x c', (x, c') ∈ ((rtRegs ms).zip (List.range' w.cfgs.length (rtRegs ms).length)).map
        (fun p => ((w.cfg p.1).name, p.2)) →
      ∃ c ∈ rtRegs ms, x = (w.cfg c).name ∧ c' ∈ List.range' w.cfgs.length (rtRegs ms).length ∧
        c' < wd.cfgs.length ∧ wd.cfg c' = w.cfg c := by
    intro x c' hp
    rw [List.mem_map] at hp
    obtain ⟨q, hq, he⟩ := hp
    simp only [Prod.mk.injEq] at he
    obtain ⟨he1, he2⟩ := he
    subst he2
    obtain ⟨i, hi, hqi⟩ := List.getElem_of_mem hq
    simp only [List.length_zip, List.length_range', Nat.min_self] at hi
    rw [List.getElem_zip] at hqi
    have hq1 : q.1 = (rtRegs ms)[i] := by rw [← hqi]
    have hq2 : q.2 = w.cfgs.length + i := by rw [← hqi]; simp
    refine ⟨q.1, by rw [hq1]; exact List.getElem_mem _, he1.symm, ?_, ?_, ?_⟩
    · rw [hq2, List.mem_range'_1]; exact ⟨Nat.le_add_right _ _, Nat.add_lt_add_left hi _⟩
    · rw [hq2, hc]; simp only [List.length_append, List.length_map]; exact Nat.add_lt_add_left hi _
    · rw [hq2, hq1]
      have : wd.cfg (w.cfgs.length + i) = (wd.cfgs[w.cfgs.length + i]?).getD {} := by
        simp [World.cfg, List.getD_eq_getElem?_getD]
      rw [this, hc, List.getElem?_append_right (Nat.le_add_right _ _)]
      simp [hi]
  constructor
  · intro c hcr
    have hmem : ((w.cfg c).name, w.cfgs.length) ∈ [((w.cfg c).name, w.cfgs.length)] := by simp
    -- the name of c occurs in the table
    have hex : ∃ c', ((w.cfg c).name, c') ∈ (((rtRegs ms).zip (List.range' w.cfgs.length (rtRegs ms).length)).map
        (fun p => ((w.cfg p.1).name, p.2))).reverse := by
      obtain ⟨i, hi, hci⟩ := List.getElem_of_mem hcr
      refine ⟨w.cfgs.length + i, ?_⟩
      rw [List.mem_reverse, List.mem_map]
      refine ⟨(c, w.cfgs.length + i), ?_, rfl⟩
      have hlen : i < ((rtRegs ms).zip (List.range' w.cfgs.length (rtRegs ms).length)).length := by simp [hi]
      have : ((rtRegs ms).zip (List.range' w.cfgs.length (rtRegs ms).length))[i] = (c, w.cfgs.length + i) := by
        rw [List.getElem_zip]; simp [hci]
      rw [← this]; exact List.getElem_mem hlen
    obtain ⟨c0, hc0⟩ := hex
    obtain ⟨c', hc'⟩ := slookup_isSome_of_mem hc0
    have hin := slookup_mem hc'
    rw [List.mem_reverse] at hin
    obtain ⟨c2, hc2, hname, h3, h4, h5⟩ := hpair _ _ hin
    have : c2 = c := inj_of_nodup_map hnd hc2 hcr hname.symm
    subst this
    exact ⟨c', hc', h3, h4, h5⟩
  · intro n1 n2 c' h1 h2
    have hm1 := slookup_mem h1
    have hm2 := slookup_mem h2
    refine sc_inj ?_ hm1 hm2
    rw [List.map_reverse, nodup_reverse', List.map_map]
    have : ((rtRegs ms).zip (List.range' w.cfgs.length (rtRegs ms).length)).map
        ((fun p : String × VId => p.2) ∘ fun p => ((w.cfg p.1).name, p.2))
        = ((rtRegs ms).zip (List.range' w.cfgs.length (rtRegs ms).length)).map Prod.snd := by
      apply List.map_congr_left; intro p _; rfl
    rw [this, List.map_snd_zip (by simp)]
    exact List.nodup_range' (h := by decide)

/-! ### the round trip -/

theorem deserModel_ok {w : World} (h : DevOK w) (m : MId) (hU : NamesUnique w (w.model m))
    {protos : List (List PCfg)} (hser : serModelDev w m = some protos) {w' : World}
    (hd : deserModel w m protos = some w') : DevOK w' := by
  obtain ⟨hprotos, hnamed⟩ := serModelDev_protos hser
  have hmo := h.model m
  unfold deserModel at hd
  simp only at hd
  have hv2 : (rtWorld0 w (w.model m)).values = w.values ++ (w.model m).inputs.map w.value := rfl
  have hc2 : (rtWorld0 w (w.model m)).cfgs = w.cfgs ++ (rtRegs (w.model m)).map w.cfg := rfl
  have hn2 : (rtWorld0 w (w.model m)).nodes = w.nodes := rfl
  have hm2 : (rtWorld0 w (w.model m)).models = w.models := rfl
  generalize rtWorld0 w (w.model m) = w2 at hd hv2 hc2 hn2 hm2
  have hsc0 : ScopeOK w (modelValues w (w.model m)) w2 (rtScope0 w (w.model m)) :=
    initScope_ok w (w.model m) w2 hU hv2
  cases hdo : declareOutputs w (w2, rtScope0 w (w.model m))
      (((w.model m).nodes.map (fun n => serOutputs w (w.node n))).flatten) with
  | none => simp [hdo] at hd
  | some st =>
    simp only [hdo, Option.some.injEq] at hd
    obtain ⟨e0, ok0, _, decl0⟩ := declareOutputs_spec w (modelValues w (w.model m)) hU _ _ _ st hsc0 (by
      intro o ho
      simp only [List.mem_flatten, List.mem_map] at ho
      obtain ⟨l, ⟨n, hn, rfl⟩, hol⟩ := ho
      exact mem_modelValues_of_io hn (Or.inr (serOutputs_sub hol))) hdo
    -- the pairs deserNodes receives
    have hzip : rtPairs w (w.model m) protos
        = (w.model m).nodes.map (rtPair w (serDevOf w (w.model m))) := by
      unfold rtPairs
      rw [hprotos, List.zip_map']
      rfl
    rw [hzip] at hd
    have hext2 : Ext w w2 := by
      refine ⟨by rw [hv2]; simp, ?_, by rw [hc2]; simp, ?_⟩
      · intro v hv
        simp [World.value, hv2, List.getD_eq_getElem?_getD, List.getElem?_append_left hv]
      · intro c hc
        simp [World.cfg, hc2, List.getD_eq_getElem?_getD, List.getElem?_append_left hc]
    have hinv0 : RTInv w (w.model m) (rtNewCfgs w (w.model m)) st.1 st.2 := by
      refine ⟨hext2.trans e0.toExt, by rw [e0.cfgs, hc2], by rw [e0.models, hm2], ?_, ok0, ?_⟩
      · exact ⟨[], by rw [e0.nodes, hn2]; simp, by simp⟩
      · intro n hn o ho hne
        apply decl0 o _ hne
        simp only [List.mem_flatten, List.mem_map]
        exact ⟨_, ⟨n, hn, rfl⟩, ho⟩
    have hloop := deserNodes_inv (w := w) (ms := w.model m)
      (known := rtKnown w (w.model m)) (newCfgs := rtNewCfgs w (w.model m))
      (serDevOf w (w.model m)) hU h hmo
      (by intro n; unfold serDevOf; split
          · exact List.Sublist.refl _
          · exact List.nil_sublist _)
      hnamed
      (by intro n hn nc hnc
          unfold serDevOf at hnc
          split at hnc
          · rename_i hir
            simp only [rtRegs, hir, if_true]
            exact (hmo.1 n hn).2 nc hnc
          · cases hnc)
      (fun wd hc => known_ok w (w.model m) hmo wd hc)
      (w.model m).nodes st.1 st.2 [] (fun _ hn => hn) hinv0 (by simp)
    obtain ⟨scf, hinv, hns⟩ := hloop
    have hst : (st.1, st.2) = st := rfl
    rw [hst] at hinv hns
    generalize deserNodes w (rtKnown w (w.model m)) st
      ((w.model m).nodes.map (rtPair w (serDevOf w (w.model m)))) [] = r at hinv hns hd
    generalize hnm : ({ inputs := rtNewIns w (w.model m), nodes := r.2, cfgs := rtNewCfgs w (w.model m), irVersion := (w.model m).irVersion } : ModelS) = newm at hd
    have hnm1 : newm.nodes = r.2 := by rw [← hnm]
    have hnm2 : newm.cfgs = rtNewCfgs w (w.model m) := by rw [← hnm]
    clear hnm
    subst hd
    obtain ⟨extra, hex, hok⟩ := hinv.nodes
    have hextf : Ext w (rtFinish r.1 newm) := hinv.ext.trans (Ext.of_eq rfl rfl)
    have hnodef : ∀ n, World.node (rtFinish r.1 newm) n = r.1.node n := fun _ => rfl
    constructor
    · intro nd hnd
      have hnd' : nd ∈ r.1.nodes := hnd
      rw [hex, List.mem_append] at hnd'
      rcases hnd' with h1 | h1
      · exact (h.1 nd h1).ext hextf
      · exact (hok nd h1).1.ext (Ext.of_eq rfl rfl)
    · intro ms' hms'
      have hms'' : ms' ∈ r.1.models ++ [newm] := hms'
      rw [hinv.models, List.mem_append, List.mem_singleton] at hms''
      rcases hms'' with h1 | h1
      · refine (h.2 ms' h1).ext hextf ?_ ?_
        · show w.nodes.length ≤ r.1.nodes.length
          rw [hex]; simp
        · intro n _ hn nc hnc
          have : World.node (rtFinish r.1 newm) n = w.node n := by
            rw [hnodef]
            simp [World.node, hex, List.getD_eq_getElem?_getD, List.getElem?_append_left hn]
          rw [this] at hnc
          exact ⟨nc, hnc, rfl⟩
      · subst h1
        have hregsub : ∀ c ∈ rtRegs (w.model m), c ∈ (w.model m).cfgs := by
          intro c hc; unfold rtRegs at hc; split at hc
          · exact hc
          · cases hc
        have hcfgnew : ∀ i, i < (rtRegs (w.model m)).length →
            World.cfg (rtFinish r.1 ms') (w.cfgs.length + i) = w.cfg ((rtRegs (w.model m))[i]?.getD 0) := by
          intro i hi
          have : World.cfg (rtFinish r.1 ms') (w.cfgs.length + i)
              = (r.1.cfgs[w.cfgs.length + i]?).getD {} := by
            simp [World.cfg, rtFinish, List.getD_eq_getElem?_getD]
          rw [this, hinv.cfgs, List.getElem?_append_right (Nat.le_add_right _ _)]
          simp [hi]
        refine ⟨?_, ?_, ?_⟩
        · intro n hn
          rw [hnm1] at hn
          obtain ⟨hge, hlt⟩ := hns n hn
          refine ⟨hlt, ?_⟩
          intro nc hnc
          have hmem : World.node (rtFinish r.1 ms') n ∈ extra := by
            have : World.node (rtFinish r.1 ms') n = r.1.nodes[n] := by
              rw [hnodef]; simp [World.node, List.getD_eq_getElem?_getD, hlt]
            rw [this]
            have hlt' : n < (w.nodes ++ extra).length := by rw [← hex]; exact hlt
            have : r.1.nodes[n] = (w.nodes ++ extra)[n] := by simp [hex]
            rw [this, List.getElem_append_right hge]
            exact List.getElem_mem _
          rw [hnm2]
          exact (hok _ hmem).2 nc hnc
        · intro c hc
          rw [hnm2] at hc
          have hc' : c ∈ List.range' w.cfgs.length (rtRegs (w.model m)).length := hc
          rw [List.mem_range'_1] at hc'
          obtain ⟨hc1, hc2⟩ := hc'
          have hi0 : c - w.cfgs.length < (rtRegs (w.model m)).length := Nat.sub_lt_left_of_lt_add hc1 hc2
          obtain ⟨i, hi, rfl⟩ : ∃ i, i < (rtRegs (w.model m)).length ∧ c = w.cfgs.length + i :=
            ⟨c - w.cfgs.length, hi0, (Nat.add_sub_cancel' hc1).symm⟩
          refine ⟨?_, ?_⟩
          · show w.cfgs.length + i < r.1.cfgs.length
            rw [hinv.cfgs]; simp only [List.length_append, List.length_map]; omega
          · rw [hcfgnew i hi]
            have : (rtRegs (w.model m))[i]?.getD 0 ∈ rtRegs (w.model m) := by
              simp [hi]
            exact (hmo.2.1 _ (hregsub _ this)).2
        · rw [hnm2]
          have : (rtNewCfgs w (w.model m)).map (fun c => (World.cfg (rtFinish r.1 ms') c).name)
              = (rtRegs (w.model m)).map (fun c => (w.cfg c).name) := by
            apply List.ext_getElem
            · simp [rtNewCfgs]
            · intro i h1 h2
              simp only [rtNewCfgs, List.length_map, List.length_range'] at h1
              simp only [rtNewCfgs, List.getElem_map, List.getElem_range', Nat.one_mul]
              rw [hcfgnew i h1]
              simp [h1]
          rw [this]
          unfold rtRegs; split
          · exact hmo.2.2
          · simp

theorem DevOK_roundTrip {w : World} (h : DevOK w) (m : MId) (hU : NamesUnique w (w.model m)) :
    DevOK (roundTrip w m).1 := by
  unfold roundTrip
  cases hser : serModelDev w m with
  | none => exact h
  | some protos =>
    simp only
    cases hd : deserModel w m protos with
    | none => exact h
    | some w' => exact deserModel_ok h m hU hser hd

end IrVerif.Device

/-
Kernel, stage 1: the primitives on inputs / uses / outputs / producers preserve `I_use`, `I_prod`,
`I_root`.
-/
import IrVerif.Lemmas.KernelBase
namespace IrVerif.Kernel

/-- closes "this primitive does not touch that field" goals after the primitive has been unfolded -/
macro "frame_tac" : tactic =>
  `(tactic| (intros; simp only []; (repeat' split) <;> simp <;> (repeat' split) <;> simp_all))

theorem iter_inv {α : Type} (P : α → Prop) (f : α → α) (hf : ∀ a, P a → P (f a)) :
    ∀ k a, P a → P (iter f k a)
  | 0, _, h => h
  | k + 1, a, h => iter_inv P f hf k (f a) (hf a h)

theorem foldl_inv {α β : Type} (P : α → Prop) (f : α → β → α) (hf : ∀ a b, P a → P (f a b)) :
    ∀ (l : List β) a, P a → P (l.foldl f a)
  | [], _, h => h
  | b :: l, a, h => foldl_inv P f hf l (f a b) (hf a b h)

/-! ### congruence: each clause reads only a few fields -/

theorem I_use_congr {w w' : World}
    (hv : ∀ v, (w'.val v).uses = (w.val v).uses)
    (hn : ∀ n, (w'.node n).inputs = (w.node n).inputs) (h : I_use w) : I_use w' := by
  unfold I_use at *
  simp only [hv, hn]; exact h

theorem I_prod_congr {w w' : World}
    (hv : ∀ v, (w'.val v).producer = (w.val v).producer ∧ (w'.val v).index = (w.val v).index)
    (hn : ∀ n, (w'.node n).outputs = (w.node n).outputs) (h : I_prod w) : I_prod w' := by
  unfold I_prod at *
  simp only [hv, hn]; exact h

theorem I_root_congr {w w' : World}
    (hv : ∀ v, (w'.val v).producer = (w.val v).producer ∧ (w'.val v).isIn = (w.val v).isIn ∧
      (w'.val v).isInit = (w.val v).isInit) (h : I_root w) : I_root w' := by
  unfold I_root at *
  simp only [hv]; exact h

theorem I_own_congr {w w' : World}
    (hv : ∀ v, (w'.val v).graph = (w.val v).graph ∧ (w'.val v).isIn = (w.val v).isIn ∧
      (w'.val v).isOut = (w.val v).isOut ∧ (w'.val v).isInit = (w.val v).isInit)
    (hg : ∀ g, (w'.gr g).inputs = (w.gr g).inputs ∧ (w'.gr g).outputs = (w.gr g).outputs ∧
      (w'.gr g).inCnt = (w.gr g).inCnt ∧ (w'.gr g).outCnt = (w.gr g).outCnt ∧
      (w'.gr g).inits = (w.gr g).inits) (h : I_own w) : I_own w' := by
  have hl : ∀ k g, ioList k (w'.gr g) = ioList k (w.gr g) := by
    intro k g; cases k <;> simp [ioList, hg]
  have hc : ∀ k g, ioCnt k (w'.gr g) = ioCnt k (w.gr g) := by
    intro k g; cases k <;> simp [ioCnt, hg]
  have hf : ∀ k v, ioFlag k (w'.val v) = ioFlag k (w.val v) := by
    intro k v; cases k <;> simp [ioFlag, hv]
  have ho : ∀ v, owned (w'.val v) = owned (w.val v) := by
    intro v; simp [owned, hv]
  constructor
  · intro k g v; rw [hl, hc]; exact h.cnt k g v
  · intro k g v; rw [hl, hf, (hv v).1]; exact h.io_mem k g v
  · intro k v; rw [hf, (hv v).1]; simp only [hl]; exact h.io_flag k v
  · intro g key v; rw [(hg g).2.2.2.2, (hv v).1, (hv v).2.2.2]; exact h.init_mem g key v
  · intro v; rw [(hv v).1, (hv v).2.2.2]; simp only [hg]; exact h.init_flag v
  · intro v g; rw [(hv v).1, ho]; exact h.graph_owned v g

theorem I_key_congr {w w' : World}
    (hv : ∀ v, (w'.val v).name = (w.val v).name)
    (hg : ∀ g, (w'.gr g).inits = (w.gr g).inits) (h : I_key w) : I_key w' := by
  constructor
  · intro g key v; rw [hg, hv]; exact h.name g key v
  · intro g; rw [hg]; exact h.keys g

theorem I_node_congr {w w' : World}
    (hn : ∀ n, (w'.node n).graph = (w.node n).graph)
    (hg : ∀ g, (w'.gr g).nodes = (w.gr g).nodes) (h : I_node w) : I_node w' := by
  constructor
  · intro n g; rw [hn, hg]; exact h.mem n g
  · intro g; rw [hg]; exact h.nodup g

/-! ### uses -/

theorem addUse_mem (us : List (Nat × Nat)) (u x : Nat × Nat) : x ∈ addUse us u ↔ x ∈ us ∨ x = u := by
  unfold addUse; split <;> simp_all

theorem addUse_nodup (us : List (Nat × Nat)) (u : Nat × Nat) (h : us.Nodup) : (addUse us u).Nodup := by
  unfold addUse; split
  · exact h
  · simp [List.nodup_append, h]; grind

theorem setInput_I_use (w : World) (n i : Nat) (nv : Option Nat) (h : I_use w) :
    I_use (setInput w n i nv) := by
  obtain ⟨h1, h2⟩ := h
  unfold setInput I_use
  simp only []
  split
  · have hg : (w.node n).inputs.getD i none = (w.node n).inputs[i]?.getD none := by simp
    cases hold : (w.node n).inputs.getD i none <;> cases nv <;> simp <;> constructor <;> intros <;>
      grind [addUse_mem, addUse_nodup, List.Nodup.mem_erase_iff, List.Nodup.erase]
  · exact ⟨h1, h2⟩

theorem setInput_I_prod (w : World) (n i : Nat) (nv : Option Nat) (h : I_prod w) :
    I_prod (setInput w n i nv) := by
  apply I_prod_congr _ _ h <;> unfold setInput <;> frame_tac

theorem setInput_I_root (w : World) (n i : Nat) (nv : Option Nat) (h : I_root w) :
    I_root (setInput w n i nv) := by
  apply I_root_congr _ h <;> unfold setInput <;> frame_tac

theorem setInput_inputs (w : World) (n i : Nat) (nv : Option Nat) (m : Nat) :
    ((setInput w n i nv).node m).inputs =
      if m = n then (w.node n).inputs.set i nv else (w.node m).inputs := by
  unfold setInput
  simp only []
  split <;> rename_i h
  · cases (w.node n).inputs.getD i none <;> cases nv <;> simp <;> split <;> simp_all
  · split
    · subst_vars; simp at h; simp [List.set_eq_of_length_le h]
    · rfl

/-- dropping a trailing empty slot -/
theorem dropInput_I_use (w : World) (n : Nat) (h : I_use w)
    (hlast : ∀ v, (w.node n).inputs[(w.node n).inputs.length - 1]? ≠ some (some v)) :
    I_use (w.setNode n { w.node n with inputs := (w.node n).inputs.dropLast }) := by
  obtain ⟨h1, h2⟩ := h
  unfold I_use
  simp
  refine ⟨?_, h2⟩
  intro v m i
  rw [h1]
  split
  · subst_vars
    have := hlast v
    simp [List.getElem?_dropLast]
    grind
  · rfl

theorem popInput_I_use (w : World) (n : Nat) (h : I_use w) : I_use (popInput w n) := by
  unfold popInput
  simp only []
  split
  · exact h
  · apply dropInput_I_use _ _ (setInput_I_use _ _ _ _ h)
    intro v
    simp [setInput_inputs, List.getElem?_set]

theorem popInput_I_prod (w : World) (n : Nat) (h : I_prod w) : I_prod (popInput w n) := by
  apply I_prod_congr _ _ h <;> unfold popInput setInput <;> frame_tac

theorem popInput_I_root (w : World) (n : Nat) (h : I_root w) : I_root (popInput w n) := by
  apply I_root_congr _ h <;> unfold popInput setInput <;> frame_tac

/-- appending empty slots -/
theorem padInputs_I_use (w : World) (n k : Nat) (h : I_use w) :
    I_use (w.setNode n { w.node n with inputs := (w.node n).inputs ++ List.replicate k none }) := by
  obtain ⟨h1, h2⟩ := h
  unfold I_use
  simp
  refine ⟨?_, h2⟩
  intro v m i
  rw [h1]
  split
  · subst_vars
    simp [List.getElem?_append, List.getElem?_replicate]
    grind
  · rfl

end IrVerif.Kernel

/-
Lemmas/InlineSyn.lean — syntactic invariants of `_inline_calls_in` (`inlG` / `inlNodes` / `inlBodies` / `inlAt`):
a per-operator predicate that holds of the function bodies of the table (no stochastic operator; call depth),
well-formed calls and input/initializer-disjoint subgraphs survive inlining.  With these the rewritten function
bodies are again what a later clone needs (`synOK`), proved instead of evaluated.
-/
import IrVerif.Lemmas.InlineWF
import IrVerif.Lemmas.InlineTop
namespace IrVerif.Inline
open IrVerif.Sem IrVerif.Passes

/-! ## clones -/

mutual
theorem cloneG_subInits (am : List (String × FAttr)) : ∀ (b : FGraph) (vm : VMap) (next : Nat),
    subInitsOKG (cloneG am vm next b).1 = true
  | .mk inputs outputs inits nodes, vm, next => by
    simp only [cloneG, subInitsOKG, Bool.and_eq_true]
    refine ⟨?_, cloneNodes_subInits am nodes _ _⟩
    have hz : ((freshIds (next + inputs.length) inits.length).zip (inits.map Prod.snd)).map Prod.fst =
        freshIds (next + inputs.length) inits.length := List.map_fst_zip (by simp)
    rw [hz]
    exact disj_of_lt (next + inputs.length) (fun x hx => (mem_freshIds.1 hx).2) (fun x hx => (mem_freshIds.1 hx).1)
theorem cloneNodes_subInits (am : List (String × FAttr)) : ∀ (ns : List FNode) (vm : VMap) (next : Nat),
    subInitsOKNodes (cloneNodes am vm next ns).1 = true
  | [], _, _ => by simp [cloneNodes, subInitsOKNodes]
  | n :: ns, vm, next => by
    simp only [cloneNodes, subInitsOKNodes, Bool.and_eq_true]
    exact ⟨cloneN_subInits am n vm next, cloneNodes_subInits am ns _ _⟩
theorem cloneN_subInits (am : List (String × FAttr)) : ∀ (n : FNode) (vm : VMap) (next : Nat),
    subInitsOKN (cloneN am vm next n).1 = true
  | .mk op attrs ins outs bodies, vm, next => by
    simp only [cloneN, subInitsOKN]
    exact cloneBodies_subInits am bodies vm next
theorem cloneBodies_subInits (am : List (String × FAttr)) : ∀ (bs : List FGraph) (vm : VMap) (next : Nat),
    subInitsOKBodies (cloneBodies am vm next bs).1 = true
  | [], _, _ => by simp [cloneBodies, subInitsOKBodies]
  | b :: bs, vm, next => by
    simp only [cloneBodies, subInitsOKBodies, Bool.and_eq_true]
    exact ⟨cloneG_subInits am b vm next, cloneBodies_subInits am bs vm _⟩
end

theorem opsAllNodes_append (p : OpId → Bool) : ∀ (a b : List FNode),
    opsAllNodes p (a ++ b) = (opsAllNodes p a && opsAllNodes p b)
  | [], b => by simp [opsAllNodes]
  | n :: a, b => by simp [opsAllNodes, opsAllNodes_append p a b, Bool.and_assoc]

theorem subInitsOKNodes_append : ∀ (a b : List FNode),
    subInitsOKNodes (a ++ b) = (subInitsOKNodes a && subInitsOKNodes b)
  | [], b => by simp [subInitsOKNodes]
  | n :: a, b => by simp [subInitsOKNodes, subInitsOKNodes_append a b, Bool.and_assoc]

/-- the forwarding Identity nodes -/
theorem fwdOuts_syn (p : OpId → Bool) (hp : p identityOp = true) (vm : VMap) : ∀ (vs produced : List VId) (next : Nat),
    opsAllNodes p (fwdOuts vm produced vs next).nodes = true ∧ subInitsOKNodes (fwdOuts vm produced vs next).nodes = true
  | [], _, _ => by simp [fwdOuts, opsAllNodes, subInitsOKNodes]
  | v :: vs, produced, next => by
    rw [fwdOuts]
    split
    · split
      · exact fwdOuts_syn p hp vm vs produced next
      · obtain ⟨a, b⟩ := fwdOuts_syn p hp vm vs (next :: produced) (next + 1)
        simp [opsAllNodes, opsAllN, opsAllBodies, subInitsOKNodes, subInitsOKN, subInitsOKBodies, hp, a, b]
    · obtain ⟨a, b⟩ := fwdOuts_syn p hp vm vs produced (next + 1)
      simp [opsAllNodes, opsAllN, opsAllBodies, subInitsOKNodes, subInitsOKN, subInitsOKBodies, hp, a, b]

/-- what is carried along: a per-operator predicate, input/initializer-disjoint subgraphs, well-formed calls -/
def Syn (q : OpId → Bool) (tbl : List Func) (ns : List FNode) : Prop :=
  opsAllNodes q ns = true ∧ subInitsOKNodes ns = true ∧ callsOKNodes tbl ns = true

theorem instantiate_syn (q : OpId → Bool) (hq : q identityOp = true) (tbl : List Func)
    (hid : findFunc tbl identityOp = none) (f : Func) (hf : Syn q tbl f.nodes)
    (cattrs : List (String × FAttr)) (cins : List (Option VId)) (next : Nat) :
    Syn q tbl (instantiate f cattrs cins next).nodes := by
  obtain ⟨h1, _, h3⟩ := hf
  have hfw := fwdOuts_syn q hq (cloneNodes (attrMap f.params cattrs) (zipPad f.inputs cins) next f.nodes).2.1 f.outputs
    (outsTopF (cloneNodes (attrMap f.params cattrs) (zipPad f.inputs cins) next f.nodes).1)
    (cloneNodes (attrMap f.params cattrs) (zipPad f.inputs cins) next f.nodes).2.2
  simp only [instantiate, Syn]
  refine ⟨?_, ?_, ?_⟩
  · rw [opsAllNodes_append, cloneNodes_ops, h1, hfw.1]; rfl
  · rw [subInitsOKNodes_append, cloneNodes_subInits, hfw.2]; rfl
  · rw [callsOKNodes_append, cloneNodes_callsOK tbl _ f.nodes _ _ h3]
    simp only [Bool.true_and]
    -- the forwarding nodes are not calls
    have : ∀ (vs produced : List VId) (vm : VMap) (nx : Nat), callsOKNodes tbl (fwdOuts vm produced vs nx).nodes = true := by
      intro vs
      induction vs with
      | nil => intro _ _ _; simp [fwdOuts, callsOKNodes]
      | cons v vs ih =>
        intro produced vm nx
        rw [fwdOuts]
        split
        · split
          · exact ih _ _ _
          · simp only [callsOKNodes, callsOKN, hid, callsOKBodies, Bool.and_true, Bool.true_and]; exact ih _ _ _
        · simp only [callsOKNodes, callsOKN, hid, callsOKBodies, Bool.and_true, Bool.true_and]; exact ih _ _ _
    exact this _ _ _ _

/-! ## `_inline_calls_in` -/

section
variable (q : OpId → Bool) (tbl : List Func) (crit : OpId → Bool) (deeper : Deeper)

/-- `deeper` keeps the invariant -/
def DeepSyn : Prop := ∀ (st : ISt) (ns : List FNode), Syn q tbl ns → Syn q tbl (deeper st ns).2.1

mutual
theorem inlG_syn (hq : q identityOp = true) (hid : findFunc tbl identityOp = none)
    (ht : ∀ op f, findFunc tbl op = some f → q op = true → Syn q tbl f.nodes) (hd : DeepSyn q tbl deeper) :
    ∀ (g : FGraph) (st : ISt) (σ : Subst), opsAllG q g = true → subInitsOKG g = true → callsOKG tbl g = true →
    opsAllG q (inlG tbl crit deeper st σ g).2 = true ∧ subInitsOKG (inlG tbl crit deeper st σ g).2 = true ∧
    callsOKG tbl (inlG tbl crit deeper st σ g).2 = true
  | .mk inputs outputs inits nodes, st, σ, h1, h2, h3 => by
    simp only [opsAllG] at h1
    simp only [subInitsOKG, Bool.and_eq_true] at h2
    simp only [callsOKG] at h3
    obtain ⟨k1, k2, k3⟩ := inlNodes_syn hq hid ht hd nodes st σ outputs ⟨h1, h2.2, h3⟩
    simp only [inlG, opsAllG, subInitsOKG, callsOKG, Bool.and_eq_true]
    exact ⟨k1, ⟨h2.1, k2⟩, k3⟩
theorem inlNodes_syn (hq : q identityOp = true) (hid : findFunc tbl identityOp = none)
    (ht : ∀ op f, findFunc tbl op = some f → q op = true → Syn q tbl f.nodes) (hd : DeepSyn q tbl deeper) :
    ∀ (ns : List FNode) (st : ISt) (σ : Subst) (outs : List VId), Syn q tbl ns →
    Syn q tbl (inlNodes tbl crit deeper st σ outs ns).nodes
  | [], _, _, _, _ => by simp [inlNodes, Syn, opsAllNodes, subInitsOKNodes, callsOKNodes]
  | .mk op attrs ins nouts bodies :: ns, st, σ, outs, ⟨h1, h2, h3⟩ => by
    simp only [opsAllNodes, opsAllN, Bool.and_eq_true] at h1
    simp only [subInitsOKNodes, subInitsOKN, Bool.and_eq_true] at h2
    simp only [callsOKNodes, callsOKN, Bool.and_eq_true] at h3
    simp only [inlNodes]
    split
    · rename_i f hsel
      have hcrit : crit op = true := by
        by_cases h : crit op = true
        · exact h
        · simp [h] at hsel
      have hff : findFunc tbl op = some f := by simpa [hcrit] using hsel
      have hinst := instantiate_syn q hq tbl hid f (ht op f hff h1.1.1) attrs (substIns σ ins) st.next
      obtain ⟨d1, d2, d3⟩ := hd (st.addInlined op (instantiate f attrs (substIns σ ins) st.next).next
        ((instantiate f attrs (substIns σ ins) st.next).bad || nouts.length != f.outputs.length)) _ hinst
      obtain ⟨k1, k2, k3⟩ := inlNodes_syn hq hid ht hd ns
        (deeper (st.addInlined op (instantiate f attrs (substIns σ ins) st.next).next
          ((instantiate f attrs (substIns σ ins) st.next).bad || nouts.length != f.outputs.length)) (instantiate f attrs (substIns σ ins) st.next).nodes).1
        (nouts.zip ((instantiate f attrs (substIns σ ins) st.next).outvals.map
          (deeper (st.addInlined op (instantiate f attrs (substIns σ ins) st.next).next
          ((instantiate f attrs (substIns σ ins) st.next).bad || nouts.length != f.outputs.length)) (instantiate f attrs (substIns σ ins) st.next).nodes).2.2.app) ++ σ)
        (outs.map (fun o => ((nouts.zip ((instantiate f attrs (substIns σ ins) st.next).outvals.map
          (deeper (st.addInlined op (instantiate f attrs (substIns σ ins) st.next).next
          ((instantiate f attrs (substIns σ ins) st.next).bad || nouts.length != f.outputs.length)) (instantiate f attrs (substIns σ ins) st.next).nodes).2.2.app)).lookup o).getD o))
        ⟨h1.2, h2.2, h3.2⟩
      refine ⟨?_, ?_, ?_⟩
      · rw [opsAllNodes_append, d1, k1]; rfl
      · rw [subInitsOKNodes_append, d2, k2]; rfl
      · rw [callsOKNodes_append, d3, k3]; rfl
    · obtain ⟨b1, b2, b3⟩ := inlBodies_syn hq hid ht hd bodies st σ h1.1.2 h2.1 h3.1.2
      obtain ⟨k1, k2, k3⟩ := inlNodes_syn hq hid ht hd ns (inlBodies tbl crit deeper st σ bodies).1 σ outs ⟨h1.2, h2.2, h3.2⟩
      refine ⟨?_, ?_, ?_⟩
      · simp only [opsAllNodes, opsAllN, Bool.and_eq_true]; exact ⟨⟨h1.1.1, b1⟩, k1⟩
      · simp only [subInitsOKNodes, subInitsOKN, Bool.and_eq_true]; exact ⟨b2, k2⟩
      · simp only [callsOKNodes, callsOKN, Bool.and_eq_true]
        refine ⟨⟨?_, b3⟩, k3⟩
        cases hf : findFunc tbl op with
        | none => rfl
        | some f =>
          have hc := h3.1.1
          rw [hf] at hc
          simp only at hc ⊢
          have hb := callOK_bodies_nil hc
          subst hb
          simp only [inlBodies]
          simp only [callOK, Bool.and_eq_true, decide_eq_true_eq, List.all_eq_true, List.isEmpty_iff] at hc ⊢
          exact ⟨⟨⟨⟨trivial, hc.1.1.1.2⟩, by simpa [substIns] using hc.1.1.2⟩, hc.1.2⟩, hc.2⟩
theorem inlBodies_syn (hq : q identityOp = true) (hid : findFunc tbl identityOp = none)
    (ht : ∀ op f, findFunc tbl op = some f → q op = true → Syn q tbl f.nodes) (hd : DeepSyn q tbl deeper) :
    ∀ (bs : List FGraph) (st : ISt) (σ : Subst), opsAllBodies q bs = true → subInitsOKBodies bs = true →
    callsOKBodies tbl bs = true →
    opsAllBodies q (inlBodies tbl crit deeper st σ bs).2 = true ∧ subInitsOKBodies (inlBodies tbl crit deeper st σ bs).2 = true ∧
    callsOKBodies tbl (inlBodies tbl crit deeper st σ bs).2 = true
  | [], _, _, _, _, _ => by simp [inlBodies, opsAllBodies, subInitsOKBodies, callsOKBodies]
  | b :: bs, st, σ, h1, h2, h3 => by
    simp only [opsAllBodies, Bool.and_eq_true] at h1
    simp only [subInitsOKBodies, Bool.and_eq_true] at h2
    simp only [callsOKBodies, Bool.and_eq_true] at h3
    obtain ⟨g1, g2, g3⟩ := inlG_syn hq hid ht hd b st σ h1.1 h2.1 h3.1
    obtain ⟨k1, k2, k3⟩ := inlBodies_syn hq hid ht hd bs (inlG tbl crit deeper st σ b).1 σ h1.2 h2.2 h3.2
    simp only [inlBodies, opsAllBodies, subInitsOKBodies, callsOKBodies, Bool.and_eq_true]
    exact ⟨⟨g1, k1⟩, ⟨g2, k2⟩, ⟨g3, k3⟩⟩
end

end

/-- the processing of inserted nodes keeps the invariant, for every budget -/
theorem deepSyn_inlAt (q : OpId → Bool) (tbl : List Func) (crit : OpId → Bool) (hq : q identityOp = true)
    (hid : findFunc tbl identityOp = none)
    (ht : ∀ op f, findFunc tbl op = some f → q op = true → Syn q tbl f.nodes) :
    ∀ k, DeepSyn q tbl (inlAt tbl crit k)
  | 0 => fun st ns h => by simpa [inlAt] using h
  | k + 1 => fun st ns h => by
    simp only [inlAt]
    exact inlNodes_syn q tbl crit _ hq hid ht (deepSyn_inlAt q tbl crit hq hid ht k) ns st [] [] h

end IrVerif.Inline

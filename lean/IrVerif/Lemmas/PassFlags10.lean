/-
C14 (second deepening): InlinePass on C05's model of the pass (Model/Inline.lean, read-only):
the counter is monotone, a run that does not count returns its input, a run that is not stuck leaves no
accepted call, a model without accepted calls is returned as it is.  Core Lean only.
-/
import IrVerif.Model.PassFlags3
import IrVerif.Lemmas.PassFlags
namespace IrVerif.PassFlags
open IrVerif.Sem IrVerif.Passes IrVerif.Inline

/-! ## the order on pass states: `stuck` is sticky, `_inlined_functions` and the counter only grow -/

structure StLe (a b : ISt) : Prop where
  stuck : a.stuck = true → b.stuck = true
  inl : ∀ op, a.inlined.contains op = true → b.inlined.contains op = true
  count : a.count ≤ b.count

theorem StLe.refl (a : ISt) : StLe a a := ⟨id, fun _ h => h, Nat.le_refl _⟩

theorem StLe.trans {a b c : ISt} (h1 : StLe a b) (h2 : StLe b c) : StLe a c :=
  ⟨fun h => h2.stuck (h1.stuck h), fun op h => h2.inl op (h1.inl op h), Nat.le_trans h1.count h2.count⟩

theorem StLe.stuck_false {a b : ISt} (h : StLe a b) (hb : b.stuck = false) : a.stuck = false := by
  cases ha : a.stuck with
  | false => rfl
  | true => rw [h.stuck ha] at hb; exact absurd hb (by decide)

theorem addInlined_count (st : ISt) (op : OpId) (next : Nat) (bad : Bool) :
    (st.addInlined op next bad).count = st.count + 1 := rfl

theorem addInlined_le (st : ISt) (op : OpId) (next : Nat) (bad : Bool) : StLe st (st.addInlined op next bad) := by
  refine ⟨fun h => h, fun o h => ?_, by rw [addInlined_count]; omega⟩
  simp only [ISt.addInlined]
  split
  · exact h
  · simp only [List.contains_eq_mem, List.mem_append, decide_eq_true_eq] at h ⊢
    exact Or.inl h

def DeeperMono (deeper : Deeper) : Prop := ∀ st ns, StLe st (deeper st ns).1

mutual
theorem inlG_le (tbl : List Func) (crit : OpId → Bool) (deeper : Deeper) (hd : DeeperMono deeper) :
    ∀ (g : FGraph) (st : ISt) (σ : Subst), StLe st (inlG tbl crit deeper st σ g).1
  | .mk inputs outputs inits nodes, st, σ => by
    simp only [inlG]
    exact inlNodes_le tbl crit deeper hd nodes st σ outputs
theorem inlNodes_le (tbl : List Func) (crit : OpId → Bool) (deeper : Deeper) (hd : DeeperMono deeper) :
    ∀ (ns : List FNode) (st : ISt) (σ : Subst) (outs : List VId), StLe st (inlNodes tbl crit deeper st σ outs ns).st
  | [], st, σ, outs => by simp only [inlNodes]; exact StLe.refl _
  | .mk op attrs ins nouts bodies :: ns, st, σ, outs => by
    simp only [inlNodes]
    split
    · exact ((addInlined_le _ _ _ _).trans (hd _ _)).trans (inlNodes_le tbl crit deeper hd ns _ _ _)
    · exact (inlBodies_le tbl crit deeper hd bodies st σ).trans (inlNodes_le tbl crit deeper hd ns _ _ _)
theorem inlBodies_le (tbl : List Func) (crit : OpId → Bool) (deeper : Deeper) (hd : DeeperMono deeper) :
    ∀ (bs : List FGraph) (st : ISt) (σ : Subst), StLe st (inlBodies tbl crit deeper st σ bs).1
  | [], st, σ => by simp only [inlBodies]; exact StLe.refl _
  | b :: bs, st, σ => by
    simp only [inlBodies]
    exact (inlG_le tbl crit deeper hd b st σ).trans (inlBodies_le tbl crit deeper hd bs _ σ)
end

theorem inlAt_mono (tbl : List Func) (crit : OpId → Bool) : ∀ d, DeeperMono (inlAt tbl crit d)
  | 0 => fun st ns => by
    simp only [inlAt]
    exact ⟨fun h => by simp [h], fun _ h => h, Nat.le_refl _⟩
  | d + 1 => fun st ns => by
    simp only [inlAt]
    exact inlNodes_le tbl crit _ (inlAt_mono tbl crit d) ns st [] []

/-! ## `opsAll` -/

mutual
theorem opsAllG_mono {p q : OpId → Bool} (h : ∀ op, p op = true → q op = true) :
    ∀ g : FGraph, opsAllG p g = true → opsAllG q g = true
  | .mk _ _ _ nodes, hg => by
    simp only [opsAllG] at hg ⊢
    exact opsAllNodes_mono h nodes hg
theorem opsAllNodes_mono {p q : OpId → Bool} (h : ∀ op, p op = true → q op = true) :
    ∀ ns : List FNode, opsAllNodes p ns = true → opsAllNodes q ns = true
  | [], _ => rfl
  | n :: ns, hn => by
    simp only [opsAllNodes, Bool.and_eq_true] at hn ⊢
    exact ⟨opsAllN_mono h n hn.1, opsAllNodes_mono h ns hn.2⟩
theorem opsAllN_mono {p q : OpId → Bool} (h : ∀ op, p op = true → q op = true) :
    ∀ n : FNode, opsAllN p n = true → opsAllN q n = true
  | .mk op _ _ _ bodies, hn => by
    simp only [opsAllN, Bool.and_eq_true] at hn ⊢
    exact ⟨h op hn.1, opsAllBodies_mono h bodies hn.2⟩
theorem opsAllBodies_mono {p q : OpId → Bool} (h : ∀ op, p op = true → q op = true) :
    ∀ bs : List FGraph, opsAllBodies p bs = true → opsAllBodies q bs = true
  | [], _ => rfl
  | b :: bs, hb => by
    simp only [opsAllBodies, Bool.and_eq_true] at hb ⊢
    exact ⟨opsAllG_mono h b hb.1, opsAllBodies_mono h bs hb.2⟩
end

theorem opsAllNodes_append (p : OpId → Bool) : ∀ a b : List FNode,
    opsAllNodes p (a ++ b) = (opsAllNodes p a && opsAllNodes p b)
  | [], b => by simp [opsAllNodes]
  | n :: a, b => by simp only [List.cons_append, opsAllNodes, opsAllNodes_append p a b, Bool.and_assoc]

mutual
theorem opCntG_zero (p : OpId → Bool) : ∀ g : FGraph, opCntG p g = 0 ↔ opsAllG (fun op => !p op) g = true
  | .mk _ _ _ nodes => by simp only [opCntG, opsAllG]; exact opCntNodes_zero p nodes
theorem opCntNodes_zero (p : OpId → Bool) : ∀ ns : List FNode,
    opCntNodes p ns = 0 ↔ opsAllNodes (fun op => !p op) ns = true
  | [] => by simp [opCntNodes, opsAllNodes]
  | n :: ns => by
    simp only [opCntNodes, opsAllNodes, Bool.and_eq_true, Nat.add_eq_zero_iff, opCntN_zero p n, opCntNodes_zero p ns]
theorem opCntN_zero (p : OpId → Bool) : ∀ n : FNode, opCntN p n = 0 ↔ opsAllN (fun op => !p op) n = true
  | .mk op _ _ _ bodies => by
    simp only [opCntN, opsAllN, Bool.and_eq_true, Nat.add_eq_zero_iff, opCntBodies_zero p bodies]
    cases p op <;> simp
theorem opCntBodies_zero (p : OpId → Bool) : ∀ bs : List FGraph,
    opCntBodies p bs = 0 ↔ opsAllBodies (fun op => !p op) bs = true
  | [] => by simp [opCntBodies, opsAllBodies]
  | b :: bs => by
    simp only [opCntBodies, opsAllBodies, Bool.and_eq_true, Nat.add_eq_zero_iff, opCntG_zero p b, opCntBodies_zero p bs]
end

/-! ## a run that is not stuck leaves no accepted call -/

def DeeperClean (P : OpId → Bool) (deeper : Deeper) : Prop :=
  ∀ st ns, (deeper st ns).1.stuck = false → opsAllNodes P (deeper st ns).2.1 = true

theorem clean_of_none {tbl : List Func} {crit : OpId → Bool} {op : OpId}
    (h : (if crit op then findFunc tbl op else none) = none) : inlClean tbl crit op = true := by
  cases hc : crit op with
  | false => simp [inlClean, hc]
  | true => simp only [hc, if_true] at h; simp [inlClean, h]

theorem none_of_clean {tbl : List Func} {crit : OpId → Bool} {op : OpId}
    (h : inlClean tbl crit op = true) : (if crit op then findFunc tbl op else none) = none := by
  cases hc : crit op with
  | false => simp
  | true =>
    simp only [inlClean, hc, Bool.true_and, Bool.not_eq_true', Option.isSome_eq_false_iff, Option.isNone_iff_eq_none] at h
    simp [h]

mutual
theorem inlG_clean (tbl : List Func) (crit : OpId → Bool) (deeper : Deeper) (hd : DeeperMono deeper)
    (hc : DeeperClean (inlClean tbl crit) deeper) :
    ∀ (g : FGraph) (st : ISt) (σ : Subst), (inlG tbl crit deeper st σ g).1.stuck = false →
      opsAllG (inlClean tbl crit) (inlG tbl crit deeper st σ g).2 = true
  | .mk inputs outputs inits nodes, st, σ, h => by
    simp only [inlG] at h ⊢
    simp only [opsAllG]
    exact inlNodes_clean tbl crit deeper hd hc nodes st σ outputs h
theorem inlNodes_clean (tbl : List Func) (crit : OpId → Bool) (deeper : Deeper) (hd : DeeperMono deeper)
    (hc : DeeperClean (inlClean tbl crit) deeper) :
    ∀ (ns : List FNode) (st : ISt) (σ : Subst) (outs : List VId),
      (inlNodes tbl crit deeper st σ outs ns).st.stuck = false →
      opsAllNodes (inlClean tbl crit) (inlNodes tbl crit deeper st σ outs ns).nodes = true
  | [], st, σ, outs, _ => by simp only [inlNodes, opsAllNodes]
  | .mk op attrs ins nouts bodies :: ns, st, σ, outs, h => by
    simp only [inlNodes] at h ⊢
    split at h
    · next f hf =>
      simp only [hf]
      rw [opsAllNodes_append, Bool.and_eq_true]
      refine ⟨hc _ _ ((inlNodes_le tbl crit deeper hd ns _ _ _).stuck_false h), ?_⟩
      exact inlNodes_clean tbl crit deeper hd hc ns _ _ _ h
    · next hf =>
      simp only [hf]
      simp only [opsAllNodes, opsAllN, Bool.and_eq_true]
      refine ⟨⟨clean_of_none hf, ?_⟩, inlNodes_clean tbl crit deeper hd hc ns _ _ _ h⟩
      exact inlBodies_clean tbl crit deeper hd hc bodies st σ
        ((inlNodes_le tbl crit deeper hd ns _ _ _).stuck_false h)
theorem inlBodies_clean (tbl : List Func) (crit : OpId → Bool) (deeper : Deeper) (hd : DeeperMono deeper)
    (hc : DeeperClean (inlClean tbl crit) deeper) :
    ∀ (bs : List FGraph) (st : ISt) (σ : Subst), (inlBodies tbl crit deeper st σ bs).1.stuck = false →
      opsAllBodies (inlClean tbl crit) (inlBodies tbl crit deeper st σ bs).2 = true
  | [], st, σ, _ => by simp only [inlBodies, opsAllBodies]
  | b :: bs, st, σ, h => by
    simp only [inlBodies] at h ⊢
    simp only [opsAllBodies, Bool.and_eq_true]
    exact ⟨inlG_clean tbl crit deeper hd hc b st σ ((inlBodies_le tbl crit deeper hd bs _ σ).stuck_false h),
      inlBodies_clean tbl crit deeper hd hc bs _ σ h⟩
end

theorem inlAt_clean (tbl : List Func) (crit : OpId → Bool) : ∀ d, DeeperClean (inlClean tbl crit) (inlAt tbl crit d)
  | 0 => fun st ns h => by
    simp only [inlAt, Bool.or_eq_false_iff, Bool.not_eq_false'] at h ⊢
    exact h.2
  | d + 1 => fun st ns h => by
    simp only [inlAt] at h ⊢
    exact inlNodes_clean tbl crit _ (inlAt_mono tbl crit d) (inlAt_clean tbl crit d) ns st [] [] h

/-! ## a node list without accepted calls is returned as it is -/

mutual
theorem inlG_id (tbl : List Func) (crit : OpId → Bool) (deeper : Deeper) :
    ∀ (g : FGraph) (st : ISt), opsAllG (inlClean tbl crit) g = true → inlG tbl crit deeper st [] g = (st, g)
  | .mk inputs outputs inits nodes, st, h => by
    simp only [opsAllG] at h
    simp only [inlG, inlNodes_id tbl crit deeper nodes st outputs h]
theorem inlNodes_id (tbl : List Func) (crit : OpId → Bool) (deeper : Deeper) :
    ∀ (ns : List FNode) (st : ISt) (outs : List VId), opsAllNodes (inlClean tbl crit) ns = true →
      inlNodes tbl crit deeper st [] outs ns = ⟨st, ns, outs, []⟩
  | [], st, outs, _ => by simp only [inlNodes]
  | .mk op attrs ins nouts bodies :: ns, st, outs, h => by
    simp only [opsAllNodes, opsAllN, Bool.and_eq_true] at h
    simp only [inlNodes, none_of_clean h.1.1, substIns_nil', inlBodies_id tbl crit deeper bodies st h.1.2,
      inlNodes_id tbl crit deeper ns st outs h.2]
theorem inlBodies_id (tbl : List Func) (crit : OpId → Bool) (deeper : Deeper) :
    ∀ (bs : List FGraph) (st : ISt), opsAllBodies (inlClean tbl crit) bs = true →
      inlBodies tbl crit deeper st [] bs = (st, bs)
  | [], st, _ => by simp only [inlBodies]
  | b :: bs, st, h => by
    simp only [opsAllBodies, Bool.and_eq_true] at h
    simp only [inlBodies, inlG_id tbl crit deeper b st h.1, inlBodies_id tbl crit deeper bs st h.2]
end

/-! ## a run that does not count met no accepted call -/

mutual
theorem inlG_cnt (tbl : List Func) (crit : OpId → Bool) (deeper : Deeper) (hd : DeeperMono deeper) :
    ∀ (g : FGraph) (st : ISt) (σ : Subst), (inlG tbl crit deeper st σ g).1.count = st.count →
      opsAllG (inlClean tbl crit) g = true
  | .mk inputs outputs inits nodes, st, σ, h => by
    simp only [inlG] at h
    simp only [opsAllG]
    exact inlNodes_cnt tbl crit deeper hd nodes st σ outputs h
theorem inlNodes_cnt (tbl : List Func) (crit : OpId → Bool) (deeper : Deeper) (hd : DeeperMono deeper) :
    ∀ (ns : List FNode) (st : ISt) (σ : Subst) (outs : List VId),
      (inlNodes tbl crit deeper st σ outs ns).st.count = st.count → opsAllNodes (inlClean tbl crit) ns = true
  | [], _, _, _, _ => rfl
  | .mk op attrs ins nouts bodies :: ns, st, σ, outs, h => by
    simp only [inlNodes] at h
    split at h
    · next f hf =>
      dsimp only at h
      have h1 := (hd (st.addInlined op (instantiate f attrs (substIns σ ins) st.next).next
        ((instantiate f attrs (substIns σ ins) st.next).bad || nouts.length != f.outputs.length)) (instantiate f attrs (substIns σ ins) st.next).nodes).count
      have h2 := (inlNodes_le tbl crit deeper hd ns
        (deeper (st.addInlined op (instantiate f attrs (substIns σ ins) st.next).next
          ((instantiate f attrs (substIns σ ins) st.next).bad || nouts.length != f.outputs.length)) (instantiate f attrs (substIns σ ins) st.next).nodes).1
        (nouts.zip ((instantiate f attrs (substIns σ ins) st.next).outvals.map
          (deeper (st.addInlined op (instantiate f attrs (substIns σ ins) st.next).next
            ((instantiate f attrs (substIns σ ins) st.next).bad || nouts.length != f.outputs.length))
            (instantiate f attrs (substIns σ ins) st.next).nodes).2.2.app) ++ σ)
        (outs.map (fun o => ((nouts.zip ((instantiate f attrs (substIns σ ins) st.next).outvals.map
          (deeper (st.addInlined op (instantiate f attrs (substIns σ ins) st.next).next
            ((instantiate f attrs (substIns σ ins) st.next).bad || nouts.length != f.outputs.length))
            (instantiate f attrs (substIns σ ins) st.next).nodes).2.2.app)).lookup o).getD o))).count
      rw [addInlined_count] at h1
      omega
    · next hf =>
      dsimp only at h
      have h1 := (inlBodies_le tbl crit deeper hd bodies st σ).count
      have h2 := (inlNodes_le tbl crit deeper hd ns (inlBodies tbl crit deeper st σ bodies).1 σ outs).count
      simp only [opsAllNodes, opsAllN, Bool.and_eq_true]
      exact ⟨⟨clean_of_none hf, inlBodies_cnt tbl crit deeper hd bodies st σ (by omega)⟩,
        inlNodes_cnt tbl crit deeper hd ns (inlBodies tbl crit deeper st σ bodies).1 σ outs (by omega)⟩
theorem inlBodies_cnt (tbl : List Func) (crit : OpId → Bool) (deeper : Deeper) (hd : DeeperMono deeper) :
    ∀ (bs : List FGraph) (st : ISt) (σ : Subst), (inlBodies tbl crit deeper st σ bs).1.count = st.count →
      opsAllBodies (inlClean tbl crit) bs = true
  | [], _, _, _ => rfl
  | b :: bs, st, σ, h => by
    simp only [inlBodies] at h
    have h1 := (inlG_le tbl crit deeper hd b st σ).count
    have h2 := (inlBodies_le tbl crit deeper hd bs (inlG tbl crit deeper st σ b).1 σ).count
    simp only [opsAllBodies, Bool.and_eq_true]
    exact ⟨inlG_cnt tbl crit deeper hd b st σ (by omega), inlBodies_cnt tbl crit deeper hd bs (inlG tbl crit deeper st σ b).1 σ (by omega)⟩
end

end IrVerif.PassFlags

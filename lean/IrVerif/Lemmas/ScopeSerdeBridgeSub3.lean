import IrVerif.Lemmas.ScopeSerdeBridgeSub2
/-!
The C02 bridge WITH nested graphs, part 3: the mutual induction over attributes, nodes and graphs, and
`C03_bridge_deserialize`.
-/
namespace IrVerif.Bridge
open IrVerif.Proto IrVerif.Serde

/-- an attribute that holds no graph contributes nothing to the Scope world -/
theorem attr_leaf (scN : Scopes) (a : AttrP) (hl : hasGraphAttr a = false) (x : IRAttr)
    (hx : desAttr scN a = .ok x) :
    subsAttr a = [] ∧ cellsAttr x = [] ∧ nnAttr x = 0 ∧ ngAttr x = 0 ∧
      (∀ B k nn ng, treeAttr B k nn ng x = []) := by
  cases a
  case graph => simp [hasGraphAttr] at hl
  case graphs => simp [hasGraphAttr] at hl
  all_goals
    simp only [desAttr, bind, Except.bind] at hx <;>
    (try split at hx) <;> (try split at hx) <;> (try cases hx) <;>
    simp [subsAttr, cellsAttr, nnAttr, ngAttr, treeAttr]

theorem attr_br_leaf (scN : Scopes) (scS : List Scope.Table) (B : List Nat) (a : AttrP)
    (hl : hasGraphAttr a = false) (h : wfAttr scN a = true) (st : Scope.Store) (P : List Cell)
    (hc : CoreEq st P) :
    ∃ x st', desAttr scN a = .ok x ∧
      Scope.deserSubs st scS (subsAttr a) = .ok (st', treeAttr B P.length st.nn st.ng x) ∧
      CoreEq st' (P ++ cellsAttr x) ∧ st'.nn = st.nn + nnAttr x ∧ st'.ng = st.ng + ngAttr x ∧
      x.name = a.name := by
  obtain ⟨x, h1, _, h3⟩ := attr_rt scN none a h (Or.inl rfl)
  obtain ⟨e1, e2, e3, e4, e5⟩ := attr_leaf scN a hl x h1
  exact ⟨x, st, h1, by rw [e1, e5]; rfl, by rw [e2]; simpa using hc, by rw [e3]; rfl, by rw [e4]; rfl, h3⟩

mutual
theorem attr_br (scN : Scopes) (scS : List Scope.Table) (B : List Nat) (hsc : ScRel scS scN B) :
    ∀ a : AttrP, wfAttr scN a = true → ∀ (st : Scope.Store) (P : List Cell), CoreEq st P →
    ∃ x st', desAttr scN a = .ok x ∧
      Scope.deserSubs st scS (subsAttr a) = .ok (st', treeAttr B P.length st.nn st.ng x) ∧
      CoreEq st' (P ++ cellsAttr x) ∧ st'.nn = st.nn + nnAttr x ∧ st'.ng = st.ng + ngAttr x ∧
      x.name = a.name
  | .ref n d r t, h, st, P, hc => attr_br_leaf scN scS B _ rfl h st P hc
  | .int n d i, h, st, P, hc => attr_br_leaf scN scS B _ rfl h st P hc
  | .float n d b, h, st, P, hc => attr_br_leaf scN scS B _ rfl h st P hc
  | .string n d s, h, st, P, hc => attr_br_leaf scN scS B _ rfl h st P hc
  | .ints n d xs, h, st, P, hc => attr_br_leaf scN scS B _ rfl h st P hc
  | .floats n d xs, h, st, P, hc => attr_br_leaf scN scS B _ rfl h st P hc
  | .strings n d xs, h, st, P, hc => attr_br_leaf scN scS B _ rfl h st P hc
  | .tensor n d t, h, st, P, hc => attr_br_leaf scN scS B _ rfl h st P hc
  | .tensors n d ts, h, st, P, hc => attr_br_leaf scN scS B _ rfl h st P hc
  | .typeProto n d tp, h, st, P, hc => attr_br_leaf scN scS B _ rfl h st P hc
  | .typeProtos n d tps, h, st, P, hc => attr_br_leaf scN scS B _ rfl h st P hc
  | .undefined _ _, h, _, _, _ => by simp [wfAttr] at h
  | .sparse _ _ _, h, _, _, _ => by simp [wfAttr] at h
  | .unknown _ _ _, h, _, _, _ => by simp [wfAttr] at h
  | .graph n d g, h, st, P, hc => by
    simp only [wfAttr] at h
    obtain ⟨x, st', g1, g2, g3, g4, g5⟩ := graph_br scN scS B hsc g h st P hc
    refine ⟨.graph n d x, st', by simp [desAttr, g1, bind, Except.bind], ?_,
      by simpa [cellsAttr] using g3, by simpa [nnAttr] using g4, by simpa [ngAttr] using g5, rfl⟩
    simp [subsAttr, Scope.deserSubs, g2, treeAttr]
  | .graphs n d gs, h, st, P, hc => by
    simp only [wfAttr] at h
    obtain ⟨xs, st', g1, g2, g3, g4, g5⟩ := graphs_br scN scS B hsc gs h st P hc
    exact ⟨.graphs n d xs, st', by simp [desAttr, g1, bind, Except.bind],
      by simpa [subsAttr, treeAttr] using g2,
      by simpa [cellsAttr] using g3, by simpa [nnAttr] using g4, by simpa [ngAttr] using g5, rfl⟩

theorem graphs_br (scN : Scopes) (scS : List Scope.Table) (B : List Nat) (hsc : ScRel scS scN B) :
    ∀ gs : List GraphP, wfGraphs scN gs = true → ∀ (st : Scope.Store) (P : List Cell), CoreEq st P →
    ∃ xs st', desGraphs scN gs = .ok xs ∧
      Scope.deserSubs st scS (absGsFull gs) = .ok (st', treeGs B P.length st.nn st.ng xs) ∧
      CoreEq st' (P ++ cellsGs xs) ∧ st'.nn = st.nn + nnGs xs ∧ st'.ng = st.ng + ngGs xs
  | [], _, st, P, hc =>
    ⟨[], st, rfl, by simp [absGsFull, Scope.deserSubs, treeGs], by simpa [cellsGs] using hc, by simp [nnGs],
      by simp [ngGs]⟩
  | g :: gs, h, st, P, hc => by
    simp only [wfGraphs, Bool.and_eq_true] at h
    obtain ⟨x, st1, g1, g2, g3, g4, g5⟩ := graph_br scN scS B hsc g h.1 st P hc
    obtain ⟨xs, st2, h1, h2, h3, h4, h5⟩ := graphs_br scN scS B hsc gs h.2 st1 _ g3
    refine ⟨x :: xs, st2, by simp [desGraphs, g1, h1, bind, Except.bind], ?_,
      by simpa [cellsGs, List.append_assoc] using h3, by rw [h4, g4]; simp [nnGs]; omega,
      by rw [h5, g5]; simp [ngGs]; omega⟩
    simp only [absGsFull, Scope.deserSubs, g2, h2, treeGs]
    simp [g4, g5]

theorem attrs_br (scN : Scopes) (scS : List Scope.Table) (B : List Nat) (hsc : ScRel scS scN B) :
    ∀ as : List AttrP, wfAttrs scN as = true → ∀ (st : Scope.Store) (P : List Cell), CoreEq st P →
    ∃ xs st', desAttrs scN as = .ok xs ∧
      Scope.deserSubs st scS (subsAttrs as) = .ok (st', treeAttrs B P.length st.nn st.ng xs) ∧
      CoreEq st' (P ++ cellsAttrs xs) ∧ st'.nn = st.nn + nnAttrs xs ∧ st'.ng = st.ng + ngAttrs xs ∧
      xs.map IRAttr.name = as.map AttrP.name
  | [], _, st, P, hc =>
    ⟨[], st, rfl, by simp [subsAttrs, Scope.deserSubs, treeAttrs], by simpa [cellsAttrs] using hc,
      by simp [nnAttrs], by simp [ngAttrs], rfl⟩
  | a :: as, h, st, P, hc => by
    simp only [wfAttrs, Bool.and_eq_true] at h
    obtain ⟨x, st1, g1, g2, g3, g4, g5, g6⟩ := attr_br scN scS B hsc a h.1 st P hc
    obtain ⟨xs, st2, h1, h2, h3, h4, h5, h6⟩ := attrs_br scN scS B hsc as h.2 st1 _ g3
    refine ⟨x :: xs, st2, by simp [desAttrs, g1, h1, bind, Except.bind], ?_,
      by simpa [cellsAttrs, List.append_assoc] using h3, by rw [h4, g4]; simp [nnAttrs]; omega,
      by rw [h5, g5]; simp [ngAttrs]; omega, by simp [g6, h6]⟩
    have := deserSubs_append scS _ _ st st1 st2 _ _ g2 h2
    simp only [subsAttrs, treeAttrs]
    rw [this]
    simp [g4, g5]

theorem node_br (outerN : Scopes) (outerS : List Scope.Table) (bases : List Nat) (hsc : ScRel outerS outerN bases)
    (vis : List ValueInfoP) (q : List AnnotP) :
    ∀ (n : NodeP) (tbl : List IRValue) (st : Scope.Store) (P : List Cell) (top : Scope.Table) (b : Nat),
    wfNode (tableNames tbl :: outerN) n = true → CoreEq st P → TblRelB top (tableNames tbl) b →
    ∃ x st', desNode outerN vis q tbl n = .ok (x, tbl) ∧
      Scope.deserNode st top outerS (Scope.vinfoTable (vis.map absVI)) (absNFull n)
        = .ok (st', top, treeNode (b :: bases) P.length st.nn st.ng x) ∧
      CoreEq st' (P ++ cellsNode x) ∧ st'.nn = st.nn + nnNode x ∧ st'.ng = st.ng + ngNode x
  | .mk inputs outputs name opType domain overload doc attrs metadata devcfgs, tbl, st, P, top, b, hw, hc, ht =>
    node_coreB outerN outerS bases vis q tbl top b hsc ht inputs outputs name opType domain overload doc attrs
      metadata devcfgs hw
      (attrs_br (tableNames tbl :: outerN) (top :: outerS) (b :: bases) (.cons ht hsc) attrs) st P hc

theorem nodes_br (outerN : Scopes) (outerS : List Scope.Table) (bases : List Nat)
    (hsc : ScRel outerS outerN bases) (vis : List ValueInfoP) (q : List AnnotP) :
    ∀ (nodes : List NodeP) (tbl : List IRValue) (st : Scope.Store) (P : List Cell) (top : Scope.Table) (b : Nat),
    wfNodes (tableNames tbl :: outerN) nodes = true → CoreEq st P → TblRelB top (tableNames tbl) b →
    ∃ xs st', desNodes outerN vis q nodes tbl = .ok (xs, tbl) ∧
      Scope.deserNodes st top outerS (Scope.vinfoTable (vis.map absVI)) (absNsFull nodes)
        = .ok (st', top, treeNodes (b :: bases) P.length st.nn st.ng xs) ∧
      CoreEq st' (P ++ cellsNodes xs) ∧ st'.nn = st.nn + nnNodes xs ∧ st'.ng = st.ng + ngNodes xs
  | [], tbl, st, P, top, b, _, hc, _ =>
    ⟨[], st, rfl, by simp [absNsFull, Scope.deserNodes, treeNodes], by simpa [cellsNodes] using hc,
      by simp [nnNodes], by simp [ngNodes]⟩
  | n :: ns, tbl, st, P, top, b, hw, hc, ht => by
    simp only [wfNodes, Bool.and_eq_true] at hw
    obtain ⟨x, st1, g1, g2, g3, g4, g5⟩ := node_br outerN outerS bases hsc vis q n tbl st P top b hw.1 hc ht
    obtain ⟨xs, st2, h1, h2, h3, h4, h5⟩ :=
      nodes_br outerN outerS bases hsc vis q ns tbl st1 _ top b hw.2 g3 ht
    refine ⟨x :: xs, st2, by simp [desNodes, g1, h1, bind, Except.bind], ?_,
      by simpa [cellsNodes, List.append_assoc] using h3, by rw [h4, g4]; simp [nnNodes]; omega,
      by rw [h5, g5]; simp [ngNodes]; omega⟩
    simp only [absNsFull, Scope.deserNodes, g2, h2, treeNodes]
    simp [g4, g5]

theorem graph_br (outerN : Scopes) (outerS : List Scope.Table) (bases : List Nat)
    (hsc : ScRel outerS outerN bases) :
    ∀ g : GraphP, wfGraph outerN g = true → ∀ (st : Scope.Store) (P : List Cell), CoreEq st P →
    ∃ x st', desGraph outerN g = .ok x ∧
      Scope.deserGraph st outerS (absGFull g) = .ok (st', treeG bases P.length st.nn st.ng x) ∧
      CoreEq st' (P ++ cellsG x) ∧ st'.nn = st.nn + nnG x ∧ st'.ng = st.ng + ngG x
  | .mk name doc nodes inits inputs outputs vis quant metadata, h, st, P, hc =>
    graph_coreB outerN outerS bases name doc nodes inits inputs outputs vis quant metadata h
      (fun tbl st P top b hw hc ht => nodes_br outerN outerS bases hsc vis quant nodes tbl st P top b hw hc ht)
      st P hc
end

end IrVerif.Bridge

namespace IrVerif.Scope
open IrVerif.Proto

/-- **C02 bridge, deserialization, nested graphs included**: on C02's well-formed graphs (`wfGraph []`, GRAPH /
    GRAPHS attributes at any depth) both models deserialize, and C02's IR, abstracted to the Scope world
    (`absIRFull`: values / nodes / graphs numbered in the creation order of the Scope deserializer, references
    `(up, idx)` turned into creation indices through the bases of the enclosing graphs), IS the world the Scope
    model deserializes from the abstracted proto. -/
theorem C03_bridge_deserialize (p : Proto.GraphP) (h : Bridge.sharedFull p = true) :
    ∃ g w, Serde.desGraph [] p = .ok g ∧ deserialize (Bridge.absGFull p) = .ok w ∧
      Bridge.coreOf w = Bridge.absIRFull g := by
  obtain ⟨x, st', g1, g2, g3, _, _⟩ := Bridge.graph_br [] [] [] .nil p h {} [] Bridge.coreEq_empty
  refine ⟨x, ⟨st', Bridge.treeG [] 0 0 0 x⟩, g1, ?_, ?_⟩
  · simp only [deserialize, g2]
    rfl
  · simp only [Bridge.coreOf, Bridge.absIRFull]
    rw [Bridge.coreEq_cells g3]
    simp

end IrVerif.Scope

import IrVerif.Lemmas.ScopeSerdeBridgeModel9b
/-!
The C02 bridge for models in the IR version < 10 format, part 3: C02's post-pass in closed form (`postF`) on the
functions it deserializes, and `C03_bridge_deserialize_model9`.
-/
namespace IrVerif.Bridge
open IrVerif.Proto IrVerif.Serde

/-! ## C02 side: a deserialized function without value_info and its post-pass -/

theorem function_facts (ver : Int) (V : List ValueInfoP) (hV : V.all wfVI = true) (f : FunctionP)
    (h : wfFunction ver f = true) (hvi : f.valueInfo = []) :
    ∃ x, desFunction f = .ok x ∧ FnFacts x.graph ∧ fidOf x = fidP f ∧
      applyExperimentalFn V x = .ok (postF V x) := by
  simp only [wfFunction, Bool.and_eq_true] at h
  obtain ⟨⟨⟨⟨⟨⟨⟨⟨⟨⟨⟨⟨h1, h2⟩, h3⟩, _h4⟩, h5⟩, _h6⟩, h7⟩, _h8⟩, _h9⟩, _h10⟩, _h11⟩, h12⟩, _h13⟩ := h
  have hndN := nodupStr_iff.1 h1
  have hnd := hndN
  rw [List.nodup_append] at hnd
  obtain ⟨_hndI, hndO, hdis⟩ := hnd
  have hI := functionInputs_eq f.valueInfo h7 f.inputs
  have hNI : tableNames (f.inputs.map (newValueT f.valueInfo [])) = f.inputs := by
    simp [tableNames, List.map_map, Function.comp_def]
  have hC := declareAll_spec f.valueInfo [] h7 f.nodes (f.inputs.map (newValueT f.valueInfo []))
    (by intro n hn hm; rw [hNI] at hm; exact hdis n hm n hn rfl) hndO
  have hN : tableNames (f.inputs.map (newValueT f.valueInfo [])
      ++ (nodeOutNames f.nodes).map (newValueT f.valueInfo [])) = f.inputs ++ nodeOutNames f.nodes := by
    simp [tableNames, List.map_map, Function.comp_def]
  have hblank : ∀ v ∈ f.inputs.map (newValueT f.valueInfo [])
      ++ (nodeOutNames f.nodes).map (newValueT f.valueInfo []), v = IRValue.blank v.name := by
    intro v hv
    rw [hvi] at hv
    simp only [List.mem_append, List.mem_map] at hv
    rcases hv with ⟨s, _, rfl⟩ | ⟨s, _, rfl⟩ <;> rw [newValueT_nil] <;> rfl
  have hlenT : (f.inputs.map (newValueT f.valueInfo [])
      ++ (nodeOutNames f.nodes).map (newValueT f.valueInfo [])).length
      = (f.inputs ++ nodeOutNames f.nodes).length := by simp
  obtain ⟨TP, hTP⟩ : ∃ TP, TP = f.inputs.map (newValueT f.valueInfo [])
      ++ (nodeOutNames f.nodes).map (newValueT f.valueInfo []) := ⟨_, rfl⟩
  rw [← hTP] at hC hN hblank hlenT
  obtain ⟨as, a1, _, _⟩ := attrs_rt [] none f.attrProtos h5 (Or.inl rfl)
  obtain ⟨xs, n1, _, n3⟩ := nodes_rt [] f.valueInfo [] none f.nodes TP (by rw [hN]; exact h12) (Or.inl rfl)
  rw [hN] at n3
  obtain ⟨gouts, o1, _, o3, _, _⟩ := phF_outputs
    (((tableNames TP).zip (List.range' 0 (tableNames TP).length)).reverse) (tableNames TP) 0 rfl f.outputs
    (by intro n hn; rw [hN]; have := List.all_eq_true.1 h3 n hn; simpa using this)
  have hos : ∀ s ∈ f.nodes.flatMap NodeP.outputs, s ≠ "" → s ∈ nodeOutNames f.nodes := by
    intro s hs hne'
    simp only [nodeOutNames, List.mem_filter]
    exact ⟨hs, by simpa using hne'⟩
  -- coverage and bounds
  have hcov : ∀ t, t < TP.length → t < f.inputs.length ∨ some t ∈ xs.flatMap IRNode.outputs := by
    intro t ht
    by_cases hti : t < f.inputs.length
    · exact Or.inl hti
    · right
      rw [hlenT] at ht
      have hNt : (f.inputs ++ nodeOutNames f.nodes)[t]? = some ((f.inputs ++ nodeOutNames f.nodes)[t]) :=
        List.getElem?_eq_getElem ht
      have hmem : (f.inputs ++ nodeOutNames f.nodes)[t] ∈ nodeOutNames f.nodes := by
        rw [List.getElem_append_right (by omega)]
        exact List.getElem_mem _
      have hlk := lookupLast_of_nodup hndN hNt
      have hm2 := List.mem_filter.1 hmem
      rw [n3]
      refine List.mem_map.2 ⟨_, hm2.1, ?_⟩
      have hne' : (f.inputs ++ nodeOutNames f.nodes)[t] ≠ "" := by simpa using hm2.2
      simp [hne', hlk]
  have hbd : ∀ j, some j ∈ xs.flatMap IRNode.outputs → j < TP.length := by
    intro j hj
    rw [n3] at hj
    obtain ⟨s, _, hs⟩ := List.mem_map.1 hj
    split at hs
    · cases hs
    · have := lookupLast_lt hs
      rw [hlenT]; exact this
  refine ⟨⟨f.domain, f.name, f.overload,
      .mk TP (List.range f.inputs.length) [] xs gouts
        (if f.overload.isEmpty then "" else f.name ++ "_" ++ f.domain ++ "__" ++ f.overload) f.doc
        (opsetDict f.opsetImport) (dictOfEntries f.metadata),
      attrDict (as ++ f.attrNames.map fun n => IRAttr.undefined n "")⟩, ?_, ?_, rfl, ?_⟩
  · simp only [desFunction, hI, hC, n1, o1, a1, bind, Except.bind]
  · exact ⟨TP, _, xs, gouts, _, _, _, _, rfl, by rw [hlenT]; simp, hblank, hcov, hbd, o3⟩
  · by_cases hov : f.overload = ""
    · obtain ⟨ho1, ho2⟩ := namesAt_outs (f.inputs ++ nodeOutNames f.nodes) (f.nodes.flatMap NodeP.outputs)
        (fun s hs hn => List.mem_append_right _ (hos s hs hn))
      have hnames : namesAt (f.inputs ++ nodeOutNames f.nodes)
          (List.range f.inputs.length ++ optNats (xs.flatMap IRNode.outputs))
          = f.inputs ++ nodeOutNames f.nodes := by
        rw [n3]
        simp only [namesAt, List.map_append]
        have h1' := namesAt_range (f.inputs ++ nodeOutNames f.nodes) f.inputs.length (by simp)
        simp only [namesAt] at h1' ho1
        rw [h1', ho1, List.take_left' rfl]
        rfl
      have hspec := applyExperimental_spec (experimentalFor V f.domain f.name)
        (experimentalFor_wf V hV _ _)
        (List.range f.inputs.length ++ optNats (xs.flatMap IRNode.outputs)) TP (by rw [hN]; exact hndN)
        (by intro i hi
            rcases List.mem_append.1 hi with hi | hi
            · have := List.mem_range.1 hi
              rw [hlenT]; simp; omega
            · rw [n3] at hi
              rw [hlenT]
              exact ho2 i hi)
        (by rw [hN, hnames]; exact hndN)
      rw [hN, hnames] at hspec
      have hall : TP.map (fun v => if v.name ∈ f.inputs ++ nodeOutNames f.nodes
            then expUpd (experimentalFor V f.domain f.name) v else v)
          = TP.map (expUpd (experimentalFor V f.domain f.name)) := by
        apply List.map_congr_left
        intro v hv
        have : v.name ∈ f.inputs ++ nodeOutNames f.nodes := by
          rw [← hN]; exact List.mem_map_of_mem hv
        rw [if_pos this]
      rw [hall] at hspec
      simp only [applyExperimentalFn, hov, if_true, hspec, bind, Except.bind, postF, mapTable]
    · simp [applyExperimentalFn, postF, hov]

theorem funcs_facts (ver : Int) (V : List ValueInfoP) (hV : V.all wfVI = true) :
    ∀ fs : List FunctionP, fs.all (wfFunction ver) = true → (∀ f ∈ fs, f.valueInfo = []) →
    ∃ xs, desFunctions fs = .ok xs ∧ (∀ x ∈ xs, FnFacts x.graph) ∧ xs.map fidOf = fs.map fidP ∧
      applyExperimentalAll V xs = .ok (xs.map (postF V))
  | [], _, _ => ⟨[], rfl, by simp, rfl, rfl⟩
  | f :: fs, h, hvi => by
    simp only [List.all_cons, Bool.and_eq_true] at h
    obtain ⟨x, g1, g2, g3, g4⟩ := function_facts ver V hV f h.1 (hvi f (by simp))
    obtain ⟨xs, r1, r2, r3, r4⟩ := funcs_facts ver V hV fs h.2 (fun g hg => hvi g (List.mem_cons_of_mem _ hg))
    refine ⟨x :: xs, by simp [desFunctions, g1, r1, bind, Except.bind], ?_, by simp [g3, r3],
      by simp [applyExperimentalAll, g4, r4, bind, Except.bind]⟩
    intro y hy
    rcases List.mem_cons.1 hy with rfl | hy
    · exact g2
    · exact r2 y hy

/-! ## the tree does not see the post-pass -/

theorem getD_map_name (u : IRValue → IRValue) (hu : ∀ v, (u v).name = v.name) (T : List IRValue) (i : Nat) :
    ((T.map u).getD i (IRValue.blank "")).name = (T.getD i (IRValue.blank "")).name := by
  simp only [List.getD, List.getElem?_map]
  cases T[i]? with
  | none => rfl
  | some v => simp [hu]

theorem mapTable_inv (u : IRValue → IRValue) (hu : ∀ v, (u v).name = v.name) (G : IRGraph) :
    nnG (mapTable u G) = nnG G ∧ ngG (mapTable u G) = ngG G ∧
      ∀ B k nn ng, treeG B k nn ng (mapTable u G) = treeG B k nn ng G := by
  cases G
  simp only [mapTable, nnG, ngG, treeG, List.length_map, getD_map_name u hu, true_and]
  intro B k nn ng
  trivial

theorem postF_inv (V : List ValueInfoP) (x : IRFunction) :
    fidOf (postF V x) = fidOf x ∧ nnG (postF V x).graph = nnG x.graph ∧ ngG (postF V x).graph = ngG x.graph ∧
      ∀ B k nn ng, treeG B k nn ng (postF V x).graph = treeG B k nn ng x.graph := by
  unfold postF
  split
  · obtain ⟨a, b, c⟩ := mapTable_inv (expUpd (experimentalFor V x.domain x.name)) (fun v => by simp) x.graph
    exact ⟨rfl, a, b, c⟩
  · exact ⟨rfl, rfl, rfl, fun _ _ _ _ => rfl⟩

theorem treeFs_post (V : List ValueInfoP) : ∀ (xs : List IRFunction) (k nn ng : Nat),
    treeFs k nn ng (xs.map (postF V)) = treeFs k nn ng xs
  | [], _, _, _ => rfl
  | x :: xs, k, nn, ng => by
    obtain ⟨a, b, c, d⟩ := postF_inv V x
    simp only [List.map_cons, treeFs, a, b, c, d, postF_length, treeFs_post V xs]

theorem cellsFs_post_length (V : List ValueInfoP) : ∀ xs : List IRFunction,
    (cellsFs (xs.map (postF V))).length = (cellsFs xs).length
  | [] => rfl
  | x :: xs => by simp [cellsFs, postF_length, cellsFs_post_length V xs]

theorem treeFs_fst : ∀ (xs : List IRFunction) (k nn ng : Nat), (treeFs k nn ng xs).map (·.1) = xs.map fidOf
  | [], _, _, _ => rfl
  | x :: xs, k, nn, ng => by simp [treeFs, treeFs_fst xs]

theorem showsAt_of_coreEq {st : Scope.Store} {cs : List Cell} (h : CoreEq st cs) : ShowsAt st 0 cs := by
  intro j hj
  rw [Nat.zero_add]
  exact h.cells j hj

theorem cells_of_showsAt {st : Scope.Store} {cs : List Cell} (hs : ShowsAt st 0 cs) (hn : st.nv = cs.length) :
    (List.range st.nv).map (cellAt st) = cs := by
  apply List.ext_getElem
  · simp [hn]
  · intro i h1 h2
    have := hs i h2
    rw [Nat.zero_add] at this
    simp only [List.getElem_map, List.getElem_range]
    rw [this]
    simp [List.getD, List.getElem?_eq_getElem h2]

end IrVerif.Bridge

namespace IrVerif.Scope
open IrVerif.Proto

/-- **C02 bridge, deserialization of models in the IR version < 10 format**: the experimental entries
    `domain::name/value` of the main graph's value_info reach the same function values in both models. -/
theorem C03_bridge_deserialize_model9 (m : Proto.ModelP) (h : Bridge.sharedM9 m = true) :
    ∃ x w, Serde.desModel m = .ok x ∧ deserializeM9 (Bridge.absM m) = .ok w ∧
      Bridge.coreOfM w = Bridge.absIRM x := by
  simp only [Bridge.sharedM9, Bool.and_eq_true, decide_eq_true_eq] at h
  obtain ⟨⟨hwf, hver⟩, hne⟩ := h
  simp only [Serde.wfModel, Bool.and_eq_true] at hwf
  obtain ⟨⟨⟨⟨⟨⟨hg, hf⟩, _⟩, _⟩, hkeys⟩, _⟩, _⟩ := hwf
  have hV : m.graph.valueInfo.all Serde.wfVI = true := by
    cases hmg : m.graph with
    | mk name doc nodes inits inputs outputs vis quant md =>
      rw [hmg] at hg
      exact (Serde.graphWF_of_wf [] name doc nodes inits inputs outputs vis quant md hg).1.wfVis
  have hvis : ∀ f ∈ m.functions, f.valueInfo = [] := by
    intro f hfm
    have := List.all_eq_true.1 hf f hfm
    simp only [Serde.wfFunction, Bool.and_eq_true, Bool.or_eq_true, decide_eq_true_eq,
      List.isEmpty_iff] at this
    rcases this.2 with h10 | h10
    · omega
    · exact h10
  obtain ⟨g, st1, g1, g2, g3, g4, g5⟩ := Bridge.graph_br [] [] [] .nil m.graph hg {} [] Bridge.coreEq_empty
  have hknd := Serde.nodupKeys_iff.1 hkeys
  obtain ⟨fs, st2, f1, f2, f3, f4⟩ := Bridge.funcs_br m.irVersion m.functions st1 _ [] hf g3
    (by simpa using Bridge.fid_nodup hknd)
  obtain ⟨fs', e1, e2, e3, e4⟩ := Bridge.funcs_facts m.irVersion m.graph.valueInfo hV m.functions hf hvis
  rw [f1] at e1
  cases e1
  have hdict : Serde.functionDict [] fs = fs := by
    rw [Serde.functionDict_append fs [] (by simpa [f4] using hknd)]; simp
  obtain ⟨i1, i2, i3, i4, _⟩ := Bridge.setOpsets_inv g (Serde.opsetDict m.opsetImport)
  simp only [List.nil_append] at f2 f3
  -- the post-pass
  have hvinfo : (Bridge.absGFull m.graph).vinfo = m.graph.valueInfo.map Bridge.absVI := by
    cases m.graph; simp [Bridge.absGFull, GraphP.vinfo, Proto.GraphP.valueInfo]
  have hsh0 := Bridge.showsAt_of_coreEq f3
  have hcont : ∀ x ∈ fs, (fs.map Bridge.fidOf).contains (Bridge.fidOf x) = true := by
    intro x hx
    simpa using List.mem_map_of_mem (f := Bridge.fidOf) hx
  have hshR : Bridge.ShowsAt st2 (Bridge.cellsG g).length (Bridge.cellsFs fs) := by
    have := Bridge.showsAt_right hsh0
    rwa [Nat.zero_add] at this
  obtain ⟨pA, pB⟩ := Bridge.post_fold m.graph.valueInfo hne (fs.map Bridge.fidOf) fs
    (Bridge.cellsG g).length (Bridge.nnG g) (Bridge.ngG g) st2 e2 hcont hshR
  obtain ⟨q1, q2, _, _⟩ := Bridge.postFold_frame (m.graph.valueInfo.map Bridge.absVI) (fs.map Bridge.fidOf)
    (Bridge.treeFs (Bridge.cellsG g).length (Bridge.nnG g) (Bridge.ngG g) fs) st2
  generalize hst' : postFold (m.graph.valueInfo.map Bridge.absVI) (fs.map Bridge.fidOf)
    (Bridge.treeFs (Bridge.cellsG g).length (Bridge.nnG g) (Bridge.ngG g) fs) st2 = st' at pA pB q1 q2
  have hmain : Bridge.ShowsAt st' 0 (Bridge.cellsG g) := by
    intro j hj
    have := Bridge.showsAt_left hsh0 j hj
    rw [← this]
    rw [Nat.zero_add]
    simp only [Bridge.cellAt, pB j hj, q1]
  have hall : Bridge.ShowsAt st' 0 (Bridge.cellsG g ++ Bridge.cellsFs (fs.map (Bridge.postF m.graph.valueInfo))) :=
    Bridge.showsAt_append hmain (by rw [Nat.zero_add]; exact pA)
  have hnv : st'.nv = (Bridge.cellsG g ++ Bridge.cellsFs (fs.map (Bridge.postF m.graph.valueInfo))).length := by
    rw [q2, f3.nv]
    simp [Bridge.cellsFs_post_length]
  refine ⟨{ graph := g.setOpsets (Serde.opsetDict m.opsetImport),
            irVersion := m.irVersion, producerName := m.producerName,
            producerVersion := m.producerVersion, domain := m.domain, modelVersion := m.modelVersion,
            doc := m.doc, functions := fs.map (Bridge.postF m.graph.valueInfo),
            mprops := Serde.dictOfEntries m.metadata,
            configs := m.configuration.map Serde.desModelCfg },
    ⟨st', Bridge.treeG [] 0 0 0 g, Bridge.treeFs (Bridge.cellsG g).length (Bridge.nnG g) (Bridge.ngG g) fs⟩, ?_, ?_, ?_⟩
  · simp only [Serde.desModel, g1, f1, hdict, hver, if_true, e4, bind, Except.bind]
  · simp only [deserializeM9, deserializeM, Bridge.absM, g2]
    rw [f2]
    simp only [List.length_nil, g4, g5, Nat.zero_add, hvinfo, Bridge.treeFs_fst]
    have : (Bridge.treeFs (Bridge.cellsG g).length (Bridge.nnG g) (Bridge.ngG g) fs).foldl
        (applyExpFunc (m.graph.valueInfo.map Bridge.absVI) (fs.map Bridge.fidOf)) st2 = st' := hst'
    simp [this]
  · simp only [Bridge.coreOfM, Bridge.absIRM, i1, i2, i3, i4, Bridge.treeFs_post]
    rw [Bridge.cells_of_showsAt hall hnv]

end IrVerif.Scope

/-
The device configurations stored by an extended deserializer run (`Model/ScopeExt.lean`), node by node:
`DevSpecG` (of `ScopeExtRTDefs.lean`) holds of what `deserializeE` / `deserializeME` return.

The induction carries a stronger, positional predicate `DevXG lo hi s x p g`: every node of `g` has its creation
index in `[lo, hi)`, and its stored configurations are the proto configurations resolved in a scope stack whose
tables are `Named` AND `TableLt` in `s` (the bound makes `Named` monotone along the run).
-/
import IrVerif.Lemmas.ScopeExtRTDefs
namespace IrVerif.Scope

/-- the tables of a scope stack bind names to allocated values that carry them -/
def ScopesOK (s : Store) (scopes : List Table) : Prop := ∀ t ∈ scopes, Named s t ∧ TableLt s t

theorem ScopesOK.keep {s s' : Store} {scopes : List Table} (h : ScopesOK s scopes) (hle : s.nv ≤ s'.nv)
    (hn : ∀ v, v < s.nv → (s'.vals v).name = (s.vals v).name) : ScopesOK s' scopes :=
  fun t ht => ⟨(h t ht).1.keep (h t ht).2 hn, (h t ht).2.mono hle⟩

mutual
/-- `DevSpecG` with the creation indices of the nodes in `[lo, hi)` and bounded scope tables -/
def DevXG (lo hi : Nat) (s : Store) (x : Ext) : GraphE → GraphT → Prop
  | .mk _ _ _ nodes _ _, .mk _ _ _ nodes' _ => DevXNs lo hi s x nodes nodes'
def DevXNs (lo hi : Nat) (s : Store) (x : Ext) : List NodeE → List NodeT → Prop
  | [], [] => True
  | n :: ns, n' :: ns' => DevXN lo hi s x n n' ∧ DevXNs lo hi s x ns ns'
  | _, _ => False
def DevXN (lo hi : Nat) (s : Store) (x : Ext) : NodeE → NodeT → Prop
  | .mk _ _ devs subs, .mk id _ _ _ subs' =>
    (lo ≤ id ∧ id < hi ∧ ∃ scopes : List Table, ScopesOK s scopes ∧ x.devs id = devs.map (deserDevR scopes)) ∧
    DevXGs lo hi s x subs subs'
def DevXGs (lo hi : Nat) (s : Store) (x : Ext) : List GraphE → List GraphT → Prop
  | [], [] => True
  | g :: gs, g' :: gs' => DevXG lo hi s x g g' ∧ DevXGs lo hi s x gs gs'
  | _, _ => False
end

/-! ### monotonicity: wider index range, grown store that keeps the names, `devs` changed outside the range -/

mutual
theorem DevXG.mono {lo hi lo' hi' : Nat} {s s' : Store} {x x' : Ext} (hlo : lo' ≤ lo) (hhi : hi ≤ hi')
    (hle : s.nv ≤ s'.nv) (hn : ∀ v, v < s.nv → (s'.vals v).name = (s.vals v).name)
    (hx : ∀ k, lo ≤ k → k < hi → x'.devs k = x.devs k) :
    ∀ (p : GraphE) (g : GraphT), DevXG lo hi s x p g → DevXG lo' hi' s' x' p g
  | .mk _ _ _ nodes _ _, .mk _ _ _ nodes' _, h => by
    simp only [DevXG] at h ⊢
    exact DevXNs.mono hlo hhi hle hn hx nodes nodes' h
theorem DevXNs.mono {lo hi lo' hi' : Nat} {s s' : Store} {x x' : Ext} (hlo : lo' ≤ lo) (hhi : hi ≤ hi')
    (hle : s.nv ≤ s'.nv) (hn : ∀ v, v < s.nv → (s'.vals v).name = (s.vals v).name)
    (hx : ∀ k, lo ≤ k → k < hi → x'.devs k = x.devs k) :
    ∀ (ns : List NodeE) (nts : List NodeT), DevXNs lo hi s x ns nts → DevXNs lo' hi' s' x' ns nts
  | [], [], _ => by simp only [DevXNs]
  | n :: ns, nt :: nts, h => by
    simp only [DevXNs] at h ⊢
    exact ⟨DevXN.mono hlo hhi hle hn hx n nt h.1, DevXNs.mono hlo hhi hle hn hx ns nts h.2⟩
  | [], _ :: _, h => by simp only [DevXNs] at h
  | _ :: _, [], h => by simp only [DevXNs] at h
theorem DevXN.mono {lo hi lo' hi' : Nat} {s s' : Store} {x x' : Ext} (hlo : lo' ≤ lo) (hhi : hi ≤ hi')
    (hle : s.nv ≤ s'.nv) (hn : ∀ v, v < s.nv → (s'.vals v).name = (s.vals v).name)
    (hx : ∀ k, lo ≤ k → k < hi → x'.devs k = x.devs k) :
    ∀ (n : NodeE) (nt : NodeT), DevXN lo hi s x n nt → DevXN lo' hi' s' x' n nt
  | .mk _ _ devs subs, .mk id _ _ _ subs', h => by
    simp only [DevXN] at h ⊢
    obtain ⟨⟨h1, h2, scopes, hs, hd⟩, h3⟩ := h
    exact ⟨⟨Nat.le_trans hlo h1, Nat.lt_of_lt_of_le h2 hhi, scopes, hs.keep hle hn, by rw [hx id h1 h2]; exact hd⟩,
      DevXGs.mono hlo hhi hle hn hx subs subs' h3⟩
theorem DevXGs.mono {lo hi lo' hi' : Nat} {s s' : Store} {x x' : Ext} (hlo : lo' ≤ lo) (hhi : hi ≤ hi')
    (hle : s.nv ≤ s'.nv) (hn : ∀ v, v < s.nv → (s'.vals v).name = (s.vals v).name)
    (hx : ∀ k, lo ≤ k → k < hi → x'.devs k = x.devs k) :
    ∀ (gs : List GraphE) (gts : List GraphT), DevXGs lo hi s x gs gts → DevXGs lo' hi' s' x' gs gts
  | [], [], _ => by simp only [DevXGs]
  | g :: gs, gt :: gts, h => by
    simp only [DevXGs] at h ⊢
    exact ⟨DevXG.mono hlo hhi hle hn hx g gt h.1, DevXGs.mono hlo hhi hle hn hx gs gts h.2⟩
  | [], _ :: _, h => by simp only [DevXGs] at h
  | _ :: _, [], h => by simp only [DevXGs] at h
end

/-- `mkGraph` only stamps the graph id on the nodes -/
theorem DevXNs_setGraph (lo hi : Nat) (s : Store) (x : Ext) (gid : Nat) :
    ∀ (ns : List NodeE) (nts : List NodeT), DevXNs lo hi s x ns nts →
      DevXNs lo hi s x ns (nts.map (NodeT.setGraph gid))
  | [], [], _ => by simp only [List.map_nil, DevXNs]
  | n :: ns, nt :: nts, h => by
    simp only [DevXNs, List.map_cons] at h ⊢
    refine ⟨?_, DevXNs_setGraph lo hi s x gid ns nts h.2⟩
    obtain ⟨i, g, a, b, c⟩ := nt
    obtain ⟨i', o', d', s'⟩ := n
    simp only [DevXN, NodeT.setGraph] at h ⊢
    exact h.1
  | [], _ :: _, h => by simp only [DevXNs] at h
  | _ :: _, [], h => by simp only [DevXNs] at h

/-! ### projection to `DevSpecG` -/

mutual
theorem DevXG.spec {lo hi : Nat} {s : Store} {x : Ext} :
    ∀ (p : GraphE) (g : GraphT), DevXG lo hi s x p g → DevSpecG s x p g
  | .mk _ _ _ nodes _ _, .mk _ _ _ nodes' _, h => by
    simp only [DevXG] at h
    simp only [DevSpecG]
    exact DevXNs.spec nodes nodes' h
theorem DevXNs.spec {lo hi : Nat} {s : Store} {x : Ext} :
    ∀ (ns : List NodeE) (nts : List NodeT), DevXNs lo hi s x ns nts → DevSpecNs s x ns nts
  | [], [], _ => by simp only [DevSpecNs]
  | n :: ns, nt :: nts, h => by
    simp only [DevXNs] at h
    simp only [DevSpecNs]
    exact ⟨DevXN.spec n nt h.1, DevXNs.spec ns nts h.2⟩
  | [], _ :: _, h => by simp only [DevXNs] at h
  | _ :: _, [], h => by simp only [DevXNs] at h
theorem DevXN.spec {lo hi : Nat} {s : Store} {x : Ext} :
    ∀ (n : NodeE) (nt : NodeT), DevXN lo hi s x n nt → DevSpecN s x n nt
  | .mk _ _ devs subs, .mk id _ _ _ subs', h => by
    simp only [DevXN] at h
    simp only [DevSpecN]
    obtain ⟨⟨_, _, scopes, hs, hd⟩, h3⟩ := h
    exact ⟨⟨scopes, fun t ht => (hs t ht).1, hd⟩, DevXGs.spec subs subs' h3⟩
theorem DevXGs.spec {lo hi : Nat} {s : Store} {x : Ext} :
    ∀ (gs : List GraphE) (gts : List GraphT), DevXGs lo hi s x gs gts → DevSpecGs s x gs gts
  | [], [], _ => by simp only [DevSpecGs]
  | g :: gs, gt :: gts, h => by
    simp only [DevXGs] at h
    simp only [DevSpecGs]
    exact ⟨DevXG.spec g gt h.1, DevXGs.spec gs gts h.2⟩
  | [], _ :: _, h => by simp only [DevXGs] at h
  | _ :: _, [], h => by simp only [DevXGs] at h
end

/-! ### the mutual induction over the extended deserializer -/

mutual
theorem deserGraphE_devX :
    ∀ (p : GraphE) (st : Store) (x : Ext) (outer : List Table) (st' : Store) (x' : Ext) (g : GraphT),
      Fresh st → TablesLt st outer → (∀ t ∈ outer, Named st t) →
      deserGraphE st x outer p = .ok (st', x', g) →
      DevXG st.nn st'.nn st' x' p g ∧ ∀ k, k < st.nn → x'.devs k = x.devs k
  | .mk inputs inits vinfo nodes outputs quant, st, x, outer, st', x', g, hf, ho, hno, h => by
    simp only [deserGraphE] at h
    -- inputs
    obtain ⟨i1, i2⟩ := deserInputsE_erase (quantTable quant) inputs st x
    have dI := deserInputsE_devs (quantTable quant) inputs st x
    obtain ⟨q1, _, _⟩ := deserInputs_spec st (inputs.map VInfoE.erase)
    have ok1 := inputTable_ok st (inputs.map VInfoE.erase)
    have n1 := deserInputs_named (inputs.map VInfoE.erase) st
    rw [← i1] at q1 ok1 n1
    rw [← i2] at ok1 n1
    generalize deserInputsE st x (quantTable quant) inputs = rI at h dI q1 ok1 n1
    obtain ⟨st1, x1, ins⟩ := rI
    simp only at h dI q1 ok1 n1
    have f1 := q1.fresh hf
    -- initializers
    obtain ⟨j1, j2, j3⟩ := deserInitsE_erase (vinfoTableE vinfo) (quantTable quant) inits st1 x1
      (inputTable (inputs.map VInfoE.erase) ins)
    have dA := deserInitsE_devs (vinfoTableE vinfo) (quantTable quant) inits st1 x1
      (inputTable (inputs.map VInfoE.erase) ins)
    obtain ⟨q2, ok2, _, _⟩ := deserInits_spec (eraseVT (vinfoTableE vinfo)) inits st1
      (inputTable (inputs.map VInfoE.erase) ins) st.nv ok1 q1.nv_le
    have n2 := deserInits_named (eraseVT (vinfoTableE vinfo)) inits st1 _ n1 ok1.lt
    rw [← j1] at q2 ok2 n2
    rw [← j2] at ok2 n2
    generalize deserInitsE st1 x1 (inputTable (inputs.map VInfoE.erase) ins) (vinfoTableE vinfo) (quantTable quant)
      inits = rA at h dA q2 ok2 n2
    obtain ⟨st2, x2, tbl2, initVals⟩ := rA
    simp only at h dA q2 ok2 n2
    have f2 := q2.fresh f1
    have le2 : st.nv ≤ st2.nv := Nat.le_trans q1.nv_le q2.nv_le
    split at h
    · simp at h
    · rename_i st3 x3 tbl3 h3
      have d3 := declareNodesE_devs _ _ _ _ _ _ _ _ _ h3
      have e3 := declareNodesE_erase (vinfoTableE vinfo) (quantTable quant) nodes st2 x2 tbl2
      rw [h3] at e3
      simp only [dropX] at e3
      obtain ⟨q3, ok3, _, _, _⟩ := declareNodes_spec _ _ st2 tbl2 st.nv st3 tbl3 ok2 le2 e3.symm
      have f3 := q3.fresh f2
      have n3 := declareNodes_named _ _ st2 tbl2 st3 tbl3 n2 ok2.lt e3.symm
      have le3 : st.nv ≤ st3.nv := Nat.le_trans le2 q3.nv_le
      have nm13 : ∀ v, v < st.nv → (st3.vals v).name = (st.vals v).name := fun v hv => by
        rw [q3.names v (Nat.lt_of_lt_of_le hv le2), q2.names v (Nat.lt_of_lt_of_le hv q1.nv_le), q1.names v hv]
      have nn3 : st3.nn = st.nn := by rw [q3.nn_eq, q2.nn_eq, q1.nn_eq]
      split at h
      · simp at h
      · rename_i st4 x4 tbl4 ns h4
        have e4 := deserNodesE_erase nodes st3 x3 tbl3 outer (vinfoTableE vinfo) (quantTable quant)
        rw [h4] at e4
        simp only [dropX] at e4
        obtain ⟨f4, m4, ok4, _⟩ := deserNodes_struct _ st3 tbl3 outer _ st.nv st4 tbl4 ns f3 ok3 (ho.mono le3) le3 e4.symm
        obtain ⟨hx4, fr4, _⟩ := deserNodesE_devX nodes st3 x3 tbl3 outer (vinfoTableE vinfo) (quantTable quant) st.nv st4 x4
          tbl4 ns f3 ok3 (ho.mono le3) le3 n3 (TreeNamedKeep hno ho nm13) h4
        -- outputs and the graph object
        obtain ⟨o1, o2⟩ := deserOutputsE_erase tbl4 outputs st4 x4
        have dO := deserOutputsE_devs tbl4 outputs st4 x4
        obtain ⟨q5, _⟩ := deserOutputs_spec tbl4 (outputs.map VInfoE.erase) st4 st.nv ok4
        rw [← o1] at q5
        generalize deserOutputsE st4 x4 tbl4 outputs = rO at h dO q5
        obtain ⟨st5, x5, outs⟩ := rO
        simp only [Except.ok.injEq, Prod.mk.injEq] at h dO q5
        obtain ⟨rfl, rfl, rfl⟩ := h
        obtain ⟨c1, c2, _⟩ := mkGraph_fst_counters st5 ins outs ns initVals
        refine ⟨?_, fun k hk => ?_⟩
        · rw [mkGraph_snd]
          simp only [DevXG]
          apply DevXNs_setGraph
          refine DevXNs.mono (by rw [nn3]; exact Nat.le_refl _) (by rw [c2, q5.nn_eq]; exact Nat.le_refl _)
            (by rw [c1]; exact q5.nv_le) (fun v hv => ?_) (fun k _ _ => by rw [dO]) nodes ns hx4
          rw [mkGraph_cell]
          exact q5.names v hv
        · rw [dO, fr4 k (by rw [nn3]; exact hk), d3, dA, dI]
theorem deserNodesE_devX :
    ∀ (ns : List NodeE) (st : Store) (x : Ext) (top : Table) (outer : List Table) (vt : List (Name × Info × SS))
      (qt : List (Name × SS)) (b : Nat) (st' : Store) (x' : Ext) (top' : Table) (nts : List NodeT),
      Fresh st → TblOK st b top → TablesLt st outer → b ≤ st.nv → Named st top → (∀ t ∈ outer, Named st t) →
      deserNodesE st x top outer vt qt ns = .ok (st', x', top', nts) →
      DevXNs st.nn st'.nn st' x' ns nts ∧ (∀ k, k < st.nn → x'.devs k = x.devs k) ∧ Named st' top'
  | [], st, x, top, outer, vt, qt, b, st', x', top', nts, _, _, _, _, hn, _, h => by
    simp only [deserNodesE, Except.ok.injEq, Prod.mk.injEq] at h
    obtain ⟨rfl, rfl, rfl, rfl⟩ := h
    exact ⟨by simp only [DevXNs], fun _ _ => rfl, hn⟩
  | n :: ns, st, x, top, outer, vt, qt, b, st', x', top', nts, hf, hok, ho, hb, hn, hno, h => by
    simp only [deserNodesE] at h
    split at h
    · simp at h
    · rename_i st1 x1 top1 nt h1
      split at h
      · simp at h
      · rename_i st2 x2 top2 nts' h2
        simp only [Except.ok.injEq, Prod.mk.injEq] at h
        obtain ⟨rfl, rfl, rfl, rfl⟩ := h
        have e1 := deserNodeE_erase n st x top outer vt qt
        rw [h1] at e1
        simp only [dropX] at e1
        obtain ⟨f1, m1, ok1, _⟩ := deserNode_struct _ st top outer _ b st1 top1 nt hf hok ho hb e1.symm
        obtain ⟨hx1, fr1, n1⟩ := deserNodeE_devX n st x top outer vt qt b st1 x1 top1 nt hf hok ho hb hn hno h1
        have e2 := deserNodesE_erase ns st1 x1 top1 outer vt qt
        rw [h2] at e2
        simp only [dropX] at e2
        obtain ⟨_, m2, _, _⟩ := deserNodes_struct _ st1 top1 outer _ b st2 top2 nts' f1 ok1 (ho.mono m1.nv_le)
          (Nat.le_trans hb m1.nv_le) e2.symm
        obtain ⟨hx2, fr2, n2⟩ := deserNodesE_devX ns st1 x1 top1 outer vt qt b st2 x2 top2 nts' f1 ok1 (ho.mono m1.nv_le)
          (Nat.le_trans hb m1.nv_le) n1 (TreeNamedKeep hno ho m1.names) h2
        refine ⟨?_, fun k hk => ?_, n2⟩
        · simp only [DevXNs]
          exact ⟨DevXN.mono (Nat.le_refl _) m2.nn_le m2.nv_le m2.names (fun k _ hk => fr2 k hk) n nt hx1,
            DevXNs.mono m1.nn_le (Nat.le_refl _) (Nat.le_refl _) (fun _ _ => rfl) (fun _ _ _ => rfl) ns nts' hx2⟩
        · rw [fr2 k (Nat.lt_of_lt_of_le hk m1.nn_le), fr1 k hk]
theorem deserNodeE_devX :
    ∀ (n : NodeE) (st : Store) (x : Ext) (top : Table) (outer : List Table) (vt : List (Name × Info × SS))
      (qt : List (Name × SS)) (b : Nat) (st' : Store) (x' : Ext) (top' : Table) (nt : NodeT),
      Fresh st → TblOK st b top → TablesLt st outer → b ≤ st.nv → Named st top → (∀ t ∈ outer, Named st t) →
      deserNodeE st x top outer vt qt n = .ok (st', x', top', nt) →
      DevXN st.nn st'.nn st' x' n nt ∧ (∀ k, k < st.nn → x'.devs k = x.devs k) ∧ Named st' top'
  | .mk inputs outputs devs subs, st, x, top, outer, vt, qt, b, st', x', top', nt, hf, hok, ho, hb, hn, hno, h => by
    simp only [deserNodeE] at h
    obtain ⟨k1, k2, _⟩ := resolveInputsE_erase outer vt qt inputs st x top
    have dR := resolveInputsE_devs outer vt qt inputs st x top
    obtain ⟨q1, ok1, _, _⟩ := resolveInputs_spec outer (eraseVT vt) inputs st top b hok ho hb
    have n1 := resolveInputs_named outer (eraseVT vt) inputs st top hn hok.lt
    rw [← k1] at q1 ok1 n1
    rw [← k2] at ok1 n1
    generalize resolveInputsE st x top outer vt qt inputs = rR at h dR q1 ok1 n1
    obtain ⟨st1, x1, top1, ins⟩ := rR
    simp only at h dR q1 ok1 n1
    have f1 := q1.fresh hf
    split at h
    · simp at h
    · rename_i st2 outs h2
      obtain ⟨q2, _, _, _, _⟩ := lookupOutputs_spec _ outputs _ _ _ h2
      have f2 := q2.fresh f1
      have hts : TablesLt st2 (top1 :: outer) :=
        TablesLt.cons (ok1.lt.mono q2.nv_le) (ho.mono (Nat.le_trans q1.nv_le q2.nv_le))
      have nm02 : ∀ v, v < st.nv → (st2.vals v).name = (st.vals v).name := fun v hv => by
        rw [q2.names v (Nat.lt_of_lt_of_le hv q1.nv_le), q1.names v hv]
      have hns2 : ∀ t ∈ top1 :: outer, Named st2 t := by
        intro t ht
        simp only [List.mem_cons] at ht
        rcases ht with rfl | ht
        · exact n1.keep ok1.lt q2.names
        · exact (hno t ht).keep (ho t ht) nm02
      have nn2 : st2.nn = st.nn := by rw [q2.nn_eq, q1.nn_eq]
      split at h
      · simp at h
      · rename_i st3 x3 gs h3
        simp only [Except.ok.injEq, Prod.mk.injEq] at h
        obtain ⟨rfl, rfl, rfl, rfl⟩ := h
        have e3 := deserSubsE_erase subs st2 x1 (top1 :: outer)
        rw [h3] at e3
        simp only [dropX] at e3
        obtain ⟨_, m3⟩ := deserSubs_struct _ st2 _ st3 gs f2 hts e3.symm
        obtain ⟨hx3, fr3⟩ := deserSubsE_devX subs st2 x1 (top1 :: outer) st3 x3 gs f2 hts hns2 h3
        have hk := mkNode_keeps st3 ins outs gs
        have hnv : (mkNode st3 ins outs gs).1.nv = st3.nv := mkNode_fst_nv st3 ins outs gs
        have hnn : (mkNode st3 ins outs gs).1.nn = st3.nn + 1 := mkNode_fst_nn st3 ins outs gs
        have le23 : st.nn ≤ st3.nn := by rw [← nn2]; exact m3.nn_le
        have hso : ScopesOK (mkNode st3 ins outs gs).1 (top1 :: outer) := by
          intro t ht
          refine ⟨(hns2 t ht).keep (hts t ht) (fun v hv => ?_), TableLt.mono (hts t ht) ?_⟩
          · rw [(hk v).1, m3.names v hv]
          · rw [hnv]; exact m3.nv_le
        refine ⟨?_, fun k hk' => ?_, ?_⟩
        · rw [mkNode_snd]
          simp only [DevXN]
          refine ⟨⟨le23, by rw [hnn]; exact Nat.lt_succ_self _, top1 :: outer, hso, by simp only [Ext.setDevs, if_true]⟩, ?_⟩
          refine DevXGs.mono (by rw [nn2]; exact Nat.le_refl _) (by rw [hnn]; exact Nat.le_succ _)
            (by rw [hnv]; exact Nat.le_refl _) (fun v _ => (hk v).1) (fun k _ hk' => ?_) subs gs hx3
          simp only [Ext.setDevs]
          rw [if_neg (Nat.ne_of_lt hk')]
        · have hne : k ≠ st3.nn := Nat.ne_of_lt (Nat.lt_of_lt_of_le hk' le23)
          simp only [Ext.setDevs]
          rw [if_neg hne, fr3 k (by rw [nn2]; exact hk'), dR]
        · intro e he
          have hlt := ok1.lt e he
          rw [(hk e.2).1, m3.names e.2 (Nat.lt_of_lt_of_le hlt q2.nv_le), q2.names e.2 hlt]
          exact n1 e he
theorem deserSubsE_devX :
    ∀ (gs : List GraphE) (st : Store) (x : Ext) (scopes : List Table) (st' : Store) (x' : Ext) (gts : List GraphT),
      Fresh st → TablesLt st scopes → (∀ t ∈ scopes, Named st t) →
      deserSubsE st x scopes gs = .ok (st', x', gts) →
      DevXGs st.nn st'.nn st' x' gs gts ∧ ∀ k, k < st.nn → x'.devs k = x.devs k
  | [], st, x, scopes, st', x', gts, _, _, _, h => by
    simp only [deserSubsE, Except.ok.injEq, Prod.mk.injEq] at h
    obtain ⟨rfl, rfl, rfl⟩ := h
    exact ⟨by simp only [DevXGs], fun _ _ => rfl⟩
  | g :: gs, st, x, scopes, st', x', gts, hf, hs, hns, h => by
    simp only [deserSubsE] at h
    split at h
    · simp at h
    · rename_i st1 x1 gt h1
      split at h
      · simp at h
      · rename_i st2 x2 gts' h2
        simp only [Except.ok.injEq, Prod.mk.injEq] at h
        obtain ⟨rfl, rfl, rfl⟩ := h
        have e1 := deserGraphE_erase g st x scopes
        rw [h1] at e1
        simp only [dropX] at e1
        obtain ⟨f1, m1⟩ := deserGraph_struct _ st scopes st1 gt hf hs e1.symm
        obtain ⟨hx1, fr1⟩ := deserGraphE_devX g st x scopes st1 x1 gt hf hs hns h1
        have e2 := deserSubsE_erase gs st1 x1 scopes
        rw [h2] at e2
        simp only [dropX] at e2
        obtain ⟨_, m2⟩ := deserSubs_struct _ st1 scopes st2 gts' f1 (hs.mono m1.nv_le) e2.symm
        obtain ⟨hx2, fr2⟩ := deserSubsE_devX gs st1 x1 scopes st2 x2 gts' f1 (hs.mono m1.nv_le)
          (TreeNamedKeep hns hs m1.names) h2
        refine ⟨?_, fun k hk => ?_⟩
        · simp only [DevXGs]
          exact ⟨DevXG.mono (Nat.le_refl _) m2.nn_le m2.nv_le m2.names (fun k _ hk => fr2 k hk) g gt hx1,
            DevXGs.mono m1.nn_le (Nat.le_refl _) (Nat.le_refl _) (fun _ _ => rfl) (fun _ _ _ => rfl) gs gts' hx2⟩
        · rw [fr2 k (Nat.lt_of_lt_of_le hk m1.nn_le), fr1 k hk]
end

/-- **the device configurations stored by `deserialize_graph`**: node by node (nested graphs included), the
    configurations of the proto node resolved in a scope stack whose tables are `Named` in the final store -/
theorem deserializeE_devSpec (p : GraphE) (w : WorldE) (h : deserializeE p = .ok w) : DevSpecG w.st w.ext p w.root := by
  simp only [deserializeE] at h
  split at h
  · simp at h
  · rename_i st x g hg
    simp only [Except.ok.injEq] at h
    subst h
    exact (deserGraphE_devX p {} {} [] st x g (fun _ _ => rfl) (fun _ ht => by simp at ht) (fun _ ht => by simp at ht)
      hg).1.spec p g

/-! ### functions and models -/

theorem deserFInputs_nn (vi : List (Name × Info)) : ∀ (xs : List Name) (st : Store),
    (deserFInputs st vi xs).1.nn = st.nn
  | [], _ => rfl
  | x :: xs, st => by
    simp only [deserFInputs]
    rw [deserFInputs_nn vi xs, (newNamed_quiet st vi x).1.nn_eq]

/-- one function body: the nodes of the function graph, and the frame below the node counter -/
theorem deserFunctionE_devX (f : FuncE) (st : Store) (x : Ext) (st' : Store) (x' : Ext) (g : GraphT)
    (hf : Fresh st) (h : deserFunctionE st x f = .ok (st', x', g)) :
    DevXNs st.nn st'.nn st' x' f.nodes g.nodes ∧ (∀ k, k < st.nn → x'.devs k = x.devs k) ∧ st.nn ≤ st'.nn := by
  simp only [deserFunctionE] at h
  obtain ⟨a, b⟩ := deserFInputsE_erase (vinfoTableE f.vinfo) f.inputs st x
  have dI := deserFInputsE_devs (vinfoTableE f.vinfo) f.inputs st x
  obtain ⟨hids, hnv1, hf1, _, keep1⟩ := deserFInputs_spec (eraseVT (vinfoTableE f.vinfo)) f.inputs st
  obtain ⟨hnl, _⟩ := deserFInputs_named (eraseVT (vinfoTableE f.vinfo)) f.inputs st
  have ok1 := finputTable_ok (eraseVT (vinfoTableE f.vinfo)) f.inputs st
  have nn1 := deserFInputs_nn (eraseVT (vinfoTableE f.vinfo)) f.inputs st
  have f1 := hf1 hf
  rw [← a] at hnv1 f1 keep1 hnl ok1 nn1
  rw [← b] at hnl ok1
  generalize deserFInputsE st x (vinfoTableE f.vinfo) f.inputs = r1 at h dI hnv1 f1 keep1 hnl ok1 nn1
  obtain ⟨st1, x1, ins⟩ := r1
  simp only at h dI hnv1 f1 keep1 hnl ok1 nn1
  have n1 : Named st1 (finputTable f.inputs ins) := by
    intro e he
    simp only [finputTable, List.mem_reverse] at he
    exact zip_map_eq (fun v => (st1.vals v).name) some f.inputs ins hnl e he
  have le1 : st.nv ≤ st1.nv := by rw [hnv1]; omega
  split at h
  · simp at h
  · rename_i st2 x2 tbl2 h2
    have d2 := declareNodesE_devs _ _ _ _ _ _ _ _ _ h2
    have e2 := declareNodesE_erase (vinfoTableE f.vinfo) [] f.nodes st1 x1 (finputTable f.inputs ins)
    rw [h2] at e2
    simp only [dropX] at e2
    obtain ⟨q3, ok3, _, _, _⟩ := declareNodes_spec _ _ st1 _ st.nv st2 tbl2 ok1 le1 e2.symm
    have f2 := q3.fresh f1
    have n2 := declareNodes_named _ _ st1 _ st2 tbl2 n1 ok1.lt e2.symm
    have le2 : st.nv ≤ st2.nv := Nat.le_trans le1 q3.nv_le
    have nn2 : st2.nn = st.nn := by rw [q3.nn_eq, nn1]
    have hol : TablesLt st2 [] := fun _ ht => by simp at ht
    split at h
    · simp at h
    · rename_i st3 x3 tbl3 ns h3
      have e3 := deserNodesE_erase f.nodes st2 x2 tbl2 [] (vinfoTableE f.vinfo) []
      rw [h3] at e3
      simp only [dropX] at e3
      obtain ⟨_, m3, _, _⟩ := deserNodes_struct _ st2 tbl2 [] _ st.nv st3 tbl3 ns f2 ok3 hol le2 e3.symm
      obtain ⟨hx3, fr3, _⟩ := deserNodesE_devX f.nodes st2 x2 tbl2 [] (vinfoTableE f.vinfo) [] st.nv st3 x3 tbl3 ns f2 ok3
        hol le2 n2 (fun _ ht => by simp at ht) h3
      split at h
      · simp at h
      · rename_i outs _
        simp only [Except.ok.injEq, Prod.mk.injEq] at h
        obtain ⟨rfl, rfl, rfl⟩ := h
        obtain ⟨c1, c2, _⟩ := mkGraph_fst_counters st3 ins outs ns []
        refine ⟨?_, fun k hk => ?_, by rw [c2, ← nn2]; exact m3.nn_le⟩
        · rw [mkGraph_snd]
          simp only [GraphT.nodes]
          apply DevXNs_setGraph
          refine DevXNs.mono (by rw [nn2]; exact Nat.le_refl _) (by rw [c2]; exact Nat.le_refl _)
            (by rw [c1]; exact Nat.le_refl _) (fun v _ => ?_) (fun _ _ _ => rfl) f.nodes ns hx3
          rw [mkGraph_cell]
        · rw [fr3 k (by rw [nn2]; exact hk), d2, dI]

theorem fdictInsert_mem_or (d : List (FId × GraphT)) (k : FId) (g : GraphT) :
    ∀ e ∈ fdictInsert d k g, e ∈ d ∨ e = (k, g) := by
  induction d with
  | nil =>
    intro e he
    simp only [fdictInsert, List.mem_singleton] at he
    exact .inr he
  | cons a r ih =>
    obtain ⟨k', g'⟩ := a
    intro e he
    simp only [fdictInsert] at he
    split at he
    · rename_i hk
      simp only [List.mem_cons] at he
      rcases he with rfl | he
      · exact .inr (by rw [hk])
      · exact .inl (List.mem_cons_of_mem _ he)
    · simp only [List.mem_cons] at he
      rcases he with rfl | he
      · exact .inl (List.mem_cons_self ..)
      · rcases ih e he with h | h
        · exact .inl (List.mem_cons_of_mem _ h)
        · exact .inr h

/-- the function dict: every entry is the body of a function of `F` read by this run -/
def FuncsDevX (F : List FuncE) (s : Store) (x : Ext) (d : List (FId × GraphT)) : Prop :=
  ∀ e ∈ d, ∃ f ∈ F, f.id = e.1 ∧ DevXNs 0 s.nn s x f.nodes e.2.nodes

theorem deserFuncsE_devX (F : List FuncE) :
    ∀ (fs : List FuncE) (st : Store) (x : Ext) (d : List (FId × GraphT)) (st' : Store) (x' : Ext)
      (d' : List (FId × GraphT)), Fresh st → (∀ f ∈ fs, f ∈ F) → FuncsDevX F st x d →
      deserFuncsE st x d fs = .ok (st', x', d') →
      st.nv ≤ st'.nv ∧ (∀ v, v < st.nv → (st'.vals v).name = (st.vals v).name) ∧ st.nn ≤ st'.nn ∧
      (∀ k, k < st.nn → x'.devs k = x.devs k) ∧ FuncsDevX F st' x' d'
  | [], st, x, d, st', x', d', _, _, hd, h => by
    simp only [deserFuncsE, Except.ok.injEq, Prod.mk.injEq] at h
    obtain ⟨rfl, rfl, rfl⟩ := h
    exact ⟨Nat.le_refl _, fun _ _ => rfl, Nat.le_refl _, fun _ _ => rfl, hd⟩
  | f :: fs, st, x, d, st', x', d', hf, hF, hd, h => by
    simp only [deserFuncsE] at h
    split at h
    · simp at h
    · rename_i st1 x1 g h1
      have e1 := deserFunctionE_erase f st x
      rw [h1] at e1
      simp only [dropX] at e1
      obtain ⟨f1, le1, nm1, _⟩ := deserFunction_frame f.erase st st1 g hf e1.symm
      obtain ⟨hx1, fr1, nn1⟩ := deserFunctionE_devX f st x st1 x1 g hf h1
      have hd1 : FuncsDevX F st1 x1 (fdictInsert d f.id g) := by
        intro e he
        rcases fdictInsert_mem_or d f.id g e he with he | rfl
        · obtain ⟨f', hf', hid, hx⟩ := hd e he
          exact ⟨f', hf', hid, DevXNs.mono (Nat.le_refl _) nn1 le1 nm1 (fun k _ hk => fr1 k hk) _ _ hx⟩
        · exact ⟨f, hF f (List.mem_cons_self ..), rfl,
            DevXNs.mono (Nat.zero_le _) (Nat.le_refl _) (Nat.le_refl _) (fun _ _ => rfl) (fun _ _ _ => rfl) _ _ hx1⟩
      obtain ⟨le2, nm2, nn2, fr2, hd2⟩ := deserFuncsE_devX F fs st1 x1 _ st' x' d' f1
        (fun f' hf' => hF f' (List.mem_cons_of_mem _ hf')) hd1 h
      exact ⟨Nat.le_trans le1 le2, fun v hv => by rw [nm2 v (Nat.lt_of_lt_of_le hv le1), nm1 v hv],
        Nat.le_trans nn1 nn2, fun k hk => by rw [fr2 k (Nat.lt_of_lt_of_le hk nn1), fr1 k hk], hd2⟩

/-- **models with functions**: the device configurations of the main graph (node by node, nested graphs
    included) and of every function body kept in the function dict -/
theorem deserializeME_devSpec (p : ModelE) (w : MWorldE) (h : deserializeME p = .ok w) :
    DevSpecG w.st w.ext p.graph w.root ∧
    ∀ e ∈ w.funcs, ∃ f ∈ p.funcs, f.id = e.1 ∧ DevSpecNs w.st w.ext f.nodes e.2.nodes := by
  simp only [deserializeME] at h
  split at h
  · simp at h
  · rename_i st x g hg
    split at h
    · simp at h
    · rename_i st1 x1 fs hfs
      simp only [Except.ok.injEq] at h
      subst h
      have e1 := deserGraphE_erase p.graph {} {} []
      rw [hg] at e1
      simp only [dropX] at e1
      obtain ⟨f0, _⟩ := deserGraph_struct _ {} [] st g (fun _ _ => rfl) (fun _ ht => by simp at ht) e1.symm
      obtain ⟨hx0, _⟩ := deserGraphE_devX p.graph {} {} [] st x g (fun _ _ => rfl) (fun _ ht => by simp at ht)
        (fun _ ht => by simp at ht) hg
      obtain ⟨le1, nm1, nn1, fr1, hd1⟩ := deserFuncsE_devX p.funcs p.funcs st x [] st1 x1 fs f0 (fun _ hf => hf)
        (fun _ he => by simp at he) hfs
      refine ⟨(DevXG.mono (Nat.le_refl _) nn1 le1 nm1 (fun k _ hk => fr1 k hk) p.graph g hx0).spec p.graph g, ?_⟩
      intro e he
      obtain ⟨f, hf, hid, hx⟩ := hd1 e he
      exact ⟨f, hf, hid, hx.spec _ _⟩

end IrVerif.Scope


/-
C16: the model of SymPy's string printer (`ppSympy`, Model/SymExprSympy.lean) produces a sentence
of the parser's grammar whose derivation denotes `surf s`; hence
`parseTokens (ppSympy s) = some (surf s)` for well-formed `s` (`parse_ppSympy_surf`).
-/
import IrVerif.Lemmas.SymExprPrint
import IrVerif.Lemmas.SymExprArith
import IrVerif.Model.SymExprSympy
import Mathlib.Tactic.Ring
import Mathlib.Tactic.FieldSimp
namespace IrVerif.SymExpr

/-! ### the recursion scheme -/

theorem paraL_eq {α} (A : Alg α) (l : List SExpr) : paraL A l = l.map (fun s => (s, para A s)) := by
  induction l with
  | nil => simp [paraL]
  | cons s l ih => simp [paraL, ih]

/-- induction over `SExpr` with the list children handled by membership -/
theorem SExpr.ind {motive : SExpr → Prop}
    (int : ∀ z, motive (.int z)) (rat : ∀ p q, motive (.rat p q)) (sym : ∀ s, motive (.sym s))
    (add : ∀ ts, (∀ t ∈ ts, motive t) → motive (.add ts))
    (mul : ∀ fs, (∀ t ∈ fs, motive t) → motive (.mul fs))
    (pow : ∀ b e, motive b → motive e → motive (.pow b e))
    (fn : ∀ f args, (∀ t ∈ args, motive t) → motive (.fn f args)) : ∀ s, motive s := by
  intro s
  exact SExpr.rec (motive_1 := motive) (motive_2 := fun l => ∀ t ∈ l, motive t)
    int rat sym add mul pow fn (by simp) (by
      intro h t ih1 ih2 x hx
      rcases List.mem_cons.mp hx with rfl | hx
      · exact ih1
      · exact ih2 x hx) s

abbrev tkOf (s : SExpr) : TK := para tokAlg s
abbrev sfOf (s : SExpr) : SF := para surfAlg s
def tkL (l : List SExpr) : List (SExpr × TK) := l.map (fun s => (s, tkOf s))
def sfL (l : List SExpr) : List (SExpr × SF) := l.map (fun s => (s, sfOf s))

theorem swf_add (ts : List SExpr) : swf (.add ts) = (!ts.isEmpty && ts.all swf) := by
  simp only [swf, para, paraL_eq, swfAlg, List.all_map, List.isEmpty_map, List.length_map,
    Function.comp_def]
  rfl

theorem swf_mul (fs : List SExpr) : swf (.mul fs) =
    (fs.all (fun g => swf g && denOk g && !isMulS g) &&
      (match fs with | [] => false | _ :: rest => rest.all (fun g => !isNum g))) := by
  cases fs <;> simp [swf, para, paraL_eq, swfAlg, List.all_map, Function.comp_def, paraL]

theorem swf_pow (b e : SExpr) : swf (.pow b e) =
    (swf b && swf e && !(isNegOne e && isRat b)) := by
  simp [swf, para, swfAlg]

theorem swf_fn (f : SFn) (args : List SExpr) : swf (.fn f args) =
    (args.all swf && arityOk f args.length) := by
  simp only [swf, para, paraL_eq, swfAlg, List.all_map, List.isEmpty_map, List.length_map,
    Function.comp_def]
  rfl

theorem swfX_add (ts : List SExpr) : swfX (.add ts) = (!ts.isEmpty && ts.all swfX) := by
  simp only [swfX, para, paraL_eq, swfXAlg, List.all_map, List.isEmpty_map, List.length_map,
    Function.comp_def]
  rfl

theorem swfX_mul (fs : List SExpr) : swfX (.mul fs) =
    (fs.all (fun g => swfX g && !isMulS g) &&
      (match fs with | [] => false | _ :: rest => rest.all (fun g => !isNum g))) := by
  cases fs <;> simp [swfX, para, paraL_eq, swfXAlg, List.all_map, Function.comp_def, paraL]

theorem swfX_pow (b e : SExpr) : swfX (.pow b e) =
    (swfX b && swfX e && !(isNegOne e && isRat b)) := by
  simp [swfX, para, swfXAlg]

theorem swfX_fn (f : SFn) (args : List SExpr) : swfX (.fn f args) =
    (args.all swfX && arityOk f args.length) := by
  simp only [swfX, para, paraL_eq, swfXAlg, List.all_map, List.isEmpty_map, List.length_map,
    Function.comp_def]
  rfl

/-! ### unfolding the printer and the surface tree, one node at a time -/

/-- the text of the negated product (`apow`: the exponent of a denominator entry) -/
theorem tk_neg_mul (fs : List SExpr) : (tkOf (.mul fs)).neg =
    match fs with
    | [c, y] => if isNegOne c then (tkOf y).toks else mulBody 50 (tkL fs)
    | _ => mulBody 50 (tkL fs) := by
  match fs with
  | [] => rfl
  | [_] => rfl
  | [_, _] => rfl
  | _ :: _ :: _ :: rest =>
    simp only [tkOf, para, paraL, paraL_eq, tkL, List.map_cons]
    rfl

theorem sf_neg_mul (fs : List SExpr) : (sfOf (.mul fs)).neg =
    match fs with
    | [c, y] => if isNegOne c then (sfOf y).e else mulBodyE false (sfL fs)
    | _ => mulBodyE false (sfL fs) := by
  match fs with
  | [] => rfl
  | [_] => rfl
  | [_, _] => rfl
  | _ :: _ :: _ :: rest =>
    simp only [sfOf, para, paraL, paraL_eq, sfL, List.map_cons]
    rfl


theorem tk_add (ts : List SExpr) :
    (tkOf (.add ts)).toks = addJoin ((tkL ts).map (addStep 40)) := by
  simp only [tkOf, para, paraL_eq]; rfl

theorem tk_mul (fs : List SExpr) :
    (tkOf (.mul fs)).toks =
      if negCoeff (.mul fs) then .op .minus :: mulBody 40 (tkL fs) else mulBody 50 (tkL fs) := by
  simp only [tkOf, para, paraL_eq, tokAlg, List.map_map, Function.comp_def, List.map_id']; rfl

theorem tk_pow (b e : SExpr) :
    (tkOf (.pow b e)).toks =
      if isHalf e then call "sqrt" (tkOf b).toks
      else if isNegHalf e then .num 1 :: .op .slash :: call "sqrt" (tkOf b).toks
      else if isNegOne e then .num 1 :: .op .slash :: par 60 (precS b) (tkOf b).toks
      else par 60 (precS b) (tkOf b).toks ++ .op .dstar :: par 60 (precS e) (tkOf e).toks := by
  simp only [tkOf, para]; rfl

theorem tk_den (b e : SExpr) (lv : Nat) :
    (tkOf (.pow b e)).den lv =
      if isNegOne e then
        (if isMulOrPow b then paren (par lv (precS b) (tkOf b).toks)
         else par lv (precS b) (tkOf b).toks)
      else if isNegHalf e then call "sqrt" (tkOf b).toks
      else par 60 (precS b) (tkOf b).toks ++ .op .dstar :: par 60 (precNeg e) (tkOf e).neg := by
  simp only [tkOf, para]; rfl

theorem tk_fn (f : SFn) (args : List SExpr) :
    (tkOf (.fn f args)).toks = call f.name (intercal .comma (args.map (fun a => (tkOf a).toks))) := by
  simp only [tkOf, para, paraL_eq, tokAlg, List.map_map, Function.comp_def]

theorem sf_add (t : SExpr) (ts : List SExpr) :
    (sfOf (.add (t :: ts))).e =
      addJoinE (sfOf t).e (ts.map (fun s => addStepE (s, tkOf s) (s, sfOf s))) := by
  simp only [sfOf, para, paraL, paraL_eq, surfAlg, List.map_map, Function.comp_def]

theorem sf_mul (fs : List SExpr) :
    (sfOf (.mul fs)).e = mulBodyE (negCoeff (.mul fs)) (sfL fs) := by
  simp only [sfOf, para, paraL_eq, surfAlg, List.map_map, Function.comp_def, List.map_id']; rfl

theorem sf_pow (b e : SExpr) :
    (sfOf (.pow b e)).e =
      if isHalf e then .un .sqrt (sfOf b).e
      else if isNegHalf e then .bin .div (.num 1) (.un .sqrt (sfOf b).e)
      else if isNegOne e then .bin .div (.num 1) (sfOf b).e else .bin .pow (sfOf b).e (sfOf e).e := by
  simp only [sfOf, para]; rfl

theorem sf_den (b e : SExpr) :
    (sfOf (.pow b e)).den =
      if isNegOne e then (sfOf b).e
      else if isNegHalf e then .un .sqrt (sfOf b).e
      else .bin .pow (sfOf b).e (sfOf e).neg := by
  simp only [sfOf, para]; rfl

theorem sf_fn (f : SFn) (args : List SExpr) :
    (sfOf (.fn f args)).e = fnExpr f (args.map (fun a => (sfOf a).e)) := by
  simp only [sfOf, para, paraL_eq, surfAlg, List.map_map, Function.comp_def]

/-! ### joining derivations -/

theorem intercal_cons (sep : Tok) (x : List Tok) (rest : List (List Tok)) :
    intercal sep (x :: rest) = x ++ (rest.map (sep :: ·)).flatten := by
  induction rest generalizing x with
  | nil => simp [intercal]
  | cons y rest ih => simp [intercal, ih y]

theorem PTerm.mulList {items : List (List Tok)} {es : List Expr}
    (h : List.Forall₂ PUnary items es) : ∀ {acc ea}, PTerm acc ea →
    PTerm (acc ++ (items.map (Tok.op .star :: ·)).flatten)
      (es.foldl (fun a y => .bin .mul a y) ea) := by
  induction h with
  | nil => intro acc ea h; simpa using h
  | cons hu _ ih =>
    intro acc ea h
    have := ih (PTerm.mulOp .star h hu)
    simpa [MulOp.tok, MulOp.bin, List.append_assoc] using this

theorem PExpr.addList {items : List (Bool × List Tok)} {es : List (Bool × Expr)}
    (h : List.Forall₂ (fun a b => a.1 = b.1 ∧ PTerm a.2 b.2) items es) : ∀ {acc ea}, PExpr acc ea →
    PExpr (acc ++ (items.map (fun mt =>
        (if mt.1 then Tok.op .minus else Tok.op .plus) :: mt.2)).flatten)
      (es.foldl (fun a mt => .bin (if mt.1 then .sub else .add) a mt.2) ea) := by
  induction h with
  | nil => intro acc ea h; simpa using h
  | @cons a b _ _ hu _ ih =>
    intro acc ea h
    obtain ⟨h1, h2⟩ := hu
    cases hb : b.1
    · have := ih (PExpr.addOp .plus h h2)
      simpa [AddOp.tok, AddOp.bin, List.append_assoc, h1, hb] using this
    · have := ih (PExpr.addOp .minus h h2)
      simpa [AddOp.tok, AddOp.bin, List.append_assoc, h1, hb] using this

theorem argsTail_of {items : List (List Tok)} {es : List Expr}
    (h : List.Forall₂ PExpr items es) :
    ∃ d : D .argsTail, d.flatten = (items.map (Tok.comma :: ·)).flatten ∧ (d.sem : List Expr) = es := by
  induction h with
  | nil => exact ⟨.atNil, by simp [D.flatten], by simp [D.sem]⟩
  | cons hu _ ih =>
    obtain ⟨d, h1, h2⟩ := ih
    obtain ⟨de, h3, h4⟩ := hu
    exact ⟨.atCons de d, by simp [D.flatten, h1, h3], by simp [D.sem, h2, h4]⟩

theorem args_of {x : List Tok} {e : Expr} {items : List (List Tok)} {es : List Expr}
    (hx : PExpr x e) (h : List.Forall₂ PExpr items es) :
    ∃ d : D .args, d.flatten = intercal .comma (x :: items) ∧ (d.sem : List Expr) = e :: es := by
  obtain ⟨d, h1, h2⟩ := argsTail_of h
  obtain ⟨de, h3, h4⟩ := hx
  exact ⟨.argsCons de d, by simp [D.flatten, h1, h3, intercal_cons], by simp [D.sem, h2, h4]⟩

/-! ### a leading minus sign can be split off a term -/

theorem primary_head (p : D .primary) : ∃ t rest, p.flatten = t :: rest ∧ t ≠ Tok.op .minus := by
  cases p <;> simp [D.flatten]

theorem power_head (p : D .power) : ∃ t rest, p.flatten = t :: rest ∧ t ≠ Tok.op .minus := by
  cases p with
  | prim p => simpa [D.flatten] using primary_head p
  | pow b e =>
    obtain ⟨t, rest, h1, h2⟩ := primary_head b
    exact ⟨t, rest ++ Tok.op .dstar :: e.flatten, by simp [D.flatten, h1], h2⟩

theorem stripNeg_tail : (tl : D .termTail) → (acc : Expr) →
    stripNeg ((tl.sem : Expr → Expr) acc) = (tl.sem : Expr → Expr) (stripNeg acc)
  | .ttNil, acc => by simp [D.sem]
  | .ttCons o u tl, acc => by simp [D.sem, stripNeg_tail tl, stripNeg]

theorem PTerm.strip {r : List Tok} {e : Expr} : PTerm (Tok.op .minus :: r) e → PTerm r (stripNeg e)
  | ⟨.term (.neg u) tl, h1, h2⟩ =>
    ⟨.term u tl, by simpa [D.flatten] using h1, by
      simp only [D.sem] at h2
      simp only [D.sem, ← h2, stripNeg_tail, stripNeg]⟩
  | ⟨.term (.upow p) tl, h1, _⟩ => by
    obtain ⟨t, rest, h3, h4⟩ := power_head p
    simp [D.flatten, h3] at h1
    exact absurd h1.1 h4

/-! ### grammar level of the printed text, and `parenthesize` -/

/-- the nonterminal the text of `s` derives from (compare `precS`) -/
def lvl : SExpr → Nat
  | .int z => if z < 0 then 2 else 4
  | .rat _ _ => 1
  | .sym _ => 4
  | .add _ => 0
  | .mul _ => 1
  | .pow _ e => if isHalf e then 4 else if isNegOne e || isNegHalf e then 1 else 3
  | .fn _ _ => 4

theorem P4 {ts e} (h : P 4 ts e) : PPrim ts e := h

theorem PPrim.num (n : Nat) : PPrim [.num n] (.num n) := ⟨.num n, rfl, rfl⟩

theorem par_expr {k lv prec ts e} (h : P k ts e) : PExpr (par lv prec ts) e := by
  unfold par
  have h0 : PExpr ts e := P.down (j := 0) h (Nat.zero_le _)
  split
  · exact (((h0.paren.toPower).toUnary).toTerm).toExpr
  · exact h0

/-- `parenthesize(item, 60)`: base and exponent of a power -/
theorem par60 {s : SExpr} {ts e} (h : P (lvl s) ts e) : PPrim (par 60 (precS s) ts) e := by
  unfold par
  split
  · exact (P.down (j := 0) h (Nat.zero_le _)).paren
  · rename_i hp
    cases s with
    | int z => by_cases hz : z < 0 <;> simp [precS, lvl, hz] at hp h ⊢ <;> exact h
    | rat p q => by_cases hz : p < 0 <;> simp [precS, hz] at hp
    | sym s => exact h
    | add ts => simp [precS] at hp
    | mul fs => by_cases hz : negCoeff (.mul fs) <;> simp [precS, hz] at hp
    | pow b e => simp [precS] at hp
    | fn f args => exact h

/-- `parenthesize(item, 40 | 50)` for a factor that is not a number, a product or `1/x` -/
theorem negCoeff_flags {x : SExpr} (h : negCoeff x = false) :
    isNegOne x = false ∧ isNegHalf x = false := by
  cases x with
  | int z =>
    have hz : ¬ z < 0 := by simpa [negCoeff] using h
    refine ⟨?_, rfl⟩
    simp only [isNegOne, beq_eq_false_iff_ne]; omega
  | rat p q =>
    have hz : ¬ p < 0 := by simpa [negCoeff] using h
    refine ⟨rfl, ?_⟩
    have : (p == -1) = false := by simp only [beq_eq_false_iff_ne]; omega
    simp [isNegHalf, this]
  | _ => exact ⟨rfl, rfl⟩

theorem parMul {s : SExpr} {ts e} {lv : Nat} (hlv : lv = 40 ∨ lv = 50) (h : P (lvl s) ts e)
    (h1 : isNum s = false) (h2 : isMulS s = false)
    (h3 : ∀ b x, s = .pow b x → negCoeff x = false) : PPower (par lv (precS s) ts) e := by
  unfold par
  split
  · exact (P.down (j := 0) h (Nat.zero_le _)).paren.toPower
  · rename_i hp
    cases s with
    | int z => simp [isNum] at h1
    | rat p q => simp [isNum] at h1
    | sym s => exact PPrim.toPower h
    | add ts => rcases hlv with rfl | rfl <;> simp [precS] at hp
    | mul fs => simp [isMulS] at h2
    | pow b x =>
      obtain ⟨h4, h5⟩ := negCoeff_flags (h3 b x rfl)
      by_cases hh : isHalf x = true
      · have h' : P 4 ts e := by simpa [lvl, hh] using h
        exact PPrim.toPower h'
      · have h' : P 3 ts e := by simpa [lvl, hh, h4, h5] using h
        exact h'
    | fn f args => exact PPrim.toPower h

theorem ppNat_P (m : Bool) (n : Nat) : PUnary (ppNat m n) (numE m n) := by
  cases m
  · exact (PPrim.num n).toPower.toUnary
  · exact PUnary.neg (PPrim.num n).toPower.toUnary

/-- what the induction carries: the text derives at its level and denotes the surface tree;
    a power with a negative literal exponent also has its denominator entry -/
def Inv (s : SExpr) : Prop :=
  P (lvl s) (tkOf s).toks (sfOf s).e ∧
  (∀ b x, s = .pow b x → negCoeff x = true → ∀ lv, (lv = 40 ∨ lv = 50) →
    PUnary ((tkOf s).den lv) (sfOf s).den) ∧
  -- the negated exponent `apow` prints for a denominator entry
  (negCoeff s = true → PUnary (par 60 (precNeg s) (tkOf s).neg) (sfOf s).neg)

theorem inv_int (z : Int) : Inv (.int z) := by
  refine ⟨?_, (by intro b z' h; cases h), ?_⟩
  rotate_left
  · intro hn
    have hz' : ¬ (0 < z) := by
      have : z < 0 := by simpa [negCoeff] using hn
      omega
    simp only [par, precNeg, tkOf, sfOf, para, tokAlg, surfAlg, hz', decide_false, ppNat, numE]
    exact (PPrim.num _).toPower.toUnary
  have h := ppNat_P (z < 0) z.natAbs
  by_cases hz : z < 0
  · simpa [lvl, hz, tkOf, sfOf, para, tokAlg, surfAlg, P] using h
  · simp only [lvl, hz, if_false, tkOf, sfOf, para, tokAlg, surfAlg, decide_false, ppNat, numE]
    exact PPrim.num _

theorem inv_rat (p : Int) (q : Nat) : Inv (.rat p q) := by
  refine ⟨?_, (by intro b z' h; cases h), ?_⟩
  rotate_left
  · intro hn
    have hp : ¬ (0 < p) := by
      have : p < 0 := by simpa [negCoeff] using hn
      omega
    have := PTerm.mulOp .slash (PPrim.num p.natAbs).toPower.toUnary.toTerm
      (PPrim.num q).toPower.toUnary
    have h' : PTerm ([Tok.num p.natAbs] ++ [Tok.op .slash, Tok.num q])
        (.bin .div (.num p.natAbs) (.num q)) := by
      simpa [MulOp.tok, MulOp.bin] using this
    simp only [par, precNeg, tkOf, sfOf, para, tokAlg, surfAlg, hp, decide_false, ppNat, numE]
    exact h'.toExpr.paren.toPower.toUnary
  have h := PTerm.mulOp .slash (ppNat_P (p < 0) p.natAbs).toTerm (PPrim.num q).toPower.toUnary
  simpa [lvl, tkOf, sfOf, para, tokAlg, surfAlg, P, MulOp.tok, MulOp.bin] using h

theorem inv_sym (x : String) : Inv (.sym x) :=
  ⟨⟨.ident x, rfl, rfl⟩, (by intro b z' h; cases h), by intro h; simp [negCoeff] at h⟩

theorem negCoeff_of_isNegOne {e : SExpr} (h : isNegOne e = true) : negCoeff e = true := by
  cases e <;> simp [isNegOne] at h
  subst h; simp [negCoeff]

theorem inv_pow (b e : SExpr) (hb : Inv b) (he : Inv e) (hw : SWfX (.pow b e)) : Inv (.pow b e) := by
  have hw' := hw
  simp only [SWfX, swfX_pow, Bool.and_eq_true, Bool.not_eq_true'] at hw'
  obtain ⟨⟨_, _⟩, hnr⟩ := hw'
  have hB : PPrim (par 60 (precS b) (tkOf b).toks) (sfOf b).e := par60 hb.1
  have hS : PPrim (call "sqrt" (tkOf b).toks) (.un .sqrt (sfOf b).e) := by
    simpa [Fn1.name, Fn1.un] using PExpr.call1 .sqrt (P.down (j := 0) hb.1 (Nat.zero_le _))
  refine ⟨?_, ?_, by intro h; simp [negCoeff] at h⟩
  · rw [tk_pow, sf_pow]
    by_cases h0 : isHalf e = true
    · have hl : lvl (.pow b e) = 4 := by simp [lvl, h0]
      rw [hl]; simp only [h0, if_true]
      exact hS
    · have h0' : isHalf e = false := by simpa using h0
      by_cases h2 : isNegHalf e = true
      · have hl : lvl (.pow b e) = 1 := by simp [lvl, h0', h2]
        rw [hl]; simp only [h0', h2, if_true, Bool.false_eq_true, if_false]
        have := PTerm.mulOp .slash (PPrim.num 1).toPower.toUnary.toTerm hS.toPower.toUnary
        have h' : PTerm (.num 1 :: .op .slash :: call "sqrt" (tkOf b).toks)
            (.bin .div (.num 1) (.un .sqrt (sfOf b).e)) := by simpa [MulOp.tok, MulOp.bin] using this
        exact h'
      · have h2' : isNegHalf e = false := by simpa using h2
        by_cases h1 : isNegOne e = true
        · have hl : lvl (.pow b e) = 1 := by simp [lvl, h0', h1]
          rw [hl]; simp only [h0', h2', h1, if_true, Bool.false_eq_true, if_false]
          have := PTerm.mulOp .slash (PPrim.num 1).toPower.toUnary.toTerm hB.toPower.toUnary
          have h' : PTerm (.num 1 :: .op .slash :: par 60 (precS b) (tkOf b).toks)
              (.bin .div (.num 1) (sfOf b).e) := by simpa [MulOp.tok, MulOp.bin] using this
          exact h'
        · have h1' : isNegOne e = false := by simpa using h1
          have hl : lvl (.pow b e) = 3 := by simp [lvl, h0', h1', h2']
          rw [hl]; simp only [h0', h2', h1', Bool.false_eq_true, if_false]
          exact PPrim.pow hB (par60 he.1).toPower.toUnary
  · intro b' x h hn lv hlv
    cases h
    rw [tk_den, sf_den]
    by_cases h1 : isNegOne e = true
    · simp only [h1, if_true]
      have hE : PExpr (par lv (precS b) (tkOf b).toks) (sfOf b).e := par_expr hb.1
      by_cases h2 : isMulOrPow b = true
      · simp only [h2, if_true]
        exact hE.paren.toPower.toUnary
      · simp only [h2]
        have hnum : isRat b = false := by simpa [h1] using hnr
        cases b with
        | int y =>
          unfold par
          by_cases hy : y < 0
          · have : precS (.int y) ≤ lv := by rcases hlv with rfl | rfl <;> simp [precS, hy]
            simp only [this, if_true]
            exact (P.down (j := 0) hb.1 (Nat.zero_le _)).paren.toPower.toUnary
          · have : ¬ precS (.int y) ≤ lv := by rcases hlv with rfl | rfl <;> simp [precS, hy]
            simp only [this, if_false]
            have h4 : P 4 (tkOf (.int y)).toks (sfOf (.int y)).e := by simpa [lvl, hy] using hb.1
            exact (P4 h4).toPower.toUnary
        | rat p q => simp [isRat] at hnum
        | mul fs => simp [isMulOrPow] at h2
        | pow x y => simp [isMulOrPow] at h2
        | sym x => exact (parMul hlv hb.1 rfl rfl (by intro _ _ h; cases h)).toUnary
        | add ts => exact (parMul hlv hb.1 rfl rfl (by intro _ _ h; cases h)).toUnary
        | fn f args => exact (parMul hlv hb.1 rfl rfl (by intro _ _ h; cases h)).toUnary
    · have h1' : isNegOne e = false := by simpa using h1
      by_cases h2 : isNegHalf e = true
      · simp only [h1', h2, if_true, Bool.false_eq_true, if_false]
        exact hS.toPower.toUnary
      · have h2' : isNegHalf e = false := by simpa using h2
        simp only [h1', h2', Bool.false_eq_true, if_false]
        have : PUnary (par 60 (precNeg e) (tkOf e).neg) (sfOf e).neg := he.2.2 hn
        exact (PPrim.pow hB this).toUnary

theorem forall2_map {α β γ} {R : β → γ → Prop} (f : α → β) (g : α → γ) (l : List α)
    (h : ∀ a ∈ l, R (f a) (g a)) : List.Forall₂ R (l.map f) (l.map g) := by
  induction l with
  | nil => exact .nil
  | cons a l ih =>
    exact .cons (h a (by simp)) (ih (fun b hb => h b (by simp [hb])))

theorem Inv.expr {s : SExpr} (h : Inv s) : PExpr (tkOf s).toks (sfOf s).e :=
  P.down (j := 0) h.1 (Nat.zero_le _)

theorem callN_of {x : List Tok} {e : Expr} {items : List (List Tok)} {es : List Expr} (f : FnN)
    (hx : PExpr x e) (h : List.Forall₂ PExpr items es) :
    PPrim (call f.name (intercal .comma (x :: items))) (es.foldl (fun a y => .bin f.bin a y) e) := by
  obtain ⟨d, h1, h2⟩ := args_of hx h
  exact ⟨.callN f d, by simp [D.flatten, h1, call], by simp [D.sem, h2, FnN.apply]⟩

theorem inv_fn (f : SFn) (args : List SExpr) (ih : ∀ a ∈ args, Inv a) (hw : SWfX (.fn f args)) :
    Inv (.fn f args) := by
  refine ⟨?_, (by intro b z' h; cases h), by intro h; simp [negCoeff] at h⟩
  simp only [SWfX, swfX_fn, Bool.and_eq_true] at hw
  obtain ⟨_, har⟩ := hw
  rw [tk_fn, sf_fn]
  show PPrim _ _
  have un1 : ∀ (g : Fn1) (a : SExpr), a ∈ args →
      PPrim (call g.name (intercal .comma ([a].map (fun a => (tkOf a).toks))))
        (.un g.un (sfOf a).e) := by
    intro g a ha
    simpa [intercal] using PExpr.call1 g (ih a ha).expr
  have many : ∀ (g : FnN) (a : SExpr) (rest : List SExpr), args = a :: rest →
      PPrim (call g.name (intercal .comma ((a :: rest).map (fun a => (tkOf a).toks))))
        ((rest.map (fun a => (sfOf a).e)).foldl (fun x y => .bin g.bin x y) (sfOf a).e) := by
    intro g a rest hargs
    subst hargs
    exact callN_of g (ih a (by simp)).expr
      (forall2_map _ _ rest (fun b hb => (ih b (by simp [hb])).expr))
  cases f with
  | floor =>
    match args, har with
    | [a], _ => simpa [fnExpr, SFn.name, Fn1.name, Fn1.un] using un1 .floor a (by simp)
  | ceiling =>
    match args, har with
    | [a], _ => simpa [fnExpr, SFn.name, Fn1.name, Fn1.un] using un1 .ceiling a (by simp)
  | abs =>
    match args, har with
    | [a], _ => simpa [fnExpr, SFn.name, Fn1.name, Fn1.un] using un1 .abs a (by simp)
  | sign =>
    match args, har with
    | [a], _ => simpa [fnExpr, SFn.name, Fn1.name, Fn1.un] using un1 .sign a (by simp)
  | mod =>
    match args, har with
    | [a, b], _ =>
      obtain ⟨da, h1, h2⟩ := (ih a (by simp)).expr
      obtain ⟨db, h3, h4⟩ := (ih b (by simp)).expr
      exact ⟨.call2 .Mod da db, by simp [D.flatten, h1, h3, call, intercal, SFn.name, Fn2.name],
        by simp [D.sem, h2, h4, fnExpr]⟩
  | max =>
    match args, har with
    | a :: rest, _ => simpa [fnExpr, foldBin, SFn.name, FnN.name, FnN.bin] using many .Max a rest rfl
  | min =>
    match args, har with
    | a :: rest, _ => simpa [fnExpr, foldBin, SFn.name, FnN.name, FnN.bin] using many .Min a rest rfl

theorem prec_ge (s : SExpr) : 40 ≤ precS s := by
  cases s with
  | int z => simp only [precS]; split <;> omega
  | rat p q => simp only [precS]; split <;> omega
  | mul fs => simp only [precS]; split <;> omega
  | fn f args => cases f <;> simp [precS]
  | _ => simp [precS]

theorem lvl_pos {s : SExpr} (h : isAddS s = false) : 1 ≤ lvl s := by
  cases s with
  | int z => simp only [lvl]; split <;> omega
  | pow b e => simp only [lvl]; split <;> [omega; (split <;> omega)]
  | add ts => simp [isAddS] at h
  | _ => simp [lvl]

theorem addStep_add {t : SExpr} {tk : TK} (h : isAddS t = true) :
    addStep 40 (t, tk) = (false, paren tk.toks) := by
  simp only [addStep, h]
  cases tk.toks <;> simp

theorem addStep_minus {t : SExpr} {tk : TK} {r} (h : isAddS t = false) (hp : ¬ precS t < 40)
    (ht : tk.toks = Tok.op .minus :: r) : addStep 40 (t, tk) = (true, r) := by
  simp [addStep, h, ht, hp]

theorem addStep_other {t : SExpr} {tk : TK} (h : isAddS t = false) (hp : ¬ precS t < 40)
    (ht : ∀ r, tk.toks ≠ Tok.op .minus :: r) : addStep 40 (t, tk) = (false, tk.toks) := by
  simp only [addStep, h, hp]
  generalize tk.toks = tt at ht
  match tt with
  | [] => simp
  | Tok.op .minus :: r => exact absurd rfl (ht r)
  | Tok.op .plus :: r | Tok.op .star :: r | Tok.op .slash :: r | Tok.op .dslash :: r
  | Tok.op .percent :: r | Tok.op .dstar :: r => simp
  | Tok.num _ :: r | Tok.ident _ :: r | Tok.lparen :: r | Tok.rparen :: r | Tok.comma :: r => simp

theorem addStepE_add {t : SExpr} {tk : TK} {sf : SExpr × SF} (h : isAddS t = true) :
    addStepE (t, tk) sf = (false, sf.2.e) := by
  simp only [addStepE, h]
  cases tk.toks <;> simp

theorem addStepE_minus {t : SExpr} {tk : TK} {sf : SExpr × SF} {r} (h : isAddS t = false)
    (ht : tk.toks = Tok.op .minus :: r) : addStepE (t, tk) sf = (true, stripNeg sf.2.e) := by
  simp [addStepE, h, ht]

theorem addStepE_other {t : SExpr} {tk : TK} {sf : SExpr × SF} (h : isAddS t = false)
    (ht : ∀ r, tk.toks ≠ Tok.op .minus :: r) : addStepE (t, tk) sf = (false, sf.2.e) := by
  simp only [addStepE, h]
  generalize tk.toks = tt at ht
  match tt with
  | [] => simp
  | Tok.op .minus :: r => exact absurd rfl (ht r)
  | Tok.op .plus :: r | Tok.op .star :: r | Tok.op .slash :: r | Tok.op .dslash :: r
  | Tok.op .percent :: r | Tok.op .dstar :: r => simp
  | Tok.num _ :: r | Tok.ident _ :: r | Tok.lparen :: r | Tok.rparen :: r | Tok.comma :: r => simp

/-- one term of a sum: the sign `_print_Add` extracts and the text after it -/
theorem addStep_ok {t : SExpr} (h : Inv t) :
    (addStep 40 (t, tkOf t)).1 = (addStepE (t, tkOf t) (t, sfOf t)).1 ∧
    PTerm (addStep 40 (t, tkOf t)).2 (addStepE (t, tkOf t) (t, sfOf t)).2 ∧
    PExpr ((if (addStep 40 (t, tkOf t)).1 then [Tok.op .minus] else []) ++ (addStep 40 (t, tkOf t)).2)
      (sfOf t).e := by
  have hp : ¬ precS t < 40 := by have := prec_ge t; omega
  by_cases hA : isAddS t = true
  · have hE := h.expr
    rw [addStep_add hA, addStepE_add hA]
    refine ⟨rfl, hE.paren.toPower.toUnary.toTerm, ?_⟩
    simpa using hE.paren.toPower.toUnary.toTerm.toExpr
  · have hA' : isAddS t = false := by simpa using hA
    have hT : PTerm (tkOf t).toks (sfOf t).e := P.down (j := 1) h.1 (lvl_pos hA')
    by_cases hm : ∃ r, (tkOf t).toks = Tok.op .minus :: r
    · obtain ⟨r, hr⟩ := hm
      rw [addStep_minus hA' hp hr, addStepE_minus hA' hr]
      rw [hr] at hT
      exact ⟨rfl, hT.strip, by simpa using hT.toExpr⟩
    · have hm' : ∀ r, (tkOf t).toks ≠ Tok.op .minus :: r := fun r hr => hm ⟨r, hr⟩
      rw [addStep_other hA' hp hm', addStepE_other hA' hm']
      exact ⟨rfl, hT, by simpa using hT.toExpr⟩

theorem inv_add (ts : List SExpr) (ih : ∀ a ∈ ts, Inv a) (hw : SWfX (.add ts)) : Inv (.add ts) := by
  refine ⟨?_, (by intro b z' h; cases h), by intro h; simp [negCoeff] at h⟩
  simp only [SWfX, swfX_add, Bool.and_eq_true] at hw
  match ts, hw with
  | t :: rest, _ =>
    rw [tk_add, sf_add]
    show PExpr _ _
    simp only [tkL, List.map_cons, List.map_map, Function.comp_def, addJoin, addJoinE]
    have hfirst := (addStep_ok (ih t (by simp))).2.2
    have hrest : List.Forall₂ (fun a b => a.1 = b.1 ∧ PTerm a.2 b.2)
        (rest.map (fun s => addStep 40 (s, tkOf s)))
        (rest.map (fun s => addStepE (s, tkOf s) (s, sfOf s))) :=
      forall2_map _ _ rest (fun b hb =>
        ⟨(addStep_ok (ih b (by simp [hb]))).1, (addStep_ok (ih b (by simp [hb]))).2.1⟩)
    have := PExpr.addList hrest hfirst
    simpa [List.map_map, Function.comp_def] using this

/-! ### products -/

def FacOk (f : SExpr) : Prop := Inv f ∧ isMulS f = false

theorem not_negOne_of {e : SExpr} (h : negCoeff e = false) : isNegOne e = false := by
  cases h' : isNegOne e
  · rfl
  · rw [negCoeff_of_isNegOne h'] at h; cases h

theorem mulNum_ok {lv : Nat} (hlv : lv = 40 ∨ lv = 50) : ∀ fs : List SExpr, (∀ f ∈ fs, FacOk f) →
    List.Forall₂ PUnary (mulNum lv (tkL fs)) (mulNumE (sfL fs))
  | [], _ => by simp [tkL, sfL, mulNum, mulNumE]
  | f :: rest, h => by
    have ih := mulNum_ok hlv rest (fun g hg => h g (by simp [hg]))
    obtain ⟨hi, hm⟩ := h f (by simp)
    have other : isNum f = false → (∀ b x, f = .pow b x → negCoeff x = false) →
        List.Forall₂ PUnary (par lv (precS f) (tkOf f).toks :: mulNum lv (tkL rest))
          ((sfOf f).e :: mulNumE (sfL rest)) :=
      fun h1 h3 => .cons (parMul hlv hi.1 h1 hm h3).toUnary ih
    simp only [tkL, sfL, List.map_cons, mulNum, mulNumE] at ih ⊢
    cases f with
    | int z =>
      by_cases hz : z.natAbs = 1
      · simpa [hz] using ih
      · simpa [hz] using List.Forall₂.cons (PPrim.num z.natAbs).toPower.toUnary ih
    | rat p q =>
      by_cases hz : p.natAbs = 1
      · simpa [hz] using ih
      · simpa [hz] using List.Forall₂.cons (PPrim.num p.natAbs).toPower.toUnary ih
    | pow b e =>
      by_cases hn : negCoeff e = true
      · simpa [hn] using ih
      · have hn' : negCoeff e = false := by simpa using hn
        simpa [hn', tkL, sfL] using
          other rfl (by intro b' x hx; cases hx; exact hn')
    | sym x => simpa [tkL, sfL] using other rfl (by intro _ _ hx; cases hx)
    | add ts => simpa [tkL, sfL] using other rfl (by intro _ _ hx; cases hx)
    | mul gs => simp [isMulS] at hm
    | fn g args => simpa [tkL, sfL] using other rfl (by intro _ _ hx; cases hx)

theorem mulDen_ok {lv : Nat} (hlv : lv = 40 ∨ lv = 50) : ∀ fs : List SExpr, (∀ f ∈ fs, FacOk f) →
    List.Forall₂ PUnary (mulDen lv (tkL fs)) (mulDenE (sfL fs))
  | [], _ => by simp [tkL, sfL, mulDen, mulDenE]
  | f :: rest, h => by
    have ih := mulDen_ok hlv rest (fun g hg => h g (by simp [hg]))
    obtain ⟨hi, _⟩ := h f (by simp)
    simp only [tkL, sfL, List.map_cons, mulDen, mulDenE] at ih ⊢
    cases f with
    | rat p q =>
      by_cases hz : q = 1
      · simpa [hz] using ih
      · simpa [hz] using List.Forall₂.cons (PPrim.num q).toPower.toUnary ih
    | pow b e =>
      by_cases hn : negCoeff e = true
      · simpa [hn] using List.Forall₂.cons (hi.2.1 b e rfl hn lv hlv) ih
      · have hn' : negCoeff e = false := by simpa using hn
        simpa [hn'] using ih
    | int z => simpa using ih
    | sym x => simpa using ih
    | add ts => simpa using ih
    | mul gs => simpa using ih
    | fn g args => simpa using ih

theorem foldl_star {x : List Tok} {e : Expr} {xs : List (List Tok)} {es : List Expr}
    (hx : PUnary x e) (h : List.Forall₂ PUnary xs es) :
    PTerm (intercal (.op .star) (x :: xs)) (es.foldl (fun a y => .bin .mul a y) e) := by
  rw [intercal_cons]
  exact PTerm.mulList h hx.toTerm

theorem mulBody_ok {lv : Nat} (hlv : lv = 40 ∨ lv = 50) (minus : Bool) (fs : List SExpr)
    (h : ∀ f ∈ fs, FacOk f) :
    PTerm ((if minus then [Tok.op .minus] else []) ++ mulBody lv (tkL fs))
      (mulBodyE minus (sfL fs)) := by
  have hA := mulNum_ok hlv fs h
  have hD := mulDen_ok hlv fs h
  simp only [mulBody, mulBodyE]
  generalize mulNum lv (tkL fs) = A at hA
  generalize mulNumE (sfL fs) = AE at hA
  generalize mulDen lv (tkL fs) = Dl at hD
  generalize mulDenE (sfL fs) = DE at hD
  -- the numerator
  have hN : ∃ n, PTerm ((if minus then [Tok.op .minus] else []) ++
        intercal (.op .star) (if A.isEmpty then [[Tok.num 1]] else A)) n ∧
      mulNumerE minus (if AE.isEmpty then [Expr.num 1] else AE) = n := by
    have key : ∀ (x : List Tok) (e : Expr) (xs : List (List Tok)) (es : List Expr),
        PUnary x e → List.Forall₂ PUnary xs es →
        PTerm ((if minus then [Tok.op .minus] else []) ++ intercal (.op .star) (x :: xs))
          (es.foldl (fun acc y => .bin .mul acc y) (if minus then .un .neg e else e)) := by
      intro x e xs es hx hxs
      rw [intercal_cons]
      cases minus
      · simpa using PTerm.mulList hxs hx.toTerm
      · simpa using PTerm.mulList hxs (PUnary.neg hx).toTerm
    cases hA with
    | nil =>
      exact ⟨_, by simpa using key _ _ [] [] (PPrim.num 1).toPower.toUnary .nil, by simp [mulNumerE]⟩
    | cons hx hxs => exact ⟨_, by simpa using key _ _ _ _ hx hxs, by simp [mulNumerE]⟩
  obtain ⟨n, hn, hne⟩ := hN
  rw [hne]
  rw [← List.append_assoc]
  cases hD with
  | nil => simpa using hn
  | @cons d de ds des hd hds =>
    cases hds with
    | nil =>
      have := PTerm.mulOp .slash hn hd
      simpa [MulOp.tok, MulOp.bin, foldBin] using this
    | @cons d2 de2 ds2 des2 hd2 hds2 =>
      have hprod := foldl_star hd (List.Forall₂.cons hd2 hds2)
      have := PTerm.mulOp .slash hn hprod.toExpr.paren.toPower.toUnary
      simpa [MulOp.tok, MulOp.bin, foldBin] using this

theorem inv_mul (fs : List SExpr) (ih : ∀ a ∈ fs, SWfX a → Inv a) (hw : SWfX (.mul fs)) :
    Inv (.mul fs) := by
  simp only [SWfX, swfX_mul, Bool.and_eq_true, List.all_eq_true, Bool.not_eq_true'] at hw
  have hf : ∀ f ∈ fs, FacOk f := fun f hf => ⟨ih f hf (hw.1 f hf).1, (hw.1 f hf).2⟩
  refine ⟨?_, (by intro b z' h; cases h), ?_⟩
  · rw [tk_mul, sf_mul]
    show PTerm _ _
    by_cases hn : negCoeff (.mul fs) = true
    · simpa [hn] using mulBody_ok (Or.inl rfl) true fs hf
    · have hn' : negCoeff (.mul fs) = false := by simpa using hn
      simpa [hn'] using mulBody_ok (Or.inr rfl) false fs hf
  · intro _
    have generic : PUnary (par 60 50 (mulBody 50 (tkL fs))) (mulBodyE false (sfL fs)) := by
      have h := mulBody_ok (Or.inr rfl) false fs hf
      have h' : PTerm (mulBody 50 (tkL fs)) (mulBodyE false (sfL fs)) := by simpa using h
      simp only [par, show (50 : Nat) ≤ 60 by omega, if_true]
      exact h'.toExpr.paren.toPower.toUnary
    rw [tk_neg_mul, sf_neg_mul]
    match fs, hf, generic with
    | [], _, g => exact g
    | [_], _, g => exact g
    | [c, y], hf, g =>
      by_cases hc : isNegOne c = true
      · simp only [precNeg, hc, if_true]
        exact (par60 (hf y (by simp)).1.1).toPower.toUnary
      · have hc' : isNegOne c = false := by simpa using hc
        simp only [precNeg, hc', Bool.false_eq_true, if_false]
        exact g
    | _ :: _ :: _ :: _, _, g => exact g

/-- the printed text derives from the grammar and denotes the surface tree -/
theorem inv_all : ∀ s, SWfX s → Inv s := by
  apply SExpr.ind
  · intro z _; exact inv_int z
  · intro p q _; exact inv_rat p q
  · intro x _; exact inv_sym x
  · intro ts ih hw
    have hw' := hw
    simp only [SWfX, swfX_add, Bool.and_eq_true, List.all_eq_true] at hw'
    exact inv_add ts (fun a ha => ih a ha (hw'.2 a ha)) hw
  · intro fs ih hw; exact inv_mul fs ih hw
  · intro b e ihb ihe hw
    have hw' := hw
    simp only [SWfX, swfX_pow, Bool.and_eq_true] at hw'
    exact inv_pow b e (ihb hw'.1.1) (ihe hw'.1.2) hw
  · intro f args ih hw
    have hw' := hw
    simp only [SWfX, swfX_fn, Bool.and_eq_true, List.all_eq_true] at hw'
    exact inv_fn f args (fun a ha => ih a ha (hw'.1 a ha)) hw

/-- `SWfX` only drops a condition of `SWf` -/
theorem swf_imp_swfX : ∀ s, SWf s → SWfX s := by
  apply SExpr.ind
  · intro z _; rfl
  · intro p q _; rfl
  · intro x _; rfl
  · intro ts ih hw
    simp only [SWf, swf_add, SWfX, swfX_add, Bool.and_eq_true, List.all_eq_true] at hw ⊢
    exact ⟨hw.1, fun a ha => ih a ha (hw.2 a ha)⟩
  · intro fs ih hw
    simp only [SWf, swf_mul, SWfX, swfX_mul, Bool.and_eq_true, List.all_eq_true,
      Bool.not_eq_true'] at hw ⊢
    exact ⟨fun a ha => ⟨ih a ha (hw.1 a ha).1.1, (hw.1 a ha).2⟩, hw.2⟩
  · intro b e ihb ihe hw
    simp only [SWf, swf_pow, SWfX, swfX_pow, Bool.and_eq_true] at hw ⊢
    exact ⟨⟨ihb hw.1.1, ihe hw.1.2⟩, hw.2⟩
  · intro f args ih hw
    simp only [SWf, swf_fn, SWfX, swfX_fn, Bool.and_eq_true, List.all_eq_true] at hw ⊢
    exact ⟨fun a ha => ih a ha (hw.1 a ha), hw.2⟩

/-- The repository's parser (model `parseTokens`, proved equal to the documented grammar) reads
    the text SymPy's `str()` prints for a tree `s` (symbolic negative exponents in denominators
    included) as exactly the tree `surf s`. -/
theorem parse_ppSympy_surfX (s : SExpr) (h : SWfX s) : parseTokens (ppSympy s) = some (surf s) := by
  obtain ⟨d, h1, h2⟩ := (inv_all s h).expr
  show parseTokens (tkOf s).toks = some (sfOf s).e
  rw [← h1, ← h2]
  exact parseTokens_complete d

theorem parse_ppSympy_surf (s : SExpr) (h : SWf s) : parseTokens (ppSympy s) = some (surf s) :=
  parse_ppSympy_surfX s (swf_imp_swfX s h)

/-! ### non-vacuity: the printer on the shapes `SymbolicDim` produces -/

section Examples
private abbrev N := SExpr.sym "N"
private abbrev M := SExpr.sym "M"

-- -N**2
example : ppSympy (.mul [.int (-1), .pow N (.int 2)]) = [.op .minus, .ident "N", .op .dstar, .num 2]
    ∧ SWf (.mul [.int (-1), .pow N (.int 2)]) := by decide
-- N/2 + 1/2
example : ppSympy (.add [.mul [.rat 1 2, N], .rat 1 2]) =
    [.ident "N", .op .slash, .num 2, .op .plus, .num 1, .op .slash, .num 2]
    ∧ SWf (.add [.mul [.rat 1 2, N], .rat 1 2]) := by decide
-- floor(N/2)
example : ppSympy (.fn .floor [.mul [.rat 1 2, N]]) =
    [.ident "floor", .lparen, .ident "N", .op .slash, .num 2, .rparen]
    ∧ SWf (.fn .floor [.mul [.rat 1 2, N]]) := by decide
-- Mod(N, 3)
example : ppSympy (.fn .mod [N, .int 3]) = [.ident "Mod", .lparen, .ident "N", .comma, .num 3, .rparen]
    ∧ SWf (.fn .mod [N, .int 3]) := by decide
-- 3*N/4
example : ppSympy (.mul [.rat 3 4, N]) = [.num 3, .op .star, .ident "N", .op .slash, .num 4]
    ∧ SWf (.mul [.rat 3 4, N]) := by decide
-- Max(1, M, N)
example : ppSympy (.fn .max [.int 1, M, N]) =
    [.ident "Max", .lparen, .num 1, .comma, .ident "M", .comma, .ident "N", .rparen]
    ∧ SWf (.fn .max [.int 1, M, N]) := by decide
-- -N/2 + M
example : ppSympy (.add [.mul [.rat (-1) 2, N], M]) =
    [.op .minus, .ident "N", .op .slash, .num 2, .op .plus, .ident "M"]
    ∧ SWf (.add [.mul [.rat (-1) 2, N], M]) := by decide
-- M - N/2 (the sign of a later term is pulled out)
example : ppSympy (.add [M, .mul [.rat (-1) 2, N]]) =
    [.ident "M", .op .minus, .ident "N", .op .slash, .num 2] := by decide
-- N/(2*M)
example : ppSympy (.mul [.rat 1 2, .pow M (.int (-1)), N]) =
    [.ident "N", .op .slash, .lparen, .num 2, .op .star, .ident "M", .rparen]
    ∧ SWf (.mul [.rat 1 2, .pow M (.int (-1)), N]) := by decide
-- 2*(Mod(N, 3)) and -Mod(N, 3)
example : ppSympy (.mul [.int 2, .fn .mod [N, .int 3]]) =
    [.num 2, .op .star, .lparen, .ident "Mod", .lparen, .ident "N", .comma, .num 3, .rparen, .rparen]
    ∧ SWf (.mul [.int 2, .fn .mod [N, .int 3]]) := by decide
example : ppSympy (.mul [.int (-1), .fn .mod [N, .int 3]]) =
    [.op .minus, .ident "Mod", .lparen, .ident "N", .comma, .num 3, .rparen] := by decide
-- M/N**2, 1/N, 2**(-N), (N + 1)**2
example : ppSympy (.mul [M, .pow N (.int (-2))]) =
    [.ident "M", .op .slash, .ident "N", .op .dstar, .num 2]
    ∧ SWf (.mul [M, .pow N (.int (-2))]) := by decide
example : ppSympy (.pow N (.int (-1))) = [.num 1, .op .slash, .ident "N"] := by decide
example : ppSympy (.pow (.int 2) (.mul [.int (-1), N])) =
    [.num 2, .op .dstar, .lparen, .op .minus, .ident "N", .rparen]
    ∧ SWf (.pow (.int 2) (.mul [.int (-1), N])) := by decide
example : ppSympy (.pow (.add [N, .int 1]) (.int 2)) =
    [.lparen, .ident "N", .op .plus, .num 1, .rparen, .op .dstar, .num 2] := by decide
-- `swf` rejects: `M * K**(-N)` (prints `M/K**N`, differs at `K = 0` under strict evaluation),
-- a number that is not the first factor, a wrong arity, `sqrt`
example : swf (.mul [M, .pow N (.mul [.int (-1), M])]) = false := by decide
-- ... which `SWfX` admits: M/N**M, M/N**(2*K), M/N**(K/2)
example : ppSympy (.mul [M, .pow N (.mul [.int (-1), M])]) =
    [.ident "M", .op .slash, .ident "N", .op .dstar, .ident "M"]
    ∧ SWfX (.mul [M, .pow N (.mul [.int (-1), M])]) := by decide
example : ppSympy (.mul [M, .pow N (.mul [.int (-2), .sym "K"])]) =
    [.ident "M", .op .slash, .ident "N", .op .dstar, .lparen, .num 2, .op .star, .ident "K", .rparen]
    := by decide
example : ppSympy (.mul [M, .pow N (.mul [.rat (-1) 2, .sym "K"])]) =
    [.ident "M", .op .slash, .ident "N", .op .dstar, .lparen, .ident "K", .op .slash, .num 2, .rparen]
    := by decide
example : swf (.mul [N, .int 2]) = false := by decide
example : swf (.fn .floor [N, M]) = false := by decide
-- sqrt(N), 1/sqrt(N), M/sqrt(N), 2*sqrt(N), N**(1/3), M/N**(2/3)
example : ppSympy (.pow N (.rat 1 2)) = [.ident "sqrt", .lparen, .ident "N", .rparen]
    ∧ SWf (.pow N (.rat 1 2)) := by decide
example : ppSympy (.pow N (.rat (-1) 2)) =
    [.num 1, .op .slash, .ident "sqrt", .lparen, .ident "N", .rparen] := by decide
example : ppSympy (.mul [M, .pow N (.rat (-1) 2)]) =
    [.ident "M", .op .slash, .ident "sqrt", .lparen, .ident "N", .rparen]
    ∧ SWf (.mul [M, .pow N (.rat (-1) 2)]) := by decide
example : ppSympy (.mul [.int 2, .pow N (.rat 1 2)]) =
    [.num 2, .op .star, .ident "sqrt", .lparen, .ident "N", .rparen] := by decide
example : ppSympy (.pow N (.rat 1 3)) =
    [.ident "N", .op .dstar, .lparen, .num 1, .op .slash, .num 3, .rparen] := by decide
example : ppSympy (.mul [M, .pow N (.rat (-2) 3)]) =
    [.ident "M", .op .slash, .ident "N", .op .dstar, .lparen, .num 2, .op .slash, .num 3, .rparen]
    ∧ SWf (.mul [M, .pow N (.rat (-2) 3)]) := by decide
example : swf (.add []) = false := by decide
end Examples

end IrVerif.SymExpr

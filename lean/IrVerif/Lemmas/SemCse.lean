/-
Lemmas/SemCse.lean — CommonSubexpressionEliminationPass model (`cseNodes`, `cseModel`) preserves the
denotation (main graph), provided Python-equal attribute keys mean equal attribute values.
-/
import IrVerif.Lemmas.SemSubst
import Mathlib.Data.List.Basic
namespace IrVerif.Passes
open IrVerif.Sem
variable {Val : Type}

/-! ### list helpers -/

theorem lookup_zip_none {v : VId} : ∀ (ys zs : List VId), v ∉ ys → (ys.zip zs).lookup v = none
  | [], _, _ => by simp
  | _ :: _, [], _ => by simp
  | y :: ys, z :: zs, h => by
    simp only [List.mem_cons, not_or] at h
    have : (v == y) = false := by simpa using h.1
    simp only [List.zip_cons_cons, List.lookup_cons, this]
    exact lookup_zip_none ys zs h.2

theorem lookup_zip_some {v z : VId} : ∀ (ys zs : List VId), (ys.zip zs).lookup v = some z →
    v ∈ ys ∧ zs[ys.idxOf v]? = some z
  | [], _, h => by simp at h
  | _ :: _, [], h => by simp at h
  | y :: ys, z0 :: zs, h => by
    simp only [List.zip_cons_cons, List.lookup_cons] at h
    by_cases hv : v = y
    · subst hv
      simp only [beq_self_eq_true] at h
      simp only [Option.some.injEq] at h
      subst h
      simp [List.idxOf_cons_self]
    · have hb : (v == y) = false := by simpa using hv
      have hb' : (y == v) = false := by simpa using (fun h' : y = v => hv h'.symm)
      simp only [hb] at h
      have ih := lookup_zip_some ys zs h
      refine ⟨List.mem_cons_of_mem _ ih.1, ?_⟩
      simp only [List.idxOf_cons, hb', cond_false, List.getElem?_cons_succ]
      exact ih.2

theorem Subst.app_append (pairs σ : Subst) (v : VId) :
    Subst.app (pairs ++ σ) v = match pairs.lookup v with
      | some z => z
      | none => σ.app v := by
  simp only [Subst.app, List.lookup_append]
  cases pairs.lookup v <;> simp

theorem forall2_comp {α β γ : Type} {R : α → β → Prop} {S : β → γ → Prop} {T : α → γ → Prop}
    (h : ∀ a b c, R a b → S b c → T a c) :
    ∀ {l1 : List α} {l2 : List β} {l3 : List γ}, List.Forall₂ R l1 l2 → List.Forall₂ S l2 l3 →
      List.Forall₂ T l1 l3
  | [], [], [], _, _ => List.Forall₂.nil
  | _ :: _, _ :: _, _ :: _, List.Forall₂.cons h1 t1, List.Forall₂.cons h2 t2 =>
    List.Forall₂.cons (h _ _ _ h1 h2) (forall2_comp h t1 t2)

theorem forall2_imp {α β : Type} {R S : α → β → Prop} (h : ∀ a b, R a b → S a b) :
    ∀ {l1 : List α} {l2 : List β}, List.Forall₂ R l1 l2 → List.Forall₂ S l1 l2
  | [], [], _ => List.Forall₂.nil
  | _ :: _, _ :: _, List.Forall₂.cons h1 t1 => List.Forall₂.cons (h _ _ h1) (forall2_imp h t1)

theorem forall2_map_eq {α β γ : Type} {R : α → β → Prop} {f : α → γ} {g : β → γ}
    (h : ∀ a b, R a b → f a = g b) :
    ∀ {l1 : List α} {l2 : List β}, List.Forall₂ R l1 l2 → l1.map f = l2.map g
  | [], [], _ => rfl
  | _ :: _, _ :: _, List.Forall₂.cons h1 t1 => by
    simp only [List.map_cons, h _ _ h1, forall2_map_eq h t1]

theorem mem_filterMap_trimNone' {v : VId} {ins : List (Option VId)}
    (h : v ∈ (trimNone ins).filterMap id) : v ∈ ins.filterMap id := by
  simp only [List.mem_filterMap, id] at h ⊢
  obtain ⟨a, ha, rfl⟩ := h
  exact ⟨_, mem_of_mem_trimNone ha, rfl⟩

/-! ### the Identity nodes inserted for graph outputs -/

theorem evalN_identityNode (I : Interp Val) (z f : VId) (ρ : Env Val) :
    evalN I (identityNode z f) ρ = ρ.bind [f] [ρ z] := by
  simp [identityNode, evalN, trimNone, evalArgs, nodeResults, isIdentityOp]

/-- relation between an output before and after `cseFixOuts` -/
def FixRel (pairs : List (VId × VId)) (ρ' ρ'' : Env Val) (o o' : VId) : Prop :=
  match pairs.lookup o with
  | none => o' = o
  | some z => o' = z ∨ (o' = o ∧ ρ'' o = ρ' z)

/-- the `replaced` dictionary only holds sound replacements -/
def RepOK (pairs : List (VId × VId)) (ρ' : Env Val) (rep : List (VId × VId)) : Prop :=
  ∀ y w, rep.lookup y = some w → ∃ z, pairs.lookup y = some z ∧ (w = z ∨ (w = y ∧ ρ' y = ρ' z))

theorem lookup_cons_ne {y v a : VId} {rep : List (VId × VId)} (h : v ≠ y) :
    List.lookup v ((y, a) :: rep) = List.lookup v rep := by
  have : (v == y) = false := by simpa using h
  simp [List.lookup_cons, this]

theorem cseFixOuts_spec (I : Interp Val) (gins : List VId) (pairs : List (VId × VId))
    (hz : ∀ y z, pairs.lookup y = some z → pairs.lookup z = none) :
    ∀ (todo : List VId) (rep : List (VId × VId)) (done : List VId) (ρ' : Env Val), RepOK pairs ρ' rep →
    ∃ mid, (cseFixOuts gins pairs rep done todo).1 = done ++ mid ∧
      (∀ v, (pairs.lookup v = none ∨ rep.lookup v ≠ none) →
        evalNodes I (cseFixOuts gins pairs rep done todo).2 ρ' v = ρ' v) ∧
      List.Forall₂ (FixRel pairs ρ' (evalNodes I (cseFixOuts gins pairs rep done todo).2 ρ')) todo mid
  | [], rep, done, ρ', _ => by
    refine ⟨[], by simp [cseFixOuts], fun v _ => by simp [cseFixOuts, evalNodes], ?_⟩
    exact List.Forall₂.nil
  | o :: rest, rep, done, ρ', hrep => by
    simp only [cseFixOuts]
    cases hr : rep.lookup o with
    | some w =>
      simp only
      obtain ⟨mid, h1, h3, h4⟩ := cseFixOuts_spec I gins pairs hz rest rep (done ++ [w]) ρ' hrep
      refine ⟨w :: mid, by rw [h1]; simp, h3, List.Forall₂.cons ?_ h4⟩
      obtain ⟨z, hz1, hz2⟩ := hrep o w hr
      simp only [FixRel, hz1]
      rcases hz2 with rfl | ⟨rfl, h5⟩
      · exact Or.inl rfl
      · refine Or.inr ⟨rfl, ?_⟩
        rw [h3 w (Or.inr (by simp [hr])), h5]
    | none =>
      simp only
      cases hl : pairs.lookup o with
      | none =>
        simp only
        obtain ⟨mid, h1, h3, h4⟩ := cseFixOuts_spec I gins pairs hz rest rep (done ++ [o]) ρ' hrep
        refine ⟨o :: mid, by rw [h1]; simp, h3, List.Forall₂.cons ?_ h4⟩
        simp [FixRel, hl]
      | some z =>
        simp only
        have hzo : z ≠ o := fun h => by
          have := hz o z hl; rw [h, hl] at this; cases this
        split
        · -- Identity node `o' = Identity(z)`, o' takes over the id of o
          have hne : ∀ v, v ≠ o → (ρ'.bind [o] [ρ' z]) v = ρ' v := fun v hv =>
            Env.bind_of_not_mem _ _ (by simpa using hv)
          have hrep1 : RepOK pairs (ρ'.bind [o] [ρ' z]) ((o, o) :: rep) := by
            intro y w hy
            by_cases hyo : y = o
            · subst hyo
              simp only [List.lookup_cons, beq_self_eq_true, Option.some.injEq] at hy
              subst hy
              refine ⟨z, hl, Or.inr ⟨rfl, ?_⟩⟩
              rw [hne z hzo]; simp [Env.bind]
            · rw [lookup_cons_ne hyo] at hy
              obtain ⟨z2, hz1, hz2⟩ := hrep y w hy
              refine ⟨z2, hz1, hz2.imp id (fun h => ⟨h.1, ?_⟩)⟩
              have hz2o : z2 ≠ o := fun h' => by
                have := hz y z2 hz1; rw [h', hl] at this; cases this
              rw [hne y hyo, hne z2 hz2o]; exact h.2
          obtain ⟨mid, h1, h3, h4⟩ := cseFixOuts_spec I gins pairs hz rest ((o, o) :: rep) (done ++ [o])
            (ρ'.bind [o] [ρ' z]) hrep1
          refine ⟨o :: mid, by rw [h1]; simp, ?_, ?_⟩
          · intro v hv
            simp only [evalNodes, evalN_identityNode]
            have hvo : v ≠ o := by
              rintro rfl
              rcases hv with hv | hv
              · rw [hl] at hv; cases hv
              · exact hv hr
            rw [h3 v (hv.imp id (fun h => by rw [lookup_cons_ne hvo]; exact h)), hne v hvo]
          · simp only [evalNodes, evalN_identityNode]
            refine List.Forall₂.cons ?_ (forall2_imp ?_ h4)
            · simp only [FixRel, hl]
              refine Or.inr ⟨trivial, ?_⟩
              rw [h3 o (Or.inr (by simp))]
              simp [Env.bind]
            · intro a b hab
              simp only [FixRel] at hab ⊢
              cases hl' : pairs.lookup a with
              | none => simpa [hl'] using hab
              | some z' =>
                simp only [hl'] at hab ⊢
                refine hab.imp id (fun h => ⟨h.1, ?_⟩)
                have : z' ≠ o := fun h' => by
                  have := hz a z' hl'; rw [h', hl] at this; cases this
                rw [h.2, hne z' this]
        · have hrep1 : RepOK pairs ρ' ((o, z) :: rep) := by
            intro y w hy
            by_cases hyo : y = o
            · subst hyo
              simp only [List.lookup_cons, beq_self_eq_true, Option.some.injEq] at hy
              exact ⟨z, hl, Or.inl hy.symm⟩
            · rw [lookup_cons_ne hyo] at hy
              exact hrep y w hy
          obtain ⟨mid, h1, h3, h4⟩ := cseFixOuts_spec I gins pairs hz rest ((o, z) :: rep) (done ++ [z]) ρ' hrep1
          refine ⟨z :: mid, by rw [h1]; simp, ?_, List.Forall₂.cons ?_ h4⟩
          · intro v hv
            refine h3 v (hv.imp id (fun h => ?_))
            by_cases hvo : v = o
            · subst hvo; simp
            · rw [lookup_cons_ne hvo]; exact h
          · simp [FixRel, hl]

/-! ### the main simulation -/

abbrev PT : VId → Prop := fun _ => True

theorem evalNodes_append (I : Interp Val) : ∀ (a b : List Node) (ρ : Env Val),
    evalNodes I (a ++ b) ρ = evalNodes I b (evalNodes I a ρ)
  | [], _, _ => by simp [evalNodes]
  | n :: a, b, ρ => by simp only [List.cons_append, evalNodes]; exact evalNodes_append I a b _

theorem lookup_zip_of_mem {v : VId} : ∀ (ys zs : List VId), ys.length = zs.length → v ∈ ys →
    ∃ z, (ys.zip zs).lookup v = some z
  | [], _, _, h => by simp at h
  | _ :: _, [], hl, _ => by simp at hl
  | y :: ys, z :: zs, hl, h => by
    by_cases hv : v = y
    · subst hv; exact ⟨z, by simp [List.lookup_cons]⟩
    · have hb : (v == y) = false := by simpa using hv
      simp only [List.zip_cons_cons, List.lookup_cons, hb]
      exact lookup_zip_of_mem ys zs (by simpa using hl) (by simpa [hv] using h)

/-- graph output `o0` of the old graph is now `o` -/
def OutOK (σ : Subst) (ρ' : Env Val) (D : List VId) (o0 o : VId) : Prop :=
  o = σ.app o0 ∨ (o0 ∉ D ∧ o ∉ D ∧ σ.app o0 ∉ D ∧ ρ' o = ρ' (σ.app o0))

/-- a dictionary entry: a kept node without bodies whose stored outputs are what re-evaluating it
    now would give, and whose inputs and outputs are not bound again by the remaining nodes -/
def TblOK (I : Interp Val) (D : List VId) (ρ' : Env Val) (n1 : Node) : Prop :=
  n1.bodies = [] ∧ n1.outs.Nodup ∧ (∀ v ∈ n1.outs, v ∉ D) ∧ (∀ v ∈ n1.ins.filterMap id, v ∉ D) ∧
  EqOn (· ∈ n1.outs) ρ' (evalN I n1 ρ')

theorem evalN_congr_ins (I : Interp Val) (op attrs ins outs) (ρ1 ρ2 : Env Val)
    (h : ∀ v ∈ ins.filterMap id, ρ1 v = ρ2 v) (v : VId) (hv : v ∈ outs) :
    evalN I (.mk op attrs ins outs []) ρ1 v = evalN I (.mk op attrs ins outs []) ρ2 v := by
  simp only [evalN, evalBodies]
  rw [Env.bind_of_mem _ _ hv, Env.bind_of_mem _ _ hv]
  rw [evalArgs_congr (S := (· ∈ ins.filterMap id)) (fun v hv => h v hv) (trimNone ins)
    (fun v hv => mem_filterMap_trimNone' hv)]

theorem TblOK.frame {I : Interp Val} {D D' : List VId} {ρ' ρ1' : Env Val} {n1 : Node}
    (h : TblOK I D ρ' n1) (hD : ∀ v ∈ D', v ∈ D) (hfr : ∀ v, v ∉ D → ρ1' v = ρ' v) :
    TblOK I D' ρ1' n1 := by
  obtain ⟨hb, hnd, ho, hi, he⟩ := h
  refine ⟨hb, hnd, fun v hv h' => ho v hv (hD v h'), fun v hv h' => hi v hv (hD v h'), ?_⟩
  cases n1 with
  | mk op attrs ins outs bodies =>
    simp only [Node.bodies] at hb
    subst hb
    simp only [Node.outs, Node.ins] at ho hi he ⊢
    intro v hv
    rw [hfr v (ho v hv), he v hv]
    exact (evalN_congr_ins I op attrs ins outs ρ1' ρ' (fun u hu => hfr u (hi u hu)) v hv).symm

theorem OutOK.frame {σ : Subst} {D D' : List VId} {ρ' ρ1' : Env Val} {o0 o : VId}
    (h : OutOK σ ρ' D o0 o) (hD : ∀ v ∈ D', v ∈ D) (hfr : ∀ v, v ∉ D → ρ1' v = ρ' v) :
    OutOK σ ρ1' D' o0 o := by
  rcases h with h | ⟨h1, h2, h3, h4⟩
  · exact Or.inl h
  · exact Or.inr ⟨fun h' => h1 (hD _ h'), fun h' => h2 (hD _ h'), fun h' => h3 (hD _ h'),
      by rw [hfr o h2, hfr _ h3, h4]⟩

theorem cseKeyMatch_spec {n1 n : Node} (h : cseKeyMatch n1 n = true) :
    n1.op = n.op ∧ n1.outs.length = n.outs.length ∧ n1.ins = n.ins ∧ n1.attrs = n.attrs := by
  simp only [cseKeyMatch, Bool.and_eq_true, beq_iff_eq] at h
  exact ⟨h.1.1.1, h.1.1.2, h.1.2, h.2⟩

theorem cseSkip_false {limit : Nat} {op : OpId} {attrs : List (String × AttrData)} {bodies : List Graph}
    (h : cseSkip limit op attrs bodies = false) : bodies = [] := by
  simp only [cseSkip, Bool.or_eq_false_iff, Bool.not_eq_false'] at h
  exact List.isEmpty_iff.1 h.1.1

theorem cseSkip_false_stochastic {limit : Nat} {op : OpId} {attrs : List (String × AttrData)}
    {bodies : List Graph} (h : cseSkip limit op attrs bodies = false) : isStochasticOp op = false := by
  simp only [cseSkip, Bool.or_eq_false_iff] at h
  have := h.2
  simpa [isNonDeterministicOp, isStochasticOp] using this

/-- the node tag only matters for stochastic operators -/
theorem nodeResults_tag (I : Interp Val) (op : OpId) (attrs : List (String × AttrData)) (o1 o2 : List VId)
    (bodies : List (BodyFn Val)) (args : List (Option Val)) (h : isStochasticOp op = false) :
    nodeResults I op attrs o1 bodies args = nodeResults I op attrs o2 bodies args := by
  simp [nodeResults, h]

theorem cseNodes_sound (I : Interp Val) (limit : Nat) (gins : List VId) :
    ∀ (ns tbl : List Node) (σ : Subst) (outs outs0 : List VId) (ρ ρ' : Env Val),
    RelOn PT σ ρ ρ' → SubstOK σ (defsNodes ns) →
    ssaNodes ns = true → closedNodes ns = true → noFwdNodes ns = true →
    (∀ n1 ∈ tbl, TblOK I (defsNodes ns) ρ' n1) →
    List.Forall₂ (OutOK σ ρ' (defsNodes ns)) outs0 outs →
    outs0.map (evalNodes I ns ρ) =
      (cseNodes limit gins tbl σ outs ns).outs.map (evalNodes I (cseNodes limit gins tbl σ outs ns).nodes ρ')
  | [], tbl, σ, outs, outs0, ρ, ρ', hrel, _, _, _, _, _, hout => by
    simp only [cseNodes, evalNodes]
    refine forall2_map_eq ?_ hout
    intro o0 o h
    rcases h with h | ⟨_, _, _, h4⟩
    · rw [h]; exact hrel o0 trivial
    · rw [h4]; exact hrel o0 trivial
  | .mk op attrs ins nouts bodies :: ns, tbl, σ, outs, outs0, ρ, ρ', hrel, hok, hs, hc, hf, htbl, hout => by
    have hs' := hs
    simp only [ssaNodes, ssaN, Bool.and_eq_true, disj_iff, nodupB_iff] at hs
    simp only [closedNodes, closedN, Bool.and_eq_true] at hc
    simp only [noFwdNodes, noFwdN, Bool.and_eq_true, disj_iff, Node.ins] at hf
    obtain ⟨⟨⟨⟨hnd, _⟩, hsb⟩, hdn⟩, hsn⟩ := hs
    obtain ⟨⟨⟨hfw, _⟩, _⟩, hfn⟩ := hf
    have hDsub : ∀ v ∈ defsNodes ns, v ∈ defsNodes (.mk op attrs ins nouts bodies :: ns) :=
      fun v hv => by simp only [defsNodes, List.mem_append]; exact Or.inr hv
    have hoD : ∀ v ∈ nouts, v ∈ defsNodes (.mk op attrs ins nouts bodies :: ns) :=
      fun v hv => mem_defsNodes_of_mem_outs hv
    have hoD' : ∀ v ∈ nouts, v ∉ defsNodes ns := fun v hv h => hdn v (by simp [defsN, hv]) h
    have hokn : SubstOK σ (defsNodes ns) := hok.mono hDsub
    have hoko : SubstOK σ nouts := hok.mono hoD
    have hins' : ∀ v ∈ (substIns σ ins).filterMap id,
        v ∉ defsNodes (.mk op attrs ins nouts bodies :: ns) := by
      intro v hv
      simp only [substIns, List.mem_filterMap, List.mem_map, id] at hv
      obtain ⟨a, ⟨b, hb, rfl⟩, ha⟩ := hv
      cases b with
      | none => simp at ha
      | some u =>
        simp only [Option.map_some, Option.some.injEq] at ha
        subst ha
        exact hok.app_not_mem (hfw u (by simp only [List.mem_filterMap, id]; exact ⟨_, hb, rfl⟩))
    -- evaluating the (substituted) node on both sides
    have hstep : RelOn PT σ (evalN I (.mk op attrs ins nouts bodies) ρ)
        (evalN I (.mk op attrs (substIns σ ins) nouts (substBodies σ bodies)) ρ') := by
      have := substN_sound I PT (.mk op attrs ins nouts bodies) σ ρ ρ' hrel
        (hok.mono (fun v hv => by simp only [defsNodes, List.mem_append]; exact Or.inl hv))
        (fun _ _ => trivial) (by simpa [closedN] using hc.1)
      simpa [substN] using this
    have hframe : ∀ v, v ∉ defsNodes (.mk op attrs ins nouts bodies :: ns) →
        evalN I (.mk op attrs (substIns σ ins) nouts (substBodies σ bodies)) ρ' v = ρ' v := by
      intro v hv
      simp only [evalN]
      exact Env.bind_of_not_mem _ _ (fun h => hv (hoD v h))
    have keepTbl : ∀ n1 ∈ tbl, TblOK I (defsNodes ns)
        (evalN I (.mk op attrs (substIns σ ins) nouts (substBodies σ bodies)) ρ') n1 :=
      fun n1 h1 => (htbl n1 h1).frame hDsub hframe
    have keepOut : List.Forall₂ (OutOK σ
        (evalN I (.mk op attrs (substIns σ ins) nouts (substBodies σ bodies)) ρ') (defsNodes ns)) outs0 outs :=
      forall2_imp (fun a b h => h.frame hDsub hframe) hout
    simp only [cseNodes]
    split
    · -- not a candidate
      simp only [evalNodes]
      exact cseNodes_sound I limit gins ns tbl σ outs outs0 _ _ hstep hokn hsn hc.2 hfn keepTbl keepOut
    · rename_i hskip
      have hbodies : bodies = [] := cseSkip_false (by simpa using hskip)
      have hst : isStochasticOp op = false := cseSkip_false_stochastic (by simpa using hskip)
      subst hbodies
      split
      · -- found in the dictionary
        rename_i n1 hfind
        have hn1 := List.mem_of_find?_eq_some hfind
        have hkm := List.find?_some hfind
        obtain ⟨hop, hlen, hins, hattrs⟩ := cseKeyMatch_spec hkm
        simp only [Node.op, Node.outs, Node.ins, Node.attrs] at hop hlen hins hattrs
        obtain ⟨hb1, hnd1, ho1, hi1, he1⟩ := htbl n1 hn1
        have hzmem : ∀ y z, (nouts.zip n1.outs).lookup y = some z → y ∈ nouts ∧ z ∈ n1.outs ∧
            n1.outs[nouts.idxOf y]? = some z := by
          intro y z h
          obtain ⟨h1, h2⟩ := lookup_zip_some nouts n1.outs h
          exact ⟨h1, List.mem_of_getElem? h2, h2⟩
        have hz : ∀ y z, (nouts.zip n1.outs).lookup y = some z → (nouts.zip n1.outs).lookup z = none := by
          intro y z h
          exact lookup_zip_none _ _ (fun h' => ho1 z (hzmem y z h).2.1 (hoD z h'))
        obtain ⟨mid, hmid, hfr, hfix⟩ := cseFixOuts_spec I gins (nouts.zip n1.outs) hz outs [] [] ρ'
          (fun y w h => by simp at h)
        simp only [List.nil_append] at hmid
        simp only [evalNodes, evalNodes_append]
        have hfr' : ∀ v, v ∉ nouts →
            evalNodes I (cseFixOuts gins (nouts.zip n1.outs) [] [] outs).2 ρ' v = ρ' v :=
          fun v hv => hfr v (Or.inl (lookup_zip_none _ _ hv))
        have hfrD : ∀ v, v ∉ defsNodes (.mk op attrs ins nouts [] :: ns) →
            evalNodes I (cseFixOuts gins (nouts.zip n1.outs) [] [] outs).2 ρ' v = ρ' v :=
          fun v hv => hfr' v (fun h => hv (hoD v h))
        have hok1 : SubstOK (nouts.zip n1.outs ++ σ) (defsNodes ns) := by
          intro p hp
          rcases List.mem_append.1 hp with hp | hp
          · obtain ⟨h1, h2⟩ := List.of_mem_zip hp
            exact ⟨hoD' _ h1, fun h => ho1 _ h2 (hDsub _ h)⟩
          · exact hokn p hp
        have hrel1 : RelOn PT (nouts.zip n1.outs ++ σ) (evalN I (.mk op attrs ins nouts []) ρ)
            (evalNodes I (cseFixOuts gins (nouts.zip n1.outs) [] [] outs).2 ρ') := by
          intro v _
          rw [Subst.app_append]
          cases hl : (nouts.zip n1.outs).lookup v with
          | some z =>
            simp only
            obtain ⟨hv1, hz1, hz2⟩ := hzmem v z hl
            rw [hfr z (Or.inl (hz v z hl)), he1 z hz1]
            cases n1 with
            | mk op1 attrs1 ins1 outs1 bodies1 =>
              simp only [Node.bodies, Node.outs] at hb1 hnd1 hz1 hz2 hop hins hattrs hlen
              subst hb1 hop hins hattrs
              simp only [evalN, evalBodies]
              rw [Env.bind_of_mem _ _ hv1, Env.bind_of_mem _ _ hz1, ← hrel.args ins (fun _ _ => trivial)]
              have hidx : outs1.idxOf z = nouts.idxOf v := by
                obtain ⟨hlt, heq⟩ := List.getElem?_eq_some_iff.1 hz2
                rw [← heq]
                exact hnd1.idxOf_getElem _ hlt
              rw [hidx, nodeResults_tag I _ _ nouts outs1 _ _ hst]
          | none =>
            simp only
            have hv : v ∉ nouts := fun h => by
              obtain ⟨z, hz⟩ := lookup_zip_of_mem nouts n1.outs hlen.symm h
              rw [hz] at hl; cases hl
            simp only [evalN]
            rw [Env.bind_of_not_mem _ _ hv, hfr' _ (hoko.app_not_mem hv)]
            exact hrel v trivial
        have htbl1 : ∀ n2 ∈ tbl, TblOK I (defsNodes ns)
            (evalNodes I (cseFixOuts gins (nouts.zip n1.outs) [] [] outs).2 ρ') n2 :=
          fun n2 h2 => (htbl n2 h2).frame hDsub hfrD
        have hout1 : List.Forall₂ (OutOK (nouts.zip n1.outs ++ σ)
            (evalNodes I (cseFixOuts gins (nouts.zip n1.outs) [] [] outs).2 ρ') (defsNodes ns)) outs0
            (cseFixOuts gins (nouts.zip n1.outs) [] [] outs).1 := by
          rw [hmid]
          refine forall2_comp ?_ hout hfix
          intro o0 o o' hpre hfx
          simp only [FixRel] at hfx
          rcases hpre with hpre | ⟨h1, h2, h3, h4⟩
          · -- o = σ o0
            cases hl : (nouts.zip n1.outs).lookup o with
            | some z =>
              simp only [hl] at hfx
              obtain ⟨ho_in, hz1, _⟩ := hzmem o z hl
              have ho0 : o0 = o := by
                rcases Subst.app_cases σ o0 with h | ⟨p, hp, _, h2⟩
                · rw [hpre, h]
                · exact absurd (by rw [h2, ← hpre]; exact ho_in) (hoko p hp).2
              have happ : Subst.app (nouts.zip n1.outs ++ σ) o0 = z := by
                rw [Subst.app_append, ho0, hl]
              rcases hfx with hfx | ⟨hfx1, hfx2⟩
              · exact Or.inl (by rw [hfx, happ])
              · refine Or.inr ⟨by rw [ho0]; exact hoD' o ho_in, by rw [hfx1]; exact hoD' o ho_in,
                  by rw [happ]; exact fun h => ho1 z hz1 (hDsub _ h), ?_⟩
                rw [happ, hfx1, hfx2, hfr z (Or.inl (hz o z hl))]
            | none =>
              simp only [hl] at hfx
              have ho_nin : o ∉ nouts := fun h => by
                obtain ⟨z, hz⟩ := lookup_zip_of_mem nouts n1.outs hlen.symm h
                rw [hz] at hl; cases hl
              have ho0 : o0 ∉ nouts := fun h => ho_nin (by rw [hpre, hoko.app_of_mem h]; exact h)
              refine Or.inl ?_
              rw [hfx, Subst.app_append, lookup_zip_none _ _ ho0, hpre]
          · -- already an alias of an earlier removed output
            have ho_nin : o ∉ nouts := fun h => h2 (hoD o h)
            have ho0 : o0 ∉ nouts := fun h => h1 (hoD o0 h)
            have hs0 : σ.app o0 ∉ nouts := fun h => h3 (hoD _ h)
            rw [lookup_zip_none _ _ ho_nin] at hfx
            simp only at hfx
            refine Or.inr ⟨fun h => h1 (hDsub _ h), by rw [hfx]; exact fun h => h2 (hDsub _ h), ?_, ?_⟩
            · rw [Subst.app_append, lookup_zip_none _ _ ho0]; exact fun h => h3 (hDsub _ h)
            · rw [Subst.app_append, lookup_zip_none _ _ ho0, hfx, hfr' o ho_nin, hfr' _ hs0, h4]
        exact cseNodes_sound I limit gins ns tbl _ _ outs0 _ _ hrel1 hok1 hsn hc.2 hfn htbl1 hout1
      · -- new dictionary entry
        simp only [evalNodes]
        refine cseNodes_sound I limit gins ns _ σ outs outs0 _ _ hstep hokn hsn hc.2 hfn ?_ keepOut
        intro n1 h1
        rcases List.mem_append.1 h1 with h1 | h1
        · exact keepTbl n1 h1
        · simp only [List.mem_singleton] at h1
          subst h1
          refine ⟨by simp [Node.bodies, substBodies], by simpa [Node.outs] using hnd,
            fun v hv => hoD' v (by simpa [Node.outs] using hv),
            fun v hv h => hins' v (by simpa [Node.ins] using hv) (hDsub v h), ?_⟩
          simp only [Node.outs, substBodies] at hframe ⊢
          intro v hv
          exact evalN_congr_ins I op attrs (substIns σ ins) nouts ρ' _
            (fun u hu => (hframe u (hins' u hu)).symm) v hv

end IrVerif.Passes

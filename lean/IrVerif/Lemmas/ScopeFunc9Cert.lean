/-
The resolution certificate (`replG`, `replNs`, `replF`) under a change of `info` slots (`setInfo`), and:
the values whose information the proto carries are values the certificate introduces (`emitG ⊆ new`).
-/
import IrVerif.Lemmas.ScopeFunc9Frame
namespace IrVerif.Scope

/-! ### the certificate reads the info of truthy-named initializers it introduces, and nothing else -/

theorem replDecl_setInfo (V : Nat → ValueS) (I : Nat → Info) :
    ∀ (l : List Nat) (T : Table), replDecl (setInfo V I) T l = replDecl V T l
  | [], _ => rfl
  | v :: l, T => by
    simp only [replDecl, setInfo_name, nm_setInfo, replDecl_setInfo V I l]

theorem replRes_setInfo (V : Nat → ValueS) (I : Nat → Info) (outer : List Table) :
    ∀ (l : List (Option Nat)) (T : Table), replRes (setInfo V I) outer T l = replRes V outer T l
  | [], _ => rfl
  | none :: l, T => by simp only [replRes, replRes_setInfo V I outer l]
  | some v :: l, T => by
    simp only [replRes, setInfo_name, nm_setInfo, replRes_setInfo V I outer l]

theorem replOuts_setInfo (V : Nat → ValueS) (I : Nat → Info) (T : Table) :
    ∀ (l : List Nat), replOuts (setInfo V I) T l = replOuts V T l
  | [] => rfl
  | v :: l => by
    simp only [replOuts, setInfo_name, nm_setInfo, replOuts_setInfo V I T l]

/-- agreement of `I` with the info of `V` on the truthy-named values of `L` -/
def AgreeT (V : Nat → ValueS) (I : Nat → Info) (L : List Nat) : Prop :=
  ∀ v ∈ L, nameTruthy (V v).name = true → I v = (V v).info

theorem AgreeT.left {V : Nat → ValueS} {I : Nat → Info} {A B : List Nat} (h : AgreeT V I (A ++ B)) : AgreeT V I A :=
  fun v hv => h v (List.mem_append_left _ hv)
theorem AgreeT.right {V : Nat → ValueS} {I : Nat → Info} {A B : List Nat} (h : AgreeT V I (A ++ B)) : AgreeT V I B :=
  fun v hv => h v (List.mem_append_right _ hv)

theorem replInits_setInfo (V : Nat → ValueS) (I : Nat → Info) (gouts : List Nat) :
    ∀ (inits : List (Name × Nat)) (T : Table), AgreeT V I (replInits V gouts T inits).new →
      (replInits (setInfo V I) gouts T inits).tbl = (replInits V gouts T inits).tbl ∧
      (replInits (setInfo V I) gouts T inits).new = (replInits V gouts T inits).new ∧
      ((replInits V gouts T inits).ok → (replInits (setInfo V I) gouts T inits).ok)
  | [], _, _ => ⟨rfl, rfl, fun h => h⟩
  | (k, v) :: r, T, h => by
    cases hl : T.lookup k with
    | some u =>
      simp only [replInits, hl] at h ⊢
      obtain ⟨a, b, c⟩ := replInits_setInfo V I gouts r T h
      exact ⟨a, b, fun hok => ⟨hok.1, hok.2.1, c hok.2.2⟩⟩
    | none =>
      simp only [replInits, hl] at h ⊢
      obtain ⟨a, b, c⟩ := replInits_setInfo V I gouts r ((k, v) :: T) (fun u hu => h u (List.mem_cons_of_mem _ hu))
      refine ⟨a, by rw [b], fun hok => ⟨hok.1, ?_, c hok.2.2⟩⟩
      have ht : nameTruthy (V v).name = true := nameTruthy_iff.mpr ⟨k, hok.1.1, hok.1.2.1⟩
      have hv : I v = (V v).info := h v (by simp) ht
      intro hg
      rw [setInfo_info, hv]
      exact hok.2.1 hg

theorem replN_tbl_setInfo (V : Nat → ValueS) (I : Nat → Info) (outer : List Table) (T : Table) :
    ∀ (n : NodeT), (replN (setInfo V I) outer T n).tbl = (replN V outer T n).tbl
  | .mk i g ins outs subs => by simp only [replN, replRes_setInfo]

theorem replNs_tbl_setInfo (V : Nat → ValueS) (I : Nat → Info) (outer : List Table) :
    ∀ (ns : List NodeT) (T : Table), (replNs (setInfo V I) outer T ns).tbl = (replNs V outer T ns).tbl
  | [], _ => rfl
  | n :: ns, T => by
    simp only [replNs, replN_tbl_setInfo, replNs_tbl_setInfo V I outer ns]

mutual
theorem replG_setInfo (V : Nat → ValueS) (I : Nat → Info) :
    ∀ (g : GraphT) (outer : List Table), AgreeT V I (replG V outer g).new →
      (replG (setInfo V I) outer g).new = (replG V outer g).new ∧
      ((replG V outer g).ok → (replG (setInfo V I) outer g).ok)
  | .mk gid ins inits nodes outs, outer, h => by
    simp only [replG] at h ⊢
    obtain ⟨i1, i2, i3⟩ := replInits_setInfo V I outs inits (tblIns V ins) h.left.left.left.right
    obtain ⟨n2, n3⟩ := replNs_setInfo V I nodes outer
      (replDecl V (replInits V outs (tblIns V ins) inits).tbl (nodes.flatMap (liveOuts V))).tbl h.left.right
    simp only [tblIns_setInfo, liveOuts_setInfo, i1, i2, replDecl_setInfo, replOuts_setInfo, replNs_tbl_setInfo, n2,
      setInfo_name, true_and]
    intro hok
    exact ⟨hok.1, hok.2.1, i3 hok.2.2.1, hok.2.2.2.1, n3 hok.2.2.2.2.1, hok.2.2.2.2.2⟩
theorem replNs_setInfo (V : Nat → ValueS) (I : Nat → Info) :
    ∀ (ns : List NodeT) (outer : List Table) (T : Table), AgreeT V I (replNs V outer T ns).new →
      (replNs (setInfo V I) outer T ns).new = (replNs V outer T ns).new ∧
      ((replNs V outer T ns).ok → (replNs (setInfo V I) outer T ns).ok)
  | [], _, _, _ => ⟨rfl, fun h => h⟩
  | n :: ns, outer, T, h => by
    simp only [replNs] at h ⊢
    obtain ⟨a1, a2⟩ := replN_setInfo V I n outer T h.left
    obtain ⟨b1, b2⟩ := replNs_setInfo V I ns outer (replN V outer T n).tbl h.right
    simp only [replN_tbl_setInfo, a1, b1, true_and]
    exact fun hok => ⟨a2 hok.1, b2 hok.2⟩
theorem replN_setInfo (V : Nat → ValueS) (I : Nat → Info) :
    ∀ (n : NodeT) (outer : List Table) (T : Table), AgreeT V I (replN V outer T n).new →
      (replN (setInfo V I) outer T n).new = (replN V outer T n).new ∧
      ((replN V outer T n).ok → (replN (setInfo V I) outer T n).ok)
  | .mk i g ins outs subs, outer, T, h => by
    simp only [replN] at h ⊢
    obtain ⟨a1, a2⟩ := replGs_setInfo V I subs ((replRes V outer T ins).tbl :: outer) h.right
    simp only [replRes_setInfo, stripTrailing_setInfo, setInfo_name, nm_setInfo, a1, true_and]
    exact fun hok => ⟨hok.1, hok.2.1, hok.2.2.1, a2 hok.2.2.2⟩
theorem replGs_setInfo (V : Nat → ValueS) (I : Nat → Info) :
    ∀ (gs : List GraphT) (scopes : List Table), AgreeT V I (replGs V scopes gs).new →
      (replGs (setInfo V I) scopes gs).new = (replGs V scopes gs).new ∧
      ((replGs V scopes gs).ok → (replGs (setInfo V I) scopes gs).ok)
  | [], _, _ => ⟨rfl, fun h => h⟩
  | g :: gs, scopes, h => by
    simp only [replGs] at h ⊢
    obtain ⟨a1, a2⟩ := replG_setInfo V I g scopes h.left
    obtain ⟨b1, b2⟩ := replGs_setInfo V I gs scopes h.right
    simp only [a1, b1, true_and]
    exact fun hok => ⟨a2 hok.1, b2 hok.2⟩
end

/-- the certificate of a function: the new info must respect the clause on equally named inputs -/
theorem replF_setInfo (V : Nat → ValueS) (I : Nat → Info) :
    ∀ (g : GraphT),
      (∀ a ∈ g.inputs, ∀ b ∈ g.inputs, nameTruthy (V a).name = true → (V a).name = (V b).name →
        (I a).emit = (I b).emit) →
      AgreeT V I (replNs V [] (replDecl V (tblIns V g.inputs) (g.nodes.flatMap (liveOuts V))).tbl g.nodes).new →
      (replF (setInfo V I) g).new = (replF V g).new ∧ ((replF V g).ok → (replF (setInfo V I) g).ok)
  | .mk gid ins inits nodes outs, hs, h => by
    simp only [GraphT.inputs, GraphT.nodes] at hs h
    simp only [replF]
    obtain ⟨n2, n3⟩ := replNs_setInfo V I nodes [] (replDecl V (tblIns V ins) (nodes.flatMap (liveOuts V))).tbl h
    simp only [tblIns_setInfo, liveOuts_setInfo, replDecl_setInfo, replNs_tbl_setInfo, n2, setInfo_name, nm_setInfo,
      setInfo_info, true_and]
    intro hok
    exact ⟨hok.1, hok.2.1, hs, hok.2.2.2.1, n3 hok.2.2.2.2.1, hok.2.2.2.2.2⟩

/-! ### the emitted values are introduced by the certificate -/

/-- the values bound in a scope table -/
def tv (T : Table) : List Nat := T.map (·.2)

theorem tv_tblIns (V : Nat → ValueS) (ins : List Nat) (u : Nat) (h : u ∈ tv (tblIns V ins)) : u ∈ ins := by
  simp only [tv, tblIns, List.map_reverse, List.map_map, List.mem_reverse, List.mem_map, Function.comp] at h
  obtain ⟨a, ha, rfl⟩ := h
  exact ha

theorem replInits_tv (V : Nat → ValueS) (gouts : List Nat) :
    ∀ (inits : List (Name × Nat)) (T : Table), (replInits V gouts T inits).ok →
      (∀ kv ∈ inits, kv.2 ∈ tv T ∨ kv.2 ∈ (replInits V gouts T inits).new) ∧
      (∀ u ∈ tv (replInits V gouts T inits).tbl, u ∈ tv T ∨ u ∈ (replInits V gouts T inits).new)
  | [], _, _ => ⟨fun _ h => by simp at h, fun u hu => .inl hu⟩
  | (k, v) :: r, T, hok => by
    cases hl : T.lookup k with
    | some u =>
      simp only [replInits, hl] at hok ⊢
      obtain ⟨a, b⟩ := replInits_tv V gouts r T hok.2.2
      refine ⟨fun kv hkv => ?_, b⟩
      simp only [List.mem_cons] at hkv
      rcases hkv with rfl | hkv
      · left
        have := lookup_mem_tbl hl
        rw [hok.2.1] at this
        exact List.mem_map_of_mem (f := (·.2)) this
      · exact a kv hkv
    | none =>
      simp only [replInits, hl] at hok ⊢
      obtain ⟨a, b⟩ := replInits_tv V gouts r ((k, v) :: T) hok.2.2
      have key : ∀ u, u ∈ tv ((k, v) :: T) ∨ u ∈ (replInits V gouts ((k, v) :: T) r).new →
          u ∈ tv T ∨ u ∈ v :: (replInits V gouts ((k, v) :: T) r).new := by
        intro u hu
        simp only [tv, List.map_cons, List.mem_cons] at hu ⊢
        rcases hu with (rfl | hu) | hu
        · exact .inr (.inl rfl)
        · exact .inl hu
        · exact .inr (.inr hu)
      refine ⟨fun kv hkv => ?_, fun u hu => key u (b u hu)⟩
      simp only [List.mem_cons] at hkv
      rcases hkv with rfl | hkv
      · exact .inr (by simp)
      · exact key _ (a kv hkv)

theorem replDecl_tv (V : Nat → ValueS) :
    ∀ (l : List Nat) (T : Table), ∀ u ∈ tv (replDecl V T l).tbl, u ∈ tv T ∨ u ∈ (replDecl V T l).new
  | [], _, u, hu => .inl hu
  | v :: l, T, u, hu => by
    simp only [replDecl] at hu ⊢
    split at hu
    · rename_i ht
      simp only [ht, if_true]
      rcases replDecl_tv V l _ u hu with h | h
      · simp only [tv, List.map_cons, List.mem_cons] at h ⊢
        rcases h with rfl | h
        · exact .inr (.inl rfl)
        · exact .inl h
      · exact .inr (List.mem_cons_of_mem _ h)
    · rename_i ht
      simp only [ht]
      exact replDecl_tv V l T u hu

theorem replRes_tv (V : Nat → ValueS) (outer : List Table) :
    ∀ (l : List (Option Nat)) (T : Table), ∀ u ∈ tv (replRes V outer T l).tbl, u ∈ tv T ∨ u ∈ (replRes V outer T l).new
  | [], _, u, hu => .inl hu
  | none :: l, T, u, hu => by
    simp only [replRes] at hu ⊢
    exact replRes_tv V outer l T u hu
  | some v :: l, T, u, hu => by
    cases hr : resolve (nm V v) (T :: outer) with
    | some w =>
      simp only [replRes, hr] at hu ⊢
      exact replRes_tv V outer l T u hu
    | none =>
      simp only [replRes, hr] at hu ⊢
      rcases replRes_tv V outer l _ u hu with h | h
      · simp only [tv, List.map_cons, List.mem_cons] at h ⊢
        rcases h with rfl | h
        · exact .inr (.inl rfl)
        · exact .inl h
      · exact .inr (List.mem_cons_of_mem _ h)

theorem replNs_tv (V : Nat → ValueS) (outer : List Table) :
    ∀ (ns : List NodeT) (T : Table), ∀ u ∈ tv (replNs V outer T ns).tbl, u ∈ tv T ∨ u ∈ (replNs V outer T ns).new
  | [], _, u, hu => .inl hu
  | .mk i g ins outs subs :: ns, T, u, hu => by
    simp only [replNs] at hu ⊢
    rcases replNs_tv V outer ns _ u hu with h | h
    · simp only [replN] at h ⊢
      rcases replRes_tv V outer ins T u h with h' | h'
      · exact .inl h'
      · exact .inr (by simp [h'])
    · exact .inr (List.mem_append_right _ h)

theorem replOuts_mem (V : Nat → ValueS) (T : Table) :
    ∀ (outs : List Nat), (replOuts V T outs).ok → ∀ v ∈ outs, v ∈ tv T ∨ v ∈ (replOuts V T outs).new
  | [], _, v, hv => by simp at hv
  | o :: r, hok, v, hv => by
    cases hl : T.lookup (nm V o) with
    | some u =>
      simp only [replOuts, hl] at hok ⊢
      simp only [List.mem_cons] at hv
      rcases hv with rfl | hv
      · left
        have := lookup_mem_tbl hl
        rw [hok.2.1] at this
        exact List.mem_map_of_mem (f := (·.2)) this
      · exact replOuts_mem V T r hok.2.2 v hv
    | none =>
      simp only [replOuts, hl] at hok ⊢
      simp only [List.mem_cons] at hv
      rcases hv with rfl | hv
      · exact .inr (by simp)
      · rcases replOuts_mem V T r hok.2 v hv with h | h
        · exact .inl h
        · exact .inr (List.mem_cons_of_mem _ h)

mutual
theorem emitG_sub_new (V : Nat → ValueS) :
    ∀ (g : GraphT) (outer : List Table), (replG V outer g).ok → ∀ v ∈ emitG V g, v ∈ (replG V outer g).new
  | .mk gid ins inits nodes outs, outer, hok, v, hv => by
    simp only [replG] at hok ⊢
    obtain ⟨_, _, okI, okD, okN, okO⟩ := hok
    obtain ⟨i1, i2⟩ := replInits_tv V outs inits (tblIns V ins) okI
    obtain ⟨d1, _, _⟩ := replDecl_new V _ _ okD
    have fromT2 : ∀ u ∈ tv (replInits V outs (tblIns V ins) inits).tbl,
        u ∈ ins ∨ u ∈ (replInits V outs (tblIns V ins) inits).new := fun u hu => by
      rcases i2 u hu with h | h
      · exact .inl (tv_tblIns V ins u h)
      · exact .inr h
    simp only [emitG, List.mem_append] at hv
    simp only [List.mem_append]
    rcases hv with (((hv | hv) | hv) | hv) | hv
    · exact .inl (.inl (.inl (.inl hv)))
    · simp only [List.mem_map] at hv
      obtain ⟨kv, hkv, rfl⟩ := hv
      rcases i1 kv hkv with h | h
      · exact .inl (.inl (.inl (.inl (tv_tblIns V ins _ h))))
      · exact .inl (.inl (.inl (.inr h)))
    · rw [← d1] at hv
      exact .inl (.inl (.inr hv))
    · rcases replOuts_mem V _ outs okO v hv with h | h
      · rcases replNs_tv V outer nodes _ v h with h | h
        · rcases replDecl_tv V _ _ v h with h | h
          · rcases fromT2 v h with h | h
            · exact .inl (.inl (.inl (.inl h)))
            · exact .inl (.inl (.inl (.inr h)))
          · exact .inl (.inl (.inr h))
        · exact .inl (.inr h)
      · exact .inr h
    · exact .inl (.inr (emitSubNs_sub_new V nodes outer _ okN v hv))
theorem emitSubNs_sub_new (V : Nat → ValueS) :
    ∀ (ns : List NodeT) (outer : List Table) (T : Table), (replNs V outer T ns).ok →
      ∀ v ∈ emitSubNs V ns, v ∈ (replNs V outer T ns).new
  | [], _, _, _, v, hv => by simp [emitSubNs] at hv
  | n :: ns, outer, T, hok, v, hv => by
    simp only [replNs] at hok ⊢
    simp only [emitSubNs, List.mem_append] at hv
    simp only [List.mem_append]
    rcases hv with hv | hv
    · exact .inl (emitSubN_sub_new V n outer T hok.1 v hv)
    · exact .inr (emitSubNs_sub_new V ns outer _ hok.2 v hv)
theorem emitSubN_sub_new (V : Nat → ValueS) :
    ∀ (n : NodeT) (outer : List Table) (T : Table), (replN V outer T n).ok →
      ∀ v ∈ emitSubN V n, v ∈ (replN V outer T n).new
  | .mk i g ins outs subs, outer, T, hok, v, hv => by
    simp only [replN] at hok ⊢
    simp only [emitSubN] at hv
    simp only [List.mem_append]
    exact .inr (emitGs_sub_new V subs _ hok.2.2.2 v hv)
theorem emitGs_sub_new (V : Nat → ValueS) :
    ∀ (gs : List GraphT) (scopes : List Table), (replGs V scopes gs).ok → ∀ v ∈ emitGs V gs, v ∈ (replGs V scopes gs).new
  | [], _, _, v, hv => by simp [emitGs] at hv
  | g :: gs, scopes, hok, v, hv => by
    simp only [replGs] at hok ⊢
    simp only [emitGs, List.mem_append] at hv
    simp only [List.mem_append]
    rcases hv with hv | hv
    · exact .inl (emitG_sub_new V g scopes hok.1 v hv)
    · exact .inr (emitGs_sub_new V gs scopes hok.2 v hv)
end

end IrVerif.Scope

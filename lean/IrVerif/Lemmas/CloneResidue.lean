/-
Helper development for C13_failed_clone_no_residue: when `clone_graph` raises, the nodes it had
created are detached again, so no usage record by a new node is left on a pre-existing value.
Invariant (on every path, also the raising ones):
  R  every usage record by a new node on a pre-existing value is justified: that node cell
     consumes the value at that input position;
  D  every new node cell is in the cloner's `_created_nodes` or consumes nothing (all inputs `None`).
-/
import IrVerif.Lemmas.CloneScope
namespace IrVerif.Clone

structure RInv (n0 : Nat) (s : St) : Prop where
  r : ∀ (v : Nat) (vs : ValueS), v < n0 → s.w[v]? = some (.val vs) → ∀ u ∈ vs.uses, n0 ≤ u.1 →
        ∃ ns, s.w[u.1]? = some (.node ns) ∧ ns.inputs[u.2]? = some (some v)
  d : ∀ (n : Nat) (ns : NodeS), n0 ≤ n → s.w[n]? = some (.node ns) →
        n ∈ s.created ∨ ∀ x ∈ ns.inputs, x = none
  len : n0 ≤ s.w.length
  cr : ∀ n ∈ s.created, n0 ≤ n ∧ ∃ ns, s.w[n]? = some (.node ns)

/-- node cells keep their inputs -/
def NodesFwd (s s' : St) : Prop :=
  ∀ (n : Nat) (ns : NodeS), s.w[n]? = some (.node ns) →
    ∃ ns', s'.w[n]? = some (.node ns') ∧ ns'.inputs = ns.inputs

theorem NodesFwd.refl (s : St) : NodesFwd s s := fun _ ns h => ⟨ns, h, rfl⟩
theorem NodesFwd.trans {a b c : St} (h1 : NodesFwd a b) (h2 : NodesFwd b c) : NodesFwd a c := by
  intro n ns h
  obtain ⟨ns1, e1, i1⟩ := h1 n ns h
  obtain ⟨ns2, e2, i2⟩ := h2 n ns1 e1
  exact ⟨ns2, e2, i2.trans i1⟩

/-- on every path `RInv` is kept; on the normal path node inputs are kept and `Q` holds -/
def RGoodAt (n0 : Nat) (m : M α) (s : St) (Q : α → St → Prop) : Prop :=
  RInv n0 (m s).2 ∧ ∀ a, (m s).1 = .ok a → NodesFwd s (m s).2 ∧ Q a (m s).2

section
variable {n0 : Nat}

theorem RGoodAt.pure {a : α} {s : St} {Q : α → St → Prop} (hI : RInv n0 s) (hQ : Q a s) :
    RGoodAt n0 (Pure.pure a : M α) s Q :=
  ⟨hI, by intro b hb; cases hb; exact ⟨NodesFwd.refl _, hQ⟩⟩

theorem RGoodAt.fail {e : Err} {s : St} {Q : α → St → Prop} (hI : RInv n0 s) :
    RGoodAt n0 (Clone.fail e : M α) s Q := ⟨hI, by intro b hb; cases hb⟩
theorem RGoodAt.raise {why : String} {s : St} {Q : α → St → Prop} (hI : RInv n0 s) :
    RGoodAt n0 (Clone.raise why : M α) s Q := RGoodAt.fail hI
theorem RGoodAt.unsupported {why : String} {s : St} {Q : α → St → Prop} (hI : RInv n0 s) :
    RGoodAt n0 (Clone.unsupported why : M α) s Q := RGoodAt.fail hI

theorem RGoodAt.bind {m : M α} {f : α → M β} {s : St} {Q : α → St → Prop} {R : β → St → Prop}
    (hm : RGoodAt n0 m s Q)
    (hf : ∀ a s1, RInv n0 s1 → NodesFwd s s1 → Q a s1 → RGoodAt n0 (f a) s1 R) :
    RGoodAt n0 (m >>= f) s R := by
  obtain ⟨hI, hq⟩ := hm
  show RGoodAt n0 (M.bind m f) s R
  unfold RGoodAt M.bind
  rcases hms : m s with ⟨r, s1⟩
  rw [hms] at hI hq
  cases r with
  | error e => exact ⟨hI, by intro b hb; cases hb⟩
  | ok a =>
    obtain ⟨f1, q1⟩ := hq a rfl
    obtain ⟨hI2, hq2⟩ := hf a s1 hI f1 q1
    exact ⟨hI2, fun b hb => ⟨f1.trans (hq2 b hb).1, (hq2 b hb).2⟩⟩

theorem RGoodAt.mono {m : M α} {s : St} {Q R : α → St → Prop} (hm : RGoodAt n0 m s Q)
    (h : ∀ a s1, RInv n0 s1 → NodesFwd s s1 → Q a s1 → R a s1) : RGoodAt n0 m s R :=
  ⟨hm.1, fun a ha => ⟨(hm.2 a ha).1, h a _ hm.1 (hm.2 a ha).1 (hm.2 a ha).2⟩⟩

macro "rbind " h:term " with " a:ident s1:ident hI:ident hf:ident hq:ident : tactic =>
  `(tactic| (refine RGoodAt.bind $h ?_; intro $a $s1 $hI $hf $hq))

/-! ### calm steps: no usage record of a pre-existing value, no node input, no created-list change,
no new node cell -/

structure CalmTo (n0 : Nat) (s s' : St) : Prop where
  created : s'.created = s.created
  len : s.w.length ≤ s'.w.length
  uses : ∀ (v : Nat) (vs' : ValueS), v < n0 → s'.w[v]? = some (.val vs') →
    ∃ vs, s.w[v]? = some (.val vs) ∧ vs'.uses = vs.uses
  fwd : NodesFwd s s'
  bwd : ∀ (n : Nat) (ns' : NodeS), s'.w[n]? = some (.node ns') →
    ∃ ns, s.w[n]? = some (.node ns) ∧ ns'.inputs = ns.inputs

abbrev CalmAt (n0 : Nat) (m : M α) (s : St) : Prop := CalmTo n0 s (m s).2

theorem CalmTo.refl (n0 : Nat) (s : St) : CalmTo n0 s s :=
  ⟨rfl, Nat.le_refl _, fun _ vs _ h => ⟨vs, h, rfl⟩, NodesFwd.refl _, fun _ ns h => ⟨ns, h, rfl⟩⟩

theorem CalmAt.pure {a : α} {s : St} : CalmAt n0 (Pure.pure a : M α) s :=
  ⟨rfl, Nat.le_refl _, fun _ vs _ h => ⟨vs, h, rfl⟩, NodesFwd.refl _, fun _ ns h => ⟨ns, h, rfl⟩⟩
theorem CalmAt.fail {e : Err} {s : St} : CalmAt n0 (Clone.fail e : M α) s :=
  ⟨rfl, Nat.le_refl _, fun _ vs _ h => ⟨vs, h, rfl⟩, NodesFwd.refl _, fun _ ns h => ⟨ns, h, rfl⟩⟩
theorem CalmAt.raise {why : String} {s : St} : CalmAt n0 (Clone.raise why : M α) s := CalmAt.fail
theorem CalmAt.unsupported {why : String} {s : St} : CalmAt n0 (Clone.unsupported why : M α) s :=
  CalmAt.fail

theorem CalmAt.bind {m : M α} {f : α → M β} {s : St} (hm : CalmAt n0 m s)
    (hf : ∀ a, (m s).1 = .ok a → CalmAt n0 (f a) (m s).2) : CalmAt n0 (m >>= f) s := by
  show CalmAt n0 (M.bind m f) s
  obtain ⟨c1, l1, u1, f1, b1⟩ := hm
  rcases hms : m s with ⟨r, s1⟩
  rw [hms] at c1 l1 u1 f1 b1 hf
  cases r with
  | error e =>
    refine ⟨?_, ?_, ?_, ?_, ?_⟩ <;> simp only [M.bind, hms]
    · exact c1
    · exact l1
    · exact u1
    · exact f1
    · exact b1
  | ok a =>
    obtain ⟨c2, l2, u2, f2, b2⟩ := hf a rfl
    refine ⟨?_, ?_, ?_, ?_, ?_⟩ <;> simp only [M.bind, hms]
    · exact c2.trans c1
    · exact Nat.le_trans l1 l2
    · intro v vs' hv h
      obtain ⟨vs1, h1, e1⟩ := u2 v vs' hv h
      obtain ⟨vs0, h0, e0⟩ := u1 v vs1 hv h1
      exact ⟨vs0, h0, e1.trans e0⟩
    · exact f1.trans f2
    · intro n ns' h
      obtain ⟨ns1, h1, e1⟩ := b2 n ns' h
      obtain ⟨ns0, h0, e0⟩ := b1 n ns1 h1
      exact ⟨ns0, h0, e1.trans e0⟩

/-- a calm step keeps the invariant -/
theorem RGoodAt.ofCalm {m : M α} {s : St} (hI : RInv n0 s) (hc : CalmAt n0 m s) :
    RGoodAt n0 m s (fun _ s1 => s1.created = s.created) := by
  refine ⟨⟨?_, ?_, Nat.le_trans hI.len hc.len, ?_⟩, fun a _ => ⟨hc.fwd, hc.created⟩⟩
  rotate_left 2
  · intro n hn
    rw [hc.created] at hn
    obtain ⟨a, ns, hns⟩ := hI.cr n hn
    obtain ⟨ns', hns', _⟩ := hc.fwd n ns hns
    exact ⟨a, ns', hns'⟩
  · intro v vs' hv h u hu hn
    obtain ⟨vs, h0, e⟩ := hc.uses v vs' hv h
    obtain ⟨ns, hns, hin⟩ := hI.r v vs hv h0 u (e ▸ hu) hn
    obtain ⟨ns', hns', e'⟩ := hc.fwd u.1 ns hns
    exact ⟨ns', hns', by rw [e']; exact hin⟩
  · intro n ns' hn h
    obtain ⟨ns, h0, e⟩ := hc.bwd n ns' h
    rcases hI.d n ns hn h0 with hd | hd
    · exact .inl (by rw [hc.created]; exact hd)
    · exact .inr (by rw [e]; exact hd)

end

/-! ### calm primitives and functions -/

/-- calm from every state that already holds the pre-existing part of the heap -/
def Calm (n0 : Nat) (m : M α) : Prop := ∀ s, n0 ≤ s.w.length → CalmAt n0 m s

section
variable {n0 : Nat}

theorem Calm.bind {m : M α} {f : α → M β} (hm : Calm n0 m) (hf : ∀ a, Calm n0 (f a)) :
    Calm n0 (m >>= f) := by
  intro s hs
  have h1 := hm s hs
  exact CalmAt.bind h1 (fun a _ => hf a _ (Nat.le_trans hs h1.len))

theorem Calm.pure {a : α} : Calm n0 (Pure.pure a : M α) := fun _ _ => CalmAt.pure
theorem Calm.fail {e : Err} : Calm n0 (Clone.fail e : M α) := fun _ _ => CalmAt.fail
theorem Calm.raise {why : String} : Calm n0 (Clone.raise why : M α) := fun _ _ => CalmAt.fail
theorem Calm.unsupported {why : String} : Calm n0 (Clone.unsupported why : M α) := fun _ _ => CalmAt.fail

/-- any step that leaves heap and created list alone -/
theorem Calm.ofSameHeap {m : M α} (h : ∀ s, (m s).2.w = s.w ∧ (m s).2.created = s.created) :
    Calm n0 m := by
  intro s _
  obtain ⟨hw, hc⟩ := h s
  exact ⟨hc, by rw [hw]; exact Nat.le_refl _, fun v vs _ hv => ⟨vs, by rw [← hw]; exact hv, rfl⟩,
    fun n ns hn => ⟨ns, by rw [hw]; exact hn, rfl⟩, fun n ns hn => ⟨ns, by rw [← hw]; exact hn, rfl⟩⟩

theorem calm_readVal (i : Nat) : Calm n0 (readVal i) :=
  Calm.ofSameHeap (fun s => by unfold readVal; split <;> exact ⟨rfl, rfl⟩)
theorem calm_readNode (i : Nat) : Calm n0 (readNode i) :=
  Calm.ofSameHeap (fun s => by unfold readNode; split <;> exact ⟨rfl, rfl⟩)
theorem calm_readGraph (i : Nat) : Calm n0 (readGraph i) :=
  Calm.ofSameHeap (fun s => by unfold readGraph; split <;> exact ⟨rfl, rfl⟩)
theorem calm_readType (i : Nat) : Calm n0 (readType i) :=
  Calm.ofSameHeap (fun s => by unfold readType; split <;> exact ⟨rfl, rfl⟩)
theorem calm_readShape (i : Nat) : Calm n0 (readShape i) :=
  Calm.ofSameHeap (fun s => by unfold readShape; split <;> exact ⟨rfl, rfl⟩)
theorem calm_readDict (i : Nat) : Calm n0 (readDict i) :=
  Calm.ofSameHeap (fun s => by unfold readDict; split <;> exact ⟨rfl, rfl⟩)
theorem calm_readAttr (i : Nat) : Calm n0 (readAttr i) :=
  Calm.ofSameHeap (fun s => by unfold readAttr; split <;> exact ⟨rfl, rfl⟩)
theorem calm_vmGet (v : Nat) : Calm n0 (vmGet v) := Calm.ofSameHeap (fun _ => ⟨rfl, rfl⟩)
theorem calm_getVm : Calm n0 getVm := Calm.ofSameHeap (fun _ => ⟨rfl, rfl⟩)
theorem calm_vmSet (a b : Nat) : Calm n0 (vmSet a b) := Calm.ofSameHeap (fun _ => ⟨rfl, rfl⟩)
theorem calm_pendHas (v : Nat) : Calm n0 (pendHas v) := Calm.ofSameHeap (fun _ => ⟨rfl, rfl⟩)
theorem calm_pendAdd (vs : List Nat) : Calm n0 (pendAdd vs) := Calm.ofSameHeap (fun _ => ⟨rfl, rfl⟩)
theorem calm_pendDiscard (v : Nat) : Calm n0 (pendDiscard v) := Calm.ofSameHeap (fun _ => ⟨rfl, rfl⟩)

theorem calm_alloc {c : Cell} (hc : c.isNode = false) : Calm n0 (alloc c) := by
  intro s hs
  have app : ∀ (i : Nat), i < s.w.length → (s.w ++ [c])[i]? = s.w[i]? :=
    fun i hi => List.getElem?_append_left hi
  refine ⟨rfl, by simp [alloc], ?_, ?_, ?_⟩
  · intro v vs' hv h
    simp only [alloc] at h
    rw [app v (by omega)] at h
    exact ⟨vs', h, rfl⟩
  · intro n ns h
    exact ⟨ns, by simp only [alloc]; rw [app n (lt_of_getElem? h)]; exact h, rfl⟩
  · intro n ns' h
    simp only [alloc] at h
    rcases Nat.lt_or_ge n s.w.length with hlt | hge
    · rw [app n hlt] at h; exact ⟨ns', h, rfl⟩
    · rw [List.getElem?_append_right hge] at h
      have : n - s.w.length = 0 := by
        rcases Nat.eq_zero_or_pos (n - s.w.length) with h0 | h0
        · exact h0
        · rw [List.getElem?_eq_none (by simp; omega)] at h; cases h
      rw [this] at h
      simp at h
      subst h
      cases hc

/-- read a value cell and write it back with the same users -/
theorem calm_modVal (v : Nat) (f : ValueS → ValueS) (hf : ∀ x, (f x).uses = x.uses) :
    Calm n0 (do let vs ← readVal v; setCell v (.val (f vs))) := by
  intro s _
  cases hv : s.w[v]? with
  | none =>
    have : (do let vs ← readVal v; setCell v (.val (f vs)) : M Unit) s =
        (.error (.unsupported "not a value"), s) := by
      show M.bind (readVal v) _ s = _
      simp [M.bind, readVal, hv]
    show CalmTo n0 s ((do let vs ← readVal v; setCell v (.val (f vs)) : M Unit) s).2
    rw [this]; exact CalmTo.refl _ _
  | some c =>
    cases c with
    | val vs =>
      have : (do let vs ← readVal v; setCell v (.val (f vs)) : M Unit) s =
          (.ok (), { s with w := s.w.set v (.val (f vs)) }) := by
        show M.bind (readVal v) _ s = _
        simp [M.bind, readVal, hv, setCell]
      show CalmTo n0 s ((do let vs ← readVal v; setCell v (.val (f vs)) : M Unit) s).2
      rw [this]
      have hl : v < s.w.length := lt_of_getElem? hv
      refine ⟨rfl, by simp, ?_, ?_, ?_⟩
      · intro x xs' hx h
        simp only at h
        by_cases hxv : v = x
        · subst hxv
          rw [List.getElem?_set_self hl] at h
          cases h
          exact ⟨vs, hv, hf vs⟩
        · rw [List.getElem?_set_ne hxv] at h
          exact ⟨xs', h, rfl⟩
      · intro n ns h
        have : v ≠ n := by intro e; subst e; rw [hv] at h; cases h
        exact ⟨ns, by simp only; rw [List.getElem?_set_ne this]; exact h, rfl⟩
      · intro n ns' h
        simp only at h
        by_cases hnv : v = n
        · subst hnv
          rw [List.getElem?_set_self hl] at h
          cases h
        · rw [List.getElem?_set_ne hnv] at h
          exact ⟨ns', h, rfl⟩
    | _ =>
      have : (do let vs ← readVal v; setCell v (.val (f vs)) : M Unit) s =
          (.error (.unsupported "not a value"), s) := by
        show M.bind (readVal v) _ s = _
        simp [M.bind, readVal, hv]
      show CalmTo n0 s ((do let vs ← readVal v; setCell v (.val (f vs)) : M Unit) s).2
      rw [this]; exact CalmTo.refl _ _

theorem calm_forM' {α : Type} {f : α → M Unit} (h : ∀ a, Calm n0 (f a)) : ∀ l : List α, Calm n0 (forM' f l)
  | [] => Calm.pure
  | a :: as => by unfold forM'; exact Calm.bind (h a) (fun _ => calm_forM' h as)

theorem calm_mapM' {α β : Type} {f : α → M β} (h : ∀ a, Calm n0 (f a)) : ∀ l : List α, Calm n0 (mapM' f l)
  | [] => Calm.pure
  | a :: as => by
    unfold mapM'
    exact Calm.bind (h a) (fun _ => Calm.bind (calm_mapM' h as) (fun _ => Calm.pure))

macro "calm" : tactic => `(tactic| repeat' (first
  | exact Calm.pure | exact Calm.raise | exact Calm.unsupported | exact Calm.fail
  | exact calm_readVal _ | exact calm_readNode _ | exact calm_readGraph _ | exact calm_readType _
  | exact calm_readShape _ | exact calm_readDict _ | exact calm_readAttr _
  | exact calm_vmGet _ | exact calm_getVm | exact calm_vmSet _ _ | exact calm_pendHas _
  | exact calm_pendAdd _ | exact calm_pendDiscard _
  | exact calm_alloc rfl
  | (refine Calm.bind ?_ (fun _ => ?_))
  | split))

theorem calm_copyShape (o : Option Nat) : Calm n0 (copyShape o) := by
  cases o <;> unfold copyShape <;> calm
theorem calm_copyType (o : Option Nat) : Calm n0 (copyType o) := by
  cases o <;> unfold copyType <;> calm
theorem calm_copyProps (o : Nat) : Calm n0 (copyProps o) := by unfold copyProps; calm
theorem calm_copyMeta (o : Nat) : Calm n0 (copyMeta o) := by unfold copyMeta; calm

theorem calm_cloneOrGetValue (v : Nat) : Calm n0 (cloneOrGetValue v) := by
  unfold cloneOrGetValue
  refine Calm.bind (calm_vmGet v) (fun o => ?_)
  cases o with
  | some v' => exact Calm.pure
  | none =>
    refine Calm.bind (calm_readVal v) (fun vs => ?_)
    refine Calm.bind (calm_copyShape _) (fun _ => ?_)
    refine Calm.bind (calm_copyType _) (fun _ => ?_)
    refine Calm.bind (calm_copyProps _) (fun _ => ?_)
    refine Calm.bind (calm_copyMeta _) (fun _ => ?_)
    calm

theorem calm_cloneOutput (i o : Nat) : Calm n0 (cloneOutput i o) := by
  unfold cloneOutput
  refine Calm.bind (calm_readVal o) (fun vs => ?_)
  refine Calm.bind (calm_copyShape _) (fun _ => ?_)
  refine Calm.bind (calm_copyType _) (fun _ => ?_)
  refine Calm.bind (calm_copyProps _) (fun _ => ?_)
  refine Calm.bind (calm_copyMeta _) (fun _ => ?_)
  calm

theorem calm_cloneOutputs : ∀ (os : List Nat) (i : Nat), Calm n0 (cloneOutputs i os)
  | [], _ => by unfold cloneOutputs; exact Calm.pure
  | o :: os, i => by
    unfold cloneOutputs
    exact Calm.bind (calm_cloneOutput i o) (fun _ => Calm.bind (calm_cloneOutputs os (i + 1)) (fun _ => Calm.pure))

theorem calm_mapInputs (allow : Bool) : ∀ l, Calm n0 (mapInputs allow l)
  | [] => Calm.pure
  | none :: rest => by
    unfold mapInputs
    exact Calm.bind (calm_mapInputs allow rest) (fun _ => Calm.pure)
  | some v :: rest => by
    unfold mapInputs
    refine Calm.bind (calm_vmGet v) (fun o => ?_)
    cases o with
    | some v' => exact Calm.bind (calm_mapInputs allow rest) (fun _ => Calm.pure)
    | none =>
      simp only
      split
      · refine Calm.bind (calm_pendHas v) (fun b => ?_)
        split
        · exact Calm.raise
        · exact Calm.bind (calm_mapInputs allow rest) (fun _ => Calm.pure)
      · exact Calm.raise

theorem calm_getMapped (v : Nat) : Calm n0 (getMapped v) := by
  unfold getMapped
  refine Calm.bind (calm_vmGet v) (fun o => ?_)
  cases o <;> calm

theorem calm_setProducer (n v : Nat) : Calm n0 (setProducer n v) :=
  calm_modVal v (fun vs => { vs with producer := some n }) (fun _ => rfl)

theorem calm_setValueOwner (g : Nat) (f : ValueS → ValueS) (hf : ∀ x, (f x).uses = x.uses) (v : Nat) :
    Calm n0 (setValueOwner g f v) :=
  calm_modVal v (fun vs => f { vs with graph := some g }) (fun x => by rw [hf])

theorem calm_checkInput (g v : Nat) : Calm n0 (checkInput g v) := by unfold checkInput; calm
theorem calm_checkOwned (g v : Nat) : Calm n0 (checkOwned g v) := by unfold checkOwned; calm
theorem calm_checkNamed (v : Nat) : Calm n0 (checkNamed v) := by unfold checkNamed; calm
theorem calm_checkNodeFree (g v : Nat) : Calm n0 (checkNodeFree g v) := by unfold checkNodeFree; calm
theorem calm_checkInitEntry (e : String × Nat) : Calm n0 (checkInitEntry e) := by
  unfold checkInitEntry; calm

theorem calm_initEntries : ∀ (l : List Nat) (acc : List (String × Nat)), Calm n0 (initEntries acc l)
  | [], _ => by unfold initEntries; exact Calm.pure
  | v :: rest, acc => by
    unfold initEntries
    refine Calm.bind (calm_readVal v) (fun _ => ?_)
    split
    · exact Calm.raise
    · exact calm_initEntries rest _

theorem calm_allOutputs : ∀ l : List Nat, Calm n0 (allOutputs l)
  | [] => Calm.pure
  | n :: ns => by
    unfold allOutputs
    exact Calm.bind (calm_readNode n) (fun _ => Calm.bind (calm_allOutputs ns) (fun _ => Calm.pure))

end

section
variable {n0 : Nat}

theorem calmAt_setNode {s : St} {n : Nat} {ns c' : NodeS} (h : s.w[n]? = some (.node ns))
    (hin : c'.inputs = ns.inputs) : CalmAt n0 (setCell n (.node c')) s := by
  have hl : n < s.w.length := lt_of_getElem? h
  refine ⟨rfl, by simp [setCell], ?_, ?_, ?_⟩
  · intro v vs' _ hv
    simp only [setCell] at hv
    have : n ≠ v := by
      intro e; subst e
      rw [List.getElem?_set_self hl] at hv; cases hv
    rw [List.getElem?_set_ne this] at hv
    exact ⟨vs', hv, rfl⟩
  · intro m ms hm
    simp only [setCell]
    by_cases hnm : n = m
    · subst hnm
      rw [h] at hm; cases hm
      exact ⟨c', List.getElem?_set_self hl, hin⟩
    · exact ⟨ms, by rw [List.getElem?_set_ne hnm]; exact hm, rfl⟩
  · intro m ms' hm
    simp only [setCell] at hm
    by_cases hnm : n = m
    · subst hnm
      rw [List.getElem?_set_self hl] at hm
      cases hm
      exact ⟨ns, h, hin⟩
    · rw [List.getElem?_set_ne hnm] at hm
      exact ⟨ms', hm, rfl⟩

theorem sameHeap_checkNamed (v : Nat) (s : St) : (checkNamed v s).2 = s := by
  unfold checkNamed
  show (M.bind (readVal v) _ s).2 = s
  cases hv : s.w[v]? with
  | none => simp [M.bind, readVal, hv]
  | some c =>
    cases c with
    | val vs =>
      simp only [M.bind, readVal, hv]
      split <;> rfl
    | _ => simp [M.bind, readVal, hv]

theorem sameHeap_forM'_checkNamed : ∀ (l : List Nat) (s : St), (forM' checkNamed l s).2 = s
  | [], _ => rfl
  | v :: vs, s => by
    unfold forM'
    show (M.bind (checkNamed v) _ s).2 = s
    unfold M.bind
    have h1 := sameHeap_checkNamed v s
    rcases hc : checkNamed v s with ⟨r, s1⟩
    rw [hc] at h1
    simp only at h1
    subst h1
    cases r with
    | error e => rfl
    | ok a => exact sameHeap_forM'_checkNamed vs s1

theorem calm_setNodeGraph (g n : Nat) : Calm n0 (setNodeGraph g n) := by
  intro s _
  unfold setNodeGraph
  refine CalmAt.bind (calm_readNode n s ‹_›) (fun ns hns => ?_)
  have hs : (readNode n s).2 = s := by unfold readNode; split <;> rfl
  have hcell : s.w[n]? = some (.node ns) := by
    unfold readNode at hns
    split at hns
    · next v h => cases hns; exact h
    · cases hns
  rw [hs]
  refine CalmAt.bind (calm_forM' calm_checkNamed ns.outputs s ‹_›) (fun _ _ => ?_)
  rw [sameHeap_forM'_checkNamed]
  exact calmAt_setNode hcell rfl

theorem calm_mkGraph (src : GraphS) (inputs outputs nodes inits : List Nat) :
    Calm n0 (mkGraph src inputs outputs nodes inits) := by
  unfold mkGraph
  refine Calm.bind (calm_initEntries _ _) (fun entries => ?_)
  refine Calm.bind (calm_copyProps _) (fun _ => ?_)
  refine Calm.bind (calm_copyMeta _) (fun _ => ?_)
  refine Calm.bind (calm_alloc rfl) (fun g => ?_)
  refine Calm.bind (calm_forM' (calm_checkInput g) _) (fun _ => ?_)
  refine Calm.bind (calm_forM' (calm_setValueOwner g (fun v => { v with isIn := true }) (fun _ => rfl)) _) (fun _ => ?_)
  refine Calm.bind (calm_forM' (calm_checkOwned g) _) (fun _ => ?_)
  refine Calm.bind (calm_forM' (calm_setValueOwner g (fun v => { v with isOut := true }) (fun _ => rfl)) _) (fun _ => ?_)
  refine Calm.bind (calm_forM' (calm_checkOwned g) _) (fun _ => ?_)
  refine Calm.bind (calm_forM' (calm_setValueOwner g (fun v => { v with isInit := true }) (fun _ => rfl)) _) (fun _ => ?_)
  refine Calm.bind (calm_forM' calm_checkInitEntry _) (fun _ => ?_)
  refine Calm.bind (calm_forM' calm_checkNamed _) (fun _ => ?_)
  refine Calm.bind (calm_forM' (calm_checkNodeFree g) _) (fun _ => ?_)
  refine Calm.bind (calm_forM' (calm_setNodeGraph g) _) (fun _ => Calm.pure)

end

/-! ### the steps that touch usage records, node inputs or the created list -/

section
variable {n0 : Nat}

def addedUses (us : List (Nat × Nat)) (n i : Nat) : List (Nat × Nat) :=
  if us.contains (n, i) then us else us ++ [(n, i)]

theorem mem_addedUses {us : List (Nat × Nat)} {n i : Nat} {u : Nat × Nat} (h : u ∈ addedUses us n i) :
    u ∈ us ∨ u = (n, i) := by
  unfold addedUses at h
  split at h
  · exact .inl h
  · rcases List.mem_append.mp h with h | h
    · exact .inl h
    · exact .inr (by simpa using h)

theorem addUse_res {s : St} (v n i : Nat) (hI : RInv n0 s)
    (hn : ∃ ns, s.w[n]? = some (.node ns) ∧ ns.inputs[i]? = some (some v)) :
    RGoodAt n0 (addUse v n i) s (fun _ s1 => s1.created = s.created) := by
  cases hv : s.w[v]? with
  | none =>
    have : addUse v n i s = (.error (.unsupported "not a value"), s) := by
      show M.bind (readVal v) _ s = _
      simp [M.bind, readVal, hv]
    unfold RGoodAt; rw [this]; exact ⟨hI, by intro b hb; cases hb⟩
  | some c =>
    cases c with
    | val vs =>
      have : addUse v n i s =
          (.ok (), { s with w := s.w.set v (.val { vs with uses := addedUses vs.uses n i }) }) := by
        show M.bind (readVal v) _ s = _
        simp [M.bind, readVal, hv, setCell, addedUses]
      have hl : v < s.w.length := lt_of_getElem? hv
      have hnode : ∀ (m : Nat) (ms : NodeS), s.w[m]? = some (.node ms) →
          (s.w.set v (.val { vs with uses := addedUses vs.uses n i }))[m]? = some (.node ms) := by
        intro m ms hm
        have : v ≠ m := by intro e; subst e; rw [hv] at hm; cases hm
        rw [List.getElem?_set_ne this]; exact hm
      unfold RGoodAt; rw [this]
      refine ⟨⟨?_, ?_, by simp; exact hI.len, fun m hm => ⟨(hI.cr m hm).1, by
        obtain ⟨ms, hms⟩ := (hI.cr m hm).2; exact ⟨ms, hnode m ms hms⟩⟩⟩, fun _ _ => ⟨fun m ms hm => ⟨ms, hnode m ms hm, rfl⟩, rfl⟩⟩
      · intro x xs hx hxs u hu hun
        simp only at hxs
        by_cases hxv : v = x
        · subst hxv
          rw [List.getElem?_set_self hl] at hxs
          cases hxs
          rcases mem_addedUses hu with h | h
          · obtain ⟨ms, hms, hin⟩ := hI.r v vs hx hv u h hun
            exact ⟨ms, hnode _ ms hms, hin⟩
          · subst h
            obtain ⟨ms, hms, hin⟩ := hn
            exact ⟨ms, hnode _ ms hms, hin⟩
        · rw [List.getElem?_set_ne hxv] at hxs
          obtain ⟨ms, hms, hin⟩ := hI.r x xs hx hxs u hu hun
          exact ⟨ms, hnode _ ms hms, hin⟩
      · intro m ms hm hms
        simp only at hms
        have : v ≠ m := by
          intro e; subst e
          rw [List.getElem?_set_self hl] at hms; cases hms
        rw [List.getElem?_set_ne this] at hms
        exact hI.d m ms hm hms
    | _ =>
      have : addUse v n i s = (.error (.unsupported "not a value"), s) := by
        show M.bind (readVal v) _ s = _
        simp [M.bind, readVal, hv]
      unfold RGoodAt; rw [this]; exact ⟨hI, by intro b hb; cases hb⟩

theorem addUses_res (n : Nat) : ∀ (l : List (Option Nat)) (k : Nat) (s : St), RInv n0 s →
    (∃ ns, s.w[n]? = some (.node ns) ∧ ∀ j v, l[j]? = some (some v) → ns.inputs[k + j]? = some (some v)) →
    RGoodAt n0 (addUses n k l) s (fun _ s1 => s1.created = s.created)
  | [], k, s, hI, _ => RGoodAt.pure hI rfl
  | none :: rest, k, s, hI, hn => by
    unfold addUses
    obtain ⟨ns, hns, hin⟩ := hn
    exact addUses_res n rest (k + 1) s hI ⟨ns, hns, fun j v hj => by
      have := hin (j + 1) v (by simpa using hj)
      rw [show k + 1 + j = k + (j + 1) by omega]; exact this⟩
  | some v :: rest, k, s, hI, hn => by
    unfold addUses
    obtain ⟨ns, hns, hin⟩ := hn
    rbind (addUse_res v n k hI ⟨ns, hns, by simpa using hin 0 v (by simp)⟩) with u s1 hI1 hf1 hq1
    obtain ⟨ns1, hns1, e1⟩ := hf1 n ns hns
    refine (addUses_res n rest (k + 1) s1 hI1 ⟨ns1, hns1, fun j x hj => by
      have := hin (j + 1) x (by simpa using hj)
      rw [e1, show k + 1 + j = k + (j + 1) by omega]; exact this⟩).mono ?_
    intro _ s2 _ _ h2
    exact h2.trans hq1

theorem allocNode_res {s : St} (c : NodeS) (hI : RInv n0 s) :
    RGoodAt n0 (allocNode c) s (fun r s1 => s1.w[r]? = some (.node c) ∧
      ∃ ext, s1.created = s.created ++ ext) := by
  have e : allocNode c s = (.ok s.w.length, { s with w := s.w ++ [.node c], created := s.created ++ [s.w.length] }) := rfl
  unfold RGoodAt; rw [e]
  have app : ∀ (i : Nat) (x : Cell), s.w[i]? = some x → (s.w ++ [Cell.node c])[i]? = some x :=
    fun i x h => by rw [List.getElem?_append_left (lt_of_getElem? h)]; exact h
  refine ⟨⟨?_, ?_, by simp; have := hI.len; omega, ?_⟩, fun a ha => ?_⟩
  · intro v vs hv hvs u hu hun
    simp only at hvs
    rw [List.getElem?_append_left (by have := hI.len; omega)] at hvs
    obtain ⟨ms, hms, hin⟩ := hI.r v vs hv hvs u hu hun
    exact ⟨ms, app _ _ hms, hin⟩
  · intro m ms hm hms
    simp only at hms ⊢
    rcases Nat.lt_or_ge m s.w.length with hlt | hge
    · rw [List.getElem?_append_left hlt] at hms
      rcases hI.d m ms hm hms with h | h
      · exact .inl (List.mem_append_left _ h)
      · exact .inr h
    · have : m = s.w.length := by
        have := lt_of_getElem? hms
        simp at this; omega
      subst this
      exact .inl (by simp)
  · intro n hn
    simp only [List.mem_append, List.mem_singleton] at hn
    rcases hn with h | h
    · obtain ⟨a, ns, hns⟩ := hI.cr n h
      exact ⟨a, ns, app _ _ hns⟩
    · subst h; exact ⟨hI.len, c, by simp⟩
  · cases ha
    exact ⟨fun m ms hm => ⟨ms, app _ _ hm, rfl⟩, by simp, ⟨[s.w.length], rfl⟩⟩

theorem mapM'_res {α β : Type} {f : α → M β}
    (hf : ∀ a s1, RInv n0 s1 → RGoodAt n0 (f a) s1 (fun _ s2 => ∃ ext, s2.created = s1.created ++ ext)) :
    ∀ (l : List α) (s : St), RInv n0 s →
      RGoodAt n0 (mapM' f l) s (fun _ s1 => ∃ ext, s1.created = s.created ++ ext)
  | [], s, hI => RGoodAt.pure hI ⟨[], by simp⟩
  | a :: as, s, hI => by
    unfold mapM'
    rbind (hf a s hI) with b s1 hI1 hf1 hq1
    rbind (mapM'_res hf as s1 hI1) with bs s2 hI2 hf2 hq2
    obtain ⟨e1, h1⟩ := hq1
    obtain ⟨e2, h2⟩ := hq2
    exact RGoodAt.pure hI2 ⟨e1 ++ e2, by rw [h2, h1, List.append_assoc]⟩

/-- lift a calm step -/
theorem RGoodAt.calm {m : M α} {s : St} (hI : RInv n0 s) (hc : Calm n0 m) :
    RGoodAt n0 m s (fun _ s1 => ∃ ext, s1.created = s.created ++ ext) :=
  (RGoodAt.ofCalm hI (hc s hI.len)).mono (fun _ _ _ _ h => ⟨[], by simp [h]⟩)

theorem cloneAttr_res {rec : Nat → M Nat}
    (hrec : ∀ g s, RInv n0 s → RGoodAt n0 (rec g) s (fun _ s1 => ∃ ext, s1.created = s.created ++ ext))
    (key : String) (a : Nat) {s : St} (hI : RInv n0 s) :
    RGoodAt n0 (cloneAttr rec key a) s (fun _ s1 => ∃ ext, s1.created = s.created ++ ext) := by
  unfold cloneAttr
  rbind (RGoodAt.calm hI (calm_readAttr a)) with as s1 hI1 hf1 hq1
  obtain ⟨e1, h1⟩ := hq1
  split
  · next g hg =>
    rbind (hrec g s1 hI1) with g' s2 hI2 hf2 hq2
    obtain ⟨e2, h2⟩ := hq2
    rbind (RGoodAt.calm hI2 (calm_alloc rfl)) with a' s3 hI3 hf3 hq3
    obtain ⟨e3, h3⟩ := hq3
    exact RGoodAt.pure hI3 ⟨e1 ++ e2 ++ e3, by rw [h3, h2, h1]; simp⟩
  · next gs hg =>
    rbind (mapM'_res hrec gs s1 hI1) with gs' s2 hI2 hf2 hq2
    obtain ⟨e2, h2⟩ := hq2
    rbind (RGoodAt.calm hI2 (calm_alloc rfl)) with a' s3 hI3 hf3 hq3
    obtain ⟨e3, h3⟩ := hq3
    exact RGoodAt.pure hI3 ⟨e1 ++ e2 ++ e3, by rw [h3, h2, h1]; simp⟩
  · exact RGoodAt.pure hI1 ⟨e1, h1⟩

theorem getElem?_of_inputs {l : List (Option Nat)} : ∀ j v, l[j]? = some (some v) → l[0 + j]? = some (some v) := by
  intro j v h; simpa using h

theorem cloneNode_res {allow : Bool} {rec : Nat → M Nat}
    (hrec : ∀ g s, RInv n0 s → RGoodAt n0 (rec g) s (fun _ s1 => ∃ ext, s1.created = s.created ++ ext))
    (n : Nat) {s : St} (hI : RInv n0 s) :
    RGoodAt n0 (cloneNode allow rec n) s (fun _ s1 => ∃ ext, s1.created = s.created ++ ext) := by
  unfold cloneNode
  rbind (RGoodAt.calm hI (calm_readNode n)) with ns s1 hI1 hf1 hq1
  rbind (RGoodAt.calm hI1 (calm_mapInputs allow ns.inputs)) with ins s2 hI2 hf2 hq2
  rbind (mapM'_res (fun ka s3 hI3 => cloneAttr_res hrec ka.1 ka.2 hI3) ns.attrs s2 hI2) with attrs s3 hI3 hf3 hq3
  rbind (RGoodAt.calm hI3 (calm_copyProps ns.props)) with pr s4 hI4 hf4 hq4
  rbind (RGoodAt.calm hI4 (calm_copyMeta ns.mstore)) with me s5 hI5 hf5 hq5
  rbind (RGoodAt.calm hI5 (calm_cloneOutputs ns.outputs 0)) with outs s6 hI6 hf6 hq6
  rbind (RGoodAt.calm hI6 calm_getVm) with vm s7 hI7 hf7 hq7
  rbind (RGoodAt.calm hI7 (Calm.ofSameHeap (m := checkSpecs allow ns vm)
    (fun s => by rw [checkSpecs_state]; exact ⟨rfl, rfl⟩))) with u0 s7' hI7' hf7' hq7'
  rbind (allocNode_res _ hI7') with n' s8 hI8 hf8 hq8
  rbind (RGoodAt.calm hI8 (calm_forM' (calm_setProducer n') outs)) with u s9 hI9 hf9 hq9
  obtain ⟨ns9, hns9, e9⟩ := hf9 n' _ hq8.1
  rbind (addUses_res n' ins 0 s9 hI9 ⟨ns9, hns9, fun j v hj => by rw [e9]; simpa using hj⟩)
    with u2 s10 hI10 hf10 hq10
  obtain ⟨x1, y1⟩ := hq1; obtain ⟨x2, y2⟩ := hq2; obtain ⟨x3, y3⟩ := hq3; obtain ⟨x4, y4⟩ := hq4
  obtain ⟨x5, y5⟩ := hq5; obtain ⟨x6, y6⟩ := hq6; obtain ⟨x7, y7⟩ := hq7; obtain ⟨x7', y7'⟩ := hq7'; obtain ⟨x8, y8⟩ := hq8.2
  obtain ⟨x9, y9⟩ := hq9
  exact RGoodAt.pure hI10 ⟨x1 ++ x2 ++ x3 ++ x4 ++ x5 ++ x6 ++ x7 ++ x7' ++ x8 ++ x9,
    by rw [hq10, y9, y8, y7', y7, y6, y5, y4, y3, y2, y1]; simp⟩

theorem cloneGraphStep_res {allow : Bool} {rec : Nat → M Nat}
    (hrec : ∀ g s, RInv n0 s → RGoodAt n0 (rec g) s (fun _ s1 => ∃ ext, s1.created = s.created ++ ext))
    (g : Nat) {s : St} (hI : RInv n0 s) :
    RGoodAt n0 (cloneGraphStep allow rec g) s (fun _ s1 => ∃ ext, s1.created = s.created ++ ext) := by
  unfold cloneGraphStep
  rbind (RGoodAt.calm hI (calm_readGraph g)) with gs s1 hI1 hf1 hq1
  rbind (RGoodAt.calm hI1 (calm_mapM' calm_cloneOrGetValue gs.inputs)) with inputs s2 hI2 hf2 hq2
  rbind (RGoodAt.calm hI2 (calm_mapM' calm_cloneOrGetValue (gs.inits.map (·.2)))) with inits s3 hI3 hf3 hq3
  rbind (RGoodAt.calm hI3 (calm_allOutputs gs.nodes)) with pouts s4 hI4 hf4 hq4
  rbind (RGoodAt.calm hI4 (calm_pendAdd pouts)) with u s5 hI5 hf5 hq5
  rbind (mapM'_res (fun n s6 hI6 => cloneNode_res hrec n hI6) gs.nodes s5 hI5) with nodes s6 hI6 hf6 hq6
  rbind (RGoodAt.calm hI6 (calm_mapM' calm_getMapped gs.outputs)) with outputs s7 hI7 hf7 hq7
  refine (RGoodAt.calm hI7 (calm_mkGraph gs inputs outputs nodes inits)).mono ?_
  intro _ s8 _ _ hq8
  obtain ⟨x1, y1⟩ := hq1; obtain ⟨x2, y2⟩ := hq2; obtain ⟨x3, y3⟩ := hq3; obtain ⟨x4, y4⟩ := hq4
  obtain ⟨x5, y5⟩ := hq5; obtain ⟨x6, y6⟩ := hq6; obtain ⟨x7, y7⟩ := hq7; obtain ⟨x8, y8⟩ := hq8
  exact ⟨x1 ++ x2 ++ x3 ++ x4 ++ x5 ++ x6 ++ x7 ++ x8, by rw [y8, y7, y6, y5, y4, y3, y2, y1]; simp⟩

end

/-! ### taking an abandoned clone apart -/

/-- value cell `v` carries no usage record by node `n` -/
def NoRec (w : World) (v n : Nat) : Prop :=
  ∀ vs, w[v]? = some (.val vs) → ∀ u ∈ vs.uses, u.1 ≠ n

/-- `s'` comes from `s` by deleting usage records of node `n` only -/
structure Dropped (n : Nat) (s s' : St) : Prop where
  created : s'.created = s.created
  len : s'.w.length = s.w.length
  nodes : ∀ (m : Nat) (ms : NodeS), s'.w[m]? = some (.node ms) ↔ s.w[m]? = some (.node ms)
  vals : ∀ (v : Nat) (vs' : ValueS), s'.w[v]? = some (.val vs') →
    ∃ vs, s.w[v]? = some (.val vs) ∧ ∀ u ∈ vs'.uses, u ∈ vs.uses
  norec : ∀ v, NoRec s.w v n → NoRec s'.w v n

theorem Dropped.refl (n : Nat) (s : St) : Dropped n s s :=
  ⟨rfl, rfl, fun _ _ => Iff.rfl, fun _ vs h => ⟨vs, h, fun _ hu => hu⟩, fun _ h => h⟩

theorem Dropped.trans {n : Nat} {a b c : St} (h1 : Dropped n a b) (h2 : Dropped n b c) : Dropped n a c :=
  ⟨h2.created.trans h1.created, h2.len.trans h1.len,
    fun m ms => (h2.nodes m ms).trans (h1.nodes m ms),
    fun v vs' h => by
      obtain ⟨vs1, e1, s1⟩ := h2.vals v vs' h
      obtain ⟨vs0, e0, s0⟩ := h1.vals v vs1 e1
      exact ⟨vs0, e0, fun u hu => s0 u (s1 u hu)⟩,
    fun v h => h2.norec v (h1.norec v h)⟩

theorem bind_ok {m : M α} {f : α → M β} {s s1 : St} {a : α} (h : m s = (.ok a, s1)) :
    (m >>= f) s = f a s1 := by
  show M.bind m f s = _
  unfold M.bind; rw [h]

theorem bind_err {m : M α} {f : α → M β} {s s1 : St} {e : Err} (h : m s = (.error e, s1)) :
    (m >>= f) s = (.error e, s1) := by
  show M.bind m f s = _
  unfold M.bind; rw [h]

theorem readNode_ok {s : St} {n : Nat} {ns : NodeS} (h : s.w[n]? = some (.node ns)) :
    readNode n s = (.ok ns, s) := by
  unfold readNode; rw [h]

theorem readNode_err {s : St} {n : Nat} (h : ∀ ns, s.w[n]? ≠ some (.node ns)) :
    readNode n s = (.error (.unsupported "not a node"), s) := by
  unfold readNode
  split
  · next v hv => exact absurd hv (h v)
  · rfl

theorem unUse_dropped (v n : Nat) (s : St) :
    (unUse v n s).1 = .ok () ∧ Dropped n s (unUse v n s).2 ∧ NoRec (unUse v n s).2.w v n := by
  unfold unUse
  split
  · next vs hv =>
    have hl : v < s.w.length := lt_of_getElem? hv
    refine ⟨rfl, ⟨rfl, by simp, ?_, ?_, ?_⟩, ?_⟩
    · intro m ms
      simp only
      by_cases hvm : v = m
      · subst hvm
        rw [List.getElem?_set_self hl, hv]
        constructor <;> intro h <;> cases h
      · rw [List.getElem?_set_ne hvm]
    · intro x xs' h
      simp only at h
      by_cases hvx : v = x
      · subst hvx
        rw [List.getElem?_set_self hl] at h
        cases h
        exact ⟨vs, hv, fun u hu => (List.mem_filter.mp hu).1⟩
      · rw [List.getElem?_set_ne hvx] at h
        exact ⟨xs', h, fun _ hu => hu⟩
    · intro x hx xs h u hu
      simp only at h
      by_cases hvx : v = x
      · subst hvx
        rw [List.getElem?_set_self hl] at h
        cases h
        have := (List.mem_filter.mp hu).2
        simpa using this
      · rw [List.getElem?_set_ne hvx] at h
        exact hx xs h u hu
    · intro xs h u hu
      simp only at h
      rw [List.getElem?_set_self hl] at h
      cases h
      have := (List.mem_filter.mp hu).2
      simpa using this
  · next hnv =>
    refine ⟨rfl, Dropped.refl _ _, ?_⟩
    intro vs h
    exact absurd h (by intro h'; exact hnv vs h')

theorem unUses_dropped (n : Nat) : ∀ (l : List (Option Nat)) (s : St),
    (unUses n l s).1 = .ok () ∧ Dropped n s (unUses n l s).2 ∧
      ∀ v, some v ∈ l → NoRec (unUses n l s).2.w v n
  | [], s => ⟨rfl, Dropped.refl _ _, by simp⟩
  | none :: rest, s => by
    unfold unUses
    obtain ⟨a, b, c⟩ := unUses_dropped n rest s
    refine ⟨a, b, ?_⟩
    intro v hv
    rcases List.mem_cons.mp hv with h | h
    · cases h
    · exact c v h
  | some x :: rest, s => by
    unfold unUses
    obtain ⟨a1, b1, c1⟩ := unUse_dropped x n s
    rcases hu : unUse x n s with ⟨r, s1⟩
    rw [hu] at a1 b1 c1
    simp only at a1
    subst a1
    rw [bind_ok hu]
    obtain ⟨a2, b2, c2⟩ := unUses_dropped n rest s1
    refine ⟨a2, b1.trans b2, ?_⟩
    intro v hv
    rcases List.mem_cons.mp hv with h | h
    · cases h; exact b2.norec _ c1
    · exact c2 v h

section
variable {n0 : Nat}

/-- `detachNode`: keeps the invariant, empties the inputs of the node, changes no other node cell
    and not the created list -/
theorem detachNode_res (n : Nat) {s : St} (hI : RInv n0 s) (hn : n0 ≤ n) :
    RInv n0 (detachNode n s).2 ∧ (detachNode n s).2.created = s.created ∧
    (∀ (m : Nat) (ms : NodeS), m ≠ n →
      ((detachNode n s).2.w[m]? = some (.node ms) ↔ s.w[m]? = some (.node ms))) ∧
    (∀ ns', (detachNode n s).2.w[n]? = some (.node ns') → ∀ x ∈ ns'.inputs, x = none) ∧
    ((∃ ns, s.w[n]? = some (.node ns)) → (detachNode n s).1 = .ok ()) := by
  by_cases hnode : ∃ ns, s.w[n]? = some (.node ns)
  · obtain ⟨ns, hc⟩ := hnode
    obtain ⟨a, b, cc⟩ := unUses_dropped n ns.inputs s
    rcases hu : unUses n ns.inputs s with ⟨r, s1⟩
    rw [hu] at a b cc
    simp only at a
    subst a
    have hn1 : s1.w[n]? = some (.node ns) := (b.nodes n ns).mpr hc
    have hl1 : n < s1.w.length := lt_of_getElem? hn1
    have : detachNode n s = (.ok (), { s1 with w := s1.w.set n (.node { ns with
        inputs := ns.inputs.map (fun _ => none),
        dev := ns.dev.map fun c => { c with specs := c.specs.filter fun sp =>
          match sp.value with
          | some v => !ns.inputs.contains (some v) || ns.outputs.contains v
          | none => true } }) }) := by
      unfold detachNode
      rw [bind_ok (readNode_ok hc), bind_ok hu, bind_ok (readNode_ok hn1)]
      rfl
    rw [this]
    simp only
    have hother : ∀ (m : Nat), m ≠ n → ∀ x, (s1.w.set n x)[m]? = s1.w[m]? :=
      fun m hm x => List.getElem?_set_ne (Ne.symm hm)
    have hcr : ∀ m ∈ s1.created, n0 ≤ m ∧ ∃ ms, (s1.w.set n (Cell.node { ns with
        inputs := ns.inputs.map (fun _ => none),
        dev := ns.dev.map fun c => { c with specs := c.specs.filter fun sp =>
          match sp.value with
          | some v => !ns.inputs.contains (some v) || ns.outputs.contains v
          | none => true } }))[m]? = some (.node ms) := by
      intro m hm
      rw [b.created] at hm
      obtain ⟨a, ms, hms⟩ := hI.cr m hm
      refine ⟨a, ?_⟩
      by_cases hmn : m = n
      · subst hmn; exact ⟨_, List.getElem?_set_self hl1⟩
      · exact ⟨ms, by rw [hother m hmn]; exact (b.nodes m ms).mpr hms⟩
    refine ⟨⟨?_, ?_, by simp; rw [b.len]; exact hI.len, hcr⟩, b.created, ?_, ?_, fun _ => trivial⟩
    · intro v vs hv hvs u hu' hun
      have hvn : v ≠ n := by omega
      rw [hother v hvn] at hvs
      obtain ⟨vs0, hvs0, hsub⟩ := b.vals v vs hvs
      obtain ⟨ms, hms, hin⟩ := hI.r v vs0 hv hvs0 u (hsub u hu') hun
      by_cases hun' : u.1 = n
      · exfalso
        rw [hun', hc] at hms
        cases hms
        have hmem : some v ∈ ns.inputs := List.mem_of_getElem? hin
        exact cc v hmem vs hvs u hu' hun'
      · refine ⟨ms, ?_, hin⟩
        rw [hother u.1 hun']
        exact (b.nodes u.1 ms).mpr hms
    · intro m ms hm hms
      by_cases hmn : m = n
      · subst hmn
        rw [List.getElem?_set_self hl1] at hms
        cases hms
        exact .inr (by intro x hx; simp at hx; exact hx.2.symm)
      · rw [hother m hmn] at hms
        have := (b.nodes m ms).mp hms
        rcases hI.d m ms hm this with h | h
        · exact .inl (by rw [b.created]; exact h)
        · exact .inr h
    · intro m ms hmn
      rw [hother m hmn]
      exact b.nodes m ms
    · intro ns' h
      rw [List.getElem?_set_self hl1] at h
      cases h
      intro x hx
      simp at hx
      exact hx.2.symm
  · have hne : ∀ ns, s.w[n]? ≠ some (.node ns) := fun ns h => hnode ⟨ns, h⟩
    have : detachNode n s = (.error (.unsupported "not a node"), s) := by
      unfold detachNode
      rw [bind_err (readNode_err hne)]
    rw [this]
    exact ⟨hI, rfl, fun _ _ _ => Iff.rfl, fun ns' h => absurd h (hne ns'), fun h => absurd h hnode⟩

end
section
variable {n0 : Nat}

theorem forM'_detach : ∀ (L : List Nat) (s : St), RInv n0 s → (∀ n ∈ L, n ∈ s.created) →
    RInv n0 (forM' detachNode L s).2 ∧ (forM' detachNode L s).2.created = s.created ∧
    (∀ n ∈ L, ∀ ns', (forM' detachNode L s).2.w[n]? = some (.node ns') → ∀ x ∈ ns'.inputs, x = none) ∧
    (∀ (m : Nat) (ms : NodeS), m ∉ L →
      ((forM' detachNode L s).2.w[m]? = some (.node ms) ↔ s.w[m]? = some (.node ms)))
  | [], s, hI, _ => ⟨hI, rfl, by simp, fun _ _ _ => Iff.rfl⟩
  | n :: rest, s, hI, hL => by
    have hn := hI.cr n (hL n List.mem_cons_self)
    obtain ⟨h1, h2, h3, h4, h5⟩ := detachNode_res n hI hn.1
    have hok := h5 hn.2
    rcases hd : detachNode n s with ⟨r, s1⟩
    rw [hd] at h1 h2 h3 h4 hok
    simp only at h1 h2 h3 h4 hok
    subst hok
    unfold forM'
    rw [bind_ok hd]
    obtain ⟨g1, g2, g3, g4⟩ := forM'_detach rest s1 h1 (fun m hm => by rw [h2]; exact hL m (List.mem_cons_of_mem _ hm))
    refine ⟨g1, g2.trans h2, ?_, ?_⟩
    · intro m hm ms' hms' x hx
      rcases List.mem_cons.mp hm with rfl | hm'
      · by_cases hmr : m ∈ rest
        · exact g3 m hmr ms' hms' x hx
        · exact h4 ms' ((g4 m ms' hmr).mp hms') x hx
      · exact g3 m hm' ms' hms' x hx
    · intro m ms hm
      have hmn : m ≠ n := fun e => hm (e ▸ List.mem_cons_self)
      have hmr : m ∉ rest := fun e => hm (List.mem_cons_of_mem _ e)
      exact (g4 m ms hmr).trans (h3 m ms hmn)

theorem guarded_res {body : M Nat} {Q : Nat → St → Prop} {s : St} (hb : RGoodAt n0 body s Q) :
    RGoodAt n0 (guarded body) s Q ∧
    (∀ e, (guarded body s).1 = .error e → (guarded body s).2.created.length ≤ s.created.length) := by
  rcases hbs : body s with ⟨r, s'⟩
  obtain ⟨hI', hq⟩ := hb
  rw [hbs] at hI' hq
  cases r with
  | ok x =>
    have e := guarded_ok hbs
    unfold RGoodAt
    rw [e]
    exact ⟨⟨hI', hq⟩, fun e' he' => by cases he'⟩
  | error e =>
    have hL : ∀ n ∈ s'.created.drop s.created.length, n ∈ s'.created := fun n hn => List.mem_of_mem_drop hn
    obtain ⟨g1, g2, g3, g4⟩ := forM'_detach (s'.created.drop s.created.length) s' hI' hL
    have hg : guarded body s = (.error e, { (forM' detachNode (s'.created.drop s.created.length) s').2 with
        created := (forM' detachNode (s'.created.drop s.created.length) s').2.created.take s.created.length }) := by
      simp [guarded, onError, hbs]
    unfold RGoodAt
    rw [hg]
    simp only
    refine ⟨⟨⟨g1.r, ?_, g1.len, ?_⟩, by intro a ha; cases ha⟩, fun _ _ => by simp [List.length_take]; omega⟩
    · intro m ms hm hms
      rcases g1.d m ms hm hms with h | h
      · rw [g2] at h
        have : m ∈ s'.created.take s.created.length ∨ m ∈ s'.created.drop s.created.length := by
          rw [← List.take_append_drop s.created.length s'.created] at h
          exact List.mem_append.mp h
        rcases this with h' | h'
        · exact .inl (by rw [g2]; exact h')
        · exact .inr (g3 m h' ms hms)
      · exact .inr h
    · intro m hm
      exact g1.cr m (List.mem_of_mem_take hm)

theorem cloneGraph_res {allow : Bool} : ∀ (fuel g : Nat) (s : St), RInv n0 s →
    RGoodAt n0 (cloneGraph allow fuel g) s (fun _ s1 => ∃ ext, s1.created = s.created ++ ext) ∧
    (∀ e, (cloneGraph allow fuel g s).1 = .error e →
      (cloneGraph allow fuel g s).2.created.length ≤ s.created.length)
  | 0, _, s, hI => ⟨RGoodAt.fail hI, fun _ _ => Nat.le_refl _⟩
  | f + 1, g, s, hI =>
    guarded_res (cloneGraphStep_res (fun g' s' hI' => (cloneGraph_res f g' s' hI').1) g hI)

end

end IrVerif.Clone

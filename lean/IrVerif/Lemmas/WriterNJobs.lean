/-
C09 helper development (general model): futures versus tensors / sub pools (`JInv`).
-/
import IrVerif.Lemmas.WriterNPool
namespace IrVerif.WriterN

/-- number of jobs the owner of pool `q` has submitted so far -/
def nsub (cfg : Cfg) (P : PoolSt) (q : Nat) : Nat :=
  match P.owner with
  | .notCreated => 0
  | .submit k => k
  | _ => (cfg.pool q).jobs.length

theorem nsub_congr (cfg : Cfg) (q : Nat) {P P' : PoolSt} (h : P.owner = P'.owner) :
    nsub cfg P q = nsub cfg P' q := by simp [nsub, h]

structure JInv (cfg : Cfg) (s : State) : Prop where
  pend_q : ∀ q k' j, k' < nsub cfg (s.pl q) q → (cfg.pool q).jobs[k']? = some j →
    s.futs[j]? = some .pending → j ∈ (s.pl q).queue
  run_act : ∀ j : Nat, s.futs[j]? = some .running →
    (∃ i p, cfg.job i = j ∧ s.tasks[i]? = some p ∧ act p = true) ∨
    (∃ q', (cfg.jobc j).sub = some q' ∧ ownAct (s.pl q').owner = true)
  canc_sd : ∀ j : Nat, s.futs[j]? = some .cancelled → (s.pl (cfg.jobc j).pool).shutdown = true

theorem JInv_init (cfg : Cfg) : JInv cfg (init cfg) := by
  refine ⟨?_, ?_, ?_⟩
  · intro q k' j hk
    exfalso
    rw [init_pl] at hk
    split at hk
    · unfold initPool at hk; split at hk <;> simp [nsub] at hk
    · simp [nsub] at hk
  · intro j hj; simp [init, List.getElem?_replicate] at hj
  · intro j hj; simp [init, List.getElem?_replicate] at hj

/-- `JInv` reads tasks, futs and of every pool owner, queue and shutdown -/
theorem JInv_congr {cfg : Cfg} {s s' : State} (h : JInv cfg s) (ht : s'.tasks = s.tasks)
    (hf : s'.futs = s.futs) (ho : ∀ q, (s'.pl q).owner = (s.pl q).owner)
    (hq : ∀ q, (s'.pl q).queue = (s.pl q).queue) (hsd : ∀ q, (s'.pl q).shutdown = (s.pl q).shutdown) :
    JInv cfg s' := by
  refine ⟨?_, ?_, ?_⟩
  · intro q k' j hk hj hp
    rw [hq]; rw [hf] at hp
    exact h.pend_q q k' j (by simpa [nsub, ho] using hk) hj hp
  · intro j hj
    rw [hf] at hj
    rcases h.run_act j hj with ⟨i, p, h1, h2, h3⟩ | ⟨q', h1, h2⟩
    · exact Or.inl ⟨i, p, h1, by rw [ht]; exact h2, h3⟩
    · exact Or.inr ⟨q', h1, by rw [ho]; exact h2⟩
  · intro j hj; rw [hsd]; rw [hf] at hj; exact h.canc_sd j hj

theorem JInv_set {cfg : Cfg} {s s' : State} (h : JInv cfg s) {i : Nat} {p x : Pc}
    (hi : s.tasks[i]? = some p) (hx : act x = true)
    (ht : s'.tasks = s.tasks.set i x) (hf : s'.futs = s.futs) (hp : s'.pools = s.pools) :
    JInv cfg s' := by
  have hlt := getElem?_lt hi
  have hpl : ∀ q, s'.pl q = s.pl q := fun q => by simp [State.pl, hp]
  refine ⟨?_, ?_, ?_⟩
  · intro q k' j hk hj hpj
    rw [hpl] at hk ⊢; rw [hf] at hpj; exact h.pend_q q k' j hk hj hpj
  · intro j hj
    rw [hf] at hj
    rcases h.run_act j hj with ⟨i', p', h1, h2, h3⟩ | ⟨q', h1, h2⟩
    · by_cases e : i = i'
      · subst e; exact Or.inl ⟨i, x, h1, by rw [ht]; simp [hlt], hx⟩
      · exact Or.inl ⟨i', p', h1, by rw [ht]; simp only [List.getElem?_set, e, if_false]; exact h2, h3⟩
    · exact Or.inr ⟨q', h1, by rw [hpl]; exact h2⟩
  · intro j hj; rw [hpl]; rw [hf] at hj; exact h.canc_sd j hj

theorem JInv_wake {cfg : Cfg} {s : State} (h : JInv cfg s) :
    JInv cfg { s with tasks := s.tasks.map wake } := by
  refine ⟨h.pend_q, ?_, h.canc_sd⟩
  intro j hj
  rcases h.run_act j hj with ⟨i', p', h1, h2, h3⟩ | ⟨q', h1, h2⟩
  · exact Or.inl ⟨i', wake p', h1, by simp [h2], by rw [act_wake]; exact h3⟩
  · exact Or.inr ⟨q', h1, h2⟩

theorem addIdle_shutdown (ps : List PoolSt) (q q' : Nat) :
    ((addIdle ps q).getD q' default).shutdown = (ps.getD q' default).shutdown := by
  rw [addIdle_get]; split
  · rename_i h; rw [h.1]
  · rfl

theorem JInv_finish {cfg : Cfg} (wf : WF cfg) {s : State} (h : JInv cfg s) (hs : SInv cfg s)
    {i : Nat} {p : Pc} (ok : Bool) (hi : s.tasks[i]? = some p) (hp : act p = true) :
    JInv cfg (finishTask cfg s i ok) := by
  have hlt := getElem?_lt hi
  have hil : i < cfg.n := by rw [← hs.tasks_len]; exact hlt
  have hpd : p ≠ .done true := by intro e; subst e; simp at hp
  have hpn : p ≠ .notStarted := by intro e; subst e; simp at hp
  have hnp := hs.started i p hi hpn
  have hjf : cfg.job i < s.futs.length := by rw [hs.futs_len]; exact wf.job_lt i hil
  rcases finishTask_cases cfg s i ok with ⟨rfl, hn, e⟩ | ⟨hno, e⟩
  · rw [e]
    have hnext := hs.next_notStarted hi hpd hn
    obtain ⟨hlt1, hj1⟩ := hasNext_iff.1 hn
    have hl1 : i + 1 < s.tasks.length := by rw [hs.tasks_len]; exact hlt1
    refine ⟨h.pend_q, ?_, h.canc_sd⟩
    intro j hj
    rcases h.run_act j hj with ⟨i', p', h1, h2, h3⟩ | ⟨q', h1, h2⟩
    · by_cases e1 : i = i'
      · subst e1
        exact Or.inl ⟨i + 1, firstPc cfg (cfg.poolOf i), by rw [hj1]; exact h1,
          by simp only [List.getElem?_set]; simp; omega, act_firstPc _ _⟩
      · have e2 : i + 1 ≠ i' := by
          intro e2; subst e2; rw [hnext] at h2; simp at h2; subst h2; simp at h3
        exact Or.inl ⟨i', p', h1, by simp only [List.getElem?_set, e1, e2, if_false]; exact h2, h3⟩
    · exact Or.inr ⟨q', h1, h2⟩
  · rw [e]
    refine ⟨?_, ?_, ?_⟩
    · intro q k' j hk hj hpj
      show j ∈ ((addIdle s.pools (cfg.poolOf i)).getD q default).queue
      rw [addIdle_queue]
      simp only [List.getElem?_set] at hpj
      split at hpj
      · cases ok <;> simp [hjf] at hpj
      · refine h.pend_q q k' j ?_ hj hpj
        have e := nsub_congr cfg q (addIdle_owner s.pools (cfg.poolOf i) q)
        have hk' : k' < nsub cfg ((addIdle s.pools (cfg.poolOf i)).getD q default) q := hk
        rw [e] at hk'; exact hk'
    · intro j hj
      simp only [List.getElem?_set] at hj
      split at hj
      · cases ok <;> simp [hjf] at hj
      · rename_i hne
        rcases h.run_act j hj with ⟨i', p', h1, h2, h3⟩ | ⟨q', h1, h2⟩
        · have e1 : i ≠ i' := by intro e1; subst e1; exact hne h1
          exact Or.inl ⟨i', p', h1, by simp only [List.getElem?_set, e1, if_false]; exact h2, h3⟩
        · refine Or.inr ⟨q', h1, ?_⟩
          show ownAct ((addIdle s.pools (cfg.poolOf i)).getD q' default).owner = true
          rw [addIdle_owner]; exact h2
    · intro j hj
      show ((addIdle s.pools (cfg.poolOf i)).getD (cfg.jobc j).pool default).shutdown = true
      rw [addIdle_shutdown]
      simp only [List.getElem?_set] at hj
      split at hj
      · cases ok <;> simp [hjf] at hj
      · exact h.canc_sd j hj


theorem sub_parent {cfg : Cfg} (wf : WF cfg) {s : State} (hs : SInv cfg s) {j q' : Nat}
    (hj : j < cfg.nJobs) (hsub : (cfg.jobc j).sub = some q') : (cfg.pool q').parent = some j :=
  (wf.sub_pool j q' hj hsub).2.1

theorem JInv_set_pool {cfg : Cfg} (wf : WF cfg) {s s' : State} (h : JInv cfg s) (hs : SInv cfg s)
    {q : Nat} {P P' : PoolSt} (hP : s.pools[q]? = some P) (hps : s'.pools = s.pools.set q P')
    (hts : s'.tasks = s.tasks) (hfs : s'.futs = s.futs) (hq : P'.queue = P.queue)
    (hns : nsub cfg P' q = nsub cfg P q)
    (hact : ownAct P.owner = true → ownAct P'.owner = true ∨ (cfg.pool q).parent = none)
    (hsd : P.shutdown = true → P'.shutdown = true) : JInv cfg s' := by
  have hplq := pl_of_get hP
  have hpl : ∀ q', s'.pl q' = if q' = q then P' else s.pl q' := by
    intro q'; simp only [State.pl, hps]; exact pl_upd hP q'
  refine ⟨?_, ?_, ?_⟩
  · intro q' k' j hk hj hpj
    rw [hpl] at hk ⊢; rw [hfs] at hpj
    by_cases e : q' = q
    · subst e; simp only [if_true] at hk ⊢
      rw [hq, ← hplq]; exact h.pend_q q' k' j (by rw [hplq, ← hns]; exact hk) hj hpj
    · simp only [e, if_false] at hk ⊢; exact h.pend_q q' k' j hk hj hpj
  · intro j hj
    rw [hfs] at hj
    rcases h.run_act j hj with ⟨i, p, h1, h2, h3⟩ | ⟨q', h1, h2⟩
    · exact Or.inl ⟨i, p, h1, by rw [hts]; exact h2, h3⟩
    · refine Or.inr ⟨q', h1, ?_⟩
      rw [hpl]
      by_cases e : q' = q
      · subst e; simp only [if_true]
        rcases hact (by rw [← hplq]; exact h2) with h3 | h3
        · exact h3
        · have hjl : j < cfg.nJobs := by rw [← hs.futs_len]; exact getElem?_lt hj
          rw [sub_parent wf hs hjl h1] at h3; simp at h3
      · simp only [e, if_false]; exact h2
  · intro j hj
    rw [hfs] at hj; rw [hpl]
    have := h.canc_sd j hj
    by_cases e : (cfg.jobc j).pool = q
    · simp only [e, if_true]; rw [e, hplq] at this; exact hsd this
    · simp only [e, if_false]; exact this

theorem JInv_submit {cfg : Cfg} (wf : WF cfg) {s s' : State} (h : JInv cfg s) {q k j : Nat}
    {P : PoolSt} (hP : s.pools[q]? = some P) (hk : P.owner = .submit k)
    (hj : (cfg.pool q).jobs[k]? = some j)
    (hps : s'.pools = s.pools.set q ({ P with
      queue := P.queue ++ [j]
      owner := if k + 1 < (cfg.pool q).jobs.length then .submit (k + 1) else .collect } : PoolSt))
    (hts : s'.tasks = s.tasks) (hfs : s'.futs = s.futs) : JInv cfg s' := by
  have hplq := pl_of_get hP
  have hklt := getElem?_lt hj
  have hpl : ∀ q', s'.pl q' = if q' = q then ({ P with
      queue := P.queue ++ [j]
      owner := if k + 1 < (cfg.pool q).jobs.length then .submit (k + 1) else .collect } : PoolSt)
      else s.pl q' := by
    intro q'; simp only [State.pl, hps]; exact pl_upd hP q'
  refine ⟨?_, ?_, ?_⟩
  · intro q' k' j' hk' hj' hpj
    rw [hpl] at hk' ⊢; rw [hfs] at hpj
    by_cases e : q' = q
    · subst e; simp only [if_true] at hk' ⊢
      have hk'' : k' < k + 1 := by
        simp only [nsub] at hk'
        split at hk' <;> rename_i heq
        · split at heq <;> simp at heq
        · split at heq
          · simp at heq; omega
          · simp at heq
        · split at heq
          · simp at heq
          · omega
      simp only [List.mem_append, List.mem_cons, List.not_mem_nil, or_false]
      by_cases e1 : k' = k
      · subst e1; rw [hj] at hj'; simp at hj'; exact Or.inr hj'.symm
      · left
        have := h.pend_q q' k' j' (by rw [hplq]; simp [nsub, hk]; omega) hj' hpj
        rw [hplq] at this; exact this
    · simp only [e, if_false] at hk' ⊢; exact h.pend_q q' k' j' hk' hj' hpj
  · intro j' hj'
    rw [hfs] at hj'
    rcases h.run_act j' hj' with ⟨i, p, h1, h2, h3⟩ | ⟨q', h1, h2⟩
    · exact Or.inl ⟨i, p, h1, by rw [hts]; exact h2, h3⟩
    · refine Or.inr ⟨q', h1, ?_⟩
      rw [hpl]; split
      · simp only; split <;> rfl
      · exact h2
  · intro j' hj'
    rw [hfs] at hj'; rw [hpl]
    have := h.canc_sd j' hj'
    split
    · rename_i e; rw [e, hplq] at this; exact this
    · exact this


theorem JInv_cancel {cfg : Cfg} {s s' : State} (h : JInv cfg s) (hs : SInv cfg s) {q : Nat}
    {P P' : PoolSt} (hP : s.pools[q]? = some P) (hm : P.owner = .collect)
    (hP'o : P'.owner = .join true) (hP'q : P'.queue = []) (hP's : P'.shutdown = true)
    (hps : s'.pools = s.pools.set q P')
    (hfs : s'.futs = P.queue.foldl (fun fs x => fs.set x .cancelled) s.futs)
    (hts : s'.tasks = s.tasks) : JInv cfg s' := by
  have hplq := pl_of_get hP
  have hpl : ∀ q', s'.pl q' = if q' = q then P' else s.pl q' := by
    intro q'; simp only [State.pl, hps]; exact pl_upd hP q'
  refine ⟨?_, ?_, ?_⟩
  · intro q' k' j hk hj hpj
    rw [hfs, foldl_set_get] at hpj
    split at hpj
    · simp at hpj
    · rename_i hnot
      rw [hpl] at hk ⊢
      by_cases e : q' = q
      · subst e
        exfalso
        simp only [if_true] at hk
        have := h.pend_q q' k' j (by rw [hplq]; simpa [nsub, hm, hP'o] using hk) hj hpj
        rw [hplq] at this
        exact hnot ⟨this, getElem?_lt hpj⟩
      · simp only [e, if_false] at hk ⊢; exact h.pend_q q' k' j hk hj hpj
  · intro j hj
    rw [hfs, foldl_set_get] at hj
    split at hj
    · simp at hj
    · rcases h.run_act j hj with ⟨i, p, h1, h2, h3⟩ | ⟨q', h1, h2⟩
      · exact Or.inl ⟨i, p, h1, by rw [hts]; exact h2, h3⟩
      · refine Or.inr ⟨q', h1, ?_⟩
        rw [hpl]; split
        · rw [hP'o]; rfl
        · exact h2
  · intro j hj
    rw [hfs, foldl_set_get] at hj
    rw [hpl]
    split at hj
    · rename_i hin
      have := (hs.q_pending q j (by rw [hplq]; exact hin.1)).2
      simp [this, hP's]
    · have := h.canc_sd j hj
      split
      · exact hP's
      · exact this

theorem JInv_takeSerial {cfg : Cfg} (wf : WF cfg) {s s' : State} (h : JInv cfg s) (hs : SInv cfg s)
    {q j : Nat} {rest : List Nat} {P : PoolSt} (hP : s.pools[q]? = some P) (hq : P.queue = j :: rest)
    (hsub : (cfg.jobc j).sub = none)
    (hps : s'.pools = s.pools.set q { P with queue := rest, idle := P.idle - 1 })
    (hfs : s'.futs = s.futs.set j .running)
    (hts : s'.tasks = s.tasks.set (cfg.jobc j).start (firstPc cfg q)) : JInv cfg s' := by
  have hplq := pl_of_get hP
  obtain ⟨_, _, hpj, hpool, hjl, hncP, _, _⟩ := take_facts wf hs hP hq
  have hjq : j ∈ (s.pl q).queue := by rw [hplq, hq]; simp
  have hst := hs.start_notStarted wf hjq hsub
  have hstl := getElem?_lt hst
  have hjf : j < s.futs.length := getElem?_lt hpj
  have hpl : ∀ q', s'.pl q' = if q' = q then { P with queue := rest, idle := P.idle - 1 } else s.pl q' := by
    intro q'; simp only [State.pl, hps]; exact pl_upd hP q'
  refine ⟨?_, ?_, ?_⟩
  · intro q' k' j' hk hj' hpj'
    rw [hfs] at hpj'
    have hne : j ≠ j' := by intro e; subst e; simp [hjf] at hpj'
    simp only [List.getElem?_set, hne, if_false] at hpj'
    rw [hpl] at hk ⊢
    by_cases e : q' = q
    · subst e; simp only [if_true] at hk ⊢
      have := h.pend_q q' k' j' (by rw [hplq]; exact hk) hj' hpj'
      rw [hplq, hq] at this; simp at this
      rcases this with rfl | this
      · exact absurd rfl hne
      · exact this
    · simp only [e, if_false] at hk ⊢; exact h.pend_q q' k' j' hk hj' hpj'
  · intro j' hj'
    rw [hfs] at hj'
    by_cases e : j = j'
    · subst e
      exact Or.inl ⟨(cfg.jobc j).start, firstPc cfg q, wf.start_job j hjl hsub,
        by rw [hts]; simp [hstl], act_firstPc _ _⟩
    · simp only [List.getElem?_set, e, if_false] at hj'
      rcases h.run_act j' hj' with ⟨i, p, h1, h2, h3⟩ | ⟨q', h1, h2⟩
      · have e1 : (cfg.jobc j).start ≠ i := by
          intro e1; rw [← e1, hst] at h2; simp at h2; subst h2; simp at h3
        exact Or.inl ⟨i, p, h1, by rw [hts]; simp only [List.getElem?_set, e1, if_false]; exact h2, h3⟩
      · refine Or.inr ⟨q', h1, ?_⟩
        rw [hpl]; split
        · rename_i e2; rw [e2, hplq] at h2; exact h2
        · exact h2
  · intro j' hj'
    rw [hfs] at hj'
    have hne : j ≠ j' := by intro e; subst e; simp [hjf] at hj'
    simp only [List.getElem?_set, hne, if_false] at hj'
    have := h.canc_sd j' hj'
    rw [hpl]; split
    · rename_i e2; rw [e2, hplq] at this; exact this
    · exact this

theorem JInv_takeSub {cfg : Cfg} (wf : WF cfg) {s s' : State} (h : JInv cfg s) (hs : SInv cfg s)
    {q j q' : Nat} {rest : List Nat} {P : PoolSt} (hP : s.pools[q]? = some P) (hq : P.queue = j :: rest)
    (hsub : (cfg.jobc j).sub = some q')
    (hps : s'.pools = createPool cfg (s.pools.set q { P with queue := rest, idle := P.idle - 1 }) q')
    (hfs : s'.futs = s.futs.set j .running) (hts : s'.tasks = s.tasks) : JInv cfg s' := by
  have hplq := pl_of_get hP
  obtain ⟨_, _, hpj, hpool, hjl, hncP, _, _⟩ := take_facts wf hs hP hq
  obtain ⟨hq'l, hpar, hlt⟩ := wf.sub_pool j q' hjl hsub
  have hqq : q' ≠ q := by rw [hpool] at hlt; omega
  have hjf : j < s.futs.length := getElem?_lt hpj
  have hq'len : q' < (s.pools.set q { P with queue := rest, idle := P.idle - 1 }).length := by
    simp [hs.pools_len]; exact hq'l
  have hpl : ∀ q'', s'.pl q'' =
      if q'' = q' then { s.pl q' with owner := .submit 0, idle := (cfg.pool q').size }
      else if q'' = q then { P with queue := rest, idle := P.idle - 1 } else s.pl q'' := by
    intro q''
    simp only [State.pl, hps, createPool_get]
    by_cases e : q'' = q'
    · subst e
      simp only [hq'len, and_self, if_true]
      rw [pl_upd hP q'']; simp [hqq, State.pl]
    · simp only [e, false_and, if_false]
      exact pl_upd hP q''
  refine ⟨?_, ?_, ?_⟩
  · intro q'' k' j' hk hj' hpj'
    rw [hfs] at hpj'
    have hne : j ≠ j' := by intro e; subst e; simp [hjf] at hpj'
    simp only [List.getElem?_set, hne, if_false] at hpj'
    rw [hpl] at hk ⊢
    by_cases e1 : q'' = q'
    · subst e1; simp [nsub] at hk
    · simp only [e1, if_false] at hk ⊢
      by_cases e : q'' = q
      · subst e; simp only [if_true] at hk ⊢
        have := h.pend_q q'' k' j' (by rw [hplq]; exact hk) hj' hpj'
        rw [hplq, hq] at this; simp at this
        rcases this with rfl | this
        · exact absurd rfl hne
        · exact this
      · simp only [e, if_false] at hk ⊢; exact h.pend_q q'' k' j' hk hj' hpj'
  · intro j' hj'
    rw [hfs] at hj'
    by_cases e : j = j'
    · subst e
      exact Or.inr ⟨q', hsub, by rw [hpl]; simp [ownAct]⟩
    · simp only [List.getElem?_set, e, if_false] at hj'
      rcases h.run_act j' hj' with ⟨i, p, h1, h2, h3⟩ | ⟨q'', h1, h2⟩
      · exact Or.inl ⟨i, p, h1, by rw [hts]; exact h2, h3⟩
      · refine Or.inr ⟨q'', h1, ?_⟩
        rw [hpl]; split
        · simp [ownAct]
        · split
          · rename_i _ e2; rw [e2, hplq] at h2; exact h2
          · exact h2
  · intro j' hj'
    rw [hfs] at hj'
    have hne : j ≠ j' := by intro e; subst e; simp [hjf] at hj'
    simp only [List.getElem?_set, hne, if_false] at hj'
    have := h.canc_sd j' hj'
    rw [hpl]; split
    · rename_i e1; simp only; rw [e1] at this; exact this
    · split
      · rename_i _ e2; rw [e2, hplq] at this; exact this
      · exact this

theorem JInv_joinSub {cfg : Cfg} (wf : WF cfg) {s s' : State} (h : JInv cfg s) (hs : SInv cfg s)
    {q jp : Nat} {e : Bool} {P : PoolSt} (hP : s.pools[q]? = some P) (hm : P.owner = .join e)
    (hpar : (cfg.pool q).parent = some jp)
    (hps : s'.pools = addIdle (s.pools.set q { P with owner := .closed e }) (cfg.jobc jp).pool)
    (hfs : s'.futs = s.futs.set jp (if e then .err else .ok)) (hts : s'.tasks = s.tasks) :
    JInv cfg s' := by
  have hplq := pl_of_get hP
  have hql : q < cfg.nPools := by rw [← hs.pools_len]; exact getElem?_lt hP
  obtain ⟨hjpl, hjsub⟩ := wf.parent_sub q jp hql hpar
  have hjf : jp < s.futs.length := by rw [hs.futs_len]; exact hjpl
  have hown : ∀ q', (s'.pl q').owner = if q' = q then .closed e else (s.pl q').owner := by
    intro q'
    simp only [State.pl, hps]; rw [addIdle_owner, pl_upd hP]; split <;> rfl
  have hque : ∀ q', (s'.pl q').queue = (s.pl q').queue := by
    intro q'
    simp only [State.pl, hps]; rw [addIdle_queue, pl_upd hP]; split
    · rename_i e1; subst e1; rw [← hplq]; rfl
    · rfl
  have hshut : ∀ q', (s'.pl q').shutdown = (s.pl q').shutdown := by
    intro q'
    simp only [State.pl, hps]; rw [addIdle_shutdown, pl_upd hP]; split
    · rename_i e1; subst e1; rw [← hplq]; rfl
    · rfl
  refine ⟨?_, ?_, ?_⟩
  · intro q' k' j hk hj hpj
    rw [hfs] at hpj
    have hne : jp ≠ j := by intro e1; subst e1; cases e <;> simp [hjf] at hpj
    simp only [List.getElem?_set, hne, if_false] at hpj
    rw [hque]
    refine h.pend_q q' k' j ?_ hj hpj
    have e1 : nsub cfg (s'.pl q') q' = nsub cfg (s.pl q') q' := by
      simp only [nsub, hown]
      by_cases e2 : q' = q
      · subst e2; simp [hplq, hm]
      · simp [e2]
    rw [← e1]; exact hk
  · intro j hj
    rw [hfs] at hj
    have hne : jp ≠ j := by intro e1; subst e1; cases e <;> simp [hjf] at hj
    simp only [List.getElem?_set, hne, if_false] at hj
    rcases h.run_act j hj with ⟨i, p, h1, h2, h3⟩ | ⟨q', h1, h2⟩
    · exact Or.inl ⟨i, p, h1, by rw [hts]; exact h2, h3⟩
    · refine Or.inr ⟨q', h1, ?_⟩
      rw [hown]; split
      · rename_i e2; subst e2
        have hjl : j < cfg.nJobs := by rw [← hs.futs_len]; exact getElem?_lt hj
        have := sub_parent wf hs hjl h1
        rw [hpar] at this; simp at this; exact absurd this hne
      · exact h2
  · intro j hj
    rw [hfs] at hj
    have hne : jp ≠ j := by intro e1; subst e1; cases e <;> simp [hjf] at hj
    simp only [List.getElem?_set, hne, if_false] at hj
    rw [hshut]; exact h.canc_sd j hj


theorem JInv_step {cfg : Cfg} (wf : WF cfg) {s s' : State} {l : Label} (hs : SInv cfg s)
    (h : JInv cfg s) (hst : StepRel cfg s l s') : JInv cfg s' := by
  cases hst with
  | submit q c k j P hP hk hj => exact JInv_submit wf h hP hk hj rfl rfl rfl
  | collect q c j ok P hP hm hjj hf =>
      unfold collectOne
      cases ok
      · simp only [Bool.false_eq_true, if_false]
        split
        · exact JInv_cancel h hs hP hm (P' := { P with collected := j :: P.collected, shutdown := true
                                                       owner := .join true, queue := [] })
            rfl rfl rfl rfl rfl rfl
        · exact JInv_set_pool wf h hs hP rfl rfl rfl rfl (by simp [nsub, hm])
            (fun _ => Or.inl rfl) (fun _ => rfl)
      · simp only [if_true]
        split
        · exact JInv_set_pool wf h hs hP rfl rfl rfl rfl (by simp [nsub, hm])
            (fun _ => Or.inl rfl) (fun _ => rfl)
        · exact JInv_set_pool wf h hs hP rfl rfl rfl rfl rfl (fun x => Or.inl x) (fun x => x)
  | joinRoot q c e P hP hm hex hpar =>
      exact JInv_set_pool wf h hs hP rfl rfl rfl rfl (by simp [nsub, hm]) (fun _ => Or.inr hpar)
        (fun x => x)
  | joinSub q c e P jp hP hm hex hpar => exact JInv_joinSub wf h hs hP hm hpar rfl rfl rfl
  | takeSerial q j rest P hP hq hidle hsub => exact JInv_takeSerial wf h hs hP hq hsub rfl rfl rfl
  | takeSub q j rest P q' hP hq hidle hsub => exact JInv_takeSub wf h hs hP hq hsub rfl rfl rfl
  | exit q P hP hq hsd hidle =>
      exact JInv_set_pool wf h hs hP rfl rfl rfl rfl rfl (fun x => Or.inl x) (fun x => x)
  | cbAcqIn i hi hl => exact JInv_set h hi rfl rfl rfl rfl
  | cbAcq i hi hl => exact JInv_set h hi rfl rfl rfl rfl
  | cbFail i hi hf =>
      exact JInv_finish wf (s := { s with log := s.log ++ [i], cbLock := false
                                          cbIn := if (cfg.pool (cfg.poolOf i)).innerCb
                                            then s.cbIn.set (cfg.poolOf i) false else s.cbIn
                                          tLocks := s.tLocks.set (cfg.obj i) false })
        (JInv_congr h rfl rfl (fun _ => rfl) (fun _ => rfl) (fun _ => rfl))
        (SInv_congr hs rfl rfl (by simp) rfl (by simp only; split <;> simp) (fun _ => rfl) (fun _ => rfl))
        false hi rfl
  | cbOk i hi hf => exact JInv_set h hi rfl rfl rfl rfl
  | tAcq i hi hl => exact JInv_set h hi (by simp) rfl rfl rfl
  | bTry i p hi hp' =>
      rcases budgetTry_cases cfg s i with ⟨_, _, e⟩ | ⟨_, _, e⟩ | ⟨_, _, e⟩ | ⟨_, _, e⟩ <;> rw [e] <;>
        exact JInv_set h hi rfl rfl rfl rfl
  | writeFail i hi hf => exact JInv_set h hi rfl rfl rfl rfl
  | writeOk i hi hf => exact JInv_set h hi rfl rfl rfl rfl
  | bRel i ok hi =>
      unfold budgetRelease
      refine JInv_finish wf (p := .bRel ok) ?_ ?_ ok (by simp [hi, wake]) rfl
      · exact JInv_congr (s := { s with tasks := s.tasks.map wake }) (JInv_wake h) rfl rfl
          (fun _ => rfl) (fun _ => rfl) (fun _ => rfl)
      · exact SInv_congr (s := { s with tasks := s.tasks.map wake }) (SInv_wake hs) rfl rfl
          (by simp) rfl rfl (fun _ => rfl) (fun _ => rfl)

/-! ### consumed futures, per pool -/

structure CInv (cfg : Cfg) (s : State) : Prop where
  nodup : ∀ q, (s.pl q).collected.Nodup
  mem : ∀ q j, j ∈ (s.pl q).collected → j ∈ (cfg.pool q).jobs
  len : ∀ q, (s.pl q).owner = .collect → (s.pl q).collected.length < (cfg.pool q).jobs.length
  sh : ∀ q, (cfg.pool q).asCompleted = false → ∀ j ∈ (s.pl q).collected,
    ∃ k, k < (s.pl q).collected.length ∧ (cfg.pool q).jobs[k]? = some j
  sub : ∀ q, ((s.pl q).owner = .notCreated ∨ ∃ k, (s.pl q).owner = .submit k) → (s.pl q).collected = []

theorem CInv_init (cfg : Cfg) : CInv cfg (init cfg) := by
  have hc : ∀ q, ((init cfg).pl q).collected = [] := by
    intro q; rw [init_pl]; split
    · unfold initPool; split <;> rfl
    · rfl
  refine ⟨fun q => by rw [hc]; simp, fun q j hj => by rw [hc] at hj; simp at hj, ?_,
    fun q _ j hj => by rw [hc] at hj; simp at hj, fun q _ => hc q⟩
  intro q hq
  exfalso
  rw [init_pl] at hq; split at hq
  · unfold initPool at hq; split at hq <;> simp at hq
  · simp at hq

/-- every pool keeps its `collected`; owners stay or leave `collect` / `submit` behind -/
theorem CInv_frame {cfg : Cfg} {s s' : State} (h : CInv cfg s)
    (hc : ∀ q, (s'.pl q).collected = (s.pl q).collected)
    (ho : ∀ q, (s'.pl q).owner = (s.pl q).owner ∨
      (∃ e, (s'.pl q).owner = .join e ∨ (s'.pl q).owner = .closed e)) : CInv cfg s' := by
  refine ⟨fun q => by rw [hc]; exact h.nodup q, fun q j hj => by rw [hc] at hj; exact h.mem q j hj,
    ?_, fun q ha j hj => by rw [hc] at hj ⊢; exact h.sh q ha j hj, ?_⟩
  · intro q hq
    rw [hc]
    rcases ho q with e | ⟨e, e1 | e1⟩
    · rw [e] at hq; exact h.len q hq
    · rw [e1] at hq; simp at hq
    · rw [e1] at hq; simp at hq
  · intro q hq
    rw [hc]
    rcases ho q with e | ⟨e, e1 | e1⟩
    · rw [e] at hq; exact h.sub q hq
    · rw [e1] at hq; simp at hq
    · rw [e1] at hq; simp at hq

theorem addIdle_collected (ps : List PoolSt) (q q' : Nat) :
    ((addIdle ps q).getD q' default).collected = (ps.getD q' default).collected := by
  rw [addIdle_get]; split
  · rename_i h; rw [h.1]
  · rfl

theorem finishTask_pl {cfg : Cfg} (s : State) (i : Nat) (ok : Bool) (q : Nat) :
    ((finishTask cfg s i ok).pl q).collected = (s.pl q).collected ∧
    ((finishTask cfg s i ok).pl q).owner = (s.pl q).owner := by
  rcases finishTask_cases cfg s i ok with ⟨_, _, e⟩ | ⟨_, e⟩ <;> rw [e]
  · exact ⟨rfl, rfl⟩
  · exact ⟨addIdle_collected _ _ _, addIdle_owner _ _ _⟩

theorem CInv_step {cfg : Cfg} (wf : WF cfg) {s s' : State} {l : Label} (hs : SInv cfg s)
    (hp : PInv cfg s) (h : CInv cfg s) (hst : StepRel cfg s l s') : CInv cfg s' := by
  have set1 : ∀ {q : Nat} {P P' : PoolSt}, s.pools[q]? = some P → P'.collected = P.collected →
      (P'.owner = P.owner ∨ ∃ e, P'.owner = .join e ∨ P'.owner = .closed e) →
      ∀ {s' : State}, s'.pools = s.pools.set q P' → CInv cfg s' := by
    intro q P P' hP hc ho s' hps
    have hplq := pl_of_get hP
    refine CInv_frame h (fun q' => ?_) (fun q' => ?_)
    · simp only [State.pl, hps]; rw [pl_upd hP]; split
      · rename_i e; subst e; rw [hc, ← hplq]; rfl
      · rfl
    · simp only [State.pl, hps]; rw [pl_upd hP]; split
      · rename_i e; subst e
        rcases ho with e1 | e1
        · left; rw [e1, ← hplq]; rfl
        · right; exact e1
      · left; rfl
  cases hst with
  | submit q c k j P hP hk hj =>
      have hplq := pl_of_get hP
      have hcol : P.collected = [] := by
        have := h.sub q (Or.inr ⟨k, by rw [hplq]; exact hk⟩); rw [hplq] at this; exact this
      have hpl : ∀ q', ({ s with pools := s.pools.set q ({ P with
          queue := P.queue ++ [j]
          owner := if k + 1 < (cfg.pool q).jobs.length then .submit (k + 1) else .collect } : PoolSt) } : State).pl q'
          = if q' = q then ({ P with
          queue := P.queue ++ [j]
          owner := if k + 1 < (cfg.pool q).jobs.length then .submit (k + 1) else .collect } : PoolSt)
          else s.pl q' := fun q' => pl_upd hP q'
      have hklt := getElem?_lt hj
      refine ⟨fun q' => ?_, fun q' j' hj' => ?_, fun q' hq' => ?_, fun q' ha j' hj' => ?_, fun q' _ => ?_⟩
      · rw [hpl]; split
        · simp [hcol]
        · exact h.nodup q'
      · rw [hpl] at hj'; split at hj'
        · simp [hcol] at hj'
        · exact h.mem q' j' hj'
      · rw [hpl] at hq' ⊢; split at hq'
        · rename_i e; subst e; simp only [if_true, hcol]; simp; omega
        · rename_i e; simp only [e, if_false]; exact h.len q' hq'
      · rw [hpl] at hj' ⊢; split at hj'
        · simp [hcol] at hj'
        · rename_i e; simp only [e, if_false]; exact h.sh q' ha j' hj'
      · rw [hpl]; split
        · exact hcol
        · rename_i e
          rename_i hq'
          rw [hpl] at hq'; simp only [e, if_false] at hq'; exact h.sub q' hq'
  | collect q c j ok P hP hm hjj hf =>
      have hplq := pl_of_get hP
      have hlen := h.len q (by rw [hplq]; exact hm)
      have hnd := h.nodup q
      have hmem := h.mem q
      have hsh := h.sh q
      rw [hplq] at hlen hnd hmem hsh
      have hjmem : j ∈ (cfg.pool q).jobs := by
        rcases hjj with ⟨_, _, _, hc⟩ | ⟨_, hc⟩
        · simpa using hc
        · exact List.mem_of_getElem? hc
      have hjn : j ∉ P.collected := by
        rcases hjj with ⟨_, _, hc, _⟩ | ⟨ha, hje⟩
        · simpa using hc
        · intro hin
          obtain ⟨k, hk, hk2⟩ := hsh ha j hin
          have := nodup_get_inj (wf.jobs_nodup q) hk2 hje
          omega
      -- the new `collected` of pool q, whatever the owner becomes
      have key : ∀ {P' : PoolSt} {s' : State}, P'.collected = j :: P.collected →
          (P'.owner = .collect → (j :: P.collected).length < (cfg.pool q).jobs.length) →
          ((P'.owner = .notCreated ∨ ∃ k, P'.owner = .submit k) → False) →
          s'.pools = s.pools.set q P' → CInv cfg s' := by
        intro P' s' hc hl hns hps
        have hpl : ∀ q', s'.pl q' = if q' = q then P' else s.pl q' := by
          intro q'; simp only [State.pl, hps]; exact pl_upd hP q'
        refine ⟨fun q' => ?_, fun q' j' hj' => ?_, fun q' hq' => ?_, fun q' ha j' hj' => ?_,
          fun q' hq' => ?_⟩
        · rw [hpl]; split
          · rw [hc]; exact List.nodup_cons.2 ⟨hjn, hnd⟩
          · exact h.nodup q'
        · rw [hpl] at hj'; split at hj'
          · rename_i e; subst e
            rw [hc] at hj'; simp at hj'
            rcases hj' with rfl | hj'
            · exact hjmem
            · exact hmem j' hj'
          · exact h.mem q' j' hj'
        · rw [hpl] at hq' ⊢; split at hq'
          · rename_i e; subst e; simp only [if_true]; rw [hc]; exact hl hq'
          · rename_i e; simp only [e, if_false]; exact h.len q' hq'
        · rw [hpl] at hj' ⊢; split at hj'
          · rename_i e; subst e
            simp only [if_true]
            rw [hc] at hj' ⊢
            simp at hj'
            rcases hj' with rfl | hj'
            · rcases hjj with ⟨ha', _⟩ | ⟨_, hje⟩
              · rw [ha] at ha'; simp at ha'
              · exact ⟨P.collected.length, by simp, hje⟩
            · obtain ⟨k, hk, hk2⟩ := hsh ha j' hj'
              exact ⟨k, by simp; omega, hk2⟩
          · rename_i e; simp only [e, if_false]; exact h.sh q' ha j' hj'
        · rw [hpl] at hq' ⊢; split at hq'
          · exact absurd hq' hns
          · rename_i e; simp only [e, if_false]; exact h.sub q' hq'
      unfold collectOne
      cases ok
      · simp only [Bool.false_eq_true, if_false]
        split
        · exact key (P' := { P with collected := j :: P.collected, shutdown := true
                                    owner := .join true, queue := [] }) rfl (by simp) (by simp) rfl
        · exact key (P' := { P with collected := j :: P.collected, shutdown := true, owner := .join true })
            rfl (by simp) (by simp) rfl
      · simp only [if_true]
        split
        · exact key (P' := { P with collected := j :: P.collected, shutdown := true, owner := .join false })
            rfl (by simp) (by simp) rfl
        · rename_i hl
          refine key (P' := { P with collected := j :: P.collected }) rfl (fun _ => ?_) (by simp [hm]) rfl
          simp at hl ⊢; omega
  | joinRoot q c e P hP hm hex hpar =>
      exact set1 (P' := { P with owner := .closed e }) hP rfl (Or.inr ⟨e, Or.inr rfl⟩) rfl
  | joinSub q c e P jp hP hm hex hpar =>
      have hplq := pl_of_get hP
      refine CInv_frame h (fun q' => ?_) (fun q' => ?_)
      · simp only [State.pl]
        rw [addIdle_collected, pl_upd hP]; split
        · rename_i e1; subst e1; rw [← hplq]; rfl
        · rfl
      · simp only [State.pl]
        rw [addIdle_owner, pl_upd hP]; split
        · right; exact ⟨e, Or.inr rfl⟩
        · left; rfl
  | takeSerial q j rest P hP hq hidle hsub =>
      exact set1 (P' := { P with queue := rest, idle := P.idle - 1 }) hP rfl (Or.inl rfl) rfl
  | takeSub q j rest P q' hP hq hidle hsub =>
      have hplq := pl_of_get hP
      obtain ⟨_, _, hpj, hpool, hjl, hncP, _, _⟩ := take_facts wf hs hP hq
      obtain ⟨hq'l, hpar, hlt⟩ := wf.sub_pool j q' hjl hsub
      have hqq : q' ≠ q := by rw [hpool] at hlt; omega
      have hfr : (s.pl q').owner = .notCreated := by
        cases ho : (s.pl q').owner with
        | notCreated => rfl
        | _ => exact absurd hpj (hs.created q' j hpar (by rw [ho]; simp))
      have hcol := (hp.fresh0 q' hfr).2.2.2
      have hq'len : q' < (s.pools.set q { P with queue := rest, idle := P.idle - 1 }).length := by
        simp [hs.pools_len]; exact hq'l
      have hpl : ∀ q'', ({ s with
            pools := createPool cfg (s.pools.set q { P with queue := rest, idle := P.idle - 1 }) q'
            futs := s.futs.set j .running } : State).pl q'' =
          if q'' = q' then { s.pl q' with owner := .submit 0, idle := (cfg.pool q').size }
          else if q'' = q then { P with queue := rest, idle := P.idle - 1 } else s.pl q'' := by
        intro q''
        simp only [State.pl, createPool_get]
        by_cases e : q'' = q'
        · subst e
          simp only [hq'len, and_self, if_true]
          rw [pl_upd hP q'']; simp [hqq, State.pl]
        · simp only [e, false_and, if_false]
          exact pl_upd hP q''
      refine ⟨fun q'' => ?_, fun q'' j' hj' => ?_, fun q'' hq'' => ?_, fun q'' ha j' hj' => ?_,
        fun q'' hq'' => ?_⟩
      · rw [hpl]; split
        · simp [hcol]
        · split
          · have := h.nodup q; rw [hplq] at this; exact this
          · exact h.nodup q''
      · rw [hpl] at hj'; split at hj'
        · simp [hcol] at hj'
        · split at hj'
          · rename_i _ e; subst e; have := h.mem q'' j'; rw [hplq] at this; exact this hj'
          · exact h.mem q'' j' hj'
      · rw [hpl] at hq'' ⊢; split at hq''
        · simp at hq''
        · rename_i e1; simp only [e1, if_false]
          split at hq''
          · rename_i e; subst e; simp only [if_true]
            have := h.len q''; rw [hplq] at this; exact this hq''
          · rename_i e; simp only [e, if_false]; exact h.len q'' hq''
      · rw [hpl] at hj' ⊢; split at hj'
        · simp [hcol] at hj'
        · rename_i e1; simp only [e1, if_false]
          split at hj'
          · rename_i e; subst e; simp only [if_true]
            have := h.sh q'' ha; rw [hplq] at this; exact this j' hj'
          · rename_i e; simp only [e, if_false]; exact h.sh q'' ha j' hj'
      · rw [hpl] at hq'' ⊢; split at hq''
        · rename_i e1; simp only [e1, if_true]; exact hcol
        · rename_i e1; simp only [e1, if_false]
          split at hq''
          · rename_i e; subst e; simp only [if_true]
            have := h.sub q''; rw [hplq] at this; exact this hq''
          · rename_i e; simp only [e, if_false]; exact h.sub q'' hq''
  | exit q P hP hq hsd hidle =>
      exact set1 (P' := { P with idle := P.idle - 1, exited := P.exited + 1 }) hP rfl (Or.inl rfl) rfl
  | cbAcqIn i hi hl => exact CInv_frame h (fun _ => rfl) (fun _ => Or.inl rfl)
  | cbAcq i hi hl => exact CInv_frame h (fun _ => rfl) (fun _ => Or.inl rfl)
  | cbFail i hi hf =>
      exact CInv_frame h (fun q => (finishTask_pl _ i false q).1) (fun q => Or.inl (finishTask_pl _ i false q).2)
  | cbOk i hi hf => exact CInv_frame h (fun _ => rfl) (fun _ => Or.inl rfl)
  | tAcq i hi hl => exact CInv_frame h (fun _ => rfl) (fun _ => Or.inl rfl)
  | bTry i p hi hp' =>
      rcases budgetTry_cases cfg s i with ⟨_, _, e⟩ | ⟨_, _, e⟩ | ⟨_, _, e⟩ | ⟨_, _, e⟩ <;> rw [e] <;>
        exact CInv_frame h (fun _ => rfl) (fun _ => Or.inl rfl)
  | writeFail i hi hf => exact CInv_frame h (fun _ => rfl) (fun _ => Or.inl rfl)
  | writeOk i hi hf => exact CInv_frame h (fun _ => rfl) (fun _ => Or.inl rfl)
  | bRel i ok hi =>
      unfold budgetRelease
      exact CInv_frame h (fun q => (finishTask_pl _ i ok q).1) (fun q => Or.inl (finishTask_pl _ i ok q).2)

end IrVerif.WriterN

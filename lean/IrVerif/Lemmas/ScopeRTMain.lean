/-
Round trip: the mutual induction.  `deserGraph` run on the proto that `serGraph` writes for a
serializable graph succeeds and returns the same tree up to a renaming of the values.
-/
import IrVerif.Lemmas.ScopeVI
namespace IrVerif.Scope

/-! ### inversion of the serializer -/

/-- the tensor written for an initializer -/
def mkT (V : Nat → ValueS) (td : TData) (kv : Name × Nat) : TensorP :=
  match (V kv.2).const with
  | some t => ⟨nm V kv.2, (td t).1, (td t).2.1, (td t).2.2⟩
  | none => ⟨nm V kv.2, "", "", ""⟩

theorem serInits_tensors (V : Nat → ValueS) (td : TData) (inames : List (Option Name)) :
    ∀ (its : List (Name × Nat)), (∀ kv ∈ its, (V kv.2).const ≠ none) →
      (serInits V td inames its).2.1 = its.map (mkT V td) := by
  intro its
  induction its with
  | nil => intro _; rfl
  | cons kv its ih =>
    obtain ⟨k, v⟩ := kv
    intro h
    have hc := h (k, v) (by simp)
    have ih' := ih (fun kv hkv => h kv (by simp [hkv]))
    simp only [serInits, List.map_cons]
    cases hcv : (V v).const with
    | none => exact absurd hcv hc
    | some t => simp [mkT, hcv, ih', nm]

theorem serGraph_inv {V : Nat → ValueS} {td : TData} {gid : Nat} {ins : List Nat} {inits : List (Name × Nat)}
    {nodes : List NodeT} {outs : List Nat} {p : GraphP} {ws : Writes}
    (h : serGraph V td (.mk gid ins inits nodes outs) = .ok (p, ws)) :
    ∃ nps vis2 ws2, serNodes V td outs nodes = .ok (nps, vis2, ws2) ∧
      p = .mk (ins.map (viOf V)) (serInits V td (ins.map fun v => (V v).name) inits).2.1
        ((serInits V td (ins.map fun v => (V v).name) inits).1 ++ vis2) nps (outs.map (viOf V)) := by
  simp only [serGraph] at h
  split at h
  · simp at h
  · rename_i insP hi
    split at h
    · simp at h
    · rename_i nps vis2 ws2 hn
      split at h
      · simp at h
      · rename_i outsP ho
        simp only [Except.ok.injEq, Prod.mk.injEq] at h
        obtain ⟨rfl, _⟩ := h
        rw [(serValues_ok hi).1, (serValues_ok ho).1]
        exact ⟨nps, vis2, ws2, hn, rfl⟩

theorem serNodes_inv {V : Nat → ValueS} {td : TData} {go : List Nat} {n : NodeT} {ns : List NodeT}
    {nps : List NodeP} {vis : List VInfoP} {ws : Writes} (h : serNodes V td go (n :: ns) = .ok (nps, vis, ws)) :
    ∃ np vi1 ws1 nps' vis' ws2, serNode V td go n = .ok (np, vi1, ws1) ∧
      serNodes V td go ns = .ok (nps', vis', ws2) ∧ nps = np :: nps' := by
  simp only [serNodes] at h
  split at h
  · simp at h
  · rename_i np vi1 ws1 h1
    split at h
    · simp at h
    · rename_i nps' vis' ws2 h2
      simp only [Except.ok.injEq, Prod.mk.injEq] at h
      obtain ⟨rfl, _, _⟩ := h
      exact ⟨np, vi1, ws1, nps', vis', ws2, h1, h2, rfl⟩

theorem serNode_inv {V : Nat → ValueS} {td : TData} {go : List Nat} {i : Nat} {g : Option Nat}
    {ins : List (Option Nat)} {outs : List Nat} {subs : List GraphT} {np : NodeP} {vi : List VInfoP} {ws : Writes}
    (h : serNode V td go (.mk i g ins outs subs) = .ok (np, vi, ws)) :
    ∃ gps ws', serSubs V td subs = .ok (gps, ws') ∧
      np = .mk (ins.map (inName V)) ((stripTrailing V outs).map (nm V)) gps ∧ vi = outVInfo V go outs := by
  simp only [serNode] at h
  split at h
  · simp at h
  · rename_i insN hi
    split at h
    · simp at h
    · rename_i outsN ho
      split at h
      · simp at h
      · rename_i gps ws' hs
        simp only [Except.ok.injEq, Prod.mk.injEq] at h
        obtain ⟨rfl, rfl, _⟩ := h
        rw [(serInputs_ok hi).1, (serOutNames_ok ho).1]
        exact ⟨gps, ws', hs, rfl, rfl⟩

theorem serSubs_inv {V : Nat → ValueS} {td : TData} {g : GraphT} {gs : List GraphT} {gps : List GraphP}
    {ws : Writes} (h : serSubs V td (g :: gs) = .ok (gps, ws)) :
    ∃ gp ws1 gps' ws2, serGraph V td g = .ok (gp, ws1) ∧ serSubs V td gs = .ok (gps', ws2) ∧ gps = gp :: gps' := by
  simp only [serSubs] at h
  split at h
  · simp at h
  · rename_i gp ws1 h1
    split at h
    · simp at h
    · rename_i gps' ws2 h2
      simp only [Except.ok.injEq, Prod.mk.injEq] at h
      obtain ⟨rfl, _⟩ := h
      exact ⟨gp, ws1, gps', ws2, h1, h2, rfl⟩

/-! ### the tree relation along a run -/

mutual
/-- `g'` is `g` renamed by the association `A`, and every value of `g` has an image -/
def TreeRelG (V : Nat → ValueS) (A : Assoc) : GraphT → GraphT → Prop
  | .mk _ ins inits nodes outs, .mk _ ins' inits' nodes' outs' =>
    ins' = ins.map (sig A) ∧ (∀ v ∈ ins, v ∈ A.map (·.1)) ∧
    inits' = inits.map (fun kv => (kv.1, sig A kv.2)) ∧ (∀ kv ∈ inits, kv.2 ∈ A.map (·.1)) ∧
    TreeRelNs V A nodes nodes' ∧ outs' = outs.map (sig A) ∧ (∀ v ∈ outs, v ∈ A.map (·.1))
def TreeRelNs (V : Nat → ValueS) (A : Assoc) : List NodeT → List NodeT → Prop
  | [], [] => True
  | n :: ns, n' :: ns' => TreeRelN V A n n' ∧ TreeRelNs V A ns ns'
  | _, _ => False
def TreeRelN (V : Nat → ValueS) (A : Assoc) : NodeT → NodeT → Prop
  | .mk _ _ ins outs subs, .mk _ _ ins' outs' subs' =>
    ins' = ins.map (Option.map (sig A)) ∧ (∀ v, some v ∈ ins → v ∈ A.map (·.1)) ∧
    outs' = (stripTrailing V outs).map (sig A) ∧ (∀ v ∈ stripTrailing V outs, v ∈ A.map (·.1)) ∧
    TreeRelGs V A subs subs'
def TreeRelGs (V : Nat → ValueS) (A : Assoc) : List GraphT → List GraphT → Prop
  | [], [] => True
  | g :: gs, g' :: gs' => TreeRelG V A g g' ∧ TreeRelGs V A gs gs'
  | _, _ => False
end

theorem map_sig_append {A B : Assoc} {vs : List Nat} (h : ∀ v ∈ vs, v ∈ A.map (·.1)) :
    vs.map (sig (A ++ B)) = vs.map (sig A) :=
  List.map_congr_left (fun v hv => sig_append_of_mem (h v hv))

theorem mem_keys_append {A B : Assoc} {v : Nat} (h : v ∈ A.map (·.1)) : v ∈ (A ++ B).map (·.1) := by
  simp [h]

mutual
theorem TreeRelG.mono (V : Nat → ValueS) (A B : Assoc) :
    ∀ (g g' : GraphT), TreeRelG V A g g' → TreeRelG V (A ++ B) g g'
  | .mk _ ins inits nodes outs, .mk _ ins' inits' nodes' outs', h => by
    simp only [TreeRelG] at h ⊢
    obtain ⟨h1, h2, h3, h4, h5, h6, h7⟩ := h
    refine ⟨by rw [h1, map_sig_append h2], fun v hv => mem_keys_append (h2 v hv), ?_,
      fun kv hkv => mem_keys_append (h4 kv hkv), TreeRelNs.mono V A B nodes nodes' h5,
      by rw [h6, map_sig_append h7], fun v hv => mem_keys_append (h7 v hv)⟩
    rw [h3]
    exact List.map_congr_left (fun kv hkv => by rw [sig_append_of_mem (h4 kv hkv)])
theorem TreeRelNs.mono (V : Nat → ValueS) (A B : Assoc) :
    ∀ (ns ns' : List NodeT), TreeRelNs V A ns ns' → TreeRelNs V (A ++ B) ns ns'
  | [], [], _ => by simp [TreeRelNs]
  | n :: ns, n' :: ns', h => by
    simp only [TreeRelNs] at h ⊢
    exact ⟨TreeRelN.mono V A B n n' h.1, TreeRelNs.mono V A B ns ns' h.2⟩
  | [], _ :: _, h => by simp [TreeRelNs] at h
  | _ :: _, [], h => by simp [TreeRelNs] at h
theorem TreeRelN.mono (V : Nat → ValueS) (A B : Assoc) :
    ∀ (n n' : NodeT), TreeRelN V A n n' → TreeRelN V (A ++ B) n n'
  | .mk _ _ ins outs subs, .mk _ _ ins' outs' subs', h => by
    simp only [TreeRelN] at h ⊢
    obtain ⟨h1, h2, h3, h4, h5⟩ := h
    refine ⟨?_, fun v hv => mem_keys_append (h2 v hv), by rw [h3, map_sig_append h4],
      fun v hv => mem_keys_append (h4 v hv), TreeRelGs.mono V A B subs subs' h5⟩
    rw [h1]
    apply List.map_congr_left
    intro o ho
    cases o with
    | none => rfl
    | some v => simp [sig_append_of_mem (h2 v ho)]
theorem TreeRelGs.mono (V : Nat → ValueS) (A B : Assoc) :
    ∀ (gs gs' : List GraphT), TreeRelGs V A gs gs' → TreeRelGs V (A ++ B) gs gs'
  | [], [], _ => by simp [TreeRelGs]
  | g :: gs, g' :: gs', h => by
    simp only [TreeRelGs] at h ⊢
    exact ⟨TreeRelG.mono V A B g g' h.1, TreeRelGs.mono V A B gs gs' h.2⟩
  | [], _ :: _, h => by simp [TreeRelGs] at h
  | _ :: _, [], h => by simp [TreeRelGs] at h
end

mutual
theorem TreeRelG.iso (V : Nat → ValueS) (A : Assoc) :
    ∀ (g g' : GraphT), TreeRelG V A g g' → TreeIsoG V (sig A) g g'
  | .mk _ ins inits nodes outs, .mk _ ins' inits' nodes' outs', h => by
    simp only [TreeRelG] at h
    simp only [TreeIsoG]
    exact ⟨h.1, h.2.2.1, TreeRelNs.iso V A nodes nodes' h.2.2.2.2.1, h.2.2.2.2.2.1⟩
theorem TreeRelNs.iso (V : Nat → ValueS) (A : Assoc) :
    ∀ (ns ns' : List NodeT), TreeRelNs V A ns ns' → TreeIsoNs V (sig A) ns ns'
  | [], [], _ => by simp [TreeIsoNs]
  | n :: ns, n' :: ns', h => by
    simp only [TreeRelNs] at h
    simp only [TreeIsoNs]
    exact ⟨TreeRelN.iso V A n n' h.1, TreeRelNs.iso V A ns ns' h.2⟩
  | [], _ :: _, h => by simp [TreeRelNs] at h
  | _ :: _, [], h => by simp [TreeRelNs] at h
theorem TreeRelN.iso (V : Nat → ValueS) (A : Assoc) :
    ∀ (n n' : NodeT), TreeRelN V A n n' → TreeIsoN V (sig A) n n'
  | .mk _ _ ins outs subs, .mk _ _ ins' outs' subs', h => by
    simp only [TreeRelN] at h
    simp only [TreeIsoN]
    exact ⟨h.1, h.2.2.1, TreeRelGs.iso V A subs subs' h.2.2.2.2⟩
theorem TreeRelGs.iso (V : Nat → ValueS) (A : Assoc) :
    ∀ (gs gs' : List GraphT), TreeRelGs V A gs gs' → TreeIsoGs V (sig A) gs gs'
  | [], [], _ => by simp [TreeIsoGs]
  | g :: gs, g' :: gs', h => by
    simp only [TreeRelGs] at h
    simp only [TreeIsoGs]
    exact ⟨TreeRelG.iso V A g g' h.1, TreeRelGs.iso V A gs gs' h.2⟩
  | [], _ :: _, h => by simp [TreeRelGs] at h
  | _ :: _, [], h => by simp [TreeRelGs] at h
end

theorem TreeRelNs_setGraph (V : Nat → ValueS) (A : Assoc) (gid : Nat) :
    ∀ (ns ns' : List NodeT), TreeRelNs V A ns ns' → TreeRelNs V A ns (ns'.map (NodeT.setGraph gid))
  | [], [], _ => by simp [TreeRelNs]
  | n :: ns, n' :: ns', h => by
    simp only [TreeRelNs, List.map_cons] at h ⊢
    refine ⟨?_, TreeRelNs_setGraph V A gid ns ns' h.2⟩
    obtain ⟨i, g, a, b, c⟩ := n
    obtain ⟨i', g', a', b', c'⟩ := n'
    simpa [TreeRelN, NodeT.setGraph] using h.1
  | [], _ :: _, h => by simp [TreeRelNs] at h
  | _ :: _, [], h => by simp [TreeRelNs] at h

/-! ### the lock-step induction -/

theorem levels_extend (V : Nat → ValueS) (A B : Assoc) (Ds : List (List Nat))
    (h : ∀ v ∈ Ds.flatten, nameTruthy (V v).name = true → v ∈ A.map (·.1)) :
    Ds.map (tableOf V (A ++ B)) = Ds.map (tableOf V A) := by
  apply List.map_congr_left
  intro D hD
  exact tableOf_extend' V A B D (fun v hv ht => h v (List.mem_flatten.mpr ⟨D, hD, hv⟩) ht)

theorem SerNs_mem (V : Nat → ValueS) (vis gouts : List Nat) :
    ∀ (nodes : List NodeT), SerNs V vis gouts nodes → ∀ n ∈ nodes, SerN V vis gouts n
  | [], _, n, hn => by simp at hn
  | m :: ms, h, n, hn => by
    simp only [SerNs] at h
    simp only [List.mem_cons] at hn
    rcases hn with rfl | hn
    · exact h.1
    · exact SerNs_mem V vis gouts ms h.2 n hn

theorem serNodes_outputs (V : Nat → ValueS) (td : TData) (go : List Nat) :
    ∀ (nodes : List NodeT) (nps : List NodeP) (vis : List VInfoP) (ws : Writes),
      serNodes V td go nodes = .ok (nps, vis, ws) →
      nps.map NodeP.outputs = nodes.map (fun n => (liveOuts V n).map (nm V))
  | [], nps, vis, ws, h => by
    simp only [serNodes, Except.ok.injEq, Prod.mk.injEq] at h
    obtain ⟨rfl, _, _⟩ := h
    rfl
  | n :: ns, nps, vis, ws, h => by
    obtain ⟨np, vi1, ws1, nps', vis', ws2, h1, h2, rfl⟩ := serNodes_inv h
    obtain ⟨i, g, a, b, c⟩ := n
    obtain ⟨gps, ws', _, rfl, _⟩ := serNode_inv h1
    simp only [List.map_cons, NodeP.outputs, liveOuts, serNodes_outputs V td go ns nps' vis' ws2 h2]

theorem ne_none_of_truthy {V : Nat → ValueS} {v : Nat} (h : nameTruthy (V v).name = true) : (V v).name ≠ none := by
  rw [(name_some_of_truthy h).1]; simp

theorem inits_key_inj {inits : List (Name × Nat)} (hk : (inits.map (·.1)).Nodup) {a b : Name × Nat}
    (ha : a ∈ inits) (hb : b ∈ inits) (h : a.1 = b.1) : a = b := by
  induction inits with
  | nil => simp at ha
  | cons e r ih =>
    simp only [List.map_cons, List.nodup_cons, List.mem_map, not_exists, not_and] at hk
    simp only [List.mem_cons] at ha hb
    rcases ha with rfl | ha <;> rcases hb with rfl | hb
    · rfl
    · exact absurd h.symm (hk.1 b hb)
    · exact absurd h (hk.1 a ha)
    · exact ih hk.2 ha hb

/-- the round-tripped cells of the values `L` carry the serializable information of the source -/
def InfoOK (V : Nat → ValueS) (s : Store) (A : Assoc) (L : List Nat) : Prop :=
  ∀ v ∈ L, (s.vals (sig A v)).info = (V v).info.emit

/-- the round-tripped initializers `I` carry a tensor named after them with the source payload -/
def ConstOK (V : Nat → ValueS) (td : TData) (s : Store) (A : Assoc) (I : List (Name × Nat)) : Prop :=
  ∀ kv ∈ I, ∀ t, (V kv.2).const = some t →
    ∃ t', (s.vals (sig A kv.2)).const = some t' ∧ t' < s.nt ∧ (s.tens t').name = some kv.1 ∧ s.tdata t' = td t

theorem InfoOK.step {V : Nat → ValueS} {s s' : Store} {A B : Assoc} {L : List Nat} (h : InfoOK V s A L)
    (hk : ∀ v ∈ L, v ∈ A.map (·.1)) (hrs : RS V s A) (hp : Prim s.nv s s') : InfoOK V s' (A ++ B) L := by
  intro v hv
  rw [sig_append_of_mem (hk v hv), (hp.cell _ (hrs.sig_lt (hk v hv))).1]
  exact h v hv

theorem ConstOK.step {V : Nat → ValueS} {td : TData} {s s' : Store} {A B : Assoc} {I : List (Name × Nat)}
    (h : ConstOK V td s A I) (hk : ∀ kv ∈ I, kv.2 ∈ A.map (·.1)) (hrs : RS V s A) (hp : Prim s.nv s s') :
    ConstOK V td s' (A ++ B) I := by
  intro kv hkv t ht
  obtain ⟨t', h1, h2, h3, h4⟩ := h kv hkv t ht
  refine ⟨t', ?_, Nat.lt_of_lt_of_le h2 hp.nt_le, ?_, ?_⟩
  · rw [sig_append_of_mem (hk kv hkv), (hp.cell _ (hrs.sig_lt (hk kv hkv))).2]; exact h1
  · rw [hp.tens t' h2]; exact h3
  · simp only [Store.tdata] at h4 ⊢
    rw [hp.tens t' h2]; exact h4

theorem InfoOK.prim {V : Nat → ValueS} {s s' : Store} {A : Assoc} {L : List Nat} (h : InfoOK V s A L)
    (hk : ∀ v ∈ L, v ∈ A.map (·.1)) (hrs : RS V s A) (hp : Prim s.nv s s') : InfoOK V s' A L := by
  have := h.step (B := []) hk hrs hp
  simpa using this

theorem ConstOK.prim {V : Nat → ValueS} {td : TData} {s s' : Store} {A : Assoc} {I : List (Name × Nat)}
    (h : ConstOK V td s A I) (hk : ∀ kv ∈ I, kv.2 ∈ A.map (·.1)) (hrs : RS V s A) (hp : Prim s.nv s s') :
    ConstOK V td s' A I := by
  have := h.step (B := []) hk hrs hp
  simpa using this

mutual
theorem allInits_sub_allDefsG (V : Nat → ValueS) :
    ∀ (g : GraphT), ∀ kv ∈ allInitsG g, kv.2 ∈ allDefsG V g
  | .mk i ins inits nodes outs, kv, h => by
    simp only [allInitsG, List.mem_append] at h
    simp only [allDefsG, defsOf, List.mem_append]
    rcases h with h | h
    · by_cases hi : kv.2 ∈ ins
      · exact .inl (.inl (.inl hi))
      · refine .inl (.inl (.inr ?_))
        simp only [List.mem_filter, List.mem_map]
        exact ⟨⟨kv, h, rfl⟩, by simpa using hi⟩
    · exact .inr (allInits_sub_allDefsNs V nodes kv h)
theorem allInits_sub_allDefsNs (V : Nat → ValueS) :
    ∀ (ns : List NodeT), ∀ kv ∈ allInitsNs ns, kv.2 ∈ allDefsNs V ns
  | [], kv, h => by simp [allInitsNs] at h
  | n :: ns, kv, h => by
    simp only [allInitsNs, List.mem_append] at h
    simp only [allDefsNs, List.mem_append]
    rcases h with h | h
    · exact .inl (allInits_sub_allDefsN V n kv h)
    · exact .inr (allInits_sub_allDefsNs V ns kv h)
theorem allInits_sub_allDefsN (V : Nat → ValueS) :
    ∀ (n : NodeT), ∀ kv ∈ allInitsN n, kv.2 ∈ allDefsN V n
  | .mk _ _ _ _ subs, kv, h => by
    simp only [allInitsN] at h
    simp only [allDefsN]
    exact allInits_sub_allDefsGs V subs kv h
theorem allInits_sub_allDefsGs (V : Nat → ValueS) :
    ∀ (gs : List GraphT), ∀ kv ∈ allInitsGs gs, kv.2 ∈ allDefsGs V gs
  | [], kv, h => by simp [allInitsGs] at h
  | g :: gs, kv, h => by
    simp only [allInitsGs, List.mem_append] at h
    simp only [allDefsGs, List.mem_append]
    rcases h with h | h
    · exact .inl (allInits_sub_allDefsG V g kv h)
    · exact .inr (allInits_sub_allDefsGs V gs kv h)
end

theorem tablesLt_of_RS {V : Nat → ValueS} {s : Store} {A : Assoc} (hrs : RS V s A) (Ds : List (List Nat))
    (hvis : ∀ v ∈ Ds.flatten, nameTruthy (V v).name = true → v ∈ A.map (·.1)) :
    TablesLt s (Ds.map (tableOf V A)) := by
  intro T hT e he
  simp only [List.mem_map] at hT
  obtain ⟨D, hD, rfl⟩ := hT
  obtain ⟨v, hv, ht, rfl⟩ := tableOf_mem V A D e he
  exact hrs.sig_lt (hvis v (List.mem_flatten.mpr ⟨D, hD, hv⟩) ht)

theorem emit_falsy_out {i : Info} (h1 : i.ty = none) (h2 : i.doc = none) : ({} : Info) = i.emit := by
  cases i with
  | mk ty sh doc => simp only at h1 h2; subst h1; subst h2; simp [Info.emit]

mutual
theorem rt_graph (V : Nat → ValueS) (td : TData) :
    ∀ (g : GraphT) (s : Store) (A : Assoc) (Ds : List (List Nat)) (p : GraphP) (ws : Writes),
      serGraph V td g = .ok (p, ws) → SerG V Ds.flatten g → InfoG V g → (allDefsG V g).Nodup →
      (∀ v ∈ allDefsG V g, v ∉ A.map (·.1)) →
      (∀ v ∈ Ds.flatten, nameTruthy (V v).name = true → v ∈ A.map (·.1)) → NamesUnique V Ds.flatten →
      RS V s A → Fresh s →
      ∃ (s' : Store) (g' : GraphT) (B : Assoc),
        deserGraph s (Ds.map (tableOf V A)) p = .ok (s', g') ∧ RS V s' (A ++ B) ∧ s.nv ≤ s'.nv ∧
        (∀ v, v ∈ B.map (·.1) ↔ v ∈ allDefsG V g) ∧ TreeRelG V (A ++ B) g g' ∧
        Fresh s' ∧ Prim s.nv s s' ∧ InfoOK V s' (A ++ B) (allDefsG V g) ∧
        ConstOK V td s' (A ++ B) (allInitsG g)
  | .mk gid ins inits nodes outs, s, A, Ds, p, ws, hser, hS, hI, hnd, hnew, hvis, _, hrs, hfr => by
    obtain ⟨nps, vis2, ws2, hn, rfl⟩ := serGraph_inv hser
    simp only [SerG] at hS
    obtain ⟨hDod, hu, hins_t, hinits, hkn, hvn, houts, hSN⟩ := hS
    simp only [InfoG] at hI
    obtain ⟨hIinit, hIN⟩ := hI
    have hD : defsOf V (.mk gid ins inits nodes outs) = ins ++ newInits ins inits ++ nodes.flatMap (liveOuts V) := rfl
    simp only [allDefsG] at hnd hnew
    rw [hD] at hnd hnew hDod hu houts hSN
    rw [List.nodup_append] at hnd
    obtain ⟨hndD, hndN, hdisj⟩ := hnd
    rw [List.nodup_append] at hndD
    obtain ⟨hndII, hndL, hdisjL⟩ := hndD
    rw [List.nodup_append] at hndII
    obtain ⟨hndI, hndNI, hdisjI⟩ := hndII
    have newA : ∀ v, v ∈ ins ∨ v ∈ newInits ins inits ∨ v ∈ nodes.flatMap (liveOuts V) → v ∉ A.map (·.1) :=
      fun v hv => hnew v (by
        simp only [List.mem_append]
        rcases hv with hv | hv | hv
        · exact .inl (.inl (.inl hv))
        · exact .inl (.inl (.inr hv))
        · exact .inl (.inr hv))
    -- the value_info list of the proto and what a lookup in it returns
    have hvis1 := mem_serInits_vi V td (ins.map fun v => (V v).name)
    have hvis2 := fun e => mem_serNodes_vi V td outs e nodes nps vis2 ws2 hn
    generalize hLdef : (serInits V td (ins.map fun v => (V v).name) inits).1 ++ vis2 = L at *
    generalize hvi : vinfoTable L = vi
    -- phase 1: inputs
    have hins_n : ∀ v ∈ ins, (V v).name ≠ none := fun v hv => ne_none_of_truthy (hins_t v hv)
    obtain ⟨r1, hi1⟩ := rt_inputs V ins s A hrs hndI (fun v hv => newA v (.inl hv)) hins_n
    obtain ⟨q1, hnv1, hids⟩ := deserInputs_spec s (ins.map (viOf V))
    simp only [List.length_map] at hids hnv1
    have p1 := deserInputs_prim s.nv (ins.map (viOf V)) s (Nat.le_refl _)
    have f1 := q1.fresh hfr
    have ok1 := inputTable_ok s (ins.map (viOf V))
    have htbl1 := rt_inputTable V A ins (List.range' s.nv ins.length) (by simp) hndI
      (fun v hv => newA v (.inl hv)) hins_t
    have hk1 : (A ++ ins.zip (List.range' s.nv ins.length)).map (·.1) = A.map (·.1) ++ ins := by
      rw [List.map_append, keys_zip _ _ (by simp)]
    have hsig1 := sig_zip A ins (List.range' s.nv ins.length) (by simp) hndI (fun v hv => newA v (.inl hv))
    generalize hA1 : A ++ ins.zip (List.range' s.nv ins.length) = A1 at *
    generalize hs1 : (deserInputs s (ins.map (viOf V))).1 = s1 at *
    have hge1 : ∀ v ∈ ins, s.nv ≤ sig A1 v := by
      intro v hv
      have : sig A1 v ∈ ins.map (sig A1) := List.mem_map_of_mem hv
      rw [hsig1, List.mem_range'_1] at this
      exact this.1
    -- phase 2: initializers
    have hconst : ∀ kv ∈ inits, (V kv.2).const ≠ none := fun kv hkv => (hinits kv hkv).2.2
    have htens := serInits_tensors V td (ins.map fun v => (V v).name) inits hconst
    have hmk : ∀ kv ∈ inits, (mkT V td kv).name = kv.1 := by
      intro kv hkv
      have := nm_of_name (hinits kv hkv).1
      unfold mkT
      split <;> simp [this]
    obtain ⟨B2, e2t, r2, e2v, k2, l2, c1, c2, c3, c4, _, c6, c7⟩ := rt_inits V vi ins (mkT V td) inits s1 A1 ins hmk r1
      (fun kv hkv => ⟨(hinits kv hkv).1, (hinits kv hkv).2.1⟩) (fun _ _ h => h)
      (fun kv hkv hni => by
        have hm : kv.2 ∈ newInits ins inits := by
          simp only [newInits, List.mem_filter, List.mem_map]
          exact ⟨⟨kv, hkv, rfl⟩, by simpa using hni⟩
        refine ⟨hni, ?_⟩
        rw [hk1, List.mem_append]
        rintro (h | h)
        · exact newA _ (.inr (.inl hm)) h
        · exact hni h)
      hvn (fun v hv _ => by rw [hk1]; simp [hv])
      (fun a ha b hb => hu a (by simp only [List.mem_append] at ha ⊢; rcases ha with ha | ha
                                 · exact .inl (.inl (.inl ha))
                                 · exact .inl (.inl (.inr ha)))
        b (by simp only [List.mem_append] at hb ⊢; rcases hb with hb | hb
              · exact .inl (.inl (.inl hb))
              · exact .inl (.inl (.inr hb))))
    generalize hs2 : (deserInits s1 (tableOf V A1 ins) vi (inits.map (mkT V td))).1 = s2 at *
    have hk2 : ∀ v, v ∈ (A1 ++ B2).map (·.1) ↔ v ∈ A.map (·.1) ∨ v ∈ ins ∨ v ∈ newInits ins inits := by
      intro v
      rw [List.map_append, List.mem_append, hk1, List.mem_append, k2]
      constructor
      · rintro ((h | h) | h)
        · exact .inl h
        · exact .inr (.inl h)
        · exact .inr (.inr h)
      · rintro (h | h | h)
        · exact .inl (.inl h)
        · exact .inl (.inr h)
        · exact .inr h
    -- phase 3: declare the node outputs
    have hLn : ∀ v ∈ nodes.flatMap (liveOuts V), (V v).name ≠ none := by
      intro v hv
      simp only [List.mem_flatMap] at hv
      obtain ⟨n, hn', hv⟩ := hv
      obtain ⟨i, g, a, b, c⟩ := n
      have := SerNs_mem V _ outs nodes hSN _ hn'
      simp only [SerN] at this
      exact this.2.1 v (stripTrailing_sub V b v hv)
    obtain ⟨B3, s3, e3, r3, k3, l3, i3, g3⟩ := rt_declNodes V vi (liveOuts V) nodes nps s2 (A1 ++ B2)
      (ins ++ newInits ins inits) (serNodes_outputs V td outs nodes nps vis2 ws2 hn) r2 hLn hndL
      (fun v hv => by
        refine ⟨fun hm => hdisjL v hm v hv rfl, ?_⟩
        rw [hk2]
        rintro (h | h | h)
        · exact newA v (.inr (.inr hv)) h
        · exact hdisjL v (by simp [h]) v hv rfl
        · exact hdisjL v (by simp [h]) v hv rfl)
      (fun v hv _ => by
        rw [hk2]
        simp only [List.mem_append] at hv
        rcases hv with hv | hv
        · exact .inr (.inl hv)
        · exact .inr (.inr hv))
      (fun a ha b hb => hu a (by simp only [List.mem_append] at ha ⊢; exact .inl ha)
        b (by simp only [List.mem_append] at hb ⊢; exact .inl hb))
    have p3 := declareNodes_prim s2.nv vi nps s2 _ s3 _ (Nat.le_refl _) e3
    -- the association after the three definition phases
    generalize hA3 : A1 ++ B2 ++ B3 = A3 at e3 r3 i3
    have hk3 : ∀ v, v ∈ A3.map (·.1) ↔ v ∈ A.map (·.1) ∨ v ∈ ins ∨ v ∈ newInits ins inits ∨
        (v ∈ nodes.flatMap (liveOuts V) ∧ nameTruthy (V v).name = true) := by
      intro v
      rw [← hA3, List.map_append, List.mem_append, hk2, k3, List.mem_filter]
      constructor
      · rintro ((h | h | h) | h)
        · exact .inl h
        · exact .inr (.inl h)
        · exact .inr (.inr (.inl h))
        · exact .inr (.inr (.inr h))
      · rintro (h | h | h | h)
        · exact .inl (.inl h)
        · exact .inl (.inr (.inl h))
        · exact .inl (.inr (.inr h))
        · exact .inr h
    have hAA3 : ∀ v, v ∈ A.map (·.1) → v ∈ A3.map (·.1) := fun v hv => (hk3 v).mpr (.inl hv)
    generalize hDdef : ins ++ newInits ins inits ++ nodes.flatMap (liveOuts V) = D at *
    have hDA3 : ∀ v ∈ D, nameTruthy (V v).name = true → v ∈ A3.map (·.1) := by
      intro v hv ht
      rw [hk3]
      rw [← hDdef] at hv
      simp only [List.mem_append] at hv
      rcases hv with (hv | hv) | hv
      · exact .inr (.inl hv)
      · exact .inr (.inr (.inl hv))
      · exact .inr (.inr (.inr ⟨hv, ht⟩))
    have hvis3 : ∀ v ∈ D ++ Ds.flatten, nameTruthy (V v).name = true → v ∈ A3.map (·.1) := by
      intro v hv ht
      rw [List.mem_append] at hv
      rcases hv with hv | hv
      · exact hDA3 v hv ht
      · exact hAA3 v (hvis v hv ht)
    have hlev : Ds.map (tableOf V A) = Ds.map (tableOf V A3) := by
      rw [← hA3, ← hA1, List.append_assoc, List.append_assoc]
      exact (levels_extend V A _ Ds hvis).symm
    have hu' : NamesUnique V D := fun a ha b hb => hu a (by simp [ha]) b (by simp [hb])
    rw [hids, htbl1] at ok1
    obtain ⟨q2, ok2, _, _⟩ := deserInits_spec vi (inits.map (mkT V td)) s1 (tableOf V A1 ins) s.nv ok1 q1.nv_le
    rw [hs2] at q2 ok2
    rw [e2t] at ok2
    have f2 := q2.fresh f1
    have le2 : s.nv ≤ s2.nv := Nat.le_trans q1.nv_le q2.nv_le
    have f3 : Fresh s3 := ((declareNodes_spec vi nps s2 _ s.nv s3 _ ok2 le2 e3).1).fresh f2
    -- phase 4: the nodes
    obtain ⟨s4, nts, B4, e4, r4, l4, k4, t4, f4, p4, io4, co4⟩ := rt_nodes V td nodes s3 A3 D Ds outs vi nps vis2 ws2 hn hSN hIN hndN
      (fun v hv hm => by
        rcases (hk3 v).mp hm with h | h | h | h
        · exact hnew v (by simp [hv]) h
        · exact hdisj v (by rw [← hDdef]; simp [h]) v hv rfl
        · exact hdisj v (by rw [← hDdef]; simp [h]) v hv rfl
        · exact hdisj v (by rw [← hDdef]; simp [h.1]) v hv rfl)
      (fun v hv => by
        refine ⟨by rw [← hDdef]; simp [hv], fun ht => (hk3 v).mpr (.inr (.inr (.inr ⟨hv, ht⟩))), fun hf hm => ?_⟩
        rcases (hk3 v).mp hm with h | h | h | h
        · exact newA v (.inr (.inr hv)) h
        · exact hdisjL v (by simp [h]) v hv rfl
        · exact hdisjL v (by simp [h]) v hv rfl
        · exact hf h.2)
      hndL (fun v hv w hw e => hdisj v (by rw [← hDdef]; simp [hv]) w hw e) hvis3 hu r3 f3
    -- phase 5: graph outputs
    have hinj3 : ∀ a ∈ outs, ∀ b ∈ outs, sig A3 a = sig A3 b → (V a).info = (V b).info := by
      intro a ha b hb he
      have := r3.sig_inj (hDA3 a (houts a ha).1 (houts a ha).2) (hDA3 b (houts b hb).1 (houts b hb).2) he
      rw [this]
    obtain ⟨e5, nv5, n5, o4, o5, o6, o7, o8⟩ := rt_outputs V A3 (tableOf V A3 D) outs s4 (fun v hv => by
      obtain ⟨hvD, hvt⟩ := houts v hv
      refine ⟨ne_none_of_truthy hvt, ?_⟩
      exact tableOf_lookup_mem V A3 D (fun a ha b hb => hu a (by simp [ha]) b (by simp [hb])) v hvD hvt)
    have o8 := o8 hinj3
    have r5 : RS V (deserOutputs s4 (tableOf V A3 D) (outs.map (viOf V))).1 (A3 ++ B4) := r4.same_nv nv5 n5
    -- phase 6: the graph object
    have hrun : deserGraph s (Ds.map (tableOf V A))
        (GraphP.mk (ins.map (viOf V)) (serInits V td (ins.map fun v => (V v).name) inits).2.1 L nps
          (outs.map (viOf V))) =
        .ok (mkGraph (deserOutputs s4 (tableOf V A3 D) (outs.map (viOf V))).1 (List.range' s.nv ins.length)
          (outs.map (sig A3)) nts (inits.map fun kv => sig (A1 ++ B2) kv.2)) := by
      simp only [deserGraph, hvi, htens, hids, hs1, htbl1, hs2, e2t, e2v, e3, hlev, e4, e5]
    generalize hs5 : (deserOutputs s4 (tableOf V A3 D) (outs.map (viOf V))).1 = s5 at *
    obtain ⟨c1', _, _⟩ := mkGraph_fst_counters s5 (List.range' s.nv ins.length) (outs.map (sig A3)) nts
      (inits.map fun kv => sig (A1 ++ B2) kv.2)
    have hnames6 : ∀ w, ((mkGraph s5 (List.range' s.nv ins.length) (outs.map (sig A3)) nts
        (inits.map fun kv => sig (A1 ++ B2) kv.2)).1.vals w).name = (s5.vals w).name := by
      intro w; rw [mkGraph_cell]
    have hsnd6 := mkGraph_snd s5 (List.range' s.nv ins.length) (outs.map (sig A3)) nts
      (inits.map fun kv => sig (A1 ++ B2) kv.2)
    have p6 := mkGraph_prim s5.nv s5 (List.range' s.nv ins.length) (outs.map (sig A3)) nts
      (inits.map fun kv => sig (A1 ++ B2) kv.2)
    generalize hmg : mkGraph s5 (List.range' s.nv ins.length) (outs.map (sig A3)) nts
      (inits.map fun kv => sig (A1 ++ B2) kv.2) = mg at hrun c1' hnames6 hsnd6 p6
    obtain ⟨s6, g6⟩ := mg
    simp only at c1' hnames6 hsnd6 p6
    have hAfull : A ++ (ins.zip (List.range' s.nv ins.length) ++ B2 ++ B3 ++ B4) = A3 ++ B4 := by
      rw [← hA3, ← hA1]; simp [List.append_assoc]
    have r6 : RS V s6 (A3 ++ B4) := r5.same_nv c1' hnames6
    have hinsA3 : ∀ v ∈ ins, v ∈ A3.map (·.1) := fun v hv => (hk3 v).mpr (.inr (.inl hv))
    have hinitA2 : ∀ kv ∈ inits, kv.2 ∈ (A1 ++ B2).map (·.1) := by
      intro kv hkv
      rw [hk2]
      by_cases hi : kv.2 ∈ ins
      · exact .inr (.inl hi)
      · refine .inr (.inr ?_)
        simp only [newInits, List.mem_filter, List.mem_map]
        exact ⟨⟨kv, hkv, rfl⟩, by simpa using hi⟩
    have hA2A3 : ∀ v, v ∈ (A1 ++ B2).map (·.1) → sig (A3 ++ B4) v = sig (A1 ++ B2) v := by
      intro v hv
      rw [← hA3, List.append_assoc _ B3 B4]
      exact sig_append_of_mem hv
    have hTL := tablesLt_of_RS hrs Ds hvis
    obtain ⟨f6, _⟩ := deserGraph_struct _ s _ s6 g6 hfr hTL hrun
    have pfull := deserGraph_prim _ s _ s6 g6 hfr hTL hrun
    -- frames from the end of phase 4 to the end
    have hframe46 : ∀ d, (∀ o ∈ outs, sig A3 o ≠ d) → (s6.vals d).info = (s4.vals d).info := by
      intro d hd
      by_cases hlt : d < s5.nv
      · rw [(p6.cell d hlt).1, o4 d hd]
      · have hge : s5.nv ≤ d := Nat.le_of_not_lt hlt
        rw [f6 d (by rw [c1']; exact hge), f4 d (by rw [← nv5]; exact hge)]
    have hconst46 : ∀ d, d < s4.nv → (s6.vals d).const = (s4.vals d).const := by
      intro d hd
      rw [(p6.cell d (by rw [nv5]; exact hd)).2, o5 d]
    have htens46 : ∀ t, t < s4.nt → s6.tens t = s4.tens t := by
      intro t ht
      rw [p6.tens t (by rw [o7]; exact ht), o6]
    refine ⟨s6, g6, ins.zip (List.range' s.nv ins.length) ++ B2 ++ B3 ++ B4, hrun, by rw [hAfull]; exact r6, ?_, ?_, ?_,
      f6, pfull, ?_, ?_⟩
    · rw [c1', nv5]
      have := q1.nv_le
      omega
    · intro v
      have hvD : v ∈ D ↔ (v ∈ ins ∨ v ∈ newInits ins inits) ∨ v ∈ nodes.flatMap (liveOuts V) := by
        rw [← hDdef]; simp only [List.mem_append]
      simp only [List.map_append, List.mem_append, allDefsG]
      rw [hD, hvD, keys_zip _ _ (by simp), k2, k3, k4]
      simp only [List.mem_filter]
      constructor
      · rintro (((h | h) | h) | (h | h))
        · exact .inl (.inl (.inl h))
        · exact .inl (.inl (.inr h))
        · exact .inl (.inr h.1)
        · exact .inl (.inr h.1)
        · exact .inr h
      · rintro (((h | h) | h) | h)
        · exact .inl (.inl (.inl h))
        · exact .inl (.inl (.inr h))
        · by_cases ht : nameTruthy (V v).name = true
          · exact .inl (.inr ⟨h, ht⟩)
          · exact .inr (.inl ⟨h, ht⟩)
        · exact .inr (.inr h)
    · rw [hAfull, hsnd6]
      simp only [TreeRelG]
      refine ⟨?_, fun v hv => mem_keys_append (hinsA3 v hv), ?_, ?_, TreeRelNs_setGraph V _ _ nodes nts t4, ?_, ?_⟩
      · rw [map_sig_append hinsA3]
        refine (Eq.trans (List.map_congr_left (fun v hv => ?_)) hsig1).symm
        rw [← hA3, List.append_assoc A1 B2 B3]
        exact sig_append_of_mem (by rw [hk1]; exact List.mem_append.mpr (.inr hv))
      · -- the initializer dict
        have hnm : ∀ kv ∈ inits, ((s5.vals (sig (A1 ++ B2) kv.2)).name).getD "" = kv.1 := by
          intro kv hkv
          have hmem : kv.2 ∈ (A3 ++ B4).map (·.1) := mem_keys_append (by
            rw [← hA3]; exact mem_keys_append (hinitA2 kv hkv))
          have := r5.sig_name hmem
          rw [hA2A3 _ (hinitA2 kv hkv)] at this
          rw [this, (hinits kv hkv).1]
          rfl
        unfold mkGraphInits
        rw [initDict_fresh]
        · simp only [List.nil_append, List.map_map]
          apply List.map_congr_left
          intro kv hkv
          simp only [Function.comp]
          have e := hnm kv hkv
          rw [show ((setOwner (setOwner s5 s5.ng (fun c => { c with isIn := true }) (List.range' s.nv ins.length)) s5.ng
              (fun c => { c with isOut := true }) (outs.map (sig A3))).vals
              (sig (A1 ++ B2) kv.2)).name = (s5.vals _).name from
            (setOwner_name _ _ (fun c => { c with isOut := true }) (fun _ => rfl) _ _).trans
              (setOwner_name _ _ (fun c => { c with isIn := true }) (fun _ => rfl) _ _)]
          rw [e, hA2A3 _ (hinitA2 kv hkv)]
        · simp only [List.map_nil, List.nil_append, List.map_map]
          have : (inits.map ((fun x => (((setOwner (setOwner s5 s5.ng (fun c => { c with isIn := true })
              (List.range' s.nv ins.length)) s5.ng (fun c => { c with isOut := true }) (outs.map (sig A3))).vals x).name).getD "") ∘
              fun kv => sig (A1 ++ B2) kv.2)) = inits.map (·.1) := by
            apply List.map_congr_left
            intro kv hkv
            simp only [Function.comp]
            rw [show ((setOwner (setOwner s5 s5.ng (fun c => { c with isIn := true }) (List.range' s.nv ins.length)) s5.ng
                (fun c => { c with isOut := true }) (outs.map (sig A3))).vals
                (sig (A1 ++ B2) kv.2)).name = (s5.vals _).name from
              (setOwner_name _ _ (fun c => { c with isOut := true }) (fun _ => rfl) _ _).trans
                (setOwner_name _ _ (fun c => { c with isIn := true }) (fun _ => rfl) _ _)]
            exact hnm kv hkv
          rw [this]
          exact hkn
      · intro kv hkv
        exact mem_keys_append (by rw [← hA3]; exact mem_keys_append (hinitA2 kv hkv))
      · rw [map_sig_append (fun v hv => hDA3 v (houts v hv).1 (houts v hv).2)]
      · intro v hv
        exact mem_keys_append (hDA3 v (houts v hv).1 (houts v hv).2)
    · -- the information of every defined value
      rw [hAfull]
      -- every value_info entry carrying the name of a definition was written for that definition
      have hsrc : ∀ v ∈ D, nameTruthy (V v).name = true → ∀ e ∈ L, e.name = nm V v →
          shouldCreate (V v) = true ∧ e.info = (V v).info.emit := by
        intro v hvD ht e he hname
        rw [← hLdef, List.mem_append] at he
        rcases he with he | he
        · rw [hvis1] at he
          obtain ⟨kv', hkv', hsc, hnin, rfl⟩ := he
          simp only at hname
          have hut : nameTruthy (V kv'.2).name = true := by
            simp only [shouldCreate, Bool.and_eq_true] at hsc; exact hsc.2
          have hni : kv'.2 ∉ ins := by
            intro hm
            exact hnin (List.mem_map.mpr ⟨kv'.2, hm, rfl⟩)
          have hmem : kv'.2 ∈ D := by
            rw [← hDdef]
            simp only [List.mem_append]
            refine .inl (.inr ?_)
            simp only [newInits, List.mem_filter, List.mem_map]
            exact ⟨⟨kv', hkv', rfl⟩, by simpa using hni⟩
          have : kv'.2 = v := by
            apply hu' _ hmem v hvD hut
            rw [(name_some_of_truthy hut).1, hname, (name_some_of_truthy ht).1]
          rw [← this]; exact ⟨hsc, rfl⟩
        · rw [hvis2] at he
          obtain ⟨n, hn', he⟩ := he
          rw [mem_outVInfo] at he
          obtain ⟨u, hu0, _, hsc, rfl⟩ := he
          simp only at hname ⊢
          have hut : nameTruthy (V u).name = true := by
            simp only [shouldCreate, Bool.and_eq_true] at hsc; exact hsc.2
          have hmem : u ∈ D := by
            rw [← hDdef]
            simp only [List.mem_append, List.mem_flatMap]
            right
            obtain ⟨i, g, a, b, c⟩ := n
            exact ⟨_, hn', truthy_mem_stripTrailing V u b hu0 hut⟩
          have : u = v := by
            apply hu' u hmem v hvD hut
            rw [(name_some_of_truthy hut).1, hname, (name_some_of_truthy ht).1]
          rw [← this]; exact ⟨hsc, rfl⟩
      intro v hv
      simp only [allDefsG, List.mem_append] at hv
      rw [hD] at hv
      by_cases hvo : v ∈ outs
      · -- a graph output takes what its output entry says
        have hmem := hDA3 v (houts v hvo).1 (houts v hvo).2
        rw [sig_append_of_mem hmem]
        have hlt5 : sig A3 v < s5.nv := by rw [nv5]; exact Nat.lt_of_lt_of_le (r3.sig_lt hmem) l4
        rw [(p6.cell _ hlt5).1]
        exact o8 v hvo
      · -- not a graph output: the cell is not touched by phases 5 and 6
        have hnot : v ∈ (A3 ++ B4).map (·.1) → ∀ o ∈ outs, sig A3 o ≠ sig (A3 ++ B4) v := by
          intro hmem o ho heq
          have hmo := hDA3 o (houts o ho).1 (houts o ho).2
          rw [← sig_append_of_mem (B := B4) hmo] at heq
          have := r4.sig_inj (mem_keys_append hmo) hmem heq
          exact hvo (this ▸ ho)
        have hB4 : ∀ w, ((w ∈ nodes.flatMap (liveOuts V) ∧ ¬ nameTruthy (V w).name = true) ∨ w ∈ allDefsNs V nodes) →
            (s6.vals (sig (A3 ++ B4) w)).info = (V w).info.emit := by
          intro w hw
          have hmem : w ∈ (A3 ++ B4).map (·.1) := by
            rw [List.map_append, List.mem_append]; exact .inr ((k4 w).mpr hw)
          by_cases hwo : w ∈ outs
          · exact absurd (houts w hwo).2 (by
              rcases hw with hw | hw
              · exact hw.2
              · exact fun _ => hdisj w (houts w hwo).1 w hw rfl)
          · have hnot' : ∀ o ∈ outs, sig A3 o ≠ sig (A3 ++ B4) w := by
              intro o ho heq
              have hmo := hDA3 o (houts o ho).1 (houts o ho).2
              rw [← sig_append_of_mem (B := B4) hmo] at heq
              have := r4.sig_inj (mem_keys_append hmo) hmem heq
              exact hwo (this ▸ ho)
            rw [hframe46 _ hnot']
            apply io4 w
            simp only [List.mem_append, List.mem_filter]
            rcases hw with hw | hw
            · exact .inl ⟨hw.1, by simpa using hw.2⟩
            · exact .inr hw
        rcases hv with hvD | hvN
        · by_cases ht : nameTruthy (V v).name = true
          · have hmem := hDA3 v hvD ht
            rw [hframe46 _ (hnot (mem_keys_append hmem)), sig_append_of_mem hmem,
              (p4.cell _ (r3.sig_lt hmem)).1]
            have hvD' := hvD
            rw [← hDdef] at hvD'
            simp only [List.mem_append] at hvD'
            rcases hvD' with (hvi' | hvni) | hvl
            · -- a graph input
              have hm1 : v ∈ A1.map (·.1) := by rw [hk1]; simp [hvi']
              have e13 : sig A3 v = sig A1 v := by
                rw [← hA3, List.append_assoc]; exact sig_append_of_mem hm1
              rw [e13, (p3.cell _ (Nat.lt_of_lt_of_le (r1.sig_lt hm1) l2)).1, c3 _ (r1.sig_lt hm1)]
              exact hi1 v hvi'
            · -- an initializer of its own: the value_info entry carries its information
              have hkv : ∃ kv ∈ inits, kv.2 = v := by
                simp only [newInits, List.mem_filter, List.mem_map] at hvni
                obtain ⟨⟨kv, hkv, e⟩, _⟩ := hvni
                exact ⟨kv, hkv, e⟩
              obtain ⟨kv, hkv, rfl⟩ := hkv
              have hni : kv.2 ∉ ins := by
                simp only [newInits, List.mem_filter] at hvni
                simpa using hvni.2
              have hm2 : kv.2 ∈ (A1 ++ B2).map (·.1) := hinitA2 kv hkv
              have e23 : sig A3 kv.2 = sig (A1 ++ B2) kv.2 := by
                rw [← hA3]; exact sig_append_of_mem hm2
              rw [e23, (p3.cell _ (r2.sig_lt hm2)).1, c1 kv hkv hni]
              obtain ⟨hty, hsh⟩ := hIinit kv hkv hni hvo
              have hknm : nm V kv.2 = kv.1 := nm_of_name (hinits kv hkv).1
              have hent : (⟨kv.1, (V kv.2).info.emit⟩ : VInfoP) ∈ L := by
                rw [← hLdef, List.mem_append]
                left
                rw [hvis1]
                refine ⟨kv, hkv, ?_, ?_, by rw [hknm]⟩
                · simp only [shouldCreate, Info.present, Bool.and_eq_true, Bool.or_eq_true]
                  exact ⟨.inl (by simpa [Option.isSome_iff_ne_none] using hty), ht⟩
                · intro hm
                  simp only [List.mem_map] at hm
                  obtain ⟨u, hu0, hname⟩ := hm
                  have : u = kv.2 := by
                    apply hu' u (by rw [← hDdef]; simp [hu0]) kv.2 hvD (hins_t u hu0) hname
                  exact hni (this ▸ hu0)
              have hlook : vi.lookup kv.1 = some (V kv.2).info.emit := by
                rw [← hvi]
                exact vinfoTable_lookup_some L kv.1 _
                  (fun e he hname => (hsrc kv.2 hvD ht e he (by rw [hknm]; exact hname)).2) ⟨_, hent, rfl⟩
              simp only [initInfo, hlook]
              exact emit_orTensor hty hsh
            · -- a node output that is not a graph output
              rw [i3 v hvl ht]
              by_cases hsc : shouldCreate (V v) = true
              · have hent : (⟨nm V v, (V v).info.emit⟩ : VInfoP) ∈ L := by
                  rw [← hLdef, List.mem_append]
                  right
                  rw [hvis2]
                  simp only [List.mem_flatMap] at hvl
                  obtain ⟨n, hn', hvn'⟩ := hvl
                  refine ⟨n, hn', ?_⟩
                  rw [mem_outVInfo]
                  obtain ⟨i, g, a, b, c⟩ := n
                  exact ⟨v, stripTrailing_sub V b v hvn', hvo, hsc, rfl⟩
                have hlook : vi.lookup (nm V v) = some (V v).info.emit := by
                  rw [← hvi]
                  exact vinfoTable_lookup_some L _ _ (fun e he hname => (hsrc v hvD ht e he hname).2) ⟨_, hent, rfl⟩
                simp only [declInfo, hlook]
              · have hlook : vi.lookup (nm V v) = none := by
                  rw [← hvi]
                  exact vinfoTable_lookup_none L _ (fun e he hname => hsc (hsrc v hvD ht e he hname).1)
                simp only [declInfo, hlook]
                have hnp : (V v).info.present = false := by
                  simp only [shouldCreate, Bool.and_eq_true, ht, and_true] at hsc
                  simpa using hsc
                exact (emit_of_not_present hnp).symm
          · -- an empty-named output: bound while its node was built
            have hvl : v ∈ nodes.flatMap (liveOuts V) := by
              rw [← hDdef] at hvD
              simp only [List.mem_append] at hvD
              rcases hvD with (h | h) | h
              · exact absurd (hins_t v h) ht
              · have : ∃ kv ∈ inits, kv.2 = v := by
                  simp only [newInits, List.mem_filter, List.mem_map] at h
                  obtain ⟨⟨kv, hkv, e⟩, _⟩ := h
                  exact ⟨kv, hkv, e⟩
                obtain ⟨kv, hkv, rfl⟩ := this
                exact absurd (by simp [nameTruthy, (hinits kv hkv).1, (hinits kv hkv).2.1]) ht
              · exact h
            exact hB4 v (.inl ⟨hvl, ht⟩)
        · exact hB4 v (.inr hvN)
    · -- the initializer tensors
      rw [hAfull]
      intro kv hkv t ht
      simp only [allInitsG, List.mem_append] at hkv
      rcases hkv with hkv | hkv
      · obtain ⟨t', h1, h2, h3⟩ := c2 kv hkv
        have hm2 := hinitA2 kv hkv
        have hlt2 := r2.sig_lt hm2
        have hmem3 : kv.2 ∈ A3.map (·.1) := by rw [← hA3]; exact mem_keys_append hm2
        refine ⟨t', ?_, ?_, ?_, ?_⟩
        · rw [hA2A3 _ hm2, hconst46 _ (Nat.lt_of_lt_of_le hlt2 (Nat.le_trans l3 l4)),
            (p4.cell _ (Nat.lt_of_lt_of_le hlt2 l3)).2, (p3.cell _ hlt2).2]
          exact h1
        · have := p3.nt_le
          have := p4.nt_le
          have := p6.nt_le
          rw [o7] at this
          omega
        · rw [htens46 t' (Nat.lt_of_lt_of_le h2 (Nat.le_trans p3.nt_le p4.nt_le)),
            p4.tens t' (Nat.lt_of_lt_of_le h2 p3.nt_le), p3.tens t' h2, h3]
        · simp only [Store.tdata]
          rw [htens46 t' (Nat.lt_of_lt_of_le h2 (Nat.le_trans p3.nt_le p4.nt_le)),
            p4.tens t' (Nat.lt_of_lt_of_le h2 p3.nt_le), p3.tens t' h2, h3]
          simp [mkT, ht]
      · obtain ⟨t', h1, h2, h3, h4⟩ := co4 kv hkv t ht
        have hmem : kv.2 ∈ (A3 ++ B4).map (·.1) := by
          rw [List.map_append, List.mem_append]
          exact .inr ((k4 kv.2).mpr (.inr (allInits_sub_allDefsNs V nodes kv hkv)))
        refine ⟨t', ?_, ?_, ?_, ?_⟩
        · rw [hconst46 _ (r4.sig_lt hmem)]; exact h1
        · have := p6.nt_le
          rw [o7] at this
          omega
        · rw [htens46 t' h2]; exact h3
        · simp only [Store.tdata] at h4 ⊢
          rw [htens46 t' h2]; exact h4
theorem rt_nodes (V : Nat → ValueS) (td : TData) :
    ∀ (nodes : List NodeT) (s : Store) (A : Assoc) (D : List Nat) (Ds : List (List Nat)) (gouts : List Nat)
      (vi : List (Name × Info)) (nps : List NodeP) (vis : List VInfoP) (ws : Writes),
      serNodes V td gouts nodes = .ok (nps, vis, ws) → SerNs V (D ++ Ds.flatten) gouts nodes → InfoNs V nodes →
      (allDefsNs V nodes).Nodup → (∀ v ∈ allDefsNs V nodes, v ∉ A.map (·.1)) →
      (∀ v ∈ nodes.flatMap (liveOuts V), v ∈ D ∧ (nameTruthy (V v).name = true → v ∈ A.map (·.1)) ∧
        (¬ nameTruthy (V v).name = true → v ∉ A.map (·.1))) →
      (nodes.flatMap (liveOuts V)).Nodup →
      (∀ v ∈ nodes.flatMap (liveOuts V), ∀ w ∈ allDefsNs V nodes, v ≠ w) →
      (∀ v ∈ D ++ Ds.flatten, nameTruthy (V v).name = true → v ∈ A.map (·.1)) →
      NamesUnique V (D ++ Ds.flatten) → RS V s A → Fresh s →
      ∃ (s' : Store) (nts : List NodeT) (B : Assoc),
        deserNodes s (tableOf V A D) (Ds.map (tableOf V A)) vi nps = .ok (s', tableOf V A D, nts) ∧
        RS V s' (A ++ B) ∧ s.nv ≤ s'.nv ∧
        (∀ v, v ∈ B.map (·.1) ↔ (v ∈ nodes.flatMap (liveOuts V) ∧ ¬ nameTruthy (V v).name = true) ∨
          v ∈ allDefsNs V nodes) ∧
        TreeRelNs V (A ++ B) nodes nts ∧ Fresh s' ∧ Prim s.nv s s' ∧
        InfoOK V s' (A ++ B) ((nodes.flatMap (liveOuts V)).filter (fun v => !nameTruthy (V v).name) ++ allDefsNs V nodes) ∧
        ConstOK V td s' (A ++ B) (allInitsNs nodes)
  | [], s, A, D, Ds, gouts, vi, nps, vis, ws, hser, _, _, _, _, _, _, _, _, _, hrs, hfr => by
    simp only [serNodes, Except.ok.injEq, Prod.mk.injEq] at hser
    obtain ⟨rfl, _, _⟩ := hser
    exact ⟨s, [], [], by simp [deserNodes], by simpa using hrs, Nat.le_refl _, by simp [allDefsNs],
      by simp [TreeRelNs], hfr, Prim.refl _ _, by simp [InfoOK, allDefsNs], by simp [ConstOK, allInitsNs]⟩
  | n :: rest, s, A, D, Ds, gouts, vi, nps, vis, ws, hser, hS, hI, hnd, hnew, hL, hLnd, hLdisj, hvis, hu, hrs, hfr => by
    obtain ⟨np, vi1, ws1, nps', vis', ws2, h1, h2, rfl⟩ := serNodes_inv hser
    simp only [SerNs] at hS
    simp only [InfoNs] at hI
    simp only [allDefsNs] at hnd hnew hLdisj
    simp only [List.flatMap_cons] at hL hLnd hLdisj
    rw [List.nodup_append] at hnd hLnd
    obtain ⟨s1, n', B1, e1, r1, l1, k1, t1, f1, p1, io1, co1⟩ := rt_node V td n s A D Ds gouts vi np vi1 ws1 h1 hS.1 hI.1 hnd.1
      (fun v hv => hnew v (by simp [hv]))
      (fun v hv => hL v (by simp [hv])) hLnd.1
      (fun v hv w hw => hLdisj v (by simp [hv]) w (by simp [hw])) hvis hu hrs hfr
    have hkeys1 : ∀ v, v ∈ (A ++ B1).map (·.1) ↔ v ∈ A.map (·.1) ∨
        (v ∈ liveOuts V n ∧ ¬ nameTruthy (V v).name = true) ∨ v ∈ allDefsN V n := by
      intro v; rw [List.map_append, List.mem_append, k1]
    have hlevD : tableOf V (A ++ B1) D = tableOf V A D :=
      tableOf_extend' V A B1 D (fun v hv ht => hvis v (by simp [hv]) ht)
    have hlev : Ds.map (tableOf V (A ++ B1)) = Ds.map (tableOf V A) :=
      levels_extend V A B1 Ds (fun v hv ht => hvis v (by simp [hv]) ht)
    obtain ⟨s2, nts, B2, e2, r2, l2, k2, t2, f2, p2, io2, co2⟩ := rt_nodes V td rest s1 (A ++ B1) D Ds gouts vi nps' vis' ws2 h2 hS.2 hI.2
      hnd.2.1
      (fun v hv hm => by
        rcases (hkeys1 v).mp hm with h | h | h
        · exact hnew v (by simp [hv]) h
        · exact hLdisj v (by simp [h.1]) v (by simp [hv]) rfl
        · exact hnd.2.2 v h v hv rfl)
      (fun v hv => by
        obtain ⟨a, b, c⟩ := hL v (by simp [hv])
        refine ⟨a, fun ht => mem_keys_append (b ht), fun hf hm => ?_⟩
        rcases (hkeys1 v).mp hm with h | h | h
        · exact c hf h
        · exact hLnd.2.2 v h.1 v hv rfl
        · exact hLdisj v (by simp [hv]) v (by simp [h]) rfl)
      hLnd.2.1 (fun v hv w hw => hLdisj v (by simp [hv]) w (by simp [hw]))
      (fun v hv ht => mem_keys_append (hvis v hv ht)) hu r1 f1
    rw [hlevD, hlev] at e2
    have hk1mem : ∀ v, ((v ∈ liveOuts V n ∧ ¬ nameTruthy (V v).name = true) ∨ v ∈ allDefsN V n) →
        v ∈ (A ++ B1).map (·.1) := fun v hv => (hkeys1 v).mpr (.inr hv)
    refine ⟨s2, n' :: nts, B1 ++ B2, ?_, by simpa [List.append_assoc] using r2, Nat.le_trans l1 l2, ?_, ?_, f2,
      p1.trans (p2.weaken l1), ?_, ?_⟩
    · simp only [deserNodes, e1, e2]
    · intro v
      rw [List.map_append, List.mem_append, k1, k2]
      simp only [List.flatMap_cons, List.mem_append, allDefsNs]
      constructor
      · rintro ((h | h) | (h | h))
        · exact .inl ⟨.inl h.1, h.2⟩
        · exact .inr (.inl h)
        · exact .inl ⟨.inr h.1, h.2⟩
        · exact .inr (.inr h)
      · rintro (⟨h | h, hf⟩ | (h | h))
        · exact .inl (.inl ⟨h, hf⟩)
        · exact .inr (.inl ⟨h, hf⟩)
        · exact .inl (.inr h)
        · exact .inr (.inr h)
    · simp only [TreeRelNs]
      rw [← List.append_assoc]
      exact ⟨TreeRelN.mono V (A ++ B1) B2 n n' t1, t2⟩
    · rw [← List.append_assoc]
      have io1' := io1.step (B := B2) (fun v hv => by
        simp only [List.mem_append, List.mem_filter] at hv
        rcases hv with hv | hv
        · exact hk1mem v (.inl ⟨hv.1, by simpa using hv.2⟩)
        · exact hk1mem v (.inr hv)) r1 p2
      intro v hv
      simp only [List.flatMap_cons, List.filter_append, allDefsNs, List.mem_append] at hv
      rcases hv with (hv | hv) | (hv | hv)
      · exact io1' v (by simp only [List.mem_append]; exact .inl hv)
      · exact io2 v (by simp only [List.mem_append]; exact .inl hv)
      · exact io1' v (by simp only [List.mem_append]; exact .inr hv)
      · exact io2 v (by simp only [List.mem_append]; exact .inr hv)
    · rw [← List.append_assoc]
      have co1' := co1.step (B := B2) (fun kv hkv => hk1mem kv.2 (.inr (allInits_sub_allDefsN V n kv hkv))) r1 p2
      intro kv hkv
      simp only [allInitsNs, List.mem_append] at hkv
      rcases hkv with hkv | hkv
      · exact co1' kv hkv
      · exact co2 kv hkv
theorem rt_node (V : Nat → ValueS) (td : TData) :
    ∀ (n : NodeT) (s : Store) (A : Assoc) (D : List Nat) (Ds : List (List Nat)) (gouts : List Nat)
      (vi : List (Name × Info)) (np : NodeP) (vis : List VInfoP) (ws : Writes),
      serNode V td gouts n = .ok (np, vis, ws) → SerN V (D ++ Ds.flatten) gouts n → InfoN V n →
      (allDefsN V n).Nodup → (∀ v ∈ allDefsN V n, v ∉ A.map (·.1)) →
      (∀ v ∈ liveOuts V n, v ∈ D ∧ (nameTruthy (V v).name = true → v ∈ A.map (·.1)) ∧
        (¬ nameTruthy (V v).name = true → v ∉ A.map (·.1))) →
      (liveOuts V n).Nodup → (∀ v ∈ liveOuts V n, ∀ w ∈ allDefsN V n, v ≠ w) →
      (∀ v ∈ D ++ Ds.flatten, nameTruthy (V v).name = true → v ∈ A.map (·.1)) →
      NamesUnique V (D ++ Ds.flatten) → RS V s A → Fresh s →
      ∃ (s' : Store) (n' : NodeT) (B : Assoc),
        deserNode s (tableOf V A D) (Ds.map (tableOf V A)) vi np = .ok (s', tableOf V A D, n') ∧
        RS V s' (A ++ B) ∧ s.nv ≤ s'.nv ∧
        (∀ v, v ∈ B.map (·.1) ↔ (v ∈ liveOuts V n ∧ ¬ nameTruthy (V v).name = true) ∨ v ∈ allDefsN V n) ∧
        TreeRelN V (A ++ B) n n' ∧ Fresh s' ∧ Prim s.nv s s' ∧
        InfoOK V s' (A ++ B) ((liveOuts V n).filter (fun v => !nameTruthy (V v).name) ++ allDefsN V n) ∧
        ConstOK V td s' (A ++ B) (allInitsN n)
  | .mk i g ins outs subs, s, A, D, Ds, gouts, vi, np, vis, ws, hser, hS, hI, hnd, hnew, hL, hLnd, hLdisj, hvis, hu,
      hrs, hfr => by
    obtain ⟨gps, ws', hs, rfl, _⟩ := serNode_inv hser
    simp only [SerN] at hS
    obtain ⟨hins, houtn, hSG⟩ := hS
    simp only [InfoN] at hI
    obtain ⟨hIout, hIG⟩ := hI
    simp only [allDefsN] at hnd hnew hLdisj
    simp only [liveOuts] at hL hLnd hLdisj
    -- inputs resolve to the images of the referenced values
    have hres := rt_resolveInputs V A s (tableOf V A D) (Ds.map (tableOf V A)) vi ins (fun v hv => by
      obtain ⟨hvv, hvt⟩ := hins v hv
      refine ⟨hvt, ?_⟩
      have := rt_resolve V A (D :: Ds) (by simpa using hu) v (by simpa using hvv) hvt
      simpa using this)
    -- outputs
    obtain ⟨B1, s2, e2, r2, k1, l2, fr2, io2, g2, tn2, nt2⟩ := rt_lookupOutputs V (tableOf V A D) (stripTrailing V outs) s A hrs
      (fun v hv => houtn v (stripTrailing_sub V outs v hv)) hLnd
      (fun v hv ht => ⟨tableOf_lookup_mem V A D (fun a ha b hb => hu a (by simp [ha]) b (by simp [hb])) v
        (hL v hv).1 ht, (hL v hv).2.1 ht⟩)
      (fun v hv hf => (hL v hv).2.2 hf)
    have f2 : Fresh s2 := ((lookupOutputs_spec _ _ _ _ _ e2).1).fresh hfr
    have p2 : Prim s.nv s s2 := ⟨fun v hv => by rw [fr2 v hv]; exact ⟨rfl, rfl⟩, by rw [nt2]; exact Nat.le_refl _,
      fun t _ => by rw [tn2]⟩
    have hkeys1 : ∀ v, v ∈ (A ++ B1).map (·.1) ↔ v ∈ A.map (·.1) ∨
        (v ∈ stripTrailing V outs ∧ ¬ nameTruthy (V v).name = true) := by
      intro v
      rw [List.map_append, List.mem_append, k1, List.mem_filter]
      simp
    -- nested graphs
    have hlev : (D :: Ds).map (tableOf V (A ++ B1)) = tableOf V A D :: Ds.map (tableOf V A) := by
      have := levels_extend V A B1 (D :: Ds) (by simpa using hvis)
      simpa using this
    obtain ⟨s3, gts, B2, e3, r3, l3, k2, t3, f3, p3, io3, co3⟩ := rt_subs V td subs s2 (A ++ B1) (D :: Ds) gps ws' hs
      (by simpa using hSG) hIG hnd
      (fun v hv hm => by
        rcases (hkeys1 v).mp hm with h | h
        · exact hnew v hv h
        · exact hLdisj v h.1 v hv rfl)
      (fun v hv ht => mem_keys_append (hvis v (by simpa using hv) ht)) (by simpa using hu) r2 f2
    rw [hlev] at e3
    have hLkeys : ∀ v ∈ stripTrailing V outs, v ∈ (A ++ B1).map (·.1) := by
      intro v hv
      rw [hkeys1]
      by_cases ht : nameTruthy (V v).name = true
      · exact .inl ((hL v hv).2.1 ht)
      · exact .inr ⟨hv, ht⟩
    have hinA : ∀ v, some v ∈ ins → v ∈ A.map (·.1) := fun v hv => hvis v (hins v hv).1 (hins v hv).2
    -- the node object
    have pm := mkNode_prim s3.nv s3 (ins.map (Option.map (sig A))) ((stripTrailing V outs).map (sig (A ++ B1))) gts
    have r4 : RS V (mkNode s3 (ins.map (Option.map (sig A))) ((stripTrailing V outs).map (sig (A ++ B1))) gts).1
        (A ++ B1 ++ B2) :=
      r3.same_nv (mkNode_fst_nv _ _ _ _) (fun w => (mkNode_keeps _ _ _ _ w).1)
    have f4 : Fresh (mkNode s3 (ins.map (Option.map (sig A))) ((stripTrailing V outs).map (sig (A ++ B1))) gts).1 := by
      apply mkNode_fresh _ _ _ _ f3
      · intro v hv
        simp only [List.mem_map] at hv
        obtain ⟨o, ho, he⟩ := hv
        cases o with
        | none => simp at he
        | some w =>
          simp only [Option.map_some, Option.some.injEq] at he
          subst he
          exact Nat.lt_of_lt_of_le (hrs.sig_lt (hinA w ho)) (Nat.le_trans l2 l3)
      · intro v hv
        simp only [List.mem_map] at hv
        obtain ⟨w, hw, rfl⟩ := hv
        exact Nat.lt_of_lt_of_le (r2.sig_lt (hLkeys w hw)) l3
    have io2' : InfoOK V s2 (A ++ B1) ((stripTrailing V outs).filter (fun v => !nameTruthy (V v).name)) := by
      intro v hv
      simp only [List.mem_filter] at hv
      have hf : ¬ nameTruthy (V v).name = true := by simpa using hv.2
      rw [io2 v hv.1 hf]
      exact emit_falsy_out (hIout v hv.1 hf).1 (hIout v hv.1 hf).2
    refine ⟨(mkNode s3 (ins.map (Option.map (sig A))) ((stripTrailing V outs).map (sig (A ++ B1))) gts).1,
      (mkNode s3 (ins.map (Option.map (sig A))) ((stripTrailing V outs).map (sig (A ++ B1))) gts).2, B1 ++ B2, ?_,
      by simpa [List.append_assoc] using r4, ?_, ?_, ?_, f4, (p2.trans (p3.weaken l2)).trans (pm.weaken (Nat.le_trans l2 l3)),
      ?_, ?_⟩
    · simp only [deserNode, hres, e2, e3]
    · rw [mkNode_fst_nv]; exact Nat.le_trans l2 l3
    · intro v
      rw [List.map_append, List.mem_append, k1, k2, List.mem_filter]
      simp [liveOuts, allDefsN]
    · rw [mkNode_snd]
      simp only [TreeRelN]
      refine ⟨?_, fun v hv => mem_keys_append (hinA v hv), ?_, ?_, ?_⟩
      · apply List.map_congr_left
        intro o ho
        cases o with
        | none => rfl
        | some v => simp [sig_append_of_mem (hinA v ho)]
      · rw [← List.append_assoc A B1 B2, map_sig_append hLkeys]
      · intro v hv
        rw [← List.append_assoc]
        exact mem_keys_append (hLkeys v hv)
      · rw [← List.append_assoc]; exact t3
    · rw [← List.append_assoc]
      have a1 := (io2'.step (B := B2) (fun v hv => hLkeys v (List.mem_filter.mp hv).1) r2 p3)
      have hk3 : ∀ v, v ∈ allDefsGs V subs → v ∈ (A ++ B1 ++ B2).map (·.1) := fun v hv => by
        rw [List.map_append, List.mem_append]; exact .inr ((k2 v).mpr hv)
      intro v hv
      simp only [liveOuts, allDefsN, List.mem_append] at hv
      rcases hv with hv | hv
      · rw [(pm.cell _ (r3.sig_lt (mem_keys_append (hLkeys v (List.mem_filter.mp hv).1)))).1]
        exact a1 v hv
      · rw [(pm.cell _ (r3.sig_lt (hk3 v hv))).1]
        exact io3 v hv
    · rw [← List.append_assoc]
      have hk3 : ∀ kv ∈ allInitsGs subs, kv.2 ∈ (A ++ B1 ++ B2).map (·.1) := fun kv hkv => by
        rw [List.map_append, List.mem_append]
        exact .inr ((k2 kv.2).mpr (allInits_sub_allDefsGs V subs kv hkv))
      have := co3.prim hk3 r3 pm
      simpa [allInitsN] using this
theorem rt_subs (V : Nat → ValueS) (td : TData) :
    ∀ (subs : List GraphT) (s : Store) (A : Assoc) (Ds : List (List Nat)) (gps : List GraphP) (ws : Writes),
      serSubs V td subs = .ok (gps, ws) → SerGs V Ds.flatten subs → InfoGs V subs → (allDefsGs V subs).Nodup →
      (∀ v ∈ allDefsGs V subs, v ∉ A.map (·.1)) →
      (∀ v ∈ Ds.flatten, nameTruthy (V v).name = true → v ∈ A.map (·.1)) → NamesUnique V Ds.flatten →
      RS V s A → Fresh s →
      ∃ (s' : Store) (gts : List GraphT) (B : Assoc),
        deserSubs s (Ds.map (tableOf V A)) gps = .ok (s', gts) ∧ RS V s' (A ++ B) ∧ s.nv ≤ s'.nv ∧
        (∀ v, v ∈ B.map (·.1) ↔ v ∈ allDefsGs V subs) ∧ TreeRelGs V (A ++ B) subs gts ∧
        Fresh s' ∧ Prim s.nv s s' ∧ InfoOK V s' (A ++ B) (allDefsGs V subs) ∧
        ConstOK V td s' (A ++ B) (allInitsGs subs)
  | [], s, A, Ds, gps, ws, hser, _, _, _, _, _, _, hrs, hfr => by
    simp only [serSubs, Except.ok.injEq, Prod.mk.injEq] at hser
    obtain ⟨rfl, _⟩ := hser
    exact ⟨s, [], [], by simp [deserSubs], by simpa using hrs, Nat.le_refl _, by simp [allDefsGs],
      by simp [TreeRelGs], hfr, Prim.refl _ _, by simp [InfoOK, allDefsGs], by simp [ConstOK, allInitsGs]⟩
  | g :: rest, s, A, Ds, gps, ws, hser, hS, hI, hnd, hnew, hvis, hu, hrs, hfr => by
    obtain ⟨gp, ws1, gps', ws2, h1, h2, rfl⟩ := serSubs_inv hser
    simp only [SerGs] at hS
    simp only [InfoGs] at hI
    simp only [allDefsGs] at hnd hnew
    rw [List.nodup_append] at hnd
    obtain ⟨s1, g', B1, e1, r1, l1, k1, t1, f1, p1, io1, co1⟩ := rt_graph V td g s A Ds gp ws1 h1 hS.1 hI.1 hnd.1
      (fun v hv => hnew v (by simp [hv])) hvis hu hrs hfr
    have hlev : Ds.map (tableOf V (A ++ B1)) = Ds.map (tableOf V A) := levels_extend V A B1 Ds hvis
    obtain ⟨s2, gts, B2, e2, r2, l2, k2, t2, f2, p2, io2, co2⟩ := rt_subs V td rest s1 (A ++ B1) Ds gps' ws2 h2 hS.2 hI.2
      hnd.2.1
      (fun v hv hm => by
        rw [List.map_append, List.mem_append, k1] at hm
        rcases hm with h | h
        · exact hnew v (by simp [hv]) h
        · exact hnd.2.2 v h v hv rfl)
      (fun v hv ht => mem_keys_append (hvis v hv ht)) hu r1 f1
    rw [hlev] at e2
    have hk1 : ∀ v, v ∈ allDefsG V g → v ∈ (A ++ B1).map (·.1) := fun v hv => by
      rw [List.map_append, List.mem_append]; exact .inr ((k1 v).mpr hv)
    refine ⟨s2, g' :: gts, B1 ++ B2, ?_, by simpa [List.append_assoc] using r2, Nat.le_trans l1 l2, ?_, ?_, f2,
      p1.trans (p2.weaken l1), ?_, ?_⟩
    · simp only [deserSubs, e1, e2]
    · intro v
      rw [List.map_append, List.mem_append, k1, k2]
      simp [allDefsGs]
    · simp only [TreeRelGs]
      rw [← List.append_assoc]
      exact ⟨TreeRelG.mono V (A ++ B1) B2 g g' t1, t2⟩
    · rw [← List.append_assoc]
      have io1' := io1.step (B := B2) hk1 r1 p2
      intro v hv
      simp only [allDefsGs, List.mem_append] at hv
      rcases hv with hv | hv
      · exact io1' v hv
      · exact io2 v hv
    · rw [← List.append_assoc]
      have co1' := co1.step (B := B2) (fun kv hkv => hk1 kv.2 (allInits_sub_allDefsG V g kv hkv)) r1 p2
      intro kv hkv
      simp only [allInitsGs, List.mem_append] at hkv
      rcases hkv with hkv | hkv
      · exact co1' kv hkv
      · exact co2 kv hkv
end


/-! ### a serializable graph can be serialized -/

mutual
theorem serGraph_ok (V : Nat → ValueS) (td : TData) :
    ∀ (g : GraphT) (od : List Nat), SerG V od g → ∃ p ws, serGraph V td g = .ok (p, ws)
  | .mk gid ins inits nodes outs, od, h => by
    simp only [SerG] at h
    obtain ⟨_, _, hins, _, _, _, houts, hN⟩ := h
    obtain ⟨nps, vis, ws, hn⟩ := serNodes_ok V td nodes _ outs hN
    have h1 := serValues_of_names (V := V) (vs := ins) (fun v hv => ne_none_of_truthy (hins v hv))
    have h2 := serValues_of_names (V := V) (vs := outs) (fun v hv => ne_none_of_truthy (houts v hv).2)
    exact ⟨_, _, by simp only [serGraph, h1, hn, h2]; rfl⟩
theorem serNodes_ok (V : Nat → ValueS) (td : TData) :
    ∀ (ns : List NodeT) (vis gouts : List Nat), SerNs V vis gouts ns →
      ∃ nps vi ws, serNodes V td gouts ns = .ok (nps, vi, ws)
  | [], _, _, _ => ⟨[], [], [], rfl⟩
  | n :: ns, vis, gouts, h => by
    simp only [SerNs] at h
    obtain ⟨np, vi1, ws1, h1⟩ := serNode_ok V td n vis gouts h.1
    obtain ⟨nps, vi2, ws2, h2⟩ := serNodes_ok V td ns vis gouts h.2
    exact ⟨_, _, _, by simp only [serNodes, h1, h2]; rfl⟩
theorem serNode_ok (V : Nat → ValueS) (td : TData) :
    ∀ (n : NodeT) (vis gouts : List Nat), SerN V vis gouts n → ∃ np vi ws, serNode V td gouts n = .ok (np, vi, ws)
  | .mk i g ins outs subs, vis, gouts, h => by
    simp only [SerN] at h
    obtain ⟨hins, houts, hS⟩ := h
    obtain ⟨gps, ws, hs⟩ := serSubs_ok V td subs vis hS
    have h1 := serInputs_of_names (V := V) (ins := ins) (fun v hv => ne_none_of_truthy (hins v hv).2)
    have h2 := serOutNames_of_names (V := V) (vs := stripTrailing V outs)
      (fun v hv => houts v (stripTrailing_sub V outs v hv))
    exact ⟨_, _, _, by simp only [serNode, h1, h2, hs]; rfl⟩
theorem serSubs_ok (V : Nat → ValueS) (td : TData) :
    ∀ (gs : List GraphT) (vis : List Nat), SerGs V vis gs → ∃ gps ws, serSubs V td gs = .ok (gps, ws)
  | [], _, _ => ⟨[], [], rfl⟩
  | g :: gs, vis, h => by
    simp only [SerGs] at h
    obtain ⟨gp, ws1, h1⟩ := serGraph_ok V td g vis h.1
    obtain ⟨gps, ws2, h2⟩ := serSubs_ok V td gs vis h.2
    exact ⟨_, _, by simp only [serSubs, h1, h2]; rfl⟩
end

end IrVerif.Scope

/-
The walker's verdict decides the outcome of `Model.clone` (`modelVerdict`, Model/Clone2.lean): the
main graph and every function are cloned one after the other, each on the heap the previous clones
left.  Those heaps extend the source heap (cloning with `allow_outer_scope_values=False` changes no
pre-existing cell), and the walker's verdict is stable under heap extension (Lemmas/CloneLocal.lean).
-/
import IrVerif.Lemmas.CloneLocal
import IrVerif.Lemmas.CloneTotal
namespace IrVerif.Clone
namespace Total
open Local

theorem prefix_of_old {w w' : World} (hlen : w.length ≤ w'.length)
    (hold : ∀ (i : Nat) (c : Cell), w[i]? = some c → w'[i]? = some c) : ∃ ext, w' = w ++ ext := by
  refine ⟨w'.drop w.length, ?_⟩
  apply List.ext_getElem?
  intro i
  rcases Nat.lt_or_ge i w.length with h | h
  · rw [List.getElem?_append_left h, hold i _ (List.getElem?_eq_getElem h), List.getElem?_eq_getElem h]
  · rw [List.getElem?_append_right h, List.getElem?_drop]
    congr 1
    omega

/-- a clone made with `allow_outer_scope_values=False` only appends to the heap -/
theorem run_prefix {w : World} {m : M Nat} (hm : ∀ s, Inv w false s → GoodAt w false m s (NewId w))
    {r : Except Err Nat} {w' : World} (h : run m w = (r, w')) : ∃ ext, w' = w ++ ext := by
  obtain ⟨hI, _, _⟩ := hm _ (Inv.init w false)
  unfold run at h
  rcases hms : m { w := w } with ⟨r1, s1⟩
  rw [hms] at hI h
  simp only [Prod.mk.injEq] at h
  obtain ⟨rfl, rfl⟩ := h
  exact prefix_of_old hI.len (hI.oldEq rfl)

theorem withFreshMap_run {α : Type} (m : M α) (s : St) :
    withFreshMap m s = ((run (withFreshMap m) s.w).1, { s with w := (run (withFreshMap m) s.w).2 }) := by
  unfold run withFreshMap
  have e0 : ({ w := s.w, vm := [], pend := [], created := [] } : St) = { s with vm := [], pend := [], created := [] } := rfl
  simp only [e0]

theorem Sim.voidRes {α γ : Type} {m : M α} {s : St} {x : WRes γ} {Q : α → St → Prop}
    (h : Sim m s x (fun a s' _ => Q a s')) : Sim m s (x.bind fun _ => WRes.ok ()) (fun a s' _ => Q a s') := by
  cases x with
  | ok c => exact h
  | err e => exact h
  | irregular why => trivial

/-- an entry point with a fresh cloner, run inside `Model.clone`, against its verdict on the source heap -/
theorem sim_fresh {w : World} {m : M Nat} {γ : Type} {v : World → WRes γ}
    (hm : ∀ w1 s, Inv w1 false s → GoodAt w1 false (withFreshMap m) s (NewId w1))
    (hverdict : ∀ w1, match v w1 with
      | .ok _ => ∃ a w', run (withFreshMap m) w1 = (.ok a, w')
      | .err e => (run (withFreshMap m) w1).1 = .error e
      | .irregular _ => True)
    (hloc : ∀ ext, LocP (v w) (v (w ++ ext)) (fun _ => True))
    {s : St} {ext : World} (hs : s.w = w ++ ext) :
    Sim (withFreshMap m) s (v w) (fun _ s' _ => ∃ ext', s'.w = w ++ ext') := by
  have hv := hverdict s.w
  have hl := hloc ext
  rw [← hs] at hl
  cases hvw : v w with
  | irregular why => trivial
  | err e =>
    rw [hvw] at hl
    rw [hl.err_eq] at hv
    show (withFreshMap m s).1 = .error e
    rw [withFreshMap_run]
    exact hv
  | ok c =>
    rw [hvw] at hl
    rw [hl.ok_eq] at hv
    obtain ⟨a, w', hr⟩ := hv
    obtain ⟨ext2, he2⟩ := run_prefix (hm s.w) hr
    refine ⟨a, { s with w := w' }, by rw [withFreshMap_run, hr], ext ++ ext2, ?_⟩
    simp only [he2, hs, List.append_assoc]

theorem sim_graphClone {w : World} (fuel g : Nat) {s : St} {ext : World} (hs : s.w = w ++ ext) :
    Sim (graphClone fuel false g) s (cloneVerdict fuel false w g)
      (fun _ s' _ => ∃ ext', s'.w = w ++ ext') := by
  refine sim_fresh (m := cloneGraph false fuel g) (v := fun w1 => cloneVerdict fuel false w1 g)
    (fun w1 s hI => graphClone_good fuel g hI) (fun w1 => ?_) (fun ext => cloneVerdict_loc ext fuel false g) hs
  have := graphClone_verdict fuel false w1 g
  cases hv : cloneVerdict fuel false w1 g with
  | ok A =>
    rw [hv] at this
    obtain ⟨g', s', _, h2, _⟩ := this
    exact ⟨g', s'.w, h2⟩
  | err e => rw [hv] at this; exact this
  | irregular why => trivial

theorem funcClone_eq (fuel f : Nat) : funcClone fuel f = withFreshMap (do
    let fs ← readFunc f
    let g' ← cloneGraph false fuel fs.graph
    let attrs ← mapM' (fun ka => do
        let as ← readAttr ka.2
        cloneAttr (cloneGraph false fuel) as.name ka.2) fs.attrs
    alloc (.func { domain := fs.domain, name := fs.name, overload := fs.overload, graph := g',
                   attrs := dictOf attrs })) := rfl

theorem sim_funcClone {w : World} (fuel f : Nat) {s : St} {ext : World} (hs : s.w = w ++ ext) :
    Sim (funcClone fuel f) s ((funcVerdict fuel w f).bind fun _ => WRes.ok ())
      (fun _ s' _ => ∃ ext', s'.w = w ++ ext') := by
  rw [funcClone_eq]
  refine Sim.voidRes (sim_fresh (v := fun w1 => funcVerdict fuel w1 f)
    (fun w1 s hI => by rw [← funcClone_eq]; exact funcClone_good fuel f hI) (fun w1 => ?_)
    (fun ext => funcVerdict_loc ext fuel f) hs)
  rw [← funcClone_eq]
  have := funcClone_verdict fuel w1 f
  cases hv : funcVerdict fuel w1 f with
  | ok A => rw [hv] at this; exact this
  | err e => rw [hv] at this; exact this
  | irregular why => trivial

theorem sim_funcs {w : World} (fuel : Nat) : ∀ (fs : List Nat) (s : St) (ext : World), s.w = w ++ ext →
    Sim (mapM' (funcClone fuel) fs) s (wAll (fun f => (funcVerdict fuel w f).bind fun _ => WRes.ok ()) fs)
      (fun _ s' _ => ∃ ext', s'.w = w ++ ext')
  | [], s, ext, hs => Sim.pure ⟨ext, hs⟩
  | f :: fs, s, ext, hs => by
    unfold mapM' wAll
    refine Sim.bind (sim_funcClone fuel f hs) ?_
    rintro f' s1 _ ⟨ext1, hs1⟩
    refine Sim.bindLast (sim_funcs fuel fs s1 ext1 hs1) ?_
    intro rest s2 _ hq
    exact Sim.pure hq

theorem sim_readModel {w : World} (m : Nat) {s : St} {ext : World} (hs : s.w = w ++ ext) :
    Sim (readModel m) s (wModelCell w m) (fun x s' x0 => s' = s ∧ x = x0) := by
  unfold wModelCell wCell
  cases h : w[m]? with
  | none => trivial
  | some c0 =>
    have h1 : s.w[m]? = some c0 := by rw [hs]; exact get_ext ext h
    cases c0 with
    | model x => exact ⟨x, s, by simp [readModel, h1], rfl, rfl⟩
    | val x => simp [Sim, WRes.bind, readModel, h1]
    | node x => simp [Sim, WRes.bind, readModel, h1]
    | graph x => simp [Sim, WRes.bind, readModel, h1]
    | type x => simp [Sim, WRes.bind, readModel, h1]
    | shape x => simp [Sim, WRes.bind, readModel, h1]
    | dict x => simp [Sim, WRes.bind, readModel, h1]
    | attr x => simp [Sim, WRes.bind, readModel, h1]
    | func x => simp [Sim, WRes.bind, readModel, h1]
    | tensor x => simp [Sim, WRes.bind, readModel, h1]

theorem sim_copyPropsExt {w : World} (d : Nat) {s : St} {ext : World} (hs : s.w = w ++ ext) :
    Sim (copyProps d) s (wDict w d) (fun _ _ _ => True) := by
  unfold copyProps wDict wCell
  cases h : w[d]? with
  | none => trivial
  | some c0 =>
    have h1 : s.w[d]? = some c0 := by rw [hs]; exact get_ext ext h
    cases c0 with
    | dict x =>
      refine ⟨s.w.length, { s with w := s.w ++ [.dict { data := x.data, invalid := [] }] }, ?_, True.intro⟩
      show M.bind (readDict d) _ s = _
      simp [M.bind, readDict, h1, alloc]
    | val x => show (M.bind (readDict d) _ s).1 = _; simp [M.bind, readDict, h1]
    | node x => show (M.bind (readDict d) _ s).1 = _; simp [M.bind, readDict, h1]
    | graph x => show (M.bind (readDict d) _ s).1 = _; simp [M.bind, readDict, h1]
    | type x => show (M.bind (readDict d) _ s).1 = _; simp [M.bind, readDict, h1]
    | shape x => show (M.bind (readDict d) _ s).1 = _; simp [M.bind, readDict, h1]
    | model x => show (M.bind (readDict d) _ s).1 = _; simp [M.bind, readDict, h1]
    | attr x => show (M.bind (readDict d) _ s).1 = _; simp [M.bind, readDict, h1]
    | func x => show (M.bind (readDict d) _ s).1 = _; simp [M.bind, readDict, h1]
    | tensor x => show (M.bind (readDict d) _ s).1 = _; simp [M.bind, readDict, h1]

/-- the walker's verdict decides the outcome of `Model.clone` -/
theorem modelClone_verdict (fuel : Nat) (w : World) (m : Nat) :
    match modelVerdict fuel w m with
    | .ok _ => ∃ m' w', run (modelClone fuel m) w = (.ok m', w')
    | .err e => (run (modelClone fuel m) w).1 = .error e
    | .irregular _ => True := by
  have hsim : Sim (modelClone fuel m) { w := w } (modelVerdict fuel w m) (fun _ _ _ => True) := by
    unfold modelClone modelVerdict
    have hs0 : ({ w := w } : St).w = w ++ [] := by simp
    refine Sim.bind (sim_readModel m hs0) ?_
    rintro ms s1 ms0 ⟨rfl, rfl⟩
    refine Sim.bind (sim_graphClone fuel ms.graph hs0) ?_
    rintro g' s2 _ ⟨ext2, hs2⟩
    refine Sim.bind (sim_funcs fuel ms.funcs s2 ext2 hs2) ?_
    rintro fs s3 _ ⟨ext3, hs3⟩
    refine Sim.bindLast (sim_copyPropsExt ms.props hs3) ?_
    intro pr s4 _ _
    exact ⟨_, _, rfl, True.intro⟩
  cases hv : modelVerdict fuel w m with
  | ok u =>
    rw [hv] at hsim
    obtain ⟨m', s', h1, _⟩ := hsim
    exact ⟨m', s'.w, by simp only [run, h1]⟩
  | err e =>
    rw [hv] at hsim
    have h1 : (modelClone fuel m { w := w }).1 = .error e := hsim
    simp only [run]
    rcases hc : modelClone fuel m { w := w } with ⟨x, s'⟩
    rw [hc] at h1
    exact h1
  | irregular why => trivial

end Total
end IrVerif.Clone
